/-
  Helper lemmas for RV.Props.Finder (core Lean only).
-/
import RV.Oracle.Finder
namespace RV.Lemmas.Finder
open RV.Finder RV.Oracle.Finder

/-! ### `strings.LastIndex` and the slice after it -/

/-- where the last dash is: either there is none, or the string splits around it -/
theorem lastIndexDash_spec (cs : List Char) :
    (lastIndexDash cs = -1 ∧ '-' ∉ cs) ∨
    (∃ pre suf, cs = pre ++ '-' :: suf ∧ lastIndexDash cs = pre.length ∧ '-' ∉ suf) := by
  induction cs with
  | nil => left; simp [lastIndexDash]
  | cons c cs ih =>
    rcases ih with ⟨h1, h2⟩ | ⟨pre, suf, h1, h2, h3⟩
    · by_cases hc : c = '-'
      · right; refine ⟨[], cs, by simp [hc], ?_, h2⟩
        simp [lastIndexDash, h1, hc]
      · left; refine ⟨?_, ?_⟩
        · simp [lastIndexDash, h1, hc]
        · simp only [List.mem_cons, not_or]; exact ⟨fun h => hc h.symm, h2⟩
    · right; refine ⟨c :: pre, suf, by simp [h1], ?_, h3⟩
      have : (0 : Int) ≤ (pre.length : Int) := Int.natCast_nonneg _
      simp only [lastIndexDash, h2, this, if_true, List.length_cons]
      omega

theorem lastIndexDash_bounds (cs : List Char) : -1 ≤ lastIndexDash cs ∧ lastIndexDash cs < cs.length := by
  rcases lastIndexDash_spec cs with ⟨h1, _⟩ | ⟨pre, suf, h1, h2, _⟩
  · rw [h1]; constructor
    · omega
    · have : (0 : Int) ≤ (cs.length : Int) := Int.natCast_nonneg _
      omega
  · rw [h2]; constructor
    · have : (0 : Int) ≤ (pre.length : Int) := Int.natCast_nonneg _
      omega
    · rw [h1]; simp only [List.length_append, List.length_cons]; omega

theorem takeWhile_append_stop {α : Type} (p : α → Bool) (l : List α) (a : α) (r : List α)
    (hl : ∀ x ∈ l, p x = true) (ha : p a = false) : (l ++ a :: r).takeWhile p = l := by
  induction l with
  | nil => simp [List.takeWhile, ha]
  | cons x xs ih =>
    have hx : p x = true := hl x (by simp)
    simp only [List.cons_append, List.takeWhile, hx]
    rw [ih (fun y hy => hl y (by simp [hy]))]

theorem takeWhile_all {α : Type} (p : α → Bool) (l : List α) (hl : ∀ x ∈ l, p x = true) : l.takeWhile p = l := by
  induction l with
  | nil => rfl
  | cons x xs ih =>
    have hx : p x = true := hl x (by simp)
    simp only [List.takeWhile, hx]
    rw [ih (fun y hy => hl y (by simp [hy]))]

/-- the characters after the last dash, on lists -/
def afterLast (cs : List Char) : List Char := (cs.reverse.takeWhile (· != '-')).reverse

theorem afterLast_split (pre suf : List Char) (h : '-' ∉ suf) : afterLast (pre ++ '-' :: suf) = suf := by
  unfold afterLast
  have : (pre ++ '-' :: suf).reverse = suf.reverse ++ '-' :: pre.reverse := by simp
  rw [this, takeWhile_append_stop]
  · simp
  · intro x hx
    have hx' : x ∈ suf := by simpa using hx
    have : x ≠ '-' := fun e => h (e ▸ hx')
    simpa using this
  · simp

theorem afterLast_nodash (cs : List Char) (h : '-' ∉ cs) : afterLast cs = cs := by
  unfold afterLast
  rw [takeWhile_all]
  · simp
  · intro x hx
    have hx' : x ∈ cs := by simpa using hx
    have : x ≠ '-' := fun e => h (e ▸ hx')
    simpa using this

/-- the Go slice expression never goes out of range, and cuts exactly after the last dash -/
theorem sliceFrom_lastIndex (cs : List Char) : sliceFrom cs (lastIndexDash cs + 1) = some (afterLast cs) := by
  rcases lastIndexDash_spec cs with ⟨h1, h2⟩ | ⟨pre, suf, rfl, h2, h3⟩
  · have : (0 : Int) ≤ (cs.length : Int) := Int.natCast_nonneg _
    simp [sliceFrom, h1, afterLast_nodash cs h2]
  · have hlen : (0 : Int) ≤ (pre.length : Int) := Int.natCast_nonneg _
    have hl : (pre ++ '-' :: suf).length = pre.length + 1 + suf.length := by
      simp only [List.length_append, List.length_cons]; omega
    unfold sliceFrom
    rw [h2, if_pos ⟨by omega, by rw [hl]; omega⟩]
    have : ((pre.length : Int) + 1).toNat = pre.length + 1 := by omega
    rw [this]
    have hd : (pre ++ '-' :: suf).drop (pre.length + 1) = suf := by
      rw [show pre ++ '-' :: suf = (pre ++ ['-']) ++ suf by simp]
      exact List.drop_left' (by simp)
    rw [hd, afterLast_split pre suf h3]

theorem revSuffix?_eq (s : String) : revSuffix? s = some (suffix s) := by
  unfold revSuffix? suffix
  rw [sliceFrom_lastIndex]
  rfl

/-! ### insertion sort and the minimum -/

theorem mem_insertBy {α : Type} (lt : α → α → Bool) (x y : α) (l : List α) : y ∈ insertBy lt x l ↔ y = x ∨ y ∈ l := by
  induction l with
  | nil => simp [insertBy]
  | cons z zs ih =>
    unfold insertBy
    split
    · simp
    · simp only [List.mem_cons, ih]
      constructor
      · rintro (h | h | h)
        · exact Or.inr (Or.inl h)
        · exact Or.inl h
        · exact Or.inr (Or.inr h)
      · rintro (h | h | h)
        · exact Or.inr (Or.inl h)
        · exact Or.inl h
        · exact Or.inr (Or.inr h)

theorem mem_sortBy {α : Type} (lt : α → α → Bool) (y : α) (l : List α) : y ∈ sortBy lt l ↔ y ∈ l := by
  induction l with
  | nil => simp [sortBy]
  | cons x xs ih => simp [sortBy, mem_insertBy, ih]

theorem head?_insertBy {α : Type} (lt : α → α → Bool) (x : α) (l : List α) :
    (insertBy lt x l).head? = match l.head? with
      | none => some x
      | some m => if lt x m then some x else some m := by
  cases l with
  | nil => simp [insertBy]
  | cons z zs =>
    simp only [insertBy, List.head?_cons]
    split <;> simp

/-- the first element after sorting is `minBy` -/
theorem head?_sortBy {α : Type} (lt : α → α → Bool) (l : List α) : (sortBy lt l).head? = minBy lt l := by
  induction l with
  | nil => simp [sortBy, minBy]
  | cons x xs ih =>
    simp only [sortBy, head?_insertBy, ih, minBy]
    cases minBy lt xs <;> simp

theorem minBy_none {α : Type} (lt : α → α → Bool) (l : List α) : minBy lt l = none ↔ l = [] := by
  cases l with
  | nil => simp [minBy]
  | cons x xs =>
    simp only [minBy]
    cases minBy lt xs with
    | none => simp
    | some m => simp only; split <;> simp

/-- for a comparator that compares integer keys, `minBy` is a least element -/
theorem minBy_key {α : Type} (k : α → Int) (l : List α) (m : α)
    (h : minBy (fun a b => decide (k a < k b)) l = some m) : m ∈ l ∧ ∀ y ∈ l, k m ≤ k y := by
  induction l generalizing m with
  | nil => simp [minBy] at h
  | cons x xs ih =>
    simp only [minBy] at h
    cases hm : minBy (fun a b => decide (k a < k b)) xs with
    | none =>
      rw [hm] at h
      have hx : xs = [] := (minBy_none _ _).1 hm
      simp only [Option.some.injEq] at h
      subst h; subst hx
      simp
    | some m' =>
      rw [hm] at h
      have ⟨hmem, hle⟩ := ih m' hm
      simp only at h
      by_cases hlt : k x < k m'
      · simp only [hlt, decide_true, if_true, Option.some.injEq] at h
        subst h
        refine ⟨by simp, ?_⟩
        intro y hy
        simp only [List.mem_cons] at hy
        rcases hy with rfl | hy
        · exact Int.le_refl _
        · have := hle y hy; omega
      · simp only [hlt, decide_false, Bool.false_eq_true, if_false, Option.some.injEq] at h
        subst h
        refine ⟨by simp [hmem], ?_⟩
        intro y hy
        simp only [List.mem_cons] at hy
        rcases hy with rfl | hy
        · omega
        · exact hle y hy

/-- sortedness by an integer key -/
def SortedK {α : Type} (k : α → Int) : List α → Prop
  | [] => True
  | x :: xs => (∀ y ∈ xs, k x ≤ k y) ∧ SortedK k xs

theorem sortedK_insertBy {α : Type} (k : α → Int) (x : α) (l : List α) (h : SortedK k l) :
    SortedK k (insertBy (fun a b => decide (k a < k b)) x l) := by
  induction l with
  | nil => simp [insertBy, SortedK]
  | cons z zs ih =>
    unfold insertBy
    by_cases hlt : k x < k z
    · simp only [hlt, decide_true, if_true]
      refine ⟨?_, h⟩
      intro y hy
      simp only [List.mem_cons] at hy
      rcases hy with rfl | hy
      · omega
      · have := h.1 y hy; omega
    · simp only [hlt, decide_false, Bool.false_eq_true, if_false]
      refine ⟨?_, ih h.2⟩
      intro y hy
      rw [mem_insertBy] at hy
      rcases hy with rfl | hy
      · omega
      · exact h.1 y hy

theorem sortedK_sortBy {α : Type} (k : α → Int) (l : List α) : SortedK k (sortBy (fun a b => decide (k a < k b)) l) := by
  induction l with
  | nil => simp [sortBy, SortedK]
  | cons x xs ih => exact sortedK_insertBy k x _ ih

theorem insertBy_front {α : Type} (k : α → Int) (x : α) (l : List α) (h : ∀ y ∈ l, k x < k y) :
    insertBy (fun a b => decide (k a < k b)) x l = x :: l := by
  cases l with
  | nil => rfl
  | cons z zs =>
    have : k x < k z := h z (by simp)
    simp [insertBy, this]

theorem filter_insertBy {α : Type} (k : α → Int) (p : α → Bool) (x : α) (l : List α) (h : SortedK k l) :
    (insertBy (fun a b => decide (k a < k b)) x l).filter p =
      if p x then insertBy (fun a b => decide (k a < k b)) x (l.filter p) else l.filter p := by
  induction l with
  | nil => by_cases hp : p x <;> simp [insertBy, hp]
  | cons z zs ih =>
    rw [show insertBy (fun a b => decide (k a < k b)) x (z :: zs) =
          if decide (k x < k z) = true then x :: z :: zs else z :: insertBy (fun a b => decide (k a < k b)) x zs from rfl]
    by_cases hlt : k x < k z
    · simp only [hlt, decide_true, if_true]
      by_cases hp : p x
      · simp only [List.filter_cons, hp, if_true]
        by_cases hz : p z
        · simp [hz, insertBy, hlt]
        · simp only [hz, Bool.false_eq_true, if_false]
          rw [insertBy_front]
          intro y hy
          have hy' : y ∈ zs := (List.mem_filter.1 hy).1
          have := h.1 y hy'
          omega
      · simp [List.filter_cons, hp]
    · simp only [hlt, decide_false, Bool.false_eq_true, if_false]
      rw [List.filter_cons, ih h.2]
      by_cases hp : p x
      · simp only [hp, if_true]
        by_cases hz : p z
        · simp [List.filter_cons, hz, insertBy, hlt]
        · simp [List.filter_cons, hz]
      · simp only [hp, Bool.false_eq_true, if_false]
        by_cases hz : p z <;> simp [List.filter_cons, hz]

theorem filter_sortBy {α : Type} (k : α → Int) (p : α → Bool) (l : List α) :
    (sortBy (fun a b => decide (k a < k b)) l).filter p = sortBy (fun a b => decide (k a < k b)) (l.filter p) := by
  induction l with
  | nil => simp [sortBy]
  | cons x xs ih =>
    simp only [sortBy]
    rw [filter_insertBy k p x _ (sortedK_sortBy k xs), ih]
    by_cases hp : p x <;> simp [List.filter_cons, hp, sortBy]

theorem find?_eq_head?_filter {α : Type} (p : α → Bool) (l : List α) : l.find? p = (l.filter p).head? :=
  List.head?_filter.symm

/-- the first element with `p` after sorting by a key is `minBy` over the elements with `p` -/
theorem find?_sortBy {α : Type} (k : α → Int) (p : α → Bool) (l : List α) :
    (sortBy (fun a b => decide (k a < k b)) l).find? p = minBy (fun a b => decide (k a < k b)) (l.filter p) := by
  rw [find?_eq_head?_filter, filter_sortBy, head?_sortBy]

/-! ### the API client -/

theorem lookup_mem {α : Type} (key : α → Meta) (l : List α) (ns name : String) (o : α)
    (h : lookup key l ns name = some o) : o ∈ l := List.mem_of_find?_eq_some h

theorem get_found {α : Type} (c : Cluster) (kind : String) (key : α → Meta) (l : List α) (ns name : String) (o : α)
    (h : c.get kind key l ns name = .found o) : lookup key l ns name = some o := by
  unfold Cluster.get at h
  split at h
  · cases h
  · split at h
    · cases h; assumption
    · cases h

theorem get_notFound {α : Type} (c : Cluster) (kind : String) (key : α → Meta) (l : List α) (ns name : String)
    (h : c.get kind key l ns name = .notFound) : lookup key l ns name = none := by
  unfold Cluster.get at h
  split at h
  · cases h
  · split at h
    · cases h
    · assumption

theorem get_noFault {α : Type} (c : Cluster) (kind : String) (key : α → Meta) (l : List α) (ns name : String)
    (hf : c.failGet = []) (hl : lookup key l ns name = none) : c.get kind key l ns name = .notFound := by
  unfold Cluster.get
  simp [hf, hl]

/-! ### verifyGroupKind -/

theorem vgk_ok (ref : Ref) (k g : String) :
    (verifyGroupKind ref k [g]).ok = (groupOf ref == some g && ref.kind == k) := by
  unfold verifyGroupKind groupOf
  cases parseGroupVersion ref.apiVersion with
  | none => simp
  | some gv =>
    by_cases hk : ref.kind = k
    · by_cases hg : gv.group = g
      · simp [hk, hg]
      · have : ¬ g = gv.group := fun e => hg e.symm
        simp [hk, hg, this]
    · simp [hk]

/-! ### CloneSet -/

theorem cloneSet_wl (c : Cluster) (ns : String) (ref : Ref) (w : W) (h : getKruiseCloneSet c ns ref = .wl w) :
    ∃ cs, lookup CloneSet.m c.cloneSets ns ref.name = some cs ∧ agrees w (cloneSetFacts cs) = true := by
  unfold getKruiseCloneSet at h
  split at h
  · cases h
  · cases hg : c.getCloneSet ns ref.name with
    | notFound => rw [hg] at h; cases h
    | err => rw [hg] at h; cases h
    | found cs =>
      rw [hg] at h
      refine ⟨cs, get_found _ _ _ _ _ _ _ hg, ?_⟩
      simp only [revSuffix?_eq] at h
      split at h
      · cases h; simp_all [agrees, cloneSetFacts, W.opaque]
      · cases hr : cs.replicas with
        | none => rw [hr] at h; cases h
        | some r =>
          rw [hr] at h
          simp only at h
          split at h
          · cases h; simp_all [agrees, cloneSetFacts, W.opaque]
          · split at h <;> (cases h; simp_all [agrees, cloneSetFacts, W.opaque]) <;>
              (apply Decidable.not_or_of_imp; assumption)

theorem cloneSet_nothing (c : Cluster) (ns : String) (ref : Ref) (h : getKruiseCloneSet c ns ref = .nothing)
    (ho : owns c.filter (groupOf ref) ref.kind .cloneSet = true) : lookup CloneSet.m c.cloneSets ns ref.name = none := by
  unfold getKruiseCloneSet at h
  rw [vgk_ok] at h
  simp only [owns] at ho
  simp only [ho, Bool.not_true, Bool.false_eq_true, if_false] at h
  cases hg : c.getCloneSet ns ref.name with
  | notFound => exact get_notFound _ _ _ _ _ _ hg
  | err => rw [hg] at h; cases h
  | found cs =>
    rw [hg] at h
    simp only [revSuffix?_eq] at h
    split at h
    · cases h
    · cases hr : cs.replicas with
      | none => rw [hr] at h; cases h
      | some r =>
        rw [hr] at h
        simp only at h
        split at h
        · cases h
        · split at h <;> cases h

theorem cloneSet_not_owns (c : Cluster) (ns : String) (ref : Ref)
    (ho : owns c.filter (groupOf ref) ref.kind .cloneSet = false) : getKruiseCloneSet c ns ref = .nothing := by
  unfold getKruiseCloneSet
  rw [vgk_ok]
  simp only [owns] at ho
  simp [ho]

theorem cloneSet_absent (c : Cluster) (ns : String) (ref : Ref) (hf : c.failGet = [])
    (hp : present c ns ref .cloneSet = false) : getKruiseCloneSet c ns ref = .nothing := by
  unfold getKruiseCloneSet
  split
  · rfl
  · have : lookup CloneSet.m c.cloneSets ns ref.name = none := by
      simp only [present] at hp
      cases hl : lookup CloneSet.m c.cloneSets ns ref.name <;> simp_all
    unfold Cluster.getCloneSet
    rw [get_noFault _ _ _ _ _ _ hf this]

theorem cloneSet_not_wlErr (c : Cluster) (ns : String) (ref : Ref) (w : W) : getKruiseCloneSet c ns ref ≠ .wlErr w := by
  intro h
  unfold getKruiseCloneSet at h
  split at h
  · cases h
  · cases hg : c.getCloneSet ns ref.name with
    | notFound => rw [hg] at h; cases h
    | err => rw [hg] at h; cases h
    | found cs =>
      rw [hg] at h
      simp only [revSuffix?_eq] at h
      split at h
      · cases h
      · cases hr : cs.replicas with
        | none => rw [hr] at h; cases h
        | some r =>
          rw [hr] at h
          simp only at h
          split at h
          · cases h
          · split at h <;> cases h

theorem all_mem {α : Type} {p : α → Bool} {l : List α} (h : l.all p = true) {x : α} (hx : x ∈ l) : p x = true :=
  List.all_eq_true.1 h x hx

theorem cloneSet_no_panic (c : Cluster) (ns : String) (ref : Ref) (hadm : c.cloneSets.all (·.replicas.isSome) = true) :
    getKruiseCloneSet c ns ref ≠ .panic := by
  intro h
  unfold getKruiseCloneSet at h
  split at h
  · cases h
  · cases hg : c.getCloneSet ns ref.name with
    | notFound => rw [hg] at h; cases h
    | err => rw [hg] at h; cases h
    | found cs =>
      rw [hg] at h
      have hmem := lookup_mem _ _ _ _ _ (get_found _ _ _ _ _ _ _ hg)
      have hrep := all_mem hadm hmem
      simp only [revSuffix?_eq] at h
      split at h
      · cases h
      · cases hr : cs.replicas with
        | none => simp [hr] at hrep
        | some r =>
          rw [hr] at h
          simp only at h
          split at h
          · cases h
          · split at h <;> cases h

/-! ### DaemonSet -/

theorem daemonSet_wl (c : Cluster) (ns : String) (ref : Ref) (w : W) (h : getKruiseDaemonSet c ns ref = .wl w) :
    ∃ ds, lookup DaemonSet.m c.daemonSets ns ref.name = some ds ∧ agrees w (daemonSetFacts ds) = true := by
  unfold getKruiseDaemonSet at h
  split at h
  · cases h
  · cases hg : c.getDaemonSet ns ref.name with
    | notFound => rw [hg] at h; cases h
    | err => rw [hg] at h; cases h
    | found ds =>
      rw [hg] at h
      refine ⟨ds, get_found _ _ _ _ _ _ _ hg, ?_⟩
      simp only [revSuffix?_eq] at h
      split at h
      · cases h; simp_all [agrees, daemonSetFacts, W.opaque]
      · split at h <;> (cases h; simp_all [agrees, daemonSetFacts, W.opaque])

theorem daemonSet_nothing (c : Cluster) (ns : String) (ref : Ref) (h : getKruiseDaemonSet c ns ref = .nothing)
    (ho : owns c.filter (groupOf ref) ref.kind .daemonSet = true) : lookup DaemonSet.m c.daemonSets ns ref.name = none := by
  unfold getKruiseDaemonSet at h
  rw [vgk_ok] at h
  simp only [owns] at ho
  simp only [ho, Bool.not_true, Bool.false_eq_true, if_false] at h
  cases hg : c.getDaemonSet ns ref.name with
  | notFound => exact get_notFound _ _ _ _ _ _ hg
  | err => rw [hg] at h; cases h
  | found ds =>
    rw [hg] at h
    simp only [revSuffix?_eq] at h
    split at h
    · cases h
    · split at h <;> cases h

theorem daemonSet_not_owns (c : Cluster) (ns : String) (ref : Ref)
    (ho : owns c.filter (groupOf ref) ref.kind .daemonSet = false) : getKruiseDaemonSet c ns ref = .nothing := by
  unfold getKruiseDaemonSet
  rw [vgk_ok]
  simp only [owns] at ho
  simp [ho]

theorem daemonSet_absent (c : Cluster) (ns : String) (ref : Ref) (hf : c.failGet = [])
    (hp : present c ns ref .daemonSet = false) : getKruiseDaemonSet c ns ref = .nothing := by
  unfold getKruiseDaemonSet
  split
  · rfl
  · have : lookup DaemonSet.m c.daemonSets ns ref.name = none := by
      simp only [present] at hp
      cases hl : lookup DaemonSet.m c.daemonSets ns ref.name <;> simp_all
    unfold Cluster.getDaemonSet
    rw [get_noFault _ _ _ _ _ _ hf this]

theorem daemonSet_not_wlErr_panic (c : Cluster) (ns : String) (ref : Ref) :
    (∀ w, getKruiseDaemonSet c ns ref ≠ .wlErr w) ∧ getKruiseDaemonSet c ns ref ≠ .panic := by
  have key : ∀ o, getKruiseDaemonSet c ns ref = o → (∀ w, o ≠ .wlErr w) ∧ o ≠ .panic := by
    intro o h
    unfold getKruiseDaemonSet at h
    split at h
    · subst h; simp
    · cases hg : c.getDaemonSet ns ref.name with
      | notFound => rw [hg] at h; subst h; simp
      | err => rw [hg] at h; subst h; simp
      | found ds =>
        rw [hg] at h
        simp only [revSuffix?_eq] at h
        split at h
        · subst h; simp
        · split at h <;> (subst h; simp)
  exact key _ rfl

/-! ### ReplicaSets and canary Deployments -/

theorem activeOwned_invalid (c : Cluster) (d : Deployment) (h : d.selector = .invalid) : activeOwned c d = [] := by
  unfold activeOwned
  rw [List.filter_eq_nil_iff]
  intro rs _
  simp [h, Sel.mts]

theorem rss_ok (c : Cluster) (d : Deployment) (n : Nat) (rss : List ReplicaSet)
    (h : getReplicaSetsForDeployment c d n = .ok rss) : rss = activeOwned c d := by
  unfold getReplicaSetsForDeployment at h
  split at h
  · rename_i hs
    cases h
    exact (activeOwned_invalid c d hs).symm
  · split at h
    · split at h
      · cases h
      · cases h; rfl
    · cases h; rfl

theorem createdBefore_key : createdBefore = fun a b => decide ((fun rs : ReplicaSet => rs.m.created) a < (fun rs : ReplicaSet => rs.m.created) b) := rfl

theorem createdAfter_key : createdAfter = fun a b => decide ((fun d : Deployment => -d.m.created) a < (fun d : Deployment => -d.m.created) b) := by
  funext a b
  simp only [createdAfter]
  rw [decide_eq_decide]
  omega

theorem stableRs_ok (c : Cluster) (d : Deployment) (n : Nat) (r : Option ReplicaSet)
    (h : getDeploymentStableRs c d n = .ok r) : r = oldestRs c d := by
  unfold getDeploymentStableRs at h
  cases hr : getReplicaSetsForDeployment c d n with
  | error e => rw [hr] at h; cases h
  | ok rss =>
    rw [hr] at h
    have := rss_ok c d n rss hr
    subst this
    simp only at h
    unfold oldestRs
    split at h
    · rename_i hl
      cases h
      have : activeOwned c d = [] := List.eq_nil_of_length_eq_zero hl
      rw [this]; rfl
    · cases h
      rw [← List.head?_eq_getElem?, head?_sortBy]

theorem canary_ok (c : Cluster) (d : Deployment) (r : Option Deployment)
    (h : getLatestCanaryDeployment c d = .ok r) : r = newestLiveCanary c d := by
  unfold getLatestCanaryDeployment at h
  split at h
  · cases h
  · simp only at h
    unfold newestLiveCanary
    split at h
    · rename_i hl
      cases h
      have : canariesOf c d = [] := List.eq_nil_of_length_eq_zero hl
      rw [this]; rfl
    · cases h
      rw [createdAfter_key, find?_sortBy]

/-- the stable ReplicaSet is an oldest one among those that count -/
theorem oldestRs_spec (c : Cluster) (d : Deployment) (rs : ReplicaSet) (h : oldestRs c d = some rs) :
    rs ∈ activeOwned c d ∧ ∀ o ∈ activeOwned c d, rs.m.created ≤ o.m.created := by
  unfold oldestRs at h
  rw [createdBefore_key] at h
  exact minBy_key _ _ _ h

theorem newestLiveCanary_spec (c : Cluster) (d cd : Deployment) (h : newestLiveCanary c d = some cd) :
    cd ∈ canariesOf c d ∧ cd.m.deleting = false ∧ ∀ o ∈ canariesOf c d, o.m.deleting = false → o.m.created ≤ cd.m.created := by
  unfold newestLiveCanary at h
  rw [createdAfter_key] at h
  have ⟨hm, hle⟩ := minBy_key _ _ _ h
  rw [List.mem_filter] at hm
  refine ⟨hm.1, by simpa using hm.2, ?_⟩
  intro o ho hd
  have := hle o (List.mem_filter.2 ⟨ho, by simp [hd]⟩)
  omega

/-! ### canary-style Deployment -/

theorem deployment_wl (c : Cluster) (ns : String) (ref : Ref) (w : W) (h : getDeployment c ns ref = .wl w) :
    ∃ d, lookup Deployment.m c.deployments ns ref.name = some d ∧ agrees w (canaryDeploymentFacts c d) = true := by
  unfold getDeployment at h
  split at h
  · cases h
  · cases hg : c.getDeployment ns ref.name with
    | notFound => rw [hg] at h; cases h
    | err => rw [hg] at h; cases h
    | found d =>
      rw [hg] at h
      refine ⟨d, get_found _ _ _ _ _ _ _ hg, ?_⟩
      simp only at h
      split at h
      · cases h
        unfold canaryDeploymentFacts
        cases oldestRs c d <;> simp_all [agrees, W.opaque]
      · cases hs : getDeploymentStableRs c d 0 with
        | error e => rw [hs] at h; cases h
        | ok r =>
          rw [hs] at h
          have hr := stableRs_ok c d 0 r hs
          subst hr
          cases ho : oldestRs c d with
          | none =>
            rw [ho] at h; cases h
            simp [agrees, canaryDeploymentFacts, ho, W.opaque]
          | some rs =>
            rw [ho] at h
            simp only at h
            cases hrep : d.replicas with
            | none => rw [hrep] at h; cases h
            | some rep =>
              rw [hrep] at h
              simp only at h
              split at h
              · cases h; simp_all [agrees, canaryDeploymentFacts, W.opaque]
              · split at h
                · cases h; simp_all [agrees, canaryDeploymentFacts, W.opaque]
                · cases hc : getLatestCanaryDeployment c d with
                  | error e => rw [hc] at h; cases h
                  | ok cd =>
                    rw [hc] at h
                    have hcd := canary_ok c d cd hc
                    subst hcd
                    cases hn : newestLiveCanary c d with
                    | none => rw [hn] at h; cases h; simp_all [agrees, canaryDeploymentFacts, W.opaque]
                    | some cd =>
                      rw [hn] at h
                      simp only at h
                      cases hs2 : getDeploymentStableRs c cd 1 with
                      | error e => rw [hs2] at h; cases h
                      | ok r2 =>
                        rw [hs2] at h
                        have hr2 := stableRs_ok c cd 1 r2 hs2
                        subst hr2
                        cases ho2 : oldestRs c cd with
                        | none => rw [ho2] at h; cases h; simp_all [agrees, canaryDeploymentFacts, W.opaque]
                        | some crs => rw [ho2] at h; cases h; simp_all [agrees, canaryDeploymentFacts, W.opaque]

/-- every other outcome of the canary-style finder -/
theorem deployment_out (c : Cluster) (ns : String) (ref : Ref) (o : Out) (h : getDeployment c ns ref = o) :
    (o = .nothing → owns c.filter (groupOf ref) ref.kind .deployment = true → lookup Deployment.m c.deployments ns ref.name = none) ∧
    (∀ w, o = .wlErr w → w.isInRollback = false ∧ (w.isStatusConsistent = true ∨ w = W.opaque)) ∧
    (o = .panic → ∃ d, lookup Deployment.m c.deployments ns ref.name = some d ∧ d.replicas = none) := by
  unfold getDeployment at h
  rw [vgk_ok] at h
  split at h
  · rename_i hv
    subst h
    refine ⟨fun _ ho => ?_, by simp, by simp⟩
    simp only [owns] at ho
    simp [ho] at hv
  · cases hg : c.getDeployment ns ref.name with
    | notFound => rw [hg] at h; subst h; simp [get_notFound _ _ _ _ _ _ hg]
    | err => rw [hg] at h; subst h; simp
    | found d =>
      rw [hg] at h
      have hl := get_found _ _ _ _ _ _ _ hg
      simp only at h
      split at h
      · subst h; simp
      · cases hs : getDeploymentStableRs c d 0 with
        | error e => rw [hs] at h; subst h; simp [W.opaque]
        | ok r =>
          rw [hs] at h
          cases r with
          | none => subst h; simp
          | some rs =>
            simp only at h
            cases hrep : d.replicas with
            | none => rw [hrep] at h; subst h; simp [hl, hrep]
            | some rep =>
              rw [hrep] at h
              simp only at h
              split at h
              · subst h; simp
              · split at h
                · subst h; simp
                · cases hc : getLatestCanaryDeployment c d with
                  | error e => rw [hc] at h; subst h; simp
                  | ok cd =>
                    rw [hc] at h
                    cases cd with
                    | none => subst h; simp
                    | some cd =>
                      simp only at h
                      cases hs2 : getDeploymentStableRs c cd 1 with
                      | error e => rw [hs2] at h; subst h; simp
                      | ok r2 =>
                        rw [hs2] at h
                        cases r2 <;> (subst h; simp)

theorem deployment_not_owns (c : Cluster) (ns : String) (ref : Ref)
    (ho : owns c.filter (groupOf ref) ref.kind .deployment = false) : getDeployment c ns ref = .nothing := by
  unfold getDeployment
  rw [vgk_ok]
  simp only [owns] at ho
  simp [ho]

theorem deployment_absent (c : Cluster) (ns : String) (ref : Ref) (hf : c.failGet = [])
    (hp : present c ns ref .deployment = false) : getDeployment c ns ref = .nothing := by
  unfold getDeployment
  split
  · rfl
  · have : lookup Deployment.m c.deployments ns ref.name = none := by
      simp only [present] at hp
      cases hl : lookup Deployment.m c.deployments ns ref.name <;> simp_all
    unfold Cluster.getDeployment
    rw [get_noFault _ _ _ _ _ _ hf this]

/-! ### partition-style (advanced) Deployment -/

theorem findLoop_new (d : Deployment) (l : List ReplicaSet) (n o n' o' : Option ReplicaSet)
    (h : findLoop d l (n, o) = some (n', o')) :
    n' = match (l.filter fun rs => rs.template == d.template).getLast? with
         | some x => some x
         | none => n := by
  induction l generalizing n o with
  | nil => simp [findLoop] at h; simp [h.1]
  | cons rs rest ih =>
    unfold findLoop at h
    split at h
    · rename_i ht
      have := ih _ _ h
      rw [this]
      simp only [List.filter_cons, ht, beq_self_eq_true, if_true, List.getLast?_cons]
      cases (List.filter (fun rs => rs.template == d.template) rest).getLast? <;> simp
    · rename_i ht
      have hf : (List.filter (fun rs => rs.template == d.template) (rs :: rest)) = List.filter (fun rs => rs.template == d.template) rest := by
        simp [List.filter_cons, ht]
      rw [hf]
      split at h
      · cases hr : rs.replicas with
        | none => rw [hr] at h; cases h
        | some r =>
          rw [hr] at h
          simp only at h
          split at h <;> exact ih _ _ h
      · exact ih _ _ h

theorem findLoop_no_panic (d : Deployment) (l : List ReplicaSet) (acc : Option ReplicaSet × Option ReplicaSet)
    (hl : ∀ rs ∈ l, rs.replicas.isSome = true) : findLoop d l acc ≠ none := by
  induction l generalizing acc with
  | nil => simp [findLoop]
  | cons rs rest ih =>
    obtain ⟨n, o⟩ := acc
    have hrest : ∀ x ∈ rest, x.replicas.isSome = true := fun x hx => hl x (by simp [hx])
    unfold findLoop
    split
    · exact ih _ hrest
    · split
      · cases hr : rs.replicas with
        | none => have := hl rs (by simp); simp [hr] at this
        | some r =>
          simp only
          split <;> exact ih _ hrest
      · exact ih _ hrest

theorem findCS_new (c : Cluster) (d : Deployment) (n o : Option ReplicaSet)
    (h : findCanaryAndStableReplicaSet (activeOwned c d) d = some (n, o)) : n = newRsOf c d := by
  unfold findCanaryAndStableReplicaSet at h
  have := findLoop_new d _ none none n o h
  rw [this]
  unfold newRsOf
  cases (List.filter (fun rs => rs.template == d.template) (sortBy revLess (activeOwned c d))).getLast? <;> rfl

theorem activeOwned_sub (c : Cluster) (d : Deployment) (rs : ReplicaSet) (h : rs ∈ activeOwned c d) : rs ∈ c.replicaSets :=
  (List.mem_filter.1 h).1

theorem advanced_wl (c : Cluster) (ns : String) (ref : Ref) (w : W) (h : getAdvancedDeployment c ns ref = .wl w) :
    ∃ d, lookup Deployment.m c.deployments ns ref.name = some d ∧ agrees w (advancedDeploymentFacts c d) = true := by
  unfold getAdvancedDeployment at h
  split at h
  · cases h
  · cases hg : c.getDeployment ns ref.name with
    | notFound => rw [hg] at h; cases h
    | err => rw [hg] at h; cases h
    | found d =>
      rw [hg] at h
      refine ⟨d, get_found _ _ _ _ _ _ _ hg, ?_⟩
      simp only at h
      split at h
      · cases h; simp_all [agrees, advancedDeploymentFacts, W.opaque]
      · cases hrep : d.replicas with
        | none => rw [hrep] at h; cases h
        | some rep =>
          rw [hrep] at h
          simp only at h
          split at h
          · cases h; simp_all [agrees, advancedDeploymentFacts, W.opaque]
          · cases hr : getReplicaSetsForDeployment c d 0 with
            | error e => rw [hr] at h; cases h
            | ok rss =>
              rw [hr] at h
              have := rss_ok c d 0 rss hr
              subst this
              simp only at h
              cases hf : findCanaryAndStableReplicaSet (activeOwned c d) d with
              | none => rw [hf] at h; cases h
              | some no =>
                obtain ⟨n, o⟩ := no
                rw [hf] at h
                have hn := findCS_new c d n o hf
                subst hn
                simp only at h
                cases hnr : newRsOf c d with
                | none =>
                  rw [hnr] at h
                  simp only at h
                  split at h <;> (cases h; simp_all [agrees, advancedDeploymentFacts, W.opaque]) <;> grind
                | some rs =>
                  rw [hnr] at h
                  simp only at h
                  split at h <;> (cases h; simp_all [agrees, advancedDeploymentFacts, W.opaque]) <;> grind

theorem advanced_out (c : Cluster) (ns : String) (ref : Ref) (o : Out) (h : getAdvancedDeployment c ns ref = o) :
    (o = .nothing → owns c.filter (groupOf ref) ref.kind .advancedDeployment = true → lookup Deployment.m c.deployments ns ref.name = none) ∧
    (∀ w, o = .wlErr w → w = W.opaque) ∧
    (o = .panic → ∃ d, lookup Deployment.m c.deployments ns ref.name = some d ∧
        (d.replicas = none ∨ ∃ rs ∈ c.replicaSets, rs.replicas = none)) := by
  unfold getAdvancedDeployment at h
  rw [vgk_ok] at h
  split at h
  · rename_i hv
    subst h
    refine ⟨fun _ ho => ?_, by simp, by simp⟩
    simp only [owns] at ho
    simp [ho] at hv
  · cases hg : c.getDeployment ns ref.name with
    | notFound => rw [hg] at h; subst h; simp [get_notFound _ _ _ _ _ _ hg]
    | err => rw [hg] at h; subst h; simp
    | found d =>
      rw [hg] at h
      have hl := get_found _ _ _ _ _ _ _ hg
      simp only at h
      split at h
      · subst h; simp
      · cases hrep : d.replicas with
        | none => rw [hrep] at h; subst h; simp [hl, hrep]
        | some rep =>
          rw [hrep] at h
          simp only at h
          split at h
          · subst h; simp
          · cases hr : getReplicaSetsForDeployment c d 0 with
            | error e => rw [hr] at h; subst h; simp
            | ok rss =>
              rw [hr] at h
              have := rss_ok c d 0 rss hr
              subst this
              simp only at h
              cases hf : findCanaryAndStableReplicaSet (activeOwned c d) d with
              | none =>
                rw [hf] at h; subst h
                refine ⟨by simp, by simp, fun _ => ⟨d, hl, Or.inr ?_⟩⟩
                -- a panic of the loop means some ReplicaSet has no replicas
                apply Classical.byContradiction
                intro hno
                have hall : ∀ rs ∈ sortBy revLess (activeOwned c d), rs.replicas.isSome = true := by
                  intro rs hrs
                  have hmem := activeOwned_sub c d rs ((mem_sortBy _ _ _).1 hrs)
                  cases hq : rs.replicas with
                  | none => exact absurd ⟨rs, hmem, hq⟩ hno
                  | some _ => rfl
                exact findLoop_no_panic d _ (none, none) hall hf
              | some no =>
                obtain ⟨n, o'⟩ := no
                rw [hf] at h
                subst h
                simp

theorem advanced_not_owns (c : Cluster) (ns : String) (ref : Ref)
    (ho : owns c.filter (groupOf ref) ref.kind .advancedDeployment = false) : getAdvancedDeployment c ns ref = .nothing := by
  unfold getAdvancedDeployment
  rw [vgk_ok]
  simp only [owns] at ho
  simp [ho]

theorem advanced_absent (c : Cluster) (ns : String) (ref : Ref) (hf : c.failGet = [])
    (hp : present c ns ref .advancedDeployment = false) : getAdvancedDeployment c ns ref = .nothing := by
  unfold getAdvancedDeployment
  split
  · rfl
  · have : lookup Deployment.m c.deployments ns ref.name = none := by
      simp only [present] at hp
      cases hl : lookup Deployment.m c.deployments ns ref.name <;> simp_all
    unfold Cluster.getDeployment
    rw [get_noFault _ _ _ _ _ _ hf this]

/-! ### StatefulSet-like -/

theorem stsLikeOf_wl (i : Info) (w : W) (h : stsLikeOf i = .wl w) : agrees w (infoFacts i) = true := by
  unfold stsLikeOf at h
  split at h
  · cases h; simp_all [agrees, infoFacts, W.opaque]
  · simp only at h
    split at h
    · cases h; simp_all [agrees, infoFacts, W.opaque]
    · split at h <;> (cases h; simp_all [agrees, infoFacts, W.opaque]) <;> grind

theorem stsLikeOf_out (i : Info) : (∃ w, stsLikeOf i = .wl w) := by
  unfold stsLikeOf
  split
  · exact ⟨_, rfl⟩
  · simp only
    split
    · exact ⟨_, rfl⟩
    · split <;> exact ⟨_, rfl⟩

theorem afterGet_wl {α : Type} (g : GetR α) (parse : α → Option Info) (w : W) (h : afterGet g parse = .wl w) :
    ∃ o i, g = .found o ∧ parse o = some i ∧ stsLikeOf i = .wl w := by
  unfold afterGet at h
  cases g with
  | notFound => cases h
  | err => cases h
  | found o =>
    simp only at h
    cases hp : parse o with
    | none => rw [hp] at h; cases h
    | some i => rw [hp] at h; exact ⟨o, i, rfl, hp, h⟩

theorem afterGet_out {α : Type} (g : GetR α) (parse : α → Option Info) (o : Out) (h : afterGet g parse = o) :
    (o = .nothing → g = .notFound) ∧ (∀ w, o ≠ .wlErr w) ∧ (o = .panic → ∃ x, g = .found x ∧ parse x = none) := by
  unfold afterGet at h
  cases g with
  | notFound => subst h; simp
  | err => subst h; simp
  | found x =>
    simp only at h
    cases hp : parse x with
    | none => rw [hp] at h; subst h; simp [hp]
    | some i =>
      rw [hp] at h
      obtain ⟨w, hw⟩ := stsLikeOf_out i
      simp only [hw] at h; subst h; simp

theorem getUnstr_found (c : Cluster) (gvk : GVK) (ns name : String) (u : Unstr) (h : c.getUnstr gvk ns name = .found u) :
    c.unstructured.find? (fun u => u.gvk == gvk && u.m.ns == ns && u.m.name == name) = some u := by
  unfold Cluster.getUnstr at h
  split at h
  · cases h
  · split at h
    · cases h
    · split at h
      · cases h; assumption
      · cases h

theorem getUnstr_notFound (c : Cluster) (gvk : GVK) (ns name : String) (h : c.getUnstr gvk ns name = .notFound) :
    c.unstructured.find? (fun u => u.gvk == gvk && u.m.ns == ns && u.m.name == name) = none ∧ gvk.version ≠ "" ∧ gvk.kind ≠ "" := by
  unfold Cluster.getUnstr at h
  split at h
  · cases h
  · split at h
    · cases h
    · rename_i hv
      split at h
      · cases h
      · exact ⟨by assumption, fun e => hv (Or.inl e), fun e => hv (Or.inr e)⟩

theorem stsLike_wl (c : Cluster) (ns : String) (ref : Ref) (w : W) (h : getStatefulSetLikeWorkload c ns ref = .wl w) :
    ∃ i, stsTarget c ns ref = some i ∧ agrees w (infoFacts i) = true := by
  unfold getStatefulSetLikeWorkload at h
  unfold stsTarget
  split at h
  · cases h
  · cases h
  all_goals
    rename_i he
    rw [he]
    obtain ⟨o, i, hg, hp, hs⟩ := afterGet_wl _ _ _ h
    refine ⟨i, ?_, stsLikeOf_wl i w hs⟩
  · simp [get_found _ _ _ _ _ _ _ hg, hp]
  · simp [get_found _ _ _ _ _ _ _ hg, hp]
  · simp [get_found _ _ _ _ _ _ _ hg, hp]
  · simp [get_found _ _ _ _ _ _ _ hg, hp]
  · simp [get_found _ _ _ _ _ _ _ hg, hp]
  · simp [getUnstr_found _ _ _ _ _ hg, hp]

theorem stsLike_out (c : Cluster) (ns : String) (ref : Ref) (o : Out) (h : getStatefulSetLikeWorkload c ns ref = o) :
    (o = .nothing → stsTarget c ns ref = none) ∧ (∀ w, o ≠ .wlErr w) ∧
    (o = .panic → stsTarget c ns ref = none ∧ present c ns ref .stsLike = true) := by
  unfold getStatefulSetLikeWorkload at h
  unfold stsTarget
  simp only [present]
  split at h
  · rename_i he; rw [he]; subst h; simp
  · rename_i he; rw [he]; subst h; simp
  all_goals
    rename_i he
    rw [he]
    obtain ⟨h1, h2, h3⟩ := afterGet_out _ _ _ h
    refine ⟨fun e => ?_, h2, fun e => ?_⟩
  · simp [get_notFound _ _ _ _ _ _ (h1 e)]
  · obtain ⟨x, hx, hp⟩ := h3 e
    simp [get_found _ _ _ _ _ _ _ hx, hp]
  · simp [get_notFound _ _ _ _ _ _ (h1 e)]
  · obtain ⟨x, hx, hp⟩ := h3 e
    simp [get_found _ _ _ _ _ _ _ hx, hp]
  · simp [get_notFound _ _ _ _ _ _ (h1 e)]
  · obtain ⟨x, hx, hp⟩ := h3 e
    simp [get_found _ _ _ _ _ _ _ hx, hp]
  · simp [get_notFound _ _ _ _ _ _ (h1 e)]
  · obtain ⟨x, hx, hp⟩ := h3 e
    simp [get_found _ _ _ _ _ _ _ hx, hp]
  · simp [get_notFound _ _ _ _ _ _ (h1 e)]
  · obtain ⟨x, hx, hp⟩ := h3 e
    simp [get_found _ _ _ _ _ _ _ hx, hp]
  · simp [(getUnstr_notFound _ _ _ _ (h1 e)).1]
  · obtain ⟨x, hx, hp⟩ := h3 e
    simp [getUnstr_found _ _ _ _ _ hx, hp]

theorem isSupported_eq (f : Bool) (gvk : GVK) :
    isSupportedWorkload f gvk = (!f || knownGroupKind gvk.group gvk.kind) := by
  unfold isSupportedWorkload knownGroupKind
  cases f
  · simp
  · simp only [Bool.not_true, Bool.false_or, knownWorkloadGVKs, List.any]
    cases h1 : gvk.group == "apps" <;> cases h2 : gvk.group == "apps.kruise.io" <;>
    cases k1 : gvk.kind == "ReplicaSet" <;> cases k2 : gvk.kind == "Deployment" <;> cases k3 : gvk.kind == "StatefulSet" <;>
    cases k4 : gvk.kind == "CloneSet" <;> cases k5 : gvk.kind == "DaemonSet" <;> simp_all

theorem gvk_group (ref : Ref) :
    knownRef (groupOf ref) ref.kind =
      knownGroupKind (fromAPIVersionAndKind ref.apiVersion ref.kind).group (fromAPIVersionAndKind ref.apiVersion ref.kind).kind := by
  unfold groupOf fromAPIVersionAndKind knownRef
  cases parseGroupVersion ref.apiVersion with
  | none => simp [knownGroupKind]
  | some gv => simp

theorem stsLike_not_owns (c : Cluster) (ns : String) (ref : Ref)
    (ho : owns c.filter (groupOf ref) ref.kind .stsLike = false) : getStatefulSetLikeWorkload c ns ref = .nothing := by
  unfold getStatefulSetLikeWorkload getEmptyWorkloadObject
  simp only [owns] at ho
  rw [gvk_group] at ho
  rw [isSupported_eq, ho]
  simp

theorem stsLike_absent (c : Cluster) (ns : String) (ref : Ref) (hf : c.failGet = [])
    (hp : present c ns ref .stsLike = false) : getStatefulSetLikeWorkload c ns ref = .nothing := by
  unfold getStatefulSetLikeWorkload
  simp only [present] at hp
  split
  · rfl
  · rfl
  all_goals
    rename_i he
    rw [he] at hp
    simp only at hp
  · have : lookup DaemonSet.m c.daemonSets ns ref.name = none := by
      cases hl : lookup DaemonSet.m c.daemonSets ns ref.name <;> simp_all
    unfold Cluster.getDaemonSet
    rw [get_noFault _ _ _ _ _ _ hf this]; rfl
  · have : lookup Deployment.m c.deployments ns ref.name = none := by
      cases hl : lookup Deployment.m c.deployments ns ref.name <;> simp_all
    unfold Cluster.getDeployment
    rw [get_noFault _ _ _ _ _ _ hf this]; rfl
  · have : lookup CloneSet.m c.cloneSets ns ref.name = none := by
      cases hl : lookup CloneSet.m c.cloneSets ns ref.name <;> simp_all
    unfold Cluster.getCloneSet
    rw [get_noFault _ _ _ _ _ _ hf this]; rfl
  · have : lookup Sts.m c.nativeSts ns ref.name = none := by
      cases hl : lookup Sts.m c.nativeSts ns ref.name <;> simp_all
    unfold Cluster.getNativeSts
    rw [get_noFault _ _ _ _ _ _ hf this]; rfl
  · have : lookup Sts.m c.kruiseSts ns ref.name = none := by
      cases hl : lookup Sts.m c.kruiseSts ns ref.name <;> simp_all
    unfold Cluster.getKruiseSts
    rw [get_noFault _ _ _ _ _ _ hf this]; rfl
  · rename_i gvk
    simp only [Bool.or_eq_false_iff, beq_eq_false_iff_ne, ne_eq, Option.isSome_eq_false_iff, Option.isNone_iff_eq_none] at hp
    obtain ⟨⟨hv, hk⟩, hfind⟩ := hp
    unfold Cluster.getUnstr
    simp [hf, hv, hk, hfind, afterGet]

/-! ### dispatch -/

theorem run_not_owns (c : Cluster) (ns : String) (ref : Ref) (f : FinderId)
    (h : owns c.filter (groupOf ref) ref.kind f = false) : runFinder c ns ref f = .nothing := by
  cases f with
  | deployment => exact deployment_not_owns c ns ref h
  | cloneSet => exact cloneSet_not_owns c ns ref h
  | advancedDeployment => exact advanced_not_owns c ns ref h
  | stsLike => exact stsLike_not_owns c ns ref h
  | daemonSet => exact daemonSet_not_owns c ns ref h

theorem run_absent (c : Cluster) (ns : String) (ref : Ref) (f : FinderId) (hf : c.failGet = [])
    (h : present c ns ref f = false) : runFinder c ns ref f = .nothing := by
  cases f with
  | deployment => exact deployment_absent c ns ref hf h
  | cloneSet => exact cloneSet_absent c ns ref hf h
  | advancedDeployment => exact advanced_absent c ns ref hf h
  | stsLike => exact stsLike_absent c ns ref hf h
  | daemonSet => exact daemonSet_absent c ns ref hf h

theorem firstHit_filter (p : FinderId → Bool) (g : FinderId → Out) (l : List FinderId)
    (h : ∀ f, p f = false → g f = .nothing) : firstHit (l.map g) = firstHit ((l.filter p).map g) := by
  induction l with
  | nil => rfl
  | cons f fs ih =>
    cases hp : p f
    · simp only [List.map_cons, List.filter_cons, hp, Bool.false_eq_true, if_false, h f hp, firstHit, ih]
    · simp only [List.map_cons, List.filter_cons, hp, if_true]
      cases hg : g f <;> simp [firstHit, ih]

theorem dispatch (c : Cluster) (s : Strategy) (ns : String) (ref : Ref) (st : Style) (hs : getRollingStyle s = some st) :
    getWorkloadForRef c s ns ref = firstHit ((owners st c.filter (groupOf ref) ref.kind).map (runFinder c ns ref)) := by
  unfold getWorkloadForRef owners
  rw [hs]
  exact firstHit_filter _ _ _ (fun f hf => run_not_owns c ns ref f hf)

theorem run_wl_facts (c : Cluster) (ns : String) (ref : Ref) (f : FinderId) (w : W) (h : runFinder c ns ref f = .wl w) :
    ∃ F, factsOf c ns ref f = some F ∧ agrees w F = true := by
  cases f with
  | deployment => obtain ⟨d, hl, ha⟩ := deployment_wl c ns ref w h; exact ⟨_, by simp [factsOf, hl], ha⟩
  | cloneSet => obtain ⟨d, hl, ha⟩ := cloneSet_wl c ns ref w h; exact ⟨_, by simp [factsOf, hl], ha⟩
  | advancedDeployment => obtain ⟨d, hl, ha⟩ := advanced_wl c ns ref w h; exact ⟨_, by simp [factsOf, hl], ha⟩
  | stsLike => obtain ⟨i, hl, ha⟩ := stsLike_wl c ns ref w h; exact ⟨_, by simp [factsOf, hl], ha⟩
  | daemonSet => obtain ⟨d, hl, ha⟩ := daemonSet_wl c ns ref w h; exact ⟨_, by simp [factsOf, hl], ha⟩

theorem run_nothing_facts (c : Cluster) (ns : String) (ref : Ref) (f : FinderId) (h : runFinder c ns ref f = .nothing)
    (ho : owns c.filter (groupOf ref) ref.kind f = true) : factsOf c ns ref f = none := by
  cases f with
  | deployment => simp [factsOf, (deployment_out c ns ref _ h).1 rfl ho]
  | cloneSet => simp [factsOf, cloneSet_nothing c ns ref h ho]
  | advancedDeployment => simp [factsOf, (advanced_out c ns ref _ h).1 rfl ho]
  | stsLike => simp [factsOf, (stsLike_out c ns ref _ h).1 rfl]
  | daemonSet => simp [factsOf, daemonSet_nothing c ns ref h ho]

theorem firstHit_facts (c : Cluster) (ns : String) (ref : Ref) (os : List FinderId) (w : W)
    (hos : ∀ f ∈ os, owns c.filter (groupOf ref) ref.kind f = true)
    (h : firstHit (os.map (runFinder c ns ref)) = .wl w) :
    ∃ F, os.findSome? (factsOf c ns ref) = some F ∧ agrees w F = true := by
  induction os with
  | nil => simp [firstHit] at h
  | cons f fs ih =>
    simp only [List.map_cons] at h
    cases hr : runFinder c ns ref f with
    | nothing =>
      rw [hr] at h
      simp only [firstHit] at h
      have hn := run_nothing_facts c ns ref f hr (hos f (by simp))
      obtain ⟨F, hF, ha⟩ := ih (fun g hg => hos g (by simp [hg])) h
      exact ⟨F, by simp [List.findSome?_cons, hn, hF], ha⟩
    | wl w' =>
      rw [hr] at h
      simp only [firstHit] at h
      cases h
      obtain ⟨F, hF, ha⟩ := run_wl_facts c ns ref f w hr
      exact ⟨F, by simp [List.findSome?_cons, hF], ha⟩
    | err => rw [hr] at h; simp [firstHit] at h
    | wlErr w' => rw [hr] at h; simp [firstHit] at h
    | panic => rw [hr] at h; simp [firstHit] at h

theorem owners_owns (st : Style) (filter : Bool) (g : Option String) (k : String) :
    ∀ f ∈ owners st filter g k, owns filter g k f = true := by
  intro f hf
  exact (List.mem_filter.1 hf).2

/-- **the record agrees with the facts** of the workload the Rollout designates -/
theorem facts_sound (c : Cluster) (s : Strategy) (ns : String) (ref : Ref) (w : W)
    (h : getWorkloadForRef c s ns ref = .wl w) : ∃ F, facts c s ns ref = some F ∧ agrees w F = true := by
  unfold facts
  cases hs : getRollingStyle s with
  | none => simp [getWorkloadForRef, hs] at h
  | some st =>
    rw [dispatch c s ns ref st hs] at h
    exact firstHit_facts c ns ref _ w (owners_owns _ _ _ _) h

/-! ### totality -/

theorem adm_parts (c : Cluster) (h : admissible c = true) :
    c.cloneSets.all (·.replicas.isSome) = true ∧ c.deployments.all (·.replicas.isSome) = true ∧
    c.replicaSets.all (·.replicas.isSome) = true ∧ c.nativeSts.all (·.replicas.isSome) = true ∧
    c.kruiseSts.all (·.replicas.isSome) = true := by
  unfold admissible at h
  simp only [Bool.and_eq_true] at h
  obtain ⟨⟨⟨⟨h1, h2⟩, h3⟩, h4⟩, h5⟩ := h
  exact ⟨h1, h2, h3, h4, h5⟩

theorem afterGet_panic {α : Type} (g : GetR α) (parse : α → Option Info) (h : afterGet g parse = .panic) :
    ∃ x, g = .found x ∧ parse x = none := (afterGet_out g parse _ h).2.2 rfl

/-- the StatefulSet-like finder never panics on admissible objects -/
theorem stsLike_panic (c : Cluster) (ns : String) (ref : Ref) (h : getStatefulSetLikeWorkload c ns ref = .panic)
    (hadm : admissible c = true) : False := by
  obtain ⟨h1, h2, h3, h4, h5⟩ := adm_parts c hadm
  unfold getStatefulSetLikeWorkload at h
  split at h
  · cases h
  · cases h
  all_goals
    rename_i he
    obtain ⟨x, hx, hp⟩ := afterGet_panic _ _ h
  · simp [parseDaemonSet] at hp
  · have := all_mem h2 (lookup_mem _ _ _ _ _ (get_found _ _ _ _ _ _ _ hx))
    unfold parseDeployment at hp
    cases hr : x.replicas <;> simp_all
  · have := all_mem h1 (lookup_mem _ _ _ _ _ (get_found _ _ _ _ _ _ _ hx))
    unfold parseCloneSet at hp
    cases hr : x.replicas <;> simp_all
  · have := all_mem h4 (lookup_mem _ _ _ _ _ (get_found _ _ _ _ _ _ _ hx))
    unfold stsInfo at hp
    cases hr : x.replicas <;> simp_all
  · have := all_mem h5 (lookup_mem _ _ _ _ _ (get_found _ _ _ _ _ _ _ hx))
    unfold stsInfo at hp
    cases hr : x.replicas <;> simp_all
  · simp [parseUnstr] at hp     -- an unstructured object always parses

theorem firstHit_mem (l : List Out) (o : Out) (h : firstHit l = o) (hne : o ≠ .nothing) : o ∈ l := by
  induction l with
  | nil => simp [firstHit] at h; exact absurd h.symm hne
  | cons x xs ih =>
    cases x with
    | nothing => simp only [firstHit] at h; exact List.mem_cons_of_mem _ (ih h)
    | err => simp only [firstHit] at h; subst h; simp
    | wl w => simp only [firstHit] at h; subst h; simp
    | wlErr w => simp only [firstHit] at h; subst h; simp
    | panic => simp only [firstHit] at h; subst h; simp

theorem run_no_panic (c : Cluster) (ns : String) (ref : Ref) (f : FinderId)
    (hadm : admissible c = true) : runFinder c ns ref f ≠ .panic := by
  obtain ⟨h1, h2, h3, h4, h5⟩ := adm_parts c hadm
  intro h
  cases f with
  | cloneSet => exact cloneSet_no_panic c ns ref h1 h
  | daemonSet => exact (daemonSet_not_wlErr_panic c ns ref).2 h
  | deployment =>
    obtain ⟨d, hl, hr⟩ := (deployment_out c ns ref _ h).2.2 rfl
    have := all_mem h2 (lookup_mem _ _ _ _ _ hl)
    simp [hr] at this
  | advancedDeployment =>
    obtain ⟨d, hl, hr | ⟨rs, hrs, hr⟩⟩ := (advanced_out c ns ref _ h).2.2 rfl
    · have := all_mem h2 (lookup_mem _ _ _ _ _ hl)
      simp [hr] at this
    · have := all_mem h3 hrs
      simp [hr] at this
  | stsLike => exact stsLike_panic c ns ref h hadm

theorem style_blueGreen (s : Strategy) (st : Style) (hs : getRollingStyle s = some st) (hf : FinderId.stsLike ∈ finders st) :
    s.blueGreen = false := by
  unfold getRollingStyle at hs
  cases hb : s.blueGreen with
  | false => rfl
  | true =>
    simp only [hb, if_true, Option.some.injEq] at hs
    subst hs
    simp [finders] at hf

/-! ### the other outcomes, for the oracles -/

theorem run_wlErr (c : Cluster) (ns : String) (ref : Ref) (f : FinderId) (w : W) (h : runFinder c ns ref f = .wlErr w) :
    w.isInRollback = false ∧ (w.isStatusConsistent = true ∨ w = W.opaque) := by
  cases f with
  | cloneSet => exact absurd h (cloneSet_not_wlErr c ns ref w)
  | daemonSet => exact absurd h ((daemonSet_not_wlErr_panic c ns ref).1 w)
  | deployment => exact (deployment_out c ns ref _ h).2.1 w rfl
  | advancedDeployment =>
    have := (advanced_out c ns ref _ h).2.1 w rfl
    subst this
    simp [W.opaque]
  | stsLike => exact absurd rfl ((stsLike_out c ns ref _ h).2.1 w)

theorem agrees_opaque (w : W) (F : Facts) (h : agrees w F = true) : w.isStatusConsistent = true ∨ w = W.opaque := by
  unfold agrees at h
  cases hw : F.waits
  · simp [hw] at h; exact Or.inl h.1
  · simp [hw] at h; exact Or.inr h.2

end RV.Lemmas.Finder
