/-
  Helper lemmas for `RV.Props.ClosedLoopBG`: how the transitions of the generic closed loop touch the workload world
  (frames), and that every one of them preserves the world invariant of the blue-green instance.
-/
import RV.Model.ClosedLoopBG
import RV.Oracle.ClosedLoopBG
import RV.Lemmas.ExecutorX
import RV.Props.ExecutorXBG
import RV.Lemmas.CtlBlueGreen
import RV.Lemmas.ClosedLoopArith
namespace RV.Lemmas.ClosedLoopBG
open RV.Arith IntOrPct RV.Traffic RV.ClosedLoopBG RV.Oracle.ClosedLoopBG
open RV.ClosedLoop (CBr Label)
open RV.Executor (BR Status CallResult Out)
open RV.ExecutorX
open RV.CtlBlueGreen (Workload HPA maxReady)

variable {W P : Type}

/-! ## frames of the generic loop -/

/-- a Rollout reconcile touches the workload world only through the in-progress annotation and by making an old
    control annotation foreign (when it creates a BatchRelease) -/
theorem stepRo_world (L : Loop W P) (s s' : GS W) (h : stepRo L s = some s') :
    s'.world = s.world ∨ (∃ a, s'.world = L.setAnno a s.world) ∨ s'.world = L.disown s.world ∨
    (∃ a, s'.world = L.disown (L.setAnno a s.world)) := by
  unfold stepRo at h
  split at h
  · injection h with h; subst h; exact Or.inl rfl
  · split at h
    · cases h
    · split at h
      · cases h
      · rename_i r _
        injection h with h; subst h
        have key : ∀ (ob : Option CBr) (nb : Option RolloutSM.BR) (v : Option RolloutSM.WL) (w : W),
            (landBR L ob nb (annoLand L w v)).2 = w ∨ (∃ a, (landBR L ob nb (annoLand L w v)).2 = L.setAnno a w) ∨
            (landBR L ob nb (annoLand L w v)).2 = L.disown w ∨
            (∃ a, (landBR L ob nb (annoLand L w v)).2 = L.disown (L.setAnno a w)) := by
          intro ob nb v w
          cases ob <;> cases nb <;> cases v <;>
            first
              | exact Or.inl rfl
              | exact Or.inr (Or.inl ⟨_, rfl⟩)
              | exact Or.inr (Or.inr (Or.inl rfl))
              | exact Or.inr (Or.inr (Or.inr ⟨_, rfl⟩))
        exact key s.br r.w.br r.w.wl s.world

/-- what `executeX` can do to the plane's world: nothing, or exactly one of `Initialize`, `UpgradeBatch`, `Finalize` -/
theorem executeX_world (Pl : Plane P) (br : BR) (ns : Status) (w : P) (ns' : Status) (w' : P) (rq er : Bool)
    (h : executeX Pl br ns w = .val (ns', w', rq, er)) :
    w' = w ∨ (∃ m ms r, Pl.init br m w = .val (w', ms, r)) ∨ (∃ m r, Pl.upgrade br m w = .val (w', r)) ∨
    (∃ r, Pl.fin br w = .val (w', r)) := by
  unfold executeX at h
  dsimp only at h
  split at h
  · unfold execPreparingX at h
    split at h
    · cases h
    · rename_i r hr
      right; left
      split at h <;> simp only [Out.val.injEq, Prod.mk.injEq] at h <;> obtain ⟨_, h2, _⟩ := h <;> subst h2 <;>
        exact ⟨_, r.2.1, r.2.2, hr⟩
  · unfold execProgressingX at h
    dsimp only at h
    split at h
    · split at h
      · cases h
      · rename_i w1 hu
        simp only [Out.val.injEq, Prod.mk.injEq] at h
        obtain ⟨_, h2, _⟩ := h; subst h2
        exact Or.inr (Or.inr (Or.inl ⟨_, _, hu⟩))
      · rename_i w1 hu
        simp only [Out.val.injEq, Prod.mk.injEq] at h
        obtain ⟨_, h2, _⟩ := h; subst h2
        exact Or.inr (Or.inr (Or.inl ⟨_, _, hu⟩))
    · split at h
      · cases h
      · simp only [Out.val.injEq, Prod.mk.injEq] at h; exact Or.inl h.2.1.symm
      · simp only [Out.val.injEq, Prod.mk.injEq] at h; exact Or.inl h.2.1.symm
    · split at h
      · cases h
      · simp only [Out.val.injEq, Prod.mk.injEq] at h; exact Or.inl h.2.1.symm
      · split at h <;> simp only [Out.val.injEq, Prod.mk.injEq] at h <;> exact Or.inl h.2.1.symm
    · simp only [Out.val.injEq, Prod.mk.injEq] at h; exact Or.inl h.2.1.symm
  · unfold execFinalizingX at h
    split at h
    · cases h
    · rename_i r hr
      right; right; right
      split at h <;> simp only [Out.val.injEq, Prod.mk.injEq] at h <;> obtain ⟨_, h2, _⟩ := h <;> subst h2 <;>
        exact ⟨r.2, hr⟩
  · simp only [Out.val.injEq, Prod.mk.injEq] at h; exact Or.inl h.2.1.symm

/-- the same for a whole BatchRelease reconcile (the release as the executor holds it carries the finalizer) -/
theorem reconcileX_world (Pl : Plane P) (br : BR) (w : P) (o : StepOutX P) (h : reconcileX Pl br w = .val o) :
    o.wl = w ∨ (∃ m ms r, Pl.init (Executor.withFinalizer br) m w = .val (o.wl, ms, r)) ∨
    (∃ m r, Pl.upgrade (Executor.withFinalizer br) m w = .val (o.wl, r)) ∨
    (∃ r, Pl.fin (Executor.withFinalizer br) w = .val (o.wl, r)) := by
  rcases reconcileX_cases Pl br w o h with ⟨_, _, _, _, hw⟩ | ⟨_, s, _, hrest⟩
  · exact Or.inl hw
  · rcases hrest with ⟨_, _, hw⟩ | ⟨_, ns', w', rq, er, hex, _, hw⟩
    · exact Or.inl hw
    · rw [hw]; exact executeX_world Pl _ _ w ns' w' rq er hex

/-! ## the configuration part of the world invariant under the three patches of the blue-green CloneSet control -/

open RV.CtlBlueGreen (initPatch upgradePatch finalizePatch initSetting getSetting validate restored Setting)
open RV.Oracle.CtlBlueGreen (effSetting complete)

theorem userSetting_complete (u : User) : complete .cloneSet (userSetting u) = true :=
  RV.Lemmas.CtlBlueGreen.effSetting_complete _ _

theorem cfgInv_parts (u : User) (wl : Workload) (h : cfgInv u wl = true) :
    cfgBase u wl = true ∧ cfgSaved u wl = true ∧ cfgPart wl = true := by
  unfold cfgInv at h
  simp only [Bool.and_eq_true] at h
  exact ⟨h.1.1, h.1.2, h.2⟩

theorem cfgInv_of_parts (u : User) (wl : Workload) (h1 : cfgBase u wl = true) (h2 : cfgSaved u wl = true)
    (h3 : cfgPart wl = true) : cfgInv u wl = true := by
  unfold cfgInv; rw [h1, h2, h3]; rfl

/-- what the saved-settings part says of the setting `Initialize` / `Finalize` read from the annotation -/
theorem cfgSaved_getSetting (u : User) (wl : Workload) (s : Setting) (h : cfgSaved u wl = true)
    (hg : getSetting wl.saved = some s) :
    (wl.saved = .none ∧ s = CtlBlueGreen.emptySetting ∧ effSetting .cloneSet wl = userSetting u ∧ wl.ctl = .none) ∨
    (wl.saved = .some s ∧ s = userSetting u ∧ holdInstalled wl = true) := by
  unfold cfgSaved at h
  cases hs : wl.saved with
  | none =>
    rw [hs] at h hg
    simp only [Bool.and_eq_true, decide_eq_true_eq] at h
    simp only [getSetting, Option.some.injEq] at hg
    exact Or.inl ⟨rfl, hg.symm, h.1, h.2⟩
  | bad => rw [hs] at h; cases h
  | some sv =>
    rw [hs] at h hg
    simp only [Bool.and_eq_true, decide_eq_true_eq] at h
    simp only [getSetting, Option.some.injEq] at hg
    subst hg
    exact Or.inr ⟨rfl, h.1, h.2⟩

/-- the patch of `Initialize` -/
theorem cfg_initPatch (u : User) (wl : Workload) (b : CtlBlueGreen.BR) (s : Setting) (h : cfgInv u wl = true)
    (hg : getSetting wl.saved = some s) : cfgInv u (initPatch .cloneSet b (initSetting .cloneSet s wl) wl) = true := by
  obtain ⟨h1, h2, h3⟩ := cfgInv_parts u wl h
  have hset : initSetting .cloneSet s wl = userSetting u := by
    rcases cfgSaved_getSetting u wl s h2 hg with ⟨_, hs, he, _⟩ | ⟨_, hs, _⟩
    · subst hs; exact he
    · subst hs; exact RV.Lemmas.CtlBlueGreen.initSetting_complete _ _ _ (userSetting_complete u)
  refine cfgInv_of_parts u _ ?_ ?_ ?_
  · unfold cfgBase at h1 ⊢
    simp only [Bool.and_eq_true, decide_eq_true_eq, Bool.not_eq_true'] at h1
    simp [initPatch, h1.1.1.1, h1.1.1.2, h1.2]
  · unfold cfgSaved
    simp [initPatch, hset, holdInstalled, CtlBlueGreen.ruUnavailable, CtlBlueGreen.ruSurge]
  · exact h3

/-- the patch of `UpgradeBatch` (it is issued only on a workload that passes `ValidateReadyForBlueGreenRelease`) -/
theorem cfg_upgradePatch (u : User) (wl : Workload) (e : IntOrPct) (h : cfgInv u wl = true)
    (hv : validate .cloneSet wl = true) : cfgInv u (upgradePatch .cloneSet e wl) = true := by
  obtain ⟨h1, h2, h3⟩ := cfgInv_parts u wl h
  refine cfgInv_of_parts u _ ?_ ?_ ?_
  · exact h1
  · unfold cfgSaved at h2 ⊢
    cases hs : wl.saved with
    | none =>
      -- a workload without saved settings carries no control-info: it does not pass the validation
      rw [hs] at h2
      simp only [Bool.and_eq_true, decide_eq_true_eq] at h2
      simp [validate, h2.2] at hv
    | bad => rw [hs] at h2; cases h2
    | some sv =>
      rw [hs] at h2
      simp only [Bool.and_eq_true, decide_eq_true_eq] at h2
      obtain ⟨hsv, hh⟩ := h2
      unfold holdInstalled at hh
      simp only [Bool.and_eq_true, decide_eq_true_eq] at hh
      have hsv' : (upgradePatch .cloneSet e wl).saved = .some sv := hs
      rw [hsv']
      simp only [Bool.and_eq_true, decide_eq_true_eq]
      refine ⟨hsv, ?_⟩
      unfold holdInstalled
      simp only [Bool.and_eq_true, decide_eq_true_eq]
      exact ⟨⟨hh.1.1, hh.1.2⟩, rfl⟩
  · unfold cfgPart; simp [upgradePatch]

/-- the restoring patch of `Finalize` -/
theorem cfg_finalizePatch (u : User) (wl : Workload) (s : Setting) (h : cfgInv u wl = true)
    (hr : restored wl = false) (hg : getSetting wl.saved = some s) :
    cfgInv u (finalizePatch .cloneSet s wl) = true := by
  obtain ⟨h1, h2, h3⟩ := cfgInv_parts u wl h
  have hsu : s = userSetting u := by
    rcases cfgSaved_getSetting u wl s h2 hg with ⟨hn, _, _, _⟩ | ⟨_, hs, _⟩
    · simp [restored, hn] at hr
    · exact hs
  refine cfgInv_of_parts u _ ?_ ?_ ?_
  · exact h1
  · unfold cfgSaved
    have he := RV.Lemmas.CtlBlueGreen.effSetting_finalizePatch .cloneSet s wl (by rw [hsu]; exact userSetting_complete u)
    rw [RV.Lemmas.CtlBlueGreen.forgetWl_finalizePatch_cs] at he
    have hsv : (finalizePatch .cloneSet s wl).saved = .none := rfl
    have hc : (finalizePatch .cloneSet s wl).ctl = .none := rfl
    rw [hsv]
    simp only [Bool.and_eq_true, decide_eq_true_eq]
    exact ⟨by rw [he, hsu], hc⟩
  · exact h3

/-! ## the pod part -/

theorem podInv_parts (u : User) (b : BW) (wl : Workload) (h : podInv u b wl = true) :
    podBasic wl = true ∧ podKept u b wl = true ∧ podPart b wl = true := by
  unfold podInv at h
  simp only [Bool.and_eq_true] at h
  exact ⟨h.1.1, h.1.2, h.2⟩

theorem podBasic_iff (wl : Workload) : podBasic wl = true ↔
    wl.status.ready = wl.status.replicas ∧ wl.status.updatedReady = wl.status.updated ∧ 0 ≤ wl.status.updated ∧
    wl.status.updated ≤ wl.status.ready := by
  unfold podBasic
  simp only [Bool.and_eq_true, decide_eq_true_eq]
  constructor
  · rintro ⟨⟨⟨a, b⟩, c⟩, d⟩; exact ⟨a, b, c, d⟩
  · rintro ⟨a, b, c, d⟩; exact ⟨⟨⟨a, b⟩, c⟩, d⟩

/-- a patch of the control plane leaves the status alone and keeps or clears the partition: the pod part is untouched -/
theorem pod_patch (u : User) (b b' : BW) (wl wl' : Workload) (hst : wl'.status = wl.status)
    (hp : wl'.partition = wl.partition ∨ wl'.partition = none)
    (hu : b'.updateRevision = b.updateRevision) (hc : b'.currentRevision = b.currentRevision)
    (h : podInv u b wl = true) : podInv u b' wl' = true := by
  obtain ⟨h1, h2, h3⟩ := podInv_parts u b wl h
  unfold podInv
  simp only [Bool.and_eq_true]
  refine ⟨⟨?_, ?_⟩, ?_⟩
  · unfold podBasic at h1 ⊢; rw [hst]; exact h1
  · unfold podKept at h2 ⊢; rw [hst, hu, hc]; exact h2
  · unfold podPart at h3 ⊢
    rcases hp with hp | hp
    · rw [hp, hst, hu, hc]; exact h3
    · rw [hp]; rfl

theorem keptBy_pct100 (R : Int) (h : 0 ≤ R) : keptBy (some (pct 100)) R = R := by
  unfold keptBy
  simp only [RV.Lemmas.ClosedLoop.scaled_pct100]
  split
  · omega
  · split <;> omega

/-! ## the workload controller preserves the world invariant -/

theorem effSetting_mrs (wl : Workload) : (effSetting .cloneSet wl).minReadySeconds = wl.minReadySeconds := by
  simp [effSetting, RV.CtlBlueGreen.initSetting, RV.CtlBlueGreen.emptySetting, RV.CtlBlueGreen.nothingSaved]

theorem userSetting_mrs (u : User) : (userSetting u).minReadySeconds = u.minReadySeconds := by
  unfold userSetting; rw [effSetting_mrs]; rfl

/-- with the world invariant, a CloneSet on which no pod ever becomes available carries the hold -/
theorem never_means_hold (u : User) (hu : userOK u = true) (wl : Workload) (h : cfgSaved u wl = true)
    (hn : wl.minReadySeconds ≥ maxReady) : holdInstalled wl = true := by
  unfold cfgSaved at h
  cases hs : wl.saved with
  | none =>
    rw [hs] at h
    simp only [Bool.and_eq_true, decide_eq_true_eq] at h
    have := congrArg (·.minReadySeconds) h.1
    simp only [effSetting_mrs, userSetting_mrs] at this
    unfold userOK at hu
    simp only [Bool.and_eq_true, decide_eq_true_eq] at hu
    omega
  | bad => rw [hs] at h; cases h
  | some sv =>
    rw [hs] at h
    simp only [Bool.and_eq_true] at h
    exact h.2

/-- the configuration part reads neither the status nor how `spec.replicas` is written down -/
theorem cfg_congr (u : User) (wl wl' : Workload) (h1 : wl'.replicas = wl.replicas) (h2 : wl'.deleting = wl.deleting)
    (h3 : wl'.paused = wl.paused) (h4 : wl'.stype = wl.stype) (h5 : wl'.saved = wl.saved) (h6 : wl'.ctl = wl.ctl)
    (h7 : wl'.ru = wl.ru) (h8 : wl'.minReadySeconds = wl.minReadySeconds) (h9 : wl'.partition = wl.partition) :
    cfgInv u wl = true → cfgInv u wl' = true := by
  intro hh
  rw [← hh]
  have he : effSetting .cloneSet wl' = effSetting .cloneSet wl := by
    simp [effSetting, RV.CtlBlueGreen.initSetting, RV.CtlBlueGreen.emptySetting, RV.CtlBlueGreen.nothingSaved, h7, h8]
  unfold cfgInv cfgBase cfgSaved cfgPart holdInstalled
  rw [h1, h2, h3, h4, h5, h6, h7, h8, h9, he]

theorem nonneg_nonneg (x : Int) : 0 ≤ nonneg x := by unfold nonneg; split <;> omega

/-- under the hold (`maxUnavailable = 0`) a sync keeps the `R` old pods and never lowers the number of new ones; with nothing
    wanted and nothing there, nothing appears -/
theorem heldSync_spec (R want surge old upd : Int) (hs : 0 ≤ surge) (hw : 0 ≤ want) (ho : R ≤ old) (hu : 0 ≤ upd) :
    (heldSync R want surge 0 old upd).1 = R ∧ upd ≤ (heldSync R want surge 0 old upd).2 ∧
    (want = 0 → upd = 0 → (heldSync R want surge 0 old upd).2 = 0) := by
  unfold heldSync
  dsimp only
  refine ⟨?_, ?_, ?_⟩
  · split <;> split <;> omega
  · split <;> split <;> omega
  · intro h1 h2; subst h1 h2; split <;> split <;> omega

theorem freeSync_spec (R want upd : Int) (hu : 0 ≤ upd) (hR : 0 ≤ R) :
    0 ≤ (freeSync R want upd).1 ∧ upd ≤ (freeSync R want upd).2 ∧ want ≤ (freeSync R want upd).2 ∧
    ((freeSync R want upd).2 < R → (freeSync R want upd).1 = R - (freeSync R want upd).2) ∧
    (want = 0 → upd = 0 → (freeSync R want upd).2 = 0) := by
  unfold freeSync nonneg
  dsimp only
  refine ⟨?_, ?_, ?_, ?_, ?_⟩
  · split <;> omega
  · split <;> omega
  · split <;> omega
  · intro h; split <;> split <;> omega
  · intro h1 h2; subst h1 h2; simp

theorem holdInstalled_unav (wl : Workload) (R : Int) (h : holdInstalled wl = true) :
    nonneg (scaledV ((RV.CtlBlueGreen.ruUnavailable wl.ru).getD (int 0)) R false) = 0 := by
  unfold holdInstalled at h
  simp only [Bool.and_eq_true, decide_eq_true_eq] at h
  rw [h.1.2]
  rfl

theorem env_worldInv (u : User) (hu : userOK u = true) (b : BW) (h : worldInv u b = true) : worldInv u (bgEnv b) = true := by
  unfold worldInv at h
  cases hb : b.wl with
  | none => rw [hb] at h; cases h
  | some wl =>
    rw [hb] at h
    simp only [Bool.and_eq_true] at h
    obtain ⟨hcfg, hpod⟩ := h
    obtain ⟨c1, c2, c3⟩ := cfgInv_parts u wl hcfg
    obtain ⟨p1, p2, p3⟩ := podInv_parts u b wl hpod
    rw [podBasic_iff] at p1
    obtain ⟨q1, q2, q3, q4⟩ := p1
    have hu' := hu
    unfold userOK at hu'
    simp only [Bool.and_eq_true, decide_eq_true_eq, Bool.not_eq_true'] at hu'
    obtain ⟨⟨_, hmrs⟩, hR0⟩ := hu'
    unfold cfgBase at c1
    simp only [Bool.and_eq_true, decide_eq_true_eq, Bool.not_eq_true'] at c1
    obtain ⟨⟨⟨hR, _⟩, hpaused⟩, _⟩ := c1
    unfold cfgPart at c3
    simp only [Bool.or_eq_true, decide_eq_true_eq, Option.isNone_iff_eq_none] at c3
    unfold podPart at p3
    simp only [Bool.or_eq_true, decide_eq_true_eq, Option.isNone_iff_eq_none] at p3
    unfold bgEnv
    rw [hb]
    simp only [hR]
    split
    · -- the generation is observed, nothing else
      unfold worldInv
      simp only [Bool.and_eq_true]
      exact ⟨hcfg, pod_patch u b _ wl wl rfl (Or.inl rfl) rfl rfl hpod⟩
    · split
      · -- two revisions
        rename_i hne
        rw [if_neg (by simp [hpaused])]
        unfold podKept at p2
        rw [if_neg hne] at p2
        simp only [decide_eq_true_eq] at p2
        have hwant : 0 ≤ u.replicas - keptBy wl.partition u.replicas ∧
            (wl.partition = some (pct 100) → u.replicas - keptBy wl.partition u.replicas = 0) ∧
            (wl.partition = none → u.replicas - keptBy wl.partition u.replicas = u.replicas) := by
          rcases c3 with c3 | c3
          · rw [c3]; simp [keptBy]; omega
          · rw [c3, keptBy_pct100 _ hR0]; simp
        split
        · -- no pod ever becomes available: the hold is installed
          rename_i hnever
          have hh := never_means_hold u hu wl c2 hnever
          rw [holdInstalled_unav wl _ hh]
          obtain ⟨s1, s2, s3⟩ := heldSync_spec u.replicas (u.replicas - keptBy wl.partition u.replicas)
            (nonneg (scaledV ((RV.CtlBlueGreen.ruSurge wl.ru).getD (int 0)) u.replicas true))
            (wl.status.ready - wl.status.updatedReady) wl.status.updated (nonneg_nonneg _) hwant.1 (by omega) q3
          generalize heldSync u.replicas (u.replicas - keptBy wl.partition u.replicas)
            (nonneg (scaledV ((RV.CtlBlueGreen.ruSurge wl.ru).getD (int 0)) u.replicas true)) 0
            (wl.status.ready - wl.status.updatedReady) wl.status.updated = r at s1 s2 s3
          unfold worldInv
          simp only [Bool.and_eq_true]
          refine ⟨cfg_congr u wl _ hR.symm rfl rfl rfl rfl rfl rfl rfl rfl hcfg, ?_⟩
          unfold podInv podBasic podKept podPart statusOf
          simp only [Bool.and_eq_true, decide_eq_true_eq, Bool.or_eq_true, Option.isNone_iff_eq_none, if_neg hne]
          refine ⟨⟨⟨⟨⟨?_, ?_⟩, ?_⟩, ?_⟩, ?_⟩, ?_⟩
          iterate 5 (first | trivial | omega)
          rcases c3 with c3 | c3
          · exact Or.inl (Or.inl c3)
          · right
            rcases p3 with (p3 | p3) | p3
            · rw [c3] at p3; cases p3
            · exact absurd p3 hne
            · exact s3 (hwant.2.1 c3) p3
        · -- an ordinary minReadySeconds: whatever the partition allows is replaced at once
          obtain ⟨f1, f2, f3, f4, f5⟩ := freeSync_spec u.replicas (u.replicas - keptBy wl.partition u.replicas) wl.status.updated q3 hR0
          generalize freeSync u.replicas (u.replicas - keptBy wl.partition u.replicas) wl.status.updated = r at f1 f2 f3 f4 f5
          unfold worldInv
          simp only [Bool.and_eq_true]
          refine ⟨cfg_congr u wl _ hR.symm rfl rfl rfl rfl rfl rfl rfl rfl hcfg, ?_⟩
          unfold podInv podBasic podKept podPart statusOf
          simp only [Bool.and_eq_true, decide_eq_true_eq, Bool.or_eq_true, Option.isNone_iff_eq_none]
          by_cases hprom : r.2 ≥ u.replicas
          · simp only [if_pos hprom, if_true, decide_eq_true_eq]
            refine ⟨⟨⟨⟨⟨?_, ?_⟩, ?_⟩, ?_⟩, ?_⟩, ?_⟩
            iterate 5 (first | trivial | omega)
            exact Or.inl (Or.inr trivial)
          · simp only [if_neg hprom, if_neg hne, decide_eq_true_eq]
            have hz : r.2 = 0 := by
              rcases c3 with c3 | c3
              · have := hwant.2.2 c3; omega
              · rcases p3 with (p3 | p3) | p3
                · rw [c3] at p3; cases p3
                · exact absurd p3 hne
                · exact f5 (hwant.2.1 c3) p3
            have := f4 (by omega)
            refine ⟨⟨⟨⟨⟨?_, ?_⟩, ?_⟩, ?_⟩, ?_⟩, ?_⟩
            iterate 5 (first | trivial | omega)
            exact Or.inr hz
      · -- one revision: exactly `replicas` pods
        rename_i heq
        have heq' : b.updateRevision = b.currentRevision := by simpa using heq
        unfold worldInv
        simp only [Bool.and_eq_true]
        refine ⟨cfg_congr u wl _ hR.symm rfl rfl rfl rfl rfl rfl rfl rfl hcfg, ?_⟩
        unfold podInv podBasic podKept podPart
        simp only [Bool.and_eq_true, decide_eq_true_eq, Bool.or_eq_true, Option.isNone_iff_eq_none, if_pos heq']
        refine ⟨⟨⟨⟨⟨?_, ?_⟩, ?_⟩, ?_⟩, ?_⟩, ?_⟩
        iterate 5 (first | trivial | omega)
        exact Or.inl (Or.inr heq')

/-! ## the admission of a revision preserves the world invariant -/

theorem release_worldInv (u : User) (hu : userOK u = true) (rev : String) (b : BW) (h : worldInv u b = true) :
    worldInv u (bgRelease rev b) = true := by
  unfold bgRelease
  split
  · exact h
  · rename_i hrev
    unfold worldInv at h
    cases hb : b.wl with
    | none => rw [hb] at h; cases h
    | some wl =>
      rw [hb] at h
      simp only [Bool.and_eq_true] at h
      obtain ⟨hcfg, hpod⟩ := h
      obtain ⟨c1, c2, c3⟩ := cfgInv_parts u wl hcfg
      obtain ⟨p1, p2, p3⟩ := podInv_parts u b wl hpod
      rw [podBasic_iff] at p1
      obtain ⟨q1, q2, q3, q4⟩ := p1
      have hu' := hu
      unfold userOK at hu'
      simp only [Bool.and_eq_true, decide_eq_true_eq, Bool.not_eq_true'] at hu'
      obtain ⟨⟨_, hmrs⟩, hR0⟩ := hu'
      have c1' := c1
      unfold cfgBase at c1'
      simp only [Bool.and_eq_true, decide_eq_true_eq, Bool.not_eq_true'] at c1'
      obtain ⟨⟨⟨hR, _⟩, hpaused⟩, _⟩ := c1'
      unfold podKept at p2
      have hcap : ∀ x, capAt wl.replicas x = if x > u.replicas then u.replicas else x := by
        intro x; rw [hR]; rfl
      dsimp only
      rw [hcap]
      unfold worldInv
      simp only [Bool.and_eq_true]
      constructor
      · -- configuration: only the partition changed, to the webhook's 100 %
        refine cfgInv_of_parts u _ c1 ?_ rfl
        unfold cfgSaved at c2 ⊢
        exact c2
      · unfold podInv podBasic podKept podPart
        simp only [Bool.and_eq_true, decide_eq_true_eq, Bool.or_eq_true, Option.isNone_iff_eq_none]
        by_cases hcur : rev = b.currentRevision
        · -- back to the current revision: its pods are the updated ones
          have hne : b.updateRevision ≠ b.currentRevision := by rw [← hcur]; exact fun e => hrev e.symm
          rw [if_neg hne] at p2
          simp only [decide_eq_true_eq] at p2
          simp only [if_pos hcur, decide_eq_true_eq]
          refine ⟨⟨⟨⟨⟨?_, ?_⟩, ?_⟩, ?_⟩, ?_⟩, ?_⟩
          · exact q1
          · trivial
          · split <;> omega
          · split <;> omega
          · split <;> omega
          · exact Or.inl (Or.inr hcur)
        · simp only [if_neg hcur, decide_eq_true_eq]
          refine ⟨⟨⟨⟨⟨?_, ?_⟩, ?_⟩, ?_⟩, ?_⟩, ?_⟩
          · exact q1
          · trivial
          · omega
          · omega
          · split at p2
            · simp only [decide_eq_true_eq] at p2; omega
            · simp only [decide_eq_true_eq] at p2; omega
          · exact Or.inr trivial

/-! ## the two reconcilers preserve the world invariant -/

theorem setAnno_worldInv (u : User) (a : Bool) (b : BW) (h : worldInv u b = true) : worldInv u (bgSetAnno a b) = true := by
  unfold bgSetAnno
  split
  · exact h
  · exact h

theorem disown_worldInv (u : User) (b : BW) (h : worldInv u b = true) : worldInv u (bgDisown b) = true := by
  unfold worldInv at h ⊢
  unfold bgDisown
  cases hb : b.wl with
  | none => rw [hb] at h; cases h
  | some wl =>
    rw [hb] at h
    simp only [Option.map_some, Bool.and_eq_true] at h ⊢
    obtain ⟨hcfg, hpod⟩ := h
    split
    · rename_i hctl
      obtain ⟨c1, c2, c3⟩ := cfgInv_parts u wl hcfg
      refine ⟨cfgInv_of_parts u _ c1 ?_ c3, pod_patch u b _ wl _ rfl (Or.inl rfl) rfl rfl hpod⟩
      -- only a workload with saved settings carries a control-info
      unfold cfgSaved at c2 ⊢
      cases hs : wl.saved with
      | none =>
        rw [hs] at c2
        simp only [Bool.and_eq_true, decide_eq_true_eq] at c2
        rw [c2.2] at hctl; cases hctl
      | bad => rw [hs] at c2; cases c2
      | some sv =>
        rw [hs] at c2
        exact c2
    · exact ⟨hcfg, pod_patch u b _ wl _ rfl (Or.inl rfl) rfl rfl hpod⟩

/-- one BatchRelease reconcile over the blue-green CloneSet plane preserves the world invariant -/
theorem br_worldInv (u : User) (br : BR) (b : BW) (o : StepOutX BGW) (h : worldInv u b = true)
    (hr : reconcileX (bgPlane .cloneSet) br (bgProj b) = .val o) : worldInv u (bgLand b o.wl) = true := by
  unfold worldInv at h
  cases hb : b.wl with
  | none => rw [hb] at h; cases h
  | some wl =>
    rw [hb] at h
    simp only [Bool.and_eq_true] at h
    obtain ⟨hcfg, hpod⟩ := h
    -- what the reconcile can have done to the CloneSet: nothing, or one of the three patches
    have key : ∃ wl', o.wl.w.wl = some wl' ∧ cfgInv u wl' = true ∧ wl'.status = wl.status ∧
        (wl'.partition = wl.partition ∨ wl'.partition = none) := by
      have hpw : (bgProj b).w.wl = some wl := hb
      rcases reconcileX_world (bgPlane .cloneSet) br (bgProj b) o hr with hw | ⟨m, ms, r, hi⟩ | ⟨m, r, hu⟩ | ⟨r, hf⟩
      · rw [hw]; exact ⟨wl, hpw, hcfg, rfl, Or.inl rfl⟩
      · obtain ⟨out, hout, hw', _⟩ := RV.Props.ExecutorX.bg_init_inv .cloneSet _ m ms (bgProj b) o.wl r hi
        rw [hw']
        rcases RV.Lemmas.CtlBlueGreen.initialize_wl .cloneSet _ _ _ out hout with ⟨hsame, _⟩ | ⟨wl0, s, hw0, _, hg, _, hnew⟩
        · exact ⟨wl, hsame.trans hpw, hcfg, rfl, Or.inl rfl⟩
        · rw [hpw] at hw0; cases hw0
          exact ⟨_, hnew, cfg_initPatch u wl _ s hcfg hg, rfl, Or.inl rfl⟩
      · obtain ⟨out, hout, hw', _⟩ := RV.Props.ExecutorX.bg_upgrade_inv .cloneSet _ m (bgProj b) o.wl r hu
        rw [hw']
        rcases RV.Lemmas.CtlBlueGreen.upgrade_world .cloneSet _ _ _ out hout with ⟨hsame, _⟩ | ⟨wl0, R, e, hw0, _, _, _, hv, _, _, _, hnew⟩
        · rw [hsame]; exact ⟨wl, hpw, hcfg, rfl, Or.inl rfl⟩
        · rw [hpw] at hw0; cases hw0
          rw [hnew]
          exact ⟨_, rfl, cfg_upgradePatch u wl e hcfg hv, rfl, Or.inr rfl⟩
      · obtain ⟨out, hout, hw', _⟩ := RV.Props.ExecutorX.bg_fin_inv .cloneSet _ (bgProj b) o.wl r hf
        rw [hw']
        rcases RV.Lemmas.CtlBlueGreen.finalize_wl .cloneSet _ _ _ out hout with hsame | ⟨wl0, s, hw0, hres, _, hg, hnew⟩
        · exact ⟨wl, hsame.trans hpw, hcfg, rfl, Or.inl rfl⟩
        · rw [hpw] at hw0; cases hw0
          have hnew' : out.world.wl = some (RV.CtlBlueGreen.finalizePatch .cloneSet s wl) := by
            rcases hnew with h | h
            · exact h
            · rw [RV.Lemmas.CtlBlueGreen.forgetWl_finalizePatch_cs] at h; exact h
          exact ⟨_, hnew', cfg_finalizePatch u wl s hcfg hres hg, rfl, Or.inl rfl⟩
    obtain ⟨wl', hw', hcfg', hst, hpart⟩ := key
    unfold worldInv bgLand
    simp only [hw', Bool.and_eq_true]
    exact ⟨hcfg', pod_patch u b _ wl wl' hst hpart rfl rfl hpod⟩

end RV.Lemmas.ClosedLoopBG
