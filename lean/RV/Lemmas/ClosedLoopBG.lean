/-
  Helper lemmas for `RV.Props.ClosedLoopBG`: how the transitions of the generic closed loop touch the workload world
  (frames), and that every one of them preserves the world invariant of the blue-green instance.
-/
import RV.Model.ClosedLoopBG
import RV.Oracle.ClosedLoopBG
import RV.Lemmas.ExecutorX
import RV.Props.ExecutorXBG
import RV.Lemmas.CtlBlueGreen
import RV.Lemmas.ClosedLoopArith
namespace RV.Lemmas.ClosedLoopBG
open RV.Arith IntOrPct RV.Traffic RV.ClosedLoopBG RV.Oracle.ClosedLoopBG
open RV.ClosedLoop (CBr Label)
open RV.Executor (BR Status CallResult Out)
open RV.ExecutorX
open RV.CtlBlueGreen (Workload HPA maxReady)

variable {W P : Type}

/-! ## frames of the generic loop -/

/-- a Rollout reconcile touches the workload world only through the in-progress annotation and by making an old
    control annotation foreign (when it creates a BatchRelease) -/
theorem stepRo_world (L : Loop W P) (s s' : GS W) (h : stepRo L s = some s') :
    s'.world = s.world ∨ (∃ a, s'.world = L.setAnno a s.world) ∨ s'.world = L.disown s.world ∨
    (∃ a, s'.world = L.disown (L.setAnno a s.world)) := by
  unfold stepRo at h
  split at h
  · injection h with h; subst h; exact Or.inl rfl
  · split at h
    · cases h
    · split at h
      · cases h
      · rename_i r _
        injection h with h; subst h
        have key : ∀ (ob : Option CBr) (nb : Option RolloutSM.BR) (v : Option RolloutSM.WL) (w : W),
            (landBR L ob nb (annoLand L w v)).2 = w ∨ (∃ a, (landBR L ob nb (annoLand L w v)).2 = L.setAnno a w) ∨
            (landBR L ob nb (annoLand L w v)).2 = L.disown w ∨
            (∃ a, (landBR L ob nb (annoLand L w v)).2 = L.disown (L.setAnno a w)) := by
          intro ob nb v w
          cases ob <;> cases nb <;> cases v <;>
            first
              | exact Or.inl rfl
              | exact Or.inr (Or.inl ⟨_, rfl⟩)
              | exact Or.inr (Or.inr (Or.inl rfl))
              | exact Or.inr (Or.inr (Or.inr ⟨_, rfl⟩))
        exact key s.br r.w.br r.w.wl s.world

/-- what `executeX` can do to the plane's world: nothing, or exactly one of `Initialize`, `UpgradeBatch`, `Finalize` -/
theorem executeX_world (Pl : Plane P) (br : BR) (ns : Status) (w : P) (ns' : Status) (w' : P) (rq er : Bool)
    (h : executeX Pl br ns w = .val (ns', w', rq, er)) :
    w' = w ∨ (∃ m ms r, Pl.init br m w = .val (w', ms, r)) ∨ (∃ m r, Pl.upgrade br m w = .val (w', r)) ∨
    (∃ r, Pl.fin br w = .val (w', r)) := by
  unfold executeX at h
  dsimp only at h
  split at h
  · unfold execPreparingX at h
    split at h
    · cases h
    · rename_i r hr
      right; left
      split at h <;> simp only [Out.val.injEq, Prod.mk.injEq] at h <;> obtain ⟨_, h2, _⟩ := h <;> subst h2 <;>
        exact ⟨_, r.2.1, r.2.2, hr⟩
  · unfold execProgressingX at h
    dsimp only at h
    split at h
    · split at h
      · cases h
      · rename_i w1 hu
        simp only [Out.val.injEq, Prod.mk.injEq] at h
        obtain ⟨_, h2, _⟩ := h; subst h2
        exact Or.inr (Or.inr (Or.inl ⟨_, _, hu⟩))
      · rename_i w1 hu
        simp only [Out.val.injEq, Prod.mk.injEq] at h
        obtain ⟨_, h2, _⟩ := h; subst h2
        exact Or.inr (Or.inr (Or.inl ⟨_, _, hu⟩))
    · split at h
      · cases h
      · simp only [Out.val.injEq, Prod.mk.injEq] at h; exact Or.inl h.2.1.symm
      · simp only [Out.val.injEq, Prod.mk.injEq] at h; exact Or.inl h.2.1.symm
    · split at h
      · cases h
      · simp only [Out.val.injEq, Prod.mk.injEq] at h; exact Or.inl h.2.1.symm
      · split at h <;> simp only [Out.val.injEq, Prod.mk.injEq] at h <;> exact Or.inl h.2.1.symm
    · simp only [Out.val.injEq, Prod.mk.injEq] at h; exact Or.inl h.2.1.symm
  · unfold execFinalizingX at h
    split at h
    · cases h
    · rename_i r hr
      right; right; right
      split at h <;> simp only [Out.val.injEq, Prod.mk.injEq] at h <;> obtain ⟨_, h2, _⟩ := h <;> subst h2 <;>
        exact ⟨r.2, hr⟩
  · simp only [Out.val.injEq, Prod.mk.injEq] at h; exact Or.inl h.2.1.symm

/-- the same for a whole BatchRelease reconcile (the release as the executor holds it carries the finalizer) -/
theorem reconcileX_world (Pl : Plane P) (br : BR) (w : P) (o : StepOutX P) (h : reconcileX Pl br w = .val o) :
    o.wl = w ∨ (∃ m ms r, Pl.init (Executor.withFinalizer br) m w = .val (o.wl, ms, r)) ∨
    (∃ m r, Pl.upgrade (Executor.withFinalizer br) m w = .val (o.wl, r)) ∨
    (∃ r, Pl.fin (Executor.withFinalizer br) w = .val (o.wl, r)) := by
  rcases reconcileX_cases Pl br w o h with ⟨_, _, _, _, hw⟩ | ⟨_, s, _, hrest⟩
  · exact Or.inl hw
  · rcases hrest with ⟨_, _, hw⟩ | ⟨_, ns', w', rq, er, hex, _, hw⟩
    · exact Or.inl hw
    · rw [hw]; exact executeX_world Pl _ _ w ns' w' rq er hex

/-! ## the configuration part of the world invariant under the three patches of the blue-green CloneSet control -/

open RV.CtlBlueGreen (initPatch upgradePatch finalizePatch initSetting getSetting validate restored Setting)
open RV.Oracle.CtlBlueGreen (effSetting complete)

theorem userSetting_complete (u : User) : complete .cloneSet (userSetting u) = true :=
  RV.Lemmas.CtlBlueGreen.effSetting_complete _ _

theorem cfgInv_parts (u : User) (wl : Workload) (h : cfgInv u wl = true) :
    cfgBase u wl = true ∧ cfgSaved u wl = true ∧ cfgPart wl = true := by
  unfold cfgInv at h
  simp only [Bool.and_eq_true] at h
  exact ⟨h.1.1, h.1.2, h.2⟩

theorem cfgInv_of_parts (u : User) (wl : Workload) (h1 : cfgBase u wl = true) (h2 : cfgSaved u wl = true)
    (h3 : cfgPart wl = true) : cfgInv u wl = true := by
  unfold cfgInv; rw [h1, h2, h3]; rfl

/-- what the saved-settings part says of the setting `Initialize` / `Finalize` read from the annotation -/
theorem cfgSaved_getSetting (u : User) (wl : Workload) (s : Setting) (h : cfgSaved u wl = true)
    (hg : getSetting wl.saved = some s) :
    (wl.saved = .none ∧ s = CtlBlueGreen.emptySetting ∧ effSetting .cloneSet wl = userSetting u ∧ wl.ctl = .none) ∨
    (wl.saved = .some s ∧ s = userSetting u ∧ holdInstalled wl = true) := by
  unfold cfgSaved at h
  cases hs : wl.saved with
  | none =>
    rw [hs] at h hg
    simp only [Bool.and_eq_true, decide_eq_true_eq] at h
    simp only [getSetting, Option.some.injEq] at hg
    exact Or.inl ⟨rfl, hg.symm, h.1, h.2⟩
  | bad => rw [hs] at h; cases h
  | some sv =>
    rw [hs] at h hg
    simp only [Bool.and_eq_true, decide_eq_true_eq] at h
    simp only [getSetting, Option.some.injEq] at hg
    subst hg
    exact Or.inr ⟨rfl, h.1, h.2⟩

/-- the patch of `Initialize` -/
theorem cfg_initPatch (u : User) (wl : Workload) (b : CtlBlueGreen.BR) (s : Setting) (h : cfgInv u wl = true)
    (hg : getSetting wl.saved = some s) : cfgInv u (initPatch .cloneSet b (initSetting .cloneSet s wl) wl) = true := by
  obtain ⟨h1, h2, h3⟩ := cfgInv_parts u wl h
  have hset : initSetting .cloneSet s wl = userSetting u := by
    rcases cfgSaved_getSetting u wl s h2 hg with ⟨_, hs, he, _⟩ | ⟨_, hs, _⟩
    · subst hs; exact he
    · subst hs; exact RV.Lemmas.CtlBlueGreen.initSetting_complete _ _ _ (userSetting_complete u)
  refine cfgInv_of_parts u _ ?_ ?_ ?_
  · unfold cfgBase at h1 ⊢
    simp only [Bool.and_eq_true, decide_eq_true_eq, Bool.not_eq_true'] at h1
    simp [initPatch, h1.1.1.1, h1.1.1.2, h1.2]
  · unfold cfgSaved
    simp [initPatch, hset, holdInstalled, CtlBlueGreen.ruUnavailable, CtlBlueGreen.ruSurge]
  · exact h3

/-- the patch of `UpgradeBatch` (it is issued only on a workload that passes `ValidateReadyForBlueGreenRelease`) -/
theorem cfg_upgradePatch (u : User) (wl : Workload) (e : IntOrPct) (h : cfgInv u wl = true)
    (hv : validate .cloneSet wl = true) : cfgInv u (upgradePatch .cloneSet e wl) = true := by
  obtain ⟨h1, h2, h3⟩ := cfgInv_parts u wl h
  refine cfgInv_of_parts u _ ?_ ?_ ?_
  · exact h1
  · unfold cfgSaved at h2 ⊢
    cases hs : wl.saved with
    | none =>
      -- a workload without saved settings carries no control-info: it does not pass the validation
      rw [hs] at h2
      simp only [Bool.and_eq_true, decide_eq_true_eq] at h2
      simp [validate, h2.2] at hv
    | bad => rw [hs] at h2; cases h2
    | some sv =>
      rw [hs] at h2
      simp only [Bool.and_eq_true, decide_eq_true_eq] at h2
      obtain ⟨hsv, hh⟩ := h2
      unfold holdInstalled at hh
      simp only [Bool.and_eq_true, decide_eq_true_eq] at hh
      have hsv' : (upgradePatch .cloneSet e wl).saved = .some sv := hs
      rw [hsv']
      simp only [Bool.and_eq_true, decide_eq_true_eq]
      refine ⟨hsv, ?_⟩
      unfold holdInstalled
      simp only [Bool.and_eq_true, decide_eq_true_eq]
      exact ⟨⟨hh.1.1, hh.1.2⟩, rfl⟩
  · unfold cfgPart; simp [upgradePatch]

/-- the restoring patch of `Finalize` -/
theorem cfg_finalizePatch (u : User) (wl : Workload) (s : Setting) (h : cfgInv u wl = true)
    (hr : restored wl = false) (hg : getSetting wl.saved = some s) :
    cfgInv u (finalizePatch .cloneSet s wl) = true := by
  obtain ⟨h1, h2, h3⟩ := cfgInv_parts u wl h
  have hsu : s = userSetting u := by
    rcases cfgSaved_getSetting u wl s h2 hg with ⟨hn, _, _, _⟩ | ⟨_, hs, _⟩
    · simp [restored, hn] at hr
    · exact hs
  refine cfgInv_of_parts u _ ?_ ?_ ?_
  · exact h1
  · unfold cfgSaved
    have he := RV.Lemmas.CtlBlueGreen.effSetting_finalizePatch .cloneSet s wl (by rw [hsu]; exact userSetting_complete u)
    rw [RV.Lemmas.CtlBlueGreen.forgetWl_finalizePatch_cs] at he
    have hsv : (finalizePatch .cloneSet s wl).saved = .none := rfl
    have hc : (finalizePatch .cloneSet s wl).ctl = .none := rfl
    rw [hsv]
    simp only [Bool.and_eq_true, decide_eq_true_eq]
    exact ⟨by rw [he, hsu], hc⟩
  · exact h3

/-! ## the pod part -/

theorem podInv_parts (u : User) (b : BW) (wl : Workload) (h : podInv u b wl = true) :
    podBasic wl = true ∧ podKept u b wl = true ∧ podPart b wl = true := by
  unfold podInv at h
  simp only [Bool.and_eq_true] at h
  exact ⟨h.1.1, h.1.2, h.2⟩

theorem podBasic_iff (wl : Workload) : podBasic wl = true ↔
    wl.status.ready = wl.status.replicas ∧ wl.status.updatedReady = wl.status.updated ∧ 0 ≤ wl.status.updated ∧
    wl.status.updated ≤ wl.status.ready := by
  unfold podBasic
  simp only [Bool.and_eq_true, decide_eq_true_eq]
  constructor
  · rintro ⟨⟨⟨a, b⟩, c⟩, d⟩; exact ⟨a, b, c, d⟩
  · rintro ⟨a, b, c, d⟩; exact ⟨⟨⟨a, b⟩, c⟩, d⟩

/-- a patch of the control plane leaves the status alone and keeps or clears the partition: the pod part is untouched -/
theorem pod_patch (u : User) (b b' : BW) (wl wl' : Workload) (hst : wl'.status = wl.status)
    (hp : wl'.partition = wl.partition ∨ wl'.partition = none)
    (hu : b'.updateRevision = b.updateRevision) (hc : b'.currentRevision = b.currentRevision)
    (h : podInv u b wl = true) : podInv u b' wl' = true := by
  obtain ⟨h1, h2, h3⟩ := podInv_parts u b wl h
  unfold podInv
  simp only [Bool.and_eq_true]
  refine ⟨⟨?_, ?_⟩, ?_⟩
  · unfold podBasic at h1 ⊢; rw [hst]; exact h1
  · unfold podKept at h2 ⊢; rw [hst, hu, hc]; exact h2
  · unfold podPart at h3 ⊢
    rcases hp with hp | hp
    · rw [hp, hst, hu, hc]; exact h3
    · rw [hp]; rfl

theorem keptBy_pct100 (R : Int) (h : 0 ≤ R) : keptBy (some (pct 100)) R = R := by
  unfold keptBy
  simp only [RV.Lemmas.ClosedLoop.scaled_pct100]
  split
  · omega
  · split <;> omega

end RV.Lemmas.ClosedLoopBG
