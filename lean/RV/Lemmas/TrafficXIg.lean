/-
  The canary-Ingress provider (`RV.TrafficX.igProvider`, over `RV/Model/Ingress.lean`) satisfies the provider
  laws — from the C14 lemmas `ensure_cases`, `Spec.hist`, `Spec.congr`, `derived_step`, `inv_ensure`,
  `inv_finalise`.
-/
import RV.Lemmas.TrafficXGw
import RV.Lemmas.Ingress
namespace RV.TrafficX
open RV.Ingress RV.Oracle.C14 RV.Oracle.TrafficX

/-- the API value after the reads of `EnsureRoutes` (the stable Ingress is read only when a canary Ingress has
    to be created) -/
def igNeedStable (w : World) (s : Strat) : Bool := w.canary.isNone && s.weight != some 0

theorem ig_ensure_eq (cfg : Cfg) (a : Api) (w : World) (s : Strat) :
    (igProvider cfg).ensure a w s =
      if a.read.1 then ⟨w, false, true, a.read.2, [], false⟩
      else if igNeedStable w s && a.read.2.read.1 then ⟨w, false, true, a.read.2.read.2, [], false⟩
      else igRun (if igNeedStable w s then a.read.2.read.2 else a.read.2) w (ensureRoutes cfg w (igStrategy s)) := by
  simp only [igProvider, igNeedStable]
  rw [show a.read = (a.read.1, a.read.2) from rfl]
  cases h1 : a.read.1
  · simp only [Bool.false_eq_true, if_false]
    by_cases hn : (w.canary.isNone && s.weight != some 0) = true
    · simp only [hn, if_true, Bool.true_and]
    · simp only [hn, Bool.false_eq_true, if_false, Bool.false_and]
  · simp

theorem ig_finalise_eq (cfg : Cfg) (a : Api) (w : World) :
    (igProvider cfg).finalise a w =
      if a.read.1 then ⟨w, false, true, a.read.2, [], false⟩ else igRun a.read.2 w (finalise cfg w) := by
  simp only [igProvider]

/-- the weight the Ingress model computes is the strategy's weight -/
theorem igStrategy_weight (s : Strat) : (igStrategy s).traffic.map weightOf = s.weight := rfl

theorem named_ig (ws : List Write) : NamedWrites (ws.map igWriteName) := by
  intro w hw
  simp only [List.mem_map] at hw
  obtain ⟨x, _, rfl⟩ := hw
  cases x <;> simp only [igWriteName] <;> decide

/-- rounds still needed: 2 to create and set, 1 to set, 0 when set (or when the script rejects the step) -/
def igMu (cfg : Cfg) (w : World) (s : Strat) : Nat :=
  match w.canary with
  | none => if s.weight = some 0 then 0 else 2
  | some c =>
    match script cfg.cls c.ing.ann (luaStepOf (igStrategy s)) with
    | none => 0
    | some new => if eqvB c.ing.ann new then 0 else 1

theorem igMu_le (cfg : Cfg) (w : World) (s : Strat) : igMu cfg w s ≤ 2 := by
  unfold igMu
  split
  · split <;> omega
  · split
    · omega
    · split <;> omega

theorem igMu_some_le (cfg : Cfg) (w : World) (s : Strat) (c : CanaryObj) (h : w.canary = some c) : igMu cfg w s ≤ 1 := by
  unfold igMu
  rw [h]
  simp only []
  split
  · omega
  · split <;> omega

/-- after a patch the annotations are a fixed point of the script for the step (or the script rejects them) -/
theorem patched_fixed {cls : Class} {a new ann' : AnnMap} {ls : LuaStep}
    (hn : script cls a ls = some new) (hv : Eqv ann' new) :
    (match script cls ann' ls with
     | none => True
     | some n2 => eqvB ann' n2 = true) := by
  cases h2 : script cls ann' ls with
  | none => trivial
  | some n2 =>
    simp only []
    -- script new ls succeeds too (congruence), and equals new up to Eqv (history independence with s₁ = s₂)
    obtain ⟨b, hb, hbn⟩ := (specOf cls).congr hv h2
    obtain ⟨d, hd, hbd⟩ := (specOf cls).hist hn hb
    rw [hn] at hd
    cases hd
    exact (eqvB_iff _ _).mpr (hv.trans (hbd.symm.trans hbn.symm))


/-- `EnsureRoutes` of the Ingress provider: either a `Get` failed (error, nothing changed), or no `Get` failed and
    the call is the model's `ensureRoutes` under the write budget -/
theorem ig_ensure_char (cfg : Cfg) (a : Api) (w : World) (s : Strat) :
    (∃ a1, (igProvider cfg).ensure a w s = ⟨w, false, true, a1, [], false⟩ ∧ a.armed = true ∧ a1.armed = false) ∨
    (∃ a2, a2.armed = a.armed ∧ (a.armed = false → a2 = a) ∧ a2.w = a.w ∧
      (igProvider cfg).ensure a w s = igRun a2 w (ensureRoutes cfg w (igStrategy s))) := by
  rw [ig_ensure_eq]
  rcases Api.read_cases a with ⟨hr, har, hr2⟩ | ⟨hr, hr2⟩
  · left; exact ⟨a.read.2, by simp [hr], har, hr2⟩
  · have hw1 : a.read.2.w = a.w := by
      obtain ⟨w', r⟩ := a
      cases r with
      | none => rfl
      | some k => cases k with
        | zero => rfl
        | succ k => cases k <;> rfl
    by_cases hn : igNeedStable w s = true
    · rcases Api.read_cases a.read.2 with ⟨hq, haq, hq2⟩ | ⟨hq, hq2⟩
      · left; exact ⟨a.read.2.read.2, by simp [hr, hn, hq], by rw [← hr2]; exact haq, hq2⟩
      · right
        have hw2 : a.read.2.read.2.w = a.read.2.w := by
          generalize a.read.2 = b
          obtain ⟨w', r⟩ := b
          cases r with
          | none => rfl
          | some k => cases k with
            | zero => rfl
            | succ k => cases k <;> rfl
        refine ⟨a.read.2.read.2, hq2.trans hr2, ?_, hw2.trans hw1, by simp [hr, hn, hq]⟩
        intro ha
        rw [Api.read_snd_not_armed ha, Api.read_snd_not_armed ha]
    · right
      have hn' : igNeedStable w s = false := by simpa using hn
      exact ⟨a.read.2, hr2, fun ha => Api.read_snd_not_armed ha, hw1, by simp [hr, hn']⟩

theorem ig_finalise_char (cfg : Cfg) (a : Api) (w : World) :
    (∃ a1, (igProvider cfg).finalise a w = ⟨w, false, true, a1, [], false⟩ ∧ a.armed = true ∧ a1.armed = false) ∨
    (∃ a2, a2.armed = a.armed ∧ (a.armed = false → a2 = a) ∧
      (igProvider cfg).finalise a w = igRun a2 w (finalise cfg w)) := by
  rw [ig_finalise_eq]
  rcases Api.read_cases a with ⟨hr, har, hr2⟩ | ⟨hr, hr2⟩
  · left; exact ⟨a.read.2, by simp [hr], har, hr2⟩
  · right; exact ⟨a.read.2, hr2, fun ha => Api.read_snd_not_armed ha, by simp [hr]⟩

theorem igRun_nowrite (a : Api) (w w' : World) (done : Bool) (e : Err) :
    igRun a w (.ret w' done e []) = ⟨w', done, e != .ok, a, [], false⟩ := by
  simp [igRun]

theorem igRun_write (a : Api) (w w' : World) (done : Bool) (e : Err) (x : Write) :
    igRun a w (.ret w' done e [x]) =
      match a.spend with
      | none => ⟨w, false, true, a, [], false⟩
      | some a1 => ⟨w', done, e != .ok, a1, [igWriteName x], false⟩ := by
  simp only [igRun, List.isEmpty_cons, Bool.false_eq_true, if_false, List.map_cons, List.map_nil]
  cases a.spend <;> rfl

/-- **the canary-Ingress provider is lawful** (C14), on every state reachable from "the user's stable Ingress
    `st`, no canary Ingress": *verified* means that the canary annotations are a fixed point of the class's
    script for the step **and** are exactly those of entering the step first — `script(stable, step)` — with
    exactly the re-targeted stable paths as rules. -/
theorem ig_lawful (cfg : Cfg) (st : Ingress) :
    LawfulProvider (igProvider cfg) (Inv cfg st)
      (fun w s => igSpecB cfg s w = true ∧ igFreshB cfg s w = true) (fun w => igCleanB w = true) (igMu cfg) 2 where
  inv_ensure := by
    intro a w s hi
    rcases ig_ensure_char cfg a w s with ⟨a1, h, _, _⟩ | ⟨a2, _, _, _, h⟩
    · rw [h]; exact hi
    · rw [h]
      obtain ⟨w', done, e, ws, hens, _, _⟩ := ensure_frame cfg w (igStrategy s)
      have hi' := inv_ensure hi hens
      rw [hens]
      unfold igRun
      simp only []
      split
      · exact hi'
      · split
        · exact hi
        · exact hi'
  inv_finalise := by
    intro a w hi
    rcases ig_finalise_char cfg a w with ⟨a1, h, _, _⟩ | ⟨a2, _, _, h⟩
    · rw [h]; exact hi
    · rw [h]
      obtain ⟨w', done, ws, hfin, _, _⟩ := finalise_frame cfg w
      have hi' := inv_finalise hi hfin
      rw [hfin]
      unfold igRun
      simp only []
      split
      · exact hi'
      · split
        · exact hi
        · exact hi'
  verified_spec := by
    intro a w s hi _ he hf
    rcases ig_ensure_char cfg a w s with ⟨a1, h, _, _⟩ | ⟨a2, _, _, _, h⟩
    · rw [h] at hf; cases hf
    · rw [h] at he hf ⊢
      rcases ensure_cases cfg w (igStrategy s) with ⟨hn, hw0, h'⟩ | ⟨_, _, h'⟩ | ⟨_, _, _, _, h'⟩ | ⟨_, _, _, _, _, h'⟩ |
        ⟨_, _, _, h'⟩ | ⟨c, new, hc, hn, hv, h'⟩ | ⟨_, _, _, _, _, _, h'⟩
      · rw [h', igRun_nowrite]
        rw [igStrategy_weight] at hw0
        simp [igSpecB, igFreshB, hn, hw0]
      · rw [h', igRun_nowrite] at hf; cases hf
      · rw [h', igRun_nowrite] at hf; cases hf
      · rw [h', igRun_write] at hf; split at hf <;> cases hf
      · rw [h', igRun_nowrite] at hf; cases hf
      · rw [h', igRun_nowrite]
        obtain ⟨d, hfresh, hnd⟩ := derived_step (hi.derived c hc) hn
        have hst := hi.stable
        simp only [igSpecB, igFreshB, hc, hn, hst, annAsFresh, hfresh, pathsOk, hi.rules c hc, beq_self_eq_true,
          Bool.and_true]
        exact ⟨(eqvB_iff _ _).mpr hv, (eqvB_iff _ _).mpr (hv.trans hnd)⟩
      · rw [h', igRun_write] at hf; split at hf <;> cases hf
  verified_stable := by
    intro a w s _ _ he hf a' ha'
    have hsame : ((igProvider cfg).ensure a w s).g = w ∧
        igRun a' w (ensureRoutes cfg w (igStrategy s)) = ⟨w, true, false, a', [], false⟩ := by
      rcases ig_ensure_char cfg a w s with ⟨a1, h, _, _⟩ | ⟨a2, _, _, _, h⟩
      · rw [h] at hf; cases hf
      · rw [h] at he hf ⊢
        rcases ensure_cases cfg w (igStrategy s) with ⟨_, _, h'⟩ | ⟨_, _, h'⟩ | ⟨_, _, _, _, h'⟩ | ⟨_, _, _, _, _, h'⟩ |
          ⟨_, _, _, h'⟩ | ⟨_, _, _, _, _, h'⟩ | ⟨_, _, _, _, _, _, h'⟩
        · rw [h', igRun_nowrite, igRun_nowrite]; exact ⟨rfl, rfl⟩
        · rw [h', igRun_nowrite] at hf; cases hf
        · rw [h', igRun_nowrite] at hf; cases hf
        · rw [h', igRun_write] at hf; split at hf <;> cases hf
        · rw [h', igRun_nowrite] at hf; cases hf
        · rw [h', igRun_nowrite, igRun_nowrite]; exact ⟨rfl, rfl⟩
        · rw [h', igRun_write] at hf; split at hf <;> cases hf
    rw [hsame.1]
    rcases ig_ensure_char cfg a' w s with ⟨a1, _, har, _⟩ | ⟨a2, _, hsm, _, h⟩
    · rw [ha'] at har; cases har
    · rw [h, hsm ha', hsame.2]; rfl
  finalise_clean := by
    intro a w hi _ he
    rcases ig_finalise_char cfg a w with ⟨a1, h, _, _⟩ | ⟨a2, _, _, h⟩
    · rw [h] at he; cases he
    · rw [h] at he ⊢
      unfold finalise at he ⊢
      cases hc : w.canary with
      | none => simp [igRun, igCleanB, finalisedOk, hc]
      | some c =>
        simp only [hc] at he ⊢
        by_cases hd : c.deleting = true
        · simp [igRun, hd, igCleanB, finalisedOk, hc, hi.wf c hc hd]
        · simp only [hd, Bool.false_eq_true, if_false, igRun_write] at he ⊢
          cases hsp : a2.spend with
          | none => simp [hsp] at he
          | some a3 =>
            simp only [hsp]
            by_cases hf : c.fin = true <;> simp [igCleanB, finalisedOk, hf]
  finalise_stable := by
    intro a w hi _ he a' ha'
    -- the state after a successful Finalise: no canary Ingress, or one marked for deletion
    have hpost : (((igProvider cfg).finalise a w).g.canary = none ∨
        ∃ c, ((igProvider cfg).finalise a w).g.canary = some c ∧ c.deleting = true) := by
      rcases ig_finalise_char cfg a w with ⟨a1, h, _, _⟩ | ⟨a2, _, _, h⟩
      · rw [h] at he; cases he
      · rw [h] at he ⊢
        unfold finalise at he ⊢
        cases hc : w.canary with
        | none => left; simp [igRun, hc]
        | some c =>
          simp only [hc] at he ⊢
          by_cases hd : c.deleting = true
          · right; exact ⟨c, by simp [igRun, hd, hc], hd⟩
          · simp only [hd, Bool.false_eq_true, if_false, igRun_write] at he ⊢
            cases hsp : a2.spend with
            | none => simp [hsp] at he
            | some a3 =>
              simp only [hsp]
              by_cases hf : c.fin = true
              · right; exact ⟨{ c with deleting := true }, by simp [hf], rfl⟩
              · left; simp [hf]
    generalize ((igProvider cfg).finalise a w).g = w1 at hpost
    rcases ig_finalise_char cfg a' w1 with ⟨a1, _, har, _⟩ | ⟨a2, _, hsm, h⟩
    · rw [ha'] at har; cases har
    · rw [h, hsm ha']
      rcases hpost with hn | ⟨c, hc, hd⟩
      · simp [finalise, hn, igRun, PRes.noop]
      · simp [finalise, hc, hd, igRun, PRes.noop]
  finalise_healthy := by
    intro w _
    rw [ig_finalise_eq]
    simp only [Api.read_ok, Bool.false_eq_true, if_false]
    unfold finalise igRun
    cases w.canary with
    | none => exact ⟨rfl, rfl⟩
    | some c => by_cases hd : c.deleting = true <;> simp [hd]
  ensure_progress := by
    intro w s hi _ he
    rcases ig_ensure_char cfg Api.ok w s with ⟨a1, _, har, _⟩ | ⟨a2, _, hsm, _, h⟩
    · cases har
    · have := hsm rfl
      subst this
      rw [h] at he ⊢
      rcases ensure_cases cfg w (igStrategy s) with ⟨hn, hw0, h'⟩ | ⟨_, _, h'⟩ | ⟨_, _, _, _, h'⟩ | ⟨st', a0, hn, _, _, h'⟩ |
        ⟨_, _, _, h'⟩ | ⟨c, new, hc, hn, hv, h'⟩ | ⟨c, new, ann', hc, hn, hv, h'⟩
      · rw [h', igRun_nowrite]
        exact ⟨(fun hh => by cases hh), Nat.le_refl _⟩
      · rw [h', igRun_nowrite] at he; cases he
      · rw [h', igRun_nowrite] at he; cases he
      · -- created: one round less to go
        rw [h', igRun_write]
        simp only [Api.spend_ok]
        have h1 := igMu_some_le cfg { w with canary := some (createdCanary cfg st' a0) } s _ rfl
        have h2 : igMu cfg w s = 2 := by
          unfold igMu
          rw [hn]
          have hw : s.weight ≠ some 0 := by
            intro hw
            have hh : ensureRoutes cfg w (igStrategy s) = .ret w true .ok [] := by
              unfold ensureRoutes; rw [hn]; simp [igStrategy_weight, hw]
            rw [hh] at h'; injection h' with _ hdone; cases hdone
          simp [hw]
        exact ⟨fun _ => by omega, by omega⟩
      · rw [h', igRun_nowrite] at he; cases he
      · rw [h', igRun_nowrite]
        exact ⟨(fun hh => by cases hh), Nat.le_refl _⟩
      · -- patched: the annotations are now a fixed point
        rw [h', igRun_write]
        simp only [Api.spend_ok]
        have hfix := patched_fixed hn hv
        have h1 : igMu cfg { w with canary := some { c with ing := { c.ing with ann := ann' } } } s = 0 := by
          unfold igMu
          simp only []
          cases h2 : script cfg.cls ann' (luaStepOf (igStrategy s)) with
          | none => rfl
          | some n2 => rw [h2] at hfix; simp only [] at hfix; simp [hfix]
        have h2 : igMu cfg w s = 1 := by
          unfold igMu
          rw [hc]
          simp only [hn]
          have : eqvB c.ing.ann new = false := by
            cases hb : eqvB c.ing.ann new
            · rfl
            · exfalso
              have hh : ensureRoutes cfg w (igStrategy s) = .ret w true .ok [] := by
                unfold ensureRoutes; rw [hc]; simp only [executeLua_eq, hn, hb, if_true]
              rw [hh] at h'; injection h' with _ hdone; cases hdone
          simp [this]
        rw [h1, h2]
        exact ⟨fun _ => Nat.zero_lt_one, Nat.zero_le _⟩
  μ_le := igMu_le cfg
  healthy_ensure := by
    intro w s
    rcases ig_ensure_char cfg Api.ok w s with ⟨a1, _, har, _⟩ | ⟨a2, _, hsm, _, h⟩
    · cases har
    · have := hsm rfl
      subst this
      rw [h]
      obtain ⟨w', done, e, ws, hens, _, _⟩ := ensure_frame cfg w (igStrategy s)
      rw [hens]
      unfold igRun
      simp only [Api.spend_ok]
      split <;> rfl
  healthy_finalise := by
    intro w
    rcases ig_finalise_char cfg Api.ok w with ⟨a1, _, har, _⟩ | ⟨a2, _, hsm, h⟩
    · cases har
    · have := hsm rfl
      subst this
      rw [h]
      obtain ⟨w', done, ws, hfin, _, _⟩ := finalise_frame cfg w
      rw [hfin]
      unfold igRun
      simp only [Api.spend_ok]
      split <;> rfl
  writes_ensure := by
    intro a w s
    rcases ig_ensure_char cfg a w s with ⟨a1, h, _, _⟩ | ⟨a2, _, _, _, h⟩
    · rw [h]; exact NamedWrites.nil
    · rw [h]
      obtain ⟨w', done, e, ws, hens, _, _⟩ := ensure_frame cfg w (igStrategy s)
      rw [hens]
      unfold igRun
      simp only []
      split
      · exact NamedWrites.nil
      · split
        · exact NamedWrites.nil
        · exact named_ig ws
  writes_finalise := by
    intro a w
    rcases ig_finalise_char cfg a w with ⟨a1, h, _, _⟩ | ⟨a2, _, _, h⟩
    · rw [h]; exact NamedWrites.nil
    · rw [h]
      obtain ⟨w', done, ws, hfin, _, _⟩ := finalise_frame cfg w
      rw [hfin]
      unfold igRun
      simp only []
      split
      · exact NamedWrites.nil
      · split
        · exact NamedWrites.nil
        · exact named_ig ws
  read_fault_ensure := by
    intro a w s _
    rcases ig_ensure_char cfg a w s with ⟨a1, h, har, h1⟩ | ⟨a2, harm, _, _, h⟩
    · rw [h]; exact ⟨fun _ => rfl, armed_false_elim h1⟩
    · rw [h]
      obtain ⟨w', done, e, ws, hens, _, _⟩ := ensure_frame cfg w (igStrategy s)
      rw [hens]
      unfold igRun
      simp only []
      split
      · exact ⟨rf_false_elim (readFailed_of_armed_eq harm), fun hh => harm ▸ hh⟩
      · split
        · exact ⟨fun _ => rfl, fun hh => harm ▸ hh⟩
        · rename_i a3 hsp
          have h3 := (Api.spend_armed hsp).trans harm
          exact ⟨rf_false_elim (readFailed_of_armed_eq h3), fun hh => h3 ▸ hh⟩
  read_fault_finalise := by
    intro a w _
    rcases ig_finalise_char cfg a w with ⟨a1, h, har, h1⟩ | ⟨a2, harm, _, h⟩
    · rw [h]; exact ⟨fun _ => rfl, armed_false_elim h1⟩
    · rw [h]
      obtain ⟨w', done, ws, hfin, _, _⟩ := finalise_frame cfg w
      rw [hfin]
      unfold igRun
      simp only []
      split
      · exact ⟨rf_false_elim (readFailed_of_armed_eq harm), fun hh => harm ▸ hh⟩
      · split
        · exact ⟨fun _ => rfl, fun hh => harm ▸ hh⟩
        · rename_i a3 hsp
          have h3 := (Api.spend_armed hsp).trans harm
          exact ⟨rf_false_elim (readFailed_of_armed_eq h3), fun hh => h3 ▸ hh⟩

end RV.TrafficX
