/-
  The ghost of C03 (`TGhost`: the gate ghost plus the steps whose pods were observed reported ready) over one transition.
-/
import RV.Lemmas.ClosedLoopTrafficDefs
import RV.Lemmas.ClosedLoopTrafficRoll
import RV.Lemmas.ClosedLoopTrafficRollRoute
import RV.Lemmas.ClosedLoopTrafficFin
import RV.Lemmas.ClosedLoopGate
namespace RV.Lemmas.ClosedLoopTraffic
open RV.Arith RV.Traffic RV.RolloutSM RV.ClosedLoop RV.Oracle.ClosedLoop RV.Oracle.ClosedLoopTraffic RV.Lemmas.ClosedLoop

/-- **the route invariant is inductive**: `gateInv` (by `gate_step`), the record of observed-ready steps stays sound, and a
    weight on the canary route stays the weight of a recorded step -/
theorem route_step (t : TGhost) (s s' : CS) (l : Label) (hinv : trInv s = true) (hr : routeInv t s = true)
    (hl : legal s l = true) (hs : step s l = some s') : routeInv (tstep t s l s') s' = true := by
  sorry

end RV.Lemmas.ClosedLoopTraffic
