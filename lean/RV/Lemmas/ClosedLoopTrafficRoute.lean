/-
  The ghost of C03 (`TGhost`: the gate ghost plus the steps whose pods were observed reported ready) over one transition.
-/
import RV.Lemmas.ClosedLoopTrafficDefs
import RV.Lemmas.ClosedLoopTrafficRoll
import RV.Lemmas.ClosedLoopTrafficRollRoute
import RV.Lemmas.ClosedLoopTrafficFin
import RV.Lemmas.ClosedLoopTrafficLabels
import RV.Lemmas.ClosedLoopGate
namespace RV.Lemmas.ClosedLoopTraffic
open RV.Arith RV.Traffic RV.RolloutSM RV.ClosedLoop RV.Oracle.ClosedLoop RV.Oracle.ClosedLoopTraffic RV.Lemmas.ClosedLoop

/-! ### the record of observed-ready steps, as propositions -/

/-- `seenOK` on a rolling state: the record stays within `1 … cur`, and names `cur` exactly when the flag is set -/
structure SeenOK (seen : List Int) (up : Bool) (cur : Int) : Prop where
  rng : ∀ j ∈ seen, 1 ≤ j ∧ j ≤ cur
  has : up = true → cur ∈ seen
  only : cur ∈ seen → up = true

theorem route_seenOK_some (t : TGhost) (s : CS) (sub : Sub) (h : rollingSub s = some sub) :
    seenOK t s = true ↔ SeenOK t.seen t.g.upgraded sub.curIdx := by
  unfold seenOK
  rw [h]
  dsimp only
  constructor
  · intro k
    simp only [Bool.and_eq_true, List.all_eq_true, decide_eq_true_eq] at k
    obtain ⟨⟨k1, k2⟩, k3⟩ := k
    refine ⟨k1, fun hu => ?_, fun hm => ?_⟩
    · rw [hu] at k2
      exact List.contains_iff_mem.1 (by simpa using k2)
    · have hc : t.seen.contains sub.curIdx = true := List.contains_iff_mem.2 hm
      rw [hc] at k3
      simpa using k3
  · intro k
    simp only [Bool.and_eq_true, List.all_eq_true, decide_eq_true_eq]
    refine ⟨⟨k.rng, ?_⟩, ?_⟩
    · cases hu : t.g.upgraded with
      | false => rfl
      | true =>
        have hc : t.seen.contains sub.curIdx = true := List.contains_iff_mem.2 (k.has hu)
        rw [hc]; rfl
    · cases hc : t.seen.contains sub.curIdx with
      | false => simp
      | true => rw [k.only (List.contains_iff_mem.1 hc)]; rfl

theorem route_seenOK_none (t : TGhost) (s : CS) (h : rollingSub s = none) : seenOK t s = true := by
  unfold seenOK; rw [h]

/-- what `tstep` records on a rolling post-state -/
def routeRec (g' : Ghost) (base : List Int) : List Int :=
  if g'.upgraded && !base.contains g'.idx then g'.idx :: base else base

theorem route_tstep_g (t : TGhost) (s s' : CS) (l : Label) : (tstep t s l s').g = gstep t.g s l s' := by
  unfold tstep
  dsimp only
  split <;> rfl

theorem route_tstep_seen_none (t : TGhost) (s s' : CS) (l : Label) (h : rollingSub s' = none) :
    (tstep t s l s').seen = t.seen := by
  unfold tstep
  dsimp only
  rw [h]

theorem route_tstep_seen_some (t : TGhost) (s s' : CS) (l : Label) (sub' : Sub) (h : rollingSub s' = some sub') :
    (tstep t s l s').seen = routeRec (gstep t.g s l s') (if (rollingSub s).isNone then [] else t.seen) := by
  unfold tstep routeRec
  dsimp only
  rw [h]

theorem routeRec_sup (g' : Ghost) (base : List Int) (j : Int) (h : j ∈ base) : j ∈ routeRec g' base := by
  unfold routeRec
  split
  · exact List.mem_cons_of_mem _ h
  · exact h

theorem routeRec_ok (g' : Ghost) (base : List Int) (cur : Int) (hidx : g'.idx = cur) (h1 : 1 ≤ cur)
    (hr : ∀ j ∈ base, 1 ≤ j ∧ j ≤ cur) (ho : cur ∈ base → g'.upgraded = true) :
    SeenOK (routeRec g' base) g'.upgraded cur := by
  unfold routeRec
  rw [hidx]
  cases hu : g'.upgraded with
  | false =>
    rw [if_neg (by simp)]
    refine ⟨hr, fun k => (by cases k), fun k => ?_⟩
    rw [← hu]; exact ho k
  | true =>
    cases hc : base.contains cur with
    | false =>
      rw [if_pos (by simp)]
      refine ⟨fun j hj => ?_, fun _ => List.mem_cons_self, fun _ => rfl⟩
      rcases List.mem_cons.1 hj with e | e
      · subst e; exact ⟨h1, Int.le_refl _⟩
      · exact hr j e
    | true =>
      rw [if_neg (by simp)]
      exact ⟨hr, fun _ => List.contains_iff_mem.1 hc, fun _ => rfl⟩

/-- the record only grows, unless a new rolling phase starts -/
theorem route_seen_sup (t : TGhost) (s s' : CS) (l : Label) (hn : rollingSub s = none → rollingSub s' = none)
    (j : Int) (hj : j ∈ t.seen) : j ∈ (tstep t s l s').seen := by
  cases h' : rollingSub s' with
  | none => rw [route_tstep_seen_none t s s' l h']; exact hj
  | some sub' =>
    rw [route_tstep_seen_some t s s' l sub' h']
    apply routeRec_sup
    cases h : rollingSub s with
    | none => rw [hn h] at h'; cases h'
    | some sub => exact hj

/-! ### the `upgraded` flag is kept while the step index stays -/

theorem route_up_mono (g : Ghost) (s s' : CS) (l : Label) (sub sub' : Sub) (h : rollingSub s = some sub)
    (h' : rollingSub s' = some sub') (he : sub'.curIdx = sub.curIdx) (hu : g.upgraded = true) :
    (gstep g s l s').upgraded = true := by
  by_cases h1 : l = .ro
  · subst h1
    rw [gstep_ro g s s' sub sub' h' h he]
    dsimp only
    rw [hu]; rfl
  · by_cases h2 : l = .approve
    · subst h2
      rw [gstep_approve g s s' sub sub' h' h he]
      exact hu
    · rw [gstep_other g s s' l sub sub' h' h he h1 h2]
      exact hu

/-! ### the forward invariant along a legal label (`RV.Props.ClosedLoop.fwd_step`, restated on the lemma level) -/

theorem route_fwd_step (s s' : CS) (l : Label) (h : fwdInv s = true) (hl : legal s l = true) (hs : step s l = some s') :
    fwdInv s' = true := by
  have key : ∃ s'', step s l = some s'' ∧ fwdInv s'' = true := by
    cases l with
    | ro => exact stepRo_fwd s h
    | br => exact stepBr_fwd s h
    | env => exact ⟨_, rfl, env_fwd s h⟩
    | release rev => exact ⟨_, rfl, release_fwd s rev h hl⟩
    | approve => exact ⟨_, rfl, approve_fwd s h⟩
    | tick => exact ⟨_, rfl, tick_fwd s h⟩
    | crash => exact ⟨_, rfl, crash_fwd s h⟩
    | delete => cases hl
  obtain ⟨s'', hs'', hf⟩ := key
  rw [hs] at hs''
  cases hs''
  exact hf

theorem route_cur_pos (s : CS) (sub : Sub) (h : fwdInv s = true) (hrs : rollingSub s = some sub) : 1 ≤ sub.curIdx := by
  obtain ⟨_, _, w, _, _, _, _, hpi⟩ := fwd_parts s h
  obtain ⟨_, hph, hr, hsub⟩ := (rollingSub_some_iff s sub).1 hrs
  rw [phaseInv_rolling s w sub hph hr hsub] at hpi
  simp only [Bool.and_eq_true] at hpi
  exact ((subOK_iff s.ro sub w).1 hpi.1.1).lo

/-! ### the labels other than `ro` -/

/-- a legal label other than `ro` writes neither the network nor the plan, and keeps the step index of a rolling rollout -/
theorem route_other (s s' : CS) (l : Label) (hgone : s.gone = false) (hl : legal s l = true) (hne : l ≠ .ro)
    (hs : step s l = some s') :
    s'.net = s.net ∧ s'.ro.steps = s.ro.steps ∧
    ((rollingSub s = none ∧ rollingSub s' = none) ∨
      ∃ sub sub', rollingSub s = some sub ∧ rollingSub s' = some sub' ∧ sub'.curIdx = sub.curIdx) := by
  have hsame : ∀ x : CS, x.gone = s.gone → x.ro = s.ro →
      ((rollingSub s = none ∧ rollingSub x = none) ∨
        ∃ sub sub', rollingSub s = some sub ∧ rollingSub x = some sub' ∧ sub'.curIdx = sub.curIdx) := by
    intro x h1 h2
    have e := rollingSub_congr s x h1 h2
    cases hrs : rollingSub s with
    | none => exact Or.inl ⟨rfl, by rw [e, hrs]⟩
    | some sub => exact Or.inr ⟨sub, sub, rfl, by rw [e, hrs], rfl⟩
  cases l with
  | ro => exact absurd rfl hne
  | br =>
    have hs0 : stepBr s = some s' := hs
    unfold stepBr at hs0
    split at hs0
    · cases hs0
      exact ⟨rfl, rfl, hsame s rfl rfl⟩
    · split at hs0
      · cases hs0
      · cases hs0
        exact ⟨rfl, rfl, hsame _ rfl rfl⟩
  | env =>
    have hs0 : some { s with wl := s.wl.map envWl } = some s' := hs
    cases hs0
    exact ⟨rfl, rfl, hsame _ rfl rfl⟩
  | release rev =>
    have hs0 : some { s with wl := s.wl.map (releaseWl rev) } = some s' := hs
    cases hs0
    exact ⟨rfl, rfl, hsame _ rfl rfl⟩
  | approve =>
    have hs0 : some (approve s) = some s' := hs
    cases hs0
    refine ⟨?_, ?_, ?_⟩
    · unfold approve
      split
      · rfl
      · split
        · split <;> rfl
        · rfl
    · unfold approve
      split
      · rfl
      · split
        · split <;> rfl
        · rfl
    · rcases approve_rolling s hgone with k | ⟨sub, k1, k2⟩
      · exact Or.inl k
      · refine Or.inr ⟨sub, _, k1, k2, ?_⟩
        split <;> rfl
  | tick =>
    have hs0 : some (tick s) = some s' := hs
    cases hs0
    refine ⟨rfl, ?_, ?_⟩
    · unfold tick
      dsimp only
      split <;> rfl
    · rcases tick_rolling s hgone with k | ⟨sub, k1, k2⟩
      · exact Or.inl k
      · exact Or.inr ⟨sub, _, k1, k2, rfl⟩
  | crash =>
    have hs0 : some (crash s) = some s' := hs
    cases hs0
    exact ⟨rfl, rfl, hsame _ rfl rfl⟩
  | delete => cases hl

/-! ### label `ro` -/

/-- how one Rollout reconcile may change the canary route: withdraw it (or leave it absent); leave it alone, not starting a
    new rolling phase; or — in `StepTrafficRouting` — set it to the weight of the step the rollout is on / create it at 0.
    The plan is never touched. -/
theorem route_ro (s s' : CS) (h : trInv s = true) (hs : stepRo s = some s') :
    s'.ro.steps = s.ro.steps ∧
    (s'.net.canaryIng = none ∨
     (s'.net.canaryIng = s.net.canaryIng ∧ (rollingSub s = none → rollingSub s' = none)) ∨
     (∃ sub, rollingSub s = some sub ∧ sub.state = .trafficRouting ∧ ∃ wt, weightOf s.ro sub.curIdx = some wt ∧
        (s'.net.canaryIng = some wt ∨ s'.net.canaryIng = some 0))) := by
  obtain ⟨hf, hgone, hgood, w, hw, hwok, _, _, hpi, _, htp⟩ := tr_parts s h
  have hgood' : RoGood (roWorld s).ro := hgood
  have hwl := world_wl s w hw
  have clean : netClean s.net = true → s'.net = s.net → s'.net.canaryIng = none := by
    intro hc he
    rw [he]; exact ((netClean_iff s.net).1 hc).1
  cases hc : (roWl w).consistent with
  | false =>
    have hrec := reconcile_wait (roWorld s) (roWl w) hgood' hwl hc
    have e := stepRo_eq s hgone _ hrec
    rw [hs] at e
    cases e
    rw [landRo_status s _ rfl rfl rfl rfl]
    refine ⟨rfl, Or.inr (Or.inl ⟨rfl, fun hn => ?_⟩)⟩
    rw [← hn]
    exact rollingSub_congr s _ hgone.symm rfl
  | true =>
    have hpi' := hpi
    unfold phaseInv at hpi'
    split at hpi'
    · rename_i hph
      obtain ⟨e1, e2, _⟩ := ro_easy_net s s' h (Or.inr (Or.inl hph)) hs
      rw [trPhase_healthy s w hph, Bool.and_eq_true] at htp
      exact ⟨e2, Or.inl (clean htp.1 e1)⟩
    · rename_i hph hr
      obtain ⟨e1, e2, _⟩ := ro_easy_net s s' h (Or.inr (Or.inr ⟨hph, Or.inl hr⟩)) hs
      rw [trPhase_init s w hph hr, Bool.and_eq_true] at htp
      exact ⟨e2, Or.inl (clean htp.1 e1)⟩
    · rename_i hph hr
      cases hsub : s.ro.sub with
      | none => rw [hsub] at hpi'; cases hpi'
      | some sub =>
        rw [hsub] at hpi'
        simp only [Bool.and_eq_true] at hpi'
        have hsg : SubGood (roWorld s).ro sub (roWl w).canaryRev := subOK_good s.ro sub w hpi'.1.1
        have hnr := wlOK_noRollback w hwok
        have hrs : rollingSub s = some sub := (rollingSub_some_iff s sub).2 ⟨hgone, hph, hr, hsub⟩
        obtain ⟨r0, hrec0, _, hk, _, _, _⟩ :=
          rolling_step (roWorld s) (roWl w) sub hgood' hph hr hwl hc hnr hsub hsg
        have e := stepRo_eq s hgone r0 hrec0
        rw [hs] at e
        have hsteps : s'.ro.steps = s.ro.steps := by
          cases e; exact hk.1.1
        refine ⟨hsteps, ?_⟩
        rcases ro_rolling_route s s' w sub h hw hc hph hr hsub hs with k | k | ⟨k1, wt, k2, k3⟩
        · exact Or.inr (Or.inl ⟨k, fun hn => by rw [hrs] at hn; cases hn⟩)
        · exact Or.inl k
        · exact Or.inr (Or.inr ⟨sub, hrs, k1, wt, k2, k3⟩)
    · rename_i hph hr
      cases hsub : s.ro.sub with
      | none => rw [hsub] at hpi'; cases hpi'
      | some sub =>
        rw [hsub] at hpi'
        simp only [Bool.and_eq_true] at hpi'
        obtain ⟨r0, hrec0, _, hk, _, _, _, hout⟩ :=
          finalising_step (roWorld s) (roWl w) sub hgood' hph hr hwl hc hsub hpi'.1 hpi'.2
        have e := stepRo_eq s hgone r0 hrec0
        rw [hs] at e
        cases e
        refine ⟨hk.1.1, ?_⟩
        have hnone : rollingSub (landRo s r0) = none := by
          refine rollingSub_none _ (Or.inr (Or.inr ?_))
          show r0.w.ro.reason ≠ .inRolling
          rcases hout with ⟨hrr, _⟩ | ⟨hrr, _⟩ <;> rw [hrr] <;> decide
        rcases ro_finalising_route s _ w h hw hc hph hr hs with k | k
        · exact Or.inr (Or.inl ⟨k, fun _ => hnone⟩)
        · exact Or.inl k
    · rename_i hph hr
      obtain ⟨e1, e2, _⟩ := ro_easy_net s s' h (Or.inr (Or.inr ⟨hph, Or.inr hr⟩)) hs
      rw [trPhase_completed s w hph hr, Bool.and_eq_true] at htp
      exact ⟨e2, Or.inl (clean htp.1 e1)⟩
    · cases hpi'

/-! ### the three parts of `routeInv` -/

/-- the record stays sound: the step index of a rolling rollout never decreases, and the flag is kept while it stays -/
theorem route_seen_step (t : TGhost) (s s' : CS) (l : Label) (hf' : fwdInv s' = true)
    (hg' : gateInv (gstep t.g s l s') s' = true) (hseen : seenOK t s = true)
    (hidx : ∀ sub sub', rollingSub s = some sub → rollingSub s' = some sub' → sub.curIdx ≤ sub'.curIdx) :
    seenOK (tstep t s l s') s' = true := by
  cases h' : rollingSub s' with
  | none => exact route_seenOK_none _ _ h'
  | some sub' =>
    rw [route_seenOK_some _ s' sub' h', route_tstep_g, route_tstep_seen_some t s s' l sub' h']
    have ok' := (gateInv_some _ s' sub' h').1 hg'
    have h1 := route_cur_pos s' sub' hf' h'
    cases hrs : rollingSub s with
    | none =>
      exact routeRec_ok _ _ _ ok'.idx h1 (fun j hj => by cases hj) (fun hj => by cases hj)
    | some sub =>
      have ok := (route_seenOK_some t s sub hrs).1 hseen
      have hle := hidx sub sub' hrs h'
      refine routeRec_ok _ _ _ ok'.idx h1 (fun j hj => ?_) (fun hj => ?_)
      · have hj' : j ∈ t.seen := hj
        obtain ⟨a, b⟩ := ok.rng j hj'
        exact ⟨a, by omega⟩
      · have hj' : sub'.curIdx ∈ t.seen := hj
        have he : sub'.curIdx = sub.curIdx := by
          obtain ⟨_, b⟩ := ok.rng _ hj'
          omega
        rw [he] at hj'
        exact route_up_mono t.g s s' l sub sub' hrs h' he (ok.only hj')

theorem route_weightOf_congr (ro ro' : Rollout) (h : ro'.steps = ro.steps) (j : Int) : weightOf ro' j = weightOf ro j := by
  unfold weightOf stepAt
  rw [h]

/-- a weight on the canary route stays the weight of a recorded step -/
theorem route_ok_step (t : TGhost) (s s' : CS) (l : Label) (hgone : s.gone = false) (hroute : routeOK t s = true)
    (hg : gateInv t.g s = true) (hseen : seenOK t s = true) (hsteps : s'.ro.steps = s.ro.steps)
    (hcase : s'.net.canaryIng = none ∨
     (s'.net.canaryIng = s.net.canaryIng ∧ (rollingSub s = none → rollingSub s' = none)) ∨
     (∃ sub, rollingSub s = some sub ∧ sub.state = .trafficRouting ∧ ∃ wt, weightOf s.ro sub.curIdx = some wt ∧
        (s'.net.canaryIng = some wt ∨ s'.net.canaryIng = some 0))) :
    routeOK (tstep t s l s') s' = true := by
  have mk : ∀ (wt : Nat) (j : Int), s'.net.canaryIng = some wt → j ∈ t.seen → weightOf s.ro j = some wt →
      (rollingSub s = none → rollingSub s' = none) → routeOK (tstep t s l s') s' = true := by
    intro wt j hw hj hwt hn
    unfold routeOK
    rw [hw]
    dsimp only
    have : (tstep t s l s').seen.any (fun j => weightOf s'.ro j == some wt) = true := by
      refine List.any_eq_true.2 ⟨j, route_seen_sup t s s' l hn j hj, ?_⟩
      rw [route_weightOf_congr s.ro s'.ro hsteps j, hwt]
      exact beq_self_eq_true _
    rw [this]
    simp
  have zero : s'.net.canaryIng = some 0 → routeOK (tstep t s l s') s' = true := by
    intro hw
    unfold routeOK
    rw [hw]
    simp
  rcases hcase with k | ⟨k, hn⟩ | ⟨sub, hrs, hst, wt, hwt, k | k⟩
  · unfold routeOK
    rw [k]
    simp
  · cases hing : s.net.canaryIng with
    | none =>
      unfold routeOK
      rw [k, hing]
      simp
    | some wt =>
      unfold routeOK at hroute
      rw [hgone, hing] at hroute
      simp only [Bool.false_or, Bool.or_eq_true, beq_iff_eq, List.any_eq_true] at hroute
      rcases hroute with h0 | ⟨j, hj, hjw⟩
      · subst h0
        exact zero (k.trans hing)
      · exact mk wt j (k.trans hing) hj hjw hn
  · have ok := (gateInv_some t.g s sub hrs).1 hg
    have sk := (route_seenOK_some t s sub hrs).1 hseen
    have hup : t.g.upgraded = true := ok.up (by rw [hst]; decide)
    exact mk wt sub.curIdx k (sk.has hup) hwt (fun hn => by rw [hrs] at hn; cases hn)
  · exact zero k

/-- **the route invariant is inductive**: `gateInv` (by `gate_step`), the record of observed-ready steps stays sound, and a
    weight on the canary route stays the weight of a recorded step -/
theorem route_step (t : TGhost) (s s' : CS) (l : Label) (hinv : trInv s = true) (hr : routeInv t s = true)
    (hl : legal s l = true) (hs : step s l = some s') : routeInv (tstep t s l s') s' = true := by
  obtain ⟨hf, hgone, _⟩ := tr_parts s hinv
  have hf' := route_fwd_step s s' l hf hl hs
  unfold routeInv at hr ⊢
  simp only [Bool.and_eq_true] at hr ⊢
  obtain ⟨⟨hg, hseen⟩, hroute⟩ := hr
  obtain ⟨hg', hadv⟩ := gate_step t.g s s' l hf hg hl hs
  by_cases hro : l = .ro
  · subst hro
    obtain ⟨hsteps, hcase⟩ := route_ro s s' hinv hs
    refine ⟨⟨by rw [route_tstep_g]; exact hg', ?_⟩, route_ok_step t s s' .ro hgone hroute hg hseen hsteps hcase⟩
    refine route_seen_step t s s' .ro hf' hg' hseen (fun sub sub' h h' => ?_)
    unfold advanceOK at hadv
    rw [h, h'] at hadv
    dsimp only at hadv
    by_cases he : sub'.curIdx = sub.curIdx
    · omega
    · rw [if_pos ⟨he, rfl⟩] at hadv
      simp only [Bool.and_eq_true, decide_eq_true_eq] at hadv
      omega
  · obtain ⟨hnet, hsteps, hrel⟩ := route_other s s' l hgone hl hro hs
    refine ⟨⟨by rw [route_tstep_g]; exact hg', ?_⟩, ?_⟩
    · refine route_seen_step t s s' l hf' hg' hseen (fun sub sub' h h' => ?_)
      rcases hrel with ⟨k, _⟩ | ⟨a, b, k1, k2, k3⟩
      · rw [h] at k; cases k
      · rw [h] at k1; rw [h'] at k2
        cases k1; cases k2
        omega
    · refine route_ok_step t s s' l hgone hroute hg hseen hsteps (Or.inr (Or.inl ⟨by rw [hnet], fun hn => ?_⟩))
      rcases hrel with ⟨_, k⟩ | ⟨a, _, k1, _, _⟩
      · exact k
      · rw [hn] at k1; cases k1

end RV.Lemmas.ClosedLoopTraffic
