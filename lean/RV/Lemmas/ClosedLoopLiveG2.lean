/-
  Progress of the closed loop, round-boundary classes 5, 6, 7: one fair round from a state of the class leads to a state of the
  invariant with a strictly smaller measure.
-/
import RV.Lemmas.ClosedLoopLiveBase
namespace RV.Lemmas.ClosedLoop
open RV.Arith RV.Traffic RV.RolloutSM RV.ClosedLoop RV.Oracle.ClosedLoop

/-! ### the Rollout reconcile of a rolling rollout without traffic routing, computed -/

/-- the pod-template hash filled in by `syncStep` -/
def lG2_fillSub (s : Sub) (h : String) : Sub := { s with podHash := if s.podHash = "" then h else s.podHash }

theorem lG2_fillSub_eq (s : Sub) (h : String) :
    (if s.podHash = "" then { s with podHash := h } else s) = lG2_fillSub s h := by
  unfold lG2_fillSub
  split
  · rfl
  · cases s; rfl

def lG2_fill (c : Ctx) : Ctx := { c with sub := lG2_fillSub c.sub c.wl.podTemplateHash }

theorem lG2_syncStep (c : Ctx) (h : ∀ b, c.br = some b → c.sub.observedRolloutID = b.rolloutID) :
    syncStep c = lG2_fill c := by
  obtain ⟨ro, sub, wl, br, net, mem, rq, ws, seen⟩ := c
  unfold syncStep lG2_fill
  dsimp only
  cases br with
  | none => dsimp only; rw [lG2_fillSub_eq]
  | some b =>
    have hb : sub.observedRolloutID = b.rolloutID := h b rfl
    have hne : ¬ (sub.observedRolloutID ≠ b.rolloutID) := by simp [hb]
    simp only [if_neg hne]
    rw [lG2_fillSub_eq]

theorem lG2_noJump (ro : Rollout) (s : Sub) (hlo : 1 ≤ s.curIdx) (hhi : s.curIdx ≤ ro.steps.length)
    (hnext : s.nextIdx = nextBatchIndex ro.steps.length s.curIdx) : doCanaryJump ro s = some (s, false) := by
  unfold doCanaryJump
  dsimp only
  rw [if_neg (by omega), if_neg (by simp [hnext])]

theorem lG2_ftr (t : TCtx) (n : Net) (m : Mem) (h : t.hasRef = false) :
    finalisingTrafficRouting t n m = ⟨true, false, n, m, false, []⟩ := by
  unfold finalisingTrafficRouting
  rw [if_pos (by simp [h])]

theorem lG2_preStep (step : Step) (c : Ctx) (hw : step.weight = none) (hnt : c.ro.hasTraffic = false)
    (hlo : 1 ≤ c.sub.curIdx) (hhi : c.sub.curIdx ≤ c.ro.steps.length)
    (hstep : c.ro.steps[(c.sub.curIdx - 1).toNat]? = some step) : preStep step c = some (c, true, false) := by
  unfold preStep
  rw [if_pos (by simp [stepHasTraffic, hw])]
  unfold callTM
  rw [trCtx_eq c.ro c.sub step hlo hhi hstep]
  dsimp only
  rw [lG2_ftr _ _ _ hnt]
  simp

theorem lG2_runCanary (c0 : Ctx) (step : Step)
    (hsync : ∀ b, c0.br = some b → c0.sub.observedRolloutID = b.rolloutID)
    (hlo : 1 ≤ c0.sub.curIdx) (hhi : c0.sub.curIdx ≤ c0.ro.steps.length)
    (hnext : c0.sub.nextIdx = nextBatchIndex c0.ro.steps.length c0.sub.curIdx)
    (hstep : c0.ro.steps[(c0.sub.curIdx - 1).toNat]? = some step) (hw : step.weight = none)
    (hnt : c0.ro.hasTraffic = false) :
    runCanary c0 = stateStep c0.ro step (lG2_fill c0) := by
  unfold runCanary
  dsimp only
  rw [lG2_syncStep c0 hsync]
  have hj : doCanaryJump c0.ro (lG2_fill c0).sub = some ((lG2_fill c0).sub, false) := lG2_noJump _ _ hlo hhi hnext
  rw [hj]
  dsimp only
  have hst : c0.ro.steps[((lG2_fill c0).sub.curIdx - 1).toNat]? = some step := hstep
  rw [hst]
  dsimp only
  have hp : preStep step { lG2_fill c0 with sub := (lG2_fill c0).sub } = some (lG2_fill c0, true, false) :=
    lG2_preStep step (lG2_fill c0) hw hnt hlo hhi hstep
  rw [hp]
  dsimp only
  simp

theorem lG2_stateStep_init (ro : Rollout) (step : Step) (c : Ctx) (hst : c.sub.state = .init) (hcan : ro.style = .canary)
    (hw : step.weight = none) :
    stateStep ro step c = .ok { c with sub := { c.sub with state := .upgrade } } false := by
  unfold stateStep
  rw [hst]
  dsimp only
  unfold initStep
  dsimp only
  rw [if_pos hcan, if_pos (by simp [stepHasTraffic, hw])]

theorem lG2_stateStep_upgrade (ro : Rollout) (step : Step) (c : Ctx) (hst : c.sub.state = .upgrade) :
    stateStep ro step c = upgradeStep ro step c := by
  unfold stateStep
  rw [hst]

theorem lG2_upgrade_create (ro : Rollout) (step : Step) (c : Ctx) (hbr : c.br = none) :
    upgradeStep ro step c =
      .ok { c with br := some (desiredBR ro (getRolloutID c.wl) (c.sub.curIdx - 1) c.wl.inRollback),
                   writes := c.writes ++ ["createBR"] } false := by
  unfold upgradeStep doCanaryUpgrade runBatchRelease
  rw [hbr]
  simp

theorem lG2_upgrade_update (ro : Rollout) (step : Step) (c : Ctx) (b : BR) (hbr : c.br = some b)
    (hne : brSpecEq b (desiredBR ro (getRolloutID c.wl) (c.sub.curIdx - 1) c.wl.inRollback) = false) :
    upgradeStep ro step c =
      .ok { c with br := some { b with batches := ro.steps.map (·.replicas), partition := some (c.sub.curIdx - 1),
                                       rolloutID := getRolloutID c.wl, policy := "",
                                       rollbackAnno := c.wl.inRollback && ro.rollbackInBatch, specOther := true,
                                       hashSame := false },
                   writes := c.writes ++ ["updateBR"] } false := by
  unfold upgradeStep doCanaryUpgrade runBatchRelease
  rw [hbr]
  simp only [desiredBR] at hne
  simp [hne, desiredBR]

/-- the sub-status after the status calculation refreshed the observed rollout-id and generation -/
def lG2_obs (sub : Sub) (wl : WL) : Sub := { sub with observedRolloutID := getRolloutID wl, observedGen := wl.generation }

theorem lG2_csObserve (ro : Rollout) (wl : WL) (sub : Sub) (hs : ro.sub = some sub) (h1 : sub.canaryRev ≠ "")
    (h2 : sub.canaryRev = wl.canaryRev) : csObserve ro wl = { ro with sub := some (lG2_obs sub wl) } := by
  unfold csObserve
  rw [hs]
  dsimp only
  rw [if_pos ⟨h1, h2⟩]
  rfl

/-- one Rollout reconcile of a rolling rollout without traffic routing is the sub-state action of the step -/
theorem lG2_reconcile (w : World) (wl : WL) (sub : Sub) (step : Step) (hg : RoGood w.ro) (hph : w.ro.phase = .progressing)
    (hr : w.ro.reason = .inRolling) (hwl : w.wl = some wl) (hc : wl.consistent = true) (hnr : wl.inRollback = false)
    (hs : w.ro.sub = some sub) (hsg : SubGood w.ro sub wl.canaryRev) (hrev : wl.canaryRev ≠ "")
    (hnc : sub.state ≠ .completed) (hstep : w.ro.steps[(sub.curIdx - 1).toNat]? = some step) (hw : step.weight = none)
    (hnt : w.ro.hasTraffic = false) (hsync : ∀ b, w.br = some b → b.rolloutID = wl.canaryRev)
    (c : Ctx)
    (hss : stateStep { w.ro with sub := some (lG2_obs sub wl) } step
      (lG2_fill (toCtx { w with ro := { w.ro with sub := some (lG2_obs sub wl) } } (lG2_obs sub wl) wl)) = .ok c false) :
    reconcile w = .val { w := ofCtx w c { w.ro with sub := some (lG2_obs sub wl) }, roGone := false, requeue := c.requeue,
                         err := false, writes := [] ++ c.writes } := by
  have hobs := lG2_csObserve w.ro wl sub hs (by rw [hsg.rev]; exact hrev) hsg.rev
  have hid : getRolloutID wl = wl.canaryRev := by unfold getRolloutID; rw [hnr]; rfl
  rw [reconcile_roll w wl (lG2_obs sub wl) hg hph hr hwl hc (by rw [hobs]), hobs,
    inRolling_roll w { w.ro with sub := some (lG2_obs sub wl) } (lG2_obs sub wl) sub wl hs hnr hg.unpaused hsg.rev.symm hsg.hash,
    if_neg (show ¬ (lG2_obs sub wl).state = .completed from hnc)]
  have hN : (if (lG2_obs sub wl).nextIdx ≤ 0 ∨
        (lG2_obs sub wl).nextIdx > (({ w.ro with sub := some (lG2_obs sub wl) } : Rollout).steps.length : Int) then
        { lG2_obs sub wl with
          nextIdx := nextBatchIndex (({ w.ro with sub := some (lG2_obs sub wl) } : Rollout).steps.length : Int) (lG2_obs sub wl).curIdx }
      else lG2_obs sub wl) = lG2_obs sub wl := by
    split
    · show ({ lG2_obs sub wl with nextIdx := nextBatchIndex (w.ro.steps.length : Int) sub.curIdx } : Sub) = _
      rw [← hsg.next]
      rfl
    · rfl
  rw [hN]
  rw [lG2_runCanary _ step (fun b hb => (hid.trans (hsync b hb).symm)) hsg.lo hsg.hi hsg.next hstep hw hnt]
  have hss' : stateStep (toCtx { w with ro := { w.ro with sub := some (lG2_obs sub wl) } } (lG2_obs sub wl) wl).ro step
      (lG2_fill (toCtx { w with ro := { w.ro with sub := some (lG2_obs sub wl) } } (lG2_obs sub wl) wl)) = .ok c false := hss
  rw [hss']
  dsimp only
  rw [if_neg (by simp)]

/-! ### the class facts -/

theorem lG2_cls5 (s : CS) (h : cls s = 5) :
    ∃ w sub, s.wl = some w ∧ s.ro.phase = .progressing ∧ s.ro.reason = .inRolling ∧ s.ro.sub = some sub ∧
      sub.state = .init ∧
      ((s.br = none ∧ (decide (sub.curIdx = 1) && w.updateRevision != w.currentRevision) = true) ∨
       ∃ b, s.br = some b ∧
        (brSync b w && brInit b w && b.st.batchState == .ready && b.st.hasReadyTime &&
          b.partition == some (sub.curIdx - 2) && b.st.currentBatch == sub.curIdx - 2 &&
          RV.Oracle.Executor.batchReadyNow (exBr b) (some (exWl w))) = true) := by
  unfold cls at h
  repeat' split at h
  all_goals try omega
  · exact ⟨_, _, ‹_›, ‹_›, ‹_›, ‹_›, ‹_›, Or.inl ⟨‹_›, ‹_›⟩⟩
  · exact ⟨_, _, ‹_›, ‹_›, ‹_›, ‹_›, ‹_›, Or.inr ⟨_, ‹_›, ‹_›⟩⟩

theorem lG2_cls6 (s : CS) (h : cls s = 6) :
    ∃ w sub, s.wl = some w ∧ s.ro.phase = .progressing ∧ s.ro.reason = .inRolling ∧ s.ro.sub = some sub ∧
      sub.state = .upgrade ∧ s.br = none ∧ (decide (sub.curIdx = 1) && w.updateRevision != w.currentRevision) = true := by
  unfold cls at h
  repeat' split at h
  all_goals try omega
  exact ⟨_, _, ‹_›, ‹_›, ‹_›, ‹_›, ‹_›, ‹_›, ‹_›⟩

theorem lG2_cls7 (s : CS) (h : cls s = 7) :
    ∃ w sub b, s.wl = some w ∧ s.ro.phase = .progressing ∧ s.ro.reason = .inRolling ∧ s.ro.sub = some sub ∧
      sub.state = .upgrade ∧ s.br = some b ∧ (b.partition == some (sub.curIdx - 2)) = true ∧
      (brSync b w && brInit b w && b.st.batchState == .ready && b.st.hasReadyTime && b.st.currentBatch == sub.curIdx - 2 &&
        RV.Oracle.Executor.batchReadyNow (exBr b) (some (exWl w))) = true := by
  unfold cls at h
  repeat' split at h
  all_goals try omega
  exact ⟨_, _, _, ‹_›, ‹_›, ‹_›, ‹_›, ‹_›, ‹_›, ‹_›, ‹_›⟩

theorem lG2_envWl_obsGen (w : CWl) : (envWl w).observedGeneration = w.generation := by
  unfold envWl
  dsimp only
  split <;> rfl

/-- what the invariant says at the round boundary of a rolling rollout -/
structure lG2_Facts (s : CS) (w : CWl) (sub : Sub) : Prop where
  fwd : fwdInv s = true
  gone : s.gone = false
  good : RoGood s.ro
  wl : s.wl = some w
  wok : wlOK w = true
  brok : brOKo s.br = true
  sg : SubGood s.ro sub w.updateRevision
  link : linkOKo s.ro sub s.br = true
  nt : s.ro.hasTraffic = false
  steps : ∀ st ∈ s.ro.steps, st.weight = none
  rpos : 0 < w.replicas
  unp : w.paused = false
  rev : w.updateRevision ≠ ""
  env : envWl w = w
  tick : tick s = s
  cfg : liveCfg s = true

theorem lG2_facts (s : CS) (w : CWl) (sub : Sub) (h : liveInv s = true) (hc1 : cls s ≠ 1) (hw : s.wl = some w)
    (hph : s.ro.phase = .progressing) (hr : s.ro.reason = .inRolling) (hs : s.ro.sub = some sub) : lG2_Facts s w sub := by
  obtain ⟨hf, hcfg, _, hb⟩ := (liveInv_iff s).1 h
  have hb' : atBoundary s = true := by
    rcases hb with hb | hb
    · exact absurd hb hc1
    · exact hb
  obtain ⟨hgone, hg, w', hw', hwok, hmono, hbr, hpi⟩ := fwd_parts s hf
  rw [hw] at hw'; cases hw'
  rw [phaseInv_rolling s w sub hph hr hs] at hpi
  simp only [Bool.and_eq_true] at hpi
  obtain ⟨⟨hsub, hlink⟩, hwithin⟩ := hpi
  unfold atBoundary at hb'
  rw [hw] at hb'
  simp only [Bool.and_eq_true, beq_iff_eq] at hb'
  have hcfg0 := hcfg
  unfold liveCfg at hcfg
  rw [hw] at hcfg
  simp only [Bool.and_eq_true, Bool.not_eq_true', decide_eq_true_eq, bne_iff_ne, ne_eq, List.all_eq_true,
    Option.isNone_iff_eq_none] at hcfg
  obtain ⟨⟨c1, c2⟩, ⟨⟨c3, _⟩, c5⟩, c6⟩ := hcfg
  exact ⟨hf, hgone, hg, hw, hwok, hbr, (subOK_iff s.ro sub w).1 hsub, hlink, c1, fun st hst => (c2 st hst).1, c3, c5, c6,
    hb'.1, hb'.2, hcfg0⟩

theorem lG2_step_exists (s : CS) (w : CWl) (sub : Sub) (F : lG2_Facts s w sub) :
    ∃ step, s.ro.steps[(sub.curIdx - 1).toNat]? = some step ∧ step.weight = none := by
  have hlo := F.sg.lo
  have hhi := F.sg.hi
  have hlt : (sub.curIdx - 1).toNat < s.ro.steps.length := by omega
  exact ⟨s.ro.steps[(sub.curIdx - 1).toNat], List.getElem?_eq_getElem hlt, F.steps _ (List.getElem_mem hlt)⟩

theorem lG2_consistent (s : CS) (w : CWl) (sub : Sub) (F : lG2_Facts s w sub) : w.generation = w.observedGeneration := by
  have := lG2_envWl_obsGen w
  rw [F.env] at this
  exact this.symm

/-- the Rollout reconcile of the round, landed -/
theorem lG2_stepRo (s : CS) (w : CWl) (sub : Sub) (step : Step) (F : lG2_Facts s w sub)
    (hph : s.ro.phase = .progressing) (hr : s.ro.reason = .inRolling) (hs : s.ro.sub = some sub)
    (hnc : sub.state ≠ .completed) (hstep : s.ro.steps[(sub.curIdx - 1).toNat]? = some step) (hw : step.weight = none)
    (hsync : ∀ b, s.br = some b → b.rolloutID = w.updateRevision) (c : Ctx)
    (hss : stateStep { s.ro with sub := some (lG2_obs sub (roWl w)) } step
      (lG2_fill (toCtx { roWorld s with ro := { s.ro with sub := some (lG2_obs sub (roWl w)) } } (lG2_obs sub (roWl w)) (roWl w)))
        = .ok c false) :
    stepRo s = some (landRo s { w := ofCtx (roWorld s) c { s.ro with sub := some (lG2_obs sub (roWl w)) }, roGone := false,
                                requeue := c.requeue, err := false, writes := [] ++ c.writes }) := by
  apply stepRo_eq s F.gone
  refine lG2_reconcile (roWorld s) (roWl w) sub step F.good hph hr (world_wl s w F.wl) ?_ (noRollback w F.wok) hs F.sg F.rev hnc
    hstep hw F.nt ?_ c hss
  · show decide (w.generation = w.observedGeneration) = true
    exact decide_eq_true (lG2_consistent s w sub F)
  · intro b hb
    obtain ⟨cb, hcb, hcb2⟩ := map_roBr_some s.br b hb
    rw [← hcb2]
    exact hsync cb hcb

/-! ### the last three labels -/

theorem lG2_ageAge_idem (a : Age) : ageAge (ageAge a) = ageAge a := by cases a <;> rfl
theorem lG2_ageExp_idem (e : Exp) : ageExp (ageExp e) = ageExp e := by cases e <;> rfl

theorem lG2_tick_idem (x : CS) : tick (tick x) = tick x := by
  obtain ⟨gone, ro, wl, br, net, mem⟩ := x
  cases gone
  · cases hsub : ro.sub <;> simp [tick, hsub, lG2_ageAge_idem, lG2_ageExp_idem]
  · simp [tick, lG2_ageExp_idem]

theorem lG2_approve_wl (x : CS) : (approve x).wl = x.wl := by
  unfold approve
  split
  · rfl
  · split
    · split <;> rfl
    · rfl

theorem lG2_tail_wl (b : CS) : (roundTail b).wl = b.wl.map envWl := by
  unfold roundTail
  show (approve _).wl = _
  rw [lG2_approve_wl]

theorem lG2_tail_boundary (b : CS) (w : CWl) (hw : b.wl = some w) (he : envWl w = w) : atBoundary (roundTail b) = true := by
  unfold atBoundary
  rw [lG2_tail_wl, hw]
  simp only [Option.map_some, he, beq_self_eq_true, Bool.true_and]
  unfold roundTail
  rw [lG2_tick_idem]
  exact beq_self_eq_true _

theorem lG2_tail (b : CS) (sub : Sub) (hg : b.gone = false) (hs : b.ro.sub = some sub) (hnp : sub.state ≠ .paused) :
    roundTail b =
      { gone := false,
        ro := { b.ro with sub := some { sub with lastUpdate := ageAge sub.lastUpdate }, condAge := ageAge b.ro.condAge },
        wl := b.wl.map envWl, br := b.br, net := b.net,
        mem := { patchService := ageExp b.mem.patchService, restoreService := ageExp b.mem.restoreService,
                 restoreGateway := ageExp b.mem.restoreGateway, removeCanaryService := ageExp b.mem.removeCanaryService,
                 updateRoute := ageExp b.mem.updateRoute } } := by
  unfold roundTail approve
  dsimp only
  rw [hg]
  simp only [Bool.false_eq_true, if_false, hs, if_neg hnp]
  unfold tick
  simp [hs]

theorem lG2_liveCfg_congr (s s' : CS) (w w' : CWl) (hw : s.wl = some w) (hw' : s'.wl = some w')
    (h1 : s'.ro.hasTraffic = s.ro.hasTraffic) (h2 : s'.ro.steps = s.ro.steps) (h3 : w'.replicas = w.replicas)
    (h4 : w'.paused = w.paused) (h5 : w'.updateRevision = w.updateRevision) : liveCfg s' = liveCfg s := by
  unfold liveCfg planOf
  rw [hw, hw', h1, h2]
  dsimp only
  rw [h3, h4, h5]

/-! ### the executor's sync step -/

theorem lG2_syncInfo (br : Executor.BR) (ns : Executor.Status) (ew : Executor.Workload)
    (hd : br.deleting = false) (hgen : ew.observedGeneration = ew.generation)
    (hrep : ns.observedReplicas = -1 ∨ ns.observedReplicas = ew.replicas)
    (hrev : ns.updateRevision = "" ∨ ns.updateRevision = ew.updateRevision) :
    Executor.syncInfo br ns (some ew) = (.normal, some ew) := by
  unfold Executor.syncInfo
  rw [if_neg (by simp [hd])]
  dsimp only
  rw [if_neg (by simp [hgen])]
  split
  · rfl
  · rw [if_neg (by rintro ⟨h1, h2⟩; rcases hrep with h | h; exact h1 h; exact h2 h.symm)]
    rw [if_neg (by rintro ⟨h1, _, h3, h4⟩; rcases hrev with h | h; exact h1 h; exact h4 (by rw [h3, h]))]
    rw [if_neg (by rintro ⟨h1, h2⟩; rcases hrev with h | h; exact h1 h; exact h2 h.symm)]

theorem lG2_decide_normal (br : Executor.BR) (ns : Executor.Status) (info : Option Executor.Workload)
    (hc : br.status.phase ≠ .completed) (hf : Executor.isPlanFinalizing br = false)
    (hch : ¬ Executor.isPlanChanged br = true) (hu : ¬ Executor.isPlanUnhealthy br = true) (hra : br.rollbackAnno = false) :
    Executor.syncDecide br ns .normal info = (ns, false) := by
  unfold Executor.syncDecide
  dsimp only
  rw [if_neg hc, if_neg (by rw [hf]; exact Bool.false_ne_true), if_neg hch, if_neg hu,
    if_neg (by intro hx; cases hx.1), if_neg (by intro hx; cases hx.1), if_neg (by intro hx; cases hx.1),
    if_neg (by intro hx; cases hx),
    if_neg (by intro hx; rcases hx.1 with h | h; cases h; rw [hra] at h; cases h)]

theorem lG2_refresh_id (ns : Executor.Status) (ew : Executor.Workload) (h1 : ns.updated = ew.updated)
    (h2 : ns.updatedReady = ew.updatedReady) (h3 : ns.hash = .same) (h4 : ns.rolloutIDSame = true) :
    Executor.refreshStatus ns (some ew) = ns := by
  obtain ⟨a1, a2, a3, a4, a5, a6, a7, a8, a9, a10, a11, a12⟩ := ns
  simp only at h1 h2 h3 h4
  subst h1 h2 h3 h4
  simp [Executor.refreshStatus]

/-- a stopped reconcile of the executor -/
theorem lG2_exec_stop (eb : Executor.BR) (wl : Option Executor.Workload) (st : Executor.Status) (hd : eb.deleting = false)
    (hst : (Executor.syncStatus (Executor.withFinalizer eb) (Executor.initializedStatus eb.status) wl).status = st)
    (hne : st ≠ eb.status) :
    Executor.reconcile eb wl =
      .val { br := some { Executor.withFinalizer eb with status := st }, wl := wl, requeue := true, err := false } := by
  have hstop : (Executor.syncStatus (Executor.withFinalizer eb) (Executor.initializedStatus eb.status) wl).stop = true := by
    unfold Executor.syncStatus at hst ⊢
    dsimp only at hst ⊢
    rw [hst]
    simp [hne, Executor.withFinalizer]
  unfold Executor.reconcile
  rw [if_neg (by simp [hd])]
  unfold Executor.reconcileBody
  dsimp only
  have hstop' : (Executor.syncStatus (Executor.withFinalizer eb) (Executor.initializedStatus (Executor.withFinalizer eb).status) wl).stop = true := hstop
  have hst' : (Executor.syncStatus (Executor.withFinalizer eb) (Executor.initializedStatus (Executor.withFinalizer eb).status) wl).status = st := hst
  rw [if_pos hstop', hst']
  simp [hne, Executor.withFinalizer]

theorem lG2_brSync_iff (b : CBr) (w : CWl) : brSync b w = true ↔
    b.st.updated = w.updated ∧ b.st.updatedReady = w.updatedReady ∧ b.generation = b.observedGeneration ∧
    b.hasFinalizer = true ∧ b.deleting = false ∧ b.observedRolloutID = b.rolloutID ∧ b.rolloutID = w.updateRevision ∧
    b.specOther = true ∧ b.failureThreshold = none ∧ b.st.hash = .same := by
  unfold brSync
  simp only [Bool.and_eq_true, beq_iff_eq, Bool.not_eq_true', Option.isNone_iff_eq_none, and_assoc]

theorem lG2_brInit_iff (b : CBr) (w : CWl) : brInit b w = true ↔
    b.st.updateRevision = "wl-" ++ w.updateRevision ∧ b.st.observedReplicas = w.replicas ∧ w.owner = .this ∧
    b.st.phase = .progressing := by
  unfold brInit
  simp only [Bool.and_eq_true, beq_iff_eq, and_assoc]

/-- class 5 with a BatchRelease: the executor's reconcile is the fixed point of a Ready batch -/
theorem lG2_exec5 (b : CBr) (w : CWl) (p : Int)
    (hsy : brSync b w = true) (hin : brInit b w = true) (hbs : b.st.batchState = .ready) (hpart : b.partition = some p)
    (hcb : b.st.currentBatch = p) (hrd : RV.Oracle.Executor.batchReadyNow (exBr b) (some (exWl w)) = true)
    (hbrok : brOK b = true) (hlen : p < b.batches.length) (hgen : w.generation = w.observedGeneration) :
    ∃ o, Executor.reconcile (exBr b) (some (exWl w)) = .val o ∧ o.br = some (Executor.withFinalizer (exBr b)) ∧
      o.wl = some (exWl w) := by
  obtain ⟨s1, s2, s3, s4, s5, s6, s7, s8, s9, s10⟩ := (lG2_brSync_iff b w).1 hsy
  obtain ⟨i1, i2, i3, i4⟩ := (lG2_brInit_iff b w).1 hin
  obtain ⟨k1, k2, k3, k4, k5⟩ := (brOK_iff' b).1 hbrok
  have hph : (exBr b).status.phase = .progressing := i4
  have hns : RV.Oracle.Executor.stopped (exBr b) (some (exWl w)) = false := by
    unfold RV.Oracle.Executor.stopped
    rw [RV.Executor.initialized_id _ (by rw [hph]; decide)]
    have hinfo : Executor.syncInfo (Executor.withFinalizer (exBr b)) (exBr b).status (some (exWl w)) = (.normal, some (exWl w)) :=
      lG2_syncInfo _ _ _ s5 hgen.symm (Or.inr i2) (Or.inr i1)
    have hdec : Executor.syncDecide (Executor.withFinalizer (exBr b)) (exBr b).status .normal (some (exWl w)) = ((exBr b).status, false) := by
      apply lG2_decide_normal
      · show (exBr b).status.phase ≠ .completed
        rw [hph]; decide
      · simp [Executor.isPlanFinalizing, Executor.withFinalizer, exBr, stOf, s5, i4, hpart]
      · simp [Executor.isPlanChanged, Executor.withFinalizer, exBr, stOf, s10]
      · have hlt : ¬ (b.st.currentBatch ≥ b.batches.length) := by omega
        simp [Executor.isPlanUnhealthy, Executor.withFinalizer, exBr, stOf, hlt]
      · exact k4
    obtain ⟨_, hstop⟩ := holds_sync_of_decide (Executor.withFinalizer (exBr b)) (exBr b).status (some (exWl w))
      ((exBr b).status, false) (by rw [hinfo]; exact hdec)
    rw [hstop, hinfo]
    dsimp only
    rw [lG2_refresh_id (exBr b).status (exWl w) s1 s2 s10 (by simp [exBr, stOf, s6])]
    simp [Executor.withFinalizer]
  cases ho : Executor.reconcile (exBr b) (some (exWl w)) with
  | panic => exact absurd ho (exec_total _ _ k2)
  | val o =>
    have hp' : Executor.isPartitioned (exBr b) = true := by
      simp [Executor.isPartitioned, exBr, stOf, hpart, hcb]
    obtain ⟨h1, h2⟩ := RV.Props.Executor.ready_is_fixed_point _ _ o ho hns hph hbs hrd hp'
    exact ⟨o, rfl, h1, h2⟩

/-! ### the shape of the states inside and after the round -/

/-- the state after the two reconciles: the rollout's sub-status, the workload and the BatchRelease replaced -/
def lG2_mid (s : CS) (w : CWl) (sb : Sub) (br : Option CBr) : CS :=
  { gone := false, ro := { s.ro with sub := some sb }, wl := some w, br := br, net := s.net, mem := s.mem }

/-- the state after the whole round -/
def lG2_succ (s : CS) (w : CWl) (sb : Sub) (br : Option CBr) : CS :=
  { gone := false,
    ro := { s.ro with sub := some { sb with lastUpdate := ageAge sb.lastUpdate }, condAge := ageAge s.ro.condAge },
    wl := some w, br := br, net := s.net,
    mem := { patchService := ageExp s.mem.patchService, restoreService := ageExp s.mem.restoreService,
             restoreGateway := ageExp s.mem.restoreGateway, removeCanaryService := ageExp s.mem.removeCanaryService,
             updateRoute := ageExp s.mem.updateRoute } }

theorem lG2_tail_mid (s : CS) (w : CWl) (sb : Sub) (br : Option CBr) (hnp : sb.state ≠ .paused) (he : envWl w = w) :
    roundTail (lG2_mid s w sb br) = lG2_succ s w sb br := by
  rw [lG2_tail (lG2_mid s w sb br) sb rfl rfl hnp]
  unfold lG2_mid lG2_succ
  simp [he]

theorem lG2_mu_rolling (t : CS) (w : CWl) (sb : Sub) (hw : t.wl = some w) (hph : t.ro.phase = .progressing)
    (hr : t.ro.reason = .inRolling) (hs : t.ro.sub = some sb) :
    mu t = 32 + (t.ro.steps.length - sb.curIdx.toNat) * stepW + subRank t sb w := by
  unfold mu
  dsimp only
  rw [hw]
  dsimp only
  rw [hph, hr]
  dsimp only
  rw [hs]

theorem lG2_cls_upgrade (t : CS) (w : CWl) (sb : Sub) (hw : t.wl = some w) (hph : t.ro.phase = .progressing)
    (hr : t.ro.reason = .inRolling) (hs : t.ro.sub = some sb) (hst : sb.state = .upgrade) :
    cls t =
      (match t.br with
       | none => if sb.curIdx = 1 && w.updateRevision != w.currentRevision then 6 else 0
       | some b =>
         if b.partition == some (sb.curIdx - 2) then
           (if brSync b w && brInit b w && b.st.batchState == .ready && b.st.hasReadyTime && b.st.currentBatch == sb.curIdx - 2 &&
               RV.Oracle.Executor.batchReadyNow (exBr b) (some (exWl w)) then 7 else 0)
         else if b.partition == some (sb.curIdx - 1) then
           (if brSyncLag b w && brInit b w && b.st.currentBatch == sb.curIdx - 1 && b.st.batchState == .verifying && partLow b w then 10
            else if !brSync b w then 0
            else if b.st.phase == .preparing then
              (if b.st.batchState == .empty && b.st.currentBatch == 0 && b.st.observedReplicas == -1 && b.st.updateRevision == "" &&
                  sb.curIdx == 1 && w.updateRevision != w.currentRevision then 8 else 0)
            else if !brInit b w || b.st.currentBatch != sb.curIdx - 1 then 0
            else match b.st.batchState with
              | .empty | .upgrading => 9
              | .verifying => if partLow b w then 11 else 0
              | .ready => if b.st.hasReadyTime && RV.Oracle.Executor.batchReadyNow (exBr b) (some (exWl w)) then 12 else 0
              | .other => 0)
         else 0) := by
  unfold cls
  rw [hw]
  dsimp only
  rw [hph, hr]
  dsimp only
  rw [hs]
  dsimp only
  rw [hst]
  rfl

/-- the successor state satisfies the round-boundary invariant once its class is known -/
theorem lG2_succ_live (s : CS) (w w' : CWl) (sub sb : Sub) (br : Option CBr) (F : lG2_Facts s w sub)
    (hfwd : fwdInv (lG2_succ s w' sb br) = true) (hcls : cls (lG2_succ s w' sb br) ≠ 0) (hnp : sb.state ≠ .paused)
    (he : envWl w' = w') (h3 : w'.replicas = w.replicas) (h4 : w'.paused = w.paused)
    (h5 : w'.updateRevision = w.updateRevision) : liveInv (lG2_succ s w' sb br) = true := by
  refine (liveInv_iff _).2 ⟨hfwd, ?_, hcls, Or.inr ?_⟩
  · rw [lG2_liveCfg_congr s (lG2_succ s w' sb br) w w' F.wl rfl rfl rfl h3 h4 h5]
    exact F.cfg
  · rw [← lG2_tail_mid s w' sb br hnp he]
    exact lG2_tail_boundary (lG2_mid s w' sb br) w' rfl he

/-- the common end of the three class lemmas: the two reconciles computed, the class and the rank of the successor known -/
theorem lG2_finish (s a : CS) (w w' : CWl) (sub sb : Sub) (br' : Option CBr) (r r' : Nat) (F : lG2_Facts s w sub)
    (hph : s.ro.phase = .progressing) (hr : s.ro.reason = .inRolling) (hs : s.ro.sub = some sub)
    (hrk : subRank s sub w = r) (hcur : sb.curIdx = sub.curIdx) (hnp : sb.state ≠ .paused)
    (he : envWl w' = w') (h3 : w'.replicas = w.replicas) (h4 : w'.paused = w.paused)
    (h5 : w'.updateRevision = w.updateRevision)
    (ha : stepRo s = some a) (hb : stepBr a = some (lG2_mid s w' sb br'))
    (hrank : subRank (lG2_succ s w' sb br') { sb with lastUpdate := ageAge sb.lastUpdate } w' = r') (hlt : r' < r) :
    ∃ s', round s = some s' ∧ (cls (lG2_succ s w' sb br') ≠ 0 → liveInv s' = true) ∧ mu s' < mu s ∧ 12 < mu s' ∧
      s'.wl = some w' ∧ s'.br = br' := by
  have hround := round_eq s _ _ ha hb
  rw [lG2_tail_mid s w' sb br' hnp he] at hround
  obtain ⟨a0, b0, ha0, _, hb0, _, _, hfwd⟩ := round_fwd s F.fwd
  rw [ha] at ha0
  cases ha0
  rw [hb] at hb0
  cases hb0
  rw [lG2_tail_mid s w' sb br' hnp he] at hfwd
  refine ⟨_, hround, fun hcls => lG2_succ_live s w w' sub sb br' F hfwd hcls hnp he h3 h4 h5, ?_⟩
  suffices hmu : mu (lG2_succ s w' sb br') < mu s ∧ 12 < mu (lG2_succ s w' sb br') from ⟨hmu.1, hmu.2, rfl, rfl⟩
  rw [lG2_mu_rolling s w sub F.wl hph hr hs, hrk,
    lG2_mu_rolling (lG2_succ s w' sb br') w' { sb with lastUpdate := ageAge sb.lastUpdate } rfl hph hr rfl, hrank]
  show 32 + (s.ro.steps.length - sb.curIdx.toNat) * stepW + r' < 32 + (s.ro.steps.length - sub.curIdx.toNat) * stepW + r ∧
    12 < 32 + (s.ro.steps.length - sb.curIdx.toNat) * stepW + r'
  rw [hcur]
  generalize (s.ro.steps.length - sub.curIdx.toNat) * stepW = x
  omega

/-! ### class 5 -/

def lG2_sub5 (sub : Sub) (w : CWl) : Sub :=
  { lG2_fillSub (lG2_obs sub (roWl w)) (roWl w).podTemplateHash with state := .upgrade }

/-- the BatchRelease as the API server stores it after the executor wrote an unchanged status -/
def lG2_norm (b : CBr) : CBr := { b with st := { b.st with rolloutIDSame := true } }

theorem lG2_stepRo5 (s : CS) (w : CWl) (sub : Sub) (F : lG2_Facts s w sub)
    (hph : s.ro.phase = .progressing) (hr : s.ro.reason = .inRolling) (hs : s.ro.sub = some sub) (hst : sub.state = .init)
    (hsync : ∀ b, s.br = some b → b.rolloutID = w.updateRevision) :
    stepRo s = some (lG2_mid s w (lG2_sub5 sub w) s.br) := by
  obtain ⟨step, hstep, hwt⟩ := lG2_step_exists s w sub F
  rw [lG2_stepRo s w sub step F hph hr hs (by rw [hst]; decide) hstep hwt hsync _
    (lG2_stateStep_init _ step _ hst F.good.canary hwt)]
  rw [landRo_status s _ (by show some (roWl w) = s.wl.map roWl; rw [F.wl]; rfl) rfl rfl rfl]
  unfold lG2_mid
  simp only [Option.some.injEq]
  rw [← F.wl]
  rfl

theorem lG2_wlLand_id (w : CWl) : wlLand (some w) (some (exWl w)) = some w := by
  cases w
  simp [wlLand, exWl]

theorem lG2_stLand_id (b : CBr) (s3 : b.generation = b.observedGeneration) (s4 : b.hasFinalizer = true)
    (s6 : b.observedRolloutID = b.rolloutID) : stLand b (Executor.withFinalizer (exBr b)) = lG2_norm b := by
  obtain ⟨a1, a2, a3, a4, a5, a6, a7, a8, a9, a10, a11, a12, a13⟩ := b
  simp only at s3 s4 s6
  subst s3 s4 s6
  simp [stLand, Executor.withFinalizer, exBr, stOf, lG2_norm]

theorem lG2_stepBr_none (a : CS) (h : a.br = none) : stepBr a = some a := by
  unfold stepBr
  rw [h]

theorem lG2_stepBr5 (s : CS) (w : CWl) (sb : Sub) (b : CBr) (p : Int)
    (hsy : brSync b w = true) (hin : brInit b w = true) (hbs : b.st.batchState = .ready) (hpart : b.partition = some p)
    (hcb : b.st.currentBatch = p) (hrd : RV.Oracle.Executor.batchReadyNow (exBr b) (some (exWl w)) = true)
    (hbrok : brOK b = true) (hlen : p < b.batches.length) (hgen : w.generation = w.observedGeneration) :
    stepBr (lG2_mid s w sb (some b)) = some (lG2_mid s w sb (some (lG2_norm b))) := by
  obtain ⟨o, ho, h1, h2⟩ := lG2_exec5 b w p hsy hin hbs hpart hcb hrd hbrok hlen hgen
  obtain ⟨_, _, s3, s4, _, s6, _⟩ := (lG2_brSync_iff b w).1 hsy
  unfold stepBr lG2_mid
  simp only [Option.map_some]
  rw [ho]
  dsimp only
  unfold landBr
  rw [h1, h2]
  simp only [Option.map_some]
  rw [lG2_stLand_id b s3 s4 s6, lG2_wlLand_id]

theorem lG2_round5 (s : CS) (h : liveInv s = true) (hc : cls s = 5) :
    ∃ s', round s = some s' ∧ liveInv s' = true ∧ mu s' < mu s ∧ 12 < mu s' ∧ s'.wl = s.wl ∧
      (∀ b', s'.br = some b' → ∃ b, s.br = some b ∧ b'.policy = b.policy) := by
  obtain ⟨w, sub, hw, hph, hr, hs, hst, hbr⟩ := lG2_cls5 s hc
  have F := lG2_facts s w sub h (by rw [hc]; decide) hw hph hr hs
  have hrk : subRank s sub w = 40 := by unfold subRank; rw [hst]
  have hnp : (lG2_sub5 sub w).state ≠ .paused := by show StepState.upgrade ≠ .paused; decide
  rcases hbr with ⟨hnone, hk⟩ | ⟨b, hb, hcond⟩
  · have ha := lG2_stepRo5 s w sub F hph hr hs hst (by intro b hb; rw [hnone] at hb; cases hb)
    rw [hnone] at ha
    have hbb := lG2_stepBr_none (lG2_mid s w (lG2_sub5 sub w) none) rfl
    obtain ⟨s', r1, r2, r3, r4, r5, r6⟩ :=
      lG2_finish s _ w w sub (lG2_sub5 sub w) none 40 30 F hph hr hs hrk rfl hnp F.env rfl rfl rfl ha hbb rfl (by omega)
    refine ⟨s', r1, r2 ?_, r3, r4, by rw [r5, hw], by intro b' hb'; rw [r6] at hb'; cases hb'⟩
    rw [lG2_cls_upgrade (lG2_succ s w (lG2_sub5 sub w) none) w
      { lG2_sub5 sub w with lastUpdate := ageAge (lG2_sub5 sub w).lastUpdate } rfl hph hr rfl rfl]
    show (if (decide (sub.curIdx = 1) && w.updateRevision != w.currentRevision) = true then 6 else 0) ≠ 0
    rw [if_pos hk]
    decide
  · simp only [Bool.and_eq_true, beq_iff_eq] at hcond
    obtain ⟨⟨⟨⟨⟨⟨c1, c2⟩, c3⟩, c4⟩, c5⟩, c6⟩, c7⟩ := hcond
    obtain ⟨_, _, _, _, _, _, s7, _⟩ := (lG2_brSync_iff b w).1 c1
    have hbrok : brOK b = true := by have := F.brok; rw [hb] at this; exact this
    have hlink : linkOK s.ro sub b = true := by have := F.link; rw [hb] at this; exact this
    obtain ⟨l1, _⟩ := (linkOK_iff' s.ro sub b).1 hlink
    have hhi := F.sg.hi
    have hlen : sub.curIdx - 2 < b.batches.length := by rw [l1, planOf_length]; omega
    have ha := lG2_stepRo5 s w sub F hph hr hs hst (by intro b' hb'; rw [hb] at hb'; cases hb'; exact s7)
    rw [hb] at ha
    have hbb := lG2_stepBr5 s w (lG2_sub5 sub w) b (sub.curIdx - 2) c1 c2 c3 c5 c6 c7 hbrok hlen (lG2_consistent s w sub F)
    have hrank : subRank (lG2_succ s w (lG2_sub5 sub w) (some (lG2_norm b)))
        { lG2_sub5 sub w with lastUpdate := ageAge (lG2_sub5 sub w).lastUpdate } w = 28 := by
      show (if b.partition ≠ some (sub.curIdx - 1) then 28 else _) = 28
      rw [if_pos (by rw [c5]; intro hx; have := Option.some.inj hx; omega)]
    obtain ⟨s', r1, r2, r3, r4, r5, r6⟩ :=
      lG2_finish s _ w w sub (lG2_sub5 sub w) (some (lG2_norm b)) 40 28 F hph hr hs hrk rfl hnp F.env rfl rfl rfl ha hbb
        hrank (by omega)
    refine ⟨s', r1, r2 ?_, r3, r4, by rw [r5, hw], by intro b' hb'; rw [r6] at hb'; cases hb'; exact ⟨b, hb, rfl⟩⟩
    rw [lG2_cls_upgrade (lG2_succ s w (lG2_sub5 sub w) (some (lG2_norm b))) w
      { lG2_sub5 sub w with lastUpdate := ageAge (lG2_sub5 sub w).lastUpdate } rfl hph hr rfl rfl]
    show (if (b.partition == some (sub.curIdx - 2)) = true then
        (if (brSync b w && brInit b w && b.st.batchState == .ready && b.st.hasReadyTime && b.st.currentBatch == sub.curIdx - 2 &&
            RV.Oracle.Executor.batchReadyNow (exBr b) (some (exWl w))) = true then 7 else 0) else _) ≠ 0
    rw [if_pos (by rw [c5]; exact beq_self_eq_true _), if_pos (by simp [c1, c2, c3, c4, c6, c7])]
    decide

/-! ### class 6 -/

/-- the BatchRelease `createBatchRelease` leaves for step `p + 1` -/
def lG2_cb6 (plan : List IntOrPct) (p : Int) (id : String) : CBr :=
  { batches := plan, partition := some p, rolloutID := id, policy := "", rollbackAnno := false, specOther := true,
    failureThreshold := none, deleting := false, hasFinalizer := false, generation := 1, observedGeneration := 0,
    observedRolloutID := "", st := emptyStatus }

/-- the status the executor's first reconcile persists -/
def lG2_st8 (u ur : Int) : Executor.Status :=
  { phase := .preparing, currentBatch := 0, batchState := .empty, hasReadyTime := false, hash := .same, rolloutIDSame := true,
    observedReplicas := -1, updateRevision := "", stableRevision := "", noNeedUpdate := none, updated := u, updatedReady := ur }

def lG2_b8 (plan : List IntOrPct) (p : Int) (id : String) (u ur : Int) : CBr :=
  { batches := plan, partition := some p, rolloutID := id, policy := "", rollbackAnno := false, specOther := true,
    failureThreshold := none, deleting := false, hasFinalizer := true, generation := 1, observedGeneration := 1,
    observedRolloutID := id, st := lG2_st8 u ur }

/-- the workload after a BatchRelease was created: a control annotation left by an earlier one is foreign -/
def lG2_w6 (w : CWl) : CWl := { w with owner := if w.owner = .this then .other else w.owner }

theorem lG2_w6_eq (w : CWl) : (if w.owner = .this then { w with owner := .other } else w) = lG2_w6 w := by
  unfold lG2_w6
  split
  · rfl
  · cases w; rfl

theorem lG2_envWl_w6 (w : CWl) (h : envWl w = w) : envWl (lG2_w6 w) = lG2_w6 w := by
  have e : envWl (lG2_w6 w) = { envWl w with owner := (lG2_w6 w).owner } := by
    unfold envWl lG2_w6
    dsimp only
    split <;> rfl
  rw [e, h]
  rfl

theorem lG2_exec6 (plan : List IntOrPct) (p : Int) (id : String) (ew : Executor.Workload) (hid : id ≠ "")
    (hgen : ew.observedGeneration = ew.generation) :
    Executor.reconcile (exBr (lG2_cb6 plan p id)) (some ew) =
      .val { br := some { Executor.withFinalizer (exBr (lG2_cb6 plan p id)) with status := lG2_st8 ew.updated ew.updatedReady },
             wl := some ew, requeue := true, err := false } := by
  apply lG2_exec_stop _ _ _ rfl
  · have hinfo : Executor.syncInfo (Executor.withFinalizer (exBr (lG2_cb6 plan p id)))
        (Executor.initializedStatus (exBr (lG2_cb6 plan p id)).status) (some ew) = (.normal, some ew) :=
      lG2_syncInfo _ _ _ rfl hgen (Or.inl rfl) (Or.inl rfl)
    have hdec : Executor.syncDecide (Executor.withFinalizer (exBr (lG2_cb6 plan p id)))
        (Executor.initializedStatus (exBr (lG2_cb6 plan p id)).status) .normal (some ew) =
        (Executor.initializedStatus (exBr (lG2_cb6 plan p id)).status, false) := by
      apply lG2_decide_normal
      · show Executor.Phase.empty ≠ .completed
        decide
      · rfl
      · simp [Executor.isPlanChanged, Executor.withFinalizer, exBr, stOf, lG2_cb6, emptyStatus]
      · simp [Executor.isPlanUnhealthy, Executor.withFinalizer, exBr, stOf, lG2_cb6, emptyStatus]
      · rfl
    obtain ⟨hs1, _⟩ := holds_sync_of_decide (Executor.withFinalizer (exBr (lG2_cb6 plan p id)))
      (Executor.initializedStatus (exBr (lG2_cb6 plan p id)).status) (some ew)
      (Executor.initializedStatus (exBr (lG2_cb6 plan p id)).status, false) (by rw [hinfo]; exact hdec)
    rw [hs1, hinfo]
    simp [Executor.refreshStatus, Executor.initializedStatus, Executor.resetStatus, exBr, stOf, lG2_cb6, emptyStatus, lG2_st8, hid]
  · intro hx
    have := congrArg Executor.Status.phase hx
    simp [lG2_st8, lG2_cb6, exBr, stOf, emptyStatus] at this

theorem lG2_stepRo6 (s : CS) (w : CWl) (sub : Sub) (F : lG2_Facts s w sub)
    (hph : s.ro.phase = .progressing) (hr : s.ro.reason = .inRolling) (hs : s.ro.sub = some sub) (hst : sub.state = .upgrade)
    (hnone : s.br = none) :
    stepRo s = some (lG2_mid s (lG2_w6 w) (lG2_fillSub (lG2_obs sub (roWl w)) (roWl w).podTemplateHash)
      (some (lG2_cb6 (planOf s.ro) (sub.curIdx - 1) w.updateRevision))) := by
  obtain ⟨step, hstep, hwt⟩ := lG2_step_exists s w sub F
  have hnr := noRollback w F.wok
  have hid : getRolloutID (roWl w) = w.updateRevision := by unfold getRolloutID; rw [hnr]; rfl
  rw [lG2_stepRo s w sub step F hph hr hs (by rw [hst]; decide) hstep hwt (by intro b hb; rw [hnone] at hb; cases hb) _
    ((lG2_stateStep_upgrade _ step _ hst).trans
      (lG2_upgrade_create _ step _ (by show s.br.map roBr = none; rw [hnone]; rfl)))]
  unfold landRo
  dsimp only [ofCtx, lG2_fill, toCtx]
  rw [hnone, F.wl, hid, hnr]
  have han : annoLand (some w) (some (roWl w)) = some w := annoLand_id (some w)
  rw [han]
  simp only [landBR, Option.map_some]
  rw [lG2_w6_eq]
  rfl

theorem lG2_stepBr6 (s : CS) (w' : CWl) (sb : Sub) (plan : List IntOrPct) (p : Int) (id : String) (hid : id ≠ "")
    (hgen : w'.observedGeneration = w'.generation) :
    stepBr (lG2_mid s w' sb (some (lG2_cb6 plan p id))) =
      some (lG2_mid s w' sb (some (lG2_b8 plan p id w'.updated w'.updatedReady))) := by
  unfold stepBr lG2_mid
  simp only [Option.map_some]
  rw [lG2_exec6 plan p id (exWl w') hid hgen]
  dsimp only
  unfold landBr
  simp only [Option.map_some]
  rw [lG2_wlLand_id]
  rfl

/-- class 6: the successor is in class 8, with the freshly created BatchRelease -/
theorem lG2_round6 (s : CS) (h : liveInv s = true) (hc : cls s = 6) :
    ∃ s', round s = some s' ∧ liveInv s' = true ∧ mu s' < mu s ∧ 12 < mu s' ∧ (∀ b', s'.br = some b' → b'.policy = "") := by
  obtain ⟨w, sub, hw, hph, hr, hs, hst, hnone, hk0⟩ := lG2_cls6 s hc
  simp only [Bool.and_eq_true, decide_eq_true_eq] at hk0
  obtain ⟨hk, hx⟩ := hk0
  have F := lG2_facts s w sub h (by rw [hc]; decide) hw hph hr hs
  have hrk : subRank s sub w = 30 := by
    unfold subRank; rw [hst]; unfold brRank; rw [hnone]
  have ha := lG2_stepRo6 s w sub F hph hr hs hst hnone
  have hbb := lG2_stepBr6 s (lG2_w6 w) (lG2_fillSub (lG2_obs sub (roWl w)) (roWl w).podTemplateHash) (planOf s.ro)
    (sub.curIdx - 1) w.updateRevision F.rev (lG2_consistent s w sub F).symm
  obtain ⟨s', r1, r2, r3, r4, _, r6⟩ :=
    lG2_finish s _ w (lG2_w6 w) sub (lG2_fillSub (lG2_obs sub (roWl w)) (roWl w).podTemplateHash) _ 30 26 F hph hr hs hrk rfl
      (by show sub.state ≠ .paused; rw [hst]; decide) (lG2_envWl_w6 w F.env) rfl rfl rfl ha hbb
      (by simp [subRank, brRank, lG2_succ, lG2_b8, lG2_st8, lG2_fillSub, lG2_obs, hst]) (by omega)
  refine ⟨s', r1, r2 ?_, r3, r4, by intro b' hb'; rw [r6] at hb'; cases hb'; rfl⟩
  rw [lG2_cls_upgrade (lG2_succ s (lG2_w6 w) (lG2_fillSub (lG2_obs sub (roWl w)) (roWl w).podTemplateHash) _) (lG2_w6 w)
    { lG2_fillSub (lG2_obs sub (roWl w)) (roWl w).podTemplateHash with
      lastUpdate := ageAge (lG2_fillSub (lG2_obs sub (roWl w)) (roWl w).podTemplateHash).lastUpdate } rfl hph hr rfl hst]
  simp [lG2_succ, lG2_b8, lG2_st8, brSync, brSyncLag, brInit, lG2_w6, lG2_fillSub, lG2_obs, hk, hx]

/-! ### class 7 -/

def lG2_st9 (st : Executor.Status) (p u ur : Int) : Executor.Status :=
  { st with hasReadyTime := false, currentBatch := p, batchState := .upgrading, hash := .same, rolloutIDSame := true,
            updated := u, updatedReady := ur }

theorem lG2_exec7 (b' : CBr) (ew : Executor.Workload) (p : Int)
    (hd : b'.deleting = false) (hph : b'.st.phase = .progressing) (hpart : b'.partition = some p) (hh : b'.st.hash = .differs)
    (hid : b'.observedRolloutID = b'.rolloutID) (hp : p < b'.batches.length)
    (hgen : ew.observedGeneration = ew.generation) (hrep : b'.st.observedReplicas = ew.replicas)
    (hrev : b'.st.updateRevision = ew.updateRevision) :
    Executor.reconcile (exBr b') (some ew) =
      .val { br := some { Executor.withFinalizer (exBr b') with status := lG2_st9 b'.st p ew.updated ew.updatedReady },
             wl := some ew, requeue := true, err := false } := by
  have hphase : (exBr b').status.phase = .progressing := hph
  apply lG2_exec_stop _ _ _ hd
  · rw [RV.Executor.initialized_id _ (by rw [hphase]; decide)]
    have hinfo : Executor.syncInfo (Executor.withFinalizer (exBr b')) (exBr b').status (some ew) = (.normal, some ew) :=
      lG2_syncInfo _ _ _ hd hgen (Or.inr hrep) (Or.inr hrev)
    have hdec : Executor.syncDecide (Executor.withFinalizer (exBr b')) (exBr b').status .normal (some ew) =
        (Executor.signalRecalculate (Executor.withFinalizer (exBr b')) (exBr b').status, false) := by
      apply holds_decide_changed
      · show (exBr b').status.phase ≠ .completed
        rw [hphase]; decide
      · simp [Executor.isPlanFinalizing, Executor.withFinalizer, exBr, stOf, hd, hph, hpart]
      · simp [Executor.isPlanChanged, Executor.withFinalizer, exBr, stOf, hh, hph]
    obtain ⟨hs1, _⟩ := holds_sync_of_decide (Executor.withFinalizer (exBr b')) (exBr b').status (some ew)
      (Executor.signalRecalculate (Executor.withFinalizer (exBr b')) (exBr b').status, false) (by rw [hinfo]; exact hdec)
    rw [hs1, hinfo]
    have hmin : min p ((b'.batches.length : Int) - 1) = p := by omega
    simp [Executor.refreshStatus, Executor.signalRecalculate, Executor.withFinalizer, exBr, stOf, lG2_st9, hpart, hid, hmin]
  · intro hx
    have := congrArg Executor.Status.hash hx
    simp [lG2_st9, exBr, stOf, hh] at this

/-- the BatchRelease after the Rollout controller rewrote its plan for the next step -/
def lG2_b7 (b : CBr) (plan : List IntOrPct) (p : Int) (id : String) : CBr :=
  { b with batches := plan, partition := some p, rolloutID := id, policy := "", specOther := true, failureThreshold := none,
           generation := b.generation + 1, st := { b.st with hash := .differs }, rollbackAnno := false }

theorem lG2_updatedBr7 (b : CBr) (nb : BR) (plan : List IntOrPct) (p : Int) (id : String) (h1 : nb.batches = plan)
    (h2 : nb.partition = some p) (h3 : nb.rolloutID = id) (h4 : nb.policy = "") (h5 : nb.rollbackAnno = false)
    (h6 : nb.specOther = true) (h7 : nb.deleting = b.deleting) (hpne : b.partition ≠ some p) (hhash : b.st.hash = .same) :
    updatedBr b nb = some (lG2_b7 b plan p id) := by
  have hch : specChanged b nb = true := by
    unfold specChanged
    simp [h2, hpne]
  rw [updatedBr_eq, if_neg (by rw [h7]; simp)]
  unfold upd2
  rw [if_pos hch]
  simp [lG2_b7, h1, h2, h3, h4, h5, h6, hhash]

theorem lG2_stepRo7 (s : CS) (w : CWl) (sub : Sub) (b : CBr) (F : lG2_Facts s w sub)
    (hph : s.ro.phase = .progressing) (hr : s.ro.reason = .inRolling) (hs : s.ro.sub = some sub) (hst : sub.state = .upgrade)
    (hb : s.br = some b) (hpart : b.partition = some (sub.curIdx - 2)) (hid : b.rolloutID = w.updateRevision)
    (hhash : b.st.hash = .same) (_hdel : b.deleting = false) :
    stepRo s = some (lG2_mid s w (lG2_fillSub (lG2_obs sub (roWl w)) (roWl w).podTemplateHash)
      (some (lG2_b7 b (planOf s.ro) (sub.curIdx - 1) w.updateRevision))) := by
  obtain ⟨step, hstep, hwt⟩ := lG2_step_exists s w sub F
  have hnr := noRollback w F.wok
  have hgid : getRolloutID (roWl w) = w.updateRevision := by unfold getRolloutID; rw [hnr]; rfl
  have hne : brSpecEq (roBr b) (desiredBR { s.ro with sub := some (lG2_obs sub (roWl w)) } (getRolloutID (roWl w))
      (sub.curIdx - 1) (roWl w).inRollback) = false := by
    have : ¬ (sub.curIdx - 2 = sub.curIdx - 1) := by omega
    simp [brSpecEq, desiredBR, roBr, hpart, this]
  rw [lG2_stepRo s w sub step F hph hr hs (by rw [hst]; decide) hstep hwt
    (by intro b' hb'; rw [hb] at hb'; cases hb'; exact hid) _
    ((lG2_stateStep_upgrade _ step _ hst).trans
      (lG2_upgrade_update _ step _ (roBr b) (by show s.br.map roBr = some (roBr b); rw [hb]; rfl) hne))]
  unfold landRo
  dsimp only [ofCtx, lG2_fill, toCtx]
  rw [hb, F.wl, hgid, hnr]
  have han : annoLand (some w) (some (roWl w)) = some w := annoLand_id (some w)
  rw [han]
  simp only [landBR]
  rw [lG2_updatedBr7 b _ (planOf s.ro) (sub.curIdx - 1) w.updateRevision rfl rfl rfl rfl rfl rfl rfl
    (by rw [hpart]; intro hx; have := Option.some.inj hx; omega) hhash]
  rfl

/-- the BatchRelease after the executor acknowledged the new plan -/
def lG2_b9 (b : CBr) (plan : List IntOrPct) (p : Int) (id : String) (u ur : Int) : CBr :=
  { lG2_b7 b plan p id with hasFinalizer := true, observedGeneration := b.generation + 1, observedRolloutID := id,
                            st := lG2_st9 (lG2_b7 b plan p id).st p u ur }

theorem lG2_stepBr7 (s : CS) (w : CWl) (sb : Sub) (b : CBr) (plan : List IntOrPct) (p : Int) (id : String)
    (hd : b.deleting = false) (hph : b.st.phase = .progressing) (hoid : b.observedRolloutID = id) (hp : p < plan.length)
    (hgen : w.observedGeneration = w.generation) (hrep : b.st.observedReplicas = w.replicas)
    (hrev : b.st.updateRevision = "wl-" ++ w.updateRevision) :
    stepBr (lG2_mid s w sb (some (lG2_b7 b plan p id))) =
      some (lG2_mid s w sb (some (lG2_b9 b plan p id w.updated w.updatedReady))) := by
  unfold stepBr lG2_mid
  simp only [Option.map_some]
  rw [lG2_exec7 (lG2_b7 b plan p id) (exWl w) p hd hph rfl rfl hoid hp hgen hrep hrev]
  dsimp only
  unfold landBr
  simp only [Option.map_some]
  rw [lG2_wlLand_id]
  rfl

theorem lG2_round7 (s : CS) (h : liveInv s = true) (hc : cls s = 7) :
    ∃ s', round s = some s' ∧ liveInv s' = true ∧ mu s' < mu s ∧ 12 < mu s' ∧ s'.wl = s.wl ∧
      (∀ b', s'.br = some b' → b'.policy = "") := by
  obtain ⟨w, sub, b, hw, hph, hr, hs, hst, hb, hpart, hcond⟩ := lG2_cls7 s hc
  have hpart' : b.partition = some (sub.curIdx - 2) := eq_of_beq hpart
  simp only [Bool.and_eq_true, beq_iff_eq] at hcond
  obtain ⟨⟨⟨⟨⟨c1, c2⟩, c3⟩, c4⟩, c6⟩, c7⟩ := hcond
  obtain ⟨s1, s2, s3, s4, s5, s6, s7, s8, s9, s10⟩ := (lG2_brSync_iff b w).1 c1
  obtain ⟨i1, i2, i3, i4⟩ := (lG2_brInit_iff b w).1 c2
  have F := lG2_facts s w sub h (by rw [hc]; decide) hw hph hr hs
  have hhi := F.sg.hi
  have hlo := F.sg.lo
  have hne1 : ¬ (sub.curIdx - 2 = sub.curIdx - 1) := by omega
  have hne2 : ¬ (sub.curIdx - 1 = sub.curIdx - 2) := by omega
  have hrk : subRank s sub w = 28 := by
    unfold subRank; rw [hst]; unfold brRank; rw [hb]
    dsimp only
    rw [if_pos (by rw [hpart']; intro hx; exact hne1 (Option.some.inj hx))]
  have ha := lG2_stepRo7 s w sub b F hph hr hs hst hb hpart' s7 s10 s5
  have hbb := lG2_stepBr7 s w (lG2_fillSub (lG2_obs sub (roWl w)) (roWl w).podTemplateHash) b (planOf s.ro) (sub.curIdx - 1)
    w.updateRevision s5 i4 (s6.trans s7) (by rw [planOf_length]; omega) (lG2_consistent s w sub F).symm i2 i1
  obtain ⟨s', r1, r2, r3, r4, r5, r6⟩ :=
    lG2_finish s _ w w sub (lG2_fillSub (lG2_obs sub (roWl w)) (roWl w).podTemplateHash) _ 28 22 F hph hr hs hrk rfl
      (by show sub.state ≠ .paused; rw [hst]; decide) F.env rfl rfl rfl ha hbb
      (by simp [subRank, brRank, lG2_succ, lG2_b9, lG2_b7, lG2_st9, lG2_fillSub, lG2_obs, hst, i4]) (by omega)
  refine ⟨s', r1, r2 ?_, r3, r4, by rw [r5, hw], by intro b' hb'; rw [r6] at hb'; cases hb'; rfl⟩
  rw [lG2_cls_upgrade (lG2_succ s w (lG2_fillSub (lG2_obs sub (roWl w)) (roWl w).podTemplateHash) _) w
    { lG2_fillSub (lG2_obs sub (roWl w)) (roWl w).podTemplateHash with
      lastUpdate := ageAge (lG2_fillSub (lG2_obs sub (roWl w)) (roWl w).podTemplateHash).lastUpdate } rfl hph hr rfl hst]
  simp [lG2_succ, lG2_b9, lG2_b7, lG2_st9, brSync, brSyncLag, brInit, lG2_fillSub, lG2_obs, hne2, i1, i2, i3, i4, s5]

/-! ### the statements -/

theorem round_cls_5 (s : CS) (h : liveInv s = true) (hc : cls s = 5) :
    ∃ s', round s = some s' ∧ liveInv s' = true ∧ mu s' < mu s := by
  obtain ⟨s', h1, h2, h3, _⟩ := lG2_round5 s h hc
  exact ⟨s', h1, h2, h3⟩

theorem round_cls_6 (s : CS) (h : liveInv s = true) (hc : cls s = 6) :
    ∃ s', round s = some s' ∧ liveInv s' = true ∧ mu s' < mu s := by
  obtain ⟨s', h1, h2, h3, _⟩ := lG2_round6 s h hc
  exact ⟨s', h1, h2, h3⟩

theorem round_cls_7 (s : CS) (h : liveInv s = true) (hc : cls s = 7) :
    ∃ s', round s = some s' ∧ liveInv s' = true ∧ mu s' < mu s := by
  obtain ⟨s', h1, h2, h3, _⟩ := lG2_round7 s h hc
  exact ⟨s', h1, h2, h3⟩

/-! ### the release is not declared done early -/

theorem lG2_done_of_mu (t : CS) (h : 12 < mu t) : doneInv t = true := by
  unfold doneInv
  split
  · rfl
  · have h1 : 1 < mu t := by omega
    simp [h, h1]

theorem done_cls_5 (s : CS) (h : liveInv s = true) (hd : doneInv s = true) (hc : cls s = 5) :
    ∀ s', round s = some s' → doneInv s' = true := by
  intro s' hs'
  obtain ⟨t, h1, _, _, h4, _⟩ := lG2_round5 s h hc
  rw [h1] at hs'
  cases hs'
  exact lG2_done_of_mu _ h4

theorem done_cls_6 (s : CS) (h : liveInv s = true) (hd : doneInv s = true) (hc : cls s = 6) :
    ∀ s', round s = some s' → doneInv s' = true := by
  intro s' hs'
  obtain ⟨t, h1, _, _, h4, _⟩ := lG2_round6 s h hc
  rw [h1] at hs'
  cases hs'
  exact lG2_done_of_mu _ h4

theorem done_cls_7 (s : CS) (h : liveInv s = true) (hd : doneInv s = true) (hc : cls s = 7) :
    ∀ s', round s = some s' → doneInv s' = true := by
  intro s' hs'
  obtain ⟨t, h1, _, _, h4, _⟩ := lG2_round7 s h hc
  rw [h1] at hs'
  cases hs'
  exact lG2_done_of_mu _ h4

/-! ### the release policy while rolling -/

theorem lG2_pol_of_policy (t : CS) (h : ∀ b', t.br = some b' → b'.policy = "") : polInv t = true := by
  unfold polInv
  split
  · rename_i b hb
    simp [h b hb]
  · rfl

theorem pol_cls_5 (s : CS) (h : liveInv s = true) (hp : polInv s = true) (hc : cls s = 5) :
    ∀ s', round s = some s' → polInv s' = true := by
  intro s' hs'
  obtain ⟨t, h1, _, _, _, _, h6⟩ := lG2_round5 s h hc
  rw [h1] at hs'
  cases hs'
  apply lG2_pol_of_policy
  intro b' hb'
  obtain ⟨b, hb, hpol⟩ := h6 b' hb'
  obtain ⟨w, sub, hw, hph, hr, hs, hst, _⟩ := lG2_cls5 s hc
  have hmu := lG2_mu_rolling s w sub hw hph hr hs
  have hrk : subRank s sub w = 40 := by unfold subRank; rw [hst]
  rw [hrk] at hmu
  unfold polInv at hp
  rw [hb] at hp
  simp only [Bool.or_eq_true, decide_eq_true_eq, beq_iff_eq] at hp
  rcases hp with hp | hp
  · omega
  · rw [hpol]; exact hp

theorem pol_cls_6 (s : CS) (h : liveInv s = true) (hp : polInv s = true) (hc : cls s = 6) :
    ∀ s', round s = some s' → polInv s' = true := by
  intro s' hs'
  obtain ⟨t, h1, _, _, _, h5⟩ := lG2_round6 s h hc
  rw [h1] at hs'
  cases hs'
  exact lG2_pol_of_policy _ h5

theorem pol_cls_7 (s : CS) (h : liveInv s = true) (hp : polInv s = true) (hc : cls s = 7) :
    ∀ s', round s = some s' → polInv s' = true := by
  intro s' hs'
  obtain ⟨t, h1, _, _, _, _, h6⟩ := lG2_round7 s h hc
  rw [h1] at hs'
  cases hs'
  exact lG2_pol_of_policy _ h6

end RV.Lemmas.ClosedLoop
