/-
  Progress of the closed loop, round-boundary classes 8, 9: one fair round from a state of the class leads to a state of the
  invariant with a strictly smaller measure.
-/
import RV.Lemmas.ClosedLoopLiveBase
namespace RV.Lemmas.ClosedLoop
open RV.Arith RV.Traffic RV.RolloutSM RV.ClosedLoop RV.Oracle.ClosedLoop

/-! ### the Rollout reconcile while the BatchRelease is in step with the rollout but does not report the batch ready -/

theorem lG3_jump_none (ro : Rollout) (s : Sub) (hlo : 1 ≤ s.curIdx) (hhi : s.curIdx ≤ ro.steps.length)
    (hnext : s.nextIdx = nextBatchIndex ro.steps.length s.curIdx) : doCanaryJump ro s = some (s, false) := by
  unfold doCanaryJump
  dsimp only
  rw [if_neg (by omega), if_neg (fun h => h.1 hnext)]

theorem lG3_preStep_none (step : Step) (c : Ctx) (hlo : 1 ≤ c.sub.curIdx) (hhi : c.sub.curIdx ≤ c.ro.steps.length)
    (hstep : c.ro.steps[(c.sub.curIdx - 1).toNat]? = some step) (hw : step.weight = none) (hnt : c.ro.hasTraffic = false) :
    ∃ c', preStep step c = some (c', true, false) ∧ c'.ro = c.ro ∧ c'.wl = c.wl ∧ c'.br = c.br ∧ c'.net = c.net ∧
      c'.mem = c.mem ∧ c'.sub = c.sub := by
  have hfin : ∀ (t : TCtx) (n : Net) (m : Mem), t.hasRef = false →
      finalisingTrafficRouting t n m = ⟨true, false, n, m, false, []⟩ := by
    intro t n m ht
    unfold finalisingTrafficRouting
    rw [if_pos (by rw [ht]; decide)]
  have hns : ¬ stepHasTraffic step = true := by unfold stepHasTraffic; rw [hw]; decide
  unfold preStep
  rw [if_pos hns]
  unfold callTM
  rw [trCtx_eq c.ro c.sub step hlo hhi hstep]
  dsimp only
  rw [hfin _ _ _ hnt]
  refine ⟨_, rfl, rfl, rfl, rfl, rfl, rfl, ?_⟩
  dsimp only
  rw [if_neg (by decide)]

theorem lG3_upgrade_wait (ro : Rollout) (s : Sub) (wl : WL) (b : BR)
    (heq : brSpecEq b (desiredBR ro (getRolloutID wl) (s.curIdx - 1) wl.inRollback) = true)
    (hh : b.hashSame = true) (hgo : b.genObserved = true) (hnr : b.batchReady = false) :
    doCanaryUpgrade ro s wl (some b) = (false, some b, []) := by
  unfold doCanaryUpgrade runBatchRelease
  dsimp only
  rw [if_pos heq]
  dsimp only
  rw [if_neg (by simp), if_neg (by simp [hh, hgo]), if_pos (Or.inl (by simp [hnr]))]

theorem lG3_runCanary_idle (c0 : Ctx) (b : BR) (step : Step)
    (hbr : c0.br = some b) (hid : c0.sub.observedRolloutID = b.rolloutID)
    (hlo : 1 ≤ c0.sub.curIdx) (hhi : c0.sub.curIdx ≤ c0.ro.steps.length)
    (hnext : c0.sub.nextIdx = nextBatchIndex c0.ro.steps.length c0.sub.curIdx)
    (hstep : c0.ro.steps[(c0.sub.curIdx - 1).toNat]? = some step) (hw : step.weight = none)
    (hnt : c0.ro.hasTraffic = false) (hst : c0.sub.state = .upgrade)
    (hup : ∀ s' : Sub, s'.curIdx = c0.sub.curIdx → doCanaryUpgrade c0.ro s' c0.wl (some b) = (false, some b, [])) :
    ∃ c, runCanary c0 = .ok c false ∧ c.ro = c0.ro ∧ c.wl = c0.wl ∧ c.br = c0.br ∧ c.net = c0.net ∧ c.mem = c0.mem ∧
      ∃ ph, c.sub = { c0.sub with podHash := ph } := by
  obtain ⟨ro, sub, wl, br, net, mem, rq, ws, seen⟩ := c0
  dsimp only at hbr hid hlo hhi hnext hstep hnt hst hup
  subst hbr
  have hsync : syncStep ⟨ro, sub, wl, some b, net, mem, rq, ws, seen⟩ =
      ⟨ro, { sub with podHash := (if sub.podHash = "" then wl.podTemplateHash else sub.podHash) }, wl, some b, net, mem, rq, ws,
        seen⟩ := by
    unfold syncStep
    dsimp only
    rw [if_neg (fun h => h hid)]
    dsimp only
    split <;> rfl
  unfold runCanary
  dsimp only
  rw [hsync]
  dsimp only
  generalize (if sub.podHash = "" then wl.podTemplateHash else sub.podHash) = ph
  rw [lG3_jump_none ro { sub with podHash := ph } hlo hhi hnext]
  dsimp only
  rw [hstep]
  dsimp only
  obtain ⟨c3, hpre, p1, p2, p3, p4, p5, p6⟩ := lG3_preStep_none step
    ⟨ro, { sub with podHash := ph }, wl, some b, net, mem, rq, ws, seen⟩ hlo hhi hstep hw hnt
  rw [hpre]
  dsimp only
  rw [if_neg (by simp), if_neg (by simp)]
  have hst3 : c3.sub.state = .upgrade := by rw [p6]; exact hst
  unfold stateStep
  rw [hst3]
  dsimp only
  unfold upgradeStep
  dsimp only
  have hu := hup c3.sub (by rw [p6])
  rw [p1, p2, p3]
  dsimp only
  rw [hu]
  dsimp only
  rw [if_neg (by simp)]
  exact ⟨_, rfl, rfl, rfl, rfl, p4, p5, ph, p6⟩

theorem lG3_brSync_iff (b : CBr) (w : CWl) : brSync b w = true ↔
    b.st.updated = w.updated ∧ b.st.updatedReady = w.updatedReady ∧ b.generation = b.observedGeneration ∧
    b.hasFinalizer = true ∧ b.deleting = false ∧ b.observedRolloutID = b.rolloutID ∧ b.rolloutID = w.updateRevision ∧
    b.specOther = true ∧ b.failureThreshold = none ∧ b.st.hash = .same := by
  unfold brSync
  simp only [Bool.and_eq_true, beq_iff_eq, Bool.not_eq_true', Option.isNone_iff_eq_none, and_assoc]

theorem lG3_liveCfg_iff (s : CS) (w : CWl) (hw : s.wl = some w) : liveCfg s = true ↔
    s.ro.hasTraffic = false ∧ (∀ st ∈ s.ro.steps, st.weight = none ∧ st.pause ≠ .long) ∧ 0 < w.replicas ∧
    (planOf s.ro).all (stepReady w.replicas) = true ∧ w.paused = false ∧ w.updateRevision ≠ "" := by
  unfold liveCfg
  rw [hw]
  simp only [Bool.and_eq_true, Bool.not_eq_true', List.all_eq_true, Option.isNone_iff_eq_none, bne_iff_ne, ne_eq,
    decide_eq_true_eq, and_assoc]

/-- the Rollout reconcile of a rollout waiting in `StepUpgrade` for a BatchRelease that carries exactly the spec the
    rollout wants and does not report the batch ready: only the observed ids / pod-template hash of the status are refreshed -/
theorem lG3_reconcile_wait (W : World) (wl : WL) (sub : Sub) (b : BR) (hg : RoGood W.ro)
    (hph : W.ro.phase = .progressing) (hr : W.ro.reason = .inRolling) (hwl : W.wl = some wl) (hcon : wl.consistent = true)
    (hnrb : wl.inRollback = false) (hsub : W.ro.sub = some sub) (hsg : SubGood W.ro sub wl.canaryRev)
    (hrev : wl.canaryRev ≠ "") (hst : sub.state = .upgrade) (hbr : W.br = some b) (hid : b.rolloutID = wl.canaryRev)
    (hnt : W.ro.hasTraffic = false) (hwts : ∀ st ∈ W.ro.steps, st.weight = none)
    (heq : brSpecEq b (desiredBR W.ro wl.canaryRev (sub.curIdx - 1) false) = true)
    (hh : b.hashSame = true) (hgo : b.genObserved = true) (hnr : b.batchReady = false) :
    ∃ r ph, reconcile W = .val r ∧ r.roGone = false ∧ r.w.wl = W.wl ∧ r.w.br = W.br ∧ r.w.net = W.net ∧ r.w.mem = W.mem ∧
      r.w.ro = { W.ro with sub := some { sub with observedRolloutID := wl.canaryRev, observedGen := wl.generation,
                                                   podHash := ph } } := by
  have hgid : getRolloutID wl = wl.canaryRev := by
    unfold getRolloutID; rw [hnrb]; rfl
  obtain ⟨s1, hs1⟩ : ∃ s1 : Sub, s1 = { sub with observedRolloutID := wl.canaryRev, observedGen := wl.generation } := ⟨_, rfl⟩
  have hobs : csObserve W.ro wl = { W.ro with sub := some s1 } := by
    unfold csObserve
    rw [hsub]
    dsimp only
    rw [if_pos ⟨by rw [hsg.rev]; exact hrev, hsg.rev⟩, hgid, hs1]
  obtain ⟨ns, hns⟩ : ∃ ns : Rollout, ns = { W.ro with sub := some s1 } := ⟨_, rfl⟩
  rw [← hns] at hobs
  have n1 : ns.steps = W.ro.steps := by rw [hns]
  have n2 : ns.paused = false := by rw [hns]; exact hg.unpaused
  have n3 : ns.hasTraffic = false := by rw [hns]; exact hnt
  have n4 : ns.sub = some s1 := by rw [hns]
  have n5 : ns.rollbackInBatch = W.ro.rollbackInBatch := by rw [hns]
  have q1 : s1.curIdx = sub.curIdx := by rw [hs1]
  have q2 : s1.nextIdx = sub.nextIdx := by rw [hs1]
  have q3 : s1.state = sub.state := by rw [hs1]
  have q4 : s1.observedRolloutID = wl.canaryRev := by rw [hs1]
  have hlo := hsg.lo
  have hhi := hsg.hi
  obtain ⟨step, hstep⟩ : ∃ step, W.ro.steps[(sub.curIdx - 1).toNat]? = some step := by
    have hlt : (sub.curIdx - 1).toNat < W.ro.steps.length := by omega
    exact ⟨_, List.getElem?_eq_getElem hlt⟩
  have hwt : step.weight = none := hwts step (List.mem_of_getElem? hstep)
  have hrec := reconcile_roll W wl s1 hg hph hr hwl hcon (by rw [hobs]; exact n4)
  rw [hobs, inRolling_roll W ns s1 sub wl hsub hnrb n2 hsg.rev.symm hsg.hash,
    if_neg (by rw [q3, hst]; decide)] at hrec
  have hN : (if s1.nextIdx ≤ 0 ∨ s1.nextIdx > (ns.steps.length : Int) then
        { s1 with nextIdx := nextBatchIndex (ns.steps.length : Int) s1.curIdx } else s1) = s1 := by
    have : nextBatchIndex (ns.steps.length : Int) s1.curIdx = s1.nextIdx := by rw [n1, q1, q2]; exact hsg.next.symm
    rw [this]
    split <;> rfl
  rw [hN] at hrec
  obtain ⟨c, hrc, r1, r2, r3, r4, r5, ph, r6⟩ := lG3_runCanary_idle (toCtx { W with ro := ns } s1 wl) b step
    hbr (by show s1.observedRolloutID = _; rw [q4, hid])
    (by show 1 ≤ s1.curIdx; omega)
    (by show s1.curIdx ≤ (ns.steps.length : Int); rw [n1, q1]; exact hhi)
    (by show s1.nextIdx = nextBatchIndex (ns.steps.length : Int) s1.curIdx; rw [n1, q1, q2]; exact hsg.next)
    (by show ns.steps[(s1.curIdx - 1).toNat]? = _; rw [n1, q1]; exact hstep)
    hwt n3 (by show s1.state = _; rw [q3]; exact hst)
    (by
      intro s' hs'
      have hs'' : s'.curIdx = sub.curIdx := hs'.trans q1
      refine lG3_upgrade_wait _ s' wl b ?_ hh hgo hnr
      show brSpecEq b (desiredBR ns _ _ _) = true
      rw [hs'', hnrb, hgid]
      have : desiredBR ns wl.canaryRev (sub.curIdx - 1) false = desiredBR W.ro wl.canaryRev (sub.curIdx - 1) false := by
        unfold desiredBR; rw [n1, n5]
      rw [this]
      exact heq)
  rw [hrc] at hrec
  dsimp only at hrec
  rw [if_neg (by simp)] at hrec
  refine ⟨_, ph, hrec, rfl, ?_, r3, r4, r5, ?_⟩
  · show some c.wl = _
    rw [r2, hwl]; rfl
  · show ({ ns with sub := some c.sub } : Rollout) = _
    rw [r6, hns, hs1]
    rfl

/-- the same on the joint state -/
theorem lG3_stepRo_wait (s : CS) (w : CWl) (sub : Sub) (b : CBr) (hinv : fwdInv s = true) (hcfg : liveCfg s = true)
    (hw : s.wl = some w) (hcons : w.generation = w.observedGeneration)
    (hph : s.ro.phase = .progressing) (hr : s.ro.reason = .inRolling) (hsub : s.ro.sub = some sub)
    (hst : sub.state = .upgrade) (hb : s.br = some b) (hpart : b.partition = some (sub.curIdx - 1))
    (hsync : brSync b w = true) (hpol : b.policy = "") (hnr : b.st.batchState ≠ .ready) :
    ∃ a id gen ph, stepRo s = some a ∧ a.gone = false ∧ a.wl = s.wl ∧ a.br = s.br ∧ a.net = s.net ∧ a.mem = s.mem ∧
      a.ro = { s.ro with sub := some { sub with observedRolloutID := id, observedGen := gen, podHash := ph } } := by
  obtain ⟨hgone, hg, w', hw', hwok, hmono, hbrok, hpi⟩ := fwd_parts s hinv
  have ew : w' = w := by rw [hw] at hw'; cases hw'; rfl
  subst ew
  rw [phaseInv_rolling s w' sub hph hr hsub] at hpi
  simp only [Bool.and_eq_true] at hpi
  obtain ⟨⟨hsok, hlink⟩, _⟩ := hpi
  have hsg := (subOK_iff s.ro sub w').1 hsok
  rw [hb] at hlink hbrok
  obtain ⟨l1, _, l3, _⟩ := (linkOK_iff' s.ro sub b).1 hlink
  obtain ⟨_, _, _, k4, _⟩ := (brOK_iff' b).1 hbrok
  obtain ⟨_, _, y3, _, _, y6, y7, y8, y9, y10⟩ := (lG3_brSync_iff b w').1 hsync
  obtain ⟨c1, c2, _, _, _, c6⟩ := (lG3_liveCfg_iff s w' hw).1 hcfg
  obtain ⟨r, ph, hrec, r1, r2, r3, r4, r5, r6⟩ := lG3_reconcile_wait (roWorld s) (roWl w') sub (roBr b) hg hph hr
    (world_wl s w' hw) (by show decide (w'.generation = w'.observedGeneration) = true; exact decide_eq_true hcons)
    (noRollback w' hwok) hsub hsg c6 hst (by show s.br.map roBr = _; rw [hb]; rfl) y7 c1 (fun st hst' => (c2 st hst').1)
    (by
      unfold brSpecEq desiredBR roBr
      dsimp only
      have l1' : b.batches = List.map (fun x => x.replicas) s.ro.steps := l1
      have e : (roWl w').canaryRev = w'.updateRevision := rfl
      rw [e]
      simp [l1', hpart, y7, hpol, k4, y8, y9]
      rfl)
    (by show decide (b.st.hash = .same) = true; exact decide_eq_true y10)
    (by show decide (b.generation = b.observedGeneration) = true; exact decide_eq_true y3)
    (by show decide (b.st.batchState = .ready) = false; exact decide_eq_false hnr)
  have hland := stepRo_eq s hgone r hrec
  rw [landRo_status s r r2 r3 r4 r5] at hland
  exact ⟨_, _, _, ph, hland, r1, rfl, rfl, rfl, rfl, r6⟩

/-! ### the BatchRelease reconcile of a release whose status is in step with the object -/

theorem lG3_event_normal (br : Executor.BR) (ns : Executor.Status) (w : Executor.Workload) (hd : br.deleting = false)
    (hcons : w.observedGeneration = w.generation)
    (hrep : ns.observedReplicas = -1 ∨ w.replicas = ns.observedReplicas)
    (hrev : ns.updateRevision = "" ∨ (w.updateRevision = ns.updateRevision ∧ w.updateRevision ≠ w.currentRevision) ∨
      w.statusReplicas = w.updated) :
    Executor.syncInfo br ns (some w) = (.normal, some w) := by
  unfold Executor.syncInfo
  rw [if_neg (by rw [hd]; decide)]
  dsimp only
  rw [if_neg (by rw [hcons]; omega)]
  split
  · rfl
  · rename_i hne
    rw [if_neg (by rintro ⟨h1, h2⟩; rcases hrep with h | h; exact h1 h; exact h2 h)]
    rw [if_neg (by
      rintro ⟨h1, h2, _, _⟩
      rcases hrev with h | ⟨_, h⟩ | h
      · exact h1 h
      · exact h h2
      · exact hne h)]
    rw [if_neg (by
      rintro ⟨h1, h2⟩
      rcases hrev with h | ⟨h, _⟩ | h
      · exact h1 h
      · exact h2 h
      · exact hne h)]

theorem lG3_sync_quiet (br : Executor.BR) (w : Executor.Workload)
    (hd : br.deleting = false) (hpart : br.partition.isSome = true)
    (hphase : br.status.phase = .preparing ∨ br.status.phase = .progressing)
    (hhash : br.status.hash = .same) (hrid : br.status.rolloutIDSame = true) (hu : br.status.updated = w.updated)
    (hur : br.status.updatedReady = w.updatedReady) (hlt : br.status.currentBatch < br.batches.length)
    (hra : br.rollbackAnno = false)
    (hev : Executor.syncInfo br (Executor.initializedStatus br.status) (some w) = (.normal, some w)) :
    Executor.syncStatus br (Executor.initializedStatus br.status) (some w) = { status := br.status, stop := false } := by
  have hne : br.status.phase ≠ .empty := by rcases hphase with h | h <;> rw [h] <;> decide
  have hinit : Executor.initializedStatus br.status = br.status := by
    unfold Executor.initializedStatus; rw [if_neg hne]
  rw [hinit] at hev ⊢
  have hdec : Executor.syncDecide br br.status .normal (some w) = (br.status, false) := by
    unfold Executor.syncDecide
    dsimp only
    rw [if_neg (by rcases hphase with h | h <;> rw [h] <;> decide)]
    rw [if_neg (by
      unfold Executor.isPlanFinalizing
      cases hp : br.partition with
      | none => rw [hp] at hpart; cases hpart
      | some p => rcases hphase with h | h <;> simp [hd, h])]
    rw [if_neg (by unfold Executor.isPlanChanged; simp [hhash])]
    rw [if_neg (by unfold Executor.isPlanUnhealthy; simp; intro h; omega)]
    rw [if_neg (by rintro ⟨h, _⟩; cases h), if_neg (by rintro ⟨h, _⟩; cases h), if_neg (by rintro ⟨h, _⟩; cases h),
      if_neg (by intro h; cases h)]
    rw [if_neg (by rintro ⟨h | h, _⟩; cases h; rw [hra] at h; cases h)]
  have href : Executor.refreshStatus br.status (some w) = br.status := by
    unfold Executor.refreshStatus
    dsimp only
    rw [if_neg (by rw [hhash]; decide), ← hu, ← hur, ← hrid]
  unfold Executor.syncStatus
  dsimp only
  rw [hev]
  dsimp only
  rw [hdec]
  dsimp only
  rw [href]
  simp

theorem lG3_exec_preparing (br : Executor.BR) (w : Executor.Workload)
    (hsync : Executor.syncStatus (Executor.withFinalizer br) (Executor.initializedStatus br.status) (some w) =
      { status := br.status, stop := false })
    (hp : br.status.phase = .preparing) (hd : br.deleting = false) (hra : br.rollbackAnno = false) :
    ∃ st1 ew, Executor.reconcile br (some w) = .val
      { br := some { Executor.withFinalizer br with status := st1 }, wl := some ew, requeue := true, err := false } ∧
      st1 = { br.status with stableRevision := w.currentRevision, updateRevision := w.updateRevision,
                             observedReplicas := w.replicas, phase := .progressing } ∧
      ew = (if w.owner = .this then w else { w with owner := .this, paused := false, partition := some (.pct 100) }) := by
  refine ⟨_, _, ?_, rfl, rfl⟩
  unfold Executor.reconcile
  rw [if_neg (by rw [hd]; simp)]
  unfold Executor.reconcileBody
  dsimp only
  have hs : Executor.syncStatus (Executor.withFinalizer br) (Executor.initializedStatus (Executor.withFinalizer br).status)
      (some w) = { status := br.status, stop := false } := hsync
  rw [hs]
  dsimp only
  rw [if_neg (by decide)]
  unfold Executor.execute Executor.normPhase
  rw [if_neg (by rw [hp]; decide)]
  dsimp only
  rw [hp]
  dsimp only
  unfold Executor.execPreparing Executor.initializeWl
  dsimp only
  have hra' : (Executor.withFinalizer br).rollbackAnno = false := hra
  rw [hra']
  simp only [Bool.false_eq_true, if_false, if_true]

theorem lG3_exec_upgrading (br : Executor.BR) (w : Executor.Workload) (e : IntOrPct)
    (hsync : Executor.syncStatus (Executor.withFinalizer br) (Executor.initializedStatus br.status) (some w) =
      { status := br.status, stop := false })
    (hp : br.status.phase = .progressing) (hbs : br.status.batchState = .empty ∨ br.status.batchState = .upgrading)
    (hd : br.deleting = false) (hR : w.replicas ≠ 0) (h0 : 0 ≤ br.status.currentBatch)
    (he : br.batches[br.status.currentBatch.toNat]? = some e) (hnn : br.status.noNeedUpdate = none) :
    ∃ w', Executor.reconcile br (some w) = .val
      { br := some { Executor.withFinalizer br with status := { br.status with batchState := .verifying } },
        wl := some w', requeue := true, err := false } ∧
      ((w' = w ∧ scaledV (w.partition.getD (.int 0)) w.replicas true ≤
          scaledV (RV.BatchCtx.desKnob .cloneSet w.replicas e none) w.replicas true) ∨
        w' = { w with partition := some (RV.BatchCtx.desKnob .cloneSet w.replicas e none) }) := by
  have hcalc : RV.BatchCtx.calcCtx (Executor.obsOf (Executor.withFinalizer br)
      { br.status with batchState := .upgrading } w) = .ok
        { replicas := w.replicas, updated := w.updated, updatedReady := w.updatedReady,
          planned := RV.BatchCtx.plannedOf .cloneSet w.replicas e none,
          desired := RV.BatchCtx.desiredOf .cloneSet w.replicas e none,
          knobCur := w.partition.getD (.int 0),
          knobDes := RV.BatchCtx.desKnob .cloneSet w.replicas e none,
          failureThreshold := br.failureThreshold } := by
    unfold RV.BatchCtx.calcCtx Executor.obsOf
    dsimp only
    have h1 : (Executor.withFinalizer br).status.currentBatch = br.status.currentBatch := rfl
    have h2 : (Executor.withFinalizer br).batches = br.batches := rfl
    have h3 : (Executor.withFinalizer br).status.noNeedUpdate = none := hnn
    rw [h1, h2, h3, if_neg (by omega), he]
    rfl
  have hns : Executor.normState br.status = { br.status with batchState := .upgrading } := by
    unfold Executor.normState
    rcases hbs with h | h
    · rw [if_pos (Or.inl h)]
    · rw [if_neg (by rw [h]; simp)]
      cases hst : br.status with
      | mk a1 a2 a3 a4 a5 a6 a7 a8 a9 a10 a11 a12 =>
        rw [hst] at h
        dsimp only at h
        subst h
        rfl
  unfold Executor.reconcile
  rw [if_neg (by rw [hd]; simp)]
  unfold Executor.reconcileBody
  dsimp only
  have hs : Executor.syncStatus (Executor.withFinalizer br) (Executor.initializedStatus (Executor.withFinalizer br).status)
      (some w) = { status := br.status, stop := false } := hsync
  rw [hs]
  dsimp only
  rw [if_neg (by decide)]
  unfold Executor.execute Executor.normPhase
  rw [if_neg (by rw [hp]; decide)]
  dsimp only
  rw [hp]
  dsimp only
  unfold Executor.execProgressing
  dsimp only
  rw [hns]
  dsimp only
  unfold Executor.upgradeBatch
  dsimp only
  rw [if_neg hR, hcalc]
  dsimp only
  unfold RV.BatchCtx.upgrade
  dsimp only
  try rw [hp]
  by_cases hle : scaledV (w.partition.getD (.int 0)) w.replicas true ≤
      scaledV (RV.BatchCtx.desKnob .cloneSet w.replicas e none) w.replicas true
  · rw [if_pos hle]
    exact ⟨w, rfl, Or.inl ⟨rfl, hle⟩⟩
  · rw [if_neg hle]
    exact ⟨_, rfl, Or.inr rfl⟩

/-! ### the tail of the round: idempotence of `env` and `tick` -/

def lG3_allowed (w : CWl) : Int :=
  if w.paused then w.updated
  else match w.partition with
    | some p => w.replicas - (if scaledV p w.replicas true > w.replicas then w.replicas else scaledV p w.replicas true)
    | none => w.replicas

def lG3_upd (w : CWl) : Int := if w.updated < lG3_allowed w then lG3_allowed w else w.updated

theorem lG3_envWl_eq (w : CWl) (h : w.updateRevision = w.currentRevision) :
    envWl w = { w with observedGeneration := w.generation, statusReplicas := w.replicas, updated := w.replicas,
                       updatedReady := w.replicas } := by
  unfold envWl
  dsimp only
  rw [if_neg (fun hh => hh h)]

theorem lG3_envWl_ne (w : CWl) (h : w.updateRevision ≠ w.currentRevision) :
    envWl w = { w with observedGeneration := w.generation, statusReplicas := w.replicas, updated := lG3_upd w,
                       updatedReady := lG3_upd w,
                       currentRevision := if lG3_upd w ≥ w.replicas then w.updateRevision else w.currentRevision } := by
  unfold envWl
  dsimp only
  rw [if_pos h]
  rfl

theorem lG3_allowed_le (w : CWl) (h : wlOK w = true) : lG3_allowed w ≤ w.replicas := by
  unfold wlOK at h
  simp only [Bool.and_eq_true, Bool.or_eq_true, beq_iff_eq, bne_iff_ne, decide_eq_true_eq] at h
  obtain ⟨⟨⟨⟨h1, h2⟩, h3⟩, h4⟩, h5⟩ := h
  unfold lG3_allowed
  split
  · exact h3
  · split
    · rename_i p hp
      rw [hp] at h5
      simp only [decide_eq_true_eq] at h5
      split <;> omega
    · omega

theorem lG3_envWl_idem (w : CWl) (h : wlOK w = true) : envWl (envWl w) = envWl w := by
  have hal := lG3_allowed_le w h
  have hu : w.updated ≤ w.replicas := by
    unfold wlOK at h
    simp only [Bool.and_eq_true, decide_eq_true_eq] at h
    exact h.1.1.2
  have hupd : lG3_upd w ≤ w.replicas := by unfold lG3_upd; split <;> omega
  by_cases hrc : w.updateRevision = w.currentRevision
  · rw [lG3_envWl_eq w hrc]
    exact lG3_envWl_eq _ hrc
  · rw [lG3_envWl_ne w hrc]
    by_cases hge : lG3_upd w ≥ w.replicas
    · rw [if_pos hge]
      have : lG3_upd w = w.replicas := by omega
      rw [this]
      exact lG3_envWl_eq _ rfl
    · rw [if_neg hge]
      obtain ⟨w2, hw2⟩ : ∃ w2 : CWl, w2 = { w with observedGeneration := w.generation, statusReplicas := w.replicas, updated := lG3_upd w, updatedReady := lG3_upd w } := ⟨_, rfl⟩
      rw [← hw2]
      have f1 : w2.updateRevision = w.updateRevision := by rw [hw2]
      have f2 : w2.currentRevision = w.currentRevision := by rw [hw2]
      have f3 : w2.paused = w.paused := by rw [hw2]
      have f4 : w2.partition = w.partition := by rw [hw2]
      have f5 : w2.replicas = w.replicas := by rw [hw2]
      have f6 : w2.updated = lG3_upd w := by rw [hw2]
      rw [lG3_envWl_ne w2 (by rw [f1, f2]; exact hrc)]
      have hal2 : lG3_allowed w2 ≤ lG3_upd w := by
        have : lG3_allowed w ≤ lG3_upd w := by unfold lG3_upd; split <;> omega
        unfold lG3_allowed at this ⊢
        rw [f3, f4, f5, f6]
        split
        · omega
        · rename_i hp
          rw [if_neg hp] at this
          exact this
      have hu2 : lG3_upd w2 = lG3_upd w := by
        show (if w2.updated < lG3_allowed w2 then lG3_allowed w2 else w2.updated) = lG3_upd w
        rw [f6, if_neg (by omega)]
      rw [hu2, f5, if_neg hge, hw2]

theorem lG3_tick_idem (s : CS) : tick (tick s) = tick s := by
  have ha : ∀ a, ageAge (ageAge a) = ageAge a := by intro a; cases a <;> rfl
  have he : ∀ a, ageExp (ageExp a) = ageExp a := by intro a; cases a <;> rfl
  unfold tick
  dsimp only
  cases hg : s.gone
  · simp only [Bool.false_eq_true, if_false, ha, he]
    cases hs : s.ro.sub <;> simp [ha]
  · simp only [if_true, he]
/-- the last three labels on a state waiting in `StepUpgrade` -/
theorem lG3_tail (bs : CS) (sub2 : Sub) (hgone : bs.gone = false) (hs : bs.ro.sub = some sub2) (hst : sub2.state = .upgrade) :
    (roundTail bs).wl = bs.wl.map envWl ∧ (roundTail bs).br = bs.br ∧ (roundTail bs).ro.phase = bs.ro.phase ∧
    (roundTail bs).ro.reason = bs.ro.reason ∧ (roundTail bs).ro.steps = bs.ro.steps ∧
    (roundTail bs).ro.hasTraffic = bs.ro.hasTraffic ∧
    (roundTail bs).ro.sub = some { sub2 with lastUpdate := ageAge sub2.lastUpdate } ∧
    tick (roundTail bs) = roundTail bs := by
  have happ : approve { bs with wl := bs.wl.map envWl } = { bs with wl := bs.wl.map envWl } := by
    unfold approve
    dsimp only
    rw [if_neg (by rw [hgone]; decide), hs]
    dsimp only
    rw [if_neg (by rw [hst]; decide)]
  unfold roundTail
  rw [happ]
  refine ⟨rfl, rfl, ?_, ?_, ?_, ?_, ?_, lG3_tick_idem _⟩
  all_goals
    unfold tick
    dsimp only
    rw [if_neg (by rw [hgone]; decide)]
  rw [hs]
  rfl

theorem lG3_envWl_frame2 (w : CWl) :
    (envWl w).owner = w.owner ∧ (envWl w).paused = w.paused ∧ (envWl w).generation = w.generation ∧
    (envWl w).observedGeneration = w.generation := by
  unfold envWl
  dsimp only
  split <;> exact ⟨rfl, rfl, rfl, rfl⟩

/-- what the rest of the round (env, approve, tick) makes of the state the two reconciles left -/
theorem lG3_finish (s bs : CS) (w w1 : CWl) (sub sub1 : Sub) (b1 : CBr)
    (hcfg : liveCfg s = true) (hw : s.wl = some w) (hib : fwdInv bs = true)
    (hro : bs.ro = { s.ro with sub := some sub1 }) (hst1 : sub1.state = .upgrade) (hcur1 : sub1.curIdx = sub.curIdx)
    (hw1 : bs.wl = some w1) (hb1 : bs.br = some b1)
    (e1 : w1.replicas = w.replicas) (e2 : w1.updateRevision = w.updateRevision) (e3 : w1.paused = false) :
    ∃ sub2, (roundTail bs).wl = some (envWl w1) ∧ (roundTail bs).br = some b1 ∧ (roundTail bs).ro.phase = s.ro.phase ∧
      (roundTail bs).ro.reason = s.ro.reason ∧ (roundTail bs).ro.steps = s.ro.steps ∧ (roundTail bs).ro.sub = some sub2 ∧
      sub2.state = .upgrade ∧ sub2.curIdx = sub.curIdx ∧ liveCfg (roundTail bs) = true ∧ atBoundary (roundTail bs) = true := by
  obtain ⟨hgone, _, w1', hw1', hwok, _, _, _⟩ := fwd_parts bs hib
  have ew : w1' = w1 := by rw [hw1] at hw1'; cases hw1'; rfl
  subst ew
  have hs1 : bs.ro.sub = some sub1 := by rw [hro]
  obtain ⟨t1, t2, t3, t4, t5, t6, t7, t8⟩ := lG3_tail bs sub1 hgone hs1 hst1
  have twl : (roundTail bs).wl = some (envWl w1') := by rw [t1, hw1]; rfl
  obtain ⟨c1, c2, c3, c4, c5, c6⟩ := (lG3_liveCfg_iff s w hw).1 hcfg
  obtain ⟨f1, _, _, f4, _⟩ := envWl_frame w1'
  obtain ⟨_, g2, _, _⟩ := lG3_envWl_frame2 w1'
  have hsteps : (roundTail bs).ro.steps = s.ro.steps := by rw [t5, hro]
  refine ⟨_, twl, by rw [t2, hb1], by rw [t3, hro], by rw [t4, hro], hsteps, t7, hst1, hcur1, ?_, ?_⟩
  · refine (lG3_liveCfg_iff (roundTail bs) (envWl w1') twl).2 ⟨by rw [t6, hro]; exact c1, by rw [hsteps]; exact c2,
      by rw [f1, e1]; exact c3, ?_, by rw [g2]; exact e3, by rw [f4, e2]; exact c6⟩
    have : planOf (roundTail bs).ro = planOf s.ro := by unfold planOf; rw [hsteps]
    rw [this, f1, e1]
    exact c4
  · unfold atBoundary
    rw [twl]
    dsimp only
    rw [lG3_envWl_idem w1' hwok, t8]
    simp

/-! ### the classes -/

theorem lG3_cls_89 (s : CS) (k : Nat) (hk : cls s = k) (hc : k = 8 ∨ k = 9) :
    ∃ w sub b, s.wl = some w ∧ s.ro.phase = .progressing ∧ s.ro.reason = .inRolling ∧ s.ro.sub = some sub ∧
      sub.state = .upgrade ∧ s.br = some b ∧ b.partition ≠ some (sub.curIdx - 2) ∧ b.partition = some (sub.curIdx - 1) ∧
      brSync b w = true ∧
      ((k = 8 ∧ b.st.phase = .preparing ∧ b.st.batchState = .empty ∧ b.st.currentBatch = 0 ∧ b.st.observedReplicas = -1 ∧
          b.st.updateRevision = "" ∧ sub.curIdx = 1 ∧ w.updateRevision ≠ w.currentRevision) ∨
       (k = 9 ∧ b.st.phase ≠ .preparing ∧ brInit b w = true ∧ b.st.currentBatch = sub.curIdx - 1 ∧
          (b.st.batchState = .empty ∨ b.st.batchState = .upgrading))) := by
  unfold cls at hk
  split at hk
  · omega
  · rename_i w hw
    split at hk
    · (repeat' split at hk) <;> omega
    · split at hk <;> omega
    · split at hk
      · omega
      · rename_i sub hsub
        split at hk
        · (repeat' split at hk) <;> omega
        · rename_i hst
          split at hk
          · split at hk <;> omega
          · rename_i b hb
            split at hk
            · split at hk <;> omega
            · rename_i hp2
              split at hk
              · rename_i hp1
                split at hk
                · omega
                · split at hk
                  · omega
                  · rename_i hsync
                    have hsync' : brSync b w = true := by simpa using hsync
                    have hp1' : b.partition = some (sub.curIdx - 1) := by simpa using hp1
                    have hp2' : b.partition ≠ some (sub.curIdx - 2) := by simpa using hp2
                    split at hk
                    · rename_i hprep
                      split at hk
                      · rename_i h8
                        simp only [Bool.and_eq_true, beq_iff_eq, bne_iff_ne, ne_eq] at h8 hprep
                        obtain ⟨⟨⟨⟨⟨a1, a2⟩, a3⟩, a4⟩, a5⟩, a6⟩ := h8
                        exact ⟨w, sub, b, hw, by assumption, by assumption, hsub, hst, hb, hp2', hp1', hsync',
                          Or.inl ⟨hk.symm, hprep, a1, a2, a3, a4, a5, a6⟩⟩
                      · omega
                    · rename_i hprep
                      split at hk
                      · omega
                      · rename_i hinit
                        simp only [Bool.or_eq_true, Bool.not_eq_true', bne_iff_ne, ne_eq, not_or, Bool.not_eq_false,
                          Decidable.not_not, beq_iff_eq] at hinit hprep
                        split at hk
                        · exact ⟨w, sub, b, hw, by assumption, by assumption, hsub, hst, hb, hp2', hp1', hsync',
                            Or.inr ⟨hk.symm, hprep, hinit.1, hinit.2, Or.inl (by assumption)⟩⟩
                        · exact ⟨w, sub, b, hw, by assumption, by assumption, hsub, hst, hb, hp2', hp1', hsync',
                            Or.inr ⟨hk.symm, hprep, hinit.1, hinit.2, Or.inr (by assumption)⟩⟩
                        · split at hk <;> omega
                        · split at hk <;> omega
                        · omega
              · omega
        all_goals ((repeat' split at hk) <;> omega)
    all_goals ((repeat' split at hk) <;> omega)

/-- the class of a state waiting in `StepUpgrade` whose BatchRelease carries the partition of the step -/
theorem lG3_cls_upg (t : CS) (w : CWl) (sub : Sub) (b : CBr) (hw : t.wl = some w) (hph : t.ro.phase = .progressing)
    (hr : t.ro.reason = .inRolling) (hsub : t.ro.sub = some sub) (hst : sub.state = .upgrade) (hb : t.br = some b)
    (hp2 : b.partition ≠ some (sub.curIdx - 2)) (hp1 : b.partition = some (sub.curIdx - 1)) :
    cls t =
      (if brSyncLag b w && brInit b w && b.st.currentBatch == sub.curIdx - 1 && b.st.batchState == .verifying && partLow b w then 10
       else if !brSync b w then 0
       else if b.st.phase == .preparing then
         (if b.st.batchState == .empty && b.st.currentBatch == 0 && b.st.observedReplicas == -1 && b.st.updateRevision == "" &&
             sub.curIdx == 1 && w.updateRevision != w.currentRevision then 8 else 0)
       else if !brInit b w || b.st.currentBatch != sub.curIdx - 1 then 0
       else match b.st.batchState with
         | .empty | .upgrading => 9
         | .verifying => if partLow b w then 11 else 0
         | .ready => if b.st.hasReadyTime && RV.Oracle.Executor.batchReadyNow (exBr b) (some (exWl w)) then 12 else 0
         | .other => 0) := by
  unfold cls
  rw [hw]
  dsimp only
  rw [hph, hr]
  dsimp only
  rw [hsub]
  dsimp only
  rw [hst]
  dsimp only
  rw [hb]
  dsimp only
  rw [if_neg (by simpa using hp2), if_pos (by simpa using hp1)]
  rfl

theorem lG3_mu_upg (t : CS) (w : CWl) (sub : Sub) (b : CBr) (hw : t.wl = some w) (hph : t.ro.phase = .progressing)
    (hr : t.ro.reason = .inRolling) (hsub : t.ro.sub = some sub) (hst : sub.state = .upgrade) (hb : t.br = some b)
    (hp1 : b.partition = some (sub.curIdx - 1)) :
    mu t = 32 + (t.ro.steps.length - sub.curIdx.toNat) * stepW +
      (match b.st.phase with
       | .empty => 27
       | .preparing => 26
       | .progressing =>
         if b.st.hash ≠ .same then 25
         else match b.st.batchState with
           | .verifying => if b.st.updated ≠ w.updated ∨ b.st.updatedReady ≠ w.updatedReady then 20 else 18
           | .ready => 16
           | _ => 22
       | _ => 29) := by
  unfold mu
  dsimp only
  rw [hw]
  dsimp only
  rw [hph, hr]
  dsimp only
  rw [hsub]
  dsimp only
  unfold subRank
  rw [hst]
  dsimp only
  unfold brRank
  rw [hb]
  dsimp only
  rw [if_neg (by simpa using hp1)]
  rfl

/-- the fact `polInv` supplies in classes 8, 9: the BatchRelease carries the policy `createBatchRelease` writes -/
def lG3_policyEmpty (s : CS) : Bool := match s.br with | some b => b.policy == "" | none => true

theorem lG3_brInit_iff (b : CBr) (w : CWl) : brInit b w = true ↔
    b.st.updateRevision = "wl-" ++ w.updateRevision ∧ b.st.observedReplicas = w.replicas ∧ w.owner = .this ∧
    b.st.phase = .progressing := by
  unfold brInit
  simp only [Bool.and_eq_true, beq_iff_eq, and_assoc]

/-- what both classes share: the state, the Rollout reconcile, and the quiet sync step of the executor -/
structure lG3_Setup (s : CS) (k : Nat) (w : CWl) (sub : Sub) (b : CBr) (a : CS) (sub1 : Sub) : Prop where
  h_inv : fwdInv s = true
  h_cfg : liveCfg s = true
  h_wl : s.wl = some w
  h_phase : s.ro.phase = .progressing
  h_reason : s.ro.reason = .inRolling
  h_sub : s.ro.sub = some sub
  h_state : sub.state = .upgrade
  h_br : s.br = some b
  h_p2 : b.partition ≠ some (sub.curIdx - 2)
  h_p1 : b.partition = some (sub.curIdx - 1)
  h_sync : brSync b w = true
  h_pol : b.policy = ""
  h_fix : envWl w = w
  h_wok : wlOK w = true
  h_brok : brOK b = true
  h_link : linkOK s.ro sub b = true
  h_sg : SubGood s.ro sub w.updateRevision
  h_within : withinCur s.ro sub w = true
  h_cases : (k = 8 ∧ b.st.phase = .preparing ∧ b.st.batchState = .empty ∧ b.st.currentBatch = 0 ∧ b.st.observedReplicas = -1 ∧
          b.st.updateRevision = "" ∧ sub.curIdx = 1 ∧ w.updateRevision ≠ w.currentRevision) ∨
       (k = 9 ∧ b.st.phase = .progressing ∧ brInit b w = true ∧ b.st.currentBatch = sub.curIdx - 1 ∧
          (b.st.batchState = .empty ∨ b.st.batchState = .upgrading))
  h_stepA : stepRo s = some a
  h_aGone : a.gone = false
  h_aWl : a.wl = some w
  h_aBr : a.br = some b
  h_aRo : a.ro = { s.ro with sub := some sub1 }
  h_state1 : sub1.state = .upgrade
  h_cur1 : sub1.curIdx = sub.curIdx
  h_quiet : Executor.syncStatus (Executor.withFinalizer (exBr b)) (Executor.initializedStatus (exBr b).status) (some (exWl w)) =
    { status := (exBr b).status, stop := false }

theorem lG3_setup (s : CS) (k : Nat) (h : liveInv s = true) (hk : cls s = k) (hc : k = 8 ∨ k = 9)
    (hpol : lG3_policyEmpty s = true) : ∃ w sub b a sub1, lG3_Setup s k w sub b a sub1 := by
  obtain ⟨hinv, hcfg, _, hbnd⟩ := (liveInv_iff s).1 h
  obtain ⟨w, sub, b, hw, hph, hr, hsub, hst, hb, hp2, hp1, hsync, hcases⟩ := lG3_cls_89 s k hk hc
  have hbnd' : atBoundary s = true := by
    rcases hbnd with h1 | h1
    · rw [hk] at h1; omega
    · exact h1
  have hfix : envWl w = w := by
    unfold atBoundary at hbnd'
    rw [hw] at hbnd'
    simp only [Bool.and_eq_true, beq_iff_eq] at hbnd'
    exact hbnd'.1
  have hpol' : b.policy = "" := by
    unfold lG3_policyEmpty at hpol
    rw [hb] at hpol
    simpa using hpol
  obtain ⟨hgone, hg, w', hw', hwok, hmono, hbrok, hpi⟩ := fwd_parts s hinv
  have ew : w' = w := by rw [hw] at hw'; cases hw'; rfl
  subst ew
  rw [phaseInv_rolling s w' sub hph hr hsub] at hpi
  simp only [Bool.and_eq_true] at hpi
  obtain ⟨⟨hsok, hlink⟩, hwithin⟩ := hpi
  have hsg := (subOK_iff s.ro sub w').1 hsok
  rw [hb] at hlink hbrok
  have hlink' : linkOK s.ro sub b = true := hlink
  have hbrok' : brOK b = true := hbrok
  obtain ⟨l1, ⟨p, lp, lp0, lp1, lp2⟩, l3, _⟩ := (linkOK_iff' s.ro sub b).1 hlink'
  obtain ⟨_, k2, _, k4, k5⟩ := (brOK_iff' b).1 hbrok'
  obtain ⟨y1, y2, y3, _, y5, y6, y7, y8, y9, y10⟩ := (lG3_brSync_iff b w').1 hsync
  obtain ⟨_, _, _, g4⟩ := lG3_envWl_frame2 w'
  rw [hfix] at g4
  have hcases' : (k = 8 ∧ b.st.phase = .preparing ∧ b.st.batchState = .empty ∧ b.st.currentBatch = 0 ∧ b.st.observedReplicas = -1 ∧
          b.st.updateRevision = "" ∧ sub.curIdx = 1 ∧ w'.updateRevision ≠ w'.currentRevision) ∨
       (k = 9 ∧ b.st.phase = .progressing ∧ brInit b w' = true ∧ b.st.currentBatch = sub.curIdx - 1 ∧
          (b.st.batchState = .empty ∨ b.st.batchState = .upgrading)) := by
    rcases hcases with hx | ⟨x1, _, x3, x4, x5⟩
    · exact Or.inl hx
    · exact Or.inr ⟨x1, ((lG3_brInit_iff b w').1 x3).2.2.2, x3, x4, x5⟩
  have hnr : b.st.batchState ≠ .ready := by
    rcases hcases' with ⟨_, _, x, _⟩ | ⟨_, _, _, _, x | x⟩ <;> rw [x] <;> decide
  obtain ⟨a, id, gen, ph, hsa, a1, a2, a3, a4, a5, a6⟩ :=
    lG3_stepRo_wait s w' sub b hinv hcfg hw g4.symm hph hr hsub hst hb hp1 hsync hpol' hnr
  have hphase : b.st.phase = .preparing ∨ b.st.phase = .progressing := by
    rcases hcases' with ⟨_, x, _⟩ | ⟨_, x, _⟩
    · exact Or.inl x
    · exact Or.inr x
  have hne : b.st.phase ≠ .empty := by rcases hphase with x | x <;> rw [x] <;> decide
  have hinit : Executor.initializedStatus (Executor.withFinalizer (exBr b)).status = (exBr b).status := by
    show Executor.initializedStatus (stOf b) = stOf b
    unfold Executor.initializedStatus
    rw [if_neg (by show ¬ b.st.phase = .empty; exact hne)]
  have hev : Executor.syncInfo (Executor.withFinalizer (exBr b))
      (Executor.initializedStatus (Executor.withFinalizer (exBr b)).status) (some (exWl w')) = (.normal, some (exWl w')) := by
    rw [hinit]
    refine lG3_event_normal _ _ _ y5 g4 ?_ ?_
    · rcases hcases' with ⟨_, _, _, _, x, _⟩ | ⟨_, _, x, _⟩
      · exact Or.inl x
      · exact Or.inr ((lG3_brInit_iff b w').1 x).2.1.symm
    · rcases hcases' with ⟨_, _, _, _, _, x, _⟩ | ⟨_, _, x, _⟩
      · exact Or.inl x
      · by_cases hrc : w'.updateRevision = w'.currentRevision
        · right; right
          unfold wlOK at hwok
          simp only [Bool.and_eq_true, Bool.or_eq_true, beq_iff_eq, bne_iff_ne, decide_eq_true_eq] at hwok
          obtain ⟨⟨⟨⟨h1, _⟩, _⟩, h4⟩, _⟩ := hwok
          show w'.statusReplicas = w'.updated
          rcases h4 with h4 | h4
          · exact absurd hrc h4
          · rw [h1, h4]
        · right; left
          refine ⟨((lG3_brInit_iff b w').1 x).1.symm, ?_⟩
          show "wl-" ++ w'.updateRevision ≠ "wl-" ++ w'.currentRevision
          exact fun hh => hrc (holds_wl_inj _ _ hh)
  have hlen : (b.batches.length : Int) = s.ro.steps.length := by rw [l1, planOf_length]
  have hquiet := lG3_sync_quiet (Executor.withFinalizer (exBr b)) (exWl w') y5 (by show b.partition.isSome = true; rw [hp1]; rfl)
    hphase y10 (by show decide (b.observedRolloutID = b.rolloutID) = true; exact decide_eq_true y6) y1 y2
    (by
      show b.st.currentBatch < (b.batches.length : Int)
      have := hsg.hi
      rw [hp1] at lp
      cases lp
      omega)
    k4 hev
  exact ⟨w', sub, b, a, _, hinv, hcfg, hw, hph, hr, hsub, hst, hb, hp2, hp1, hsync, hpol', hfix, hwok, hbrok', hlink', hsg,
    hwithin, hcases', hsa, a1, a2.trans hw, a3.trans hb, a6, hst, rfl, hquiet⟩

theorem lG3_brSyncLag_iff (b : CBr) (w : CWl) : brSyncLag b w = true ↔
    (b.st.updated ≠ w.updated ∨ b.st.updatedReady ≠ w.updatedReady) ∧ b.generation = b.observedGeneration ∧
    b.hasFinalizer = true ∧ b.deleting = false ∧ b.observedRolloutID = b.rolloutID ∧ b.rolloutID = w.updateRevision ∧
    b.specOther = true ∧ b.failureThreshold = none ∧ b.st.hash = .same := by
  unfold brSyncLag
  simp only [Bool.and_eq_true, Bool.or_eq_true, bne_iff_ne, ne_eq, beq_iff_eq, Bool.not_eq_true', Option.isNone_iff_eq_none,
    and_assoc]

/-- a state of class 9 -/
theorem lG3_target9 (t : CS) (w : CWl) (sub : Sub) (b : CBr) (hw : t.wl = some w) (hph : t.ro.phase = .progressing)
    (hr : t.ro.reason = .inRolling) (hsub : t.ro.sub = some sub) (hst : sub.state = .upgrade) (hb : t.br = some b)
    (hp2 : b.partition ≠ some (sub.curIdx - 2)) (hp1 : b.partition = some (sub.curIdx - 1))
    (hsync : brSync b w = true) (hinit : brInit b w = true) (hcb : b.st.currentBatch = sub.curIdx - 1)
    (hbs : b.st.batchState = .empty ∨ b.st.batchState = .upgrading) :
    cls t = 9 ∧ mu t = 32 + (t.ro.steps.length - sub.curIdx.toNat) * stepW + 22 := by
  have hlag : brSyncLag b w = false := by
    cases hl : brSyncLag b w with
    | false => rfl
    | true =>
      obtain ⟨x, _⟩ := (lG3_brSyncLag_iff b w).1 hl
      obtain ⟨y1, y2, _⟩ := (lG3_brSync_iff b w).1 hsync
      rcases x with x | x
      · exact absurd y1 x
      · exact absurd y2 x
  obtain ⟨_, _, _, i4⟩ := (lG3_brInit_iff b w).1 hinit
  obtain ⟨_, _, _, _, _, _, _, _, _, y10⟩ := (lG3_brSync_iff b w).1 hsync
  constructor
  · rw [lG3_cls_upg t w sub b hw hph hr hsub hst hb hp2 hp1, hlag, hsync, hinit, hcb, i4]
    rcases hbs with h | h <;> rw [h] <;> simp
  · rw [lG3_mu_upg t w sub b hw hph hr hsub hst hb hp1, i4]
    dsimp only
    rw [if_neg (fun h => h y10)]
    rcases hbs with h | h <;> rw [h]

/-- a state of class 10 or 11 -/
theorem lG3_target1011 (t : CS) (w : CWl) (sub : Sub) (b : CBr) (hw : t.wl = some w) (hph : t.ro.phase = .progressing)
    (hr : t.ro.reason = .inRolling) (hsub : t.ro.sub = some sub) (hst : sub.state = .upgrade) (hb : t.br = some b)
    (hp2 : b.partition ≠ some (sub.curIdx - 2)) (hp1 : b.partition = some (sub.curIdx - 1))
    (hrest : b.generation = b.observedGeneration ∧ b.hasFinalizer = true ∧ b.deleting = false ∧
      b.observedRolloutID = b.rolloutID ∧ b.rolloutID = w.updateRevision ∧ b.specOther = true ∧ b.failureThreshold = none ∧
      b.st.hash = .same)
    (hinit : brInit b w = true) (hcb : b.st.currentBatch = sub.curIdx - 1) (hbs : b.st.batchState = .verifying)
    (hlow : partLow b w = true) :
    (cls t = 10 ∧ mu t = 32 + (t.ro.steps.length - sub.curIdx.toNat) * stepW + 20) ∨
    (cls t = 11 ∧ mu t = 32 + (t.ro.steps.length - sub.curIdx.toNat) * stepW + 18) := by
  obtain ⟨_, _, _, i4⟩ := (lG3_brInit_iff b w).1 hinit
  by_cases hd : b.st.updated ≠ w.updated ∨ b.st.updatedReady ≠ w.updatedReady
  · left
    have hlag : brSyncLag b w = true := (lG3_brSyncLag_iff b w).2 ⟨hd, hrest⟩
    constructor
    · rw [lG3_cls_upg t w sub b hw hph hr hsub hst hb hp2 hp1, hlag, hinit, hcb, hbs, hlow]
      simp
    · rw [lG3_mu_upg t w sub b hw hph hr hsub hst hb hp1, i4]
      dsimp only
      rw [if_neg (fun h => h hrest.2.2.2.2.2.2.2), hbs]
      dsimp only
      rw [if_pos hd]
  · right
    have hd' : b.st.updated = w.updated ∧ b.st.updatedReady = w.updatedReady := by
      constructor
      · exact Decidable.not_not.mp (fun h => hd (Or.inl h))
      · exact Decidable.not_not.mp (fun h => hd (Or.inr h))
    have hsync : brSync b w = true := (lG3_brSync_iff b w).2 ⟨hd'.1, hd'.2, hrest⟩
    have hlag : brSyncLag b w = false := by
      cases hl : brSyncLag b w with
      | false => rfl
      | true => exact absurd ((lG3_brSyncLag_iff b w).1 hl).1 hd
    constructor
    · rw [lG3_cls_upg t w sub b hw hph hr hsub hst hb hp2 hp1, hlag, hsync, hinit, hcb, hbs, hlow, i4]
      simp
    · rw [lG3_mu_upg t w sub b hw hph hr hsub hst hb hp1, i4]
      dsimp only
      rw [if_neg (fun h => h hrest.2.2.2.2.2.2.2), hbs]
      dsimp only
      rw [if_neg hd]

/-! ### the two rounds -/

theorem lG3_stepBr_eq (a : CS) (b : CBr) (w : CWl) (o : Executor.StepOut) (hb : a.br = some b) (hw : a.wl = some w)
    (hrec : Executor.reconcile (exBr b) (some (exWl w)) = .val o) : stepBr a = some (landBr a b o) := by
  unfold stepBr
  rw [hb]
  dsimp only
  rw [hw]
  dsimp only [Option.map]
  rw [hrec]

theorem lG3_fix_ne (w : CWl) (hfix : envWl w = w) (hne : w.updateRevision ≠ w.currentRevision) :
    w.updated = lG3_upd w ∧ w.updatedReady = lG3_upd w := by
  rw [lG3_envWl_ne w hne] at hfix
  exact ⟨(congrArg CWl.updated hfix).symm, (congrArg CWl.updatedReady hfix).symm⟩

theorem lG3_allowed_nonneg (w : CWl) (hp : w.paused = false) (h : wlOK w = true) : 0 ≤ lG3_allowed w := by
  obtain ⟨h2, _⟩ := wlOK_facts w h
  unfold lG3_allowed
  rw [if_neg (by rw [hp]; decide)]
  split
  · split <;> omega
  · exact h2

theorem lG3_upd_ge (w : CWl) : lG3_allowed w ≤ lG3_upd w := by
  unfold lG3_upd; split <;> omega

/-- the CloneSet controller does nothing new on a workload that has just been claimed (partition 100 %) -/
theorem lG3_env_claim (w : CWl) (G : Int) (hfix : envWl w = w) (hne : w.updateRevision ≠ w.currentRevision)
    (hp : w.paused = false) (hok : wlOK w = true) :
    (envWl { w with partition := some (.pct 100), paused := false, owner := .this, generation := G }).updated = w.updated ∧
    (envWl { w with partition := some (.pct 100), paused := false, owner := .this, generation := G }).updatedReady =
      w.updatedReady := by
  obtain ⟨f1, f2⟩ := lG3_fix_ne w hfix hne
  have h0 : 0 ≤ w.updated := by
    have := lG3_allowed_nonneg w hp hok
    have := lG3_upd_ge w
    omega
  obtain ⟨w1, hw1⟩ : ∃ w1 : CWl, w1 = { w with partition := some (.pct 100), paused := false, owner := .this, generation := G } :=
    ⟨_, rfl⟩
  rw [← hw1]
  have g1 : w1.updateRevision = w.updateRevision := by rw [hw1]
  have g2 : w1.currentRevision = w.currentRevision := by rw [hw1]
  have g3 : w1.updated = w.updated := by rw [hw1]
  have hal : lG3_allowed w1 = 0 := by
    unfold lG3_allowed
    rw [hw1]
    dsimp only
    rw [if_neg (by decide), scaled_pct100, if_neg (by omega)]
    omega
  have hu : lG3_upd w1 = w.updated := by
    unfold lG3_upd
    rw [hal, g3, if_neg (by omega)]
  rw [lG3_envWl_ne w1 (by rw [g1, g2]; exact hne)]
  dsimp only
  rw [hu]
  exact ⟨rfl, by rw [f2, ← f1]⟩

theorem lG3_landW_id (w : CWl) : landW w (exWl w) = w := by
  unfold landW exWl
  dsimp only
  rw [if_neg (by simp)]

theorem lG3_core8 (s : CS) (h : liveInv s = true) (hc : cls s = 8) (hpol : lG3_policyEmpty s = true) :
    ∃ s', round s = some s' ∧ liveInv s' = true ∧ cls s' = 9 ∧ mu s' < mu s ∧ 12 < mu s' ∧
      lG3_policyEmpty s' = true := by
  obtain ⟨w, sub, b, a, sub1, S⟩ := lG3_setup s 8 h hc (Or.inl rfl) hpol
  rcases S.h_cases with ⟨_, c1, c2, c3, c4, c5, c6, c7⟩ | ⟨x, _⟩
  rotate_left
  · omega
  obtain ⟨y1, y2, y3, y4, y5, y6, y7, y8, y9, y10⟩ := (lG3_brSync_iff b w).1 S.h_sync
  obtain ⟨_, _, _, k4, k5⟩ := (brOK_iff' b).1 S.h_brok
  obtain ⟨_, _, q3, _, q5, q6⟩ := (lG3_liveCfg_iff s w S.h_wl).1 S.h_cfg
  obtain ⟨a', hsa', hia⟩ := stepRo_fwd s S.h_inv
  have ea : a' = a := by rw [S.h_stepA] at hsa'; cases hsa'; rfl
  subst ea
  obtain ⟨st1, ew, hrec, hst1, hew⟩ := lG3_exec_preparing (exBr b) (exWl w) S.h_quiet c1 y5 k4
  have hsb := lG3_stepBr_eq a' b w _ S.h_aBr S.h_aWl hrec
  obtain ⟨bs, hsb', hib⟩ := stepBr_fwd a' hia
  rw [hsb] at hsb'
  have hround := round_eq s a' _ S.h_stepA hsb
  have ebs : landBr a' b ⟨some { Executor.withFinalizer (exBr b) with status := st1 }, some ew, true, false⟩ = bs := by
    cases hsb'; rfl
  rw [ebs] at hround
  obtain ⟨b1, hb1⟩ : ∃ b1 : CBr, b1 = stLand b { Executor.withFinalizer (exBr b) with status := st1 } := ⟨_, rfl⟩
  obtain ⟨w1, hw1⟩ : ∃ w1 : CWl, w1 = landW w ew := ⟨_, rfl⟩
  have hbsro : bs.ro = { s.ro with sub := some sub1 } := by rw [← ebs]; exact S.h_aRo
  have hbswl : bs.wl = some w1 := by
    rw [← ebs, hw1]
    show wlLand a'.wl (some ew) = _
    rw [S.h_aWl]
    rfl
  have hbsbr : bs.br = some b1 := by rw [← ebs, hb1]; rfl
  -- the workload after the claim
  have w1a : w1.replicas = w.replicas := by rw [hw1]; rfl
  have w1b : w1.updateRevision = w.updateRevision := by rw [hw1]; rfl
  have w1c : w1.paused = false := by
    rw [hw1, hew]
    show (if (exWl w).owner = .this then exWl w else _).paused = false
    split
    · exact q5
    · rfl
  have w1d : w1.owner = .this := by
    rw [hw1, hew]
    show (if (exWl w).owner = .this then exWl w else _).owner = .this
    split
    · rename_i ho; exact ho
    · rfl
  have w1e : (envWl w1).updated = w.updated ∧ (envWl w1).updatedReady = w.updatedReady := by
    by_cases ho : w.owner = .this
    · have : ew = exWl w := by rw [hew]; exact if_pos ho
      rw [hw1, this, lG3_landW_id, S.h_fix]
      exact ⟨rfl, rfl⟩
    · have : ew = { exWl w with owner := .this, paused := false, partition := some (.pct 100) } := by
        rw [hew]; exact if_neg ho
      rw [hw1, this]
      exact lG3_env_claim w _ S.h_fix c7 q5 S.h_wok
  obtain ⟨sub2, t1, t2, t3, t4, t5, t6, t7, t8, t9, t10⟩ :=
    lG3_finish s bs w w1 sub sub1 b1 S.h_cfg S.h_wl hib hbsro S.h_state1 S.h_cur1 hbswl hbsbr w1a w1b w1c
  obtain ⟨f1, _, _, f4, _⟩ := envWl_frame w1
  obtain ⟨g1, _, _, _⟩ := lG3_envWl_frame2 w1
  -- the BatchRelease after the executor's reconcile
  have b1st : b1.st = st1 := by rw [hb1]; rfl
  have s1a : st1.updated = b.st.updated := by rw [hst1]; rfl
  have s1b : st1.updatedReady = b.st.updatedReady := by rw [hst1]; rfl
  have s1c : st1.hash = b.st.hash := by rw [hst1]; rfl
  have s1d : st1.updateRevision = "wl-" ++ w.updateRevision := by rw [hst1]; rfl
  have s1e : st1.observedReplicas = w.replicas := by rw [hst1]; rfl
  have s1f : st1.phase = .progressing := by rw [hst1]
  have s1g : st1.currentBatch = b.st.currentBatch := by rw [hst1]; rfl
  have s1h : st1.batchState = b.st.batchState := by rw [hst1]; rfl
  have s1i : st1.rolloutIDSame = decide (b.observedRolloutID = b.rolloutID) := by rw [hst1]; rfl
  have hsync1 : brSync b1 (envWl w1) = true := by
    refine (lG3_brSync_iff b1 (envWl w1)).2 ⟨by rw [b1st, s1a, w1e.1]; exact y1, by rw [b1st, s1b, w1e.2]; exact y2,
      by rw [hb1]; rfl, by rw [hb1]; rfl, by rw [hb1]; exact y5, ?_, by rw [f4, w1b, hb1]; exact y7,
      by rw [hb1]; exact y8, by rw [hb1]; exact y9, by rw [b1st, s1c]; exact y10⟩
    rw [hb1]
    show (if st1.rolloutIDSame = true then b.rolloutID else b.observedRolloutID) = b.rolloutID
    rw [s1i, if_pos (decide_eq_true y6)]
  have hinit1 : brInit b1 (envWl w1) = true :=
    (lG3_brInit_iff b1 (envWl w1)).2 ⟨by rw [b1st, s1d, f4, w1b], by rw [b1st, s1e, f1, w1a], by rw [g1]; exact w1d,
      by rw [b1st]; exact s1f⟩
  have hp1' : b1.partition = some (sub2.curIdx - 1) := by rw [t8, hb1]; exact S.h_p1
  have hp2' : b1.partition ≠ some (sub2.curIdx - 2) := by rw [t8, hb1]; exact S.h_p2
  obtain ⟨hcls, hmu⟩ := lG3_target9 (roundTail bs) (envWl w1) sub2 b1 t1 (t3.trans S.h_phase) (t4.trans S.h_reason) t6 t7 t2
    hp2' hp1' hsync1 hinit1 (by rw [b1st, s1g, c3, t8, c6]; rfl) (Or.inl (by rw [b1st, s1h]; exact c2))
  have hmu0 : mu s = 32 + (s.ro.steps.length - sub.curIdx.toNat) * stepW + 26 := by
    rw [lG3_mu_upg s w sub b S.h_wl S.h_phase S.h_reason S.h_sub S.h_state S.h_br S.h_p1, c1]
  rw [t5, t8] at hmu
  refine ⟨roundTail bs, hround, ?_, hcls, by rw [hmu, hmu0]; omega, by rw [hmu]; omega, ?_⟩
  · exact (liveInv_iff _).2 ⟨tick_fwd _ (approve_fwd _ (env_fwd bs hib)), t9, by rw [hcls]; decide, Or.inr t10⟩
  · unfold lG3_policyEmpty
    rw [t2]
    dsimp only
    rw [hb1]
    show (b.policy == "") = true
    rw [S.h_pol]
    rfl

theorem lG3_partLow_intro (b1 : CBr) (w2 : CWl) (e kp : IntOrPct) (hp : w2.partition = some kp)
    (hcb : 0 ≤ b1.st.currentBatch) (he : b1.batches[b1.st.currentBatch.toNat]? = some e)
    (hle : scaledV kp w2.replicas true ≤ scaledV (RV.BatchCtx.desKnob .cloneSet w2.replicas e none) w2.replicas true) :
    partLow b1 w2 = true := by
  unfold partLow
  rw [hp, if_neg (by omega), he]
  exact decide_eq_true hle

theorem lG3_core9 (s : CS) (h : liveInv s = true) (hc : cls s = 9) (hpol : lG3_policyEmpty s = true) :
    ∃ s', round s = some s' ∧ liveInv s' = true ∧ (cls s' = 10 ∨ cls s' = 11) ∧ mu s' < mu s ∧ 12 < mu s' ∧
      lG3_policyEmpty s' = true := by
  obtain ⟨w, sub, b, a, sub1, S⟩ := lG3_setup s 9 h hc (Or.inr rfl) hpol
  rcases S.h_cases with ⟨x, _⟩ | ⟨_, c1, c2, c3, c4⟩
  · omega
  obtain ⟨y1, y2, y3, y4, y5, y6, y7, y8, y9, y10⟩ := (lG3_brSync_iff b w).1 S.h_sync
  obtain ⟨i1, i2, i3, _⟩ := (lG3_brInit_iff b w).1 c2
  obtain ⟨_, k2, _, k4, k5⟩ := (brOK_iff' b).1 S.h_brok
  obtain ⟨l1, _, _, _⟩ := (linkOK_iff' s.ro sub b).1 S.h_link
  obtain ⟨_, _, q3, _, q5, q6⟩ := (lG3_liveCfg_iff s w S.h_wl).1 S.h_cfg
  obtain ⟨e, he⟩ : ∃ e, b.batches[b.st.currentBatch.toNat]? = some e := by
    have hlen : (b.batches.length : Int) = s.ro.steps.length := by rw [l1, planOf_length]
    have := S.h_sg.hi
    have hlt : b.st.currentBatch.toNat < b.batches.length := by omega
    exact ⟨_, List.getElem?_eq_getElem hlt⟩
  obtain ⟨kp, hkp⟩ : ∃ kp, w.partition = some kp := by
    have := S.h_within
    unfold withinCur at this
    cases hp : w.partition with
    | none => rw [hp] at this; simp at this
    | some kp => exact ⟨kp, rfl⟩
  obtain ⟨a', hsa', hia⟩ := stepRo_fwd s S.h_inv
  have ea : a' = a := by rw [S.h_stepA] at hsa'; cases hsa'; rfl
  subst ea
  obtain ⟨ew, hrec, hew⟩ := lG3_exec_upgrading (exBr b) (exWl w) e S.h_quiet c1 c4 y5
    (by show w.replicas ≠ 0; omega) k2 he k5
  obtain ⟨st1, hst1⟩ : ∃ st1 : Executor.Status, st1 = { (exBr b).status with batchState := .verifying } := ⟨_, rfl⟩
  rw [← hst1] at hrec
  have hsb := lG3_stepBr_eq a' b w _ S.h_aBr S.h_aWl hrec
  obtain ⟨bs, hsb', hib⟩ := stepBr_fwd a' hia
  rw [hsb] at hsb'
  have hround := round_eq s a' _ S.h_stepA hsb
  have ebs : landBr a' b ⟨some { Executor.withFinalizer (exBr b) with status := st1 }, some ew, true, false⟩ = bs := by
    cases hsb'; rfl
  rw [ebs] at hround
  obtain ⟨b1, hb1⟩ : ∃ b1 : CBr, b1 = stLand b { Executor.withFinalizer (exBr b) with status := st1 } := ⟨_, rfl⟩
  obtain ⟨w1, hw1⟩ : ∃ w1 : CWl, w1 = landW w ew := ⟨_, rfl⟩
  have hbsro : bs.ro = { s.ro with sub := some sub1 } := by rw [← ebs]; exact S.h_aRo
  have hbswl : bs.wl = some w1 := by
    rw [← ebs, hw1]
    show wlLand a'.wl (some ew) = _
    rw [S.h_aWl]
    rfl
  have hbsbr : bs.br = some b1 := by rw [← ebs, hb1]; rfl
  -- the workload after the partition write
  have w1f : w1.replicas = w.replicas ∧ w1.updateRevision = w.updateRevision ∧ w1.paused = false ∧ w1.owner = .this ∧
      ∃ kp1, w1.partition = some kp1 ∧
        scaledV kp1 w.replicas true ≤ scaledV (RV.BatchCtx.desKnob .cloneSet w.replicas e none) w.replicas true := by
    rcases hew with ⟨hew, hle⟩ | hew
    · rw [hw1, hew, lG3_landW_id]
      refine ⟨rfl, rfl, q5, i3, kp, hkp, ?_⟩
      have : scaledV (w.partition.getD (.int 0)) w.replicas true ≤
          scaledV (RV.BatchCtx.desKnob .cloneSet w.replicas e none) w.replicas true := hle
      rw [hkp] at this
      exact this
    · rw [hw1, hew]
      exact ⟨rfl, rfl, q5, i3, _, rfl, Int.le_refl _⟩
  obtain ⟨w1a, w1b, w1c, w1d, kp1, w1p, w1le⟩ := w1f
  obtain ⟨sub2, t1, t2, t3, t4, t5, t6, t7, t8, t9, t10⟩ :=
    lG3_finish s bs w w1 sub sub1 b1 S.h_cfg S.h_wl hib hbsro S.h_state1 S.h_cur1 hbswl hbsbr w1a w1b w1c
  obtain ⟨f1, _, f3, f4, _⟩ := envWl_frame w1
  obtain ⟨g1, _, _, _⟩ := lG3_envWl_frame2 w1
  -- the BatchRelease after the executor's reconcile
  have b1st : b1.st = st1 := by rw [hb1]; rfl
  have s1c : st1.hash = b.st.hash := by rw [hst1]; rfl
  have s1d : st1.updateRevision = b.st.updateRevision := by rw [hst1]; rfl
  have s1e : st1.observedReplicas = b.st.observedReplicas := by rw [hst1]; rfl
  have s1f : st1.phase = b.st.phase := by rw [hst1]; rfl
  have s1g : st1.currentBatch = b.st.currentBatch := by rw [hst1]; rfl
  have s1h : st1.batchState = .verifying := by rw [hst1]
  have s1i : st1.rolloutIDSame = decide (b.observedRolloutID = b.rolloutID) := by rw [hst1]; rfl
  have hrest : b1.generation = b1.observedGeneration ∧ b1.hasFinalizer = true ∧ b1.deleting = false ∧
      b1.observedRolloutID = b1.rolloutID ∧ b1.rolloutID = (envWl w1).updateRevision ∧ b1.specOther = true ∧
      b1.failureThreshold = none ∧ b1.st.hash = .same := by
    refine ⟨by rw [hb1]; rfl, by rw [hb1]; rfl, by rw [hb1]; exact y5, ?_, by rw [f4, w1b, hb1]; exact y7,
      by rw [hb1]; exact y8, by rw [hb1]; exact y9, by rw [b1st, s1c]; exact y10⟩
    rw [hb1]
    show (if st1.rolloutIDSame = true then b.rolloutID else b.observedRolloutID) = b.rolloutID
    rw [s1i, if_pos (decide_eq_true y6)]
  have hinit1 : brInit b1 (envWl w1) = true :=
    (lG3_brInit_iff b1 (envWl w1)).2 ⟨by rw [b1st, s1d, f4, w1b]; exact i1, by rw [b1st, s1e, f1, w1a]; exact i2,
      by rw [g1]; exact w1d, by rw [b1st, s1f]; exact c1⟩
  have hp1' : b1.partition = some (sub2.curIdx - 1) := by rw [t8, hb1]; exact S.h_p1
  have hp2' : b1.partition ≠ some (sub2.curIdx - 2) := by rw [t8, hb1]; exact S.h_p2
  have hlow : partLow b1 (envWl w1) = true := by
    refine lG3_partLow_intro b1 (envWl w1) e kp1 (by rw [f3]; exact w1p) (by rw [b1st, s1g]; exact k2) ?_
      (by rw [f1, w1a]; exact w1le)
    rw [b1st, s1g, hb1]
    exact he
  have htgt := lG3_target1011 (roundTail bs) (envWl w1) sub2 b1 t1 (t3.trans S.h_phase) (t4.trans S.h_reason) t6 t7 t2
    hp2' hp1' hrest hinit1 (by rw [b1st, s1g, t8]; exact c3) (by rw [b1st]; exact s1h) hlow
  obtain ⟨_, hmu0⟩ := lG3_target9 s w sub b S.h_wl S.h_phase S.h_reason S.h_sub S.h_state S.h_br S.h_p2 S.h_p1 S.h_sync c2 c3 c4
  rw [t5, t8] at htgt
  have hpe : lG3_policyEmpty (roundTail bs) = true := by
    unfold lG3_policyEmpty
    rw [t2]
    dsimp only
    rw [hb1]
    show (b.policy == "") = true
    rw [S.h_pol]
    rfl
  have hfw : fwdInv (roundTail bs) = true := tick_fwd _ (approve_fwd _ (env_fwd bs hib))
  rcases htgt with ⟨hcls, hmu⟩ | ⟨hcls, hmu⟩
  · exact ⟨roundTail bs, hround, (liveInv_iff _).2 ⟨hfw, t9, by rw [hcls]; decide, Or.inr t10⟩, Or.inl hcls,
      by rw [hmu, hmu0]; omega, by rw [hmu]; omega, hpe⟩
  · exact ⟨roundTail bs, hround, (liveInv_iff _).2 ⟨hfw, t9, by rw [hcls]; decide, Or.inr t10⟩, Or.inr hcls,
      by rw [hmu, hmu0]; omega, by rw [hmu]; omega, hpe⟩

/-! ### the theorems

  `round_cls_8` and `round_cls_9` are false without a fact about the BatchRelease's policy: `cls` (through `brSync`) does not
  constrain `b.policy`.  With a policy other than `""` the Rollout reconcile finds `brSpecEq` false, rewrites the BatchRelease
  (generation bumped, plan hash `differs`) and the executor re-calculates: from class 8 the round ends outside every class, from
  class 9 it ends in class 9 again with the same measure.  Witnesses `lG3_cex8`, `lG3_cex9` below (states of a real walk with
  only the policy changed; they satisfy `liveInv` but not `polInv`), evaluated by the `#eval`s.

  The fact is supplied by the carried invariant `polInv` (in classes 8, 9 the measure is above 32): `round_cls_8`, `round_cls_9`,
  `done_cls_8`, `done_cls_9` take `(hp : polInv s = true)`; `pol_cls_8`, `pol_cls_9` carry it on.
-/

def lG3_cexRo : Rollout :=
  { style := .canary, steps := [⟨.pct 20, none, .manual⟩, ⟨.pct 100, none, .short⟩], paused := false, disabled := false,
    deleting := false, hasFinalizer := true, hasTraffic := false, disableGen := false, rollbackInBatch := false, grace := 3,
    phase := .progressing, reason := .inRolling, condAge := .elapsed, succeeded := none, term := .none,
    sub := some { curIdx := 1, nextIdx := 2, state := .upgrade, finStep := .empty, canaryRev := "v2", stableRev := "v1",
                  podHash := "v2", hash := .same, observedRolloutID := "v2", observedGen := 2, lastUpdate := .elapsed },
    realPartition := true }

def lG3_cexNet : Net := { stableExists := true, stableSel := none, canarySvc := none, stableIngress := true, canaryIng := none }

/-- class 8 with `policy := "WaitResume"` -/
def lG3_cex8 : CS :=
  { gone := false, ro := lG3_cexRo,
    wl := some { replicas := 10, generation := 2, observedGeneration := 2, statusReplicas := 10, updated := 0, updatedReady := 0,
                 updateRevision := "v2", currentRevision := "v1", partition := some (.pct 100), paused := false, owner := .none,
                 inProgressAnno := true },
    br := some { batches := [.pct 20, .pct 100], partition := some 0, rolloutID := "v2", policy := "WaitResume",
                 rollbackAnno := false, specOther := true, failureThreshold := none, deleting := false, hasFinalizer := true,
                 generation := 1, observedGeneration := 1, observedRolloutID := "v2",
                 st := { phase := .preparing, currentBatch := 0, batchState := .empty, hasReadyTime := false, hash := .same,
                         rolloutIDSame := true, observedReplicas := -1, updateRevision := "", stableRevision := "",
                         noNeedUpdate := none, updated := 0, updatedReady := 0 } },
    net := lG3_cexNet, mem := Mem.empty }

/-- class 9 with `policy := "WaitResume"` -/
def lG3_cex9 : CS :=
  { gone := false, ro := lG3_cexRo,
    wl := some { replicas := 10, generation := 2, observedGeneration := 2, statusReplicas := 10, updated := 0, updatedReady := 0,
                 updateRevision := "v2", currentRevision := "v1", partition := some (.pct 100), paused := false, owner := .this,
                 inProgressAnno := true },
    br := some { batches := [.pct 20, .pct 100], partition := some 0, rolloutID := "v2", policy := "WaitResume",
                 rollbackAnno := false, specOther := true, failureThreshold := none, deleting := false, hasFinalizer := true,
                 generation := 1, observedGeneration := 1, observedRolloutID := "v2",
                 st := { phase := .progressing, currentBatch := 0, batchState := .empty, hasReadyTime := false, hash := .same,
                         rolloutIDSame := true, observedReplicas := 10, updateRevision := "wl-v2", stableRevision := "wl-v1",
                         noNeedUpdate := none, updated := 0, updatedReady := 0 } },
    net := lG3_cexNet, mem := Mem.empty }

-- (class, liveInv, polInv, mu) of the state, then (class, liveInv, mu) of its successor:
-- (8, true, false, 122) ↦ (0, false, 121); (9, true, false, 118) ↦ (9, true, 118)
#eval (cls lG3_cex8, liveInv lG3_cex8, polInv lG3_cex8, mu lG3_cex8, (round lG3_cex8).map fun s' => (cls s', liveInv s', mu s'))
#eval (cls lG3_cex9, liveInv lG3_cex9, polInv lG3_cex9, mu lG3_cex9, (round lG3_cex9).map fun s' => (cls s', liveInv s', mu s'))

/-- in classes 8 and 9 the measure is above 32, so the carried invariant `polInv` gives the policy fact -/
theorem lG3_pol_of_polInv (s : CS) (k : Nat) (hk : cls s = k) (hc : k = 8 ∨ k = 9) (hp : polInv s = true) :
    lG3_policyEmpty s = true := by
  obtain ⟨w, sub, b, hw, hph, hr, hsub, hst, hb, _, hp1, _, _⟩ := lG3_cls_89 s k hk hc
  have hmu : 32 < mu s := by
    rw [lG3_mu_upg s w sub b hw hph hr hsub hst hb hp1]
    (repeat' split) <;> omega
  unfold polInv at hp
  unfold lG3_policyEmpty
  rw [hb] at hp ⊢
  dsimp only at hp ⊢
  simp only [Bool.or_eq_true, decide_eq_true_eq] at hp
  rcases hp with hp | hp
  · omega
  · exact hp

theorem lG3_polInv_of_pol (s : CS) (h : lG3_policyEmpty s = true) : polInv s = true := by
  unfold lG3_policyEmpty at h
  unfold polInv
  split
  · rename_i b hb
    rw [hb] at h
    dsimp only at h
    rw [h]
    exact Bool.or_true _
  · rfl

theorem round_cls_8 (s : CS) (h : liveInv s = true) (hp : polInv s = true) (hc : cls s = 8) :
    ∃ s', round s = some s' ∧ liveInv s' = true ∧ mu s' < mu s := by
  obtain ⟨s', h1, h2, _, h4, _⟩ := lG3_core8 s h hc (lG3_pol_of_polInv s 8 hc (Or.inl rfl) hp)
  exact ⟨s', h1, h2, h4⟩

theorem round_cls_9 (s : CS) (h : liveInv s = true) (hp : polInv s = true) (hc : cls s = 9) :
    ∃ s', round s = some s' ∧ liveInv s' = true ∧ mu s' < mu s := by
  obtain ⟨s', h1, h2, _, h4, _⟩ := lG3_core9 s h hc (lG3_pol_of_polInv s 9 hc (Or.inr rfl) hp)
  exact ⟨s', h1, h2, h4⟩

/-- the successor of class 8 is class 9 -/
theorem lG3_succ8 (s : CS) (h : liveInv s = true) (hp : polInv s = true) (hc : cls s = 8) :
    ∃ s', round s = some s' ∧ cls s' = 9 := by
  obtain ⟨s', h1, _, h3, _⟩ := lG3_core8 s h hc (lG3_pol_of_polInv s 8 hc (Or.inl rfl) hp)
  exact ⟨s', h1, h3⟩

/-- the successor of class 9 is class 10 or 11 -/
theorem lG3_succ9 (s : CS) (h : liveInv s = true) (hp : polInv s = true) (hc : cls s = 9) :
    ∃ s', round s = some s' ∧ (cls s' = 10 ∨ cls s' = 11) := by
  obtain ⟨s', h1, _, h3, _⟩ := lG3_core9 s h hc (lG3_pol_of_polInv s 9 hc (Or.inr rfl) hp)
  exact ⟨s', h1, h3⟩

theorem lG3_done_of_mu (s' : CS) (h : 12 < mu s') : doneInv s' = true := by
  unfold doneInv
  split
  · rfl
  · simp only [Bool.and_eq_true, Bool.or_eq_true, decide_eq_true_eq]
    exact ⟨Or.inl h, Or.inl (by omega)⟩

/-- (the hypothesis `doneInv s` is not needed: the successor is still rolling) -/
theorem done_cls_8 (s : CS) (h : liveInv s = true) (_hd : doneInv s = true) (hp : polInv s = true) (hc : cls s = 8) :
    ∀ s', round s = some s' → doneInv s' = true := by
  intro s' hr
  obtain ⟨s'', h1, _, _, _, h5, _⟩ := lG3_core8 s h hc (lG3_pol_of_polInv s 8 hc (Or.inl rfl) hp)
  rw [h1] at hr
  cases hr
  exact lG3_done_of_mu _ h5

theorem done_cls_9 (s : CS) (h : liveInv s = true) (_hd : doneInv s = true) (hp : polInv s = true) (hc : cls s = 9) :
    ∀ s', round s = some s' → doneInv s' = true := by
  intro s' hr
  obtain ⟨s'', h1, _, _, _, h5, _⟩ := lG3_core9 s h hc (lG3_pol_of_polInv s 9 hc (Or.inr rfl) hp)
  rw [h1] at hr
  cases hr
  exact lG3_done_of_mu _ h5

theorem pol_cls_8 (s : CS) (h : liveInv s = true) (hp : polInv s = true) (hc : cls s = 8) :
    ∀ s', round s = some s' → polInv s' = true := by
  intro s' hr
  obtain ⟨s'', h1, _, _, _, _, h6⟩ := lG3_core8 s h hc (lG3_pol_of_polInv s 8 hc (Or.inl rfl) hp)
  rw [h1] at hr
  cases hr
  exact lG3_polInv_of_pol _ h6

theorem pol_cls_9 (s : CS) (h : liveInv s = true) (hp : polInv s = true) (hc : cls s = 9) :
    ∀ s', round s = some s' → polInv s' = true := by
  intro s' hr
  obtain ⟨s'', h1, _, _, _, _, h6⟩ := lG3_core9 s h hc (lG3_pol_of_polInv s 9 hc (Or.inr rfl) hp)
  rw [h1] at hr
  cases hr
  exact lG3_polInv_of_pol _ h6

end RV.Lemmas.ClosedLoop
