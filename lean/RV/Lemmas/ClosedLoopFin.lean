/-
  One Rollout reconcile of a rollout that is cleaning up after a successful release (Progressing / Finalising,
  readable workload): the clean-up invariant of `RV.Props.Cluster` is carried across the whole reconcile; the
  reconcile reports Completed only when the BatchRelease is gone.
-/
import RV.Lemmas.ClosedLoopDefs
namespace RV.Lemmas.ClosedLoop
open RV.Arith RV.Traffic RV.RolloutSM RV.Props.Reconcile RV.Props.Rollout RV.Oracle.Cluster

theorem finalising_step (w : World) (wl : WL) (s : Sub)
    (hg : RoGood w.ro) (hph : w.ro.phase = .progressing) (hr : w.ro.reason = .finalising)
    (hwl : w.wl = some wl) (hc : wl.consistent = true) (hs : w.ro.sub = some s)
    (hcur : cursorOk (taskList w.ro.style .success) s.finStep = true)
    (hinv : finInv .success w.ro s.finStep w.br w.net = true) :
    ∃ r, reconcile w = .val r ∧ r.roGone = false ∧ SpecKept w.ro r.w.ro ∧ r.w.ro.phase = .progressing ∧
      r.w.wl = some { wl with inProgressAnno := false } ∧ BrFin w.br r.w.br ∧
      ((r.w.ro.reason = .finalising ∧ ∃ s', r.w.ro.sub = some s' ∧
          cursorOk (taskList r.w.ro.style .success) s'.finStep = true ∧
          finInv .success r.w.ro s'.finStep r.w.br r.w.net = true) ∨
       (r.w.ro.reason = .completed ∧ r.w.br = none)) := by
  sorry

end RV.Lemmas.ClosedLoop
