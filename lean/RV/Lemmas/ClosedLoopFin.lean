/-
  One Rollout reconcile of a rollout that is cleaning up after a successful release (Progressing / Finalising,
  readable workload): the clean-up invariant of `RV.Props.Cluster` is carried across the whole reconcile; the
  reconcile reports Completed only when the BatchRelease is gone.
-/
import RV.Lemmas.ClosedLoopRoll
namespace RV.Lemmas.ClosedLoop
open RV.Arith RV.Traffic RV.RolloutSM RV.Props.Reconcile RV.Props.Rollout RV.Oracle.Cluster RV.Props.Cluster

/-! ### small frames -/

/-- the clean-up invariant reads the rollout only through its style and its two traffic flags -/
theorem finInv_congr (reason : Reason) (ro ro' : Rollout) (cur : FinStep) (br : Option BR) (n : Net)
    (h1 : ro'.style = ro.style) (h2 : ro'.hasTraffic = ro.hasTraffic) (h3 : ro'.disableGen = ro.disableGen) :
    finInv reason ro' cur br n = finInv reason ro cur br n := by
  unfold finInv
  rw [h1]
  congr 1
  funext t
  cases t <;> simp only [post, h2, h3]

/-- removing an annotation that is not there changes nothing -/
theorem wl_anno_false (wl : WL) (h : wl.inProgressAnno = false) : { wl with inProgressAnno := false } = wl := by
  cases wl
  simp_all

theorem stripAnno_wl (c : Ctx) : (stripAnno c).wl = { c.wl with inProgressAnno := false } := by
  unfold stripAnno
  split
  · rfl
  · rename_i hn
    exact (wl_anno_false c.wl (by simpa using hn)).symm

theorem startCursor_wl (c : Ctx) (nx : FinStep) : (startCursor c nx).wl = c.wl := by
  unfold startCursor; split <;> rfl

/-- one clean-up task: the BatchRelease is left alone, resumed, or deleted; the workload is not written -/
theorem finTask_brfin (c c' : Ctx) (wr rt e : Bool) (h : finTask c wr = some (c', rt, e)) :
    BrFin c.br c'.br ∧ c'.wl = c.wl := by
  unfold finTask at h
  split at h
  · simp only [Option.some.injEq, Prod.mk.injEq] at h
    obtain ⟨hc, _, _⟩ := h
    subst hc
    refine ⟨?_, rfl⟩
    dsimp only
    unfold finalizingBatchRelease
    cases hb : c.br with
    | none => exact BrFin.same _
    | some b =>
      dsimp only
      split
      · exact BrFin.same _
      · split
        · exact BrFin.same _
        · apply BrFin.changed <;> first | rfl | exact Or.inl rfl | exact Or.inr rfl
  · simp only [Option.some.injEq, Prod.mk.injEq] at h
    obtain ⟨hc, _, _⟩ := h
    subst hc
    refine ⟨?_, rfl⟩
    dsimp only
    unfold removeBatchRelease
    cases hb : c.br with
    | none => exact BrFin.same _
    | some b =>
      dsimp only
      split
      · exact BrFin.same _
      · apply BrFin.changed <;> first | rfl | exact Or.inl rfl | exact Or.inr rfl
  · obtain ⟨_, _, _, _, hw, hb, _⟩ := callTM_sub _ _ _ _ _ _ h
    exact ⟨by rw [hb]; exact BrFin.same _, hw⟩
  · obtain ⟨_, _, _, _, hw, hb, _⟩ := callTM_sub _ _ _ _ _ _ h
    exact ⟨by rw [hb]; exact BrFin.same _, hw⟩
  · obtain ⟨_, _, _, _, hw, hb, _⟩ := callTM_sub _ _ _ _ _ _ h
    exact ⟨by rw [hb]; exact BrFin.same _, hw⟩
  · obtain ⟨_, _, _, _, hw, hb, _⟩ := callTM_sub _ _ _ _ _ _ h
    exact ⟨by rw [hb]; exact BrFin.same _, hw⟩
  · simp only [Option.some.injEq, Prod.mk.injEq] at h
    obtain ⟨hc, _, _⟩ := h
    subst hc
    exact ⟨BrFin.same _, rfl⟩

/-- one clean-up round of a canary rollout (any exit reason, whether the task completes, retries or fails):
    nothing the rollout removed comes back, the BatchRelease is left alone / resumed / deleted, and the workload
    only loses its in-progress annotation -/
theorem doFinalising_canary (c c' : Ctx) (reason : Reason) (wr d e : Bool) (hst : c.ro.style = .canary)
    (h : doFinalising c reason wr = some (c', d, e)) :
    NetLE c.net c'.net ∧ BrLE c.br c'.br ∧ BrFin c.br c'.br ∧ c'.wl = { c.wl with inProgressAnno := false } := by
  obtain ⟨hs, hr⟩ := stripAnno_frame c
  obtain ⟨hb0, hn0, _, _⟩ := stripAnno_frame' c
  have hw0 := stripAnno_wl c
  unfold doFinalising at h
  dsimp only at h
  rw [hs, hr] at h
  split at h
  · cases h
  · split at h
    · simp only [Option.some.injEq, Prod.mk.injEq] at h
      obtain ⟨hc, _, _⟩ := h
      subst hc
      rw [hb0, hn0]
      exact ⟨NetLE.refl _, BrLE.refl _, BrFin.same _, hw0⟩
    · generalize hnx : nextTask (taskList c.ro.style reason) c.sub.finStep = nx at h
      obtain ⟨sb, sn, _, sr⟩ := startCursor_frame (stripAnno c) nx
      have swl : (startCursor (stripAnno c) nx).wl = (stripAnno c).wl := startCursor_wl _ _
      split at h
      · simp only [Option.some.injEq, Prod.mk.injEq] at h
        obtain ⟨hc, _, _⟩ := h
        subst hc
        dsimp only
        rw [sb, sn, swl, hb0, hn0]
        exact ⟨NetLE.refl _, BrLE.refl _, BrFin.same _, hw0⟩
      · rename_i hknown
        rw [sr, hr] at hknown
        simp only [Bool.not_eq_true, Bool.not_eq_false] at hknown
        have hne : (startCursor (stripAnno c) nx).sub.finStep ≠ .routeTrafficToNew := by
          intro heq
          rw [heq, hst] at hknown
          simp [finKnown] at hknown
        split at h
        · cases h
        · rename_i cr retry er hrun
          obtain ⟨l1, l2, _⟩ := finTask_le _ _ _ _ _ hne hrun
          obtain ⟨f1, f2⟩ := finTask_brfin _ _ _ _ _ hrun
          rw [sn, hn0] at l1
          rw [sb, hb0] at l2 f1
          rw [swl, hw0] at f2
          split at h
          · simp only [Option.some.injEq, Prod.mk.injEq] at h
            obtain ⟨hc, _, _⟩ := h
            subst hc
            exact ⟨l1, l2, f1, f2⟩
          · simp only [Option.some.injEq, Prod.mk.injEq] at h
            obtain ⟨hc, _, _⟩ := h
            subst hc
            exact ⟨l1, l2, f1, f2⟩

/-! ### the status calculation of a good rollout -/

theorem csObserve_facts (ro : Rollout) (wl : WL) (s : Sub) (hs : ro.sub = some s) :
    (csObserve ro wl).hasFinalizer = ro.hasFinalizer ∧ (csObserve ro wl).phase = ro.phase ∧
    (csObserve ro wl).reason = ro.reason ∧ ∃ s1, (csObserve ro wl).sub = some s1 ∧ s1.finStep = s.finStep := by
  unfold csObserve
  split
  · rename_i s0 hs0
    have : s0 = s := by rw [hs] at hs0; cases hs0; rfl
    subst this
    split
    · exact ⟨rfl, rfl, rfl, _, rfl, rfl⟩
    · exact ⟨rfl, rfl, rfl, s0, hs, rfl⟩
  · rename_i hn; rw [hs] at hn; cases hn

/-- how the reconcile of a Progressing / Finalising rollout is computed from the result of `finalise` -/
theorem reconcile_finalising_eq (w : World) (wl : WL) (ns : Rollout) (w' : World) (d e : Bool) (ws : List String)
    (hhf : handleFinalizer w.ro = (w.ro, false, [])) (hcs : calculateStatus w.ro (some wl) = some ns)
    (hph : w.ro.phase = .progressing) (hr : w.ro.reason = .finalising) (hwl : w.wl = some wl) (hc : wl.consistent = true)
    (hfz : finalise w ns (some wl) .success true = some (w', d, e, ws))
    (hdel : w.ro.deleting = false) (hdis : w.ro.disabled = false) :
    reconcile w =
      if e then .val { w := { w' with ro := w.ro }, roGone := false, requeue := false, err := true, writes := [] ++ ws }
      else if d then .val { w := { w' with ro := { w'.ro with reason := .completed, succeeded := some true } }, roGone := false,
                            requeue := false, err := false, writes := [] ++ ws }
      else .val { w := w', roGone := false, requeue := true, err := false, writes := [] ++ ws } := by
  rw [reconcile_eq_core_of_alive w hdel hdis]
  unfold reconcileCore
  dsimp only
  rw [hhf]
  dsimp only
  rw [hwl, hcs]
  dsimp only
  rw [hph]
  dsimp only
  rw [if_neg (by simp [hc]), hr]
  dsimp only
  rw [hfz]

theorem finalising_step (w : World) (wl : WL) (s : Sub)
    (hg : RoGood w.ro) (hph : w.ro.phase = .progressing) (hr : w.ro.reason = .finalising)
    (hwl : w.wl = some wl) (hc : wl.consistent = true) (hs : w.ro.sub = some s)
    (hcur : cursorOk (taskList w.ro.style .success) s.finStep = true)
    (hinv : finInv .success w.ro s.finStep w.br w.net = true) :
    ∃ r, reconcile w = .val r ∧ r.roGone = false ∧ SpecKept w.ro r.w.ro ∧ r.w.ro.phase = .progressing ∧
      r.w.wl = some { wl with inProgressAnno := false } ∧ BrFin w.br r.w.br ∧
      ((r.w.ro.reason = .finalising ∧ ∃ s', r.w.ro.sub = some s' ∧
          cursorOk (taskList r.w.ro.style .success) s'.finStep = true ∧
          finInv .success r.w.ro s'.finStep r.w.br r.w.net = true) ∨
       (r.w.ro.reason = .completed ∧ r.w.br = none)) := by
  have hhf := hf_good w.ro hg
  have hcs := cs_good w.ro wl hg hph hc
  have hsame := (csObserve_same w.ro wl).1
  obtain ⟨hfin, hphase, hreason, s1, hs1, hs1f⟩ := csObserve_facts w.ro wl s hs
  generalize csObserve w.ro wl = ns at hcs hsame hfin hphase hreason hs1
  have hsteps : ns.steps ≠ [] := by rw [hsame.1]; exact hg.steps
  have hstyle : ns.style = .canary := by rw [hsame.2.2.1]; exact hg.canary
  cases hd : doFinalising (toCtx { w with ro := ns } s1 wl) .success true with
  | none => exact absurd hd (doFinalising_total _ _ _ (by unfold toCtx; exact hsteps))
  | some x =>
    obtain ⟨c', d, e⟩ := x
    have hfz : finalise w ns (some wl) .success true = some (ofCtx w c' ns, d, e, c'.writes) := by
      unfold finalise
      rw [hs1]
      dsimp only
      rw [if_neg (by simp [hc]), hd]
    have hrec := reconcile_finalising_eq w wl ns _ d e _ hhf hcs hph hr hwl hc hfz hg.notDeleting hg.enabled
    -- the invariant across the round
    have hinv0 : finInv .success ns s1.finStep w.br w.net = true := by
      rw [hs1f, finInv_congr .success w.ro ns s.finStep w.br w.net hsame.2.2.1 hsame.2.1 hsame.2.2.2.2.2.1]
      exact hinv
    have hcur0 : cursorOk (taskList ns.style .success) s1.finStep = true := by
      rw [hs1f, hsame.2.2.1]; exact hcur
    obtain ⟨hro', hcur', hinv'⟩ := doFinalising_inv_partial (toCtx { w with ro := ns } s1 wl) c' .success true d e rfl hcur0 hinv0 hd
    obtain ⟨hnle, hble, hbfin, hwl'⟩ := doFinalising_canary (toCtx { w with ro := ns } s1 wl) c' .success true d e hstyle hd
    have hro'' : c'.ro = ns := hro'
    have hcur'' : cursorOk (taskList ns.style .success) c'.sub.finStep = true := hcur'
    have hnle' : NetLE w.net c'.net := hnle
    have hble' : BrLE w.br c'.br := hble
    have hbfin' : BrFin w.br c'.br := hbfin
    have hwl'' : c'.wl = { wl with inProgressAnno := false } := hwl'
    rw [hro''] at hinv'
    cases e with
    | true =>
      -- the task failed: the status is not written, the old cursor's invariant survives the round's writes
      rw [if_pos rfl] at hrec
      refine ⟨_, hrec, rfl, ⟨Same.rfl' _, rfl⟩, hph, ?_, hbfin', Or.inl ⟨hr, s, hs, hcur, ?_⟩⟩
      · show some c'.wl = _
        rw [hwl'']
      · exact finInv_mono _ _ _ _ _ _ _ hnle' hble' hinv
    | false =>
      rw [if_neg (by simp)] at hrec
      cases d with
      | true =>
        rw [if_pos rfl] at hrec
        have hend := ((doFinalising_cursor _ _ _ _ _ _ hd).1 rfl).1
        rw [hend] at hinv'
        have hnone := (end_means_clean _ _ _ _ hinv').1
        refine ⟨_, hrec, rfl, ⟨hsame, hfin⟩, hphase.trans hph, ?_, hbfin', Or.inr ⟨rfl, hnone⟩⟩
        show some c'.wl = _
        rw [hwl'']
      | false =>
        rw [if_neg (by simp)] at hrec
        refine ⟨_, hrec, rfl, ⟨hsame, hfin⟩, hphase.trans hph, ?_, hbfin', Or.inl ⟨hreason.trans hr, c'.sub, rfl, hcur'', ?_⟩⟩
        · show some c'.wl = _
          rw [hwl'']
        · show finInv .success { ns with sub := some c'.sub } c'.sub.finStep c'.br c'.net = true
          rw [finInv_congr .success ns { ns with sub := some c'.sub } _ _ _ rfl rfl rfl]
          exact hinv'

end RV.Lemmas.ClosedLoop
