/-
  The labels of the environment and the user: workload controller progress, approval, clock, crash, and a new
  release accepted while the rollout is idle, all preserve the forward-rollout invariant.
-/
import RV.Lemmas.ClosedLoop
import RV.Lemmas.ClosedLoopArith
namespace RV.Lemmas.ClosedLoop
open RV.Arith RV.Traffic RV.RolloutSM RV.ClosedLoop RV.Oracle.ClosedLoop RV.Oracle.Batch

/-! ### what the phase-dependent part reads -/

/-- of the sub-status the invariant reads the two indices, whether a time stamp is there, the plan hash, the
    canary revision and the clean-up cursor -/
def SubSame (a b : Sub) : Prop :=
  b.curIdx = a.curIdx ∧ b.nextIdx = a.nextIdx ∧ (b.lastUpdate != Age.none) = (a.lastUpdate != Age.none) ∧
  b.hash = a.hash ∧ b.canaryRev = a.canaryRev ∧ b.finStep = a.finStep

theorem subOK_congr (ro ro' : Rollout) (a b : Sub) (w : CWl) (hst : ro'.steps = ro.steps) (hs : SubSame a b) :
    subOK ro' b w = subOK ro a w := by
  obtain ⟨h1, h2, h3, h4, h5, h6⟩ := hs
  unfold subOK
  rw [hst, h1, h2, h3, h4, h5, h6]

theorem linkOKo_congr (ro ro' : Rollout) (a b : Sub) (br : Option CBr) (hst : ro'.steps = ro.steps) (hs : SubSame a b) :
    linkOKo ro' b br = linkOKo ro a br := by
  obtain ⟨h1, _⟩ := hs
  unfold linkOKo linkOK planOf
  rw [hst, h1]

theorem withinCur_congr (ro ro' : Rollout) (a b : Sub) (w : CWl) (hst : ro'.steps = ro.steps) (hs : SubSame a b) :
    withinCur ro' b w = withinCur ro a w := by
  obtain ⟨h1, _⟩ := hs
  unfold withinCur planOf
  rw [hst, h1]

/-- the phase-dependent part reads the rollout through its phase, reason, plan, style, traffic flags and the
    fields of the sub-status listed in `SubSame`; it reads neither the workload of the state nor the memory -/
theorem phaseInv_congr (s s' : CS) (w : CWl)
    (hph : s'.ro.phase = s.ro.phase) (hr : s'.ro.reason = s.ro.reason) (hbr : s'.br = s.br) (hnet : s'.net = s.net)
    (hst : s'.ro.steps = s.ro.steps) (hsty : s'.ro.style = s.ro.style) (htr : s'.ro.hasTraffic = s.ro.hasTraffic)
    (hdg : s'.ro.disableGen = s.ro.disableGen)
    (hsub : ∀ sub, s.ro.sub = some sub → ∃ sub', s'.ro.sub = some sub' ∧ SubSame sub sub')
    (h : phaseInv s w = true) : phaseInv s' w = true := by
  cases hp : s.ro.phase with
  | healthy =>
    rw [phaseInv_healthy s w hp] at h
    rw [phaseInv_healthy s' w (hph.trans hp), hbr]; exact h
  | progressing =>
    cases hre : s.ro.reason with
    | initializing =>
      rw [phaseInv_init s w hp hre] at h
      rw [phaseInv_init s' w (hph.trans hp) (hr.trans hre), hbr]; exact h
    | inRolling =>
      cases hs : s.ro.sub with
      | none => unfold phaseInv at h; rw [hp, hre] at h; dsimp only at h; rw [hs] at h; cases h
      | some sub =>
        obtain ⟨sub', hs', hsame⟩ := hsub sub hs
        rw [phaseInv_rolling s w sub hp hre hs] at h
        rw [phaseInv_rolling s' w sub' (hph.trans hp) (hr.trans hre) hs', hbr,
          subOK_congr s.ro s'.ro sub sub' w hst hsame, linkOKo_congr s.ro s'.ro sub sub' s.br hst hsame,
          withinCur_congr s.ro s'.ro sub sub' w hst hsame]
        exact h
    | finalising =>
      cases hs : s.ro.sub with
      | none => unfold phaseInv at h; rw [hp, hre] at h; dsimp only at h; rw [hs] at h; cases h
      | some sub =>
        obtain ⟨sub', hs', hsame⟩ := hsub sub hs
        rw [phaseInv_fin s w sub hp hre hs] at h
        rw [phaseInv_fin s' w sub' (hph.trans hp) (hr.trans hre) hs', hbr, hnet, hsty, hsame.2.2.2.2.2,
          finInv_congr .success s.ro s'.ro sub.finStep _ _ hsty htr hdg]
        exact h
    | completed =>
      rw [phaseInv_completed s w hp hre] at h
      rw [phaseInv_completed s' w (hph.trans hp) (hr.trans hre), hbr]; exact h
    | none => unfold phaseInv at h; rw [hp, hre] at h; cases h
    | paused => unfold phaseInv at h; rw [hp, hre] at h; cases h
    | cancelling => unfold phaseInv at h; rw [hp, hre] at h; cases h
    | other => unfold phaseInv at h; rw [hp, hre] at h; cases h
  | empty => unfold phaseInv at h; rw [hp] at h; cases h
  | initial => unfold phaseInv at h; rw [hp] at h; cases h
  | terminating => unfold phaseInv at h; rw [hp] at h; cases h
  | disabled => unfold phaseInv at h; rw [hp] at h; cases h
  | disabling => unfold phaseInv at h; rw [hp] at h; cases h

/-- of the workload the phase-dependent part reads the annotation, the partition, the update revision and the size -/
theorem phaseInv_wl (s : CS) (w w' : CWl) (h1 : w'.inProgressAnno = w.inProgressAnno) (h2 : w'.partition = w.partition)
    (h3 : w'.updateRevision = w.updateRevision) (h4 : w'.replicas = w.replicas) : phaseInv s w' = phaseInv s w := by
  unfold phaseInv held subOK withinCur
  rw [h1, h2, h3, h4]

/-! ### the workload controller -/

theorem envWl_frame (w : CWl) :
    (envWl w).replicas = w.replicas ∧ (envWl w).statusReplicas = w.replicas ∧ (envWl w).partition = w.partition ∧
    (envWl w).updateRevision = w.updateRevision ∧ (envWl w).inProgressAnno = w.inProgressAnno := by
  unfold envWl
  dsimp only
  split <;> exact ⟨rfl, rfl, rfl, rfl, rfl⟩

theorem envWl_updated (w : CWl) (h2 : 0 ≤ w.replicas) (h3 : w.updated ≤ w.replicas)
    (h5 : ∀ k, w.partition = some k → 0 ≤ scaledV k w.replicas true) :
    (envWl w).updated ≤ w.replicas ∧
    ((envWl w).updateRevision ≠ (envWl w).currentRevision ∨ (envWl w).updated = w.replicas) := by
  unfold envWl
  dsimp only
  by_cases hne : w.updateRevision = w.currentRevision
  · rw [if_neg (by simp [hne])]
    dsimp only
    exact ⟨Int.le_refl _, Or.inr rfl⟩
  · rw [if_pos hne]
    dsimp only
    generalize hal : (if w.paused = true then w.updated
        else match w.partition with
          | some p => w.replicas - (if scaledV p w.replicas true > w.replicas then w.replicas else scaledV p w.replicas true)
          | none => w.replicas) = allowed
    have hle : allowed ≤ w.replicas := by
      subst hal
      split
      · exact h3
      · split
        · rename_i p hp
          have := h5 p hp
          split <;> omega
        · exact Int.le_refl _
    generalize hu : (if w.updated < allowed then allowed else w.updated) = upd
    have hule : upd ≤ w.replicas := by
      subst hu; split <;> omega
    refine ⟨hule, ?_⟩
    by_cases hge : upd ≥ w.replicas
    · right; omega
    · left; rw [if_neg hge]; exact hne

theorem envWl_ok (w : CWl) (h : wlOK w = true) : wlOK (envWl w) = true := by
  obtain ⟨f1, f2, f3, f4, _⟩ := envWl_frame w
  unfold wlOK at h
  simp only [Bool.and_eq_true, Bool.or_eq_true, decide_eq_true_eq, beq_iff_eq, bne_iff_ne] at h
  obtain ⟨⟨⟨⟨h1, h2⟩, h3⟩, h4⟩, h5⟩ := h
  have h5' : ∀ k, w.partition = some k → 0 ≤ scaledV k w.replicas true := by
    intro k hk; rw [hk] at h5; simpa using h5
  obtain ⟨k1, k2⟩ := envWl_updated w h2 h3 h5'
  unfold wlOK
  rw [f1, f2, f3]
  simp only [Bool.and_eq_true, Bool.or_eq_true, decide_eq_true_eq, beq_iff_eq, bne_iff_ne]
  exact ⟨⟨⟨⟨trivial, h2⟩, k1⟩, k2⟩, h5⟩

theorem env_fwd (s : CS) (h : fwdInv s = true) : fwdInv { s with wl := s.wl.map envWl } = true := by
  obtain ⟨hro, w, hw, hwok, hmono, hbr, hpi⟩ := (fwdInv_iff s).1 h
  obtain ⟨hgone, hg⟩ := (roOK_iff s).1 hro
  obtain ⟨f1, _, f3, f4, f5⟩ := envWl_frame w
  refine fwdInv_mk _ (envWl w) hgone hg (by show s.wl.map envWl = _; rw [hw]; rfl) (envWl_ok w hwok) ?_ hbr ?_
  · show planMono (envWl w).replicas (planOf s.ro) = true
    rw [f1]; exact hmono
  · show phaseInv s (envWl w) = true
    rw [phaseInv_wl s w (envWl w) f5 f3 f4 f1]; exact hpi

/-! ### approval, clock, crash -/

theorem approve_fwd (s : CS) (h : fwdInv s = true) : fwdInv (approve s) = true := by
  obtain ⟨hro, w, hw, hwok, hmono, hbr, hpi⟩ := (fwdInv_iff s).1 h
  obtain ⟨hgone, hg⟩ := (roOK_iff s).1 hro
  unfold approve
  rw [if_neg (by simp [hgone])]
  cases hs : s.ro.sub with
  | none => exact h
  | some sub =>
    dsimp only
    split
    · refine fwdInv_mk _ w hgone ⟨hg.1, hg.2, hg.3, hg.4, hg.5, hg.6, hg.7⟩ hw hwok hmono hbr ?_
      refine phaseInv_congr s _ w rfl rfl rfl rfl rfl rfl rfl rfl ?_ hpi
      intro sub0 h0
      rw [hs] at h0; cases h0
      exact ⟨_, rfl, rfl, rfl, rfl, rfl, rfl, rfl⟩
    · exact h

theorem ageAge_none (a : Age) : (ageAge a != Age.none) = (a != Age.none) := by
  cases a <;> rfl

theorem tick_fwd (s : CS) (h : fwdInv s = true) : fwdInv (tick s) = true := by
  obtain ⟨hro, w, hw, hwok, hmono, hbr, hpi⟩ := (fwdInv_iff s).1 h
  obtain ⟨hgone, hg⟩ := (roOK_iff s).1 hro
  unfold tick
  dsimp only
  rw [if_neg (by simp [hgone])]
  refine fwdInv_mk _ w hgone ⟨hg.1, hg.2, hg.3, hg.4, hg.5, hg.6, hg.7⟩ hw hwok hmono hbr ?_
  refine phaseInv_congr s _ w rfl rfl rfl rfl rfl rfl rfl rfl ?_ hpi
  intro sub0 h0
  refine ⟨{ sub0 with lastUpdate := ageAge sub0.lastUpdate }, ?_, rfl, rfl, ageAge_none _, rfl, rfl, rfl⟩
  show Option.map _ s.ro.sub = _
  rw [h0]; rfl

theorem crash_fwd (s : CS) (h : fwdInv s = true) : fwdInv (crash s) = true := by
  obtain ⟨hro, w, hw, hwok, hmono, hbr, hpi⟩ := (fwdInv_iff s).1 h
  obtain ⟨hgone, hg⟩ := (roOK_iff s).1 hro
  exact fwdInv_mk (crash s) w hgone hg hw hwok hmono hbr
    (phaseInv_congr s _ w rfl rfl rfl rfl rfl rfl rfl rfl (fun sub hs => ⟨sub, hs, rfl, rfl, rfl, rfl, rfl, rfl⟩) hpi)

/-! ### a new release while idle -/

theorem release_fwd (s : CS) (rev : String) (h : fwdInv s = true) (hidle : idle s rev = true) :
    fwdInv { s with wl := s.wl.map (releaseWl rev) } = true := by
  obtain ⟨hro, w, hw, hwok, hmono, hbr, hpi⟩ := (fwdInv_iff s).1 h
  obtain ⟨hgone, hg⟩ := (roOK_iff s).1 hro
  unfold idle at hidle
  rw [hw] at hidle
  simp only [Bool.and_eq_true, beq_iff_eq, bne_iff_ne, Bool.not_eq_true'] at hidle
  obtain ⟨hph, hanno, hrev⟩ := hidle
  have hrel : releaseWl rev w =
      { w with generation := w.generation + 1, inProgressAnno := true, partition := some (.pct 100), paused := false,
               updateRevision := rev, updated := 0, updatedReady := 0 } := by
    unfold releaseWl
    dsimp only
    rw [if_neg hrev]
  unfold wlOK at hwok
  simp only [Bool.and_eq_true, Bool.or_eq_true, decide_eq_true_eq, beq_iff_eq, bne_iff_ne] at hwok
  obtain ⟨⟨⟨⟨h1, h2⟩, h3⟩, h4⟩, h5⟩ := hwok
  rw [phaseInv_healthy s w hph] at hpi
  simp only [Bool.and_eq_true] at hpi
  refine fwdInv_mk _ (releaseWl rev w) hgone hg (by show s.wl.map (releaseWl rev) = _; rw [hw]; rfl) ?_ ?_ hbr ?_
  · rw [hrel]
    unfold wlOK
    dsimp only
    rw [scaled_pct100]
    simp only [Bool.and_eq_true, Bool.or_eq_true, decide_eq_true_eq, beq_iff_eq, bne_iff_ne]
    exact ⟨⟨⟨⟨h1, h2⟩, h2⟩, Or.inl hrev⟩, h2⟩
  · rw [hrel]; exact hmono
  · rw [hrel]
    rw [phaseInv_healthy { s with wl := s.wl.map (releaseWl rev) } _ hph]
    simp only [Bool.and_eq_true, Bool.or_eq_true]
    exact ⟨hpi.1, Or.inr rfl⟩

end RV.Lemmas.ClosedLoop
