/-
  Label `ro` on a rolling rollout (consistent workload): the canary route is only written in `StepTrafficRouting`, with the
  weight of the step the rollout is on (or created at weight 0); otherwise it is left alone or withdrawn.
-/
import RV.Lemmas.ClosedLoopTrafficDefs
import RV.Lemmas.ClosedLoopTrafficArith
import RV.Lemmas.ClosedLoopGate
namespace RV.Lemmas.ClosedLoopTraffic
open RV.Arith RV.Traffic RV.RolloutSM RV.ClosedLoop RV.Oracle.ClosedLoop RV.Oracle.ClosedLoopTraffic RV.Lemmas.ClosedLoop

/-- how one Rollout reconcile of a rolling rollout may change the canary route: not at all, withdraw it, or — only in
    `StepTrafficRouting` of a step that configures a weight — create it at weight 0 / set it to the step's weight -/
theorem ro_rolling_route (s s' : CS) (w : CWl) (sub : Sub) (h : trInv s = true) (hw : s.wl = some w)
    (hc : (roWl w).consistent = true) (hph : s.ro.phase = .progressing) (hr : s.ro.reason = .inRolling)
    (hsub : s.ro.sub = some sub) (hs : stepRo s = some s') :
    s'.net.canaryIng = s.net.canaryIng ∨ s'.net.canaryIng = none ∨
    (sub.state = .trafficRouting ∧ ∃ wt, weightOf s.ro sub.curIdx = some wt ∧
      (s'.net.canaryIng = some wt ∨ s'.net.canaryIng = some 0)) := by
  sorry

end RV.Lemmas.ClosedLoopTraffic
