/-
  Label `ro` on a rolling rollout (consistent workload): the canary route is only written in `StepTrafficRouting`, with the
  weight of the step the rollout is on (or created at weight 0); otherwise it is left alone or withdrawn.
-/
import RV.Lemmas.ClosedLoopTrafficDefs
import RV.Lemmas.ClosedLoopTrafficArith
import RV.Lemmas.ClosedLoopGate
namespace RV.Lemmas.ClosedLoopTraffic
open RV.Arith RV.Traffic RV.RolloutSM RV.ClosedLoop RV.Oracle.ClosedLoop RV.Oracle.ClosedLoopTraffic RV.Lemmas.ClosedLoop
open RV.Props.Rollout RV.Props.Reconcile

/-! ### how the canary route may move: unchanged, withdrawn, or to a value allowed by `Q` -/

/-- the canary route `b` after, against `a` before: unchanged, withdrawn, or a value `Q` allows -/
def RtRel (Q : Option Nat → Prop) (a b : Option Nat) : Prop := b = a ∨ b = none ∨ Q b

theorem RtRel.refl (Q : Option Nat → Prop) (a : Option Nat) : RtRel Q a a := Or.inl rfl

theorem RtRel.trans {Q : Option Nat → Prop} {a b c : Option Nat} (h1 : RtRel Q a b) (h2 : RtRel Q b c) : RtRel Q a c := by
  rcases h2 with h2 | h2 | h2
  · rw [h2]; exact h1
  · exact Or.inr (Or.inl h2)
  · exact Or.inr (Or.inr h2)

theorem RtRel.mono {Q Q' : Option Nat → Prop} {a b : Option Nat} (hq : ∀ x, Q x → Q' x) (h : RtRel Q a b) : RtRel Q' a b := by
  rcases h with h | h | h
  · exact Or.inl h
  · exact Or.inr (Or.inl h)
  · exact Or.inr (Or.inr (hq _ h))

/-- unchanged or withdrawn -/
def RtDown (a b : Option Nat) : Prop := b = a ∨ b = none

theorem RtDown.rel {Q : Option Nat → Prop} {a b : Option Nat} (h : RtDown a b) : RtRel Q a b := by
  rcases h with h | h
  · exact Or.inl h
  · exact Or.inr (Or.inl h)

/-! ### the Manager calls on the canary route -/

theorem rr_restoreStable (c : TCtx) (n : Net) (m : Mem) : (restoreStableService c n m).net.canaryIng = n.canaryIng := by
  unfold restoreStableService
  split
  · rfl
  · split
    · rfl
    · dsimp only
      split <;> rfl

theorem rr_patchStable (c : TCtx) (n : Net) (m : Mem) : (patchStableService c n m).net.canaryIng = n.canaryIng := by
  unfold patchStableService
  split
  · rfl
  · split
    · rfl
    · split
      · rfl
      · dsimp only
        split <;> rfl

theorem rr_removeCanary (c : TCtx) (n : Net) (m : Mem) : (removeCanaryService c n m).net.canaryIng = n.canaryIng := by
  unfold removeCanaryService
  split
  · rfl
  · split <;> rfl

theorem rr_restoreGateway (c : TCtx) (n : Net) (m : Mem) : RtDown n.canaryIng (restoreGateway c n m).net.canaryIng := by
  unfold restoreGateway finaliseGw
  split
  · exact Or.inl rfl
  · cases h : n.canaryIng
    · exact Or.inr rfl
    · exact Or.inr rfl

theorem rr_finalising (c : TCtx) (n : Net) (m : Mem) : RtDown n.canaryIng (finalisingTrafficRouting c n m).net.canaryIng := by
  have h1 := rr_restoreStable c n m
  have h2 := rr_restoreGateway c (restoreStableService c n m).net (restoreStableService c n m).mem
  have h3 := rr_removeCanary c (restoreGateway c (restoreStableService c n m).net (restoreStableService c n m).mem).net
    (restoreGateway c (restoreStableService c n m).net (restoreStableService c n m).mem).mem
  rw [h1] at h2
  unfold finalisingTrafficRouting
  split
  · exact Or.inl rfl
  · dsimp only
    split
    · exact Or.inl h1
    · split
      · exact h2
      · split
        · show RtDown _ (removeCanaryService c _ _).net.canaryIng
          rw [h3]; exact h2
        · show RtDown _ (removeCanaryService c _ _).net.canaryIng
          rw [h3]; exact h2

/-- `EnsureRoutes`: the route stays absent, is created at weight 0, or is set to the wanted weight -/
theorem rr_ensureRoutes (n : Net) (w : Nat) :
    (ensureRoutes n w).1 = n.canaryIng ∨ (ensureRoutes n w).1 = some w ∨ (ensureRoutes n w).1 = some 0 := by
  unfold ensureRoutes
  cases h : n.canaryIng with
  | none =>
    dsimp only
    split
    · exact Or.inl rfl
    · split
      · exact Or.inr (Or.inr rfl)
      · exact Or.inl rfl
  | some x =>
    dsimp only
    split
    · exact Or.inl rfl
    · exact Or.inr (Or.inl rfl)

theorem rr_routeStep (n : Net) (m : Mem) (w : Nat) :
    (routeStep n m w).net.canaryIng = n.canaryIng ∨ (routeStep n m w).net.canaryIng = some w ∨
      (routeStep n m w).net.canaryIng = some 0 := by
  unfold routeStep
  dsimp only
  split
  · exact Or.inl rfl
  · exact rr_ensureRoutes n w

/-- `DoTrafficRouting`: the identity on the route unless the step configures a weight, then `EnsureRoutes` at most -/
theorem rr_doTrafficRouting (c : TCtx) (n : Net) (m : Mem) :
    (doTrafficRouting c n m).net.canaryIng = n.canaryIng ∨
    ∃ wt, c.weight = some wt ∧
      ((doTrafficRouting c n m).net.canaryIng = some wt ∨ (doTrafficRouting c n m).net.canaryIng = some 0) := by
  unfold doTrafficRouting
  split
  · exact Or.inl rfl
  · cases hw : c.weight with
    | none => exact Or.inl rfl
    | some wt =>
      dsimp only
      split
      · exact Or.inl rfl
      · split
        · exact Or.inl rfl
        · cases hsv : svcStep c n with
          | none => exact Or.inl rfl
          | some p =>
            obtain ⟨n2, ws⟩ := p
            dsimp only
            split
            · exact Or.inl (RV.Props.Traffic.svcStep_frame c n n2 ws hsv).1
            · rcases rr_routeStep n m wt with h | h | h
              · exact Or.inl h
              · exact Or.inr ⟨wt, rfl, Or.inl h⟩
              · exact Or.inr ⟨wt, rfl, Or.inr h⟩

/-! ### through `callTM` -/

/-- the network a Manager call leaves is the Manager's answer on the context's own view -/
theorem rr_callTM_net (f : TCtx → Net → Mem → TOut) (c c' : Ctx) (cb d e : Bool) (h : callTM f c cb = some (c', d, e)) :
    ∃ t, trCtx c.ro c.sub = some t ∧ c'.net = (f { t with hasRevKey := c.wlSeen } c.net c.mem).net := by
  unfold callTM at h
  split at h
  · cases h
  · rename_i t ht
    simp only [Option.some.injEq, Prod.mk.injEq] at h
    obtain ⟨hc, _, _⟩ := h
    subst hc
    exact ⟨t, ht, rfl⟩

theorem rr_callTM_same (f : TCtx → Net → Mem → TOut) (hf : ∀ t n m, (f t n m).net.canaryIng = n.canaryIng)
    (c c' : Ctx) (cb d e : Bool) (h : callTM f c cb = some (c', d, e)) : c'.net.canaryIng = c.net.canaryIng := by
  obtain ⟨t, _, hn⟩ := rr_callTM_net f c c' cb d e h
  rw [hn]; exact hf _ _ _

/-- an optional Manager call that leaves the route alone -/
theorem rr_optCall_same (f : TCtx → Net → Mem → TOut) (hf : ∀ t n m, (f t n m).net.canaryIng = n.canaryIng)
    (p : Prop) [Decidable p] (c c' : Ctx) (d e : Bool)
    (h : (if p then callTM f c else some (c, false, false)) = some (c', d, e)) :
    c'.net.canaryIng = c.net.canaryIng ∧ c'.sub.curIdx = c.sub.curIdx := by
  split at h
  · exact ⟨rr_callTM_same f hf c c' _ d e h, (callTM_sub _ _ _ _ _ _ h).1⟩
  · simp only [Option.some.injEq, Prod.mk.injEq] at h
    rw [← h.1]; exact ⟨rfl, rfl⟩

/-! ### through the sub-state actions -/

theorem rr_upgradeStep (ro : Rollout) (step : Step) (c c' : Ctx) (err : Bool) (h : upgradeStep ro step c = .ok c' err) :
    c'.net = c.net := by
  unfold upgradeStep at h
  dsimp only at h
  split at h
  · simp only [RunOut.ok.injEq] at h
    rw [← h.1]
  · simp only [RunOut.ok.injEq] at h
    rw [← h.1]

theorem rr_initStep (ro : Rollout) (step : Step) (c c' : Ctx) (err : Bool) (h : initStep ro step c = .ok c' err) :
    c'.net.canaryIng = c.net.canaryIng := by
  have hk : ∀ c1 : Ctx, c1.net.canaryIng = c.net.canaryIng →
      upgradeStep ro step { c1 with sub := { c1.sub with state := .upgrade, lastUpdate := .fresh } } = .ok c' err →
      c'.net.canaryIng = c.net.canaryIng := by
    intro c1 h1 hu
    rw [rr_upgradeStep ro step _ c' err hu]; exact h1
  have hstop : ∀ c1 : Ctx, c1.net.canaryIng = c.net.canaryIng → (c' = c1 ∨ c' = { c1 with requeue := true }) →
      c'.net.canaryIng = c.net.canaryIng := by
    intro c1 h1 hc
    rcases hc with hc | hc <;> rw [hc] <;> exact h1
  unfold initStep at h
  dsimp only at h
  split at h
  · split at h
    · simp only [RunOut.ok.injEq] at h
      rw [← h.1]
    · obtain ⟨c1, rt, e, hr1, hcase⟩ := afterRetryCall_spec _ _ c' err h
      obtain ⟨a1, _⟩ := rr_optCall_same restoreStableService rr_restoreStable _ c c1 rt e hr1
      rcases hcase with ⟨hc, _⟩ | ⟨hc, _⟩ | ⟨_, _, hcont⟩
      · exact hstop c1 a1 (Or.inl hc)
      · exact hstop c1 a1 (Or.inr hc)
      · obtain ⟨c2, rt2, e2, hr2, hcase2⟩ := afterRetryCall_spec _ _ c' err hcont
        obtain ⟨b1, _⟩ := rr_optCall_same patchStableService rr_patchStable _ c1 c2 rt2 e2 hr2
        rcases hcase2 with ⟨hc, _⟩ | ⟨hc, _⟩ | ⟨_, _, hcont2⟩
        · exact hstop c2 (b1.trans a1) (Or.inl hc)
        · exact hstop c2 (b1.trans a1) (Or.inr hc)
        · exact hk c2 (b1.trans a1) hcont2
  · obtain ⟨c1, rt, e, hr1, hcase⟩ := afterRetryCall_spec _ _ c' err h
    obtain ⟨a1, _⟩ := rr_optCall_same patchStableService rr_patchStable _ c c1 rt e hr1
    rcases hcase with ⟨hc, _⟩ | ⟨hc, _⟩ | ⟨_, _, hcont⟩
    · exact hstop c1 a1 (Or.inl hc)
    · exact hstop c1 a1 (Or.inr hc)
    · exact hk c1 a1 hcont

/-- what a sub-state action may write on the route: only `StepTrafficRouting`, the weight of the Manager context -/
def StQ (c : Ctx) (b : Option Nat) : Prop :=
  c.sub.state = .trafficRouting ∧ ∃ t wt, trCtx c.ro c.sub = some t ∧ t.weight = some wt ∧ (b = some wt ∨ b = some 0)

theorem rr_stateStep (ro : Rollout) (step : Step) (c c' : Ctx) (err : Bool) (h : stateStep ro step c = .ok c' err) :
    RtRel (StQ c) c.net.canaryIng c'.net.canaryIng := by
  unfold stateStep at h
  cases hst : c.sub.state <;> simp only [hst] at h
  case init => exact Or.inl (rr_initStep ro step c c' err h)
  case upgrade => exact Or.inl (by rw [rr_upgradeStep ro step c c' err h])
  case trafficRouting =>
    split at h
    · cases h
    · rename_i c4 done e hcall
      obtain ⟨t, ht, hn⟩ := rr_callTM_net _ _ _ _ _ _ hcall
      have hc4 : RtRel (StQ c) c.net.canaryIng c4.net.canaryIng := by
        rw [hn]
        rcases rr_doTrafficRouting { t with hasRevKey := c.wlSeen } c.net c.mem with hd | ⟨wt, hw, hd⟩
        · exact Or.inl hd
        · exact Or.inr (Or.inr ⟨hst, t, wt, ht, hw, hd⟩)
      split at h
      · simp only [RunOut.ok.injEq] at h; rw [← h.1]; exact hc4
      · split at h
        · simp only [RunOut.ok.injEq] at h; rw [← h.1]; exact hc4
        · simp only [RunOut.ok.injEq] at h; rw [← h.1]; exact hc4
  case metricsAnalysis =>
    simp only [RunOut.ok.injEq] at h; rw [← h.1]; exact Or.inl rfl
  case paused =>
    split at h
    · cases h
    · simp only [RunOut.ok.injEq] at h; rw [← h.1]; exact Or.inl rfl
    · simp only [RunOut.ok.injEq] at h; rw [← h.1]; exact Or.inl rfl
  case ready =>
    split at h
    · simp only [RunOut.ok.injEq] at h; rw [← h.1]; exact Or.inl rfl
    · simp only [RunOut.ok.injEq] at h; rw [← h.1]; exact Or.inl rfl
  case completed =>
    simp only [RunOut.ok.injEq] at h; rw [← h.1]; exact Or.inl rfl
  case other =>
    simp only [RunOut.ok.injEq] at h; rw [← h.1]; exact Or.inl rfl

theorem rr_preStep (step : Step) (c2 c3 : Ctx) (d e : Bool) (h : preStep step c2 = some (c3, d, e)) :
    RtDown c2.net.canaryIng c3.net.canaryIng := by
  unfold preStep at h
  split at h
  · obtain ⟨t, _, hn⟩ := rr_callTM_net _ _ _ _ _ _ h
    rw [hn]; exact rr_finalising _ _ _
  · simp only [Option.some.injEq, Prod.mk.injEq] at h
    rw [← h.1]; exact Or.inl rfl

/-! ### one round of the release manager -/

/-- what one round may write on the route: only from `StepTrafficRouting`, the weight of the step the round started on -/
def RunQ (c0 : Ctx) (b : Option Nat) : Prop :=
  c0.sub.state = .trafficRouting ∧ ∃ step wt, c0.ro.steps[(c0.sub.curIdx - 1).toNat]? = some step ∧ step.weight = some wt ∧
    (b = some wt ∨ b = some 0)

theorem rr_runCanary (c0 c' : Ctx) (err : Bool) (h : runCanary c0 = .ok c' err)
    (hlo : 1 ≤ c0.sub.curIdx) (hhi : c0.sub.curIdx ≤ c0.ro.steps.length) :
    RtRel (RunQ c0) c0.net.canaryIng c'.net.canaryIng := by
  obtain ⟨y1, y2, y3, y4, y5⟩ := syncStep_sub c0
  obtain ⟨z1, z2, z3, z4⟩ := syncStep_eq c0
  unfold runCanary at h
  dsimp only at h
  split at h
  · cases h
  · simp only [RunOut.ok.injEq] at h
    rw [← h.1]
    exact Or.inl (by show (syncStep c0).net.canaryIng = _; rw [z2])
  · rename_i s2 hj
    obtain ⟨hsame, _⟩ := jump_spec _ _ _ _ hj
    have hs2 : s2 = (syncStep c0).sub := hsame rfl
    subst hs2
    split at h
    · cases h
    · rename_i step hstep
      have hstep0 : c0.ro.steps[(c0.sub.curIdx - 1).toNat]? = some step := by rw [← y1]; exact hstep
      split at h
      · cases h
      · rename_i c3 done e hpre
        obtain ⟨hk, _⟩ := preStep_keepLU _ _ _ _ _ hpre
        obtain ⟨k1, k2, _, _, _, _⟩ := hk.sub.facts
        have cur3 : c3.sub.curIdx = c0.sub.curIdx := k1.trans y1
        have st3 : c3.sub.state = c0.sub.state := k2.trans y3
        have ro3 : c3.ro = c0.ro := hk.ro.trans y4
        have hp : RtDown c0.net.canaryIng c3.net.canaryIng := by
          have := rr_preStep _ _ _ _ _ hpre
          have e0 : ({ syncStep c0 with sub := (syncStep c0).sub } : Ctx).net = c0.net := z2
          rw [e0] at this; exact this
        split at h
        · simp only [RunOut.ok.injEq] at h; rw [← h.1]; exact hp.rel
        · split at h
          · simp only [RunOut.ok.injEq] at h; rw [← h.1]; exact hp.rel
          · refine RtRel.trans hp.rel (RtRel.mono ?_ (rr_stateStep _ _ _ _ _ h))
            rintro x ⟨hst, t, wt, ht, hw, hx⟩
            refine ⟨st3 ▸ hst, step, wt, hstep0, ?_, hx⟩
            have heq := trCtx_eq c3.ro c3.sub step (by rw [cur3]; exact hlo) (by rw [cur3, ro3]; exact hhi)
              (by rw [cur3, ro3]; exact hstep0)
            rw [heq] at ht
            have : t.weight = step.weight := by
              have := Option.some.inj ht
              rw [← this]
            rw [← this]; exact hw

/-! ### the whole reconcile -/

/-- one reconcile of a rolling rollout on the route, on the world it read -/
theorem rr_reconcile (w : World) (wl : WL) (s : Sub)
    (hg : RoGood w.ro) (hph : w.ro.phase = .progressing) (hr : w.ro.reason = .inRolling)
    (hwl : w.wl = some wl) (hc : wl.consistent = true) (hnr : wl.inRollback = false)
    (hs : w.ro.sub = some s) (hsub : SubGood w.ro s wl.canaryRev)
    (r : StepResult) (hrec : reconcile w = .val r) :
    RtRel (fun b => s.state = .trafficRouting ∧ ∃ step wt, w.ro.steps[(s.curIdx - 1).toNat]? = some step ∧
        step.weight = some wt ∧ (b = some wt ∨ b = some 0)) w.net.canaryIng r.w.net.canaryIng := by
  obtain ⟨o1, _, o3⟩ := csObserve_same w.ro wl
  obtain ⟨id, gen, hs1⟩ := csObserve_sub w.ro wl s hs
  have hpaused : (csObserve w.ro wl).paused = false := o1.2.2.2.1.trans hg.unpaused
  rw [reconcile_roll w wl _ hg hph hr hwl hc hs1,
    inRolling_roll w (csObserve w.ro wl) _ s wl hs hnr hpaused hsub.rev.symm hsub.hash] at hrec
  generalize csObserve w.ro wl = ns at o1 hs1 hpaused hrec
  have hsteps : ns.steps = w.ro.steps := o1.1
  by_cases hst : s.state = .completed
  · rw [if_pos hst] at hrec
    dsimp only at hrec
    rw [if_neg (by simp)] at hrec
    cases hrec
    exact Or.inl rfl
  · rw [if_neg hst] at hrec
    have hN : (if ({ s with observedRolloutID := id, observedGen := gen } : Sub).nextIdx ≤ 0 ∨
          ({ s with observedRolloutID := id, observedGen := gen } : Sub).nextIdx > (ns.steps.length : Int) then
          { ({ s with observedRolloutID := id, observedGen := gen } : Sub) with
            nextIdx := nextBatchIndex (ns.steps.length : Int) ({ s with observedRolloutID := id, observedGen := gen } : Sub).curIdx }
        else ({ s with observedRolloutID := id, observedGen := gen } : Sub)) =
        { s with observedRolloutID := id, observedGen := gen } := by
      split
      · show ({ s with observedRolloutID := id, observedGen := gen, nextIdx := nextBatchIndex (ns.steps.length : Int) s.curIdx } : Sub) = _
        rw [hsteps, ← hsub.next]
      · rfl
    rw [hN] at hrec
    cases hrc : runCanary (toCtx { w with ro := ns } { s with observedRolloutID := id, observedGen := gen } wl) with
    | panic => rw [hrc] at hrec; cases hrec
    | ok c err =>
      rw [hrc] at hrec
      dsimp only at hrec
      have hrun := rr_runCanary _ c err hrc hsub.lo (by show s.curIdx ≤ (ns.steps.length : Int); rw [hsteps]; exact hsub.hi)
      have hrun' : RtRel (fun b => s.state = .trafficRouting ∧ ∃ step wt, w.ro.steps[(s.curIdx - 1).toNat]? = some step ∧
          step.weight = some wt ∧ (b = some wt ∨ b = some 0)) w.net.canaryIng c.net.canaryIng := by
        refine RtRel.mono ?_ hrun
        rintro x ⟨q1, step, wt, q2, q3, q4⟩
        refine ⟨q1, step, wt, ?_, q3, q4⟩
        rw [← hsteps]; exact q2
      cases err with
      | true =>
        rw [if_pos rfl] at hrec
        cases hrec
        exact hrun'
      | false =>
        rw [if_neg (by simp)] at hrec
        cases hrec
        exact hrun'

theorem rr_weightOf (ro : Rollout) (j : Int) (step : Step) (wt : Nat) (hlo : 1 ≤ j)
    (hstep : ro.steps[(j - 1).toNat]? = some step) (hw : step.weight = some wt) : weightOf ro j = some wt := by
  unfold weightOf stepAt
  rw [if_neg (by omega), hstep]
  exact hw

/-- how one Rollout reconcile of a rolling rollout may change the canary route: not at all, withdraw it, or — only in
    `StepTrafficRouting` of a step that configures a weight — create it at weight 0 / set it to the step's weight -/
theorem ro_rolling_route (s s' : CS) (w : CWl) (sub : Sub) (h : trInv s = true) (hw : s.wl = some w)
    (hc : (roWl w).consistent = true) (hph : s.ro.phase = .progressing) (hr : s.ro.reason = .inRolling)
    (hsub : s.ro.sub = some sub) (hs : stepRo s = some s') :
    s'.net.canaryIng = s.net.canaryIng ∨ s'.net.canaryIng = none ∨
    (sub.state = .trafficRouting ∧ ∃ wt, weightOf s.ro sub.curIdx = some wt ∧
      (s'.net.canaryIng = some wt ∨ s'.net.canaryIng = some 0)) := by
  obtain ⟨_, hgone, hg, w0, hw0, hwok, _, _, hpi, _, _⟩ := tr_parts s h
  have e : w0 = w := by
    have : some w0 = some w := hw0.symm.trans hw
    exact Option.some.inj this
  subst e
  rw [phaseInv_rolling s w0 sub hph hr hsub] at hpi
  simp only [Bool.and_eq_true] at hpi
  obtain ⟨⟨hsubok, _⟩, _⟩ := hpi
  have hsg : SubGood s.ro sub (roWl w0).canaryRev := (subOK_iff s.ro sub w0).1 hsubok
  cases hrec : reconcile (roWorld s) with
  | panic =>
    unfold stepRo at hs
    rw [hgone] at hs
    simp only [Bool.false_eq_true, if_false, hrec] at hs
    cases hs
  | val r =>
    have hs2 := stepRo_eq s hgone r hrec
    rw [hs] at hs2
    have e2 : s' = landRo s r := Option.some.inj hs2
    have hnet : s'.net = r.w.net := by rw [e2]; rfl
    have hrel := rr_reconcile (roWorld s) (roWl w0) sub hg hph hr (world_wl s w0 hw) hc (noRollback w0 hwok) hsub hsg r hrec
    rw [hnet]
    rcases hrel with hrel | hrel | ⟨q1, step, wt, q2, q3, q4⟩
    · exact Or.inl hrel
    · exact Or.inr (Or.inl hrel)
    · exact Or.inr (Or.inr ⟨q1, wt, rr_weightOf s.ro sub.curIdx step wt hsg.lo q2 q3, q4⟩)

end RV.Lemmas.ClosedLoopTraffic
