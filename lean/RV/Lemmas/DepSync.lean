import RV.Model.DepSync
import RV.Oracle.C17
import RV.Lemmas.Arith
/-! Helper lemmas about the advanced-deployment sync model. -/
namespace RV.DepSync
open RV.Arith RV.Oracle.C17

/-! ### sums, sorting, filtering -/

@[simp] theorem sumBy_nil (f : RS → Int) : sumBy f [] = 0 := rfl
@[simp] theorem sumBy_cons (f : RS → Int) (r : RS) (l : List RS) : sumBy f (r :: l) = f r + sumBy f l := rfl

theorem sumBy_append (f : RS → Int) (l₁ l₂ : List RS) : sumBy f (l₁ ++ l₂) = sumBy f l₁ + sumBy f l₂ := by
  induction l₁ with
  | nil => simp
  | cons r l ih => simp [ih]; omega

theorem sumBy_insertBy (f : RS → Int) (lt : RS → RS → Bool) (x : RS) (l : List RS) :
    sumBy f (insertBy lt x l) = f x + sumBy f l := by
  induction l with
  | nil => simp [insertBy]
  | cons y ys ih =>
    simp only [insertBy]; split
    · simp [ih]; omega
    · simp

theorem sumBy_sortBy (f : RS → Int) (lt : RS → RS → Bool) (l : List RS) :
    sumBy f (sortBy lt l) = sumBy f l := by
  induction l with
  | nil => rfl
  | cons x xs ih => simp [sortBy, sumBy_insertBy, ih]

theorem mem_insertBy {lt : RS → RS → Bool} {x r : RS} {l : List RS} :
    r ∈ insertBy lt x l ↔ r = x ∨ r ∈ l := by
  induction l with
  | nil => simp [insertBy]
  | cons y ys ih =>
    simp only [insertBy]; split
    · simp [ih]; constructor
      · rintro (h | h | h) <;> simp [h]
      · rintro (h | h | h) <;> simp [h]
    · simp

theorem mem_sortBy {lt : RS → RS → Bool} {r : RS} {l : List RS} : r ∈ sortBy lt l ↔ r ∈ l := by
  induction l with
  | nil => simp [sortBy]
  | cons x xs ih => simp [sortBy, mem_insertBy, ih]

theorem sumBy_active_inactive (f : RS → Int) (l : List RS) :
    sumBy f (active l) + sumBy f (inactive l) = sumBy f l := by
  induction l with
  | nil => rfl
  | cons r rs ih =>
    simp only [active, inactive, List.filter_cons] at *
    by_cases h : 0 < r.spec <;> simp [h] <;> omega

theorem sumSpec_inactive_nonpos (l : List RS) : sumSpec (inactive l) ≤ 0 := by
  induction l with
  | nil => simp [inactive, sumSpec]
  | cons r rs ih =>
    simp only [inactive, sumSpec, List.filter_cons] at *
    by_cases h : 0 < r.spec <;> simp [h] <;> omega

theorem sumSpec_inactive_zero (l : List RS) (h : ∀ r ∈ l, 0 ≤ r.spec) : sumSpec (inactive l) = 0 := by
  induction l with
  | nil => simp [inactive, sumSpec]
  | cons r rs ih =>
    have h1 := h r (by simp)
    have ih := ih (fun x hx => h x (by simp [hx]))
    simp only [inactive, sumSpec, List.filter_cons] at *
    by_cases hp : 0 < r.spec <;> simp [hp] <;> omega

theorem sumSpec_active (l : List RS) (h : ∀ r ∈ l, 0 ≤ r.spec) : sumSpec (active l) = sumSpec l := by
  have := sumBy_active_inactive (·.spec) l
  have := sumSpec_inactive_zero l h
  simp only [sumSpec] at *; omega

theorem sumBy_nonneg (f : RS → Int) (l : List RS) (h : ∀ r ∈ l, 0 ≤ f r) : 0 ≤ sumBy f l := by
  induction l with
  | nil => simp
  | cons r rs ih =>
    have := h r (by simp)
    have := ih (fun x hx => h x (by simp [hx]))
    simp; omega

theorem mem_active {r : RS} {l : List RS} : r ∈ active l → r ∈ l := by
  simp only [active, List.mem_filter]; exact fun h => h.1
theorem mem_inactive {r : RS} {l : List RS} : r ∈ inactive l → r ∈ l := by
  simp only [inactive, List.mem_filter]; exact fun h => h.1

/-! ### configuration -/

theorem limit_bounds (s : State) (h : 0 ≤ s.replicas) : 0 ≤ limit s ∧ limit s ≤ s.replicas := by
  unfold limit newRSReplicasLimit
  simp only []
  split <;> (try split) <;> omega

theorem scaled_nonneg_up (v : Option IntOrPct) (R : Int) (hv : fenceOk v = true) (hR : 0 ≤ R) :
    0 ≤ (scaled (v.getD (.int 0)) R true).1 := by
  match v with
  | none => simp [scaled]
  | some (.int n) => simpa [scaled, fenceOk] using hv
  | some (.pct p) =>
    have hp : 0 ≤ p := by simpa [fenceOk] using hv
    simp only [Option.getD, scaled, if_true]
    exact ceilDiv100_nonneg (Int.mul_nonneg hp hR)
  | some .bad => simp [scaled]

theorem scaled_nonneg_down (v : Option IntOrPct) (R : Int) (hv : fenceOk v = true) (hR : 0 ≤ R) :
    0 ≤ (scaled (v.getD (.int 0)) R false).1 := by
  match v with
  | none => simp [scaled]
  | some (.int n) => simpa [scaled, fenceOk] using hv
  | some (.pct p) =>
    have hp : 0 ≤ p := by simpa [fenceOk] using hv
    have := Int.mul_nonneg hp hR
    simp only [Option.getD, scaled, floorDiv100]
    show 0 ≤ p * R / 100
    omega
  | some .bad => simp [scaled]

theorem fenceposts_nonneg (s : State) (h : inv s = true) {a u : Int}
    (hr : resolveFenceposts s.maxSurge s.maxUnavailable s.replicas = some (a, u)) : 0 ≤ a ∧ 0 ≤ u := by
  simp only [inv, invCore, Bool.and_eq_true, decide_eq_true_eq] at h
  obtain ⟨⟨⟨⟨⟨hR, hs⟩, hu⟩, _⟩, _⟩, _⟩ := h
  have h1 := scaled_nonneg_up s.maxSurge s.replicas hs hR
  have h2 := scaled_nonneg_down s.maxUnavailable s.replicas hu hR
  unfold resolveFenceposts at hr
  generalize scaled (s.maxSurge.getD (.int 0)) s.replicas true = x at *
  generalize scaled (s.maxUnavailable.getD (.int 0)) s.replicas false = y at *
  obtain ⟨x1, x2⟩ := x
  obtain ⟨y1, y2⟩ := y
  simp only [] at hr h1 h2
  split at hr
  · cases hr
  · split at hr
    · cases hr
    · split at hr <;> (cases hr; omega)

theorem maxSurgeV_nonneg (s : State) (h : inv s = true) : 0 ≤ maxSurgeV s := by
  unfold maxSurgeV
  split
  · omega
  · split
    · omega
    · rename_i a u hr; exact (fenceposts_nonneg s h hr).1

theorem maxUnavailV_bounds (s : State) (h : inv s = true) : 0 ≤ maxUnavailV s ∧ maxUnavailV s ≤ s.replicas := by
  have hR : 0 ≤ s.replicas := by
    simp only [inv, invCore, Bool.and_eq_true, decide_eq_true_eq] at h; exact h.1.1.1.1.1
  unfold maxUnavailV
  split
  · omega
  · simp only []
    split
    · split <;> omega
    · rename_i a u hr
      have := (fenceposts_nonneg s h hr).2
      split <;> omega

theorem inv_replicas (s : State) (h : inv s = true) : 0 ≤ s.replicas := by
  simp only [inv, invCore, Bool.and_eq_true, decide_eq_true_eq] at h; exact h.1.1.1.1.1

theorem inv_olds (s : State) (h : inv s = true) : ∀ r ∈ s.olds, rsOk r = true := by
  simp only [inv, invCore, Bool.and_eq_true, List.all_eq_true] at h; exact h.1.1.2

theorem inv_new (s : State) (h : inv s = true) : ∀ r, s.new = some r → rsOk r = true := by
  simp only [inv, invCore, Bool.and_eq_true] at h
  intro r hr
  have := h.1.2
  simp [hr] at this; exact this

theorem rsOk_iff (r : RS) : rsOk r = true ↔ 0 ≤ r.spec ∧ 0 ≤ r.avail ∧ r.avail ≤ r.pods := by
  simp [rsOk, and_assoc]


/-! ### scaling one ReplicaSet -/

theorem scaleAndRecord_fst (s : State) (r : RS) (n : Int) :
    (scaleAndRecord s r n).1 = r ∨
    (scaleAndRecord s r n).1 = { r with spec := n, desired := some s.replicas, maxAnno := some (s.replicas + maxSurgeV s) } := by
  unfold scaleAndRecord scaleReplicaSet
  split
  · left; rfl
  · simp only []; split
    · right; rfl
    · left; rfl

theorem scaleAndRecord_spec (s : State) (r : RS) (n : Int) : (scaleAndRecord s r n).1.spec = n := by
  unfold scaleAndRecord scaleReplicaSet
  split
  · rename_i h; simpa using h
  · rename_i h
    have : (r.spec != n) = true := by simpa using h
    simp [this]

theorem scaleAndRecord_avail (s : State) (r : RS) (n : Int) : (scaleAndRecord s r n).1.avail = r.avail := by
  rcases scaleAndRecord_fst s r n with h | h <;> rw [h]
theorem scaleAndRecord_pods (s : State) (r : RS) (n : Int) : (scaleAndRecord s r n).1.pods = r.pods := by
  rcases scaleAndRecord_fst s r n with h | h <;> rw [h]

theorem scaleAndRecord_ok (s : State) (r : RS) (n : Int) (h : rsOk r = true) (hn : 0 ≤ n) :
    rsOk (scaleAndRecord s r n).1 = true := by
  rw [rsOk_iff] at *
  rw [scaleAndRecord_spec, scaleAndRecord_avail, scaleAndRecord_pods]; omega


/-! ### the two loops over old ReplicaSets -/

/-- unhealthy pods of a list of RSs -/
def unhealthy (l : List RS) : Int := sumBy (fun r => max 0 (r.spec - r.avail)) l

theorem cleanupLoop_facts (s : State) (m : Int) : ∀ (l : List RS) (total : Int),
    sumAvail (cleanupLoop s m l total).olds = sumAvail l ∧
    sumPods (cleanupLoop s m l total).olds = sumPods l ∧
    sumBy keptAvail (cleanupLoop s m l total).olds = sumBy keptAvail l ∧
    sumSpec (cleanupLoop s m l total).olds ≤ sumSpec l ∧
    sumSpec l - sumSpec (cleanupLoop s m l total).olds ≤ max 0 (m - total) ∧
    sumSpec l - sumSpec (cleanupLoop s m l total).olds ≤ unhealthy l := by
  intro l
  induction l with
  | nil => intro total; simp [cleanupLoop, sumAvail, sumPods, sumSpec, unhealthy]; omega
  | cons r rest ih =>
    intro total
    simp only [cleanupLoop]
    split
    · simp [sumAvail, sumPods, sumSpec, unhealthy]
      have := sumBy_nonneg (fun r => max 0 (r.spec - r.avail)) rest (fun x _ => by omega)
      omega
    · split
      · have := ih total
        simp only [sumAvail, sumPods, sumSpec, unhealthy, sumBy_cons] at *
        omega
      · split
        · have := ih total
          simp only [sumAvail, sumPods, sumSpec, unhealthy, sumBy_cons] at *
          omega
        · split
          · simp [sumAvail, sumPods, sumSpec, unhealthy]
            have := sumBy_nonneg (fun r => max 0 (r.spec - r.avail)) rest (fun x _ => by omega)
            omega
          · rename_i h1 h2 h3 h4
            have := ih (total + min (m - total) (r.spec - r.avail))
            have hne : r.spec ≠ r.avail := by simpa using h3
            simp only [sumAvail, sumPods, sumSpec, unhealthy, sumBy_cons, keptAvail,
              scaleAndRecord_spec, scaleAndRecord_avail, scaleAndRecord_pods] at *
            omega


theorem cleanupLoop_ok (s : State) (m : Int) : ∀ (l : List RS) (total : Int),
    (∀ r ∈ l, rsOk r = true) → ∀ r ∈ (cleanupLoop s m l total).olds, rsOk r = true := by
  intro l
  induction l with
  | nil => intro total _ r hr; simp [cleanupLoop] at hr
  | cons x rest ih =>
    intro total h
    have hx := h x (by simp)
    have hrest : ∀ r ∈ rest, rsOk r = true := fun r hr => h r (by simp [hr])
    simp only [cleanupLoop]
    split
    · exact h
    · split
      · intro r hr
        simp only [List.mem_cons] at hr
        rcases hr with hr | hr
        · rw [hr]; exact hx
        · exact ih total hrest r hr
      · split
        · intro r hr
          simp only [List.mem_cons] at hr
          rcases hr with hr | hr
          · rw [hr]; exact hx
          · exact ih total hrest r hr
        · split
          · exact h
          · rename_i h1 h2 h3 h4
            intro r hr
            simp only [List.mem_cons] at hr
            rcases hr with hr | hr
            · rw [hr]
              apply scaleAndRecord_ok _ _ _ hx
              rw [rsOk_iff] at hx
              omega
            · exact ih _ hrest r hr

theorem scaleDownLoop_facts (s : State) (c : Int) : ∀ (l : List RS) (total : Int),
    sumAvail (scaleDownLoop s c l total).olds = sumAvail l ∧
    sumPods (scaleDownLoop s c l total).olds = sumPods l ∧
    sumSpec (scaleDownLoop s c l total).olds ≤ sumSpec l ∧
    sumSpec l - sumSpec (scaleDownLoop s c l total).olds ≤ max 0 (c - total) ∧
    sumBy keptAvail l - (sumSpec l - sumSpec (scaleDownLoop s c l total).olds)
      ≤ sumBy keptAvail (scaleDownLoop s c l total).olds := by
  intro l
  induction l with
  | nil => intro total; simp [scaleDownLoop, sumAvail, sumPods, sumSpec]; omega
  | cons r rest ih =>
    intro total
    simp only [scaleDownLoop]
    split
    · simp [sumAvail, sumPods, sumSpec]; omega
    · split
      · have := ih total
        simp only [sumAvail, sumPods, sumSpec, sumBy_cons] at *
        omega
      · split
        · simp [sumAvail, sumPods, sumSpec]; omega
        · have := ih (total + min r.spec (c - total))
          simp only [sumAvail, sumPods, sumSpec, sumBy_cons, keptAvail,
            scaleAndRecord_spec, scaleAndRecord_avail, scaleAndRecord_pods] at *
          omega

theorem scaleDownLoop_ok (s : State) (c : Int) : ∀ (l : List RS) (total : Int),
    (∀ r ∈ l, rsOk r = true) → ∀ r ∈ (scaleDownLoop s c l total).olds, rsOk r = true := by
  intro l
  induction l with
  | nil => intro total _ r hr; simp [scaleDownLoop] at hr
  | cons x rest ih =>
    intro total h
    have hx := h x (by simp)
    have hrest : ∀ r ∈ rest, rsOk r = true := fun r hr => h r (by simp [hr])
    simp only [scaleDownLoop]
    split
    · exact h
    · split
      · intro r hr
        simp only [List.mem_cons] at hr
        rcases hr with hr | hr
        · rw [hr]; exact hx
        · exact ih total hrest r hr
      · split
        · exact h
        · intro r hr
          simp only [List.mem_cons] at hr
          rcases hr with hr | hr
          · rw [hr]
            apply scaleAndRecord_ok _ _ _ hx
            rw [rsOk_iff] at hx
            omega
          · exact ih _ hrest r hr


theorem length_insertBy (lt : RS → RS → Bool) (x : RS) (l : List RS) :
    (insertBy lt x l).length = l.length + 1 := by
  induction l with
  | nil => simp [insertBy]
  | cons y ys ih => simp only [insertBy]; split <;> simp [ih]

theorem length_sortBy (lt : RS → RS → Bool) (l : List RS) : (sortBy lt l).length = l.length := by
  induction l with
  | nil => rfl
  | cons x xs ih => simp [sortBy, length_insertBy, ih]

theorem all_sortBy {lt : RS → RS → Bool} {l : List RS} {p : RS → Prop} (h : ∀ r ∈ l, p r) :
    ∀ r ∈ sortBy lt l, p r := fun r hr => h r (mem_sortBy.mp hr)

theorem unhealthy_active_le (l : List RS) : unhealthy (active l) ≤ unhealthy l := by
  have h1 := sumBy_active_inactive (fun r => max 0 (r.spec - r.avail)) l
  have h2 := sumBy_nonneg (fun r => max 0 (r.spec - r.avail)) (inactive l) (fun x _ => by omega)
  simp only [unhealthy]; omega

theorem kept_eq_avail (l : List RS) (h : ∀ r ∈ l, r.avail ≤ r.spec) : sumBy keptAvail l = sumAvail l := by
  induction l with
  | nil => rfl
  | cons r rs ih =>
    have := h r (by simp)
    have := ih (fun x hx => h x (by simp [hx]))
    simp only [sumAvail, sumBy_cons, keptAvail] at *; omega

/-! ### stage lemmas -/

theorem cleanup_facts (s : State) (l : List RS) (m : Int) :
    sumAvail (cleanup s l m).olds = sumAvail l ∧
    sumPods (cleanup s l m).olds = sumPods l ∧
    sumBy keptAvail (cleanup s l m).olds = sumBy keptAvail l ∧
    sumSpec (cleanup s l m).olds ≤ sumSpec l ∧
    sumSpec l - sumSpec (cleanup s l m).olds ≤ max 0 m ∧
    sumSpec l - sumSpec (cleanup s l m).olds ≤ unhealthy l := by
  have := cleanupLoop_facts s m (sortBy byCreation l) 0
  simp only [cleanup, sumAvail, sumPods, sumSpec, unhealthy, sumBy_sortBy] at *
  omega

theorem cleanup_ok (s : State) (l : List RS) (m : Int) (h : ∀ r ∈ l, rsOk r = true) :
    ∀ r ∈ (cleanup s l m).olds, rsOk r = true :=
  cleanupLoop_ok s m _ 0 (all_sortBy h)

theorem scaleDownOld_facts (s : State) (l : List RS) (nw : RS) :
    sumAvail (scaleDownOld s l nw).olds = sumAvail l ∧
    sumPods (scaleDownOld s l nw).olds = sumPods l ∧
    sumSpec (scaleDownOld s l nw).olds ≤ sumSpec l ∧
    sumSpec l - sumSpec (scaleDownOld s l nw).olds ≤
      max 0 (min (sumAvail l + nw.avail - (s.replicas - maxUnavailV s)) (scaleDownLimitForOld s l nw.spec)) ∧
    sumBy keptAvail l - (sumSpec l - sumSpec (scaleDownOld s l nw).olds)
      ≤ sumBy keptAvail (scaleDownOld s l nw).olds := by
  unfold scaleDownOld
  simp only []
  split
  · simp; omega
  · have := scaleDownLoop_facts s
      (min (sumAvail l + nw.avail - (s.replicas - maxUnavailV s))
        (scaleDownLimitForOld s (sortBy bySmallerRevision l) nw.spec)) (sortBy bySmallerRevision l) 0
    simp only [scaleDownLimitForOld, sumAvail, sumPods, sumSpec, sumBy_sortBy] at *
    omega

theorem scaleDownOld_ok (s : State) (l : List RS) (nw : RS) (h : ∀ r ∈ l, rsOk r = true) :
    ∀ r ∈ (scaleDownOld s l nw).olds, rsOk r = true := by
  unfold scaleDownOld
  simp only []
  split
  · exact h
  · exact scaleDownLoop_ok s _ _ 0 (all_sortBy h)

theorem scaleUpOld_facts (s : State) (l : List RS) (n : Int) :
    sumAvail (scaleUpOld s l n).2.1 = sumAvail l ∧
    sumPods (scaleUpOld s l n).2.1 = sumPods l ∧
    sumSpec (scaleUpOld s l n).2.1 = sumSpec l + (if n ≤ 0 ∨ l = [] then 0 else n) ∧
    sumBy keptAvail l ≤ sumBy keptAvail (scaleUpOld s l n).2.1 := by
  unfold scaleUpOld
  split
  · rename_i h
    have : n ≤ 0 ∨ l = [] := by simpa using h
    simp [this]
  · rename_i h
    have hn : ¬ (n ≤ 0 ∨ l = []) := by simpa using h
    have hlen := length_sortBy bySizeOlder l
    have h1 := sumBy_sortBy (·.avail) bySizeOlder l
    have h2 := sumBy_sortBy (·.pods) bySizeOlder l
    have h3 := sumBy_sortBy (·.spec) bySizeOlder l
    have h4 := sumBy_sortBy keptAvail bySizeOlder l
    split
    · rename_i heq
      rw [heq] at hlen
      have : l = [] := List.eq_nil_of_length_eq_zero (by simpa using hlen.symm)
      exact absurd (Or.inr this) hn
    · rename_i r rest heq
      rw [heq] at h1 h2 h3 h4
      simp only [sumAvail, sumPods, sumSpec, sumBy_cons, keptAvail, if_neg hn,
        scaleAndRecord_spec, scaleAndRecord_avail, scaleAndRecord_pods] at *
      omega

theorem scaleUpOld_ok (s : State) (l : List RS) (n : Int) (h : ∀ r ∈ l, rsOk r = true) :
    ∀ r ∈ (scaleUpOld s l n).2.1, rsOk r = true := by
  unfold scaleUpOld
  split
  · exact h
  · rename_i hc
    have hn : ¬ (n ≤ 0 ∨ l = []) := by simpa using hc
    split
    · exact h
    · rename_i r rest heq
      have hs : ∀ x ∈ r :: rest, rsOk x = true := by
        rw [← heq]; exact all_sortBy h
      intro x hx
      simp only [List.mem_cons] at hx
      rcases hx with hx | hx
      · rw [hx]
        have hr := hs r (by simp)
        apply scaleAndRecord_ok _ _ _ hr
        rw [rsOk_iff] at hr
        omega
      · exact hs x (by simp [hx])


theorem active_ok {l : List RS} (h : ∀ r ∈ l, rsOk r = true) : ∀ r ∈ active l, rsOk r = true :=
  fun r hr => h r (mem_active hr)
theorem inactive_ok {l : List RS} (h : ∀ r ∈ l, rsOk r = true) : ∀ r ∈ inactive l, rsOk r = true :=
  fun r hr => h r (mem_inactive hr)

theorem append_ok {l₁ l₂ : List RS} (h₁ : ∀ r ∈ l₁, rsOk r = true) (h₂ : ∀ r ∈ l₂, rsOk r = true) :
    ∀ r ∈ l₁ ++ l₂, rsOk r = true := by
  intro r hr
  rcases List.mem_append.mp hr with h | h
  · exact h₁ r h
  · exact h₂ r h

theorem sumAvail_nonneg {l : List RS} (h : ∀ r ∈ l, rsOk r = true) : 0 ≤ sumAvail l :=
  sumBy_nonneg _ l (fun r hr => ((rsOk_iff r).mp (h r hr)).2.1)

theorem sumSpec_nonneg {l : List RS} (h : ∀ r ∈ l, rsOk r = true) : 0 ≤ sumSpec l :=
  sumBy_nonneg _ l (fun r hr => ((rsOk_iff r).mp (h r hr)).1)

theorem reconcileOld_ok (s : State) (l : List RS) (nw : RS) (hok : ∀ r ∈ l, rsOk r = true) :
    ∀ r ∈ (reconcileOld s l nw).2.1, rsOk r = true := by
  unfold reconcileOld
  simp only []
  split
  · exact hok
  · split
    · exact append_ok (scaleUpOld_ok s _ _ (active_ok hok)) (inactive_ok hok)
    · split
      · exact hok
      · split
        · exact append_ok (cleanup_ok s _ _ (active_ok hok)) (inactive_ok hok)
        · split
          · exact append_ok (scaleDownOld_ok s _ _ (cleanup_ok s _ _ (active_ok hok))) (inactive_ok hok)
          · exact append_ok (scaleDownOld_ok s _ _ (cleanup_ok s _ _ (active_ok hok))) (inactive_ok hok)

theorem reconcileOld_facts (s : State) (l : List RS) (nw : RS) (hok : ∀ r ∈ l, rsOk r = true) :
    sumAvail (reconcileOld s l nw).2.1 = sumAvail l ∧
    sumPods (reconcileOld s l nw).2.1 = sumPods l ∧
    min (sumSpec l) (s.replicas - max (limit s) nw.spec) ≤ sumSpec (reconcileOld s l nw).2.1 ∧
    (0 < sumSpec l → sumSpec l < s.replicas - max (limit s) nw.spec →
      sumSpec (reconcileOld s l nw).2.1 = s.replicas - max (limit s) nw.spec) ∧
    sumSpec l - sumSpec (reconcileOld s l nw).2.1 ≤
      unhealthy l + max 0 (sumAvail l + nw.avail - (s.replicas - maxUnavailV s)) ∧
    sumBy keptAvail l - max 0 (sumAvail l + nw.avail - (s.replicas - maxUnavailV s))
      ≤ sumBy keptAvail (reconcileOld s l nw).2.1 ∧
    sumSpec (reconcileOld s l nw).2.1 ≤ max (sumSpec l) (s.replicas - max (limit s) nw.spec) := by
  have a1 := sumBy_active_inactive (·.spec) l
  have a2 := sumBy_active_inactive (·.avail) l
  have a3 := sumBy_active_inactive (·.pods) l
  have a4 := sumBy_active_inactive keptAvail l
  have i0 := sumSpec_inactive_zero l (fun r hr => ((rsOk_iff r).mp (hok r hr)).1)
  have ia := sumAvail_nonneg (inactive_ok hok)
  have u1 := unhealthy_active_le l
  have u0 : 0 ≤ unhealthy l := sumBy_nonneg _ l (fun x _ => by omega)
  unfold reconcileOld
  simp only []
  split
  · rename_i h
    have : sumSpec (active l) = 0 := by simpa using h
    dsimp only
    simp only [sumSpec, sumAvail] at *
    refine ⟨trivial, trivial, ?_, ?_, ?_, ?_, ?_⟩ <;> omega
  · rename_i h
    have hne : sumSpec (active l) ≠ 0 := by simpa using h
    split
    · rename_i hlim
      have up := scaleUpOld_facts s (active l) (-scaleDownLimitForOld s (active l) nw.spec)
      have hnil : active l ≠ [] := by
        intro h0; rw [h0] at hne; simp [sumSpec] at hne
      simp only [scaleDownLimitForOld, sumSpec, sumAvail, sumPods, sumBy_append, hnil, or_false] at *
      split at up <;> omega
    · rename_i hlim
      split
      · dsimp only
        simp only [scaleDownLimitForOld, sumSpec, sumAvail] at *
        refine ⟨trivial, trivial, ?_, ?_, ?_, ?_, ?_⟩ <;> omega
      · rename_i hm
        have c := cleanup_facts s (active l)
          (min (sumSpec l + nw.spec - (s.replicas - maxUnavailV s) - (nw.spec - nw.avail))
            (scaleDownLimitForOld s (active l) nw.spec))
        split
        · simp only [scaleDownLimitForOld, sumSpec, sumAvail, sumPods, sumBy_append] at *
          omega
        · have d := scaleDownOld_facts s (cleanup s (active l)
            (min (sumSpec l + nw.spec - (s.replicas - maxUnavailV s) - (nw.spec - nw.avail))
              (scaleDownLimitForOld s (active l) nw.spec))).olds nw
          generalize (cleanup s (active l)
            (min (sumSpec l + nw.spec - (s.replicas - maxUnavailV s) - (nw.spec - nw.avail))
              (scaleDownLimitForOld s (active l) nw.spec))).olds = co at *
          split
          · simp only [scaleDownLimitForOld, sumSpec, sumAvail, sumPods, sumBy_append] at *
            omega
          · simp only [scaleDownLimitForOld, sumSpec, sumAvail, sumPods, sumBy_append] at *
            omega


/-- when the spec-based availability budget is spent (`allPods − minAvailable − newUnavailable ≤ 0`, the early
    exit `maxScaledDown <= 0` of `reconcileOldReplicaSets`) the old ReplicaSets are not lowered, whatever their
    (possibly stale) status says -/
theorem reconcileOld_spent (s : State) (l : List RS) (nw : RS) (hok : ∀ r ∈ l, rsOk r = true)
    (hb : sumSpec l + nw.avail - (s.replicas - maxUnavailV s) ≤ 0) :
    sumSpec l ≤ sumSpec (reconcileOld s l nw).2.1 := by
  have a1 := sumBy_active_inactive (·.spec) l
  have i0 := sumSpec_inactive_zero l (fun r hr => ((rsOk_iff r).mp (hok r hr)).1)
  unfold reconcileOld
  simp only []
  split
  · exact Int.le_refl _
  · rename_i h
    have hne : sumSpec (active l) ≠ 0 := by simpa using h
    split
    · rename_i hlim
      have up := scaleUpOld_facts s (active l) (-scaleDownLimitForOld s (active l) nw.spec)
      have hnil : active l ≠ [] := by
        intro h0; rw [h0] at hne; simp [sumSpec] at hne
      simp only [scaleDownLimitForOld, sumSpec, sumAvail, sumPods, sumBy_append, hnil, or_false] at *
      split at up <;> omega
    · split
      · exact Int.le_refl _
      · rename_i hm
        exfalso
        simp only [sumSpec] at *
        omega

/-! ### the new ReplicaSet -/

/-- size `reconcileNewReplicaSet` gives to a new RS of size `n` when the old RSs total `oldSum` -/
def newTarget (s : State) (oldSum n : Int) : Int :=
  if n = s.replicas then n else if n > s.replicas then s.replicas else newRSNewReplicas s (oldSum + n) n

theorem reconcileNew_facts (s : State) (olds : List RS) (nw : RS) :
    (reconcileNew s olds nw).2.1.spec = newTarget s (sumSpec olds) nw.spec ∧
    (reconcileNew s olds nw).2.1.avail = nw.avail ∧
    (reconcileNew s olds nw).2.1.pods = nw.pods ∧
    ((reconcileNew s olds nw).1 = true ↔ newTarget s (sumSpec olds) nw.spec ≠ nw.spec) := by
  unfold reconcileNew newTarget
  by_cases h1 : nw.spec = s.replicas
  · simp [h1]
  · have h1' : (nw.spec == s.replicas) = false := by simpa using h1
    simp only [h1', Bool.false_eq_true, if_false, h1]
    by_cases h2 : nw.spec > s.replicas
    · simp only [h2, if_true, scaleAndRecord_spec, scaleAndRecord_avail, scaleAndRecord_pods]
      simp; omega
    · simp only [h2, if_false, scaleAndRecord_spec, scaleAndRecord_avail, scaleAndRecord_pods]
      simp
      exact ⟨fun h => fun h' => h h'.symm, fun h => fun h' => h h'.symm⟩

theorem newRSNewReplicas_le (s : State) (cur n : Int) (h : cur > n) :
    newRSNewReplicas s cur n ≤ max n (limit s) := by
  unfold newRSNewReplicas
  simp only [h, if_true]
  split
  · omega
  · split <;> omega

theorem newRSNewReplicas_default (s : State) (cur n : Int) (h : ¬ cur > n) :
    newRSNewReplicas s cur n = s.replicas := by
  unfold newRSNewReplicas; simp [h]

theorem newRSNewReplicas_surge (s : State) (cur n : Int) (h : cur > n) (hup : n < newRSNewReplicas s cur n) :
    (cur - n) + newRSNewReplicas s cur n ≤ s.replicas + maxSurgeV s := by
  unfold newRSNewReplicas at *
  simp only [h, if_true] at *
  split at hup
  · omega
  · split at hup
    · omega
    · rename_i h1 h2
      simp only [h1, h2, if_false]
      omega

theorem newRSNewReplicas_ge (s : State) (cur n : Int) (h : cur > n) (hl : limit s ≤ s.replicas) :
    n ≤ newRSNewReplicas s cur n ∧ newRSNewReplicas s cur n ≤ max n s.replicas := by
  unfold newRSNewReplicas
  simp only [h, if_true]
  split
  · omega
  · split <;> omega

/-- the new RS the rolling path works with (existing, or created) -/
theorem getNewRS_create (s : State) :
    ∃ nw w, getNewRS s true = (some nw, w) ∧
      (∀ r, s.new = some r → nw.spec = r.spec ∧ nw.avail = r.avail ∧ nw.pods = r.pods) ∧
      (s.new = none → nw.spec = max (newRSNewReplicas s (sumSpec s.olds + 0) 0) (lowerBound s) ∧
        nw.avail = 0 ∧ nw.pods = 0) := by
  unfold getNewRS
  cases hn : s.new with
  | none => exact ⟨_, _, rfl, by simp, by simp⟩
  | some r => exact ⟨_, _, rfl, by intro r' h; cases h; simp, by simp⟩


/-- what one rolling sync does, in terms of sizes -/
theorem rolling_summary (s : State) :
    ∃ nw : RS,
      (∀ r, s.new = some r → nw.spec = r.spec ∧ nw.avail = r.avail ∧ nw.pods = r.pods) ∧
      (s.new = none → nw.spec = max (newRSNewReplicas s (sumSpec s.olds + 0) 0) (lowerBound s) ∧
        nw.avail = 0 ∧ nw.pods = 0) ∧
      ((∃ rn : RS, (rolloutRolling s).new = some rn ∧ (rolloutRolling s).olds = s.olds ∧
          rn.spec = newTarget s (sumSpec s.olds) nw.spec ∧ rn.avail = nw.avail ∧ rn.pods = nw.pods ∧
          rn.spec ≠ nw.spec)
       ∨ ((rolloutRolling s).new = some nw ∧ (rolloutRolling s).olds = (reconcileOld s s.olds nw).2.1 ∧
          newTarget s (sumSpec s.olds) nw.spec = nw.spec)) := by
  obtain ⟨nw, w, hg, h1, h2⟩ := getNewRS_create s
  refine ⟨nw, h1, h2, ?_⟩
  have rn := reconcileNew_facts s s.olds nw
  unfold rolloutRolling
  rw [hg]
  simp only []
  by_cases hb : (reconcileNew s s.olds nw).1 = true
  · left
    simp only [hb, if_true]
    refine ⟨_, rfl, trivial, rn.1, rn.2.1, rn.2.2.1, ?_⟩
    rw [rn.1]; exact rn.2.2.2.mp hb
  · right
    have hb' : (reconcileNew s s.olds nw).1 = false := by simpa using hb
    simp only [hb', Bool.false_eq_true, if_false]
    refine ⟨trivial, trivial, ?_⟩
    by_cases he : newTarget s (sumSpec s.olds) nw.spec = nw.spec
    · exact he
    · exact absurd (rn.2.2.2.mpr he) hb

theorem sync_inScope (s : State) (h : inScope s = true) : sync s = rolloutRolling s := by
  simp only [inScope, Bool.and_eq_true, Bool.not_eq_true'] at h
  unfold sync
  simp [h.1.1, h.1.2, h.2]


theorem newTarget_ge (s : State) (o n : Int) (hl : limit s ≤ s.replicas) :
    min n s.replicas ≤ newTarget s o n := by
  unfold newTarget
  split
  · omega
  · split
    · omega
    · by_cases h : o + n > n
      · have := newRSNewReplicas_ge s (o + n) n h hl; omega
      · rw [newRSNewReplicas_default s _ _ h]; omega

/-- size of a created new RS -/
theorem created_size (s : State) (h : inv s = true) :
    0 ≤ max (newRSNewReplicas s (sumSpec s.olds + 0) 0) (lowerBound s) ∧
    max (newRSNewReplicas s (sumSpec s.olds + 0) 0) (lowerBound s) ≤ max s.replicas 0 := by
  have hR := inv_replicas s h
  have hl := limit_bounds s hR
  have hs := maxSurgeV_nonneg s h
  have hlb : 0 ≤ lowerBound s ∧ lowerBound s ≤ s.replicas := by
    unfold lowerBound; split <;> omega
  by_cases hc : sumSpec s.olds + 0 > 0
  · have := newRSNewReplicas_ge s _ 0 hc hl.2
    omega
  · rw [newRSNewReplicas_default s _ _ hc]; omega

/-- one in-scope sync, in terms of the state after it -/
theorem post_summary (s : State) (hsc : inScope s = true) :
    ∃ nw : RS,
      (∀ r, s.new = some r → nw.spec = r.spec ∧ nw.avail = r.avail ∧ nw.pods = r.pods) ∧
      (s.new = none → nw.spec = max (newRSNewReplicas s (sumSpec s.olds + 0) 0) (lowerBound s) ∧
        nw.avail = 0 ∧ nw.pods = 0) ∧
      ((∃ rn : RS, (post s).new = some rn ∧ (post s).olds = s.olds ∧
          rn.spec = newTarget s (sumSpec s.olds) nw.spec ∧ rn.avail = nw.avail ∧ rn.pods = nw.pods ∧
          rn.spec ≠ nw.spec)
       ∨ ((post s).new = some nw ∧ (post s).olds = (reconcileOld s s.olds nw).2.1 ∧
          newTarget s (sumSpec s.olds) nw.spec = nw.spec)) := by
  have := rolling_summary s
  simp only [post, sync_inScope s hsc]
  exact this


theorem newTarget_le (s : State) (o n : Int) (ho : 0 < o) : newTarget s o n ≤ max n (limit s) := by
  unfold newTarget
  split
  · omega
  · split
    · omega
    · exact newRSNewReplicas_le s _ _ (by omega)

theorem newTarget_surge (s : State) (o n : Int) (_ho : 0 ≤ o) (hs : 0 ≤ maxSurgeV s)
    (hup : n < newTarget s o n) : o + newTarget s o n ≤ s.replicas + maxSurgeV s := by
  unfold newTarget at *
  split at hup
  · omega
  · split at hup
    · omega
    · rename_i h1 h2
      simp only [h1, h2, if_false]
      by_cases h : o + n > n
      · have := newRSNewReplicas_surge s _ _ h hup; omega
      · rw [newRSNewReplicas_default s _ _ h]; omega

theorem newTarget_zero_old (s : State) (n : Int) : newTarget s 0 n = s.replicas := by
  unfold newTarget
  split
  · omega
  · split
    · rfl
    · exact newRSNewReplicas_default s _ _ (by omega)

/-- size of a created new RS outside the lower-bound region -/
theorem created_noLB (s : State) (h : inv s = true) (hn : s.new = none) (hg : lowerBoundRegion s = false) :
    (0 < sumSpec s.olds → max (newRSNewReplicas s (sumSpec s.olds + 0) 0) (lowerBound s) ≤ limit s) ∧
    (0 < max (newRSNewReplicas s (sumSpec s.olds + 0) 0) (lowerBound s) →
      sumSpec s.olds + max (newRSNewReplicas s (sumSpec s.olds + 0) 0) (lowerBound s) ≤ s.replicas + maxSurgeV s) := by
  have hR := inv_replicas s h
  have hl := limit_bounds s hR
  have hs := maxSurgeV_nonneg s h
  have ho := sumSpec_nonneg (inv_olds s h)
  have hlb : lowerBound s = 0 := by
    simp only [lowerBoundRegion, hn, Option.isNone_none, Bool.true_and, Bool.and_eq_false_iff,
      beq_eq_false_iff_ne, ne_eq, decide_eq_false_iff_not] at hg
    unfold lowerBound
    split
    · rfl
    · omega
  rw [hlb]
  by_cases hc : sumSpec s.olds + 0 > 0
  · have g := newRSNewReplicas_ge s _ 0 hc hl.2
    have l := newRSNewReplicas_le s _ 0 hc
    constructor
    · intro _; omega
    · intro hpos
      have := newRSNewReplicas_surge s _ 0 hc (by omega)
      omega
  · rw [newRSNewReplicas_default s _ _ hc]
    constructor
    · intro; omega
    · intro; omega

/-- size of a created new RS inside the lower-bound region: at most one pod above the bounds -/
theorem created_LB (s : State) (h : inv s = true) :
    max (newRSNewReplicas s (sumSpec s.olds + 0) 0) (lowerBound s) ≤ max (if 0 < sumSpec s.olds then limit s else s.replicas) 1 ∧
    sumSpec s.olds + max (newRSNewReplicas s (sumSpec s.olds + 0) 0) (lowerBound s)
      ≤ max (s.replicas + maxSurgeV s) (sumSpec s.olds + 1) := by
  have hR := inv_replicas s h
  have hl := limit_bounds s hR
  have hs := maxSurgeV_nonneg s h
  have ho := sumSpec_nonneg (inv_olds s h)
  have hlb : 0 ≤ lowerBound s ∧ lowerBound s ≤ 1 := by
    unfold lowerBound; split <;> omega
  by_cases hc : sumSpec s.olds + 0 > 0
  · have g := newRSNewReplicas_ge s _ 0 hc hl.2
    have l := newRSNewReplicas_le s _ 0 hc
    have hpos : 0 < sumSpec s.olds := by omega
    simp only [hpos, if_true]
    by_cases hz : 0 < newRSNewReplicas s (sumSpec s.olds + 0) 0
    · have := newRSNewReplicas_surge s _ 0 hc hz
      omega
    · omega
  · have hz : ¬ 0 < sumSpec s.olds := by omega
    rw [newRSNewReplicas_default s _ _ hc]
    simp only [hz, if_false]
    omega


/-! ### predicates preserved by every scale write (annotations) -/

/-- `P` survives a scale write whatever the new size -/
def WriteStable (s : State) (P : RS → Prop) : Prop :=
  ∀ r n, P r → P { r with spec := n, desired := some s.replicas, maxAnno := some (s.replicas + maxSurgeV s) }

theorem scaleAndRecord_stable {s : State} {P : RS → Prop} (hP : WriteStable s P) (r : RS) (n : Int)
    (h : P r) : P (scaleAndRecord s r n).1 := by
  rcases scaleAndRecord_fst s r n with e | e <;> rw [e]
  · exact h
  · exact hP r n h

theorem scaleReplicaSet_stable {s : State} {P : RS → Prop} (hP : WriteStable s P) (r : RS) (n : Int)
    (h : P r) : P (scaleReplicaSet s r n).1 := by
  unfold scaleReplicaSet
  simp only []
  split
  · exact hP r n h
  · exact h

theorem annoOk_stable (s : State) (h : 0 ≤ s.replicas + maxSurgeV s) :
    WriteStable s (fun r => annoOk r = true) := by
  intro r n _; simp [annoOk, h]

theorem cleanupLoop_all (s : State) (P : RS → Prop) (hP : WriteStable s P) (m : Int) :
    ∀ (l : List RS) (total : Int), (∀ r ∈ l, P r) → ∀ r ∈ (cleanupLoop s m l total).olds, P r := by
  intro l
  induction l with
  | nil => intro total _ r hr; simp [cleanupLoop] at hr
  | cons x rest ih =>
    intro total h
    have hx := h x (by simp)
    have hrest : ∀ r ∈ rest, P r := fun r hr => h r (by simp [hr])
    have step : ∀ (y : RS) (t : Int), P y → ∀ r ∈ y :: (cleanupLoop s m rest t).olds, P r := by
      intro y t hy r hr
      simp only [List.mem_cons] at hr
      rcases hr with hr | hr
      · rw [hr]; exact hy
      · exact ih t hrest r hr
    simp only [cleanupLoop]
    split
    · exact h
    · split
      · exact step x total hx
      · split
        · exact step x total hx
        · split
          · exact h
          · exact step _ _ (scaleAndRecord_stable hP x _ hx)

theorem scaleDownLoop_all (s : State) (P : RS → Prop) (hP : WriteStable s P) (c : Int) :
    ∀ (l : List RS) (total : Int), (∀ r ∈ l, P r) → ∀ r ∈ (scaleDownLoop s c l total).olds, P r := by
  intro l
  induction l with
  | nil => intro total _ r hr; simp [scaleDownLoop] at hr
  | cons x rest ih =>
    intro total h
    have hx := h x (by simp)
    have hrest : ∀ r ∈ rest, P r := fun r hr => h r (by simp [hr])
    have step : ∀ (y : RS) (t : Int), P y → ∀ r ∈ y :: (scaleDownLoop s c rest t).olds, P r := by
      intro y t hy r hr
      simp only [List.mem_cons] at hr
      rcases hr with hr | hr
      · rw [hr]; exact hy
      · exact ih t hrest r hr
    simp only [scaleDownLoop]
    split
    · exact h
    · split
      · exact step x total hx
      · split
        · exact h
        · exact step _ _ (scaleAndRecord_stable hP x _ hx)

theorem append_all {P : RS → Prop} {l₁ l₂ : List RS} (h₁ : ∀ r ∈ l₁, P r) (h₂ : ∀ r ∈ l₂, P r) :
    ∀ r ∈ l₁ ++ l₂, P r := by
  intro r hr
  rcases List.mem_append.mp hr with h | h
  · exact h₁ r h
  · exact h₂ r h

theorem cleanup_all (s : State) (P : RS → Prop) (hP : WriteStable s P) (l : List RS) (m : Int)
    (h : ∀ r ∈ l, P r) : ∀ r ∈ (cleanup s l m).olds, P r :=
  cleanupLoop_all s P hP m _ 0 (all_sortBy h)

theorem scaleDownOld_all (s : State) (P : RS → Prop) (hP : WriteStable s P) (l : List RS) (nw : RS)
    (h : ∀ r ∈ l, P r) : ∀ r ∈ (scaleDownOld s l nw).olds, P r := by
  unfold scaleDownOld
  simp only []
  split
  · exact h
  · exact scaleDownLoop_all s P hP _ _ 0 (all_sortBy h)

theorem scaleUpOld_all (s : State) (P : RS → Prop) (hP : WriteStable s P) (l : List RS) (n : Int)
    (h : ∀ r ∈ l, P r) : ∀ r ∈ (scaleUpOld s l n).2.1, P r := by
  unfold scaleUpOld
  split
  · exact h
  · split
    · exact h
    · rename_i r rest heq
      have hs : ∀ x ∈ r :: rest, P x := by rw [← heq]; exact all_sortBy h
      intro x hx
      simp only [List.mem_cons] at hx
      rcases hx with hx | hx
      · rw [hx]; exact scaleAndRecord_stable hP r _ (hs r (by simp))
      · exact hs x (by simp [hx])

theorem reconcileOld_all (s : State) (P : RS → Prop) (hP : WriteStable s P) (l : List RS) (nw : RS)
    (h : ∀ r ∈ l, P r) : ∀ r ∈ (reconcileOld s l nw).2.1, P r := by
  have ha : ∀ r ∈ active l, P r := fun r hr => h r (mem_active hr)
  have hi : ∀ r ∈ inactive l, P r := fun r hr => h r (mem_inactive hr)
  unfold reconcileOld
  simp only []
  split
  · exact h
  · split
    · exact append_all (scaleUpOld_all s P hP _ _ ha) hi
    · split
      · exact h
      · split
        · exact append_all (cleanup_all s P hP _ _ ha) hi
        · split
          · exact append_all (scaleDownOld_all s P hP _ _ (cleanup_all s P hP _ _ ha)) hi
          · exact append_all (scaleDownOld_all s P hP _ _ (cleanup_all s P hP _ _ ha)) hi

/-- annotations and status after a rolling sync -/
theorem rolling_anno (s : State) (h0 : 0 ≤ s.replicas + maxSurgeV s)
    (holds : ∀ r ∈ s.olds, annoOk r = true) (hnew : ∀ r, s.new = some r → annoOk r = true) :
    (∀ r ∈ (rolloutRolling s).olds, annoOk r = true) ∧
    (∀ r, (rolloutRolling s).new = some r → annoOk r = true) ∧
    (rolloutRolling s).statusReplicas = sumPods s.olds + optPods s.new := by
  have hP := annoOk_stable s h0
  have hnw : ∃ nw w, getNewRS s true = (some nw, w) ∧ annoOk nw = true ∧ nw.pods = optPods s.new := by
    unfold getNewRS
    cases hn : s.new with
    | none => exact ⟨_, _, rfl, by simp [annoOk, h0], by simp [optPods]⟩
    | some r => exact ⟨_, _, rfl, by have := hnew r hn; simpa [annoOk] using this, by simp [optPods]⟩
  obtain ⟨nw, w, hg, ha, hp⟩ := hnw
  unfold rolloutRolling
  rw [hg]
  simp only []
  split
  · refine ⟨holds, ?_, by rw [hp]⟩
    intro r hr
    simp only [Option.some.injEq] at hr
    rw [← hr]
    unfold reconcileNew
    split
    · exact ha
    · split
      · exact scaleAndRecord_stable hP nw _ ha
      · exact scaleAndRecord_stable hP nw _ ha
  · refine ⟨reconcileOld_all s _ hP _ _ holds, ?_, by rw [hp]⟩
    intro r hr
    simp only [Option.some.injEq] at hr
    rw [← hr]; exact ha


theorem inv_intro (s : State) (h1 : 0 ≤ s.replicas) (h2 : fenceOk s.maxSurge = true)
    (h3 : fenceOk s.maxUnavailable = true) (h4 : ∀ r ∈ s.olds, rsOk r = true)
    (h5 : ∀ r, s.new = some r → rsOk r = true) (h6 : 0 ≤ s.statusReplicas)
    (h7 : ∀ r ∈ s.olds, annoOk r = true) (h8 : ∀ r, s.new = some r → annoOk r = true) : inv s = true := by
  simp only [inv, invCore, invAnno, Bool.and_eq_true, decide_eq_true_eq, List.all_eq_true]
  refine ⟨⟨⟨⟨⟨h1, h2⟩, h3⟩, h4⟩, ?_⟩, ⟨⟨h6, h7⟩, ?_⟩⟩
  · cases hn : s.new with
    | none => rfl
    | some r => simpa using h5 r hn
  · cases hn : s.new with
    | none => rfl
    | some r => simpa using h8 r hn

theorem inv_elim (s : State) (h : inv s = true) :
    0 ≤ s.replicas ∧ fenceOk s.maxSurge = true ∧ fenceOk s.maxUnavailable = true ∧
    (∀ r ∈ s.olds, rsOk r = true) ∧ (∀ r, s.new = some r → rsOk r = true) ∧ 0 ≤ s.statusReplicas ∧
    (∀ r ∈ s.olds, annoOk r = true) ∧ (∀ r, s.new = some r → annoOk r = true) := by
  have h' := h
  simp only [inv, invCore, invAnno, Bool.and_eq_true, decide_eq_true_eq, List.all_eq_true] at h'
  obtain ⟨⟨⟨⟨⟨h1, h2⟩, h3⟩, h4⟩, h5⟩, ⟨⟨h6, h7⟩, h8⟩⟩ := h'
  refine ⟨h1, h2, h3, h4, inv_new s h, h6, h7, ?_⟩
  intro r hr; simpa [hr] using h8

theorem sumPods_nonneg {l : List RS} (h : ∀ r ∈ l, rsOk r = true) : 0 ≤ sumPods l :=
  sumBy_nonneg _ l (fun r hr => by have := (rsOk_iff r).mp (h r hr); omega)

/-- `I` is preserved by a sync on the rolling path -/
theorem inv_post_rolling (s : State) (h : inv s = true) (hsc : inScope s = true) : inv (post s) = true := by
  obtain ⟨h1, h2, h3, h4, h5, h6, h7, h8⟩ := inv_elim s h
  have hs0 := maxSurgeV_nonneg s h
  obtain ⟨a1, a2, a3⟩ := rolling_anno s (by omega) h7 h8
  obtain ⟨nw, e1, e2, hc⟩ := post_summary s hsc
  have hl := limit_bounds s h1
  have cs := created_size s h
  have tg := newTarget_ge s (sumSpec s.olds) nw.spec hl.2
  have hnw : rsOk nw = true := by
    rw [rsOk_iff]
    cases hn : s.new with
    | none => have := e2 hn; omega
    | some r => have := e1 r hn; have := (rsOk_iff r).mp (h5 r hn); omega
  have hnw' := (rsOk_iff nw).mp hnw
  have hpost : (post s).olds = (rolloutRolling s).olds ∧ (post s).new = (rolloutRolling s).new ∧
      (post s).statusReplicas = (rolloutRolling s).statusReplicas := by
    simp only [post, sync_inScope s hsc]; exact ⟨trivial, trivial, trivial⟩
  apply inv_intro
  · exact h1
  · exact h2
  · exact h3
  · rcases hc with ⟨rn, _, ho, _⟩ | ⟨_, ho, _⟩
    · rw [ho]; exact h4
    · rw [ho]; exact reconcileOld_ok s _ _ h4
  · intro r hr
    rcases hc with ⟨rn, hn, _, hs, ha, hp, _⟩ | ⟨hn, _, _⟩
    · rw [hn] at hr; cases hr
      rw [rsOk_iff]; omega
    · rw [hn] at hr; cases hr; exact hnw
  · rw [hpost.2.2, a3]
    have := sumPods_nonneg h4
    cases hn : s.new with
    | none => simp only [optPods]; omega
    | some r => have := (rsOk_iff r).mp (h5 r hn); simp only [optPods]; omega
  · rw [hpost.1]; exact a1
  · rw [hpost.2.1]; exact a2


/-! ### the scaling path preserves `I` -/

/-- per-RS part of the invariant -/
def Q (r : RS) : Prop := rsOk r = true ∧ annoOk r = true

theorem Q_write (s : State) (h0 : 0 ≤ s.replicas + maxSurgeV s) (r : RS) (n : Int) (hn : 0 ≤ n) (h : Q r) :
    Q { r with spec := n, desired := some s.replicas, maxAnno := some (s.replicas + maxSurgeV s) } := by
  obtain ⟨h1, _⟩ := h
  rw [rsOk_iff] at h1
  constructor
  · rw [rsOk_iff]; simp only []; omega
  · simp [annoOk, h0]

theorem Q_scaleAndRecord (s : State) (h0 : 0 ≤ s.replicas + maxSurgeV s) (r : RS) (n : Int) (hn : 0 ≤ n)
    (h : Q r) : Q (scaleAndRecord s r n).1 := by
  rcases scaleAndRecord_fst s r n with e | e <;> rw [e]
  · exact h
  · exact Q_write s h0 r n hn h

theorem Q_scaleReplicaSet (s : State) (h0 : 0 ≤ s.replicas + maxSurgeV s) (r : RS) (n : Int) (hn : 0 ≤ n)
    (h : Q r) : Q (scaleReplicaSet s r n).1 := by
  unfold scaleReplicaSet
  simp only []
  split
  · exact Q_write s h0 r n hn h
  · exact h

theorem roundDiv_nonneg (a b : Int) (ha : 0 ≤ a) (hb : 0 < b) : 0 ≤ roundDiv a b := by
  unfold roundDiv
  have h1 : decide (a < 0) = false := by simp; omega
  have h2 : decide (b < 0) = false := by simp; omega
  simp only [h1, h2, bne_self_eq_false, Bool.false_eq_true, if_false]
  exact Int.natCast_nonneg _

theorem rsFraction_nonneg (s : State) (r : RS) (f : Int) (hR : 0 ≤ s.replicas) (hs : 0 ≤ maxSurgeV s)
    (hst : 0 ≤ s.statusReplicas) (hq : Q r) (h : rsFraction s r = some f) : 0 ≤ r.spec + f := by
  have hr := (rsOk_iff r).mp hq.1
  unfold rsFraction at h
  by_cases hz : (s.replicas == 0) = true
  · simp only [hz, if_true, Option.some.injEq] at h; omega
  · simp only [hz, Bool.false_eq_true, if_false] at h
    have key : ∀ b : Int, 0 ≤ b →
        (if (b == 0) = true then none else some (roundDiv (r.spec * (s.replicas + maxSurgeV s)) b - r.spec)) = some f →
        0 ≤ r.spec + f := by
      intro b hge hh
      by_cases hb0 : (b == 0) = true
      · simp [hb0] at hh
      · simp only [hb0, Bool.false_eq_true, if_false, Option.some.injEq] at hh
        have hbne : b ≠ 0 := by simpa using hb0
        have := roundDiv_nonneg (r.spec * (s.replicas + maxSurgeV s)) b (Int.mul_nonneg hr.1 (by omega)) (by omega)
        omega
    cases hm : r.maxAnno with
    | none => rw [hm] at h; exact key _ hst h
    | some m =>
      rw [hm] at h
      have := hq.2; simp [annoOk, hm] at this
      exact key m this h

theorem proportionLoop_plan (s : State) (toAdd : Int) (hR : 0 ≤ s.replicas) (hs : 0 ≤ maxSurgeV s)
    (hst : 0 ≤ s.statusReplicas) :
    ∀ (l : List RS) (added : Int) (plan : List (RS × Int)) (a : Int),
      (∀ r ∈ l, Q r) → (0 < toAdd → added ≤ toAdd) →
      proportionLoop s toAdd l added = some (plan, a) → ∀ p ∈ plan, Q p.1 ∧ 0 ≤ p.2 := by
  intro l
  induction l with
  | nil =>
    intro added plan a _ _ h p hp
    simp only [proportionLoop, Option.some.injEq, Prod.mk.injEq] at h
    rw [← h.1] at hp; simp at hp
  | cons r rest ih =>
    intro added plan a hq hadd h
    have hr := hq r (by simp)
    have hrest : ∀ x ∈ rest, Q x := fun x hx => hq x (by simp [hx])
    have hspec := ((rsOk_iff r).mp hr.1).1
    simp only [proportionLoop] at h
    split at h
    · -- toAdd ≠ 0
      rename_i hne
      split at h
      · cases h
      · rename_i p hp
        split at h
        · cases h
        · rename_i l' a' hrec
          simp only [Option.some.injEq, Prod.mk.injEq] at h
          have hsize : 0 ≤ r.spec + p ∧ (0 < toAdd → added + p ≤ toAdd) := by
            unfold getProportion at hp
            split at hp
            · cases hp; constructor
              · omega
              · intro h'; have := hadd h'; omega
            · split at hp
              · cases hp
              · rename_i f hf
                have hfn := rsFraction_nonneg s r f hR hs hst hr hf
                simp only [] at hp
                split at hp
                · rename_i hpos
                  cases hp
                  have := hadd hpos
                  constructor
                  · omega
                  · intro _; omega
                · rename_i hnpos
                  cases hp
                  constructor
                  · omega
                  · intro h'; exact absurd h' hnpos
          intro q hqm
          rw [← h.1] at hqm
          simp only [List.mem_cons] at hqm
          rcases hqm with e | e
          · rw [e]; exact ⟨hr, hsize.1⟩
          · exact ih (added + p) l' a' hrest hsize.2 hrec q e
    · split at h
      · cases h
      · rename_i l' a' hrec
        simp only [Option.some.injEq, Prod.mk.injEq] at h
        intro q hqm
        rw [← h.1] at hqm
        simp only [List.mem_cons] at hqm
        rcases hqm with e | e
        · rw [e]; exact ⟨hr, hspec⟩
        · exact ih added l' a' hrest hadd hrec q e

theorem updateLoop_Q (s : State) (h0 : 0 ≤ s.replicas + maxSurgeV s) :
    ∀ (plan : List (RS × Int)), (∀ p ∈ plan, Q p.1 ∧ 0 ≤ p.2) → ∀ r ∈ (updateLoop s plan).1, Q r := by
  intro plan
  induction plan with
  | nil => intro _ r hr; simp [updateLoop] at hr
  | cons p rest ih =>
    intro h r hr
    obtain ⟨x, n⟩ := p
    have hp := h (x, n) (by simp)
    simp only [updateLoop, List.mem_cons] at hr
    rcases hr with e | e
    · rw [e]; exact Q_scaleReplicaSet s h0 x n hp.2 hp.1
    · exact ih (fun q hq => h q (by simp [hq])) r e

theorem splitNew_mem (l : List RS) :
    (∀ r, (splitNew l).1 = some r → r ∈ l) ∧ (∀ r ∈ (splitNew l).2, r ∈ l) := by
  induction l with
  | nil => simp [splitNew]
  | cons x rest ih =>
    simp only [splitNew]
    split
    · constructor
      · intro r hr; simp only [Option.some.injEq] at hr; simp [hr]
      · intro r hr; simp [ih.2 r hr]
    · constructor
      · intro r hr; simp [ih.1 r hr]
      · intro r hr
        simp only [List.mem_cons] at hr
        rcases hr with e | e
        · simp [e]
        · simp [ih.2 r e]

theorem scaleAllTo_Q (s : State) (h0 : 0 ≤ s.replicas + maxSurgeV s) (n : Int) (hn : 0 ≤ n) :
    ∀ (l : List RS), (∀ r ∈ l, Q r) → ∀ r ∈ (scaleAllTo s n l).1, Q r := by
  intro l
  induction l with
  | nil => intro _ r hr; simp [scaleAllTo] at hr
  | cons x rest ih =>
    intro h r hr
    simp only [scaleAllTo, List.mem_cons] at hr
    rcases hr with e | e
    · rw [e]; exact Q_scaleAndRecord s h0 x n hn (h x (by simp))
    · exact ih (fun q hq => h q (by simp [hq])) r e

theorem replaceIdx_Q (r' : RS) (h' : Q r') : ∀ (l : List RS), (∀ r ∈ l, Q r) → ∀ r ∈ replaceIdx r' l, Q r := by
  intro l
  induction l with
  | nil => intro _ r hr; simp [replaceIdx] at hr
  | cons x rest ih =>
    intro h r hr
    simp only [replaceIdx] at hr
    split at hr
    · simp only [List.mem_cons] at hr
      rcases hr with e | e
      · rw [e]; exact h'
      · exact h r (by simp [e])
    · simp only [List.mem_cons] at hr
      rcases hr with e | e
      · rw [e]; exact h x (by simp)
      · exact ih (fun q hq => h q (by simp [hq])) r e

theorem findActiveOrLatest_mem (nw : Option RS) (olds : List RS) (r : RS)
    (h : findActiveOrLatest nw olds = some r) : r ∈ olds ∨ nw = some r := by
  unfold findActiveOrLatest at h
  split at h
  · cases h
  · simp only [] at h
    have hsub : ∀ x ∈ active (sortBy byCreationDesc olds ++ nw.toList), x ∈ olds ∨ nw = some x := by
      intro x hx
      have := mem_active hx
      rcases List.mem_append.mp this with e | e
      · left; exact mem_sortBy.mp e
      · right
        cases nw with
        | none => simp at e
        | some y => simp at e; rw [e]
    split at h
    · split at h
      · right; rw [h]
      · left
        have := List.mem_of_mem_head? h
        exact mem_sortBy.mp this
    · rename_i x heq
      cases h
      exact hsub r (by rw [heq]; simp)
    · cases h


theorem Q_of (r : RS) (h1 : rsOk r = true) (h2 : annoOk r = true) : Q r := ⟨h1, h2⟩

theorem cleanup_Q (s : State) (h0 : 0 ≤ s.replicas + maxSurgeV s) (l : List RS) (m : Int)
    (h : ∀ r ∈ l, Q r) : ∀ r ∈ (cleanup s l m).olds, Q r := by
  intro r hr
  exact ⟨cleanup_ok s l m (fun x hx => (h x hx).1) r hr,
         cleanup_all s _ (annoOk_stable s h0) l m (fun x hx => (h x hx).2) r hr⟩

theorem toList_Q {nw : Option RS} (hn : ∀ r, nw = some r → Q r) : ∀ r ∈ nw.toList, Q r := by
  intro r hr
  cases nw with
  | none => simp at hr
  | some x => simp at hr; exact hn r (by rw [hr])

theorem distribute_Q (s : State) (hR : 0 ≤ s.replicas) (hs : 0 ≤ maxSurgeV s) (hst : 0 ≤ s.statusReplicas)
    (nw : Option RS) (cOlds : List RS) (cWrites : List Write) (toAdd : Int) (allRSs : List RS)
    (hc : ∀ r ∈ cOlds, Q r) (hn : ∀ r, nw = some r → Q r) (ha : ∀ r ∈ allRSs, Q r) :
    (∀ r ∈ (distribute s nw cOlds cWrites toAdd allRSs).olds, Q r) ∧
    (∀ r, (distribute s nw cOlds cWrites toAdd allRSs).new = some r → Q r) := by
  have h0 : 0 ≤ s.replicas + maxSurgeV s := by omega
  unfold distribute
  simp only []
  have hsorted : ∀ r ∈ (if toAdd > 0 then sortBy bySizeNewer allRSs
      else if toAdd < 0 then sortBy bySizeOlder allRSs else allRSs), Q r := by
    split
    · exact all_sortBy ha
    · split
      · exact all_sortBy ha
      · exact ha
  split
  · exact ⟨hc, hn⟩
  · rename_i plan added hpl
    have hplan := proportionLoop_plan s toAdd hR hs hst _ 0 plan added hsorted (fun h => by omega) hpl
    have hplan' : ∀ p ∈ (match plan with
        | [] => []
        | (r, n) :: rest =>
          if toAdd != 0 then (r, if n + (toAdd - added) < 0 then 0 else n + (toAdd - added)) :: rest
          else (r, n) :: rest), Q p.1 ∧ 0 ≤ p.2 := by
      cases plan with
      | nil => intro p hp; simp at hp
      | cons x rest =>
        obtain ⟨r, n⟩ := x
        have hx := hplan (r, n) (by simp)
        simp only []
        split
        · intro p hp
          simp only [List.mem_cons] at hp
          rcases hp with e | e
          · rw [e]; refine ⟨hx.1, ?_⟩
            simp only []; split <;> omega
          · exact hplan p (by simp [e])
        · exact hplan
    have hup := updateLoop_Q s h0 _ hplan'
    have hsp := splitNew_mem (updateLoop s (match plan with
        | [] => []
        | (r, n) :: rest =>
          if toAdd != 0 then (r, if n + (toAdd - added) < 0 then 0 else n + (toAdd - added)) :: rest
          else (r, n) :: rest)).1
    constructor
    · exact append_all (fun r hr => hup r (hsp.2 r hr)) (fun r hr => hc r (mem_inactive hr))
    · intro r hr
      split at hr
      · rename_i x hx
        cases hr
        exact hup r (hsp.1 r hx)
      · exact hn r hr

theorem active_Q {l : List RS} (h : ∀ r ∈ l, Q r) : ∀ r ∈ active l, Q r := fun r hr => h r (mem_active hr)

theorem scaleProportional_Q (s : State) (hR : 0 ≤ s.replicas) (hs : 0 ≤ maxSurgeV s) (hst : 0 ≤ s.statusReplicas)
    (nw : Option RS) (olds : List RS) (hq : ∀ r ∈ olds, Q r) (hn : ∀ r, nw = some r → Q r) :
    (∀ r ∈ (scaleProportional s nw olds).olds, Q r) ∧
    (∀ r, (scaleProportional s nw olds).new = some r → Q r) := by
  have h0 : 0 ≤ s.replicas + maxSurgeV s := by omega
  unfold scaleProportional
  simp only []
  generalize (if s.replicas > 0 then s.replicas else 0) -
    sumSpec (active (sortBy byCreationDesc olds ++ nw.toList)) = toAdd
  have hc := fun m => cleanup_Q s h0 olds m hq
  split
  · split
    · exact ⟨hc _, hn⟩
    · exact distribute_Q s hR hs hst nw _ _ _ _ (hc _) hn (active_Q (append_all (hc _) (toList_Q hn)))
  · exact distribute_Q s hR hs hst nw _ _ _ _ hq hn
      (active_Q (append_all (all_sortBy hq) (toList_Q hn)))

theorem scale_Q (s : State) (hR : 0 ≤ s.replicas) (hs : 0 ≤ maxSurgeV s) (hst : 0 ≤ s.statusReplicas)
    (nw : Option RS) (olds : List RS) (hq : ∀ r ∈ olds, Q r) (hn : ∀ r, nw = some r → Q r) :
    (∀ r ∈ (scale s nw olds).olds, Q r) ∧ (∀ r, (scale s nw olds).new = some r → Q r) := by
  have h0 : 0 ≤ s.replicas + maxSurgeV s := by omega
  unfold scale
  split
  · rename_i r hf
    have hr : Q r := by
      rcases findActiveOrLatest_mem nw olds r hf with e | e
      · exact hq r e
      · exact hn r e
    split
    · exact ⟨hq, hn⟩
    · have hr' := Q_scaleAndRecord s h0 r s.replicas hR hr
      simp only []
      split
      · refine ⟨hq, ?_⟩
        intro x hx; simp only [Option.some.injEq] at hx; rw [← hx]; exact hr'
      · exact ⟨replaceIdx_Q _ hr' olds hq, hn⟩
  · split
    · refine ⟨?_, hn⟩
      exact append_all (scaleAllTo_Q s h0 0 (by omega) _ (active_Q (all_sortBy hq)))
        (fun r hr => hq r (mem_inactive hr))
    · exact scaleProportional_Q s hR hs hst nw olds hq hn


theorem getNewRS_false_Q (s : State) (hn : ∀ r, s.new = some r → Q r) :
    (∀ r, (getNewRS s false).1 = some r → Q r) ∧ optPods (getNewRS s false).1 = optPods s.new := by
  unfold getNewRS
  cases h : s.new with
  | none => simp [optPods]
  | some r0 =>
    have := hn r0 h
    constructor
    · intro r hr
      simp only [Option.some.injEq] at hr
      rw [← hr]
      obtain ⟨q1, q2⟩ := this
      rw [rsOk_iff] at q1
      exact ⟨by rw [rsOk_iff]; exact q1, by simpa [annoOk] using q2⟩
    · simp [optPods]

theorem Q_all_of_inv (s : State) (h : inv s = true) :
    (∀ r ∈ s.olds, Q r) ∧ (∀ r, s.new = some r → Q r) := by
  obtain ⟨_, _, _, h4, h5, _, h7, h8⟩ := inv_elim s h
  exact ⟨fun r hr => ⟨h4 r hr, h7 r hr⟩, fun r hr => ⟨h5 r hr, h8 r hr⟩⟩

theorem inv_of_parts (s t : State) (h : inv s = true) (e1 : t.replicas = s.replicas)
    (e2 : t.maxSurge = s.maxSurge) (e3 : t.maxUnavailable = s.maxUnavailable)
    (ho : ∀ r ∈ t.olds, Q r) (hn : ∀ r, t.new = some r → Q r) (hst : 0 ≤ t.statusReplicas) :
    inv t = true := by
  obtain ⟨h1, h2, h3, _⟩ := inv_elim s h
  exact inv_intro _ (by rw [e1]; exact h1) (by rw [e2]; exact h2) (by rw [e3]; exact h3)
    (fun r hr => (ho r hr).1) (fun r hr => (hn r hr).1) hst
    (fun r hr => (ho r hr).2) (fun r hr => (hn r hr).2)

theorem statusSum_nonneg (s : State) (h : inv s = true) : 0 ≤ sumPods s.olds + optPods s.new := by
  obtain ⟨_, _, _, h4, h5, _, _, _⟩ := inv_elim s h
  have := sumPods_nonneg h4
  cases hn : s.new with
  | none => simp only [optPods]; omega
  | some r => have := (rsOk_iff r).mp (h5 r hn); simp only [optPods]; omega

theorem syncScale_parts (s : State) (h : inv s = true) :
    (∀ r ∈ (syncScale s).olds, Q r) ∧ (∀ r, (syncScale s).new = some r → Q r) ∧
    0 ≤ (syncScale s).statusReplicas := by
  obtain ⟨h1, _, _, _, _, h6, _, _⟩ := inv_elim s h
  obtain ⟨q1, q2⟩ := Q_all_of_inv s h
  obtain ⟨g1, g2⟩ := getNewRS_false_Q s q2
  have hs0 := maxSurgeV_nonneg s h
  have sc := scale_Q s h1 hs0 h6 (getNewRS s false).1 s.olds q1 g1
  refine ⟨sc.1, sc.2, ?_⟩
  simp only [syncScale]
  split
  · exact h6
  · rw [g2]; exact statusSum_nonneg s h

/-- **`I` is preserved by every sync** (rolling path, scaling path, status-only path). -/
theorem inv_post (s : State) (h : inv s = true) : inv (post s) = true := by
  by_cases hsc : inScope s = true
  · exact inv_post_rolling s h hsc
  · obtain ⟨q1, q2⟩ := Q_all_of_inv s h
    obtain ⟨g1, g2⟩ := getNewRS_false_Q s q2
    obtain ⟨p1, p2, p3⟩ := syncScale_parts s h
    apply inv_of_parts s (post s) h rfl rfl rfl
    all_goals (unfold post sync)
    all_goals (
      by_cases hd : s.deleting = true
      · simp only [hd, if_true]
        first
          | exact q1
          | exact g1
          | (rw [g2]; exact statusSum_nonneg s h)
      · simp only [hd, Bool.false_eq_true, if_false]
        by_cases hp : s.paused = true
        · simp only [hp, if_true]
          first | exact p1 | exact p2 | exact p3
        · simp only [hp, Bool.false_eq_true, if_false]
          by_cases he : isScalingEvent s = true
          · simp only [he, if_true]
            first | exact p1 | exact p2 | exact p3
          · exfalso; apply hsc
            simp only [inScope, Bool.and_eq_true, Bool.not_eq_true']
            exact ⟨⟨by simpa using hd, by simpa using hp⟩, by simpa using he⟩)


/-! ### progress (used for convergence) -/

theorem scaleDownLoop_exact (s : State) (c : Int) : ∀ (l : List RS) (total : Int),
    (∀ r ∈ l, 0 ≤ r.spec) → total ≤ c →
    (scaleDownLoop s c l total).err = false ∧
    sumSpec l - sumSpec (scaleDownLoop s c l total).olds = min (c - total) (sumSpec l) := by
  intro l
  induction l with
  | nil => intro total _ _; simp [scaleDownLoop, sumSpec]; omega
  | cons r rest ih =>
    intro total h ht
    have hr := h r (by simp)
    have hrest : ∀ x ∈ rest, 0 ≤ x.spec := fun x hx => h x (by simp [hx])
    have hsum : 0 ≤ sumSpec rest := sumBy_nonneg _ _ hrest
    simp only [scaleDownLoop]
    split
    · simp only [sumSpec, sumBy_cons] at *; refine ⟨trivial, ?_⟩; omega
    · split
      · rename_i h0
        have h0' : r.spec = 0 := by simpa using h0
        have := ih total hrest ht
        simp only [sumSpec, sumBy_cons] at *
        refine ⟨this.1, ?_⟩; omega
      · split
        · omega
        · have := ih (total + min r.spec (c - total)) hrest (by omega)
          simp only [sumSpec, sumBy_cons, scaleAndRecord_spec] at *
          refine ⟨this.1, ?_⟩; omega

theorem cleanupLoop_healthy (s : State) (m : Int) : ∀ (l : List RS) (total : Int),
    (∀ r ∈ l, r.spec = r.avail) →
    (cleanupLoop s m l total).olds = l ∧ (cleanupLoop s m l total).err = false := by
  intro l
  induction l with
  | nil => intro total _; simp [cleanupLoop]
  | cons r rest ih =>
    intro total h
    have hr := h r (by simp)
    have hrest : ∀ x ∈ rest, x.spec = x.avail := fun x hx => h x (by simp [hx])
    have := ih total hrest
    simp only [cleanupLoop]
    split
    · exact ⟨rfl, rfl⟩
    · split
      · simp only [this.1, this.2]; exact ⟨trivial, trivial⟩
      · split
        · simp only [this.1, this.2]; exact ⟨trivial, trivial⟩
        · rename_i h1 h2 h3
          exact absurd (by simpa using hr) h3

theorem sumAvail_eq_sumSpec (l : List RS) (h : ∀ r ∈ l, r.spec = r.avail) : sumAvail l = sumSpec l := by
  induction l with
  | nil => rfl
  | cons r rs ih =>
    have := h r (by simp)
    have := ih (fun x hx => h x (by simp [hx]))
    simp only [sumAvail, sumSpec, sumBy_cons] at *; omega

theorem scaleDownOld_exact (s : State) (l : List RS) (nw : RS) (hs : ∀ r ∈ l, 0 ≤ r.spec)
    (hA : 0 < sumAvail l + nw.avail - (s.replicas - maxUnavailV s))
    (hL : 0 ≤ scaleDownLimitForOld s l nw.spec) :
    (scaleDownOld s l nw).err = false ∧
    sumSpec l - sumSpec (scaleDownOld s l nw).olds =
      min (min (sumAvail l + nw.avail - (s.replicas - maxUnavailV s)) (scaleDownLimitForOld s l nw.spec)) (sumSpec l) := by
  unfold scaleDownOld
  simp only []
  split
  · omega
  · have hl : scaleDownLimitForOld s (sortBy bySmallerRevision l) nw.spec = scaleDownLimitForOld s l nw.spec := by
      simp only [scaleDownLimitForOld, sumSpec, sumBy_sortBy]
    rw [hl]
    have := scaleDownLoop_exact s
      (min (sumAvail l + nw.avail - (s.replicas - maxUnavailV s)) (scaleDownLimitForOld s l nw.spec))
      (sortBy bySmallerRevision l) 0 (all_sortBy hs) (by omega)
    simp only [sumSpec, sumBy_sortBy] at *
    refine ⟨this.1, ?_⟩; omega

/-- in a settled state, with nothing reserved for the old RSs and a positive availability budget,
    `reconcileOldReplicaSets` removes at least one old pod -/
theorem reconcileOld_progress (s : State) (l : List RS) (nw : RS) (hok : ∀ r ∈ l, rsOk r = true)
    (hset : ∀ r ∈ l, r.spec = r.avail) (hnw : nw.avail = nw.spec)
    (hpos : 0 < sumSpec l)
    (hres : s.replicas - max (limit s) nw.spec ≤ 0)
    (hM : 1 ≤ sumSpec l + nw.spec - (s.replicas - maxUnavailV s)) :
    sumSpec (reconcileOld s l nw).2.1 < sumSpec l := by
  have a1 := sumBy_active_inactive (·.spec) l
  have i0 := sumSpec_inactive_zero l (fun r hr => ((rsOk_iff r).mp (hok r hr)).1)
  have hact : ∀ r ∈ active l, 0 ≤ r.spec := fun r hr => ((rsOk_iff r).mp (hok r (mem_active hr))).1
  have hsetA : ∀ r ∈ active l, r.spec = r.avail := fun r hr => hset r (mem_active hr)
  have hav := sumAvail_eq_sumSpec (active l) hsetA
  unfold reconcileOld
  simp only []
  split
  · rename_i h
    have : sumSpec (active l) = 0 := by simpa using h
    simp only [sumSpec] at *; omega
  · split
    · rename_i hlim
      simp only [scaleDownLimitForOld, sumSpec] at *; omega
    · split
      · rename_i hm
        simp only [scaleDownLimitForOld, sumSpec] at *; omega
      · have hc := cleanupLoop_healthy s
          (min (sumSpec l + nw.spec - (s.replicas - maxUnavailV s) - (nw.spec - nw.avail))
            (scaleDownLimitForOld s (active l) nw.spec))
          (sortBy byCreation (active l)) 0 (all_sortBy hsetA)
        simp only [cleanup, hc.1, hc.2, Bool.false_eq_true, if_false]
        have hd := scaleDownOld_exact s (sortBy byCreation (active l)) nw (all_sortBy hact)
          (by simp only [sumAvail, sumBy_sortBy] at *; simp only [sumSpec] at *; omega)
          (by simp only [scaleDownLimitForOld, sumSpec, sumBy_sortBy] at *; omega)
        simp only [hd.1, Bool.false_eq_true, if_false]
        have hd2 := hd.2
        simp only [scaleDownLimitForOld, sumSpec, sumAvail, sumBy_sortBy, sumBy_append] at *
        omega


theorem newTarget_between (s : State) (o n : Int) (hl : limit s ≤ s.replicas) :
    min n s.replicas ≤ newTarget s o n ∧ newTarget s o n ≤ max n s.replicas := by
  refine ⟨newTarget_ge s o n hl, ?_⟩
  unfold newTarget
  split
  · omega
  · split
    · omega
    · by_cases h : o + n > n
      · have := newRSNewReplicas_ge s (o + n) n h hl; omega
      · rw [newRSNewReplicas_default s _ _ h]; omega

/-- when the new RS is below a covering limit and still is not raised, the surge budget is used up -/
theorem newRSNewReplicas_stuck (s : State) (cur n : Int) (hc : cur > n) (hl : n < limit s)
    (hR : limit s ≤ s.replicas) (h : newRSNewReplicas s cur n = n) : s.replicas + maxSurgeV s ≤ cur := by
  unfold newRSNewReplicas at h
  simp only [hc, if_true] at h
  split at h
  · omega
  · split at h
    · omega
    · omega

theorem live_budget (s : State) (h : inv s = true) (hl : cfgLive s = true) (hR : 1 ≤ s.replicas) :
    1 ≤ maxSurgeV s + maxUnavailV s := by
  simp only [cfgLive, Bool.and_eq_true] at hl
  obtain ⟨hroll, hsome⟩ := hl
  cases hr : resolveFenceposts s.maxSurge s.maxUnavailable s.replicas with
  | none => rw [hr] at hsome; simp at hsome
  | some p =>
    obtain ⟨a, u⟩ := p
    have hn := fenceposts_nonneg s h hr
    have hsum : 1 ≤ a + u := by
      unfold resolveFenceposts at hr
      generalize scaled (s.maxSurge.getD (.int 0)) s.replicas true = x at *
      generalize scaled (s.maxUnavailable.getD (.int 0)) s.replicas false = y at *
      obtain ⟨x1, x2⟩ := x
      obtain ⟨y1, y2⟩ := y
      simp only [] at hr
      split at hr
      · cases hr
      · split at hr
        · cases hr
        · split at hr
          · cases hr; omega
          · rename_i hz
            cases hr
            simp only [Bool.and_eq_true, beq_iff_eq, not_and] at hz
            omega
    have hz : ¬ s.replicas = 0 := by omega
    simp only [maxSurgeV, maxUnavailV, hroll, hr, Bool.not_true, Bool.false_eq_true, if_false,
      Bool.false_or, beq_iff_eq, hz]
    split <;> omega


/-! ### the variant -/

theorem settled_elim (s : State) (h : settled s = true) :
    (∀ r ∈ s.olds, r.spec = r.avail) ∧ (∀ r, s.new = some r → r.avail = r.spec) := by
  simp only [settled, List.all_eq_true, List.mem_append, Bool.and_eq_true, beq_iff_eq] at h
  refine ⟨fun r hr => ((h r (Or.inl hr)).2).symm, fun r hr => (h r (Or.inr (by simp [hr]))).2⟩

theorem variant_post_le (s : State) (h : inv s = true) (hsc : inScope s = true) (hcov : covers s = true) :
    variant (post s) ≤ variant s ∧ (s.new = none → variant (post s) < variant s) := by
  have hcov' : limit s = s.replicas := by simpa [covers] using hcov
  obtain ⟨nw, e1, e2, hc⟩ := post_summary s hsc
  have hR := inv_replicas s h
  have hok := inv_olds s h
  have ho := sumSpec_nonneg hok
  have cs := created_size s h
  have tb := newTarget_between s (sumSpec s.olds) nw.spec (by omega)
  have ro := reconcileOld_facts s s.olds nw hok
  have ro0 := sumSpec_nonneg (reconcileOld_ok s s.olds nw hok)
  have hpr : (post s).replicas = s.replicas := rfl
  simp only [variant, oldTotal]
  rcases hc with ⟨rn, hn, hol, hs, _⟩ | ⟨hn, hol, he⟩
  · rw [hn, hol]
    cases hnew : s.new with
    | none => have := e2 hnew; simp only []; omega
    | some r =>
      have := e1 r hnew
      refine ⟨?_, fun hh => absurd hh (by simp)⟩
      simp only []; omega
  · rw [hn, hol]
    cases hnew : s.new with
    | none => have := e2 hnew; simp only []; omega
    | some r =>
      have := e1 r hnew
      refine ⟨?_, fun hh => absurd hh (by simp)⟩
      simp only []; omega

theorem variant_post_lt (s : State) (h : inv s = true) (hsc : inScope s = true) (hcov : covers s = true)
    (hlive : cfgLive s = true) (hset : settled s = true) (hnf : final s = false) :
    variant (post s) < variant s := by
  have hcov' : limit s = s.replicas := by simpa [covers] using hcov
  cases hnew : s.new with
  | none => exact (variant_post_le s h hsc hcov).2 hnew
  | some r =>
    obtain ⟨nw, e1, e2, hc⟩ := post_summary s hsc
    obtain ⟨st1, st2⟩ := settled_elim s hset
    have hR := inv_replicas s h
    have hok := inv_olds s h
    have ho := sumSpec_nonneg hok
    have tb := newTarget_between s (sumSpec s.olds) nw.spec (by omega)
    have er := e1 r hnew
    have hr := (rsOk_iff r).mp (inv_new s h r hnew)
    have hu := maxUnavailV_bounds s h
    have hsg := maxSurgeV_nonneg s h
    have hfin : ¬ (r.spec = s.replicas ∧ sumSpec s.olds = 0) := by
      intro hh
      simp [final, hnew, hh.1, oldTotal, hh.2] at hnf
    have hpr : (post s).replicas = s.replicas := rfl
    simp only [variant, oldTotal, hnew]
    rcases hc with ⟨rn, hn, hol, hs, _, _, hne⟩ | ⟨hn, hol, he⟩
    · rw [hn, hol]; simp only []; omega
    · rw [hn, hol]; simp only []
      have ro0 := sumSpec_nonneg (reconcileOld_ok s s.olds nw hok)
      by_cases hz : sumSpec s.olds = 0
      · rw [hz, newTarget_zero_old] at he; omega
      · have hM : 1 ≤ sumSpec s.olds + nw.spec - (s.replicas - maxUnavailV s) := by
          by_cases hn1 : nw.spec = s.replicas
          · omega
          · unfold newTarget at he
            simp only [hn1, if_false] at he
            by_cases hn2 : nw.spec > s.replicas
            · simp only [hn2, if_true] at he; omega
            · simp only [hn2, if_false] at he
              have := newRSNewReplicas_stuck s _ _ (by omega) (by omega) (by omega) he
              have := live_budget s h hlive (by omega)
              omega
        have := reconcileOld_progress s s.olds nw hok st1 (by have := st2 r hnew; omega) (by omega)
          (by omega) hM
        omega


/-! ### no scaling event arises on the rolling path -/

/-- an active RS does not carry a stale desired-replicas annotation -/
def NoEv (R : Int) (r : RS) : Prop := 0 < r.spec → ∀ d, r.desired = some d → d = R

theorem isScalingEvent_false_iff (s : State) :
    isScalingEvent s = false ↔ ∀ r ∈ s.olds ++ s.new.toList, NoEv s.replicas r := by
  simp only [isScalingEvent, List.any_eq_false, active, List.mem_filter, decide_eq_true_eq, NoEv]
  constructor
  · intro h r hr hpos d hd
    have := h r ⟨hr, hpos⟩
    simp only [hd] at this
    simpa using this
  · intro h r hr
    have := h r hr.1 hr.2
    cases hd : r.desired with
    | none => simp
    | some d => simp [this d hd]

theorem NoEv_stable (s : State) : WriteStable s (NoEv s.replicas) := by
  intro r n _ _ d hd
  simp only [Option.some.injEq] at hd
  exact hd.symm

/-- any write-stable predicate that ignores the revision and holds for a created RS survives a rolling sync -/
theorem rolling_stable (s : State) (P : RS → Prop) (hP : WriteStable s P)
    (hrev : ∀ r v, P r → P { r with revision := v })
    (hcr : ∀ n v, P { idx := -1, name := createdName, created := s.now, revision := v, spec := n, pods := 0,
                      avail := 0, desired := some s.replicas, maxAnno := some (s.replicas + maxSurgeV s) })
    (holds : ∀ r ∈ s.olds, P r) (hnew : ∀ r, s.new = some r → P r) :
    (∀ r ∈ (rolloutRolling s).olds, P r) ∧ (∀ r, (rolloutRolling s).new = some r → P r) := by
  have hnw : ∃ nw w, getNewRS s true = (some nw, w) ∧ P nw := by
    unfold getNewRS
    cases hn : s.new with
    | none => exact ⟨_, _, rfl, hcr _ _⟩
    | some r => exact ⟨_, _, rfl, hrev r _ (hnew r hn)⟩
  obtain ⟨nw, w, hg, ha⟩ := hnw
  unfold rolloutRolling
  rw [hg]
  simp only []
  split
  · refine ⟨holds, ?_⟩
    intro r hr
    simp only [Option.some.injEq] at hr
    rw [← hr]
    unfold reconcileNew
    split
    · exact ha
    · split
      · exact scaleAndRecord_stable hP nw _ ha
      · exact scaleAndRecord_stable hP nw _ ha
  · refine ⟨reconcileOld_all s _ hP _ _ holds, ?_⟩
    intro r hr
    simp only [Option.some.injEq] at hr
    rw [← hr]; exact ha

theorem inScope_post (s : State) (hsc : inScope s = true) : inScope (post s) = true := by
  have hsc' := hsc
  simp only [inScope, Bool.and_eq_true, Bool.not_eq_true'] at hsc'
  obtain ⟨⟨hd, hp⟩, he⟩ := hsc'
  have hall := (isScalingEvent_false_iff s).mp he
  have hr := rolling_stable s (NoEv s.replicas) (NoEv_stable s)
    (fun r v h => h) (fun n v _ d hd => by simp only [Option.some.injEq] at hd; exact hd.symm)
    (fun r hr => hall r (List.mem_append.mpr (Or.inl hr)))
    (fun r hr => hall r (List.mem_append.mpr (Or.inr (by simp [hr]))))
  have he' : isScalingEvent (post s) = false := by
    rw [isScalingEvent_false_iff]
    have e1 : (post s).olds = (rolloutRolling s).olds := by simp only [post, sync_inScope s hsc]
    have e2 : (post s).new = (rolloutRolling s).new := by simp only [post, sync_inScope s hsc]
    have e3 : (post s).replicas = s.replicas := rfl
    rw [e1, e2, e3]
    intro r hmem
    rcases List.mem_append.mp hmem with h | h
    · exact hr.1 r h
    · cases hn : (rolloutRolling s).new with
      | none => rw [hn] at h; simp at h
      | some x =>
        rw [hn] at h; simp at h
        rw [h]; exact hr.2 x hn
  simp only [inScope, Bool.and_eq_true, Bool.not_eq_true']
  exact ⟨⟨hd, hp⟩, he'⟩

theorem live_elim (s : State) (h : live s = true) :
    inv s = true ∧ inScope s = true ∧ covers s = true ∧ cfgLive s = true := by
  simp only [live, Bool.and_eq_true] at h
  exact ⟨h.1.1.1, h.1.1.2, h.1.2, h.2⟩

theorem live_post (s : State) (h : live s = true) : live (post s) = true := by
  obtain ⟨h1, h2, h3, h4⟩ := live_elim s h
  have a := inv_post s h1
  have b := inScope_post s h2
  have c : covers (post s) = covers s := rfl
  have d : cfgLive (post s) = cfgLive s := rfl
  simp only [live, a, b, c, d, h3, h4, Bool.and_self]


/-! ### environment steps -/

/-- pointwise admissible status moves of a list of RSs -/
inductive EnvList : List RS → List RS → Prop
  | nil : EnvList [] []
  | cons {a b : RS} {l l' : List RS} : envOk a b = true → EnvList l l' → EnvList (a :: l) (b :: l')

/-- an environment step: the status of every RS moves admissibly (`envOk`: pods toward spec,
    availability anywhere within pods); specs, annotations and the deployment are untouched -/
def EnvStep (s t : State) : Prop :=
  t = { s with new := t.new, olds := t.olds } ∧
  EnvList s.olds t.olds ∧
  (match s.new, t.new with
    | none, none => True
    | some r, some r' => envOk r r' = true
    | _, _ => False)

theorem envOk_elim (r r' : RS) (h : envOk r r' = true) :
    r'.spec = r.spec ∧ r'.desired = r.desired ∧ r'.maxAnno = r.maxAnno ∧ 0 ≤ r'.avail ∧ r'.avail ≤ r'.pods := by
  simp only [envOk, Bool.and_eq_true, beq_iff_eq, decide_eq_true_eq] at h
  obtain ⟨⟨⟨e, h1⟩, h2⟩, _⟩ := h
  refine ⟨?_, ?_, ?_, h1, h2⟩ <;> (rw [e])

theorem forall2_env {l l' : List RS} (h : EnvList l l') :
    sumSpec l' = sumSpec l ∧ (∀ r' ∈ l', ∃ r ∈ l, envOk r r' = true) := by
  induction h with
  | nil => simp [sumSpec]
  | @cons a b l₁ l₂ hh _ ih =>
    have := (envOk_elim a b hh).1
    constructor
    · simp only [sumSpec, sumBy_cons] at *; omega
    · intro r' hr'
      simp only [List.mem_cons] at hr'
      rcases hr' with e | e
      · exact ⟨a, by simp, by rw [e]; exact hh⟩
      · obtain ⟨r, hr, he⟩ := ih.2 r' e
        exact ⟨r, by simp [hr], he⟩

theorem env_Q (r r' : RS) (h : envOk r r' = true) (hq : Q r) : Q r' := by
  obtain ⟨e1, _, e3, a1, a2⟩ := envOk_elim r r' h
  obtain ⟨q1, q2⟩ := hq
  rw [rsOk_iff] at q1
  constructor
  · rw [rsOk_iff]; omega
  · simpa [annoOk, e3] using q2

theorem env_NoEv (R : Int) (r r' : RS) (h : envOk r r' = true) (hq : NoEv R r) : NoEv R r' := by
  obtain ⟨e1, e2, _⟩ := envOk_elim r r' h
  intro hp d hd
  exact hq (by omega) d (by rw [← e2]; exact hd)

theorem env_new {s t : State} (h : EnvStep s t) :
    (∀ r', t.new = some r' → ∃ r, s.new = some r ∧ envOk r r' = true) ∧ (s.new = none ↔ t.new = none) := by
  obtain ⟨_, _, h3⟩ := h
  cases hs : s.new with
  | none =>
    cases ht : t.new with
    | none => simp
    | some b => rw [hs, ht] at h3; exact absurd h3 (by simp)
  | some a =>
    cases ht : t.new with
    | none => rw [hs, ht] at h3; exact absurd h3 (by simp)
    | some b =>
      rw [hs, ht] at h3
      refine ⟨?_, by simp⟩
      intro r' hr'; simp only [Option.some.injEq] at hr'
      exact ⟨a, rfl, by rw [← hr']; exact h3⟩

theorem env_live (s t : State) (hl : live s = true) (h : EnvStep s t) : live t = true := by
  obtain ⟨h1, h2, h3, h4⟩ := live_elim s hl
  have hcfg := h.1
  obtain ⟨f1, f2⟩ := forall2_env h.2.1
  obtain ⟨n1, n2⟩ := env_new h
  obtain ⟨q1, q2⟩ := Q_all_of_inv s h1
  have e1 : t.replicas = s.replicas := by rw [hcfg]
  have e2 : t.maxSurge = s.maxSurge := by rw [hcfg]
  have e3 : t.maxUnavailable = s.maxUnavailable := by rw [hcfg]
  have e4 : t.statusReplicas = s.statusReplicas := by rw [hcfg]
  have e5 : t.deleting = s.deleting := by rw [hcfg]
  have e6 : t.paused = s.paused := by rw [hcfg]
  have e7 : t.partition = s.partition := by rw [hcfg]
  have e8 : t.rolling = s.rolling := by rw [hcfg]
  have hinv : inv t = true := by
    apply inv_of_parts s t h1 e1 e2 e3
    · intro r' hr'
      obtain ⟨r, hr, he⟩ := f2 r' hr'
      exact env_Q r r' he (q1 r hr)
    · intro r' hr'
      obtain ⟨r, hr, he⟩ := n1 r' hr'
      exact env_Q r r' he (q2 r hr)
    · rw [e4]; exact (inv_elim s h1).2.2.2.2.2.1
  have hsc' := h2
  simp only [inScope, Bool.and_eq_true, Bool.not_eq_true'] at hsc'
  have hall := (isScalingEvent_false_iff s).mp hsc'.2
  have hev : isScalingEvent t = false := by
    rw [isScalingEvent_false_iff, e1]
    intro r' hmem
    rcases List.mem_append.mp hmem with hm | hm
    · obtain ⟨r, hr, he⟩ := f2 r' hm
      exact env_NoEv _ r r' he (hall r (List.mem_append.mpr (Or.inl hr)))
    · cases hn : t.new with
      | none => rw [hn] at hm; simp at hm
      | some x =>
        rw [hn] at hm; simp at hm
        obtain ⟨r, hr, he⟩ := n1 x hn
        rw [hm]
        exact env_NoEv _ r x he (hall r (List.mem_append.mpr (Or.inr (by simp [hr]))))
  have hsc : inScope t = true := by
    simp only [inScope, Bool.and_eq_true, Bool.not_eq_true', e5, e6]
    exact ⟨hsc'.1, hev⟩
  have hcov : covers t = true := by
    simp only [covers, limit, e1, e7] at *; exact h3
  have hlive : cfgLive t = true := by
    simp only [cfgLive, e1, e2, e3, e8] at *; exact h4
  simp only [live, hinv, hsc, hcov, hlive, Bool.and_self]

theorem env_variant (s t : State) (h : EnvStep s t) : variant t = variant s := by
  obtain ⟨f1, _⟩ := forall2_env h.2.1
  obtain ⟨n1, n2⟩ := env_new h
  have e1 : t.replicas = s.replicas := by rw [h.1]
  simp only [variant, oldTotal, f1, e1]
  cases ht : t.new with
  | none => rw [n2.mpr ht]
  | some r' =>
    obtain ⟨r, hr, he⟩ := n1 r' ht
    rw [hr]
    simp only [(envOk_elim r r' he).1]


theorem envOk_settle (r : RS) (h : rsOk r = true) : envOk r (settle r) = true := by
  rw [rsOk_iff] at h
  have e : (settle r == { r with pods := (settle r).pods, avail := (settle r).avail }) = true := by
    simp [settle]
  have p1 : (settle r).pods = r.spec := rfl
  have p2 : (settle r).avail = r.spec := rfl
  unfold envOk
  rw [e, p1, p2]
  simp only [Bool.true_and, Bool.and_eq_true, Bool.or_eq_true, decide_eq_true_eq]
  omega

theorem envList_settle (l : List RS) (h : ∀ r ∈ l, rsOk r = true) : EnvList l (l.map settle) := by
  induction l with
  | nil => exact EnvList.nil
  | cons r rs ih =>
    exact EnvList.cons (envOk_settle r (h r (by simp))) (ih (fun x hx => h x (by simp [hx])))

theorem envAll_step (s : State) (h : inv s = true) : EnvStep s (envAll s) := by
  refine ⟨rfl, envList_settle s.olds (inv_olds s h), ?_⟩
  simp only [envAll]
  cases hn : s.new with
  | none => simp
  | some r => simpa using envOk_settle r (inv_new s h r hn)

theorem settled_envAll (s : State) : settled (envAll s) = true := by
  simp only [settled, envAll, List.all_eq_true, List.mem_append, List.mem_map, Bool.and_eq_true, beq_iff_eq]
  intro r hr
  rcases hr with ⟨x, _, e⟩ | hr
  · rw [← e]; simp [settle]
  · cases hn : s.new with
    | none => rw [hn] at hr; simp at hr
    | some x => rw [hn] at hr; simp at hr; rw [hr]; simp [settle]

theorem variant_zero_iff (s : State) (h : inv s = true) : variant s = 0 ↔ final s = true := by
  have ho := sumSpec_nonneg (inv_olds s h)
  simp only [variant, final, oldTotal]
  cases hn : s.new with
  | none => simp
  | some r =>
    simp only [Bool.and_eq_true, beq_iff_eq]
    constructor
    · intro hv; constructor <;> omega
    · intro hv; omega

theorem live_round (s : State) (h : live s = true) :
    live (round s) = true ∧ settled (round s) = true ∧ variant (round s) ≤ variant s := by
  have h1 := live_post s h
  obtain ⟨i1, _, _, _⟩ := live_elim _ h1
  obtain ⟨i0, sc0, cv0, _⟩ := live_elim _ h
  have st := envAll_step (post s) i1
  refine ⟨env_live _ _ h1 st, settled_envAll _, ?_⟩
  have := env_variant _ _ st
  have := (variant_post_le s i0 sc0 cv0).1
  simp only [round]; omega

theorem round_lt (s : State) (h : live s = true) (hs : settled s = true) (hf : final s = false) :
    variant (round s) < variant s := by
  obtain ⟨i0, sc0, cv0, l0⟩ := live_elim _ h
  obtain ⟨i1, _, _, _⟩ := live_elim _ (live_post s h)
  have := env_variant _ _ (envAll_step (post s) i1)
  have := variant_post_lt s i0 sc0 cv0 l0 hs hf
  simp only [round]; omega

theorem rounds_converge : ∀ (n : Nat) (s : State), live s = true → settled s = true → variant s ≤ n →
    final (rounds n s) = true := by
  intro n
  induction n with
  | zero =>
    intro s h _ hv
    exact (variant_zero_iff s (live_elim s h).1).mp (by omega)
  | succ n ih =>
    intro s h hs hv
    obtain ⟨l1, s1, v1⟩ := live_round s h
    have hle : variant (round s) ≤ n := by
      cases hf : final s with
      | true =>
        have := (variant_zero_iff s (live_elim s h).1).mpr hf
        omega
      | false => have := round_lt s h hs hf; omega
    exact ih (round s) l1 s1 hle


theorem env_inv (s t : State) (h1 : inv s = true) (h : EnvStep s t) : inv t = true := by
  have hcfg := h.1
  obtain ⟨_, f2⟩ := forall2_env h.2.1
  obtain ⟨n1, _⟩ := env_new h
  obtain ⟨q1, q2⟩ := Q_all_of_inv s h1
  apply inv_of_parts s t h1 (by rw [hcfg]) (by rw [hcfg]) (by rw [hcfg])
  · intro r' hr'
    obtain ⟨r, hr, he⟩ := f2 r' hr'
    exact env_Q r r' he (q1 r hr)
  · intro r' hr'
    obtain ⟨r, hr, he⟩ := n1 r' hr'
    exact env_Q r r' he (q2 r hr)
  · have : t.statusReplicas = s.statusReplicas := by rw [hcfg]
    rw [this]; exact (inv_elim s h1).2.2.2.2.2.1


/-- `stale` unfolded -/
theorem not_stale (s : State) (h : stale s = false) :
    (∀ r ∈ s.olds, r.avail ≤ r.spec) ∧ (∀ r, s.new = some r → r.avail ≤ r.spec) := by
  simp only [stale, List.any_eq_false, List.mem_append, decide_eq_true_eq, Int.not_lt] at h
  refine ⟨fun r hr => ?_, fun r hr => ?_⟩
  · have := h r (Or.inl hr); omega
  · have := h r (Or.inr (by simp [hr])); omega


end RV.DepSync
