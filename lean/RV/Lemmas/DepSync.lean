import RV.Model.DepSync
import RV.Oracle.C17
import RV.Lemmas.Arith
/-! Helper lemmas about the advanced-deployment sync model. -/
namespace RV.DepSync
open RV.Arith RV.Oracle.C17

/-! ### sums, sorting, filtering -/

@[simp] theorem sumBy_nil (f : RS → Int) : sumBy f [] = 0 := rfl
@[simp] theorem sumBy_cons (f : RS → Int) (r : RS) (l : List RS) : sumBy f (r :: l) = f r + sumBy f l := rfl

theorem sumBy_append (f : RS → Int) (l₁ l₂ : List RS) : sumBy f (l₁ ++ l₂) = sumBy f l₁ + sumBy f l₂ := by
  induction l₁ with
  | nil => simp
  | cons r l ih => simp [ih]; omega

theorem sumBy_insertBy (f : RS → Int) (lt : RS → RS → Bool) (x : RS) (l : List RS) :
    sumBy f (insertBy lt x l) = f x + sumBy f l := by
  induction l with
  | nil => simp [insertBy]
  | cons y ys ih =>
    simp only [insertBy]; split
    · simp [ih]; omega
    · simp

theorem sumBy_sortBy (f : RS → Int) (lt : RS → RS → Bool) (l : List RS) :
    sumBy f (sortBy lt l) = sumBy f l := by
  induction l with
  | nil => rfl
  | cons x xs ih => simp [sortBy, sumBy_insertBy, ih]

theorem mem_insertBy {lt : RS → RS → Bool} {x r : RS} {l : List RS} :
    r ∈ insertBy lt x l ↔ r = x ∨ r ∈ l := by
  induction l with
  | nil => simp [insertBy]
  | cons y ys ih =>
    simp only [insertBy]; split
    · simp [ih]; constructor
      · rintro (h | h | h) <;> simp [h]
      · rintro (h | h | h) <;> simp [h]
    · simp

theorem mem_sortBy {lt : RS → RS → Bool} {r : RS} {l : List RS} : r ∈ sortBy lt l ↔ r ∈ l := by
  induction l with
  | nil => simp [sortBy]
  | cons x xs ih => simp [sortBy, mem_insertBy, ih]

theorem sumBy_active_inactive (f : RS → Int) (l : List RS) :
    sumBy f (active l) + sumBy f (inactive l) = sumBy f l := by
  induction l with
  | nil => rfl
  | cons r rs ih =>
    simp only [active, inactive, List.filter_cons] at *
    by_cases h : 0 < r.spec <;> simp [h] <;> omega

theorem sumSpec_inactive_nonpos (l : List RS) : sumSpec (inactive l) ≤ 0 := by
  induction l with
  | nil => simp [inactive, sumSpec]
  | cons r rs ih =>
    simp only [inactive, sumSpec, List.filter_cons] at *
    by_cases h : 0 < r.spec <;> simp [h] <;> omega

theorem sumSpec_inactive_zero (l : List RS) (h : ∀ r ∈ l, 0 ≤ r.spec) : sumSpec (inactive l) = 0 := by
  induction l with
  | nil => simp [inactive, sumSpec]
  | cons r rs ih =>
    have h1 := h r (by simp)
    have ih := ih (fun x hx => h x (by simp [hx]))
    simp only [inactive, sumSpec, List.filter_cons] at *
    by_cases hp : 0 < r.spec <;> simp [hp] <;> omega

theorem sumSpec_active (l : List RS) (h : ∀ r ∈ l, 0 ≤ r.spec) : sumSpec (active l) = sumSpec l := by
  have := sumBy_active_inactive (·.spec) l
  have := sumSpec_inactive_zero l h
  simp only [sumSpec] at *; omega

theorem sumBy_nonneg (f : RS → Int) (l : List RS) (h : ∀ r ∈ l, 0 ≤ f r) : 0 ≤ sumBy f l := by
  induction l with
  | nil => simp
  | cons r rs ih =>
    have := h r (by simp)
    have := ih (fun x hx => h x (by simp [hx]))
    simp; omega

theorem mem_active {r : RS} {l : List RS} : r ∈ active l → r ∈ l := by
  simp only [active, List.mem_filter]; exact fun h => h.1
theorem mem_inactive {r : RS} {l : List RS} : r ∈ inactive l → r ∈ l := by
  simp only [inactive, List.mem_filter]; exact fun h => h.1

/-! ### configuration -/

theorem limit_bounds (s : State) (h : 0 ≤ s.replicas) : 0 ≤ limit s ∧ limit s ≤ s.replicas := by
  unfold limit newRSReplicasLimit
  simp only []
  split <;> (try split) <;> omega

theorem scaled_nonneg_up (v : Option IntOrPct) (R : Int) (hv : fenceOk v = true) (hR : 0 ≤ R) :
    0 ≤ (scaled (v.getD (.int 0)) R true).1 := by
  match v with
  | none => simp [scaled]
  | some (.int n) => simpa [scaled, fenceOk] using hv
  | some (.pct p) =>
    have hp : 0 ≤ p := by simpa [fenceOk] using hv
    simp only [Option.getD, scaled, if_true]
    exact ceilDiv100_nonneg (Int.mul_nonneg hp hR)
  | some .bad => simp [scaled]

theorem scaled_nonneg_down (v : Option IntOrPct) (R : Int) (hv : fenceOk v = true) (hR : 0 ≤ R) :
    0 ≤ (scaled (v.getD (.int 0)) R false).1 := by
  match v with
  | none => simp [scaled]
  | some (.int n) => simpa [scaled, fenceOk] using hv
  | some (.pct p) =>
    have hp : 0 ≤ p := by simpa [fenceOk] using hv
    have := Int.mul_nonneg hp hR
    simp only [Option.getD, scaled, floorDiv100]
    show 0 ≤ p * R / 100
    omega
  | some .bad => simp [scaled]

theorem fenceposts_nonneg (s : State) (h : inv s = true) {a u : Int}
    (hr : resolveFenceposts s.maxSurge s.maxUnavailable s.replicas = some (a, u)) : 0 ≤ a ∧ 0 ≤ u := by
  simp only [inv, Bool.and_eq_true, decide_eq_true_eq] at h
  obtain ⟨⟨⟨⟨hR, hs⟩, hu⟩, _⟩, _⟩ := h
  have h1 := scaled_nonneg_up s.maxSurge s.replicas hs hR
  have h2 := scaled_nonneg_down s.maxUnavailable s.replicas hu hR
  unfold resolveFenceposts at hr
  generalize scaled (s.maxSurge.getD (.int 0)) s.replicas true = x at *
  generalize scaled (s.maxUnavailable.getD (.int 0)) s.replicas false = y at *
  obtain ⟨x1, x2⟩ := x
  obtain ⟨y1, y2⟩ := y
  simp only [] at hr h1 h2
  split at hr
  · cases hr
  · split at hr
    · cases hr
    · split at hr <;> (cases hr; omega)

theorem maxSurgeV_nonneg (s : State) (h : inv s = true) : 0 ≤ maxSurgeV s := by
  unfold maxSurgeV
  split
  · omega
  · split
    · omega
    · rename_i a u hr; exact (fenceposts_nonneg s h hr).1

theorem maxUnavailV_bounds (s : State) (h : inv s = true) : 0 ≤ maxUnavailV s ∧ maxUnavailV s ≤ s.replicas := by
  have hR : 0 ≤ s.replicas := by
    simp only [inv, Bool.and_eq_true, decide_eq_true_eq] at h; exact h.1.1.1.1
  unfold maxUnavailV
  split
  · omega
  · simp only []
    split
    · split <;> omega
    · rename_i a u hr
      have := (fenceposts_nonneg s h hr).2
      split <;> omega

theorem inv_replicas (s : State) (h : inv s = true) : 0 ≤ s.replicas := by
  simp only [inv, Bool.and_eq_true, decide_eq_true_eq] at h; exact h.1.1.1.1

theorem inv_olds (s : State) (h : inv s = true) : ∀ r ∈ s.olds, rsOk r = true := by
  simp only [inv, Bool.and_eq_true, List.all_eq_true] at h; exact h.1.2

theorem inv_new (s : State) (h : inv s = true) : ∀ r, s.new = some r → rsOk r = true := by
  simp only [inv, Bool.and_eq_true] at h
  intro r hr
  have := h.2
  simp [hr] at this; exact this

theorem rsOk_iff (r : RS) : rsOk r = true ↔ 0 ≤ r.spec ∧ 0 ≤ r.avail ∧ r.avail ≤ r.pods := by
  simp [rsOk, and_assoc]


/-! ### scaling one ReplicaSet -/

theorem scaleAndRecord_fst (s : State) (r : RS) (n : Int) :
    (scaleAndRecord s r n).1 = r ∨
    (scaleAndRecord s r n).1 = { r with spec := n, desired := some s.replicas, maxAnno := some (s.replicas + maxSurgeV s) } := by
  unfold scaleAndRecord scaleReplicaSet
  split
  · left; rfl
  · simp only []; split
    · right; rfl
    · left; rfl

theorem scaleAndRecord_spec (s : State) (r : RS) (n : Int) : (scaleAndRecord s r n).1.spec = n := by
  unfold scaleAndRecord scaleReplicaSet
  split
  · rename_i h; simpa using h
  · rename_i h
    have : (r.spec != n) = true := by simpa using h
    simp [this]

theorem scaleAndRecord_avail (s : State) (r : RS) (n : Int) : (scaleAndRecord s r n).1.avail = r.avail := by
  rcases scaleAndRecord_fst s r n with h | h <;> rw [h]
theorem scaleAndRecord_pods (s : State) (r : RS) (n : Int) : (scaleAndRecord s r n).1.pods = r.pods := by
  rcases scaleAndRecord_fst s r n with h | h <;> rw [h]

theorem scaleAndRecord_ok (s : State) (r : RS) (n : Int) (h : rsOk r = true) (hn : 0 ≤ n) :
    rsOk (scaleAndRecord s r n).1 = true := by
  rw [rsOk_iff] at *
  rw [scaleAndRecord_spec, scaleAndRecord_avail, scaleAndRecord_pods]; omega


/-! ### the two loops over old ReplicaSets -/

/-- unhealthy pods of a list of RSs -/
def unhealthy (l : List RS) : Int := sumBy (fun r => max 0 (r.spec - r.avail)) l

theorem cleanupLoop_facts (s : State) (m : Int) : ∀ (l : List RS) (total : Int),
    sumAvail (cleanupLoop s m l total).olds = sumAvail l ∧
    sumPods (cleanupLoop s m l total).olds = sumPods l ∧
    sumBy keptAvail (cleanupLoop s m l total).olds = sumBy keptAvail l ∧
    sumSpec (cleanupLoop s m l total).olds ≤ sumSpec l ∧
    sumSpec l - sumSpec (cleanupLoop s m l total).olds ≤ max 0 (m - total) ∧
    sumSpec l - sumSpec (cleanupLoop s m l total).olds ≤ unhealthy l := by
  intro l
  induction l with
  | nil => intro total; simp [cleanupLoop, sumAvail, sumPods, sumSpec, unhealthy]; omega
  | cons r rest ih =>
    intro total
    simp only [cleanupLoop]
    split
    · simp [sumAvail, sumPods, sumSpec, unhealthy]
      have := sumBy_nonneg (fun r => max 0 (r.spec - r.avail)) rest (fun x _ => by omega)
      omega
    · split
      · have := ih total
        simp only [sumAvail, sumPods, sumSpec, unhealthy, sumBy_cons] at *
        omega
      · split
        · have := ih total
          simp only [sumAvail, sumPods, sumSpec, unhealthy, sumBy_cons] at *
          omega
        · split
          · simp [sumAvail, sumPods, sumSpec, unhealthy]
            have := sumBy_nonneg (fun r => max 0 (r.spec - r.avail)) rest (fun x _ => by omega)
            omega
          · rename_i h1 h2 h3 h4
            have := ih (total + min (m - total) (r.spec - r.avail))
            have hne : r.spec ≠ r.avail := by simpa using h3
            simp only [sumAvail, sumPods, sumSpec, unhealthy, sumBy_cons, keptAvail,
              scaleAndRecord_spec, scaleAndRecord_avail, scaleAndRecord_pods] at *
            omega


theorem cleanupLoop_ok (s : State) (m : Int) : ∀ (l : List RS) (total : Int),
    (∀ r ∈ l, rsOk r = true) → ∀ r ∈ (cleanupLoop s m l total).olds, rsOk r = true := by
  intro l
  induction l with
  | nil => intro total _ r hr; simp [cleanupLoop] at hr
  | cons x rest ih =>
    intro total h
    have hx := h x (by simp)
    have hrest : ∀ r ∈ rest, rsOk r = true := fun r hr => h r (by simp [hr])
    simp only [cleanupLoop]
    split
    · exact h
    · split
      · intro r hr
        simp only [List.mem_cons] at hr
        rcases hr with hr | hr
        · rw [hr]; exact hx
        · exact ih total hrest r hr
      · split
        · intro r hr
          simp only [List.mem_cons] at hr
          rcases hr with hr | hr
          · rw [hr]; exact hx
          · exact ih total hrest r hr
        · split
          · exact h
          · rename_i h1 h2 h3 h4
            intro r hr
            simp only [List.mem_cons] at hr
            rcases hr with hr | hr
            · rw [hr]
              apply scaleAndRecord_ok _ _ _ hx
              rw [rsOk_iff] at hx
              omega
            · exact ih _ hrest r hr

theorem scaleDownLoop_facts (s : State) (c : Int) : ∀ (l : List RS) (total : Int),
    sumAvail (scaleDownLoop s c l total).olds = sumAvail l ∧
    sumPods (scaleDownLoop s c l total).olds = sumPods l ∧
    sumSpec (scaleDownLoop s c l total).olds ≤ sumSpec l ∧
    sumSpec l - sumSpec (scaleDownLoop s c l total).olds ≤ max 0 (c - total) ∧
    sumBy keptAvail l - (sumSpec l - sumSpec (scaleDownLoop s c l total).olds)
      ≤ sumBy keptAvail (scaleDownLoop s c l total).olds := by
  intro l
  induction l with
  | nil => intro total; simp [scaleDownLoop, sumAvail, sumPods, sumSpec]; omega
  | cons r rest ih =>
    intro total
    simp only [scaleDownLoop]
    split
    · simp [sumAvail, sumPods, sumSpec]; omega
    · split
      · have := ih total
        simp only [sumAvail, sumPods, sumSpec, sumBy_cons] at *
        omega
      · split
        · simp [sumAvail, sumPods, sumSpec]; omega
        · have := ih (total + min r.spec (c - total))
          simp only [sumAvail, sumPods, sumSpec, sumBy_cons, keptAvail,
            scaleAndRecord_spec, scaleAndRecord_avail, scaleAndRecord_pods] at *
          omega

theorem scaleDownLoop_ok (s : State) (c : Int) : ∀ (l : List RS) (total : Int),
    (∀ r ∈ l, rsOk r = true) → ∀ r ∈ (scaleDownLoop s c l total).olds, rsOk r = true := by
  intro l
  induction l with
  | nil => intro total _ r hr; simp [scaleDownLoop] at hr
  | cons x rest ih =>
    intro total h
    have hx := h x (by simp)
    have hrest : ∀ r ∈ rest, rsOk r = true := fun r hr => h r (by simp [hr])
    simp only [scaleDownLoop]
    split
    · exact h
    · split
      · intro r hr
        simp only [List.mem_cons] at hr
        rcases hr with hr | hr
        · rw [hr]; exact hx
        · exact ih total hrest r hr
      · split
        · exact h
        · intro r hr
          simp only [List.mem_cons] at hr
          rcases hr with hr | hr
          · rw [hr]
            apply scaleAndRecord_ok _ _ _ hx
            rw [rsOk_iff] at hx
            omega
          · exact ih _ hrest r hr


theorem length_insertBy (lt : RS → RS → Bool) (x : RS) (l : List RS) :
    (insertBy lt x l).length = l.length + 1 := by
  induction l with
  | nil => simp [insertBy]
  | cons y ys ih => simp only [insertBy]; split <;> simp [ih]

theorem length_sortBy (lt : RS → RS → Bool) (l : List RS) : (sortBy lt l).length = l.length := by
  induction l with
  | nil => rfl
  | cons x xs ih => simp [sortBy, length_insertBy, ih]

theorem all_sortBy {lt : RS → RS → Bool} {l : List RS} {p : RS → Prop} (h : ∀ r ∈ l, p r) :
    ∀ r ∈ sortBy lt l, p r := fun r hr => h r (mem_sortBy.mp hr)

theorem unhealthy_active_le (l : List RS) : unhealthy (active l) ≤ unhealthy l := by
  have h1 := sumBy_active_inactive (fun r => max 0 (r.spec - r.avail)) l
  have h2 := sumBy_nonneg (fun r => max 0 (r.spec - r.avail)) (inactive l) (fun x _ => by omega)
  simp only [unhealthy]; omega

theorem kept_eq_avail (l : List RS) (h : ∀ r ∈ l, r.avail ≤ r.spec) : sumBy keptAvail l = sumAvail l := by
  induction l with
  | nil => rfl
  | cons r rs ih =>
    have := h r (by simp)
    have := ih (fun x hx => h x (by simp [hx]))
    simp only [sumAvail, sumBy_cons, keptAvail] at *; omega

/-! ### stage lemmas -/

theorem cleanup_facts (s : State) (l : List RS) (m : Int) :
    sumAvail (cleanup s l m).olds = sumAvail l ∧
    sumPods (cleanup s l m).olds = sumPods l ∧
    sumBy keptAvail (cleanup s l m).olds = sumBy keptAvail l ∧
    sumSpec (cleanup s l m).olds ≤ sumSpec l ∧
    sumSpec l - sumSpec (cleanup s l m).olds ≤ max 0 m ∧
    sumSpec l - sumSpec (cleanup s l m).olds ≤ unhealthy l := by
  have := cleanupLoop_facts s m (sortBy byCreation l) 0
  simp only [cleanup, sumAvail, sumPods, sumSpec, unhealthy, sumBy_sortBy] at *
  omega

theorem cleanup_ok (s : State) (l : List RS) (m : Int) (h : ∀ r ∈ l, rsOk r = true) :
    ∀ r ∈ (cleanup s l m).olds, rsOk r = true :=
  cleanupLoop_ok s m _ 0 (all_sortBy h)

theorem scaleDownOld_facts (s : State) (l : List RS) (nw : RS) :
    sumAvail (scaleDownOld s l nw).olds = sumAvail l ∧
    sumPods (scaleDownOld s l nw).olds = sumPods l ∧
    sumSpec (scaleDownOld s l nw).olds ≤ sumSpec l ∧
    sumSpec l - sumSpec (scaleDownOld s l nw).olds ≤
      max 0 (min (sumAvail l + nw.avail - (s.replicas - maxUnavailV s)) (scaleDownLimitForOld s l nw.spec)) ∧
    sumBy keptAvail l - (sumSpec l - sumSpec (scaleDownOld s l nw).olds)
      ≤ sumBy keptAvail (scaleDownOld s l nw).olds := by
  unfold scaleDownOld
  simp only []
  split
  · simp; omega
  · have := scaleDownLoop_facts s
      (min (sumAvail l + nw.avail - (s.replicas - maxUnavailV s))
        (scaleDownLimitForOld s (sortBy bySmallerRevision l) nw.spec)) (sortBy bySmallerRevision l) 0
    simp only [scaleDownLimitForOld, sumAvail, sumPods, sumSpec, sumBy_sortBy] at *
    omega

theorem scaleDownOld_ok (s : State) (l : List RS) (nw : RS) (h : ∀ r ∈ l, rsOk r = true) :
    ∀ r ∈ (scaleDownOld s l nw).olds, rsOk r = true := by
  unfold scaleDownOld
  simp only []
  split
  · exact h
  · exact scaleDownLoop_ok s _ _ 0 (all_sortBy h)

theorem scaleUpOld_facts (s : State) (l : List RS) (n : Int) :
    sumAvail (scaleUpOld s l n).2.1 = sumAvail l ∧
    sumPods (scaleUpOld s l n).2.1 = sumPods l ∧
    sumSpec (scaleUpOld s l n).2.1 = sumSpec l + (if n ≤ 0 ∨ l = [] then 0 else n) ∧
    sumBy keptAvail l ≤ sumBy keptAvail (scaleUpOld s l n).2.1 := by
  unfold scaleUpOld
  split
  · rename_i h
    have : n ≤ 0 ∨ l = [] := by simpa using h
    simp [this]
  · rename_i h
    have hn : ¬ (n ≤ 0 ∨ l = []) := by simpa using h
    have hlen := length_sortBy bySizeOlder l
    have h1 := sumBy_sortBy (·.avail) bySizeOlder l
    have h2 := sumBy_sortBy (·.pods) bySizeOlder l
    have h3 := sumBy_sortBy (·.spec) bySizeOlder l
    have h4 := sumBy_sortBy keptAvail bySizeOlder l
    split
    · rename_i heq
      rw [heq] at hlen
      have : l = [] := List.eq_nil_of_length_eq_zero (by simpa using hlen.symm)
      exact absurd (Or.inr this) hn
    · rename_i r rest heq
      rw [heq] at h1 h2 h3 h4
      simp only [sumAvail, sumPods, sumSpec, sumBy_cons, keptAvail, if_neg hn,
        scaleAndRecord_spec, scaleAndRecord_avail, scaleAndRecord_pods] at *
      omega

theorem scaleUpOld_ok (s : State) (l : List RS) (n : Int) (h : ∀ r ∈ l, rsOk r = true) :
    ∀ r ∈ (scaleUpOld s l n).2.1, rsOk r = true := by
  unfold scaleUpOld
  split
  · exact h
  · rename_i hc
    have hn : ¬ (n ≤ 0 ∨ l = []) := by simpa using hc
    split
    · exact h
    · rename_i r rest heq
      have hs : ∀ x ∈ r :: rest, rsOk x = true := by
        rw [← heq]; exact all_sortBy h
      intro x hx
      simp only [List.mem_cons] at hx
      rcases hx with hx | hx
      · rw [hx]
        have hr := hs r (by simp)
        apply scaleAndRecord_ok _ _ _ hr
        rw [rsOk_iff] at hr
        omega
      · exact hs x (by simp [hx])


theorem active_ok {l : List RS} (h : ∀ r ∈ l, rsOk r = true) : ∀ r ∈ active l, rsOk r = true :=
  fun r hr => h r (mem_active hr)
theorem inactive_ok {l : List RS} (h : ∀ r ∈ l, rsOk r = true) : ∀ r ∈ inactive l, rsOk r = true :=
  fun r hr => h r (mem_inactive hr)

theorem append_ok {l₁ l₂ : List RS} (h₁ : ∀ r ∈ l₁, rsOk r = true) (h₂ : ∀ r ∈ l₂, rsOk r = true) :
    ∀ r ∈ l₁ ++ l₂, rsOk r = true := by
  intro r hr
  rcases List.mem_append.mp hr with h | h
  · exact h₁ r h
  · exact h₂ r h

theorem sumAvail_nonneg {l : List RS} (h : ∀ r ∈ l, rsOk r = true) : 0 ≤ sumAvail l :=
  sumBy_nonneg _ l (fun r hr => ((rsOk_iff r).mp (h r hr)).2.1)

theorem sumSpec_nonneg {l : List RS} (h : ∀ r ∈ l, rsOk r = true) : 0 ≤ sumSpec l :=
  sumBy_nonneg _ l (fun r hr => ((rsOk_iff r).mp (h r hr)).1)

theorem reconcileOld_ok (s : State) (l : List RS) (nw : RS) (hok : ∀ r ∈ l, rsOk r = true) :
    ∀ r ∈ (reconcileOld s l nw).2.1, rsOk r = true := by
  unfold reconcileOld
  simp only []
  split
  · exact hok
  · split
    · exact append_ok (scaleUpOld_ok s _ _ (active_ok hok)) (inactive_ok hok)
    · split
      · exact hok
      · split
        · exact append_ok (cleanup_ok s _ _ (active_ok hok)) (inactive_ok hok)
        · split
          · exact append_ok (scaleDownOld_ok s _ _ (cleanup_ok s _ _ (active_ok hok))) (inactive_ok hok)
          · exact append_ok (scaleDownOld_ok s _ _ (cleanup_ok s _ _ (active_ok hok))) (inactive_ok hok)

theorem reconcileOld_facts (s : State) (l : List RS) (nw : RS) (hok : ∀ r ∈ l, rsOk r = true) :
    sumAvail (reconcileOld s l nw).2.1 = sumAvail l ∧
    sumPods (reconcileOld s l nw).2.1 = sumPods l ∧
    min (sumSpec l) (s.replicas - max (limit s) nw.spec) ≤ sumSpec (reconcileOld s l nw).2.1 ∧
    (0 < sumSpec l → sumSpec l < s.replicas - max (limit s) nw.spec →
      sumSpec (reconcileOld s l nw).2.1 = s.replicas - max (limit s) nw.spec) ∧
    sumSpec l - sumSpec (reconcileOld s l nw).2.1 ≤
      unhealthy l + max 0 (sumAvail l + nw.avail - (s.replicas - maxUnavailV s)) ∧
    sumBy keptAvail l - max 0 (sumAvail l + nw.avail - (s.replicas - maxUnavailV s))
      ≤ sumBy keptAvail (reconcileOld s l nw).2.1 := by
  have a1 := sumBy_active_inactive (·.spec) l
  have a2 := sumBy_active_inactive (·.avail) l
  have a3 := sumBy_active_inactive (·.pods) l
  have a4 := sumBy_active_inactive keptAvail l
  have i0 := sumSpec_inactive_zero l (fun r hr => ((rsOk_iff r).mp (hok r hr)).1)
  have ia := sumAvail_nonneg (inactive_ok hok)
  have u1 := unhealthy_active_le l
  have u0 : 0 ≤ unhealthy l := sumBy_nonneg _ l (fun x _ => by omega)
  unfold reconcileOld
  simp only []
  split
  · rename_i h
    have : sumSpec (active l) = 0 := by simpa using h
    dsimp only
    simp only [sumSpec, sumAvail] at *
    refine ⟨trivial, trivial, ?_, ?_, ?_, ?_⟩ <;> omega
  · rename_i h
    have hne : sumSpec (active l) ≠ 0 := by simpa using h
    split
    · rename_i hlim
      have up := scaleUpOld_facts s (active l) (-scaleDownLimitForOld s (active l) nw.spec)
      have hnil : active l ≠ [] := by
        intro h0; rw [h0] at hne; simp [sumSpec] at hne
      simp only [scaleDownLimitForOld, sumSpec, sumAvail, sumPods, sumBy_append, hnil, or_false] at *
      split at up <;> omega
    · rename_i hlim
      split
      · dsimp only
        simp only [scaleDownLimitForOld, sumSpec, sumAvail] at *
        refine ⟨trivial, trivial, ?_, ?_, ?_, ?_⟩ <;> omega
      · rename_i hm
        have c := cleanup_facts s (active l)
          (min (sumSpec l + nw.spec - (s.replicas - maxUnavailV s) - (nw.spec - nw.avail))
            (scaleDownLimitForOld s (active l) nw.spec))
        split
        · simp only [scaleDownLimitForOld, sumSpec, sumAvail, sumPods, sumBy_append] at *
          omega
        · have d := scaleDownOld_facts s (cleanup s (active l)
            (min (sumSpec l + nw.spec - (s.replicas - maxUnavailV s) - (nw.spec - nw.avail))
              (scaleDownLimitForOld s (active l) nw.spec))).olds nw
          generalize (cleanup s (active l)
            (min (sumSpec l + nw.spec - (s.replicas - maxUnavailV s) - (nw.spec - nw.avail))
              (scaleDownLimitForOld s (active l) nw.spec))).olds = co at *
          split
          · simp only [scaleDownLimitForOld, sumSpec, sumAvail, sumPods, sumBy_append] at *
            omega
          · simp only [scaleDownLimitForOld, sumSpec, sumAvail, sumPods, sumBy_append] at *
            omega


/-! ### the new ReplicaSet -/

/-- size `reconcileNewReplicaSet` gives to a new RS of size `n` when the old RSs total `oldSum` -/
def newTarget (s : State) (oldSum n : Int) : Int :=
  if n = s.replicas then n else if n > s.replicas then s.replicas else newRSNewReplicas s (oldSum + n) n

theorem reconcileNew_facts (s : State) (olds : List RS) (nw : RS) :
    (reconcileNew s olds nw).2.1.spec = newTarget s (sumSpec olds) nw.spec ∧
    (reconcileNew s olds nw).2.1.avail = nw.avail ∧
    (reconcileNew s olds nw).2.1.pods = nw.pods ∧
    ((reconcileNew s olds nw).1 = true ↔ newTarget s (sumSpec olds) nw.spec ≠ nw.spec) := by
  unfold reconcileNew newTarget
  by_cases h1 : nw.spec = s.replicas
  · simp [h1]
  · have h1' : (nw.spec == s.replicas) = false := by simpa using h1
    simp only [h1', Bool.false_eq_true, if_false, h1]
    by_cases h2 : nw.spec > s.replicas
    · simp only [h2, if_true, scaleAndRecord_spec, scaleAndRecord_avail, scaleAndRecord_pods]
      simp; omega
    · simp only [h2, if_false, scaleAndRecord_spec, scaleAndRecord_avail, scaleAndRecord_pods]
      simp
      exact ⟨fun h => fun h' => h h'.symm, fun h => fun h' => h h'.symm⟩

theorem newRSNewReplicas_le (s : State) (cur n : Int) (h : cur > n) :
    newRSNewReplicas s cur n ≤ max n (limit s) := by
  unfold newRSNewReplicas
  simp only [h, if_true]
  split
  · omega
  · split <;> omega

theorem newRSNewReplicas_default (s : State) (cur n : Int) (h : ¬ cur > n) :
    newRSNewReplicas s cur n = s.replicas := by
  unfold newRSNewReplicas; simp [h]

theorem newRSNewReplicas_surge (s : State) (cur n : Int) (h : cur > n) (hup : n < newRSNewReplicas s cur n) :
    (cur - n) + newRSNewReplicas s cur n ≤ s.replicas + maxSurgeV s := by
  unfold newRSNewReplicas at *
  simp only [h, if_true] at *
  split at hup
  · omega
  · split at hup
    · omega
    · rename_i h1 h2
      simp only [h1, h2, if_false]
      omega

theorem newRSNewReplicas_ge (s : State) (cur n : Int) (h : cur > n) (hl : limit s ≤ s.replicas) :
    n ≤ newRSNewReplicas s cur n ∧ newRSNewReplicas s cur n ≤ max n s.replicas := by
  unfold newRSNewReplicas
  simp only [h, if_true]
  split
  · omega
  · split <;> omega

/-- the new RS the rolling path works with (existing, or created) -/
theorem getNewRS_create (s : State) :
    ∃ nw w, getNewRS s true = (some nw, w) ∧
      (∀ r, s.new = some r → nw.spec = r.spec ∧ nw.avail = r.avail ∧ nw.pods = r.pods) ∧
      (s.new = none → nw.spec = max (newRSNewReplicas s (sumSpec s.olds + 0) 0) (lowerBound s) ∧
        nw.avail = 0 ∧ nw.pods = 0) := by
  unfold getNewRS
  cases hn : s.new with
  | none => exact ⟨_, _, rfl, by simp, by simp⟩
  | some r => exact ⟨_, _, rfl, by intro r' h; cases h; simp, by simp⟩


/-- what one rolling sync does, in terms of sizes -/
theorem rolling_summary (s : State) :
    ∃ nw : RS,
      (∀ r, s.new = some r → nw.spec = r.spec ∧ nw.avail = r.avail ∧ nw.pods = r.pods) ∧
      (s.new = none → nw.spec = max (newRSNewReplicas s (sumSpec s.olds + 0) 0) (lowerBound s) ∧
        nw.avail = 0 ∧ nw.pods = 0) ∧
      ((∃ rn : RS, (rolloutRolling s).new = some rn ∧ (rolloutRolling s).olds = s.olds ∧
          rn.spec = newTarget s (sumSpec s.olds) nw.spec ∧ rn.avail = nw.avail ∧ rn.pods = nw.pods ∧
          rn.spec ≠ nw.spec)
       ∨ ((rolloutRolling s).new = some nw ∧ (rolloutRolling s).olds = (reconcileOld s s.olds nw).2.1 ∧
          newTarget s (sumSpec s.olds) nw.spec = nw.spec)) := by
  obtain ⟨nw, w, hg, h1, h2⟩ := getNewRS_create s
  refine ⟨nw, h1, h2, ?_⟩
  have rn := reconcileNew_facts s s.olds nw
  unfold rolloutRolling
  rw [hg]
  simp only []
  by_cases hb : (reconcileNew s s.olds nw).1 = true
  · left
    simp only [hb, if_true]
    refine ⟨_, rfl, trivial, rn.1, rn.2.1, rn.2.2.1, ?_⟩
    rw [rn.1]; exact rn.2.2.2.mp hb
  · right
    have hb' : (reconcileNew s s.olds nw).1 = false := by simpa using hb
    simp only [hb', Bool.false_eq_true, if_false]
    refine ⟨trivial, trivial, ?_⟩
    by_cases he : newTarget s (sumSpec s.olds) nw.spec = nw.spec
    · exact he
    · exact absurd (rn.2.2.2.mpr he) hb

theorem sync_inScope (s : State) (h : inScope s = true) : sync s = rolloutRolling s := by
  simp only [inScope, Bool.and_eq_true, Bool.not_eq_true'] at h
  unfold sync
  simp [h.1.1, h.1.2, h.2]


theorem newTarget_ge (s : State) (o n : Int) (hl : limit s ≤ s.replicas) :
    min n s.replicas ≤ newTarget s o n := by
  unfold newTarget
  split
  · omega
  · split
    · omega
    · by_cases h : o + n > n
      · have := newRSNewReplicas_ge s (o + n) n h hl; omega
      · rw [newRSNewReplicas_default s _ _ h]; omega

/-- size of a created new RS -/
theorem created_size (s : State) (h : inv s = true) :
    0 ≤ max (newRSNewReplicas s (sumSpec s.olds + 0) 0) (lowerBound s) ∧
    max (newRSNewReplicas s (sumSpec s.olds + 0) 0) (lowerBound s) ≤ max s.replicas 0 := by
  have hR := inv_replicas s h
  have hl := limit_bounds s hR
  have hs := maxSurgeV_nonneg s h
  have hlb : 0 ≤ lowerBound s ∧ lowerBound s ≤ s.replicas := by
    unfold lowerBound; split <;> omega
  by_cases hc : sumSpec s.olds + 0 > 0
  · have := newRSNewReplicas_ge s _ 0 hc hl.2
    omega
  · rw [newRSNewReplicas_default s _ _ hc]; omega

/-- one in-scope sync, in terms of the state after it -/
theorem post_summary (s : State) (hsc : inScope s = true) :
    ∃ nw : RS,
      (∀ r, s.new = some r → nw.spec = r.spec ∧ nw.avail = r.avail ∧ nw.pods = r.pods) ∧
      (s.new = none → nw.spec = max (newRSNewReplicas s (sumSpec s.olds + 0) 0) (lowerBound s) ∧
        nw.avail = 0 ∧ nw.pods = 0) ∧
      ((∃ rn : RS, (post s).new = some rn ∧ (post s).olds = s.olds ∧
          rn.spec = newTarget s (sumSpec s.olds) nw.spec ∧ rn.avail = nw.avail ∧ rn.pods = nw.pods ∧
          rn.spec ≠ nw.spec)
       ∨ ((post s).new = some nw ∧ (post s).olds = (reconcileOld s s.olds nw).2.1 ∧
          newTarget s (sumSpec s.olds) nw.spec = nw.spec)) := by
  have := rolling_summary s
  simp only [post, sync_inScope s hsc]
  exact this


theorem newTarget_le (s : State) (o n : Int) (ho : 0 < o) : newTarget s o n ≤ max n (limit s) := by
  unfold newTarget
  split
  · omega
  · split
    · omega
    · exact newRSNewReplicas_le s _ _ (by omega)

theorem newTarget_surge (s : State) (o n : Int) (ho : 0 ≤ o) (hs : 0 ≤ maxSurgeV s)
    (hup : n < newTarget s o n) : o + newTarget s o n ≤ s.replicas + maxSurgeV s := by
  unfold newTarget at *
  split at hup
  · omega
  · split at hup
    · omega
    · rename_i h1 h2
      simp only [h1, h2, if_false]
      by_cases h : o + n > n
      · have := newRSNewReplicas_surge s _ _ h hup; omega
      · rw [newRSNewReplicas_default s _ _ h]; omega

theorem newTarget_zero_old (s : State) (n : Int) : newTarget s 0 n = s.replicas := by
  unfold newTarget
  split
  · omega
  · split
    · rfl
    · exact newRSNewReplicas_default s _ _ (by omega)

/-- size of a created new RS outside the lower-bound region -/
theorem created_noLB (s : State) (h : inv s = true) (hn : s.new = none) (hg : lowerBoundRegion s = false) :
    (0 < sumSpec s.olds → max (newRSNewReplicas s (sumSpec s.olds + 0) 0) (lowerBound s) ≤ limit s) ∧
    (0 < max (newRSNewReplicas s (sumSpec s.olds + 0) 0) (lowerBound s) →
      sumSpec s.olds + max (newRSNewReplicas s (sumSpec s.olds + 0) 0) (lowerBound s) ≤ s.replicas + maxSurgeV s) := by
  have hR := inv_replicas s h
  have hl := limit_bounds s hR
  have hs := maxSurgeV_nonneg s h
  have ho := sumSpec_nonneg (inv_olds s h)
  have hlb : lowerBound s = 0 := by
    simp only [lowerBoundRegion, hn, Option.isNone_none, Bool.true_and, Bool.and_eq_false_iff,
      beq_eq_false_iff_ne, ne_eq, decide_eq_false_iff_not] at hg
    unfold lowerBound
    split
    · rfl
    · omega
  rw [hlb]
  by_cases hc : sumSpec s.olds + 0 > 0
  · have g := newRSNewReplicas_ge s _ 0 hc hl.2
    have l := newRSNewReplicas_le s _ 0 hc
    constructor
    · intro _; omega
    · intro hpos
      have := newRSNewReplicas_surge s _ 0 hc (by omega)
      omega
  · rw [newRSNewReplicas_default s _ _ hc]
    constructor
    · intro; omega
    · intro; omega

/-- size of a created new RS inside the lower-bound region: at most one pod above the bounds -/
theorem created_LB (s : State) (h : inv s = true) :
    max (newRSNewReplicas s (sumSpec s.olds + 0) 0) (lowerBound s) ≤ max (if 0 < sumSpec s.olds then limit s else s.replicas) 1 ∧
    sumSpec s.olds + max (newRSNewReplicas s (sumSpec s.olds + 0) 0) (lowerBound s)
      ≤ max (s.replicas + maxSurgeV s) (sumSpec s.olds + 1) := by
  have hR := inv_replicas s h
  have hl := limit_bounds s hR
  have hs := maxSurgeV_nonneg s h
  have ho := sumSpec_nonneg (inv_olds s h)
  have hlb : 0 ≤ lowerBound s ∧ lowerBound s ≤ 1 := by
    unfold lowerBound; split <;> omega
  by_cases hc : sumSpec s.olds + 0 > 0
  · have g := newRSNewReplicas_ge s _ 0 hc hl.2
    have l := newRSNewReplicas_le s _ 0 hc
    have hpos : 0 < sumSpec s.olds := by omega
    simp only [hpos, if_true]
    by_cases hz : 0 < newRSNewReplicas s (sumSpec s.olds + 0) 0
    · have := newRSNewReplicas_surge s _ 0 hc hz
      omega
    · omega
  · have hz : ¬ 0 < sumSpec s.olds := by omega
    rw [newRSNewReplicas_default s _ _ hc]
    simp only [hz, if_false]
    omega

end RV.DepSync
