import RV.Model.DepSync
import RV.Oracle.C17
import RV.Lemmas.Arith
namespace RV.DepSync
end RV.DepSync
