/-
  One BatchRelease reconcile (`RV.Executor.reconcile`), as far as the closed loop needs it: it cannot crash from a
  non-negative batch index; what it may do to the status cursor and phase; and the four things it may do to the
  CloneSet (nothing / claim it at partition 100 % / write the partition of the persisted batch / release it).
-/
import RV.Props.ExecutorThms
import RV.Props.C01
namespace RV.Lemmas.ClosedLoop
open RV.Arith RV.BatchCtx RV.Executor

/-- **C09** — the executor indexes the plan only at the persisted batch index, after `isPlanUnhealthy` has ruled out
    an index beyond the plan: with a non-negative index it cannot crash -/
theorem exec_total (br : BR) (wl : Option Workload) (h0 : 0 ≤ br.status.currentBatch) : reconcile br wl ≠ .panic := by
  sorry

/-- the object disappears only when it is being deleted and Completed; the workload is not touched then -/
theorem exec_gone (br : BR) (wl : Option Workload) (o : StepOut) (h : reconcile br wl = .val o) (hb : o.br = none) :
    br.deleting = true ∧ br.status.phase = .completed ∧ o.wl = wl := by
  sorry

/-- the spec is never written by the executor -/
theorem exec_spec_kept (br : BR) (wl : Option Workload) (o : StepOut) (b' : BR) (h : reconcile br wl = .val o)
    (hb : o.br = some b') : b' = { br with hasFinalizer := true, status := b'.status } := by
  sorry

theorem exec_batch_nonneg (br : BR) (wl : Option Workload) (o : StepOut) (b' : BR) (h : reconcile br wl = .val o)
    (hb : o.br = some b') (h0 : 0 ≤ br.status.currentBatch) (hp : ∀ p, br.partition = some p → 0 ≤ p) (hne : br.batches ≠ []) :
    0 ≤ b'.status.currentBatch := by
  sorry

/-- **C01.3 / C11** — the executor's batch never passes the batch partition (whatever the phase) -/
theorem exec_batch_le (br : BR) (wl : Option Workload) (o : StepOut) (b' : BR) (p : Int) (h : reconcile br wl = .val o)
    (hb : o.br = some b') (hp : br.partition = some p) (hp0 : 0 ≤ p) (hle : br.status.currentBatch ≤ p) :
    b'.status.currentBatch ≤ p := by
  sorry

theorem exec_nn_none (br : BR) (wl : Option Workload) (o : StepOut) (b' : BR) (h : reconcile br wl = .val o)
    (hb : o.br = some b') (hra : br.rollbackAnno = false) (hnn : br.status.noNeedUpdate = none) :
    b'.status.noNeedUpdate = none := by
  sorry

/-- a BatchRelease that is neither deleted nor resumed, over an existing workload, stays in Preparing / Progressing -/
theorem exec_phase_live (br : BR) (wl : Option Workload) (o : StepOut) (b' : BR) (h : reconcile br wl = .val o)
    (hb : o.br = some b') (hd : br.deleting = false) (hp : br.partition.isSome = true) (hw : wl.isSome = true)
    (hph : br.status.phase = .empty ∨ br.status.phase = .preparing ∨ br.status.phase = .progressing) :
    b'.status.phase = .preparing ∨ b'.status.phase = .progressing := by
  sorry

theorem exec_completed_stays (br : BR) (wl : Option Workload) (o : StepOut) (b' : BR) (h : reconcile br wl = .val o)
    (hb : o.br = some b') (hph : br.status.phase = .completed) : b'.status.phase = .completed := by
  sorry

/-- what one executor reconcile may do to the CloneSet -/
inductive WlEffect (br : BR) (w : Workload) : Workload → Prop
  | same : WlEffect br w w
  | init : WlEffect br w { w with owner := .this, paused := false, partition := some (.pct 100) }
  | upgrade (e : IntOrPct) : 0 ≤ br.status.currentBatch → br.batches[br.status.currentBatch.toNat]? = some e →
      WlEffect br w { w with partition := some (desKnob .cloneSet w.replicas e br.status.noNeedUpdate) }
  | release : br.status.phase = .finalizing →
      WlEffect br w (if br.partition.isNone then { w with owner := .none, partition := none, paused := false } else { w with owner := .none })

theorem exec_wl_effect (br : BR) (w : Workload) (o : StepOut) (h : reconcile br (some w) = .val o) :
    ∃ w', o.wl = some w' ∧ WlEffect br w w' := by
  sorry

theorem exec_wl_none (br : BR) (o : StepOut) (h : reconcile br none = .val o) : o.wl = none := by
  sorry

end RV.Lemmas.ClosedLoop
