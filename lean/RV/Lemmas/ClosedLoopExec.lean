/-
  One BatchRelease reconcile (`RV.Executor.reconcile`), as far as the closed loop needs it: it cannot crash from a
  non-negative batch index; what it may do to the status cursor and phase; and the four things it may do to the
  CloneSet (nothing / claim it at partition 100 % / write the partition of the persisted batch / release it).
-/
import RV.Props.ExecutorThms
import RV.Props.C01
namespace RV.Lemmas.ClosedLoop
open RV.Arith RV.BatchCtx RV.Executor

/-! ### helpers: the sync step -/

theorem wf_status (br : BR) : (withFinalizer br).status = br.status := rfl
theorem wf_batches (br : BR) : (withFinalizer br).batches = br.batches := rfl
theorem wf_partition (br : BR) : (withFinalizer br).partition = br.partition := rfl

/-- the three outcomes of one reconcile, the sync step kept abstract -/
theorem rec_cases (br : BR) (wl : Option Workload) (o : StepOut) (h : reconcile br wl = .val o) :
    (br.deleting = true ∧ br.status.phase = .completed ∧ o.br = none ∧ o.wl = wl) ∨
    ((syncStatus (withFinalizer br) (initializedStatus br.status) wl).stop = true ∧
      o.br = some { withFinalizer br with
        status := (syncStatus (withFinalizer br) (initializedStatus br.status) wl).status } ∧ o.wl = wl) ∨
    ((syncStatus (withFinalizer br) (initializedStatus br.status) wl).stop = false ∧
      ∃ ns' wl' rq er, execute (withFinalizer br) br.status wl = .val (ns', wl', rq, er) ∧
        o.br = some { withFinalizer br with status := ns' } ∧ o.wl = wl') := by
  rcases reconcile_cases br wl o h with ⟨hd, hp, _, hb, hw⟩ | ⟨_, hrest⟩
  · exact Or.inl ⟨hd, hp, hb, hw⟩
  · simp only [] at hrest
    rcases hrest with ⟨hs, hb, hw⟩ | ⟨hs, ns', wl', rq, er, hex, hb, hw⟩
    · exact Or.inr (Or.inl ⟨hs, hb, hw⟩)
    · have := sync_nostop_status _ _ _ hs
      rw [this] at hex
      exact Or.inr (Or.inr ⟨hs, ns', wl', rq, er, hex, hb, hw⟩)

theorem refresh_nn (ns : Status) (info : Option Workload) :
    (refreshStatus ns info).noNeedUpdate = ns.noNeedUpdate := by
  unfold refreshStatus; cases info <;> rfl

theorem syncDecide_nn (br : BR) (ns : Status) (ev : Event) (info : Option Workload) :
    (syncDecide br ns ev info).1.noNeedUpdate = ns.noNeedUpdate ∨
    (syncDecide br ns ev info).1.noNeedUpdate = none := by
  generalize hr : syncDecide br ns ev info = r
  unfold syncDecide at hr
  dsimp only at hr
  repeat' split at hr
  all_goals
    subst hr
    first
      | (left; rfl)
      | (right; rfl)

theorem syncDecide_nonneg (br : BR) (ns : Status) (ev : Event) (info : Option Workload)
    (h0 : 0 ≤ ns.currentBatch) (hp : ∀ p, br.partition = some p → 0 ≤ p) (hne : br.batches ≠ []) :
    0 ≤ (syncDecide br ns ev info).1.currentBatch := by
  have hlen : 1 ≤ (br.batches.length : Int) := by
    cases hb : br.batches with
    | nil => exact absurd hb hne
    | cons a t => simp only [List.length_cons]; omega
  generalize hr : syncDecide br ns ev info = r
  unfold syncDecide at hr
  dsimp only at hr
  repeat' split at hr
  all_goals
    subst hr
    first
      | exact h0
      | (simp only [resetStatus]; omega)
      | (simp only [signalRecalculate]
         cases hpp : br.partition with
         | none => simp only []; omega
         | some p =>
           have := hp p hpp
           simp only []
           split <;> omega)

theorem syncInfo_not_gone (br : BR) (ns : Status) (w : Workload) : (syncInfo br ns (some w)).1 ≠ .gone := by
  unfold syncInfo
  dsimp only
  repeat' split
  all_goals (intro hc; cases hc)

theorem syncDecide_live (br : BR) (ns : Status) (ev : Event) (info : Option Workload)
    (hf : isPlanFinalizing br = false) (hev : ev ≠ .gone)
    (hns : ns.phase = .preparing ∨ ns.phase = .progressing) :
    (syncDecide br ns ev info).1.phase = .preparing ∨ (syncDecide br ns ev info).1.phase = .progressing := by
  generalize hr : syncDecide br ns ev info = r
  unfold syncDecide at hr
  dsimp only at hr
  simp only [hf, Bool.false_eq_true, if_false] at hr
  repeat' split at hr
  all_goals
    subst hr
    first
      | exact hns
      | (left; rfl)
      | (rename_i hg; exact absurd hg.1 hev)

theorem initialized_live (s : Status) (h : s.phase = .empty ∨ s.phase = .preparing ∨ s.phase = .progressing) :
    (initializedStatus s).phase = .preparing ∨ (initializedStatus s).phase = .progressing := by
  unfold initializedStatus
  split
  · left; rfl
  · rename_i hne
    rcases h with h | h | h
    · exact absurd h hne
    · exact Or.inl h
    · exact Or.inr h

theorem initialized_cb (s : Status) :
    (initializedStatus s).currentBatch = 0 ∨ (initializedStatus s).currentBatch = s.currentBatch := by
  unfold initializedStatus
  split
  · left; rfl
  · right; rfl

theorem initialized_nn (s : Status) :
    (initializedStatus s).noNeedUpdate = none ∨ (initializedStatus s).noNeedUpdate = s.noNeedUpdate := by
  unfold initializedStatus
  split
  · left; rfl
  · right; rfl

/-! ### helpers: the executor -/

theorem refresh_hash_same (ns : Status) (info : Option Workload) (h : ns.hash = .same) :
    (refreshStatus ns info).hash = .same := by
  unfold refreshStatus; cases info <;> simp [h]

/-- if the executor acts on a `Progressing` release, the persisted batch index is inside the plan -/
theorem nostop_progressing_healthy (br : BR) (wl : Option Workload)
    (hns : (syncStatus br br.status wl).stop = false) (hp : br.status.phase = .progressing) :
    br.status.currentBatch < br.batches.length := by
  have h1 := sync_nostop_status br br.status wl hns
  have hf := nostop_progressing_partitioned br wl hns hp
  by_cases hc : isPlanChanged br = true
  · exfalso
    have : (syncStatus br br.status wl).status.hash = .same := by
      unfold syncStatus
      dsimp only
      apply refresh_hash_same
      simp only [syncDecide, hp, hf, hc, if_true, reduceCtorEq, if_false, Bool.false_eq_true]
      rfl
    rw [h1] at this
    simp [isPlanChanged, this] at hc
  · by_cases hu : isPlanUnhealthy br = true
    · exfalso
      have : (syncStatus br br.status wl).status.phase = .preparing := by
        unfold syncStatus
        dsimp only
        rw [refresh_phase]
        simp only [syncDecide, hp, hf, hc, hu, if_true, reduceCtorEq, if_false, Bool.false_eq_true]
        rfl
      rw [h1, hp] at this
      cases this
    · simp only [isPlanUnhealthy, hp, decide_true, Bool.and_true, decide_eq_true_eq] at hu
      omega

theorem calcCtx_ok (br : BR) (ns : Status) (w : Workload) (h0 : 0 ≤ br.status.currentBatch)
    (hlt : br.status.currentBatch < br.batches.length) : ∃ c, calcCtx (obsOf br ns w) = .ok c := by
  have hlt' : br.status.currentBatch.toNat < br.batches.length := by omega
  have hnot : ¬ br.status.currentBatch < 0 := by omega
  unfold calcCtx obsOf
  simp only [hnot, if_false, List.getElem?_eq_getElem hlt']
  exact ⟨_, rfl⟩

theorem upgradeBatch_ne_panic (br : BR) (ns : Status) (wl : Option Workload) (h0 : 0 ≤ br.status.currentBatch)
    (hlt : br.status.currentBatch < br.batches.length) : upgradeBatch br ns wl ≠ .panic := by
  unfold upgradeBatch
  cases wl with
  | none => intro hc; cases hc
  | some w =>
    dsimp only
    obtain ⟨c, hc⟩ := calcCtx_ok br ns w h0 hlt
    rw [hc]
    dsimp only
    repeat' split
    all_goals (intro hx; cases hx)

theorem ensureReady_ne_panic (br : BR) (ns : Status) (wl : Option Workload) (h0 : 0 ≤ br.status.currentBatch)
    (hlt : br.status.currentBatch < br.batches.length) : ensureReady br ns wl ≠ .panic := by
  unfold ensureReady
  cases wl with
  | none => intro hc; cases hc
  | some w =>
    dsimp only
    obtain ⟨c, hc⟩ := calcCtx_ok br ns w h0 hlt
    rw [hc]
    dsimp only
    repeat' split
    all_goals (intro hx; cases hx)

theorem execProgressing_ne_panic (br : BR) (ns : Status) (wl : Option Workload) (h0 : 0 ≤ br.status.currentBatch)
    (hlt : br.status.currentBatch < br.batches.length) : execProgressing br ns wl ≠ .panic := by
  intro h
  unfold execProgressing at h
  dsimp only at h
  have hu := upgradeBatch_ne_panic br (normState ns) wl h0 hlt
  have he := ensureReady_ne_panic br (normState ns) wl h0 hlt
  repeat' split at h
  all_goals first | contradiction | cases h

theorem execute_ne_panic (br : BR) (ns : Status) (wl : Option Workload)
    (hpr : ns.phase = .progressing → 0 ≤ br.status.currentBatch ∧ br.status.currentBatch < br.batches.length) :
    execute br ns wl ≠ .panic := by
  intro h
  unfold execute at h
  dsimp only at h
  cases hp : ns.phase
  case progressing =>
    rw [normPhase_of_progressing ns hp] at h
    simp only [hp] at h
    exact execProgressing_ne_panic br ns wl (hpr hp).1 (hpr hp).2 h
  all_goals
    have hn : (normPhase ns).phase ≠ .progressing := by unfold normPhase; split <;> simp [hp]
    split at h
    · unfold execPreparing at h; dsimp only at h; split at h <;> cases h
    · rename_i hq; exact hn hq
    · unfold execFinalizing at h; dsimp only at h; split at h <;> cases h
    · cases h

/-! ### helpers: what `execute` does outside `Progressing` -/

theorem normPhase_cases (ns : Status) :
    (normPhase ns = ns ∧ ns.phase ≠ .empty ∧ ns.phase ≠ .other) ∨
    ((ns.phase = .empty ∨ ns.phase = .other) ∧ normPhase ns = { ns with phase := .preparing }) := by
  unfold normPhase
  split
  · rename_i hc; right; exact ⟨hc, rfl⟩
  · rename_i hc; left
    refine ⟨rfl, ?_, ?_⟩
    · intro hx; exact hc (Or.inl hx)
    · intro hx; exact hc (Or.inr hx)

theorem normPhase_nn (ns : Status) : (normPhase ns).noNeedUpdate = ns.noNeedUpdate := by
  unfold normPhase; split <;> rfl

theorem normState_nn (ns : Status) : (normState ns).noNeedUpdate = ns.noNeedUpdate := by
  unfold normState; split <;> rfl

theorem normState_phase (ns : Status) : (normState ns).phase = ns.phase := by
  unfold normState; split <;> rfl

theorem finalize_ok (br : BR) (wl : Option Workload) : (finalize br wl).2 = .ok := by
  unfold finalize; cases wl <;> rfl

theorem execPreparing_cases (br : BR) (ns : Status) (wl : Option Workload) (ns' : Status)
    (wl' : Option Workload) (rq er : Bool) (h : execPreparing br ns wl = .val (ns', wl', rq, er)) :
    wl' = (initializeWl br ns wl).1 ∧
    (ns' = (initializeWl br ns wl).2.1 ∨ ns' = { (initializeWl br ns wl).2.1 with phase := .progressing }) := by
  unfold execPreparing at h
  dsimp only at h
  split at h <;> simp only [Out.val.injEq, Prod.mk.injEq] at h <;> obtain ⟨h1, h2, _⟩ := h <;> subst h1 h2
  · exact ⟨rfl, Or.inr rfl⟩
  · exact ⟨rfl, Or.inl rfl⟩

theorem execFinalizing_cases (br : BR) (ns : Status) (wl : Option Workload) (ns' : Status)
    (wl' : Option Workload) (rq er : Bool) (h : execFinalizing br ns wl = .val (ns', wl', rq, er)) :
    ns' = { ns with phase := .completed } ∧ wl' = (finalize br wl).1 := by
  unfold execFinalizing at h
  dsimp only at h
  rw [if_pos (finalize_ok br wl)] at h
  simp only [Out.val.injEq, Prod.mk.injEq] at h
  obtain ⟨h1, h2, _⟩ := h
  exact ⟨h1.symm, h2.symm⟩

/-- `execute` on a status that is not `Progressing` -/
theorem execute_np (br : BR) (ns : Status) (wl : Option Workload) (ns' : Status)
    (wl' : Option Workload) (rq er : Bool) (h : execute br ns wl = .val (ns', wl', rq, er))
    (hp : ns.phase ≠ .progressing) :
    (ns.phase = .completed ∧ ns' = ns ∧ wl' = wl) ∨
    (ns.phase = .finalizing ∧ ns' = { ns with phase := .completed } ∧ wl' = (finalize br wl).1) ∨
    ((ns.phase = .preparing ∨ ns.phase = .empty ∨ ns.phase = .other) ∧ (normPhase ns).phase = .preparing ∧
       wl' = (initializeWl br (normPhase ns) wl).1 ∧
       (ns' = (initializeWl br (normPhase ns) wl).2.1 ∨
        ns' = { (initializeWl br (normPhase ns) wl).2.1 with phase := .progressing })) := by
  unfold execute at h
  dsimp only at h
  rcases normPhase_cases ns with ⟨hn, he, ho⟩ | ⟨heo, hn⟩
  · rw [hn] at h ⊢
    cases hq : ns.phase
    case empty => exact absurd hq he
    case other => exact absurd hq ho
    case progressing => exact absurd hq hp
    case preparing =>
      simp only [hq] at h
      right; right
      exact ⟨Or.inl rfl, rfl, execPreparing_cases _ _ _ _ _ _ _ h⟩
    case finalizing =>
      simp only [hq] at h
      right; left
      exact ⟨rfl, execFinalizing_cases _ _ _ _ _ _ _ h⟩
    case completed =>
      simp only [hq] at h
      simp only [Out.val.injEq, Prod.mk.injEq] at h
      left
      exact ⟨rfl, h.1.symm, h.2.1.symm⟩
  · rw [hn] at h ⊢
    dsimp only at h
    right; right
    refine ⟨?_, rfl, execPreparing_cases _ _ _ _ _ _ _ h⟩
    rcases heo with h1 | h1
    · exact Or.inr (Or.inl h1)
    · exact Or.inr (Or.inr h1)

theorem initializeWl_phase (br : BR) (ns : Status) (wl : Option Workload) :
    (initializeWl br ns wl).2.1.phase = ns.phase := by
  unfold initializeWl
  cases wl with
  | none => rfl
  | some w => dsimp only; split <;> rfl

theorem initializeWl_nn (br : BR) (ns : Status) (wl : Option Workload) (hra : br.rollbackAnno = false) :
    (initializeWl br ns wl).2.1.noNeedUpdate = ns.noNeedUpdate := by
  unfold initializeWl
  cases wl with
  | none => rfl
  | some w => dsimp only; simp only [hra, Bool.false_eq_true, if_false]

theorem initializeWl_wl (br : BR) (ns : Status) (w : Workload) :
    (initializeWl br ns (some w)).1 = some w ∨
    (initializeWl br ns (some w)).1 = some { w with owner := .this, paused := false, partition := some (.pct 100) } := by
  unfold initializeWl
  dsimp only
  split
  · left; rfl
  · right; rfl

/-! ### helpers: what `progressBatches` does to the status fields and to the workload -/

theorem execProgressing_nn (br : BR) (ns : Status) (wl : Option Workload) (ns' : Status)
    (wl' : Option Workload) (rq er : Bool) (h : execProgressing br ns wl = .val (ns', wl', rq, er)) :
    ns'.noNeedUpdate = ns.noNeedUpdate := by
  unfold execProgressing at h
  dsimp only at h
  repeat' split at h
  all_goals
    first
      | (cases h; done)
      | (simp only [Out.val.injEq, Prod.mk.injEq] at h
         obtain ⟨h1, _⟩ := h
         subst h1
         simp only [moveToNextBatch, normState_nn])

theorem upgradeBatch_effect (br : BR) (ns : Status) (w : Workload) (wl' : Option Workload) (r : CallResult)
    (h : upgradeBatch br ns (some w) = .val (wl', r)) :
    wl' = some w ∨
    ∃ e, 0 ≤ br.status.currentBatch ∧ br.batches[br.status.currentBatch.toNat]? = some e ∧
      wl' = some { w with partition := some (desKnob .cloneSet w.replicas e br.status.noNeedUpdate) } := by
  unfold upgradeBatch at h
  dsimp only at h
  split at h
  · simp only [Out.val.injEq, Prod.mk.injEq] at h; exact Or.inl h.1.symm
  · split at h
    · cases h
    · rename_i c hc
      split at h
      · simp only [Out.val.injEq, Prod.mk.injEq] at h; exact Or.inl h.1.symm
      · rename_i k hk
        simp only [Out.val.injEq, Prod.mk.injEq] at h
        right
        have hkd : k = c.knobDes := RV.Props.C01.upgrade_writes_desired (obsOf br ns w) c k hc hk
        unfold calcCtx at hc
        split at hc
        · cases hc
        · rename_i e he
          simp only [Outcome.ok.injEq] at hc
          simp only [obsOf] at he
          split at he
          · cases he
          · rename_i hneg
            refine ⟨e, by omega, he, ?_⟩
            rw [← h.1, hkd, ← hc]
            rfl

theorem execProgressing_wl (br : BR) (ns : Status) (w : Workload) (ns' : Status)
    (wl' : Option Workload) (rq er : Bool) (h : execProgressing br ns (some w) = .val (ns', wl', rq, er)) :
    wl' = some w ∨
    ∃ e, 0 ≤ br.status.currentBatch ∧ br.batches[br.status.currentBatch.toNat]? = some e ∧
      wl' = some { w with partition := some (desKnob .cloneSet w.replicas e br.status.noNeedUpdate) } := by
  unfold execProgressing at h
  dsimp only at h
  split at h
  · split at h
    · cases h
    · rename_i hu
      simp only [Out.val.injEq, Prod.mk.injEq] at h
      rw [← h.2.1]
      exact upgradeBatch_effect _ _ _ _ _ hu
    · rename_i hu
      simp only [Out.val.injEq, Prod.mk.injEq] at h
      rw [← h.2.1]
      exact upgradeBatch_effect _ _ _ _ _ hu
  all_goals
    left
    repeat' split at h
    all_goals
      first
        | (cases h; done)
        | (simp only [Out.val.injEq, Prod.mk.injEq] at h; exact h.2.1.symm)

theorem execute_none (br : BR) (ns : Status) (ns' : Status)
    (wl' : Option Workload) (rq er : Bool) (h : execute br ns none = .val (ns', wl', rq, er)) : wl' = none := by
  by_cases hp : ns.phase = .progressing
  · rcases RV.Props.Executor.execute_cases _ _ _ _ _ _ _ h with ⟨_, hpr⟩ | ⟨hnp, _⟩
    · unfold execProgressing at hpr
      dsimp only at hpr
      have hu : upgradeBatch br (normState ns) none = .val (none, .err) := rfl
      simp only [hu] at hpr
      repeat' split at hpr
      all_goals
        first
          | (cases hpr; done)
          | (simp only [Out.val.injEq, Prod.mk.injEq] at hpr; exact hpr.2.1.symm)
    · exact absurd hp hnp
  · rcases execute_np _ _ _ _ _ _ _ h hp with ⟨_, _, hw⟩ | ⟨_, _, hw⟩ | ⟨_, _, hw, _⟩
    · exact hw
    · rw [hw]; rfl
    · rw [hw]; rfl

/-- **C09** — the executor indexes the plan only at the persisted batch index, after `isPlanUnhealthy` has ruled out
    an index beyond the plan: with a non-negative index it cannot crash -/
theorem exec_total (br : BR) (wl : Option Workload) (h0 : 0 ≤ br.status.currentBatch) : reconcile br wl ≠ .panic := by
  intro h
  unfold reconcile at h
  split at h
  · cases h
  · unfold reconcileBody at h
    dsimp only at h
    split at h
    · cases h
    · rename_i hs
      have hs' : (syncStatus (withFinalizer br) (initializedStatus (withFinalizer br).status) wl).stop = false := by
        simpa using hs
      have hst := sync_nostop_status _ _ _ hs'
      rw [hst] at h
      have hnp : execute (withFinalizer br) (withFinalizer br).status wl ≠ .panic := by
        apply execute_ne_panic
        intro hp
        have hne : (withFinalizer br).status.phase ≠ .empty := by rw [hp]; decide
        rw [initialized_id _ hne] at hs'
        exact ⟨h0, nostop_progressing_healthy (withFinalizer br) wl hs' hp⟩
      split at h
      · contradiction
      · cases h

/-- the object disappears only when it is being deleted and Completed; the workload is not touched then -/
theorem exec_gone (br : BR) (wl : Option Workload) (o : StepOut) (h : reconcile br wl = .val o) (hb : o.br = none) :
    br.deleting = true ∧ br.status.phase = .completed ∧ o.wl = wl := by
  rcases rec_cases br wl o h with ⟨hd, hp, _, hw⟩ | ⟨_, hb', _⟩ | ⟨_, _, _, _, _, _, hb', _⟩
  · exact ⟨hd, hp, hw⟩
  · rw [hb'] at hb; cases hb
  · rw [hb'] at hb; cases hb

/-- the spec is never written by the executor -/
theorem exec_spec_kept (br : BR) (wl : Option Workload) (o : StepOut) (b' : BR) (h : reconcile br wl = .val o)
    (hb : o.br = some b') : b' = { br with hasFinalizer := true, status := b'.status } := by
  rcases rec_cases br wl o h with ⟨_, _, hn, _⟩ | ⟨_, hb', _⟩ | ⟨_, _, _, _, _, _, hb', _⟩
  · rw [hn] at hb; cases hb
  · rw [hb'] at hb; simp only [Option.some.injEq] at hb; subst hb; rfl
  · rw [hb'] at hb; simp only [Option.some.injEq] at hb; subst hb; rfl

theorem exec_batch_nonneg (br : BR) (wl : Option Workload) (o : StepOut) (b' : BR) (h : reconcile br wl = .val o)
    (hb : o.br = some b') (h0 : 0 ≤ br.status.currentBatch) (hp : ∀ p, br.partition = some p → 0 ≤ p) (hne : br.batches ≠ []) :
    0 ≤ b'.status.currentBatch := by
  rcases rec_cases br wl o h with ⟨_, _, hn, _⟩ | ⟨_, hb', _⟩ | ⟨_, ns', wl', rq, er, hex, hb', _⟩
  · rw [hn] at hb; cases hb
  · rw [hb'] at hb; simp only [Option.some.injEq] at hb; subst hb
    dsimp only
    unfold syncStatus
    simp only [refresh_currentBatch]
    apply syncDecide_nonneg (withFinalizer br) _ _ _ _ hp hne
    rcases initialized_cb br.status with hi | hi <;> rw [hi]
    · exact Int.le_refl 0
    · exact h0
  · rw [hb'] at hb; simp only [Option.some.injEq] at hb; subst hb
    dsimp only
    rcases RV.Props.Executor.execute_cases _ _ _ _ _ _ _ hex with ⟨_, hpr⟩ | ⟨_, hcb, _⟩
    · rcases execProgressing_cases _ _ _ _ _ _ _ hpr with ⟨hcb, _⟩ | ⟨hmv, _⟩
      · omega
      · rw [hmv]
        simp only [moveToNextBatch, normState_currentBatch]
        repeat' split
        all_goals omega
    · omega

/-- **C01.3 / C11** — the executor's batch never passes the batch partition (whatever the phase) -/
theorem exec_batch_le (br : BR) (wl : Option Workload) (o : StepOut) (b' : BR) (p : Int) (h : reconcile br wl = .val o)
    (hb : o.br = some b') (hp : br.partition = some p) (hp0 : 0 ≤ p) (hle : br.status.currentBatch ≤ p) :
    b'.status.currentBatch ≤ p := by
  rcases rec_cases br wl o h with ⟨_, _, hn, _⟩ | ⟨_, hb', _⟩ | ⟨_, ns', wl', rq, er, hex, hb', _⟩
  · rw [hn] at hb; cases hb
  · rw [hb'] at hb; simp only [Option.some.injEq] at hb; subst hb
    dsimp only
    unfold syncStatus
    simp only [refresh_currentBatch]
    apply syncDecide_within (withFinalizer br) _ _ _ p hp hp0
    rcases initialized_cb br.status with hi | hi <;> rw [hi]
    · exact hp0
    · exact hle
  · rw [hb'] at hb; simp only [Option.some.injEq] at hb; subst hb
    dsimp only
    rcases RV.Props.Executor.execute_cases _ _ _ _ _ _ _ hex with ⟨_, hpr⟩ | ⟨_, hcb, _⟩
    · rcases execProgressing_cases _ _ _ _ _ _ _ hpr with ⟨hcb, _⟩ | ⟨hmv, _⟩
      · omega
      · rw [hmv]
        simp only [moveToNextBatch, wf_partition, hp, normState_currentBatch]
        split <;> omega
    · omega

theorem exec_nn_none (br : BR) (wl : Option Workload) (o : StepOut) (b' : BR) (h : reconcile br wl = .val o)
    (hb : o.br = some b') (hra : br.rollbackAnno = false) (hnn : br.status.noNeedUpdate = none) :
    b'.status.noNeedUpdate = none := by
  rcases rec_cases br wl o h with ⟨_, _, hn, _⟩ | ⟨_, hb', _⟩ | ⟨_, ns', wl', rq, er, hex, hb', _⟩
  · rw [hn] at hb; cases hb
  · rw [hb'] at hb; simp only [Option.some.injEq] at hb; subst hb
    dsimp only
    unfold syncStatus
    dsimp only
    rw [refresh_nn]
    rcases syncDecide_nn (withFinalizer br) (initializedStatus br.status)
      (syncInfo (withFinalizer br) (initializedStatus br.status) wl).1
      (syncInfo (withFinalizer br) (initializedStatus br.status) wl).2 with hs | hs
    · rw [hs]
      rcases initialized_nn br.status with hi | hi
      · exact hi
      · rw [hi]; exact hnn
    · exact hs
  · rw [hb'] at hb; simp only [Option.some.injEq] at hb; subst hb
    dsimp only
    have hra' : (withFinalizer br).rollbackAnno = false := hra
    by_cases hp : br.status.phase = .progressing
    · rcases RV.Props.Executor.execute_cases _ _ _ _ _ _ _ hex with ⟨_, hpr⟩ | ⟨hnp, _⟩
      · rw [execProgressing_nn _ _ _ _ _ _ _ hpr]; exact hnn
      · exact absurd hp hnp
    · rcases execute_np _ _ _ _ _ _ _ hex hp with ⟨_, hs, _⟩ | ⟨_, hs, _⟩ | ⟨_, _, _, hs | hs⟩
      · rw [hs]; exact hnn
      · rw [hs]; exact hnn
      · rw [hs, initializeWl_nn _ _ _ hra', normPhase_nn]; exact hnn
      · rw [hs]; dsimp only; rw [initializeWl_nn _ _ _ hra', normPhase_nn]; exact hnn

/-- a BatchRelease that is neither deleted nor resumed, over an existing workload, stays in Preparing / Progressing -/
theorem exec_phase_live (br : BR) (wl : Option Workload) (o : StepOut) (b' : BR) (h : reconcile br wl = .val o)
    (hb : o.br = some b') (hd : br.deleting = false) (hp : br.partition.isSome = true) (hw : wl.isSome = true)
    (hph : br.status.phase = .empty ∨ br.status.phase = .preparing ∨ br.status.phase = .progressing) :
    b'.status.phase = .preparing ∨ b'.status.phase = .progressing := by
  rcases rec_cases br wl o h with ⟨_, _, hn, _⟩ | ⟨_, hb', _⟩ | ⟨_, ns', wl', rq, er, hex, hb', _⟩
  · rw [hn] at hb; cases hb
  · rw [hb'] at hb; simp only [Option.some.injEq] at hb; subst hb
    dsimp only
    unfold syncStatus
    dsimp only
    rw [refresh_phase]
    have hnf : br.status.phase ≠ .finalizing := by
      rcases hph with h1 | h1 | h1 <;> rw [h1] <;> decide
    have hpn : br.partition.isNone = false := by
      cases hpp : br.partition with
      | none => rw [hpp] at hp; cases hp
      | some p => rfl
    have hf : isPlanFinalizing (withFinalizer br) = false := by
      simp only [isPlanFinalizing, withFinalizer, hd, hnf, hpn, decide_false, Bool.or_self]
    apply syncDecide_live _ _ _ _ hf
    · cases wl with
      | none => cases hw
      | some w => exact syncInfo_not_gone _ _ w
    · exact initialized_live _ hph
  · rw [hb'] at hb; simp only [Option.some.injEq] at hb; subst hb
    dsimp only
    by_cases hpg : br.status.phase = .progressing
    · rcases RV.Props.Executor.execute_cases _ _ _ _ _ _ _ hex with ⟨_, hpr⟩ | ⟨hnp, _⟩
      · rcases execProgressing_cases _ _ _ _ _ _ _ hpr with ⟨_, hq, _⟩ | ⟨hmv, _⟩
        · right; rw [hq]; exact hpg
        · right; rw [hmv]
          simp only [moveToNextBatch, normState_phase]
          exact hpg
      · exact absurd hpg hnp
    · rcases execute_np _ _ _ _ _ _ _ hex hpg with ⟨hc, _⟩ | ⟨hc, _⟩ | ⟨_, hnp, _, hs | hs⟩
      · rcases hph with h1 | h1 | h1 <;> rw [h1] at hc <;> cases hc
      · rcases hph with h1 | h1 | h1 <;> rw [h1] at hc <;> cases hc
      · left; rw [hs, initializeWl_phase]; exact hnp
      · right; rw [hs]

theorem exec_completed_stays (br : BR) (wl : Option Workload) (o : StepOut) (b' : BR) (h : reconcile br wl = .val o)
    (hb : o.br = some b') (hph : br.status.phase = .completed) : b'.status.phase = .completed := by
  rcases rec_cases br wl o h with ⟨_, _, hn, _⟩ | ⟨_, hb', _⟩ | ⟨hs, _⟩
  · rw [hn] at hb; cases hb
  · rw [hb'] at hb; simp only [Option.some.injEq] at hb; subst hb
    dsimp only
    have hne : br.status.phase ≠ .empty := by rw [hph]; decide
    have hph' : (withFinalizer br).status.phase = .completed := hph
    unfold syncStatus
    simp only [refresh_phase, syncDecide, hph', if_true, initialized_id _ hne]
    exact hph
  · have := sync_completed_stops (withFinalizer br) (initializedStatus br.status) wl hph
    rw [this] at hs; cases hs

/-- what one executor reconcile may do to the CloneSet -/
inductive WlEffect (br : BR) (w : Workload) : Workload → Prop
  | same : WlEffect br w w
  | init : WlEffect br w { w with owner := .this, paused := false, partition := some (.pct 100) }
  | upgrade (e : IntOrPct) : 0 ≤ br.status.currentBatch → br.batches[br.status.currentBatch.toNat]? = some e →
      WlEffect br w { w with partition := some (desKnob .cloneSet w.replicas e br.status.noNeedUpdate) }
  | release : br.status.phase = .finalizing →
      WlEffect br w (if br.partition.isNone then { w with owner := .none, partition := none, paused := false } else { w with owner := .none })

theorem exec_wl_effect (br : BR) (w : Workload) (o : StepOut) (h : reconcile br (some w) = .val o) :
    ∃ w', o.wl = some w' ∧ WlEffect br w w' := by
  rcases rec_cases br (some w) o h with ⟨_, _, _, hw⟩ | ⟨_, _, hw⟩ | ⟨_, ns', wl', rq, er, hex, _, hw⟩
  · exact ⟨w, hw, .same⟩
  · exact ⟨w, hw, .same⟩
  · by_cases hpg : br.status.phase = .progressing
    · rcases RV.Props.Executor.execute_cases _ _ _ _ _ _ _ hex with ⟨_, hpr⟩ | ⟨hnp, _⟩
      · rcases execProgressing_wl _ _ _ _ _ _ _ hpr with hs | ⟨e, h0, he, hs⟩
        · exact ⟨w, hw.trans hs, .same⟩
        · exact ⟨_, hw.trans hs, .upgrade e h0 he⟩
      · exact absurd hpg hnp
    · rcases execute_np _ _ _ _ _ _ _ hex hpg with ⟨_, _, hs⟩ | ⟨hf, _, hs⟩ | ⟨_, _, hs, _⟩
      · exact ⟨w, hw.trans hs, .same⟩
      · refine ⟨_, hw.trans (hs.trans ?_), WlEffect.release hf⟩
        unfold finalize
        dsimp only
        have : (withFinalizer br).partition = br.partition := rfl
        rw [this]
      · rcases initializeWl_wl (withFinalizer br) (normPhase br.status) w with hi | hi
        · exact ⟨w, hw.trans (hs.trans hi), .same⟩
        · exact ⟨_, hw.trans (hs.trans hi), .init⟩

theorem exec_wl_none (br : BR) (o : StepOut) (h : reconcile br none = .val o) : o.wl = none := by
  rcases rec_cases br none o h with ⟨_, _, _, hw⟩ | ⟨_, _, hw⟩ | ⟨_, ns', wl', rq, er, hex, _, hw⟩
  · exact hw
  · exact hw
  · rw [hw]; exact execute_none _ _ _ _ _ _ hex

end RV.Lemmas.ClosedLoop
