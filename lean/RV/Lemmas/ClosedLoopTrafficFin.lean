/-
  Label `ro` while the clean-up of a completed release runs (reason Finalising, consistent workload): the traffic part of
  the invariant is preserved (including the last reconcile, which reports Completed), and the canary route is at most withdrawn.
-/
import RV.Lemmas.ClosedLoopTrafficDefs
import RV.Lemmas.ClosedLoopTrafficArith
import RV.Lemmas.ClosedLoopFin
namespace RV.Lemmas.ClosedLoopTraffic
open RV.Arith RV.Traffic RV.RolloutSM RV.ClosedLoop RV.Oracle.ClosedLoop RV.Oracle.ClosedLoopTraffic RV.Lemmas.ClosedLoop
open RV.Oracle.Cluster RV.Props.Cluster RV.Props.Reconcile RV.Props.Rollout

/-! ### the Manager calls of the clean-up: each one only ever removes one object -/

theorem fin_rs (t : TCtx) (n : Net) (m : Mem) :
    (restoreStableService t n m).err = false ∧
    ((restoreStableService t n m).net = n ∨ (restoreStableService t n m).net = { n with stableSel := none }) ∧
    (t.hasRef = false → (restoreStableService t n m).net = n) := by
  unfold restoreStableService
  split
  · exact ⟨rfl, Or.inl rfl, fun _ => rfl⟩
  · rename_i h1
    split
    · exact ⟨rfl, Or.inl rfl, fun _ => rfl⟩
    · dsimp only
      refine ⟨rfl, ?_, fun h => absurd h (by simpa using h1)⟩
      split
      · exact Or.inr rfl
      · exact Or.inl rfl

theorem fin_rg (t : TCtx) (n : Net) (m : Mem) :
    (restoreGateway t n m).err = false ∧
    ((restoreGateway t n m).net = n ∨ (restoreGateway t n m).net = { n with canaryIng := none }) ∧
    (t.hasRef = false → (restoreGateway t n m).net = n) := by
  unfold restoreGateway finaliseGw
  split
  · exact ⟨rfl, Or.inl rfl, fun _ => rfl⟩
  · rename_i h1
    refine ⟨rfl, ?_, fun h => absurd h (by simpa using h1)⟩
    cases h : n.canaryIng <;> exact Or.inr rfl

theorem fin_rc (t : TCtx) (n : Net) (m : Mem) :
    (removeCanaryService t n m).err = false ∧
    ((removeCanaryService t n m).net = n ∨ (removeCanaryService t n m).net = { n with canarySvc := none }) ∧
    (t.hasRef = false → (removeCanaryService t n m).net = n) := by
  unfold removeCanaryService
  split
  · exact ⟨rfl, Or.inl rfl, fun _ => rfl⟩
  · rename_i h1
    split
    · exact ⟨rfl, Or.inl rfl, fun _ => rfl⟩
    · exact ⟨rfl, Or.inr rfl, fun h => absurd h (by simpa using h1)⟩

/-- a Manager call of the clean-up (no copy-back of the update time): only the network and the grace memory change -/
theorem fin_callTM (f : TCtx → Net → Mem → TOut) (c c' : Ctx) (rt e : Bool) (h : callTM f c = some (c', rt, e)) :
    ∃ t, t.hasRef = c.ro.hasTraffic ∧ c'.net = (f t c.net c.mem).net ∧ e = (f t c.net c.mem).err ∧
      c'.ro = c.ro ∧ c'.wl = c.wl ∧ c'.br = c.br ∧ c'.sub = c.sub := by
  unfold callTM at h
  split at h
  · cases h
  · rename_i t ht
    simp only [Option.some.injEq, Prod.mk.injEq] at h
    obtain ⟨hc, _, he⟩ := h
    subst hc
    refine ⟨{ t with hasRevKey := c.wlSeen }, ?_, rfl, he.symm, rfl, rfl, rfl, ?_⟩
    · unfold trCtx at ht
      split at ht
      · cases ht
      · simp only [Option.some.injEq] at ht
        rw [← ht]
    · simp

/-- what one clean-up task (success list, `waitReady`) leaves behind, by the cursor it ran at -/
theorem fin_task (c c' : Ctx) (rt e : Bool) (hne : c.sub.finStep ≠ .routeTrafficToNew)
    (h : finTask c true = some (c', rt, e)) :
    e = false ∧ c'.ro = c.ro ∧ c'.wl = c.wl ∧ c'.sub = c.sub ∧
    (match c.sub.finStep with
     | .resumeWorkload =>
       c'.net = c.net ∧ c'.br = (finalizingBatchRelease c.br true).2.1 ∧ rt = (finalizingBatchRelease c.br true).1
     | .releaseWorkloadControl =>
       c'.net = c.net ∧ c'.br = (removeBatchRelease c.br).2.1 ∧ rt = (removeBatchRelease c.br).1
     | .routeTrafficToStable =>
       c'.br = c.br ∧ (c'.net = c.net ∨ c'.net = { c.net with canaryIng := none }) ∧ (c.ro.hasTraffic = false → c'.net = c.net)
     | .restoreStableService =>
       c'.br = c.br ∧ (c'.net = c.net ∨ c'.net = { c.net with stableSel := none }) ∧ (c.ro.hasTraffic = false → c'.net = c.net)
     | .removeCanaryService =>
       c'.br = c.br ∧ (c'.net = c.net ∨ c'.net = { c.net with canarySvc := none }) ∧ (c.ro.hasTraffic = false → c'.net = c.net)
     | _ => True) := by
  unfold finTask at h
  split at h
  · rename_i hf
    simp only [Option.some.injEq, Prod.mk.injEq] at h
    obtain ⟨hc, hr, he⟩ := h
    subst hc
    rw [hf]
    exact ⟨he.symm, rfl, rfl, rfl, rfl, rfl, hr.symm⟩
  · rename_i hf
    simp only [Option.some.injEq, Prod.mk.injEq] at h
    obtain ⟨hc, hr, he⟩ := h
    subst hc
    rw [hf]
    exact ⟨he.symm, rfl, rfl, rfl, rfl, rfl, hr.symm⟩
  · rename_i hf
    obtain ⟨t, ht, hn, he, h1, h2, h3, h4⟩ := fin_callTM _ _ _ _ _ h
    obtain ⟨g1, g2, g3⟩ := fin_rg t c.net c.mem
    rw [hf]
    refine ⟨he.trans g1, h1, h2, h4, h3, ?_, ?_⟩
    · rw [hn]; exact g2
    · intro hh; rw [hn]; exact g3 (ht.trans hh)
  · rename_i hf
    obtain ⟨t, ht, hn, he, h1, h2, h3, h4⟩ := fin_callTM _ _ _ _ _ h
    obtain ⟨g1, g2, g3⟩ := fin_rs t c.net c.mem
    rw [hf]
    refine ⟨he.trans g1, h1, h2, h4, h3, ?_, ?_⟩
    · rw [hn]; exact g2
    · intro hh; rw [hn]; exact g3 (ht.trans hh)
  · rename_i hf
    obtain ⟨t, ht, hn, he, h1, h2, h3, h4⟩ := fin_callTM _ _ _ _ _ h
    obtain ⟨g1, g2, g3⟩ := fin_rc t c.net c.mem
    rw [hf]
    refine ⟨he.trans g1, h1, h2, h4, h3, ?_, ?_⟩
    · rw [hn]; exact g2
    · intro hh; rw [hn]; exact g3 (ht.trans hh)
  · rename_i hf
    exact absurd hf hne
  · rename_i hf
    simp only [Option.some.injEq, Prod.mk.injEq] at h
    obtain ⟨hc, hr, he⟩ := h
    subst hc
    refine ⟨he.symm, rfl, rfl, rfl, ?_⟩
    split <;> first | trivial | (rename_i hx; exact absurd hx (by assumption))

/-- what the clean-up keeps of the sub-status (it writes the cursor and the update time only) -/
structure SubKept (a b : Sub) : Prop where
  curIdx : b.curIdx = a.curIdx
  state : b.state = a.state
  canaryRev : b.canaryRev = a.canaryRev
  stableRev : b.stableRev = a.stableRev
  podHash : b.podHash = a.podHash

theorem SubKept.rfl' (a : Sub) : SubKept a a := ⟨rfl, rfl, rfl, rfl, rfl⟩

theorem SubKept.trans {a b c : Sub} (h1 : SubKept a b) (h2 : SubKept b c) : SubKept a c :=
  ⟨h2.curIdx.trans h1.curIdx, h2.state.trans h1.state, h2.canaryRev.trans h1.canaryRev, h2.stableRev.trans h1.stableRev,
   h2.podHash.trans h1.podHash⟩

/-- one clean-up round away from END: the annotation is stripped, an empty cursor is started, ONE task runs at the cursor,
    and the cursor moves on only when the task reports "no retry, no error" -/
theorem fin_round_gen (c c' : Ctx) (d e : Bool) (hst : c.ro.style = .canary) (hne : c.sub.finStep ≠ .end_)
    (f1 nx : FinStep) (hnx : nextTask (taskList .canary .success) c.sub.finStep = nx)
    (hf1 : (if c.sub.finStep = .empty then nx else c.sub.finStep) = f1) (hk : finKnown .canary f1 = true)
    (h : doFinalising c .success true = some (c', d, e)) :
    ∃ c1 cr rt er, c1.ro = c.ro ∧ c1.br = c.br ∧ c1.net = c.net ∧ c1.wl = { c.wl with inProgressAnno := false } ∧
      c1.sub.finStep = f1 ∧ SubKept c.sub c1.sub ∧ finTask c1 true = some (cr, rt, er) ∧
      (((er = true ∨ rt = true) ∧ c' = cr ∧ d = false ∧ e = er) ∨
       (er = false ∧ rt = false ∧ c' = { cr with sub := { cr.sub with finStep := nx, lastUpdate := .fresh } } ∧
         d = decide (nx = .end_) ∧ e = false)) := by
  obtain ⟨hs, hr⟩ := stripAnno_frame c
  obtain ⟨hb0, hn0, _, _⟩ := stripAnno_frame' c
  have hw0 := stripAnno_wl c
  unfold doFinalising at h
  dsimp only at h
  rw [hs, hr, hst, hnx] at h
  split at h
  · cases h
  · try rw [if_neg hne] at h
    obtain ⟨sb, sn, _, sr⟩ := startCursor_frame (stripAnno c) nx
    have swl : (startCursor (stripAnno c) nx).wl = (stripAnno c).wl := startCursor_wl _ _
    have hsc : (startCursor (stripAnno c) nx).sub.finStep = f1 := by
      rw [← hf1]; unfold startCursor; rw [hs]; split
      · rfl
      · rw [hs]
    have hsk : SubKept c.sub (startCursor (stripAnno c) nx).sub := by
      unfold startCursor; rw [hs]; split
      · exact ⟨rfl, rfl, rfl, rfl, rfl⟩
      · rw [hs]; exact SubKept.rfl' _
    rw [sr, hr, hst, hsc, hk] at h
    simp only [not_true_eq_false, if_false] at h
    split at h
    · cases h
    · rename_i cr rt er hrun
      refine ⟨_, cr, rt, er, sr.trans hr, sb.trans hb0, sn.trans hn0, swl.trans hw0, hsc, hsk, hrun, ?_⟩
      split at h
      · rename_i hor
        simp only [Option.some.injEq, Prod.mk.injEq] at h
        obtain ⟨h1, h2, h3⟩ := h
        exact Or.inl ⟨hor, h1.symm, h2.symm, h3.symm⟩
      · rename_i hor
        simp only [Option.some.injEq, Prod.mk.injEq] at h
        obtain ⟨h1, h2, h3⟩ := h
        have : er = false ∧ rt = false := by cases er <;> cases rt <;> simp at hor ⊢
        exact Or.inr ⟨this.1, this.2, h1.symm, h2.symm, h3.symm⟩

/-- the outcome of one clean-up round of a canary rollout (success list, `waitReady`), by the cursor it started at -/
def FinRound (c c' : Ctx) (d : Bool) : Prop :=
  match c.sub.finStep with
  | .empty =>
    c'.br = c.br ∧ d = false ∧ c'.sub.finStep = .restoreStableService ∧
    (c'.net = c.net ∨ c'.net = { c.net with stableSel := none }) ∧ (c.ro.hasTraffic = false → c'.net = c.net)
  | .restoreStableService =>
    c'.br = c.br ∧ d = false ∧ (c'.sub.finStep = .restoreStableService ∨ c'.sub.finStep = .routeTrafficToStable) ∧
    (c'.net = c.net ∨ c'.net = { c.net with stableSel := none }) ∧ (c.ro.hasTraffic = false → c'.net = c.net)
  | .routeTrafficToStable =>
    c'.br = c.br ∧ d = false ∧ (c'.sub.finStep = .routeTrafficToStable ∨ c'.sub.finStep = .removeCanaryService) ∧
    (c'.net = c.net ∨ c'.net = { c.net with canaryIng := none }) ∧ (c.ro.hasTraffic = false → c'.net = c.net)
  | .removeCanaryService =>
    c'.br = c.br ∧ d = false ∧ (c'.sub.finStep = .removeCanaryService ∨ c'.sub.finStep = .resumeWorkload) ∧
    (c'.net = c.net ∨ c'.net = { c.net with canarySvc := none }) ∧ (c.ro.hasTraffic = false → c'.net = c.net)
  | .resumeWorkload =>
    c'.net = c.net ∧ d = false ∧ c'.br = (finalizingBatchRelease c.br true).2.1 ∧
    c'.sub.finStep = (if (finalizingBatchRelease c.br true).1 then .resumeWorkload else .releaseWorkloadControl)
  | .releaseWorkloadControl =>
    c'.net = c.net ∧ c'.br = (removeBatchRelease c.br).2.1 ∧
    (if (removeBatchRelease c.br).1 then c'.sub.finStep = .releaseWorkloadControl ∧ d = false
     else c'.sub.finStep = .end_ ∧ d = true)
  | .end_ => c'.net = c.net ∧ c'.br = c.br ∧ d = true ∧ c'.sub.finStep = .end_
  | _ => False

theorem fin_round (c c' : Ctx) (d e : Bool) (hst : c.ro.style = .canary)
    (hcur : cursorOk (taskList c.ro.style .success) c.sub.finStep = true)
    (h : doFinalising c .success true = some (c', d, e)) :
    e = false ∧ c'.ro = c.ro ∧ c'.wl = { c.wl with inProgressAnno := false } ∧ SubKept c.sub c'.sub ∧ FinRound c c' d := by
  have hgen := fun (hne : c.sub.finStep ≠ .end_) f1 nx hnx hf1 hk => fin_round_gen c c' d e hst hne f1 nx hnx hf1 hk h
  rw [hst] at hcur
  unfold FinRound
  cases hf : c.sub.finStep <;> rw [hf] at hcur hgen <;> dsimp only
  case end_ =>
    clear hgen
    obtain ⟨hs, hr⟩ := stripAnno_frame c
    obtain ⟨hb0, hn0, _, _⟩ := stripAnno_frame' c
    have hw0 := stripAnno_wl c
    unfold doFinalising at h
    dsimp only at h
    rw [hs, hr, hf] at h
    split at h
    · cases h
    · simp only [if_true, Option.some.injEq, Prod.mk.injEq] at h
      obtain ⟨h1, h2, h3⟩ := h
      subst h1
      exact ⟨h3.symm, hr, hw0, by rw [hs]; exact SubKept.rfl' _, hn0, hb0, h2.symm, by rw [hs]; exact hf⟩
  case routeTrafficToNew => exact absurd hcur (by decide)
  case other => exact absurd hcur (by decide)
  case empty =>
    obtain ⟨c1, cr, rt, er, a1, a2, a3, a4, a5, a6, hrun, hout⟩ :=
      hgen (by decide) .restoreStableService .restoreStableService (by decide) (by decide) (by decide)
    obtain ⟨t1, t2, t3, t4, t5⟩ := fin_task c1 cr rt er (by rw [a5]; decide) hrun
    rw [a5] at t5; dsimp only at t5
    obtain ⟨t5, t6, t7⟩ := t5
    rw [a1] at t2 t7; rw [a2] at t5; rw [a3] at t6 t7; rw [a4] at t3
    rcases hout with ⟨_, o1, o2, o3⟩ | ⟨_, _, o1, o2, o3⟩
    · subst o1
      exact ⟨o3.trans t1, t2, t3, t4 ▸ a6, t5, o2, by rw [t4]; exact a5, t6, t7⟩
    · subst o1
      exact ⟨o3, t2, t3, ⟨t4 ▸ a6.curIdx, t4 ▸ a6.state, t4 ▸ a6.canaryRev, t4 ▸ a6.stableRev, t4 ▸ a6.podHash⟩, t5,
        by rw [o2]; decide, rfl, t6, t7⟩
  case restoreStableService =>
    obtain ⟨c1, cr, rt, er, a1, a2, a3, a4, a5, a6, hrun, hout⟩ :=
      hgen (by decide) .restoreStableService .routeTrafficToStable (by decide) (by decide) (by decide)
    obtain ⟨t1, t2, t3, t4, t5⟩ := fin_task c1 cr rt er (by rw [a5]; decide) hrun
    rw [a5] at t5; dsimp only at t5
    obtain ⟨t5, t6, t7⟩ := t5
    rw [a1] at t2 t7; rw [a2] at t5; rw [a3] at t6 t7; rw [a4] at t3
    rcases hout with ⟨_, o1, o2, o3⟩ | ⟨_, _, o1, o2, o3⟩
    · subst o1
      exact ⟨o3.trans t1, t2, t3, t4 ▸ a6, t5, o2, Or.inl (by rw [t4]; exact a5), t6, t7⟩
    · subst o1
      exact ⟨o3, t2, t3, ⟨t4 ▸ a6.curIdx, t4 ▸ a6.state, t4 ▸ a6.canaryRev, t4 ▸ a6.stableRev, t4 ▸ a6.podHash⟩, t5,
        by rw [o2]; decide, Or.inr rfl, t6, t7⟩
  case routeTrafficToStable =>
    obtain ⟨c1, cr, rt, er, a1, a2, a3, a4, a5, a6, hrun, hout⟩ :=
      hgen (by decide) .routeTrafficToStable .removeCanaryService (by decide) (by decide) (by decide)
    obtain ⟨t1, t2, t3, t4, t5⟩ := fin_task c1 cr rt er (by rw [a5]; decide) hrun
    rw [a5] at t5; dsimp only at t5
    obtain ⟨t5, t6, t7⟩ := t5
    rw [a1] at t2 t7; rw [a2] at t5; rw [a3] at t6 t7; rw [a4] at t3
    rcases hout with ⟨_, o1, o2, o3⟩ | ⟨_, _, o1, o2, o3⟩
    · subst o1
      exact ⟨o3.trans t1, t2, t3, t4 ▸ a6, t5, o2, Or.inl (by rw [t4]; exact a5), t6, t7⟩
    · subst o1
      exact ⟨o3, t2, t3, ⟨t4 ▸ a6.curIdx, t4 ▸ a6.state, t4 ▸ a6.canaryRev, t4 ▸ a6.stableRev, t4 ▸ a6.podHash⟩, t5,
        by rw [o2]; decide, Or.inr rfl, t6, t7⟩
  case removeCanaryService =>
    obtain ⟨c1, cr, rt, er, a1, a2, a3, a4, a5, a6, hrun, hout⟩ :=
      hgen (by decide) .removeCanaryService .resumeWorkload (by decide) (by decide) (by decide)
    obtain ⟨t1, t2, t3, t4, t5⟩ := fin_task c1 cr rt er (by rw [a5]; decide) hrun
    rw [a5] at t5; dsimp only at t5
    obtain ⟨t5, t6, t7⟩ := t5
    rw [a1] at t2 t7; rw [a2] at t5; rw [a3] at t6 t7; rw [a4] at t3
    rcases hout with ⟨_, o1, o2, o3⟩ | ⟨_, _, o1, o2, o3⟩
    · subst o1
      exact ⟨o3.trans t1, t2, t3, t4 ▸ a6, t5, o2, Or.inl (by rw [t4]; exact a5), t6, t7⟩
    · subst o1
      exact ⟨o3, t2, t3, ⟨t4 ▸ a6.curIdx, t4 ▸ a6.state, t4 ▸ a6.canaryRev, t4 ▸ a6.stableRev, t4 ▸ a6.podHash⟩, t5,
        by rw [o2]; decide, Or.inr rfl, t6, t7⟩
  case resumeWorkload =>
    obtain ⟨c1, cr, rt, er, a1, a2, a3, a4, a5, a6, hrun, hout⟩ :=
      hgen (by decide) .resumeWorkload .releaseWorkloadControl (by decide) (by decide) (by decide)
    obtain ⟨t1, t2, t3, t4, t5⟩ := fin_task c1 cr rt er (by rw [a5]; decide) hrun
    rw [a5] at t5; dsimp only at t5
    obtain ⟨t5, t6, t7⟩ := t5
    rw [a1] at t2; rw [a2] at t6 t7; rw [a3] at t5; rw [a4] at t3
    rw [← t7]
    rcases hout with ⟨hor, o1, o2, o3⟩ | ⟨_, hrt, o1, o2, o3⟩
    · subst o1
      have hrt : rt = true := by rcases hor with h | h; (· rw [t1] at h; cases h); exact h
      rw [hrt, if_pos rfl]
      exact ⟨o3.trans t1, t2, t3, t4 ▸ a6, t5, o2, t6, by rw [t4]; exact a5⟩
    · subst o1
      rw [hrt, if_neg (by simp)]
      exact ⟨o3, t2, t3, ⟨t4 ▸ a6.curIdx, t4 ▸ a6.state, t4 ▸ a6.canaryRev, t4 ▸ a6.stableRev, t4 ▸ a6.podHash⟩, t5,
        by rw [o2]; decide, t6, rfl⟩
  case releaseWorkloadControl =>
    obtain ⟨c1, cr, rt, er, a1, a2, a3, a4, a5, a6, hrun, hout⟩ :=
      hgen (by decide) .releaseWorkloadControl .end_ (by decide) (by decide) (by decide)
    obtain ⟨t1, t2, t3, t4, t5⟩ := fin_task c1 cr rt er (by rw [a5]; decide) hrun
    rw [a5] at t5; dsimp only at t5
    obtain ⟨t5, t6, t7⟩ := t5
    rw [a1] at t2; rw [a2] at t6 t7; rw [a3] at t5; rw [a4] at t3
    rw [← t7]
    rcases hout with ⟨hor, o1, o2, o3⟩ | ⟨_, hrt, o1, o2, o3⟩
    · subst o1
      have hrt : rt = true := by rcases hor with h | h; (· rw [t1] at h; cases h); exact h
      rw [hrt, if_pos rfl]
      exact ⟨o3.trans t1, t2, t3, t4 ▸ a6, t5, t6, by rw [t4]; exact a5, o2⟩
    · subst o1
      rw [hrt, if_neg (by simp)]
      exact ⟨o3, t2, t3, ⟨t4 ▸ a6.curIdx, t4 ▸ a6.state, t4 ▸ a6.canaryRev, t4 ▸ a6.stableRev, t4 ▸ a6.podHash⟩, t5,
        t6, rfl, by rw [o2]; decide⟩

/-! ### the reconcile of a Progressing / Finalising rollout -/

theorem fin_csObserve (ro : Rollout) (wl : WL) (s : Sub) (hs : ro.sub = some s) :
    ∃ s1, (csObserve ro wl).sub = some s1 ∧ s1.finStep = s.finStep ∧ SubKept s s1 := by
  unfold csObserve
  rw [hs]
  dsimp only
  split
  · exact ⟨_, rfl, rfl, ⟨rfl, rfl, rfl, rfl, rfl⟩⟩
  · exact ⟨s, hs, rfl, SubKept.rfl' _⟩

/-- one reconcile while the clean-up runs: the status calculation, ONE clean-up round on the observed status, and the
    result written back (no error is possible: none of the five tasks reports one) -/
theorem fin_reconcile (w : World) (wl : WL) (s : Sub)
    (hg : RoGood w.ro) (hph : w.ro.phase = .progressing) (hr : w.ro.reason = .finalising)
    (hwl : w.wl = some wl) (hc : wl.consistent = true) (hs : w.ro.sub = some s)
    (hcur : cursorOk (taskList w.ro.style .success) s.finStep = true) :
    ∃ r c c' d, reconcile w = .val r ∧
      c.ro.hasTraffic = w.ro.hasTraffic ∧ c.br = w.br ∧ c.net = w.net ∧ c.sub.finStep = s.finStep ∧ SubKept s c'.sub ∧
      FinRound c c' d ∧
      r.roGone = false ∧ SpecKept w.ro r.w.ro ∧ r.w.ro.phase = .progressing ∧ r.w.ro.sub = some c'.sub ∧
      r.w.ro.reason = (if d then .completed else .finalising) ∧ r.w.wl = some { wl with inProgressAnno := false } ∧
      r.w.br = c'.br ∧ r.w.net = c'.net := by
  have hhf := hf_good w.ro hg
  have hcs := cs_good w.ro wl hg hph hc
  have hsame := (csObserve_same w.ro wl).1
  obtain ⟨hfin, hphase, hreason, _⟩ := csObserve_facts w.ro wl s hs
  obtain ⟨s1, hs1, hs1f, hs1k⟩ := fin_csObserve w.ro wl s hs
  generalize csObserve w.ro wl = ns at hcs hsame hfin hphase hreason hs1
  have hsteps : ns.steps ≠ [] := by rw [hsame.1]; exact hg.steps
  have hstyle : ns.style = .canary := by rw [hsame.2.2.1]; exact hg.canary
  cases hd : doFinalising (toCtx { w with ro := ns } s1 wl) .success true with
  | none => exact absurd hd (doFinalising_total _ _ _ (by unfold toCtx; exact hsteps))
  | some x =>
    obtain ⟨c', d, e⟩ := x
    have hfz : finalise w ns (some wl) .success true = some (ofCtx w c' ns, d, e, c'.writes) := by
      unfold finalise
      rw [hs1]
      dsimp only
      rw [if_neg (by simp [hc]), hd]
    have hrec := reconcile_finalising_eq w wl ns _ d e _ hhf hcs hph hr hwl hc hfz hg.notDeleting hg.enabled
    have hcur0 : cursorOk (taskList (toCtx { w with ro := ns } s1 wl).ro.style .success)
        (toCtx { w with ro := ns } s1 wl).sub.finStep = true := by
      show cursorOk (taskList ns.style .success) s1.finStep = true
      rw [hs1f, hsame.2.2.1]; exact hcur
    obtain ⟨he, hro', hwl', hsk, hround⟩ := fin_round _ c' d e hstyle hcur0 hd
    subst he
    have hro'' : c'.ro = ns := hro'
    have hwl'' : c'.wl = { wl with inProgressAnno := false } := hwl'
    have hsk' : SubKept s1 c'.sub := hsk
    rw [if_neg (by simp)] at hrec
    cases d with
    | true =>
      rw [if_pos rfl] at hrec
      refine ⟨_, toCtx { w with ro := ns } s1 wl, c', true, hrec, hsame.2.1, rfl, rfl, hs1f, hs1k.trans hsk', hround, rfl,
        ⟨hsame, hfin⟩, hphase.trans hph, rfl, rfl, ?_, rfl, rfl⟩
      show some c'.wl = _
      rw [hwl'']
    | false =>
      rw [if_neg (by simp)] at hrec
      refine ⟨_, toCtx { w with ro := ns } s1 wl, c', false, hrec, hsame.2.1, rfl, rfl, hs1f, hs1k.trans hsk', hround, rfl,
        ⟨hsame, hfin⟩, hphase.trans hph, rfl, hreason.trans hr, ?_, rfl, rfl⟩
      show some c'.wl = _
      rw [hwl'']

/-! ### the reconcile on the joint state -/

/-- the pre-state facts and the post-state of one Rollout reconcile while the clean-up runs -/
theorem fin_post (s s' : CS) (w : CWl) (h : trInv s = true) (hw : s.wl = some w) (hc : (roWl w).consistent = true)
    (hph : s.ro.phase = .progressing) (hr : s.ro.reason = .finalising) (hs : stepRo s = some s') :
    ∃ sub c c' d, s.ro.sub = some sub ∧ RoGood s.ro ∧ 0 < w.replicas ∧ brOKo s.br = true ∧
      finInv .success s.ro sub.finStep (s.br.map roBr) s.net = true ∧
      netCore s sub w false = true ∧ finBr s sub w = true ∧ sub.canaryRev = w.updateRevision ∧ sub.curIdx ≤ s.ro.steps.length ∧
      c.ro.hasTraffic = s.ro.hasTraffic ∧ c.br = s.br.map roBr ∧ c.net = s.net ∧ c.sub.finStep = sub.finStep ∧
      SubKept sub c'.sub ∧ FinRound c c' d ∧
      SpecKept s.ro s'.ro ∧ s'.ro.phase = .progressing ∧ s'.ro.sub = some c'.sub ∧
      s'.ro.reason = (if d then .completed else .finalising) ∧ s'.net = c'.net ∧
      (s'.br, s'.wl) = landBR s.br c'.br (some { w with inProgressAnno := false }) := by
  obtain ⟨_, hgone, hg, w0, hw0, _, _, hbr, hpi, hR, htp⟩ := tr_parts s h
  rw [hw] at hw0; cases hw0
  cases hsub : s.ro.sub with
  | none =>
    unfold phaseInv at hpi
    rw [hph, hr] at hpi
    dsimp only at hpi
    rw [hsub] at hpi
    cases hpi
  | some sub =>
    rw [phaseInv_fin s w sub hph hr hsub] at hpi
    rw [trPhase_fin s w sub hph hr hsub] at htp
    simp only [Bool.and_eq_true, beq_iff_eq, decide_eq_true_eq] at hpi htp
    obtain ⟨hcur, hinv⟩ := hpi
    obtain ⟨⟨⟨hnc, hfb⟩, hrev⟩, hidx⟩ := htp
    obtain ⟨r, c, c', d, hrec, c1, c2, c3, c4, c5, c6, r1, r2, r3, r4, r5, r6, r7, r8⟩ :=
      fin_reconcile (roWorld s) (roWl w) sub hg hph hr (world_wl s w hw) hc hsub hcur
    have hs' := stepRo_eq s hgone r hrec
    rw [hs] at hs'
    cases hs'
    refine ⟨sub, c, c', d, rfl, hg, hR, hbr, hinv, hnc, hfb, hrev, hidx, c1, c2, c3, c4, c5, c6, r2, r3, r4, r5, r8, ?_⟩
    show ((landBR s.br r.w.br (annoLand s.wl r.w.wl)).1, (landBR s.br r.w.br (annoLand s.wl r.w.wl)).2) = _
    rw [r6, r7, hw]
    rfl

/-! ### the network part of the invariant across the round -/

theorem fin_effIdx (s s' : CS) (sub sub' : Sub) (hk : SubKept sub sub') (hbr : s'.br = s.br) : effIdx s' sub' = effIdx s sub := by
  unfold effIdx
  rw [hk.state, hk.curIdx, hbr]

theorem fin_fullAt (ro ro' : Rollout) (R j : Int) (h : ro'.steps = ro.steps) : fullAt ro' R j = fullAt ro R j := by
  unfold fullAt stepAt
  rw [h]

/-- the network facts survive a round that only removes objects, keeps the canary route only together with the canary
    Service, and keeps the pin only together with the BatchRelease -/
theorem fin_netCore (s s' : CS) (sub sub' : Sub) (w : CWl)
    (hsteps : s'.ro.steps = s.ro.steps) (htr : s'.ro.hasTraffic = s.ro.hasTraffic) (hdg : s'.ro.disableGen = s.ro.disableGen)
    (hk : SubKept sub sub')
    (hex : s'.net.stableExists = s.net.stableExists) (hing : s'.net.stableIngress = s.net.stableIngress)
    (hsel : s'.net.stableSel = none ∨ (s'.net.stableSel = s.net.stableSel ∧ s'.br = s.br))
    (hsvc : s'.net.canarySvc = none ∨ s'.net.canarySvc = s.net.canarySvc)
    (hci : s'.net.canaryIng = none ∨ (s'.net.canaryIng = s.net.canaryIng ∧ s'.net.canarySvc = s.net.canarySvc))
    (h : netCore s sub w false = true) : netCore s' sub' { w with inProgressAnno := false } false = true := by
  unfold netCore at h ⊢
  simp only [Bool.false_eq_true, if_false, Bool.and_eq_true] at h ⊢
  obtain ⟨⟨⟨⟨⟨h1, h2⟩, h3⟩, h4⟩, h5⟩, h6⟩ := h
  refine ⟨⟨⟨⟨⟨?_, ?_⟩, ?_⟩, ?_⟩, ?_⟩, ?_⟩
  · rcases hsel with e | ⟨e, _⟩
    · rw [e]; rfl
    · rw [e]
      have : stableAlive sub' { w with inProgressAnno := false } = stableAlive sub w := by
        unfold stableAlive keepsOne
        rw [hk.stableRev]
      rw [this]; exact h1
  · unfold pinOK at h2 ⊢
    rcases hsel with e | ⟨e, eb⟩
    · rw [e]
    · rw [e, fin_effIdx s s' sub sub' hk eb, fin_fullAt s.ro s'.ro _ _ hsteps, htr, hdg, hk.stableRev]
      exact h2
  · unfold svcOK at h3 ⊢
    rcases hsvc with e | e
    · rw [e]
    · rw [e, htr, hdg]; exact h3
  · unfold ingOK at h4 ⊢
    rcases hci with e | ⟨e, e2⟩
    · rw [e]
    · rw [e, e2, htr, hdg]; exact h4
  · unfold hashOK at h5 ⊢
    rw [hk.podHash]; exact h5
  · unfold baseOK at h6 ⊢
    rw [htr, hex, hing]; exact h6

/-! ### what the clean-up invariant says at each cursor -/

theorem fin_inv_posts (ro : Rollout) (f : FinStep) (br : Option BR) (n : Net) (hst : ro.style = .canary)
    (h : finInv .success ro f br n = true) :
    ((f = .routeTrafficToStable ∨ f = .removeCanaryService ∨ f = .resumeWorkload ∨ f = .releaseWorkloadControl ∨ f = .end_) →
      post .restoreStableService ro br n = true) ∧
    ((f = .removeCanaryService ∨ f = .resumeWorkload ∨ f = .releaseWorkloadControl ∨ f = .end_) →
      post .routeTrafficToStable ro br n = true) ∧
    ((f = .resumeWorkload ∨ f = .releaseWorkloadControl ∨ f = .end_) → post .removeCanaryService ro br n = true) := by
  unfold finInv at h
  rw [hst, List.all_eq_true] at h
  refine ⟨fun hf => h _ ?_, fun hf => h _ ?_, fun hf => h _ ?_⟩
  · rcases hf with hf | hf | hf | hf | hf <;> subst hf <;> decide
  · rcases hf with hf | hf | hf | hf <;> subst hf <;> decide
  · rcases hf with hf | hf | hf <;> subst hf <;> decide

/-- the stable Service was restored: it is not pinned -/
theorem fin_sel_none (s : CS) (sub : Sub) (w : CWl) (br : Option BR) (hnc : netCore s sub w false = true)
    (hp : post .restoreStableService s.ro br s.net = true) : s.net.stableSel = none := by
  unfold netCore at hnc
  simp only [Bool.false_eq_true, if_false, Bool.and_eq_true] at hnc
  obtain ⟨⟨⟨⟨⟨_, h2⟩, _⟩, _⟩, _⟩, h6⟩ := hnc
  unfold pinOK at h2
  unfold baseOK at h6
  unfold post at hp
  dsimp only at hp
  cases hsel : s.net.stableSel with
  | none => rfl
  | some r =>
    rw [hsel] at h2 hp
    simp only [Bool.and_eq_true, beq_iff_eq, bne_iff_ne, ne_eq, Bool.not_eq_true'] at h2
    obtain ⟨⟨⟨⟨_, hne⟩, _⟩, htr⟩, _⟩ := h2
    rw [htr] at h6 hp
    simp only [Bool.not_true, Bool.false_or, Bool.and_eq_true] at h6
    rw [h6.1] at hp
    simp only [Bool.not_true, Bool.false_or, Option.getD_some, beq_iff_eq] at hp
    exact absurd hp hne

/-- the gateway was restored: there is no canary route -/
theorem fin_ing_none (s : CS) (sub : Sub) (w : CWl) (br : Option BR) (hnc : netCore s sub w false = true)
    (hp : post .routeTrafficToStable s.ro br s.net = true) : s.net.canaryIng = none := by
  unfold netCore at hnc
  simp only [Bool.false_eq_true, if_false, Bool.and_eq_true] at hnc
  obtain ⟨⟨⟨_, h4⟩, _⟩, _⟩ := hnc
  unfold ingOK at h4
  unfold post at hp
  dsimp only at hp
  cases hci : s.net.canaryIng with
  | none => rfl
  | some x =>
    rw [hci] at h4 hp
    simp only [Bool.and_eq_true] at h4
    rw [h4.1] at hp
    simp at hp

/-- the canary Service was removed -/
theorem fin_svc_none (s : CS) (sub : Sub) (w : CWl) (br : Option BR) (hnc : netCore s sub w false = true)
    (hp : post .removeCanaryService s.ro br s.net = true) : s.net.canarySvc = none := by
  unfold netCore at hnc
  simp only [Bool.false_eq_true, if_false, Bool.and_eq_true] at hnc
  obtain ⟨⟨⟨⟨⟨_, _⟩, h3⟩, _⟩, _⟩, _⟩ := hnc
  unfold svcOK at h3
  unfold post at hp
  dsimp only at hp
  cases hcs : s.net.canarySvc with
  | none => rfl
  | some x =>
    rw [hcs] at h3 hp
    simp only [Bool.and_eq_true, Bool.not_eq_true'] at h3
    rw [h3.1.2, h3.2] at hp
    simp at hp

/-- without traffic routing the network is clean throughout -/
theorem fin_noTraffic_clean (s : CS) (sub : Sub) (w : CWl) (hnc : netCore s sub w false = true) (htr : s.ro.hasTraffic = false) :
    netClean s.net = true := by
  unfold netCore at hnc
  simp only [Bool.false_eq_true, if_false, Bool.and_eq_true] at hnc
  obtain ⟨⟨⟨⟨⟨_, h2⟩, h3⟩, h4⟩, _⟩, _⟩ := hnc
  unfold pinOK at h2
  unfold svcOK at h3
  unfold ingOK at h4
  rw [netClean_iff]
  refine ⟨?_, ?_, ?_⟩
  · cases hx : s.net.canaryIng with
    | none => rfl
    | some x => rw [hx, htr] at h4; simp at h4
  · cases hx : s.net.canarySvc with
    | none => rfl
    | some x => rw [hx, htr] at h3; simp at h3
  · cases hx : s.net.stableSel with
    | none => rfl
    | some x => rw [hx, htr] at h2; simp at h2

/-! ### the BatchRelease / workload part of the invariant across the round -/

theorem fin_linkOK (ro ro' : Rollout) (sub sub' : Sub) (b : CBr) (hsteps : ro'.steps = ro.steps) (hk : SubKept sub sub') :
    linkOK ro' sub' b = linkOK ro sub b := by
  unfold linkOK planOf
  rw [hsteps, hk.curIdx]

theorem fin_released (w : CWl) : released { w with inProgressAnno := false } = released w := rfl

/-- before `ResumeWorkload` the clause is "the BatchRelease exists and is linked" -/
theorem fin_finBr_before_eq (s : CS) (sub : Sub) (w : CWl) (hcur : beforeResume sub.finStep = true) :
    finBr s sub w = (match s.br with | some b => linkOK s.ro sub b | none => false) := by
  unfold finBr
  cases hf : sub.finStep <;> rw [hf] at hcur <;> first | rfl | exact absurd hcur (by decide)

/-- cursors before `ResumeWorkload`: the BatchRelease is not written; the clause survives the step to the next cursor
    (including the step to `ResumeWorkload`) -/
theorem fin_finBr_before (s s' : CS) (sub sub' : Sub) (w w' : CWl)
    (hsteps : s'.ro.steps = s.ro.steps) (hk : SubKept sub sub') (hbr : s'.br = s.br)
    (hcur : beforeResume sub.finStep = true)
    (hcur' : beforeResume sub'.finStep = true ∨ sub'.finStep = .resumeWorkload)
    (h : finBr s sub w = true) : finBr s' sub' w' = true := by
  rw [fin_finBr_before_eq s sub w hcur] at h
  cases hb : s.br with
  | none => rw [hb] at h; cases h
  | some b =>
    rw [hb] at h hbr
    dsimp only at h
    have hl : linkOK s'.ro sub' b = true := by rw [fin_linkOK s.ro s'.ro sub sub' b hsteps hk]; exact h
    rcases hcur' with hc | hc
    · rw [fin_finBr_before_eq s' sub' w' hc, hbr]
      exact hl
    · unfold finBr
      rw [hc, hbr]
      dsimp only
      rw [hl]; rfl

/-- `finalizingBatchRelease` on an existing BatchRelease: done (resumed and Completed), wait, or patch "no batch partition" -/
theorem fin_fbr (rb : BR) :
    (rb.partition = none ∧ rb.phaseCompleted = true ∧ finalizingBatchRelease (some rb) true = (false, some rb, [])) ∨
    (finalizingBatchRelease (some rb) true = (true, some rb, [])) ∨
    (∃ nb ws, finalizingBatchRelease (some rb) true = (true, some nb, ws) ∧ nb.partition = none ∧ nb.deleting = rb.deleting) := by
  unfold finalizingBatchRelease
  dsimp only
  by_cases hA : rb.partition.isNone = true ∧ rb.phaseCompleted = true
  · rw [if_pos hA]
    exact Or.inl ⟨by simpa using hA.1, hA.2, rfl⟩
  · rw [if_neg hA]
    split
    · exact Or.inr (Or.inl rfl)
    · exact Or.inr (Or.inr ⟨_, _, rfl, rfl, rfl⟩)

/-- cursor `ResumeWorkload`: the BatchRelease is left alone (then Completed ⇒ the cursor moves on, the workload is released),
    or patched to "no batch partition" — it is not being deleted and its status is not written -/
theorem fin_finBr_resume (s s' : CS) (sub : Sub) (w w' : CWl) (c c' : Ctx)
    (hsteps : s'.ro.steps = s.ro.steps) (hk : SubKept sub c'.sub) (hf : sub.finStep = .resumeWorkload)
    (hcbr : c.br = s.br.map roBr) (hbr' : c'.br = (finalizingBatchRelease c.br true).2.1)
    (hf' : c'.sub.finStep = (if (finalizingBatchRelease c.br true).1 then .resumeWorkload else .releaseWorkloadControl))
    (hland : (s'.br, s'.wl) = landBR s.br c'.br (some w')) (hrel : released w' = released w)
    (h : finBr s sub w = true) : s'.wl = some w' ∧ finBr s' c'.sub w' = true := by
  unfold finBr at h
  rw [hf] at h
  dsimp only at h
  cases hb : s.br with
  | none => rw [hb] at h; cases h
  | some b =>
    rw [hb] at h hcbr hland
    dsimp only at h
    rw [hcbr] at hbr' hf'
    simp only [Option.map_some] at hbr' hf'
    -- the pre-state clause: not deleting, and Completed only with the workload released
    have hpre : b.deleting = false ∧ (b.st.phase = .completed → released w = true) := by
      refine ⟨?_, ?_⟩
      · simp only [Bool.or_eq_true, Bool.and_eq_true, Bool.not_eq_true'] at h
        rcases h with h | h
        · exact ((linkOK_iff' _ _ _).1 h).2.2.1
        · exact h.1.1
      · intro hp
        simp only [Bool.or_eq_true, Bool.and_eq_true, Bool.not_eq_true', bne_iff_ne, ne_eq] at h
        rcases h with h | h
        · rcases ((linkOK_iff' _ _ _).1 h).2.2.2 with e | e | e <;> rw [hp] at e <;> cases e
        · rcases h.2 with e | e
          · exact absurd hp e
          · exact e
    obtain ⟨hdel, hcompl⟩ := hpre
    rcases fin_fbr (roBr b) with ⟨hp, hc, e⟩ | e | ⟨nb, ws, e, hnp, hnd⟩
    · simp only [e, Bool.false_eq_true, if_false] at hbr' hf'
      rw [hbr'] at hland
      have hl : landBR (some b) (some (roBr b)) (some w') = (some b, some w') := landBR_id (some b) (some w')
      rw [hl] at hland
      simp only [Prod.mk.injEq] at hland
      obtain ⟨e1, e2⟩ := hland
      refine ⟨e2, ?_⟩
      unfold finBr
      rw [hf', e1]
      dsimp only
      have hp' : b.partition = none := hp
      have hc' : b.st.phase = .completed := by simpa [roBr] using hc
      rw [hp', hc', hrel, hcompl hc']
      rfl
    · simp only [e, if_true] at hbr' hf'
      rw [hbr'] at hland
      have hl : landBR (some b) (some (roBr b)) (some w') = (some b, some w') := landBR_id (some b) (some w')
      rw [hl] at hland
      simp only [Prod.mk.injEq] at hland
      obtain ⟨e1, e2⟩ := hland
      refine ⟨e2, ?_⟩
      unfold finBr
      rw [hf', e1]
      dsimp only
      rw [fin_linkOK s.ro s'.ro sub c'.sub b hsteps hk, hrel]
      exact h
    · simp only [e, if_true] at hbr' hf'
      rw [hbr'] at hland
      obtain ⟨c2, e', u, ud⟩ := updatedBr_some b nb hnd
      have hl : landBR (some b) (some nb) (some w') = (some c2, some w') := by
        show (updatedBr b nb, some w') = _
        rw [e']
      rw [hl] at hland
      simp only [Prod.mk.injEq] at hland
      obtain ⟨e1, e2⟩ := hland
      refine ⟨e2, ?_⟩
      unfold finBr
      rw [hf', e1]
      dsimp only
      have hp2 : c2.partition = none := u.partition.trans hnp
      rw [ud, hdel, hp2, u.phase, hrel]
      simp only [Bool.or_eq_true, Bool.and_eq_true, Bool.not_false, Option.isNone_none, true_and, bne_iff_ne, ne_eq]
      right
      by_cases hc : b.st.phase = .completed
      · exact Or.inr (hcompl hc)
      · exact Or.inl hc

/-- `removeBatchRelease` on an existing BatchRelease: it is (or already was) marked for deletion, nothing else is written -/
theorem fin_rbr (rb : BR) :
    ∃ nb ws, removeBatchRelease (some rb) = (true, some nb, ws) ∧ nb.partition = rb.partition := by
  unfold removeBatchRelease
  dsimp only
  split
  · exact ⟨_, _, rfl, rfl⟩
  · exact ⟨_, _, rfl, rfl⟩

/-- cursor `ReleaseWorkloadControl`: an existing BatchRelease is deleted (marked, or gone at once) — batch partition, status and
    workload are not written; once it is gone the round reports done -/
theorem fin_finBr_release (s s' : CS) (sub : Sub) (w w' : CWl) (c c' : Ctx) (d : Bool)
    (hf : sub.finStep = .releaseWorkloadControl) (hcbr : c.br = s.br.map roBr)
    (hbr' : c'.br = (removeBatchRelease c.br).2.1)
    (hout : if (removeBatchRelease c.br).1 then c'.sub.finStep = .releaseWorkloadControl ∧ d = false
            else c'.sub.finStep = .end_ ∧ d = true)
    (hland : (s'.br, s'.wl) = landBR s.br c'.br (some w')) (hrel : released w' = released w)
    (h : finBr s sub w = true) : s'.wl = some w' ∧ released w' = true ∧ (d = false → finBr s' c'.sub w' = true) := by
  unfold finBr at h
  rw [hf] at h
  dsimp only at h
  cases hb : s.br with
  | none =>
    rw [hb] at h hcbr hland
    dsimp only at h
    rw [hcbr] at hbr' hout
    have e : removeBatchRelease (Option.map roBr none) = (false, none, []) := rfl
    simp only [e, Bool.false_eq_true, if_false] at hbr' hout
    rw [hbr'] at hland
    have hl : landBR none none (some w') = (none, some w') := rfl
    rw [hl] at hland
    simp only [Prod.mk.injEq] at hland
    refine ⟨hland.2, hrel.trans h, fun hd => ?_⟩
    rw [hout.2] at hd; cases hd
  | some b =>
    rw [hb] at h hcbr hland
    dsimp only at h
    simp only [Bool.and_eq_true, Option.isNone_iff_eq_none, beq_iff_eq] at h
    obtain ⟨⟨hp, hc⟩, hr⟩ := h
    rw [hcbr] at hbr' hout
    obtain ⟨nb, ws, e, hnp⟩ := fin_rbr (roBr b)
    simp only [Option.map_some, e, if_true] at hbr' hout
    rw [hbr'] at hland
    have hl : landBR (some b) (some nb) (some w') = (updatedBr b nb, some w') := rfl
    rw [hl] at hland
    simp only [Prod.mk.injEq] at hland
    obtain ⟨e1, e2⟩ := hland
    refine ⟨e2, hrel.trans hr, fun _ => ?_⟩
    unfold finBr
    rw [hout.1, e1]
    dsimp only
    rcases updatedBr_any b nb with e' | ⟨c2, e', u⟩
    · rw [e']
      exact hrel.trans hr
    · rw [e']
      dsimp only
      have hp2 : c2.partition = none := (u.partition.trans hnp).trans hp
      rw [hp2, u.phase, hc, hrel, hr]
      rfl

/-- cursor `END`: nothing runs -/
theorem fin_finBr_end (s s' : CS) (sub : Sub) (w w' : CWl) (c c' : Ctx)
    (hf : sub.finStep = .end_) (hcbr : c.br = s.br.map roBr) (hbr' : c'.br = c.br)
    (hland : (s'.br, s'.wl) = landBR s.br c'.br (some w')) (hrel : released w' = released w)
    (h : finBr s sub w = true) : s'.wl = some w' ∧ released w' = true := by
  unfold finBr at h
  rw [hf] at h
  dsimp only at h
  simp only [Bool.and_eq_true, Option.isNone_iff_eq_none] at h
  rw [hbr', hcbr, h.1] at hland
  have hl : landBR none (Option.map roBr none) (some w') = (none, some w') := rfl
  rw [hl] at hland
  simp only [Prod.mk.injEq] at hland
  exact ⟨hland.2, hrel.trans h.2⟩

/-- before `ResumeWorkload` the BatchRelease is not written: it lands unchanged -/
theorem fin_land_same (s s' : CS) (w' : CWl) (c c' : Ctx) (hcbr : c.br = s.br.map roBr) (hbr' : c'.br = c.br)
    (hland : (s'.br, s'.wl) = landBR s.br c'.br (some w')) : s'.br = s.br ∧ s'.wl = some w' := by
  rw [hbr', hcbr, landBR_id] at hland
  simp only [Prod.mk.injEq] at hland
  exact hland

/-! ### the four ways the network changes in one round -/

theorem fin_nc_same (s s' : CS) (sub sub' : Sub) (w : CWl)
    (hsteps : s'.ro.steps = s.ro.steps) (htr : s'.ro.hasTraffic = s.ro.hasTraffic) (hdg : s'.ro.disableGen = s.ro.disableGen)
    (hk : SubKept sub sub') (hn : s'.net = s.net) (hsel : s.net.stableSel = none ∨ s'.br = s.br)
    (h : netCore s sub w false = true) : netCore s' sub' { w with inProgressAnno := false } false = true := by
  refine fin_netCore s s' sub sub' w hsteps htr hdg hk (by rw [hn]) (by rw [hn]) ?_ (Or.inr (by rw [hn]))
    (Or.inr ⟨by rw [hn], by rw [hn]⟩) h
  rcases hsel with e | e
  · exact Or.inl (by rw [hn]; exact e)
  · exact Or.inr ⟨by rw [hn], e⟩

theorem fin_nc_sel (s s' : CS) (sub sub' : Sub) (w : CWl)
    (hsteps : s'.ro.steps = s.ro.steps) (htr : s'.ro.hasTraffic = s.ro.hasTraffic) (hdg : s'.ro.disableGen = s.ro.disableGen)
    (hk : SubKept sub sub') (hn : s'.net = { s.net with stableSel := none })
    (h : netCore s sub w false = true) : netCore s' sub' { w with inProgressAnno := false } false = true :=
  fin_netCore s s' sub sub' w hsteps htr hdg hk (by rw [hn]) (by rw [hn]) (Or.inl (by rw [hn])) (Or.inr (by rw [hn]))
    (Or.inr ⟨by rw [hn], by rw [hn]⟩) h

theorem fin_nc_ing (s s' : CS) (sub sub' : Sub) (w : CWl)
    (hsteps : s'.ro.steps = s.ro.steps) (htr : s'.ro.hasTraffic = s.ro.hasTraffic) (hdg : s'.ro.disableGen = s.ro.disableGen)
    (hk : SubKept sub sub') (hn : s'.net = { s.net with canaryIng := none }) (hbr : s'.br = s.br)
    (h : netCore s sub w false = true) : netCore s' sub' { w with inProgressAnno := false } false = true :=
  fin_netCore s s' sub sub' w hsteps htr hdg hk (by rw [hn]) (by rw [hn]) (Or.inr ⟨by rw [hn], hbr⟩) (Or.inr (by rw [hn]))
    (Or.inl (by rw [hn])) h

theorem fin_nc_svc (s s' : CS) (sub sub' : Sub) (w : CWl)
    (hsteps : s'.ro.steps = s.ro.steps) (htr : s'.ro.hasTraffic = s.ro.hasTraffic) (hdg : s'.ro.disableGen = s.ro.disableGen)
    (hk : SubKept sub sub') (hn : s'.net = { s.net with canarySvc := none }) (hbr : s'.br = s.br)
    (hci : s.net.canaryIng = none)
    (h : netCore s sub w false = true) : netCore s' sub' { w with inProgressAnno := false } false = true :=
  fin_netCore s s' sub sub' w hsteps htr hdg hk (by rw [hn]) (by rw [hn]) (Or.inr ⟨by rw [hn], hbr⟩) (Or.inl (by rw [hn]))
    (Or.inl (by rw [hn]; exact hci)) h

/-! ### the interface theorems -/

theorem ro_finalising_tr (s s' : CS) (w : CWl) (h : trInv s = true) (hw : s.wl = some w) (hc : (roWl w).consistent = true)
    (hph : s.ro.phase = .progressing) (hr : s.ro.reason = .finalising) (hs : stepRo s = some s') : trRest s' = true := by
  obtain ⟨sub, c, c', d, hsub, hg, hR, hbrok, hinv, hnc, hfb, hrev, hidx, c1, c2, c3, c4, hsk, hround, hk, hph', hsub', hr',
    hnet', hland⟩ := fin_post s s' w h hw hc hph hr hs
  obtain ⟨hp1, hp2, hp3⟩ := fin_inv_posts s.ro sub.finStep _ s.net hg.canary hinv
  have hsteps : s'.ro.steps = s.ro.steps := hk.1.1
  have htr : s'.ro.hasTraffic = s.ro.hasTraffic := hk.1.2.1
  have hdg : s'.ro.disableGen = s.ro.disableGen := hk.1.2.2.2.2.2.1
  -- the two ways the post-state satisfies the invariant
  have keep : d = false → s'.wl = some { w with inProgressAnno := false } →
      netCore s' c'.sub { w with inProgressAnno := false } false = true →
      finBr s' c'.sub { w with inProgressAnno := false } = true → trRest s' = true := by
    intro hd hwl hnc' hfb'
    rw [hd] at hr'
    rw [trRest_some s' _ hwl, trPhase_fin s' _ c'.sub hph' hr' hsub']
    refine ⟨hR, ?_⟩
    simp only [Bool.and_eq_true, beq_iff_eq, decide_eq_true_eq]
    exact ⟨⟨⟨hnc', hfb'⟩, hsk.canaryRev.trans hrev⟩, by rw [hsk.curIdx, hsteps]; exact hidx⟩
  have done : d = true → s'.wl = some { w with inProgressAnno := false } → netClean s'.net = true →
      released { w with inProgressAnno := false } = true → trRest s' = true := by
    intro hd hwl hcl hrel
    rw [hd] at hr'
    rw [trRest_some s' _ hwl, trPhase_completed s' _ hph' hr', hcl, hrel]
    exact ⟨hR, rfl⟩
  unfold FinRound at hround
  rw [c4] at hround
  cases hf : sub.finStep <;> rw [hf] at hround <;> dsimp only at hround <;> (try rw [c3, ← hnet'] at hround)
  case empty =>
    obtain ⟨b1, b2, b3, b4, _⟩ := hround
    obtain ⟨hbr', hwl'⟩ := fin_land_same s s' _ c c' c2 b1 hland
    refine keep b2 hwl' ?_ (fin_finBr_before s s' sub c'.sub w _ hsteps hsk hbr' (by rw [hf]; decide)
      (Or.inl (by rw [b3]; decide)) hfb)
    rcases b4 with e | e
    · exact fin_nc_same s s' sub c'.sub w hsteps htr hdg hsk e (Or.inr hbr') hnc
    · exact fin_nc_sel s s' sub c'.sub w hsteps htr hdg hsk e hnc
  case restoreStableService =>
    obtain ⟨b1, b2, b3, b4, _⟩ := hround
    obtain ⟨hbr', hwl'⟩ := fin_land_same s s' _ c c' c2 b1 hland
    refine keep b2 hwl' ?_ (fin_finBr_before s s' sub c'.sub w _ hsteps hsk hbr' (by rw [hf]; decide)
      (Or.inl (by rcases b3 with e | e <;> rw [e] <;> decide)) hfb)
    rcases b4 with e | e
    · exact fin_nc_same s s' sub c'.sub w hsteps htr hdg hsk e (Or.inr hbr') hnc
    · exact fin_nc_sel s s' sub c'.sub w hsteps htr hdg hsk e hnc
  case routeTrafficToStable =>
    obtain ⟨b1, b2, b3, b4, _⟩ := hround
    obtain ⟨hbr', hwl'⟩ := fin_land_same s s' _ c c' c2 b1 hland
    refine keep b2 hwl' ?_ (fin_finBr_before s s' sub c'.sub w _ hsteps hsk hbr' (by rw [hf]; decide)
      (Or.inl (by rcases b3 with e | e <;> rw [e] <;> decide)) hfb)
    rcases b4 with e | e
    · exact fin_nc_same s s' sub c'.sub w hsteps htr hdg hsk e (Or.inr hbr') hnc
    · exact fin_nc_ing s s' sub c'.sub w hsteps htr hdg hsk e hbr' hnc
  case removeCanaryService =>
    obtain ⟨b1, b2, b3, b4, _⟩ := hround
    obtain ⟨hbr', hwl'⟩ := fin_land_same s s' _ c c' c2 b1 hland
    refine keep b2 hwl' ?_ (fin_finBr_before s s' sub c'.sub w _ hsteps hsk hbr' (by rw [hf]; decide)
      (by rcases b3 with e | e
          · exact Or.inl (by rw [e]; decide)
          · exact Or.inr e) hfb)
    rcases b4 with e | e
    · exact fin_nc_same s s' sub c'.sub w hsteps htr hdg hsk e (Or.inr hbr') hnc
    · exact fin_nc_svc s s' sub c'.sub w hsteps htr hdg hsk e hbr'
        (fin_ing_none s sub w _ hnc (hp2 (Or.inl hf))) hnc
  case resumeWorkload =>
    obtain ⟨b1, b2, b3, b4⟩ := hround
    obtain ⟨hwl', hfb'⟩ := fin_finBr_resume s s' sub w _ c c' hsteps hsk hf c2 b3 b4 hland (fin_released w) hfb
    exact keep b2 hwl' (fin_nc_same s s' sub c'.sub w hsteps htr hdg hsk b1
      (Or.inl (fin_sel_none s sub w _ hnc (hp1 (Or.inr (Or.inr (Or.inl hf)))))) hnc) hfb'
  case releaseWorkloadControl =>
    obtain ⟨b1, b2, b3⟩ := hround
    obtain ⟨hwl', hrel', hfb'⟩ := fin_finBr_release s s' sub w _ c c' d hf c2 b2 b3 hland (fin_released w) hfb
    have hsel := fin_sel_none s sub w _ hnc (hp1 (Or.inr (Or.inr (Or.inr (Or.inl hf)))))
    cases hd : d with
    | false => exact keep hd hwl' (fin_nc_same s s' sub c'.sub w hsteps htr hdg hsk b1 (Or.inl hsel) hnc) (hfb' hd)
    | true =>
      refine done hd hwl' ?_ hrel'
      rw [b1, netClean_iff]
      exact ⟨fin_ing_none s sub w _ hnc (hp2 (Or.inr (Or.inr (Or.inl hf)))),
        fin_svc_none s sub w _ hnc (hp3 (Or.inr (Or.inl hf))), hsel⟩
  case end_ =>
    obtain ⟨b1, b2, b3, _⟩ := hround
    obtain ⟨hwl', hrel'⟩ := fin_finBr_end s s' sub w _ c c' hf c2 b2 hland (fin_released w) hfb
    refine done b3 hwl' ?_ hrel'
    rw [b1, netClean_iff]
    exact ⟨fin_ing_none s sub w _ hnc (hp2 (Or.inr (Or.inr (Or.inr hf)))),
      fin_svc_none s sub w _ hnc (hp3 (Or.inr (Or.inr hf))),
      fin_sel_none s sub w _ hnc (hp1 (Or.inr (Or.inr (Or.inr (Or.inr hf)))))⟩

theorem ro_finalising_route (s s' : CS) (w : CWl) (h : trInv s = true) (hw : s.wl = some w)
    (hc : (roWl w).consistent = true) (hph : s.ro.phase = .progressing) (hr : s.ro.reason = .finalising)
    (hs : stepRo s = some s') : s'.net.canaryIng = s.net.canaryIng ∨ s'.net.canaryIng = none := by
  obtain ⟨sub, c, c', d, _, _, _, _, _, _, _, _, _, _, _, c3, c4, _, hround, _, _, _, _, hnet', _⟩ :=
    fin_post s s' w h hw hc hph hr hs
  unfold FinRound at hround
  rw [c4] at hround
  cases hf : sub.finStep <;> rw [hf] at hround <;> dsimp only at hround <;> (try rw [c3, ← hnet'] at hround)
  case empty => rcases hround.2.2.2.1 with e | e <;> rw [e] <;> exact Or.inl rfl
  case restoreStableService => rcases hround.2.2.2.1 with e | e <;> rw [e] <;> exact Or.inl rfl
  case routeTrafficToStable =>
    rcases hround.2.2.2.1 with e | e <;> rw [e]
    · exact Or.inl rfl
    · exact Or.inr rfl
  case removeCanaryService => rcases hround.2.2.2.1 with e | e <;> rw [e] <;> exact Or.inl rfl
  case resumeWorkload => rw [hround.1]; exact Or.inl rfl
  case releaseWorkloadControl => rw [hround.1]; exact Or.inl rfl
  case end_ => rw [hround.1]; exact Or.inl rfl

end RV.Lemmas.ClosedLoopTraffic
