/-
  Label `ro` while the clean-up of a completed release runs (reason Finalising, consistent workload): the traffic part of
  the invariant is preserved (including the last reconcile, which reports Completed), and the canary route is at most withdrawn.
-/
import RV.Lemmas.ClosedLoopTrafficDefs
import RV.Lemmas.ClosedLoopTrafficArith
import RV.Lemmas.ClosedLoopFin
namespace RV.Lemmas.ClosedLoopTraffic
open RV.Arith RV.Traffic RV.RolloutSM RV.ClosedLoop RV.Oracle.ClosedLoop RV.Oracle.ClosedLoopTraffic RV.Lemmas.ClosedLoop

theorem ro_finalising_tr (s s' : CS) (w : CWl) (h : trInv s = true) (hw : s.wl = some w) (hc : (roWl w).consistent = true)
    (hph : s.ro.phase = .progressing) (hr : s.ro.reason = .finalising) (hs : stepRo s = some s') : trRest s' = true := by
  sorry

theorem ro_finalising_route (s s' : CS) (w : CWl) (h : trInv s = true) (hw : s.wl = some w)
    (hc : (roWl w).consistent = true) (hph : s.ro.phase = .progressing) (hr : s.ro.reason = .finalising)
    (hs : stepRo s = some s') : s'.net.canaryIng = s.net.canaryIng ∨ s'.net.canaryIng = none := by
  sorry

end RV.Lemmas.ClosedLoopTraffic
