/-
  Supersession, Rollout side: one Rollout reconcile of a rolling rollout whose workload has moved on to a newer revision
  (continuous release): the whole reconcile is one round of `doProgressingReset`.
-/
import RV.Lemmas.ClosedLoopRoll
namespace RV.Lemmas.ClosedLoop
open RV.Arith RV.Traffic RV.RolloutSM RV.Props.Reconcile RV.Props.Rollout

/-- what a reset round may do to the BatchRelease: nothing, or mark it deleted -/
inductive BrDel : Option BR → Option BR → Prop
  | same (br : Option BR) : BrDel br br
  | deleted (b : BR) : BrDel (some b) (some { b with deleting := true })

/-! ### the frame of one reset round -/

/-- `removeBatchRelease` marks the BatchRelease deleted (or leaves it); no retry only when there is none -/
theorem reset_remove (br : Option BR) :
    BrDel br (removeBatchRelease br).2.1 ∧ ((removeBatchRelease br).1 = false → (removeBatchRelease br).2.1 = none) := by
  unfold removeBatchRelease
  cases br with
  | none => exact ⟨BrDel.same _, fun _ => rfl⟩
  | some b =>
    dsimp only
    split
    · exact ⟨BrDel.same _, fun h => by cases h⟩
    · exact ⟨BrDel.deleted b, fun h => by cases h⟩

theorem reset_stage3 (c c' : Ctx) (d e : Bool) (h : prStage3 c = some (c', d, e)) : Keep c c' := by
  unfold prStage3 at h
  split at h
  · cases h
  · rename_i c1 _ _ hc
    have hk := callTM_keep _ _ _ _ _ _ hc
    split at h <;> (cases h; exact hk)

theorem reset_stage2 (c c' : Ctx) (d e : Bool) (h : prStage2 c = some (c', d, e)) :
    c'.ro = c.ro ∧ c'.wl = c.wl ∧ BrDel c.br c'.br ∧ c'.sub.canaryRev = c.sub.canaryRev ∧ (d = true → c'.br = none) ∧
      (c'.br = none ∨ c'.sub.finStep = c.sub.finStep) := by
  obtain ⟨b1, b2⟩ := reset_remove c.br
  unfold prStage2 at h
  dsimp only at h
  split at h
  · cases h; exact ⟨rfl, rfl, b1, rfl, (fun hd => by cases hd), Or.inr rfl⟩
  · rename_i hrt
    have k := reset_stage3 _ _ _ _ h
    have hbr : c'.br = (removeBatchRelease c.br).2.1 := k.br
    have hnone : c'.br = none := by rw [hbr]; exact b2 (by simpa using hrt)
    exact ⟨k.ro, k.wl, by rw [hbr]; exact b1, k.sub.rev, fun _ => hnone, Or.inl hnone⟩

theorem reset_cursor (c : Ctx) :
    (prCursor c).ro = c.ro ∧ (prCursor c).wl = c.wl ∧ (prCursor c).br = c.br ∧
      (prCursor c).sub.canaryRev = c.sub.canaryRev ∧
      ((prCursor c).sub.finStep = .routeTrafficToStable ∨ (prCursor c).sub.finStep = .releaseWorkloadControl ∨
        c.sub.finStep = .removeCanaryService) := by
  unfold prCursor
  split
  · rename_i he; exact ⟨rfl, rfl, rfl, rfl, Or.inl he⟩
  · rename_i he; exact ⟨rfl, rfl, rfl, rfl, Or.inr (Or.inl he)⟩
  · rename_i he; exact ⟨rfl, rfl, rfl, rfl, Or.inr (Or.inr he)⟩
  · exact ⟨rfl, rfl, rfl, rfl, Or.inl rfl⟩

/-- **one round of `doProgressingReset`**: rollout and workload are kept, the BatchRelease is left alone or marked
    deleted, the sub-status keeps the revision being released; the round is done only when no BatchRelease is left --
    except when the cursor already stood at the last stage (traffic routing configured): then the BatchRelease is
    not looked at at all -/
theorem reset_round (c c' : Ctx) (d e : Bool) (h : doProgressingReset c = some (c', d, e)) :
    c'.ro = c.ro ∧ c'.wl = c.wl ∧ BrDel c.br c'.br ∧ c'.sub.canaryRev = c.sub.canaryRev ∧
      (d = true → c'.br = none ∨ (c.ro.hasTraffic = true ∧ c.sub.finStep = .removeCanaryService ∧ c'.br = c.br)) ∧
      (c'.sub.finStep = .removeCanaryService → c.ro.hasTraffic = true →
        (c'.br = none ∨ (c.sub.finStep = .removeCanaryService ∧ c'.br = c.br))) := by
  obtain ⟨b1, b2⟩ := reset_remove c.br
  obtain ⟨p1, p2, p3, p4, p5⟩ := reset_cursor c
  unfold doProgressingReset at h
  split at h
  · rename_i hnt
    cases h
    exact ⟨rfl, rfl, b1, rfl, fun hd => Or.inl (b2 (by simpa using hd)), fun _ ht => absurd ht hnt⟩
  · rename_i htr
    split at h
    · cases h
    · dsimp only at h
      split at h
      · rename_i hq
        split at h
        · cases h
        · rename_i c2 rt er hc
          have k := callTM_keep _ _ _ _ _ _ hc
          split at h
          · cases h
            refine ⟨k.ro.trans p1, k.wl.trans p2, by rw [k.br, p3]; exact BrDel.same _, k.sub.rev.trans p4,
              (fun hd => by cases hd), fun hf _ => ?_⟩
            rw [k.sub.fin, hq] at hf
            cases hf
          · obtain ⟨x1, x2, x3, x4, x5, x6⟩ := reset_stage2 _ _ _ _ h
            have x3' : BrDel c2.br c'.br := x3
            rw [k.br, p3] at x3'
            refine ⟨x1.trans (k.ro.trans p1), x2.trans (k.wl.trans p2), x3', x4.trans (k.sub.rev.trans p4),
              fun hd => Or.inl (x5 hd), fun hf _ => ?_⟩
            rcases x6 with x6 | x6
            · exact Or.inl x6
            · have x6' : c'.sub.finStep = .releaseWorkloadControl := x6
              rw [x6'] at hf
              cases hf
      · rename_i hq
        obtain ⟨x1, x2, x3, x4, x5, x6⟩ := reset_stage2 _ _ _ _ h
        rw [p3] at x3
        refine ⟨x1.trans p1, x2.trans p2, x3, x4.trans p4, fun hd => Or.inl (x5 hd), fun hf _ => ?_⟩
        rcases x6 with x6 | x6
        · exact Or.inl x6
        · rw [x6, hq] at hf
          cases hf
      · rename_i n1 n2
        have k := reset_stage3 _ _ _ _ h
        have hfin : c.sub.finStep = .removeCanaryService := by
          rcases p5 with q | q | q
          · exact absurd q n1
          · exact absurd q n2
          · exact q
        exact ⟨k.ro.trans p1, k.wl.trans p2, by rw [k.br, p3]; exact BrDel.same _, k.sub.rev.trans p4,
          fun _ => Or.inr ⟨by simpa using htr, hfin, k.br.trans p3⟩, fun _ _ => Or.inr ⟨hfin, k.br.trans p3⟩⟩

/-! ### the whole reconcile -/

/-- the status calculation does not touch a rollout whose workload is at another revision -/
theorem reset_observe (ro : Rollout) (wl : WL) (os : Sub) (hs : ro.sub = some os) (hne : wl.canaryRev ≠ os.canaryRev) :
    csObserve ro wl = ro := by
  unfold csObserve
  rw [hs]
  dsimp only
  rw [if_neg (fun hh => hne hh.2.symm)]

/-- `doProgressingInRolling` of an un-paused canary rollout whose workload moved on to another revision (no rollback)
    is one round of `doProgressingReset` -/
theorem reset_inRolling (w : World) (ns : Rollout) (s os : Sub) (wl : WL) (hos : w.ro.sub = some os)
    (hnr : wl.inRollback = false) (hp : ns.paused = false) (hst : ns.style = .canary)
    (hrev : os.canaryRev ≠ "") (hne : wl.canaryRev ≠ os.canaryRev) :
    inRolling w w.ro ns s wl =
      match doProgressingReset (toCtx { w with ro := ns } s wl) with
      | none => .panic
      | some (c, done, err) =>
        if err then .val { w := ofCtx w c ns, roGone := false, requeue := false, err := true, writes := c.writes }
        else if done then
          .val { w := { (ofCtx w c ns) with ro := { (ofCtx w c ns).ro with sub := none, reason := .initializing } },
                 roGone := false, requeue := false, err := false, writes := c.writes }
        else .val { w := ofCtx w c ns, roGone := false, requeue := true, err := false, writes := c.writes } := by
  unfold inRolling
  dsimp only
  rw [hos]
  dsimp only
  rw [if_neg (by simp [hnr]), if_neg (by simp [hp]), if_neg (by simp [hnr]), if_pos ⟨hrev, hne, by simp [hnr]⟩,
    if_neg (by simp [hst])]
  rfl

/-- the reset reconcile, as it holds without any assumption on the clean-up cursor: when the rollout is handed back to
    the initialising state, either no BatchRelease is left, or the cursor already stood at the last stage and the
    BatchRelease was not looked at -/
theorem reset_step_gen (w : World) (wl : WL) (os : Sub)
    (hg : RoGood w.ro) (hph : w.ro.phase = .progressing) (hr : w.ro.reason = .inRolling)
    (hwl : w.wl = some wl) (hc : wl.consistent = true) (hnr : wl.inRollback = false)
    (hs : w.ro.sub = some os) (hrev : os.canaryRev ≠ "") (hne : wl.canaryRev ≠ os.canaryRev) :
    ∃ r, reconcile w = .val r ∧ r.roGone = false ∧ SpecKept w.ro r.w.ro ∧ r.w.ro.phase = .progressing ∧ r.w.wl = some wl ∧
      BrDel w.br r.w.br ∧
      ((r.w.ro.reason = .inRolling ∧ ∃ s', r.w.ro.sub = some s' ∧ s'.canaryRev = os.canaryRev) ∨
       (r.w.ro.reason = .initializing ∧ r.w.ro.sub = none ∧
         (r.w.br = none ∨ (w.ro.hasTraffic = true ∧ os.finStep = .removeCanaryService ∧ r.w.br = w.br)))) := by
  have hobs := reset_observe w.ro wl os hs hne
  have hs1 : (csObserve w.ro wl).sub = some os := by rw [hobs]; exact hs
  rw [reconcile_roll w wl os hg hph hr hwl hc hs1, hobs,
    reset_inRolling w w.ro os os wl hs hnr hg.unpaused hg.canary hrev hne]
  cases hd : doProgressingReset (toCtx { w with ro := w.ro } os wl) with
  | none => exact absurd hd (doProgressingReset_total _ hg.steps)
  | some p =>
    obtain ⟨c, done, err⟩ := p
    obtain ⟨r1, r2, r3, r4, r5, _⟩ := reset_round _ c done err hd
    have r2' : c.wl = wl := r2
    have r3' : BrDel w.br c.br := r3
    have r4' : c.sub.canaryRev = os.canaryRev := r4
    have r5' : done = true → c.br = none ∨ (w.ro.hasTraffic = true ∧ os.finStep = .removeCanaryService ∧ c.br = w.br) := r5
    have hwl' : some c.wl = some wl := by rw [r2']
    cases err with
    | true =>
      exact ⟨_, rfl, rfl, ⟨Same.rfl' _, rfl⟩, hph, hwl', r3', Or.inl ⟨hr, os, hs, rfl⟩⟩
    | false =>
      cases done with
      | true =>
        exact ⟨_, rfl, rfl, ⟨Same.rfl' _, rfl⟩, hph, hwl', r3', Or.inr ⟨rfl, rfl, r5' rfl⟩⟩
      | false =>
        exact ⟨_, rfl, rfl, ⟨Same.rfl' _, rfl⟩, hph, hwl', r3', Or.inl ⟨hr, c.sub, rfl, r4'⟩⟩

/-
  The statement as first posed,

    theorem reset_step (w : World) (wl : WL) (os : Sub)
        (hg : RoGood w.ro) (hph : w.ro.phase = .progressing) (hr : w.ro.reason = .inRolling)
        (hwl : w.wl = some wl) (hc : wl.consistent = true) (hnr : wl.inRollback = false)
        (hs : w.ro.sub = some os) (hrev : os.canaryRev ≠ "") (hne : wl.canaryRev ≠ os.canaryRev) :
        ∃ r, reconcile w = .val r ∧ r.roGone = false ∧ SpecKept w.ro r.w.ro ∧ r.w.ro.phase = .progressing ∧ r.w.wl = some wl ∧
          BrDel w.br r.w.br ∧
          ((r.w.ro.reason = .inRolling ∧ ∃ s', r.w.ro.sub = some s' ∧ s'.canaryRev = os.canaryRev) ∨
           (r.w.ro.reason = .initializing ∧ r.w.ro.sub = none ∧ r.w.br = none))

  is FALSE.  Witness: a good rollout with `hasTraffic := true`, two steps, sub-status `os` with
  `finStep := .removeCanaryService`, `canaryRev := "v1"`; workload consistent, not in rollback, `canaryRev := "v2"`;
  `w.br = some b` for any `b`.  `prCursor` keeps the cursor, `doProgressingReset` runs `prStage3` only
  (`removeCanaryService` never fails), which reports *done* without looking at the BatchRelease: the reconcile
  returns reason `initializing`, sub-status `none` and `r.w.br = some b` (unchanged), so neither disjunct holds.
  `reset_step_gen` is what holds without further assumptions; `reset_step_partial` is the posed conclusion under the
  extra hypothesis `hfin` that excludes exactly this situation.
-/
theorem reset_step_partial (w : World) (wl : WL) (os : Sub)
    (hg : RoGood w.ro) (hph : w.ro.phase = .progressing) (hr : w.ro.reason = .inRolling)
    (hwl : w.wl = some wl) (hc : wl.consistent = true) (hnr : wl.inRollback = false)
    (hs : w.ro.sub = some os) (hrev : os.canaryRev ≠ "") (hne : wl.canaryRev ≠ os.canaryRev)
    (hfin : w.ro.hasTraffic = true → os.finStep = .removeCanaryService → w.br = none) :
    ∃ r, reconcile w = .val r ∧ r.roGone = false ∧ SpecKept w.ro r.w.ro ∧ r.w.ro.phase = .progressing ∧ r.w.wl = some wl ∧
      BrDel w.br r.w.br ∧
      ((r.w.ro.reason = .inRolling ∧ ∃ s', r.w.ro.sub = some s' ∧ s'.canaryRev = os.canaryRev) ∨
       (r.w.ro.reason = .initializing ∧ r.w.ro.sub = none ∧ r.w.br = none)) := by
  obtain ⟨r, h1, h2, h3, h4, h5, h6, h7⟩ := reset_step_gen w wl os hg hph hr hwl hc hnr hs hrev hne
  refine ⟨r, h1, h2, h3, h4, h5, h6, ?_⟩
  rcases h7 with h7 | ⟨a1, a2, a3⟩
  · exact Or.inl h7
  · refine Or.inr ⟨a1, a2, ?_⟩
    rcases a3 with a3 | ⟨t1, t2, t3⟩
    · exact a3
    · rw [t3]; exact hfin t1 t2

theorem reset_brdel_none {b : Option BR} (h : BrDel none b) : b = none := by
  cases h; rfl

/-- **the reset reconcile** of a rolling rollout whose workload moved on to a newer revision, under the cursor
    invariant `hfin` (with traffic routing, a clean-up cursor at the last stage means the BatchRelease is gone): the
    invariant is re-established for the new sub-status while the rollout keeps rolling, and the rollout is handed back
    to the initialising state only with no BatchRelease left -/
theorem reset_step (w : World) (wl : WL) (os : Sub)
    (hg : RoGood w.ro) (hph : w.ro.phase = .progressing) (hr : w.ro.reason = .inRolling)
    (hwl : w.wl = some wl) (hc : wl.consistent = true) (hnr : wl.inRollback = false)
    (hs : w.ro.sub = some os) (hrev : os.canaryRev ≠ "") (hne : wl.canaryRev ≠ os.canaryRev)
    (hfin : w.ro.hasTraffic = true → os.finStep = .removeCanaryService → w.br = none) :
    ∃ r, reconcile w = .val r ∧ r.roGone = false ∧ SpecKept w.ro r.w.ro ∧ r.w.ro.phase = .progressing ∧ r.w.wl = some wl ∧
      BrDel w.br r.w.br ∧
      ((r.w.ro.reason = .inRolling ∧ ∃ s', r.w.ro.sub = some s' ∧ s'.canaryRev = os.canaryRev ∧
          (r.w.ro.hasTraffic = true → s'.finStep = .removeCanaryService → r.w.br = none)) ∨
       (r.w.ro.reason = .initializing ∧ r.w.ro.sub = none ∧ r.w.br = none)) := by
  have hobs := reset_observe w.ro wl os hs hne
  have hs1 : (csObserve w.ro wl).sub = some os := by rw [hobs]; exact hs
  rw [reconcile_roll w wl os hg hph hr hwl hc hs1, hobs,
    reset_inRolling w w.ro os os wl hs hnr hg.unpaused hg.canary hrev hne]
  cases hd : doProgressingReset (toCtx { w with ro := w.ro } os wl) with
  | none => exact absurd hd (doProgressingReset_total _ hg.steps)
  | some p =>
    obtain ⟨c, done, err⟩ := p
    obtain ⟨r1, r2, r3, r4, r5, r6⟩ := reset_round _ c done err hd
    have r2' : c.wl = wl := r2
    have r3' : BrDel w.br c.br := r3
    have r4' : c.sub.canaryRev = os.canaryRev := r4
    have r5' : done = true → c.br = none ∨ (w.ro.hasTraffic = true ∧ os.finStep = .removeCanaryService ∧ c.br = w.br) := r5
    have r6' : c.sub.finStep = .removeCanaryService → w.ro.hasTraffic = true →
        (c.br = none ∨ (os.finStep = .removeCanaryService ∧ c.br = w.br)) := r6
    have hwl' : some c.wl = some wl := by rw [r2']
    cases err with
    | true =>
      refine ⟨_, rfl, rfl, ⟨Same.rfl' _, rfl⟩, hph, hwl', r3', Or.inl ⟨hr, os, hs, rfl, fun ht hf => ?_⟩⟩
      have hb : w.br = none := hfin ht hf
      rw [hb] at r3'
      exact reset_brdel_none r3'
    | false =>
      cases done with
      | true =>
        refine ⟨_, rfl, rfl, ⟨Same.rfl' _, rfl⟩, hph, hwl', r3', Or.inr ⟨rfl, rfl, ?_⟩⟩
        rcases r5' rfl with a | ⟨t1, t2, t3⟩
        · exact a
        · exact t3.trans (hfin t1 t2)
      | false =>
        refine ⟨_, rfl, rfl, ⟨Same.rfl' _, rfl⟩, hph, hwl', r3', Or.inl ⟨hr, c.sub, rfl, r4', fun ht hf => ?_⟩⟩
        rcases r6' hf ht with a | ⟨t2, t3⟩
        · exact a
        · exact t3.trans (hfin ht t2)

end RV.Lemmas.ClosedLoop
