/-
  The traffic part of the invariant (`trRest`) along the labels that are not a reconcile of a rolling / finalising
  rollout: workload controller, release while idle, approval, clock, crash, and the status-only Rollout reconciles
  (unreadable workload, Healthy, Initializing, Completed).
-/
import RV.Lemmas.ClosedLoopTrafficDefs
import RV.Lemmas.ClosedLoopTrafficArith
namespace RV.Lemmas.ClosedLoopTraffic
open RV.Arith RV.Traffic RV.RolloutSM RV.ClosedLoop RV.Oracle.ClosedLoop RV.Oracle.ClosedLoopTraffic RV.Lemmas.ClosedLoop

theorem env_tr (s : CS) (h : trInv s = true) : trRest { s with wl := s.wl.map envWl } = true := by
  sorry

theorem release_tr (s : CS) (rev : String) (h : trInv s = true) (hidle : idle s rev = true) :
    trRest { s with wl := s.wl.map (releaseWl rev) } = true := by
  sorry

theorem approve_tr (s : CS) (h : trInv s = true) : trRest (approve s) = true := by
  sorry

theorem tick_tr (s : CS) (h : trInv s = true) : trRest (tick s) = true := by
  sorry

theorem crash_tr (s : CS) (h : trInv s = true) : trRest (crash s) = true := by
  sorry

/-- one Rollout reconcile outside `InRolling` / `Finalising` (or with an unreadable workload status) -/
theorem ro_easy_tr (s s' : CS) (h : trInv s = true)
    (hcase : (∃ w, s.wl = some w ∧ (roWl w).consistent = false) ∨ s.ro.phase = .healthy ∨
      (s.ro.phase = .progressing ∧ (s.ro.reason = .initializing ∨ s.ro.reason = .completed)))
    (hs : stepRo s = some s') : trRest s' = true := by
  sorry

end RV.Lemmas.ClosedLoopTraffic
