/-
  The traffic part of the invariant (`trRest`) along the labels that are not a reconcile of a rolling / finalising
  rollout: workload controller, release while idle, approval, clock, crash, and the status-only Rollout reconciles
  (unreadable workload, Healthy, Initializing, Completed).
-/
import RV.Lemmas.ClosedLoopTrafficDefs
import RV.Lemmas.ClosedLoopTrafficArith
namespace RV.Lemmas.ClosedLoopTraffic
open RV.Arith RV.Traffic RV.RolloutSM RV.ClosedLoop RV.Oracle.ClosedLoop RV.Oracle.ClosedLoopTraffic RV.Lemmas.ClosedLoop
open RV.Props.Reconcile

/-! ### what `trPhase` reads of the Rollout -/

/-- of the sub-status the traffic invariant reads the index, the revisions, the pod-template hash, the clean-up cursor, and of
    the sub-state whether it is `init`, `trafficRouting`, a pods-ready one -/
def LabSubSame (a b : Sub) : Prop :=
  b.curIdx = a.curIdx ∧ b.stableRev = a.stableRev ∧ b.podHash = a.podHash ∧ b.canaryRev = a.canaryRev ∧ b.finStep = a.finStep ∧
  (b.state = .init ↔ a.state = .init) ∧ (b.state = .trafficRouting ↔ a.state = .trafficRouting) ∧
  RV.Oracle.RolloutSM.podsReady b.state = RV.Oracle.RolloutSM.podsReady a.state

theorem lab_fullAt_steps (ro ro' : Rollout) (R j : Int) (h : ro'.steps = ro.steps) : fullAt ro' R j = fullAt ro R j := by
  unfold fullAt stepAt; rw [h]

theorem lab_effIdx_congr (s s' : CS) (a b : Sub) (hbr : s'.br = s.br) (hs : LabSubSame a b) : effIdx s' b = effIdx s a := by
  obtain ⟨hc, _, _, _, _, hi, _, _⟩ := hs
  unfold effIdx
  rw [hbr, hc]
  by_cases h : a.state = .init
  · rw [if_pos h, if_pos (hi.2 h)]
  · rw [if_neg h, if_neg (fun h' => h (hi.1 h'))]

theorem lab_netCore_congr (s s' : CS) (a b : Sub) (w : CWl) (r : Bool) (hbr : s'.br = s.br) (hnet : s'.net = s.net)
    (hst : s'.ro.steps = s.ro.steps) (htr : s'.ro.hasTraffic = s.ro.hasTraffic) (hdg : s'.ro.disableGen = s.ro.disableGen)
    (hs : LabSubSame a b) : netCore s' b w r = netCore s a w r := by
  have he := lab_effIdx_congr s s' a b hbr hs
  obtain ⟨hc, h2, h3, _, _, hi, _, _⟩ := hs
  unfold netCore pinOK svcOK ingOK baseOK stableAlive hashOK
  rw [he, lab_fullAt_steps s.ro s'.ro _ _ hst, hnet, htr, hdg, h2, h3]

theorem lab_brSome_congr (s s' : CS) (a b : Sub) (hbr : s'.br = s.br) (hs : LabSubSame a b) : brSome s' b = brSome s a := by
  obtain ⟨hc, _, _, _, _, _, _, hp⟩ := hs
  unfold brSome
  rw [hbr, hc, hp]

theorem lab_weightOf_steps (ro ro' : Rollout) (j : Int) (h : ro'.steps = ro.steps) : weightOf ro' j = weightOf ro j := by
  unfold weightOf stepAt; rw [h]

theorem lab_firstPin_congr (s s' : CS) (a b : Sub) (w : CWl) (hbr : s'.br = s.br) (hnet : s'.net = s.net)
    (hst : s'.ro.steps = s.ro.steps) (htr : s'.ro.hasTraffic = s.ro.hasTraffic) (hdg : s'.ro.disableGen = s.ro.disableGen)
    (hs : LabSubSame a b) : firstPin s' b w = firstPin s a w := by
  obtain ⟨hc, h2, _, _, _, hi, _, _⟩ := hs
  have hne : (b.state != .init) = (a.state != .init) := by
    by_cases h : a.state = .init
    · rw [h, hi.2 h]
    · have h' : ¬ b.state = .init := fun h' => h (hi.1 h')
      rw [bne_iff_ne.2 h, bne_iff_ne.2 h']
  unfold firstPin firstStepPins
  rw [lab_fullAt_steps s.ro s'.ro _ _ hst, lab_weightOf_steps s.ro s'.ro _ hst, hbr, hnet, htr, hdg, hc, h2, hne]

theorem lab_trState_congr (s s' : CS) (a b : Sub) (w : CWl) (hst : s'.ro.steps = s.ro.steps) (hs : LabSubSame a b) :
    trState s' b w = trState s a w := by
  obtain ⟨hc, _, _, _, _, _, ht, _⟩ := hs
  have hne : (b.state != .trafficRouting) = (a.state != .trafficRouting) := by
    by_cases h : a.state = .trafficRouting
    · rw [h, ht.2 h]
    · have h' : ¬ b.state = .trafficRouting := fun h' => h (ht.1 h')
      rw [bne_iff_ne.2 h, bne_iff_ne.2 h']
  unfold trState
  rw [lab_fullAt_steps s.ro s'.ro _ _ hst, hc, hne]

theorem lab_finBr_congr (s s' : CS) (a b : Sub) (w : CWl) (hbr : s'.br = s.br) (hst : s'.ro.steps = s.ro.steps)
    (hs : LabSubSame a b) : finBr s' b w = finBr s a w := by
  obtain ⟨hc, _, _, _, hf, _, _, _⟩ := hs
  unfold finBr linkOK planOf
  rw [hbr, hst, hc, hf]

/-- `trPhase` reads the rollout through its phase, reason, plan, traffic flags and the fields of the sub-status listed in
    `LabSubSame`; it does not read the memory -/
theorem lab_trPhase_congr (s s' : CS) (w : CWl)
    (hph : s'.ro.phase = s.ro.phase) (hr : s'.ro.reason = s.ro.reason) (hbr : s'.br = s.br) (hnet : s'.net = s.net)
    (hst : s'.ro.steps = s.ro.steps) (htr : s'.ro.hasTraffic = s.ro.hasTraffic) (hdg : s'.ro.disableGen = s.ro.disableGen)
    (hsub : ∀ sub, s.ro.sub = some sub → ∃ sub', s'.ro.sub = some sub' ∧ LabSubSame sub sub')
    (h : trPhase s w = true) : trPhase s' w = true := by
  cases hp : s.ro.phase with
  | healthy =>
    rw [trPhase_healthy s w hp] at h
    rw [trPhase_healthy s' w (hph.trans hp), hnet]; exact h
  | progressing =>
    cases hre : s.ro.reason with
    | initializing =>
      rw [trPhase_init s w hp hre] at h
      rw [trPhase_init s' w (hph.trans hp) (hr.trans hre), hnet]; exact h
    | inRolling =>
      cases hs : s.ro.sub with
      | none => unfold trPhase at h; rw [hp, hre] at h; dsimp only at h; rw [hs] at h; cases h
      | some sub =>
        obtain ⟨sub', hs', hsame⟩ := hsub sub hs
        rw [trPhase_rolling s w sub hp hre hs] at h
        rw [trPhase_rolling s' w sub' (hph.trans hp) (hr.trans hre) hs',
          lab_netCore_congr s s' sub sub' w true hbr hnet hst htr hdg hsame, lab_brSome_congr s s' sub sub' hbr hsame,
          lab_firstPin_congr s s' sub sub' w hbr hnet hst htr hdg hsame, lab_trState_congr s s' sub sub' w hst hsame]
        exact h
    | finalising =>
      cases hs : s.ro.sub with
      | none => unfold trPhase at h; rw [hp, hre] at h; dsimp only at h; rw [hs] at h; cases h
      | some sub =>
        obtain ⟨sub', hs', hsame⟩ := hsub sub hs
        rw [trPhase_fin s w sub hp hre hs] at h
        rw [trPhase_fin s' w sub' (hph.trans hp) (hr.trans hre) hs',
          lab_netCore_congr s s' sub sub' w false hbr hnet hst htr hdg hsame, lab_finBr_congr s s' sub sub' w hbr hst hsame,
          hsame.2.2.2.1, hsame.1, hst]
        exact h
    | completed =>
      rw [trPhase_completed s w hp hre] at h
      rw [trPhase_completed s' w (hph.trans hp) (hr.trans hre), hnet]; exact h
    | none => unfold trPhase at h; rw [hp, hre] at h; cases h
    | paused => unfold trPhase at h; rw [hp, hre] at h; cases h
    | cancelling => unfold trPhase at h; rw [hp, hre] at h; cases h
    | other => unfold trPhase at h; rw [hp, hre] at h; cases h
  | empty => unfold trPhase at h; rw [hp] at h; cases h
  | initial => unfold trPhase at h; rw [hp] at h; cases h
  | terminating => unfold trPhase at h; rw [hp] at h; cases h
  | disabled => unfold trPhase at h; rw [hp] at h; cases h
  | disabling => unfold trPhase at h; rw [hp] at h; cases h

theorem lab_trRest_congr (s s' : CS) (hwl : s'.wl = s.wl)
    (hph : s'.ro.phase = s.ro.phase) (hr : s'.ro.reason = s.ro.reason) (hbr : s'.br = s.br) (hnet : s'.net = s.net)
    (hst : s'.ro.steps = s.ro.steps) (htr : s'.ro.hasTraffic = s.ro.hasTraffic) (hdg : s'.ro.disableGen = s.ro.disableGen)
    (hsub : ∀ sub, s.ro.sub = some sub → ∃ sub', s'.ro.sub = some sub' ∧ LabSubSame sub sub')
    (h : trRest s = true) : trRest s' = true := by
  cases hw : s.wl with
  | none => unfold trRest at h; rw [hw] at h; cases h
  | some w =>
    obtain ⟨hR, htp⟩ := (trRest_some s w hw).1 h
    exact (trRest_some s' w (hwl.trans hw)).2 ⟨hR, lab_trPhase_congr s s' w hph hr hbr hnet hst htr hdg hsub htp⟩

theorem crash_tr (s : CS) (h : trInv s = true) : trRest (crash s) = true := by
  obtain ⟨_, _, _, w, hw, _, _, _, _, hR, htp⟩ := tr_parts s h
  rw [trRest_some (crash s) w hw]
  exact ⟨hR, (trPhase_ext s (crash s) w rfl rfl rfl).trans htp⟩

theorem tick_tr (s : CS) (h : trInv s = true) : trRest (tick s) = true := by
  obtain ⟨_, hgone, _, w, hw, _, _, _, _, hR, htp⟩ := tr_parts s h
  rw [trRest_some (tick s) w hw]
  refine ⟨hR, ?_⟩
  unfold tick
  dsimp only
  rw [if_neg (by simp [hgone])]
  refine lab_trPhase_congr s _ w rfl rfl rfl rfl rfl rfl rfl ?_ htp
  intro sub0 h0
  refine ⟨{ sub0 with lastUpdate := ageAge sub0.lastUpdate }, ?_, rfl, rfl, rfl, rfl, rfl, Iff.rfl, Iff.rfl, rfl⟩
  show Option.map _ s.ro.sub = _
  rw [h0]; rfl

theorem approve_tr (s : CS) (h : trInv s = true) : trRest (approve s) = true := by
  obtain ⟨_, hgone, _, w, hw, _, _, _, _, hR, htp⟩ := tr_parts s h
  have hr : trRest s = true := ((trInv_iff s).1 h).2
  unfold approve
  rw [if_neg (by simp [hgone])]
  cases hs : s.ro.sub with
  | none => exact hr
  | some sub =>
    dsimp only
    split
    · rename_i hst
      refine lab_trRest_congr s _ rfl rfl rfl rfl rfl rfl rfl rfl ?_ hr
      intro sub0 h0
      rw [hs] at h0; cases h0
      refine ⟨_, rfl, rfl, rfl, rfl, rfl, rfl, ?_, ?_, ?_⟩
      · rw [hst]; constructor <;> intro hh <;> cases hh
      · rw [hst]; constructor <;> intro hh <;> cases hh
      · rw [hst]; rfl
    · exact hr

/-! ### the workload controller -/

theorem lab_envWl_frame (w : CWl) :
    (envWl w).replicas = w.replicas ∧ (envWl w).partition = w.partition ∧ (envWl w).updateRevision = w.updateRevision ∧
    (envWl w).inProgressAnno = w.inProgressAnno ∧ (envWl w).paused = w.paused ∧ (envWl w).owner = w.owner := by
  unfold envWl
  dsimp only
  split <;> exact ⟨rfl, rfl, rfl, rfl, rfl, rfl⟩

theorem lab_upd_lt (R u kept : Int) (p : Prop) [Decidable p] (hR : 0 < R) (hu : u < R) (hk : 1 ≤ kept) :
    (if u < (if p then u else R - (if kept > R then R else kept)) then (if p then u else R - (if kept > R then R else kept))
      else u) < R := by
  have hal : (if p then u else R - (if kept > R then R else kept)) < R := by
    split
    · exact hu
    · split <;> omega
  generalize (if p then u else R - (if kept > R then R else kept)) = a at hal
  split <;> omega

/-- under a partition that keeps at least one pod the controller never updates every pod, so the current revision stays -/
theorem lab_envWl_lt (w : CWl) (hne : w.currentRevision ≠ w.updateRevision) (hR : 0 < w.replicas) (hu : w.updated < w.replicas)
    (k : IntOrPct) (hk : w.partition = some k) (h1 : 1 ≤ scaledV k w.replicas true) :
    (envWl w).updated < w.replicas ∧ (envWl w).currentRevision = w.currentRevision := by
  have key := lab_upd_lt w.replicas w.updated (scaledV k w.replicas true) (w.paused = true) hR hu h1
  unfold envWl
  dsimp only
  rw [if_pos (Ne.symm hne), hk]
  dsimp only
  exact ⟨key, if_neg (Int.not_le.2 key)⟩

theorem lab_envWl_alive (sub : Sub) (w : CWl) (hR : 0 < w.replicas) (h : stableAlive sub w = true) :
    stableAlive sub (envWl w) = true := by
  obtain ⟨f1, f2, f3, _, _, _⟩ := lab_envWl_frame w
  unfold stableAlive at h ⊢
  simp only [Bool.and_eq_true, decide_eq_true_eq, beq_iff_eq, bne_iff_ne] at h ⊢
  obtain ⟨⟨⟨hk, hu⟩, hc⟩, hne⟩ := h
  have hk0 := hk
  unfold keepsOne at hk
  cases hp : w.partition with
  | none => rw [hp] at hk; cases hk
  | some k =>
    rw [hp] at hk
    have hk1 : 1 ≤ scaledV k w.replicas true := by simpa using hk
    obtain ⟨g1, g2⟩ := lab_envWl_lt w hne hR hu k hp hk1
    refine ⟨⟨⟨?_, by rw [f1]; exact g1⟩, by rw [g2]; exact hc⟩, by rw [g2, f3]; exact hne⟩
    unfold keepsOne
    rw [f2, f1]; exact hk0

theorem lab_envWl_pending (w : CWl) (hR : 0 < w.replicas) (hheld : held w = true) (h : pendingWl w = true) :
    pendingWl (envWl w) = true := by
  obtain ⟨f1, _, f3, _, _, _⟩ := lab_envWl_frame w
  unfold pendingWl at h ⊢
  simp only [Bool.and_eq_true, decide_eq_true_eq, bne_iff_ne] at h ⊢
  obtain ⟨hu, hne⟩ := h
  obtain ⟨g1, g2⟩ := lab_envWl_lt w hne hR hu (.pct 100) ((held_iff w).1 hheld) (by rw [scaled_pct100]; omega)
  exact ⟨by rw [f1]; exact g1, by rw [g2, f3]; exact hne⟩

theorem lab_envWl_released (w : CWl) : released (envWl w) = released w := by
  obtain ⟨_, f2, _, _, f5, f6⟩ := lab_envWl_frame w
  unfold released
  rw [f2, f5, f6]

/-! ### a change of the workload that keeps size, update revision, control fields -/

theorem lab_netCore_wl (s : CS) (sub : Sub) (w w' : CWl) (r : Bool) (h1 : w'.replicas = w.replicas)
    (h2 : w'.updateRevision = w.updateRevision) (halive : stableAlive sub w = true → stableAlive sub w' = true)
    (h : netCore s sub w r = true) : netCore s sub w' r = true := by
  have e1 : pinOK s sub w' = pinOK s sub w := by unfold pinOK; rw [h1]
  have e2 : svcOK s w' = svcOK s w := by unfold svcOK; rw [h2]
  have e3 : hashOK sub w' = hashOK sub w := by unfold hashOK; rw [h2]
  unfold netCore at h ⊢
  rw [e1, e2, e3, h1]
  simp only [Bool.and_eq_true] at h ⊢
  obtain ⟨⟨⟨⟨⟨a, b⟩, c⟩, d⟩, e⟩, f⟩ := h
  refine ⟨⟨⟨⟨⟨?_, b⟩, c⟩, d⟩, e⟩, f⟩
  cases r
  · simp only [Bool.false_eq_true, if_false, Bool.or_eq_true] at a ⊢
    exact a.imp id halive
  · simp only [if_true, Bool.or_eq_true] at a ⊢
    exact a.imp id halive

theorem lab_trPhase_wl (s : CS) (w w' : CWl) (h1 : w'.replicas = w.replicas) (h2 : w'.updateRevision = w.updateRevision)
    (h3 : released w' = released w) (h6 : w'.inProgressAnno = w.inProgressAnno)
    (hpend : held w = true → pendingWl w = true → pendingWl w' = true)
    (halive : ∀ sub, stableAlive sub w = true → stableAlive sub w' = true)
    (hpi : phaseInv s w = true) (h : trPhase s w = true) : trPhase s w' = true := by
  cases hp : s.ro.phase with
  | healthy =>
    rw [trPhase_healthy s w hp] at h
    rw [phaseInv_healthy s w hp] at hpi
    rw [trPhase_healthy s w' hp, h6, h3]
    simp only [Bool.and_eq_true, Bool.or_eq_true, Bool.not_eq_true'] at h hpi ⊢
    refine ⟨h.1, ?_⟩
    cases ha : w.inProgressAnno with
    | false => have := h.2; rw [ha] at this; simpa using this
    | true =>
      have h' := h.2
      rw [ha] at h'
      rcases hpi.2 with hh | hh
      · rw [ha] at hh; cases hh
      · simpa using hpend hh (by simpa using h')
  | progressing =>
    cases hre : s.ro.reason with
    | initializing =>
      rw [trPhase_init s w hp hre] at h
      rw [phaseInv_init s w hp hre] at hpi
      rw [trPhase_init s w' hp hre]
      simp only [Bool.and_eq_true] at h hpi ⊢
      exact ⟨h.1, hpend hpi.2 h.2⟩
    | inRolling =>
      cases hs : s.ro.sub with
      | none => unfold trPhase at h; rw [hp, hre] at h; dsimp only at h; rw [hs] at h; cases h
      | some sub =>
        rw [trPhase_rolling s w sub hp hre hs] at h
        rw [trPhase_rolling s w' sub hp hre hs]
        have e1 : firstPin s sub w' = firstPin s sub w := by unfold firstPin; rw [h1]
        have e2 : trState s sub w' = trState s sub w := by unfold trState; rw [h1]
        rw [e1, e2]
        simp only [Bool.and_eq_true] at h ⊢
        exact ⟨⟨⟨lab_netCore_wl s sub w w' true h1 h2 (halive sub) h.1.1.1, h.1.1.2⟩, h.1.2⟩, h.2⟩
    | finalising =>
      cases hs : s.ro.sub with
      | none => unfold trPhase at h; rw [hp, hre] at h; dsimp only at h; rw [hs] at h; cases h
      | some sub =>
        rw [trPhase_fin s w sub hp hre hs] at h
        rw [trPhase_fin s w' sub hp hre hs]
        have e1 : finBr s sub w' = finBr s sub w := by unfold finBr; rw [h3]
        rw [e1, h2]
        simp only [Bool.and_eq_true] at h ⊢
        exact ⟨⟨⟨lab_netCore_wl s sub w w' false h1 h2 (halive sub) h.1.1.1, h.1.1.2⟩, h.1.2⟩, h.2⟩
    | completed =>
      rw [trPhase_completed s w hp hre] at h
      rw [trPhase_completed s w' hp hre, h3]; exact h
    | none => unfold trPhase at h; rw [hp, hre] at h; cases h
    | paused => unfold trPhase at h; rw [hp, hre] at h; cases h
    | cancelling => unfold trPhase at h; rw [hp, hre] at h; cases h
    | other => unfold trPhase at h; rw [hp, hre] at h; cases h
  | empty => unfold trPhase at h; rw [hp] at h; cases h
  | initial => unfold trPhase at h; rw [hp] at h; cases h
  | terminating => unfold trPhase at h; rw [hp] at h; cases h
  | disabled => unfold trPhase at h; rw [hp] at h; cases h
  | disabling => unfold trPhase at h; rw [hp] at h; cases h

theorem env_tr (s : CS) (h : trInv s = true) : trRest { s with wl := s.wl.map envWl } = true := by
  obtain ⟨_, _, _, w, hw, _, _, _, hpi, hR, htp⟩ := tr_parts s h
  obtain ⟨f1, _, f3, f4, _, _⟩ := lab_envWl_frame w
  refine (trRest_some { s with wl := s.wl.map envWl } (envWl w) (by show s.wl.map envWl = _; rw [hw]; rfl)).2
    ⟨by rw [f1]; exact hR, (trPhase_ext s { s with wl := s.wl.map envWl } _ rfl rfl rfl).trans ?_⟩
  exact lab_trPhase_wl s w (envWl w) f1 f3 (lab_envWl_released w) f4 (lab_envWl_pending w hR)
    (fun sub => lab_envWl_alive sub w hR) hpi htp

/-! ### a new release while idle -/

theorem release_tr (s : CS) (rev : String) (h : trInv s = true) (hidle : idle s rev = true) :
    trRest { s with wl := s.wl.map (releaseWl rev) } = true := by
  obtain ⟨_, _, _, w, hw, _, _, _, _, hR, htp⟩ := tr_parts s h
  unfold idle at hidle
  rw [hw] at hidle
  simp only [Bool.and_eq_true, beq_iff_eq, bne_iff_ne, Bool.not_eq_true'] at hidle
  obtain ⟨hph, hanno, hrev⟩ := hidle
  have hrel : releaseWl rev w =
      { w with generation := w.generation + 1, inProgressAnno := true, partition := some (.pct 100), paused := false,
               updateRevision := rev, updated := 0, updatedReady := 0 } := by
    unfold releaseWl
    dsimp only
    rw [if_neg hrev]
  rw [trPhase_healthy s w hph] at htp
  simp only [Bool.and_eq_true] at htp
  refine (trRest_some { s with wl := s.wl.map (releaseWl rev) } (releaseWl rev w)
    (by show s.wl.map (releaseWl rev) = _; rw [hw]; rfl)).2 ?_
  rw [hrel, trPhase_healthy { s with wl := s.wl.map (releaseWl rev) } _ hph]
  refine ⟨hR, ?_⟩
  simp only [Bool.and_eq_true, if_true]
  refine ⟨htp.1, ?_⟩
  unfold pendingWl
  simp only [Bool.and_eq_true, decide_eq_true_eq, bne_iff_ne]
  exact ⟨hR, fun hh => hrev hh.symm⟩

/-! ### the status-only Rollout reconciles -/

/-- `reconcile_initializing`, keeping what `InitializeTrafficRouting` checked before the rollout starts rolling -/
theorem lab_reconcile_initializing (w : World) (wl : WL) (hg : RoGood w.ro) (hwl : w.wl = some wl) (hc : wl.consistent = true)
    (hph : w.ro.phase = .progressing) (hr : w.ro.reason = .initializing) :
    reconcile w = .val { w := w, roGone := false, requeue := false, err := true, writes := [] } ∨
    reconcile w = .val { w := { w with ro := { csObserve w.ro wl with sub := some (initSub w.ro wl) } }, roGone := false, requeue := true, err := false, writes := [] } ∨
    (reconcile w = .val { w := { w with ro := { csObserve w.ro wl with sub := some (initSub w.ro wl), reason := .inRolling } }, roGone := false, requeue := false, err := false, writes := [] } ∧
      (w.ro.hasTraffic = true → w.net.stableExists = true ∧ w.net.stableIngress = true)) := by
  have hst : (csObserve w.ro wl).steps = w.ro.steps := (csObserve_same w.ro wl).1.1
  have htr : (csObserve w.ro wl).hasTraffic = w.ro.hasTraffic := (csObserve_same w.ro wl).1.2.1
  have hne : (csObserve w.ro wl).steps.isEmpty = false := by rw [hst]; simpa using hg.steps
  rw [reconcile_eq_core_of_alive w hg.notDeleting hg.enabled]
  unfold reconcileCore
  dsimp only
  rw [hf_good w.ro hg]
  dsimp only
  rw [hwl, cs_good w.ro wl hg hph hc]
  dsimp only
  rw [hph]
  dsimp only
  rw [if_neg (by simp [hc]), hr]
  dsimp only
  rw [if_neg (by rw [hne]; simp)]
  unfold initSub
  rw [hst]
  split
  · left; rw [← hwl]
  · rename_i hbase
    split
    · right; left; rfl
    · right; right
      refine ⟨rfl, ?_⟩
      intro ht
      rw [htr] at hbase
      exact ⟨Decidable.byContradiction (fun h => hbase ⟨ht, Or.inl h⟩),
        Decidable.byContradiction (fun h => hbase ⟨ht, Or.inr h⟩)⟩

/-- what a status-only Rollout reconcile does to the joint state: only the Rollout's status changes -/
theorem lab_ro_easy (s s' : CS) (w : CWl) (hgone : s.gone = false) (hg : RoGood s.ro) (hw : s.wl = some w)
    (hcase : (∃ w, s.wl = some w ∧ (roWl w).consistent = false) ∨ s.ro.phase = .healthy ∨
      (s.ro.phase = .progressing ∧ (s.ro.reason = .initializing ∨ s.ro.reason = .completed)))
    (hs : stepRo s = some s') :
    ∃ ro', s' = { s with gone := false, ro := ro' } ∧ ro'.steps = s.ro.steps ∧ ro'.hasTraffic = s.ro.hasTraffic ∧
      (ro' = s.ro ∨
       (s.ro.phase = .healthy ∧ w.inProgressAnno = true ∧ ro'.phase = .progressing ∧ ro'.reason = .initializing) ∨
       (s.ro.phase = .healthy ∧ w.inProgressAnno = false ∧ ro'.phase = .healthy) ∨
       (s.ro.phase = .progressing ∧ s.ro.reason = .completed ∧ ro'.phase = .healthy) ∨
       (s.ro.phase = .progressing ∧ s.ro.reason = .initializing ∧ ro'.phase = .progressing ∧ ro'.reason = .initializing) ∨
       (s.ro.phase = .progressing ∧ s.ro.reason = .initializing ∧ ro'.phase = .progressing ∧ ro'.reason = .inRolling ∧
          ro'.sub = some (initSub s.ro (roWl w)) ∧
          (s.ro.hasTraffic = true → s.net.stableExists = true ∧ s.net.stableIngress = true))) := by
  have land : ∀ r, reconcile (roWorld s) = .val r → r.w.wl = (roWorld s).wl → r.w.br = (roWorld s).br → r.w.net = s.net →
      r.w.mem = s.mem → r.roGone = false → s' = { s with gone := false, ro := r.w.ro } := by
    intro r hrec h1 h2 h3 h4 h5
    rw [stepRo_eq s hgone r hrec] at hs
    rw [← Option.some.inj hs, landRo_status s r h1 h2 h3 h4, h5]
  obtain ⟨o1, _, o3⟩ := csObserve_same s.ro (roWl w)
  obtain ⟨f1, f2⟩ := csObserve_frame s.ro (roWl w)
  cases hc : (roWl w).consistent with
  | false =>
    have hrec := reconcile_wait (roWorld s) (roWl w) hg (world_wl s w hw) hc
    exact ⟨s.ro, land _ hrec rfl rfl rfl rfl rfl, rfl, rfl, Or.inl rfl⟩
  | true =>
    rcases hcase with ⟨w0, hw0, hc0⟩ | hph | ⟨hph, hr | hr⟩
    · rw [hw] at hw0
      cases hw0
      rw [hc] at hc0; cases hc0
    · have hrec := reconcile_healthy (roWorld s) (roWl w) hg (world_wl s w hw) hc hph
      have hcs := cs_good' s.ro (roWl w) hg hc (by rw [hph]; decide)
      have hk := cs_specKept _ _ _ hcs
      refine ⟨_, land _ hrec rfl rfl rfl rfl rfl, hk.1.1, hk.1.2.1, ?_⟩
      rcases csPhase_healthy s.ro (csObserve s.ro (roWl w)) (roWl w) (o3.trans hph) with ⟨a, p, q⟩ | ⟨a, p⟩
      · exact Or.inr (Or.inl ⟨hph, a, p, q⟩)
      · exact Or.inr (Or.inr (Or.inl ⟨hph, a, p⟩))
    · rcases lab_reconcile_initializing (roWorld s) (roWl w) hg (world_wl s w hw) hc hph hr with hrec | hrec | ⟨hrec, hbase⟩
      · exact ⟨s.ro, land _ hrec rfl rfl rfl rfl rfl, rfl, rfl, Or.inl rfl⟩
      · refine ⟨_, land _ hrec rfl rfl rfl rfl rfl, o1.1, o1.2.1, ?_⟩
        exact Or.inr (Or.inr (Or.inr (Or.inr (Or.inl ⟨hph, hr, o3.trans hph, f2.trans hr⟩))))
      · refine ⟨_, land _ hrec rfl rfl rfl rfl rfl, o1.1, o1.2.1, ?_⟩
        exact Or.inr (Or.inr (Or.inr (Or.inr (Or.inr ⟨hph, hr, o3.trans hph, rfl, rfl, hbase⟩))))
    · have hrec := reconcile_completed (roWorld s) (roWl w) hg (world_wl s w hw) hc hph hr
      refine ⟨_, land _ hrec rfl rfl rfl rfl rfl, o1.1, o1.2.1, ?_⟩
      exact Or.inr (Or.inr (Or.inr (Or.inl ⟨hph, hr, rfl⟩)))

theorem lab_pinOK_none (s : CS) (sub : Sub) (w : CWl) (h : s.net.stableSel = none) : pinOK s sub w = true := by
  unfold pinOK; rw [h]

theorem lab_svcOK_none (s : CS) (w : CWl) (h : s.net.canarySvc = none) : svcOK s w = true := by
  unfold svcOK; rw [h]

theorem lab_ingOK_none (s : CS) (h : s.net.canaryIng = none) : ingOK s = true := by
  unfold ingOK; rw [h]

/-- the first state of `InRolling`: clean network, no BatchRelease, sub-state `init` of step 1, workload held at 100 % -/
theorem lab_init_rolling (S : CS) (w : CWl) (isub : Sub) (hnet : netClean S.net = true) (hbr : S.br = none)
    (hstate : isub.state = .init) (hidx : isub.curIdx = 1) (hhash : isub.podHash = "")
    (hstable : isub.stableRev = w.currentRevision) (hheld : held w = true) (hpend : pendingWl w = true)
    (hR : 0 < w.replicas) (hbase : baseOK S = true) :
    (netCore S isub w true && brSome S isub && firstPin S isub w && trState S isub w) = true := by
  obtain ⟨n1, n2, n3⟩ := (netClean_iff S.net).1 hnet
  have halive : stableAlive isub w = true := by
    unfold pendingWl at hpend
    simp only [Bool.and_eq_true, decide_eq_true_eq, bne_iff_ne] at hpend
    unfold stableAlive keepsOne
    rw [(held_iff w).1 hheld]
    dsimp only
    rw [scaled_pct100, hstable]
    simp only [Bool.and_eq_true, decide_eq_true_eq, beq_iff_eq, bne_iff_ne]
    exact ⟨⟨⟨by omega, hpend.1⟩, trivial⟩, hpend.2⟩
  have hhash' : hashOK isub w = true := by unfold hashOK; rw [hhash]; rfl
  have h1 : netCore S isub w true = true := by
    unfold netCore
    rw [halive, lab_pinOK_none S isub w n3, lab_svcOK_none S w n2, lab_ingOK_none S n1, hhash', hbase]
    simp
  have h2 : brSome S isub = true := by
    unfold brSome; rw [hstate, hidx]; rfl
  have h3 : firstPin S isub w = true := by
    unfold firstPin; rw [hstate, hbr]; simp
  have h4 : trState S isub w = true := by
    unfold trState; rw [hstate]; rfl
  rw [h1, h2, h3, h4]; rfl

/-- one Rollout reconcile outside `InRolling` / `Finalising` (or with an unreadable workload status) -/
theorem ro_easy_tr (s s' : CS) (h : trInv s = true)
    (hcase : (∃ w, s.wl = some w ∧ (roWl w).consistent = false) ∨ s.ro.phase = .healthy ∨
      (s.ro.phase = .progressing ∧ (s.ro.reason = .initializing ∨ s.ro.reason = .completed)))
    (hs : stepRo s = some s') : trRest s' = true := by
  obtain ⟨_, hgone, hg, w, hw, _, _, _, hpi, hR, htp⟩ := tr_parts s h
  obtain ⟨ro', rfl, hst, htr, hro⟩ := lab_ro_easy s s' w hgone hg hw hcase hs
  refine (trRest_some { s with gone := false, ro := ro' } w hw).2 ⟨hR, ?_⟩
  rcases hro with e | ⟨hph, a, p, q⟩ | ⟨hph, a, p⟩ | ⟨hph, hr, p⟩ | ⟨hph, hr, p, q⟩ | ⟨hph, hr, p, q, hsub, hbase⟩
  · exact (trPhase_ext s { s with gone := false, ro := ro' } w e rfl rfl).trans htp
  · rw [trPhase_healthy s w hph, a] at htp
    rw [trPhase_init { s with gone := false, ro := ro' } w p q]
    exact htp
  · rw [trPhase_healthy s w hph, a] at htp
    rw [trPhase_healthy { s with gone := false, ro := ro' } w p, a]
    exact htp
  · rw [trPhase_completed s w hph hr] at htp
    rw [phaseInv_completed s w hph hr] at hpi
    simp only [Bool.and_eq_true, Bool.not_eq_true'] at hpi
    rw [trPhase_healthy { s with gone := false, ro := ro' } w p, hpi.2]
    exact htp
  · rw [trPhase_init s w hph hr] at htp
    rw [trPhase_init { s with gone := false, ro := ro' } w p q]
    exact htp
  · rw [trPhase_init s w hph hr] at htp
    rw [phaseInv_init s w hph hr] at hpi
    simp only [Bool.and_eq_true] at htp hpi
    rw [trPhase_rolling { s with gone := false, ro := ro' } w (initSub s.ro (roWl w)) p q hsub]
    refine lab_init_rolling { s with gone := false, ro := ro' } w (initSub s.ro (roWl w)) htp.1 (by simpa using hpi.1)
      rfl rfl rfl rfl hpi.2 htp.2 hR ?_
    unfold baseOK
    show (!ro'.hasTraffic || (s.net.stableExists && s.net.stableIngress)) = true
    rw [htr]
    cases ht : s.ro.hasTraffic with
    | false => rfl
    | true => obtain ⟨b1, b2⟩ := hbase ht; rw [b1, b2]; rfl

/-- the status-only reconciles write neither the network nor the plan -/
theorem ro_easy_net (s s' : CS) (h : trInv s = true)
    (hcase : (∃ w, s.wl = some w ∧ (roWl w).consistent = false) ∨ s.ro.phase = .healthy ∨
      (s.ro.phase = .progressing ∧ (s.ro.reason = .initializing ∨ s.ro.reason = .completed)))
    (hs : stepRo s = some s') : s'.net = s.net ∧ s'.ro.steps = s.ro.steps ∧ s'.gone = false := by
  obtain ⟨_, hgone, hg, w, hw, _, _, _, _, _, _⟩ := tr_parts s h
  obtain ⟨ro', rfl, hst, _, _⟩ := lab_ro_easy s s' w hgone hg hw hcase hs
  exact ⟨rfl, hst, rfl⟩

end RV.Lemmas.ClosedLoopTraffic
