/-
  Progress of the closed loop, round-boundary classes 24, 25, 26: one fair round from a state of the class leads to a state of the
  invariant with a strictly smaller measure (`round_cls_X`), and keeps `doneInv` (`done_cls_X`).  Both follow from the shape
  lemmas `lG7_shape_X` (24 -> 25: mu 14 -> 13; 25 -> 26: mu 13 -> 12, the CloneSet is released; 26 -> 27: mu 12 -> 10).
  Class 25 needs `b.st.hash != .empty` and `b.observedRolloutID == b.rolloutID` (otherwise the sync step of the BatchRelease
  reconcile changes the status and the executor does not reach `Finalize` in this round); 24 -> 25 supplies both.
-/
import RV.Lemmas.ClosedLoopLiveBase
namespace RV.Lemmas.ClosedLoop
open RV.Arith RV.Traffic RV.RolloutSM RV.ClosedLoop RV.Oracle.ClosedLoop

/-! ### the tail of a round -/

theorem lG7_ageAge_idem (a : Age) : ageAge (ageAge a) = ageAge a := by cases a <;> rfl
theorem lG7_ageExp_idem (a : Exp) : ageExp (ageExp a) = ageExp a := by cases a <;> rfl

theorem lG7_tick_idem (x : CS) : tick (tick x) = tick x := by
  obtain ⟨gone, ro, wl, br, net, mem⟩ := x
  cases gone
  · simp only [tick, Bool.false_eq_true, if_false, lG7_ageExp_idem, lG7_ageAge_idem, Option.map_map]
    congr 2
    cases ro.sub with
    | none => rfl
    | some sub => simp only [Option.map_some, Function.comp, lG7_ageAge_idem]
  · simp only [tick, if_true, lG7_ageExp_idem]

def lG7_allowed (w : CWl) : Int :=
  if w.paused then w.updated
  else match w.partition with
    | some p => w.replicas - (if scaledV p w.replicas true > w.replicas then w.replicas else scaledV p w.replicas true)
    | none => w.replicas

def lG7_upd (w : CWl) : Int := if w.updated < lG7_allowed w then lG7_allowed w else w.updated

theorem lG7_envWl_ne (w : CWl) (hne : w.updateRevision ≠ w.currentRevision) :
    envWl w = { w with observedGeneration := w.generation, statusReplicas := w.replicas, updated := lG7_upd w, updatedReady := lG7_upd w, currentRevision := if lG7_upd w ≥ w.replicas then w.updateRevision else w.currentRevision } := by
  unfold envWl; dsimp only; rw [if_pos hne]; rfl

theorem lG7_envWl_eq (w : CWl) (hne : w.updateRevision = w.currentRevision) :
    envWl w = { w with observedGeneration := w.generation, statusReplicas := w.replicas, updated := w.replicas, updatedReady := w.replicas } := by
  unfold envWl; dsimp only; rw [if_neg (by simp [hne])]

theorem lG7_envWl_idem (w : CWl) (h : wlOK w = true) : envWl (envWl w) = envWl w := by
  unfold wlOK at h
  simp only [Bool.and_eq_true, Bool.or_eq_true, decide_eq_true_eq, beq_iff_eq, bne_iff_ne] at h
  obtain ⟨⟨⟨⟨h1, h2⟩, h3⟩, h4⟩, h5⟩ := h
  have h5' : ∀ k, w.partition = some k → 0 ≤ scaledV k w.replicas true := by
    intro k hk; rw [hk] at h5; simpa using h5
  by_cases hne : w.updateRevision = w.currentRevision
  · rw [lG7_envWl_eq w hne]
    exact lG7_envWl_eq _ hne
  · have hle : lG7_allowed w ≤ w.replicas := by
      unfold lG7_allowed
      split
      · exact h3
      · split
        · rename_i p hp
          have := h5' p hp
          split <;> omega
        · exact Int.le_refl _
    have hule : lG7_upd w ≤ w.replicas := by
      unfold lG7_upd; split <;> omega
    have hual : lG7_allowed w ≤ lG7_upd w := by
      unfold lG7_upd; split <;> omega
    rw [lG7_envWl_ne w hne]
    generalize hu : lG7_upd w = upd at hule hual
    by_cases hge : upd ≥ w.replicas
    · have : upd = w.replicas := by omega
      subst this
      rw [if_pos (Int.le_refl _)]
      exact lG7_envWl_eq _ rfl
    · rw [if_neg hge]
      refine (lG7_envWl_ne { w with observedGeneration := w.generation, statusReplicas := w.replicas, updated := upd, updatedReady := upd, currentRevision := w.currentRevision } hne).trans ?_
      dsimp only
      have e2 : lG7_upd { w with observedGeneration := w.generation, statusReplicas := w.replicas, updated := upd, updatedReady := upd, currentRevision := w.currentRevision } = upd := by
        unfold lG7_upd
        dsimp only
        have : lG7_allowed { w with observedGeneration := w.generation, statusReplicas := w.replicas, updated := upd, updatedReady := upd, currentRevision := w.currentRevision } ≤ upd := by
          unfold lG7_allowed
          dsimp only
          by_cases hp : w.paused = true
          · rw [if_pos hp]; exact Int.le_refl _
          · rw [if_neg hp]
            unfold lG7_allowed at hual
            rw [if_neg hp] at hual
            exact hual
        rw [if_neg (by omega)]
      rw [e2, if_neg hge]

theorem lG7_envWl_paused (w : CWl) : (envWl w).paused = w.paused := by
  unfold envWl; dsimp only; split <;> rfl

theorem lG7_tail_wl (b : CS) : (roundTail b).wl = b.wl.map envWl := by
  unfold roundTail tick approve
  dsimp only
  split
  · rfl
  · split
    · split <;> rfl
    · rfl

theorem lG7_tail_br (b : CS) : (roundTail b).br = b.br := by
  unfold roundTail tick approve
  dsimp only
  split
  · rfl
  · split
    · split <;> rfl
    · rfl

theorem lG7_tail_ro (b : CS) :
    (roundTail b).ro.phase = b.ro.phase ∧ (roundTail b).ro.reason = b.ro.reason ∧ (roundTail b).ro.steps = b.ro.steps ∧
    (roundTail b).ro.hasTraffic = b.ro.hasTraffic ∧
    (∀ sub, b.ro.sub = some sub → ∃ sub', (roundTail b).ro.sub = some sub' ∧ sub'.finStep = sub.finStep) := by
  obtain ⟨gone, ro, wl, br, net, mem⟩ := b
  cases gone
  · cases hs : ro.sub with
    | none => simp [roundTail, tick, approve, hs]
    | some sub =>
      by_cases hp : sub.state = .paused
      · simp [roundTail, tick, approve, hs, hp]
      · simp [roundTail, tick, approve, hs, hp]
  · simp [roundTail, tick, approve]
    exact fun sub h => ⟨sub, h, rfl⟩

theorem lG7_tail_boundary (b : CS) (w : CWl) (hw : b.wl = some w) (hok : wlOK w = true) : atBoundary (roundTail b) = true := by
  unfold atBoundary
  rw [lG7_tail_wl, hw]
  simp only [Option.map_some, Bool.and_eq_true, beq_iff_eq]
  refine ⟨lG7_envWl_idem w hok, ?_⟩
  unfold roundTail
  exact lG7_tick_idem _

theorem lG7_tail_cfg (s b : CS) (w w' : CWl) (h : liveCfg s = true) (hw : s.wl = some w) (hw' : b.wl = some w')
    (hsteps : b.ro.steps = s.ro.steps) (htr : b.ro.hasTraffic = s.ro.hasTraffic) (hR : w'.replicas = w.replicas)
    (hrev : w'.updateRevision = w.updateRevision) (hp : w'.paused = false) : liveCfg (roundTail b) = true := by
  obtain ⟨_, _, t3, t4, _⟩ := lG7_tail_ro b
  obtain ⟨f1, _, _, f4, _⟩ := envWl_frame w'
  unfold liveCfg planOf at h ⊢
  rw [lG7_tail_wl, hw', t3, t4, hsteps, htr]
  rw [hw] at h
  simp only [Option.map_some] at h ⊢
  rw [f1, f4, lG7_envWl_paused, hR, hrev, hp]
  simp only [Bool.and_eq_true] at h ⊢
  obtain ⟨h1, ⟨⟨h2, h3⟩, _⟩, h5⟩ := h
  exact ⟨h1, ⟨⟨h2, h3⟩, rfl⟩, h5⟩

/-! ### the classes and the measure while the clean-up cursor is on the BatchRelease -/

theorem lG7_cls_resume (s : CS) (w : CWl) (sub : Sub) (b : CBr) (hw : s.wl = some w) (hp : s.ro.phase = .progressing)
    (hr : s.ro.reason = .finalising) (hs : s.ro.sub = some sub) (hf : sub.finStep = .resumeWorkload) (hb : s.br = some b) :
    cls s =
      if b.partition.isSome then
        (if brSync b w && brInit b w && b.st.batchState == .ready && RV.Oracle.Executor.batchReadyNow (exBr b) (some (exWl w)) && cls.isPartitioned' b then 24 else 0)
      else if b.st.phase == .finalizing then
        (if b.st.updated == w.updated && b.st.updatedReady == w.updatedReady && b.generation == b.observedGeneration &&
            b.hasFinalizer && !b.deleting && b.policy == "WaitResume" && b.st.hash != .empty &&
            b.observedRolloutID == b.rolloutID then 25 else 0)
      else if b.st.phase == .completed then (if !b.deleting && b.hasFinalizer then 26 else 0) else 0 := by
  unfold cls
  rw [hw]
  dsimp only
  rw [hp, hr]
  dsimp only
  rw [hs]
  dsimp only
  rw [hf, hb]

theorem lG7_cls_release (s : CS) (w : CWl) (sub : Sub) (b : CBr) (hw : s.wl = some w) (hp : s.ro.phase = .progressing)
    (hr : s.ro.reason = .finalising) (hs : s.ro.sub = some sub) (hf : sub.finStep = .releaseWorkloadControl) (hb : s.br = some b) :
    cls s = if b.st.phase == .completed && !b.deleting && b.hasFinalizer then 27 else 0 := by
  unfold cls
  rw [hw]
  dsimp only
  rw [hp, hr]
  dsimp only
  rw [hs]
  dsimp only
  rw [hf, hb]

theorem lG7_mu_fin (s : CS) (w : CWl) (sub : Sub) (hw : s.wl = some w) (hp : s.ro.phase = .progressing)
    (hr : s.ro.reason = .finalising) (hs : s.ro.sub = some sub) : mu s = 2 + finRank s sub := by
  unfold mu
  rw [hw]
  dsimp only
  rw [hp, hr]
  dsimp only
  rw [hs]

theorem lG7_cls_inv (s : CS) (hc : cls s = 24 ∨ cls s = 25 ∨ cls s = 26) :
    ∃ w sub b, s.wl = some w ∧ s.ro.phase = .progressing ∧ s.ro.reason = .finalising ∧ s.ro.sub = some sub ∧
      sub.finStep = .resumeWorkload ∧ s.br = some b := by
  cases hw : s.wl with
  | none => unfold cls at hc; rw [hw] at hc; dsimp only at hc; omega
  | some w =>
    unfold cls at hc
    rw [hw] at hc
    dsimp only at hc
    split at hc
    · exfalso; revert hc; repeat' split
      all_goals (intro hc; omega)
    · exfalso; revert hc; repeat' split
      all_goals (intro hc; omega)
    · exfalso; revert hc; repeat' split
      all_goals (intro hc; omega)
    · rename_i hph hr
      cases hs : s.ro.sub with
      | none => rw [hs] at hc; dsimp only at hc; omega
      | some sub =>
        rw [hs] at hc
        dsimp only at hc
        split at hc
        · exfalso; revert hc; repeat' split
          all_goals (intro hc; omega)
        · exfalso; revert hc; repeat' split
          all_goals (intro hc; omega)
        · exfalso; revert hc; repeat' split
          all_goals (intro hc; omega)
        · exfalso; revert hc; repeat' split
          all_goals (intro hc; omega)
        · rename_i b hf hb
          exact ⟨w, sub, b, rfl, hph, hr, rfl, hf, hb⟩
        · exfalso; revert hc; repeat' split
          all_goals (intro hc; omega)
        · exfalso; omega
        · exfalso; omega
    · exfalso; revert hc; repeat' split
      all_goals (intro hc; omega)
    · exfalso; omega

/-! ### the Rollout reconcile with the clean-up cursor on `resumeWorkload` -/

theorem lG7_next_resume : nextTask (taskList .canary .success) .resumeWorkload = .releaseWorkloadControl := by decide

theorem lG7_doFin (c : Ctx) (hsteps : c.ro.steps ≠ []) (hst : c.ro.style = .canary) (hf : c.sub.finStep = .resumeWorkload) :
    ∃ c', doFinalising c .success true = some (c', false, false) ∧ c'.ro = c.ro ∧ c'.wl = { c.wl with inProgressAnno := false } ∧
      c'.br = (finalizingBatchRelease c.br true).2.1 ∧ c'.net = c.net ∧ c'.mem = c.mem ∧
      c'.sub = if (finalizingBatchRelease c.br true).1 then c.sub
               else { c.sub with finStep := .releaseWorkloadControl, lastUpdate := .fresh } := by
  obtain ⟨hs, hr⟩ := RV.Props.Rollout.stripAnno_frame c
  obtain ⟨hb0, hn0, _, hm0⟩ := RV.Props.Cluster.stripAnno_frame' c
  have hw0 := stripAnno_wl c
  have hne : c.ro.steps.isEmpty = false := by cases hh : c.ro.steps <;> simp_all
  unfold doFinalising
  dsimp only
  rw [hs, hr, hne, hst, hf, lG7_next_resume]
  simp only [Bool.false_eq_true, if_false]
  rw [if_neg (by decide)]
  have hsc : startCursor (stripAnno c) .releaseWorkloadControl = stripAnno c := by
    unfold startCursor; rw [hs, hf]; rw [if_neg (by decide)]
  rw [hsc, hr, hst, hs, hf]
  rw [if_neg (by decide)]
  unfold finTask
  rw [hs, hf]
  dsimp only
  rw [hb0]
  cases hrt : (finalizingBatchRelease c.br true).1
  · rw [if_neg (by simp)]
    exact ⟨_, rfl, hr, hw0, rfl, hn0, hm0, rfl⟩
  · rw [if_pos (Or.inr rfl)]
    exact ⟨_, rfl, hr, hw0, rfl, hn0, hm0, rfl⟩

theorem lG7_stepRo (s : CS) (w : CWl) (sub : Sub) (b : CBr) (hgone : s.gone = false) (hg : RoGood s.ro) (hw : s.wl = some w)
    (hcons : w.generation = w.observedGeneration) (hp : s.ro.phase = .progressing) (hr : s.ro.reason = .finalising)
    (hs : s.ro.sub = some sub) (hf : sub.finStep = .resumeWorkload) (hb : s.br = some b) :
    ∃ ro' sub', stepRo s = some
        { gone := false, ro := ro',
          wl := (landBR (some b) (finalizingBatchRelease (some (roBr b)) true).2.1 (some { w with inProgressAnno := false })).2,
          br := (landBR (some b) (finalizingBatchRelease (some (roBr b)) true).2.1 (some { w with inProgressAnno := false })).1,
          net := s.net, mem := s.mem } ∧
      ro'.phase = .progressing ∧ ro'.reason = .finalising ∧ ro'.steps = s.ro.steps ∧ ro'.hasTraffic = s.ro.hasTraffic ∧
      ro'.sub = some sub' ∧
      sub'.finStep = (if (finalizingBatchRelease (some (roBr b)) true).1 then .resumeWorkload else .releaseWorkloadControl) := by
  have hc : (roWl w).consistent = true := by
    show decide (w.generation = w.observedGeneration) = true
    exact decide_eq_true hcons
  have hwl := world_wl s w hw
  have hhf := hf_good s.ro hg
  have hcs := cs_good s.ro (roWl w) hg hp hc
  have hsame := (RV.Props.Reconcile.csObserve_same s.ro (roWl w)).1
  obtain ⟨hfin, hphase, hreason, s1, hs1, hs1f⟩ := csObserve_facts s.ro (roWl w) sub hs
  generalize csObserve s.ro (roWl w) = ns at hcs hsame hfin hphase hreason hs1
  have hsteps : ns.steps ≠ [] := by rw [hsame.1]; exact hg.steps
  have hstyle : ns.style = .canary := by rw [hsame.2.2.1]; exact hg.canary
  obtain ⟨c', hd, c1, c2, c3, c4, c5, c6⟩ :=
    lG7_doFin (toCtx { roWorld s with ro := ns } s1 (roWl w)) hsteps hstyle (hs1f.trans hf)
  have hfz : finalise (roWorld s) ns (some (roWl w)) .success true = some (ofCtx (roWorld s) c' ns, false, false, c'.writes) := by
    unfold finalise
    rw [hs1]
    dsimp only
    rw [if_neg (by simp [hc]), hd]
  have hrec := reconcile_finalising_eq (roWorld s) (roWl w) ns _ false false _ hhf hcs hp hr hwl hc hfz hg.notDeleting hg.enabled
  rw [if_neg (by simp), if_neg (by simp)] at hrec
  have hbr0 : (toCtx { roWorld s with ro := ns } s1 (roWl w)).br = some (roBr b) := by
    show s.br.map roBr = _
    rw [hb]; rfl
  rw [hbr0] at c3 c6
  have c2' : c'.wl = { roWl w with inProgressAnno := false } := c2
  have c4' : c'.net = s.net := c4
  have c5' : c'.mem = s.mem := c5
  refine ⟨{ ns with sub := some c'.sub }, c'.sub, ?_, hphase.trans hp, hreason.trans hr, hsame.1, hsame.2.1, rfl, ?_⟩
  · rw [stepRo_eq s hgone _ hrec]
    unfold landRo ofCtx
    dsimp only
    rw [c2', c3, c4', c5', hw, hb]
    rfl
  · rw [c6]
    split
    · exact hs1f.trans hf
    · rfl

/-! ### the BatchRelease reconcile -/

theorem lG7_landW_id (w : CWl) : landW w (exWl w) = w := by
  cases w
  simp [landW, exWl]

theorem lG7_envWl_anno (w : CWl) (a : Bool) : envWl { w with inProgressAnno := a } = { envWl w with inProgressAnno := a } := by
  unfold envWl
  dsimp only
  split <;> rfl

theorem lG7_syncInfo_info (br : Executor.BR) (ns : Executor.Status) (w : Executor.Workload) (hd : br.deleting = false) :
    (Executor.syncInfo br ns (some w)).2 = some w := by
  unfold Executor.syncInfo
  rw [if_neg (by simp [hd])]
  dsimp only
  repeat' split
  all_goals rfl

/-- the joint state after a BatchRelease reconcile that wrote status `st` and left the workload as `wl` -/
def lG7_after (a : CS) (b1 : CBr) (st : Executor.Status) (wl : Option CWl) : CS :=
  { a with br := some (stLand b1 { Executor.withFinalizer (exBr b1) with status := st }), wl := wl }

theorem lG7_after_facts (a : CS) (b1 : CBr) (st : Executor.Status) (wl : Option CWl) :
    (lG7_after a b1 st wl).wl = wl ∧ (lG7_after a b1 st wl).ro = a.ro ∧
    ∃ bb, (lG7_after a b1 st wl).br = some bb ∧ bb.partition = b1.partition ∧ bb.policy = b1.policy ∧
      bb.deleting = b1.deleting ∧ bb.hasFinalizer = true ∧ bb.generation = bb.observedGeneration ∧ bb.st = st ∧
      bb.observedRolloutID = (if st.rolloutIDSame then b1.rolloutID else b1.observedRolloutID) ∧ bb.rolloutID = b1.rolloutID :=
  ⟨rfl, rfl, _, rfl, rfl, rfl, rfl, rfl, rfl, rfl, rfl, rfl⟩

theorem lG7_stepBr_cases (a : CS) (w1 : CWl) (b1 : CBr) (hw : a.wl = some w1) (hb : a.br = some b1) (hd : b1.deleting = false)
    (h0 : 0 ≤ b1.st.currentBatch) :
    ((Executor.syncStatus (Executor.withFinalizer (exBr b1)) (Executor.initializedStatus (exBr b1).status) (some (exWl w1))).stop = true ∧
      stepBr a = some (lG7_after a b1
        (Executor.syncStatus (Executor.withFinalizer (exBr b1)) (Executor.initializedStatus (exBr b1).status) (some (exWl w1))).status
        (some w1))) ∨
    ((Executor.syncStatus (Executor.withFinalizer (exBr b1)) (Executor.initializedStatus (exBr b1).status) (some (exWl w1))).stop = false ∧
      ∃ ns' wl' rq er, Executor.execute (Executor.withFinalizer (exBr b1)) (exBr b1).status (some (exWl w1)) = .val (ns', wl', rq, er) ∧
        stepBr a = some (lG7_after a b1 ns' (wlLand (some w1) wl'))) := by
  have hstep : ∀ o, Executor.reconcile (exBr b1) (some (exWl w1)) = .val o → stepBr a = some (landBr a b1 o) := by
    intro o hrec
    unfold stepBr
    rw [hb]
    dsimp only
    rw [hw]
    simp only [Option.map_some]
    rw [hrec]
  cases hrec : Executor.reconcile (exBr b1) (some (exWl w1)) with
  | panic => exact absurd hrec (exec_total (exBr b1) _ h0)
  | val o =>
    rcases rec_cases _ _ o hrec with ⟨hdel, _⟩ | ⟨hs, hbr, hwl⟩ | ⟨hs, ns', wl', rq, er, hex, hbr, hwl⟩
    · have : b1.deleting = true := hdel
      rw [hd] at this; cases this
    · left
      refine ⟨hs, ?_⟩
      rw [hstep o hrec]
      unfold landBr
      rw [hbr, hwl, hw, wlLand_some, lG7_landW_id]
      rfl
    · right
      refine ⟨hs, ns', wl', rq, er, hex, ?_⟩
      rw [hstep o hrec]
      unfold landBr
      rw [hbr, hwl, hw]
      rfl

theorem lG7_refresh_some (ns : Executor.Status) (w : Executor.Workload) :
    Executor.refreshStatus ns (some w) =
      { ns with updated := w.updated, updatedReady := w.updatedReady, hash := if ns.hash = .empty then .same else ns.hash,
                rolloutIDSame := true } := rfl

theorem lG7_env_fix_gen (w : CWl) (h : envWl w = w) : w.generation = w.observedGeneration := by
  have h1 : (envWl w).observedGeneration = w.generation := by
    unfold envWl; dsimp only; split <;> rfl
  rw [h] at h1
  exact h1.symm

theorem lG7_cfg_paused (s : CS) (w : CWl) (h : liveCfg s = true) (hw : s.wl = some w) : w.paused = false := by
  unfold liveCfg at h
  rw [hw] at h
  simp only [Bool.and_eq_true, Bool.not_eq_true'] at h
  exact h.2.1.2

/-! ### assembling the invariant of the state after the round -/

theorem lG7_tail_fin (b' : CS) (w' : CWl) (sub' : Sub) (bb : CBr) (hw' : b'.wl = some w') (hp : b'.ro.phase = .progressing)
    (hr : b'.ro.reason = .finalising) (hs : b'.ro.sub = some sub') (hb : b'.br = some bb) :
    ∃ sub'', (roundTail b').wl = some (envWl w') ∧ (roundTail b').ro.phase = .progressing ∧
      (roundTail b').ro.reason = .finalising ∧ (roundTail b').ro.sub = some sub'' ∧ sub''.finStep = sub'.finStep ∧
      (roundTail b').br = some bb := by
  obtain ⟨t1, t2, _, _, t5⟩ := lG7_tail_ro b'
  obtain ⟨sub'', h1, h2⟩ := t5 sub' hs
  exact ⟨sub'', by rw [lG7_tail_wl, hw']; rfl, t1.trans hp, t2.trans hr, h1, h2, (lG7_tail_br b').trans hb⟩

theorem lG7_assemble (s a b' : CS) (w w' : CWl) (hfwd : fwdInv s = true) (hcfg : liveCfg s = true) (hw : s.wl = some w)
    (h1 : stepRo s = some a) (h2 : stepBr a = some b') (hw' : b'.wl = some w')
    (hsteps : b'.ro.steps = s.ro.steps) (htr : b'.ro.hasTraffic = s.ro.hasTraffic) (hR : w'.replicas = w.replicas)
    (hrev : w'.updateRevision = w.updateRevision) (hpa : w'.paused = false) (hcls : cls (roundTail b') ≠ 0) :
    round s = some (roundTail b') ∧ liveInv (roundTail b') = true := by
  obtain ⟨a0, b0, g1, _, g2, g3, g4, g5⟩ := round_fwd s hfwd
  have ea : a0 = a := Option.some.inj (g1.symm.trans h1)
  subst ea
  have eb : b0 = b' := Option.some.inj (g2.symm.trans h2)
  subst eb
  refine ⟨g4, ?_⟩
  obtain ⟨_, _, w0, hw0, hok, _⟩ := fwd_parts b0 g3
  have : w0 = w' := Option.some.inj (hw0.symm.trans hw')
  subst this
  rw [liveInv_iff]
  exact ⟨g5, lG7_tail_cfg s b0 w w0 hcfg hw hw' hsteps htr hR hrev hpa, hcls, Or.inr (lG7_tail_boundary b0 w0 hw' hok)⟩

/-! ### class 24 -/

theorem lG7_fbr_some (b : BR) (h : b.partition.isSome = true) :
    finalizingBatchRelease (some b) true =
      (true, some { b with partition := none, policy := "WaitResume", hashSame := false }, ["patchBR"]) := by
  have hn : ¬ b.partition.isNone = true := by
    cases hp : b.partition with
    | none => rw [hp] at h; cases h
    | some p => simp
  unfold finalizingBatchRelease
  dsimp only
  rw [if_neg (fun hx => hn hx.1), if_neg (fun hx => hn hx.1)]
  rfl

/-- the BatchRelease after the patch of class 24 landed -/
def lG7_patched (b : CBr) : CBr :=
  upd2 b { roBr b with partition := none, policy := "WaitResume", hashSame := false }

theorem lG7_patched_land (b : CBr) (wl : Option CWl) :
    landBR (some b) (some { roBr b with partition := none, policy := "WaitResume", hashSame := false }) wl =
      (some (lG7_patched b), wl) := by
  unfold landBR
  dsimp only
  rw [updatedBr_eq, if_neg (by show ¬ (b.deleting = true ∧ ¬ b.deleting = true); exact fun hx => hx.2 hx.1)]
  rfl

theorem lG7_patched_facts (b : CBr) (h : b.partition.isSome = true) :
    (lG7_patched b).partition = none ∧ (lG7_patched b).policy = "WaitResume" ∧ (lG7_patched b).deleting = b.deleting ∧
    (lG7_patched b).st.phase = b.st.phase ∧ (lG7_patched b).st.currentBatch = b.st.currentBatch ∧
    (lG7_patched b).st.hash = (if b.st.hash = .same then .differs else b.st.hash) := by
  have hch : specChanged b { roBr b with partition := none, policy := "WaitResume", hashSame := false } = true := by
    cases hp : b.partition with
    | none => rw [hp] at h; cases h
    | some p => simp [specChanged, hp]
  unfold lG7_patched upd2
  rw [if_pos hch]
  exact ⟨rfl, rfl, rfl, rfl, rfl, rfl⟩

theorem lG7_shape_24 (s : CS) (h : liveInv s = true) (hc : cls s = 24) :
    ∃ s', round s = some s' ∧ liveInv s' = true ∧ mu s = 14 ∧ mu s' = 13 := by
  obtain ⟨hfwd, hcfg, _, hbd⟩ := (liveInv_iff s).1 h
  have hbd' : atBoundary s = true := by
    rcases hbd with hbd | hbd
    · rw [hc] at hbd; cases hbd
    · exact hbd
  obtain ⟨w, sub, b, hw, hp, hr, hs, hf, hb⟩ := lG7_cls_inv s (Or.inl hc)
  obtain ⟨hgone, hg, w0, hw0, hwok, _, hbrok, _⟩ := fwd_parts s hfwd
  have : w0 = w := Option.some.inj (hw0.symm.trans hw)
  subst this
  -- the class facts
  have hcls := lG7_cls_resume s w0 sub b hw hp hr hs hf hb
  rw [hc] at hcls
  have hpart : b.partition.isSome = true := by
    cases hx : b.partition.isSome
    · rw [hx] at hcls; simp at hcls
      revert hcls; repeat' split
      all_goals (intro hcls; omega)
    · rfl
  rw [hpart, if_pos rfl] at hcls
  have hcond : (brSync b w0 && brInit b w0 && b.st.batchState == .ready &&
      RV.Oracle.Executor.batchReadyNow (exBr b) (some (exWl w0)) && cls.isPartitioned' b) = true := by
    revert hcls; split
    · intro _; assumption
    · intro hcls; omega
  simp only [Bool.and_eq_true] at hcond
  obtain ⟨⟨⟨⟨hsync, hinit⟩, _⟩, _⟩, _⟩ := hcond
  unfold brSync at hsync
  unfold brInit at hinit
  simp only [Bool.and_eq_true, beq_iff_eq, Bool.not_eq_true'] at hsync hinit
  obtain ⟨⟨⟨⟨⟨⟨⟨⟨⟨_, _⟩, _⟩, _⟩, hdel⟩, _⟩, _⟩, _⟩, _⟩, hhash⟩ := hsync
  obtain ⟨_, hphase⟩ := hinit
  -- the boundary facts
  unfold atBoundary at hbd'
  rw [hw] at hbd'
  simp only [Bool.and_eq_true, beq_iff_eq] at hbd'
  obtain ⟨henv, _⟩ := hbd'
  have hcons := lG7_env_fix_gen w0 henv
  have hpaused := lG7_cfg_paused s w0 hcfg hw
  have hbok : brOK b = true := by rw [hb] at hbrok; exact hbrok
  obtain ⟨_, h0, _⟩ := (brOK_iff' b).1 hbok
  -- the Rollout reconcile
  obtain ⟨ro', sub', hro, r1, r2, r3, r4, r5, r6⟩ := lG7_stepRo s w0 sub b hgone hg hw hcons hp hr hs hf hb
  rw [lG7_fbr_some (roBr b) hpart] at hro r6
  dsimp only at hro r6
  rw [lG7_patched_land] at hro
  dsimp only at hro
  rw [if_pos rfl] at r6
  obtain ⟨p1, p2, p3, p4, p5, p6⟩ := lG7_patched_facts b hpart
  generalize lG7_patched b = b1 at hro p1 p2 p3 p4 p5 p6
  obtain ⟨a, ha⟩ : ∃ a : CS, a = { gone := false, ro := ro', wl := some { w0 with inProgressAnno := false }, br := some b1, net := s.net, mem := s.mem } := ⟨_, rfl⟩
  rw [← ha] at hro
  have hawl : a.wl = some { w0 with inProgressAnno := false } := by rw [ha]
  have habr : a.br = some b1 := by rw [ha]
  have haro : a.ro = ro' := by rw [ha]
  clear ha
  -- the BatchRelease reconcile stops after the sync step
  have hfin : Executor.isPlanFinalizing (Executor.withFinalizer (exBr b1)) = true := by
    show (b1.deleting || decide (b1.st.phase = .finalizing) || b1.partition.isNone) = true
    rw [p1]; simp
  have hcn : (Executor.withFinalizer (exBr b1)).status.phase ≠ .completed := by
    show b1.st.phase ≠ .completed
    rw [p4, hphase]; decide
  have hne : (exBr b1).status.phase ≠ .empty := by
    show b1.st.phase ≠ .empty
    rw [p4, hphase]; decide
  have hd1 : b1.deleting = false := p3.trans hdel
  obtain ⟨hst, hstop⟩ := holds_sync_of_decide _ (Executor.initializedStatus (exBr b1).status)
    (some (exWl { w0 with inProgressAnno := false })) _
    (holds_decide_finalizing (Executor.withFinalizer (exBr b1)) (Executor.initializedStatus (exBr b1).status) _ _ hcn hfin)
  dsimp only at hst hstop
  rw [lG7_syncInfo_info _ _ _ (by exact hd1), Executor.initialized_id _ hne, lG7_refresh_some] at hst
  rcases lG7_stepBr_cases a { w0 with inProgressAnno := false } b1 hawl habr hd1 (by rw [p5]; exact h0) with
    ⟨_, hbr⟩ | ⟨hns, _⟩
  · rw [Executor.initialized_id _ hne, hst] at hbr
    -- the state after the round
    obtain ⟨bX, hbr', hbX⟩ : ∃ bX, stepBr a = some bX ∧ bX = _ := ⟨_, hbr, rfl⟩
    obtain ⟨f1, f2, bb, f3, f4, f5, f6, f7, f8, f9, f10, f11⟩ := lG7_after_facts a b1 _ _
    rw [← hbX] at f1 f2 f3
    rw [haro] at f2
    obtain ⟨sub'', q1, q2, q3, q4, q5, q6⟩ := lG7_tail_fin bX _ sub' bb f1 (by rw [f2]; exact r1) (by rw [f2]; exact r2)
      (by rw [f2]; exact r5) f3
    have henv' : envWl { w0 with inProgressAnno := false } = { w0 with inProgressAnno := false } := by
      rw [lG7_envWl_anno, henv]
    rw [henv'] at q1
    have hcls' := lG7_cls_resume _ _ sub'' _ q1 q2 q3 q4 (q5.trans r6) q6
    have e1 : bb.partition.isSome = false := by rw [f4, p1]; rfl
    have e2 : bb.st.phase = .finalizing := by rw [f9]
    have e3 : bb.st.updated = w0.updated := by rw [f9]; rfl
    have e4 : bb.st.updatedReady = w0.updatedReady := by rw [f9]; rfl
    have e5 : bb.st.hash ≠ .empty := by
      rw [f9]
      dsimp only
      split
      · intro hx; cases hx
      · assumption
    have e6 : bb.observedRolloutID = bb.rolloutID := by rw [f10, f11]; rfl
    have hcls25 : cls (roundTail bX) = 25 := by
      rw [hcls']
      simp [e1, e2, e3, e4, e5, e6, f6, hd1, f7, f8, f5, p2]
    obtain ⟨k1, k2⟩ := lG7_assemble s a bX w0 { w0 with inProgressAnno := false } hfwd hcfg hw hro hbr' f1
      (by rw [f2]; exact r3) (by rw [f2]; exact r4) rfl rfl hpaused (by rw [hcls25]; decide)
    refine ⟨_, k1, k2, ?_, ?_⟩
    · rw [lG7_mu_fin s w0 sub hw hp hr hs]
      unfold finRank
      rw [hf]
      dsimp only
      rw [hb]
      dsimp only
      rw [if_pos hpart]
    · rw [lG7_mu_fin _ _ sub'' q1 q2 q3 q4]
      unfold finRank
      rw [q5.trans r6]
      dsimp only
      rw [q6]
      dsimp only
      rw [f4, p1, f9]
      simp
  · exfalso
    rw [hstop, Bool.false_or, decide_eq_false_iff_not, Classical.not_not] at hns
    have := congrArg Executor.Status.phase hns
    rw [Executor.refresh_phase, Executor.initialized_id _ hne] at this
    have h2 : Executor.Phase.finalizing = b1.st.phase := this
    rw [p4, hphase] at h2
    cases h2

/-! ### class 26 -/

theorem lG7_fbr_completed (b : BR) (h1 : b.partition.isNone = true) (h2 : b.phaseCompleted = true) :
    finalizingBatchRelease (some b) true = (false, some b, []) := by
  unfold finalizingBatchRelease
  dsimp only
  rw [if_pos ⟨h1, h2⟩]

theorem lG7_decide_completed (br : Executor.BR) (ns : Executor.Status) (ev : Executor.Event) (info : Option Executor.Workload)
    (h : br.status.phase = .completed) : Executor.syncDecide br ns ev info = (ns, true) := by
  unfold Executor.syncDecide
  dsimp only
  rw [if_pos h]

theorem lG7_shape_26 (s : CS) (h : liveInv s = true) (hc : cls s = 26) :
    ∃ s' w, round s = some s' ∧ liveInv s' = true ∧ mu s = 12 ∧ mu s' = 10 ∧ s.wl = some w ∧
      s'.wl = some { w with inProgressAnno := false } := by
  obtain ⟨hfwd, hcfg, _, hbd⟩ := (liveInv_iff s).1 h
  have hbd' : atBoundary s = true := by
    rcases hbd with hbd | hbd
    · rw [hc] at hbd; cases hbd
    · exact hbd
  obtain ⟨w, sub, b, hw, hp, hr, hs, hf, hb⟩ := lG7_cls_inv s (Or.inr (Or.inr hc))
  obtain ⟨hgone, hg, w0, hw0, hwok, _, hbrok, _⟩ := fwd_parts s hfwd
  have : w0 = w := Option.some.inj (hw0.symm.trans hw)
  subst this
  -- the class facts
  have hcls := lG7_cls_resume s w0 sub b hw hp hr hs hf hb
  rw [hc] at hcls
  have hpart : b.partition.isSome = false := by
    cases hx : b.partition.isSome
    · rfl
    · rw [hx, if_pos rfl] at hcls
      revert hcls; split
      all_goals (intro hcls; omega)
  rw [hpart, if_neg (by simp)] at hcls
  have hnf : (b.st.phase == .finalizing) = false := by
    cases hx : (b.st.phase == Executor.Phase.finalizing)
    · rfl
    · rw [hx, if_pos rfl] at hcls
      revert hcls; split
      all_goals (intro hcls; omega)
  rw [hnf, if_neg (by simp)] at hcls
  have hcomp : b.st.phase = .completed := by
    by_cases hx : b.st.phase = .completed
    · exact hx
    · rw [if_neg (by simpa using hx)] at hcls; omega
  rw [if_pos (by simp [hcomp])] at hcls
  have hcond : (!b.deleting && b.hasFinalizer) = true := by
    revert hcls; split
    · intro _; assumption
    · intro hcls; omega
  simp only [Bool.and_eq_true, Bool.not_eq_true'] at hcond
  obtain ⟨hdel, _⟩ := hcond
  have hpn : b.partition = none := by
    cases hx : b.partition with
    | none => rfl
    | some p => rw [hx] at hpart; cases hpart
  -- the boundary facts
  unfold atBoundary at hbd'
  rw [hw] at hbd'
  simp only [Bool.and_eq_true, beq_iff_eq] at hbd'
  obtain ⟨henv, _⟩ := hbd'
  have hcons := lG7_env_fix_gen w0 henv
  have hpaused := lG7_cfg_paused s w0 hcfg hw
  have hbok : brOK b = true := by rw [hb] at hbrok; exact hbrok
  obtain ⟨_, h0, _⟩ := (brOK_iff' b).1 hbok
  -- the Rollout reconcile
  obtain ⟨ro', sub', hro, r1, r2, r3, r4, r5, r6⟩ := lG7_stepRo s w0 sub b hgone hg hw hcons hp hr hs hf hb
  rw [lG7_fbr_completed (roBr b) (by show b.partition.isNone = true; rw [hpn]; rfl)
    (by show decide (b.st.phase = .completed) = true; exact decide_eq_true hcomp)] at hro r6
  dsimp only at hro r6
  have hl : landBR (some b) (some (roBr b)) (some { w0 with inProgressAnno := false }) = (some b, some { w0 with inProgressAnno := false }) :=
    landBR_id (some b) _
  rw [hl] at hro
  dsimp only at hro
  rw [if_neg (by simp)] at r6
  obtain ⟨a, ha⟩ : ∃ a : CS, a = { gone := false, ro := ro', wl := some { w0 with inProgressAnno := false }, br := some b, net := s.net, mem := s.mem } := ⟨_, rfl⟩
  rw [← ha] at hro
  have hawl : a.wl = some { w0 with inProgressAnno := false } := by rw [ha]
  have habr : a.br = some b := by rw [ha]
  have haro : a.ro = ro' := by rw [ha]
  clear ha
  -- the BatchRelease reconcile stops after the sync step
  have hcomp' : (Executor.withFinalizer (exBr b)).status.phase = .completed := hcomp
  have hne : (exBr b).status.phase ≠ .empty := by
    show b.st.phase ≠ .empty
    rw [hcomp]; decide
  obtain ⟨hst, _⟩ := holds_sync_of_decide _ (Executor.initializedStatus (exBr b).status)
    (some (exWl { w0 with inProgressAnno := false })) _
    (lG7_decide_completed (Executor.withFinalizer (exBr b)) (Executor.initializedStatus (exBr b).status) _ _ hcomp')
  dsimp only at hst
  rcases lG7_stepBr_cases a { w0 with inProgressAnno := false } b hawl habr hdel h0 with ⟨_, hbr⟩ | ⟨hns, _⟩
  · obtain ⟨bX, hbr', hbX⟩ : ∃ bX, stepBr a = some bX ∧ bX = _ := ⟨_, hbr, rfl⟩
    obtain ⟨f1, f2, bb, f3, f4, f5, f6, f7, f8, f9, f10, f11⟩ := lG7_after_facts a b _ _
    rw [← hbX] at f1 f2 f3
    rw [haro] at f2
    have hbbp : bb.st.phase = .completed := by
      rw [f9, hst, Executor.refresh_phase, Executor.initialized_id _ hne]
      exact hcomp
    obtain ⟨sub'', q1, q2, q3, q4, q5, q6⟩ := lG7_tail_fin bX _ sub' bb f1 (by rw [f2]; exact r1) (by rw [f2]; exact r2)
      (by rw [f2]; exact r5) f3
    have henv' : envWl { w0 with inProgressAnno := false } = { w0 with inProgressAnno := false } := by
      rw [lG7_envWl_anno, henv]
    rw [henv'] at q1
    have hcls' := lG7_cls_release _ _ sub'' _ q1 q2 q3 q4 (q5.trans r6) q6
    have hcls27 : cls (roundTail bX) = 27 := by
      rw [hcls', hbbp, f6, hdel, f7]
      simp
    obtain ⟨k1, k2⟩ := lG7_assemble s a bX w0 { w0 with inProgressAnno := false } hfwd hcfg hw hro hbr' f1
      (by rw [f2]; exact r3) (by rw [f2]; exact r4) rfl rfl hpaused (by rw [hcls27]; decide)
    refine ⟨_, w0, k1, k2, ?_, ?_, hw, q1⟩
    · rw [lG7_mu_fin s w0 sub hw hp hr hs]
      unfold finRank
      rw [hf]
      dsimp only
      rw [hb]
      dsimp only
      rw [hpart, hcomp]
      simp
    · rw [lG7_mu_fin _ _ sub'' q1 q2 q3 q4]
      unfold finRank
      rw [q5.trans r6]
      dsimp only
      rw [q6]
      dsimp only
      rw [f6, hdel]
      simp
  · exfalso
    have := Executor.sync_completed_stops (Executor.withFinalizer (exBr b))
      (Executor.initializedStatus (exBr b).status) (some (exWl { w0 with inProgressAnno := false })) hcomp'
    rw [this] at hns; cases hns

/-! ### class 25 -/

theorem lG7_fbr_wait (b : BR) (h1 : b.partition.isNone = true) (h2 : b.phaseCompleted = false) (h3 : b.policy = "WaitResume") :
    finalizingBatchRelease (some b) true = (true, some b, []) := by
  unfold finalizingBatchRelease
  dsimp only
  rw [if_neg (by rw [h2]; simp), if_pos ⟨h1, by rw [h3]; rfl⟩]

theorem lG7_refresh_fix (st : Executor.Status) (w : Executor.Workload) (h1 : st.phase = .finalizing) (h2 : st.updated = w.updated)
    (h3 : st.updatedReady = w.updatedReady) (h4 : st.hash ≠ .empty) (h5 : st.rolloutIDSame = true) :
    Executor.refreshStatus { st with phase := .finalizing } (some w) = st := by
  cases st
  simp only at h1 h2 h3 h4 h5
  subst h1 h2 h3 h5
  simp [Executor.refreshStatus, h4]

theorem lG7_envWl_owner (w : CWl) : (envWl w).owner = w.owner := by
  unfold envWl; dsimp only; split <;> rfl

theorem lG7_shape_25 (s : CS) (h : liveInv s = true) (hc : cls s = 25) :
    ∃ s' w', round s = some s' ∧ liveInv s' = true ∧ mu s = 13 ∧ mu s' = 12 ∧ s'.wl = some w' ∧
      w'.partition = none ∧ w'.paused = false ∧ w'.owner = .none := by
  obtain ⟨hfwd, hcfg, _, hbd⟩ := (liveInv_iff s).1 h
  have hbd' : atBoundary s = true := by
    rcases hbd with hbd | hbd
    · rw [hc] at hbd; cases hbd
    · exact hbd
  obtain ⟨w, sub, b, hw, hp, hr, hs, hf, hb⟩ := lG7_cls_inv s (Or.inr (Or.inl hc))
  obtain ⟨hgone, hg, w0, hw0, hwok, _, hbrok, _⟩ := fwd_parts s hfwd
  have : w0 = w := Option.some.inj (hw0.symm.trans hw)
  subst this
  -- the class facts
  have hcls := lG7_cls_resume s w0 sub b hw hp hr hs hf hb
  rw [hc] at hcls
  have hpart : b.partition.isSome = false := by
    cases hx : b.partition.isSome
    · rfl
    · rw [hx, if_pos rfl] at hcls
      revert hcls; split
      all_goals (intro hcls; omega)
  rw [hpart, if_neg (by simp)] at hcls
  have hfinp : b.st.phase = .finalizing := by
    by_cases hx : b.st.phase = .finalizing
    · exact hx
    · rw [if_neg (by simpa using hx)] at hcls
      revert hcls; repeat' split
      all_goals (intro hcls; omega)
  rw [if_pos (by simp [hfinp])] at hcls
  have hcond : (b.st.updated == w0.updated && b.st.updatedReady == w0.updatedReady && b.generation == b.observedGeneration &&
      b.hasFinalizer && !b.deleting && b.policy == "WaitResume" && b.st.hash != .empty &&
      b.observedRolloutID == b.rolloutID) = true := by
    revert hcls; split
    · intro _; assumption
    · intro hcls; omega
  simp only [Bool.and_eq_true, Bool.not_eq_true', beq_iff_eq, bne_iff_ne, ne_eq] at hcond
  obtain ⟨⟨⟨⟨⟨⟨⟨hupd, hupdr⟩, _⟩, _⟩, hdel⟩, hpol⟩, hhash⟩, hoid⟩ := hcond
  have hpn : b.partition = none := by
    cases hx : b.partition with
    | none => rfl
    | some p => rw [hx] at hpart; cases hpart
  -- the boundary facts
  unfold atBoundary at hbd'
  rw [hw] at hbd'
  simp only [Bool.and_eq_true, beq_iff_eq] at hbd'
  obtain ⟨henv, _⟩ := hbd'
  have hcons := lG7_env_fix_gen w0 henv
  have hpaused := lG7_cfg_paused s w0 hcfg hw
  have hbok : brOK b = true := by rw [hb] at hbrok; exact hbrok
  obtain ⟨_, h0, _⟩ := (brOK_iff' b).1 hbok
  -- the Rollout reconcile
  obtain ⟨ro', sub', hro, r1, r2, r3, r4, r5, r6⟩ := lG7_stepRo s w0 sub b hgone hg hw hcons hp hr hs hf hb
  rw [lG7_fbr_wait (roBr b) (by show b.partition.isNone = true; rw [hpn]; rfl)
    (by show decide (b.st.phase = .completed) = false; rw [hfinp]; rfl) hpol] at hro r6
  dsimp only at hro r6
  have hl : landBR (some b) (some (roBr b)) (some { w0 with inProgressAnno := false }) = (some b, some { w0 with inProgressAnno := false }) :=
    landBR_id (some b) _
  rw [hl] at hro
  dsimp only at hro
  rw [if_pos rfl] at r6
  obtain ⟨a, ha⟩ : ∃ a : CS, a = { gone := false, ro := ro', wl := some { w0 with inProgressAnno := false }, br := some b, net := s.net, mem := s.mem } := ⟨_, rfl⟩
  rw [← ha] at hro
  have hawl : a.wl = some { w0 with inProgressAnno := false } := by rw [ha]
  have habr : a.br = some b := by rw [ha]
  have haro : a.ro = ro' := by rw [ha]
  clear ha
  -- the sync step of the BatchRelease reconcile changes nothing
  have hfin : Executor.isPlanFinalizing (Executor.withFinalizer (exBr b)) = true := by
    show (b.deleting || decide (b.st.phase = .finalizing) || b.partition.isNone) = true
    rw [hpn]; simp
  have hcn : (Executor.withFinalizer (exBr b)).status.phase ≠ .completed := by
    show b.st.phase ≠ .completed
    rw [hfinp]; decide
  have hne : (exBr b).status.phase ≠ .empty := by
    show b.st.phase ≠ .empty
    rw [hfinp]; decide
  obtain ⟨_, hstop⟩ := holds_sync_of_decide _ (Executor.initializedStatus (exBr b).status)
    (some (exWl { w0 with inProgressAnno := false })) _
    (holds_decide_finalizing (Executor.withFinalizer (exBr b)) (Executor.initializedStatus (exBr b).status) _ _ hcn hfin)
  dsimp only at hstop
  rw [lG7_syncInfo_info _ _ _ (by exact hdel), Executor.initialized_id _ hne,
    lG7_refresh_fix (exBr b).status (exWl { w0 with inProgressAnno := false }) hfinp hupd hupdr hhash (by show decide (b.observedRolloutID = b.rolloutID) = true; exact decide_eq_true hoid)] at hstop
  rcases lG7_stepBr_cases a { w0 with inProgressAnno := false } b hawl habr hdel h0 with ⟨hs', _⟩ | ⟨_, ns', wl', rq, er, hex, hbr⟩
  · exfalso
    rw [Executor.initialized_id _ hne, hstop] at hs'
    simp [Executor.withFinalizer] at hs'
  · have hnp : (exBr b).status.phase ≠ .progressing := by
      show b.st.phase ≠ .progressing
      rw [hfinp]; decide
    have hfp : (exBr b).status.phase = .finalizing := hfinp
    rcases execute_np _ _ _ _ _ _ _ hex hnp with ⟨hcc, _⟩ | ⟨_, hns', hwl'⟩ | ⟨hcc, _⟩
    · rw [hfp] at hcc; cases hcc
    · have hfz : (Executor.finalize (Executor.withFinalizer (exBr b)) (some (exWl { w0 with inProgressAnno := false }))).1 =
          some { exWl { w0 with inProgressAnno := false } with owner := .none, partition := none, paused := false } := by
        unfold Executor.finalize
        dsimp only
        rw [if_pos (by show b.partition.isNone = true; rw [hpn]; rfl)]
      rw [hfz] at hwl'
      rw [hwl', hns', wlLand_some] at hbr
      obtain ⟨bX, hbr', hbX⟩ : ∃ bX, stepBr a = some bX ∧ bX = _ := ⟨_, hbr, rfl⟩
      obtain ⟨f1, f2, bb, f3, f4, f5, f6, f7, f8, f9, f10, f11⟩ := lG7_after_facts a b _ _
      rw [← hbX] at f1 f2 f3
      rw [haro] at f2
      obtain ⟨sub'', q1, q2, q3, q4, q5, q6⟩ := lG7_tail_fin bX _ sub' bb f1 (by rw [f2]; exact r1) (by rw [f2]; exact r2)
        (by rw [f2]; exact r5) f3
      have hcls' := lG7_cls_resume _ _ sub'' _ q1 q2 q3 q4 (q5.trans r6) q6
      have hcls26 : cls (roundTail bX) = 26 := by
        rw [hcls', f4, hpn, f9, f6, hdel, f7]
        simp
      obtain ⟨k1, k2⟩ := lG7_assemble s a bX w0 _ hfwd hcfg hw hro hbr' f1
        (by rw [f2]; exact r3) (by rw [f2]; exact r4) rfl rfl rfl (by rw [hcls26]; decide)
      obtain ⟨_, _, e3, _, _⟩ := envWl_frame (landW { w0 with inProgressAnno := false }
        { exWl { w0 with inProgressAnno := false } with owner := .none, partition := none, paused := false })
      refine ⟨_, _, k1, k2, ?_, ?_, q1, e3, lG7_envWl_paused _, lG7_envWl_owner _⟩
      · rw [lG7_mu_fin s w0 sub hw hp hr hs]
        unfold finRank
        rw [hf]
        dsimp only
        rw [hb]
        dsimp only
        rw [hpart, hfinp]
        simp
      · rw [lG7_mu_fin _ _ sub'' q1 q2 q3 q4]
        unfold finRank
        rw [q5.trans r6]
        dsimp only
        rw [q6]
        dsimp only
        rw [f4, hpn, f9]
        simp
    · rw [hfp] at hcc
      rcases hcc with hcc | hcc | hcc <;> cases hcc

/-! ### the theorems -/

theorem round_cls_24 (s : CS) (h : liveInv s = true) (hc : cls s = 24) :
    ∃ s', round s = some s' ∧ liveInv s' = true ∧ mu s' < mu s := by
  obtain ⟨s', h1, h2, h3, h4⟩ := lG7_shape_24 s h hc
  exact ⟨s', h1, h2, by omega⟩

theorem round_cls_25 (s : CS) (h : liveInv s = true) (hc : cls s = 25) :
    ∃ s', round s = some s' ∧ liveInv s' = true ∧ mu s' < mu s := by
  obtain ⟨s', _, h1, h2, h3, h4, _⟩ := lG7_shape_25 s h hc
  exact ⟨s', h1, h2, by omega⟩

theorem round_cls_26 (s : CS) (h : liveInv s = true) (hc : cls s = 26) :
    ∃ s', round s = some s' ∧ liveInv s' = true ∧ mu s' < mu s := by
  obtain ⟨s', _, h1, h2, h3, h4, _⟩ := lG7_shape_26 s h hc
  exact ⟨s', h1, h2, by omega⟩

theorem done_cls_24 (s : CS) (h : liveInv s = true) (hd : doneInv s = true) (hc : cls s = 24) :
    ∀ s', round s = some s' → doneInv s' = true := by
  have _ := hd
  obtain ⟨s0, h1, _, _, h4⟩ := lG7_shape_24 s h hc
  intro s' hs'
  have : s' = s0 := Option.some.inj (hs'.symm.trans h1)
  subst this
  unfold doneInv
  rw [h4]
  cases s'.wl <;> simp

theorem done_cls_25 (s : CS) (h : liveInv s = true) (hd : doneInv s = true) (hc : cls s = 25) :
    ∀ s', round s = some s' → doneInv s' = true := by
  have _ := hd
  obtain ⟨s0, w', h1, _, _, h4, h5, h6, h7, h8⟩ := lG7_shape_25 s h hc
  intro s' hs'
  have : s' = s0 := Option.some.inj (hs'.symm.trans h1)
  subst this
  unfold doneInv
  rw [h4, h5]
  simp [h6, h7, h8]

theorem done_cls_26 (s : CS) (h : liveInv s = true) (hd : doneInv s = true) (hc : cls s = 26) :
    ∀ s', round s = some s' → doneInv s' = true := by
  obtain ⟨s0, w, h1, _, h3, h4, h5, h6⟩ := lG7_shape_26 s h hc
  intro s' hs'
  have : s' = s0 := Option.some.inj (hs'.symm.trans h1)
  subst this
  unfold doneInv at hd ⊢
  rw [h3, h5] at hd
  rw [h4, h6]
  simp at hd ⊢
  exact hd

theorem lG7_pol_of_mu (s' : CS) (n : Nat) (h : mu s' = n) (hn : n ≤ 32) : polInv s' = true := by
  unfold polInv
  rw [h]
  cases s'.br with
  | none => rfl
  | some b => simp [hn]

theorem pol_cls_24 (s : CS) (h : liveInv s = true) (hp : polInv s = true) (hc : cls s = 24) :
    ∀ s', round s = some s' → polInv s' = true := by
  have _ := hp
  obtain ⟨s0, h1, _, _, h4⟩ := lG7_shape_24 s h hc
  intro s' hs'
  have : s' = s0 := Option.some.inj (hs'.symm.trans h1)
  subst this
  exact lG7_pol_of_mu s' 13 h4 (by decide)

theorem pol_cls_25 (s : CS) (h : liveInv s = true) (hp : polInv s = true) (hc : cls s = 25) :
    ∀ s', round s = some s' → polInv s' = true := by
  have _ := hp
  obtain ⟨s0, _, h1, _, _, h4, _⟩ := lG7_shape_25 s h hc
  intro s' hs'
  have : s' = s0 := Option.some.inj (hs'.symm.trans h1)
  subst this
  exact lG7_pol_of_mu s' 12 h4 (by decide)

theorem pol_cls_26 (s : CS) (h : liveInv s = true) (hp : polInv s = true) (hc : cls s = 26) :
    ∀ s', round s = some s' → polInv s' = true := by
  have _ := hp
  obtain ⟨s0, _, h1, _, _, h4, _⟩ := lG7_shape_26 s h hc
  intro s' hs'
  have : s' = s0 := Option.some.inj (hs'.symm.trans h1)
  subst this
  exact lG7_pol_of_mu s' 10 h4 (by decide)

end RV.Lemmas.ClosedLoop
