import RV.Model.Validate
import RV.Oracle.C09V
namespace RV.Validate
end RV.Validate
