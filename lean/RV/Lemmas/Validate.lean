import RV.Model.Validate
import RV.Oracle.C09V
import RV.Lemmas.Arith
/-!
  Helper lemmas for C09 (validation part): what an empty error list of each
  validation function implies, and that no function reaches its `panic` branch.
-/
namespace RV.Validate
open RV.Arith RV.Oracle.C09V

/-! ### loops -/

theorem firstErr_none {α ε} {f : α → Option ε} {l : List α} (h : firstErr f l = none) :
    ∀ a ∈ l, f a = none := by
  induction l with
  | nil => intro a ha; cases ha
  | cons x xs ih =>
    simp only [firstErr] at h
    split at h
    · cases h
    · rename_i hx
      intro a ha
      cases ha with
      | head => exact hx
      | tail _ h' => exact ih h a h'

theorem firstErrP_ok {α ε} {f : α → Option (Option ε)} {l : List α} (h : firstErrP f l = some none) :
    ∀ a ∈ l, f a = some none := by
  induction l with
  | nil => intro a ha; cases ha
  | cons x xs ih =>
    simp only [firstErrP] at h
    split at h
    · cases h
    · cases h
    · rename_i hx
      intro a ha
      cases ha with
      | head => exact hx
      | tail _ h' => exact ih h a h'

/-- the first loop never panics when its body never panics -/
theorem firstErrP_ne_none {α ε} {f : α → Option (Option ε)} {l : List α}
    (h : ∀ a ∈ l, f a ≠ none) : firstErrP f l ≠ none := by
  induction l with
  | nil => simp [firstErrP]
  | cons x xs ih =>
    simp only [firstErrP]
    split
    · rename_i hx; exact absurd hx (h x (List.mem_cons_self ..))
    · simp
    · exact ih (fun a ha => h a (List.mem_cons_of_mem _ ha))

/-! ### values -/

theorem scaled_pct (p : Int) : scaled (.pct p) 100 true = (p, false) := by
  simp only [scaled, if_true]
  rw [Int.mul_comm, ceilDiv100_mul100]

theorem scaled_int (n : Int) : scaled (.int n) 100 true = (n, false) := rfl
theorem scaled_bad : scaled .bad 100 true = (0, true) := rfl

/-- key the model compares in the second loop (v1beta1) -/
def keyB (s : Step) : Bool × Int := (isPctType s.replicas, (scaled100 s.replicas).1)

theorem stepKey_of_validB {s : Step} (h : stepReplicasOKB s = true) : stepKey s = some (keyB s) := by
  unfold stepReplicasOKB at h
  unfold stepKey keyB
  cases hr : s.replicas with
  | none => simp [hr] at h
  | some r =>
    cases r with
    | int n => simp [isPctType, scaled100, scaled_int]
    | pct p => simp [isPctType, scaled100, scaled_pct]
    | bad => simp [hr, replicasValid] at h


/-! ### first loop, v1beta1 -/

theorem checkTrafficB_ok {style : Style} {t : IntOrPct} (h : checkTrafficB style t = none) :
    ∃ w, t = .pct w ∧ (if style = .blueGreen then 0 else 1) ≤ w ∧ w ≤ 100 := by
  cases t with
  | int m => cases style <;> simp [checkTrafficB, trafficVal] at h
  | bad => cases style <;> simp [checkTrafficB, trafficVal] at h
  | pct w =>
    refine ⟨w, rfl, ?_⟩
    cases style <;> simp [checkTrafficB, trafficVal, scaled_pct] at h ⊢ <;> omega

theorem replicas_ok_of_not_bad {r : IntOrPct}
    (h : ¬ ((scaled r 100 true).2 = true ∨ (scaled r 100 true).1 ≤ 0 ∨
        ((scaled r 100 true).1 > 100 ∧ isPctType (some r) = true))) : replicasValid r = true := by
  cases r with
  | bad => simp [scaled_bad] at h
  | int n => simp [scaled_int, isPctType] at h; simp [replicasValid]; omega
  | pct p => simp [scaled_pct, isPctType] at h; simp [replicasValid]; omega

theorem checkStepB_ok {style : Style} {limit : Int} {s : Step} (h : checkStepB style limit s = none) :
    stepReplicasOKB s = true ∧ trafficOKB (if style = .blueGreen then 0 else 1) s = true := by
  unfold checkStepB at h
  unfold stepReplicasOKB trafficOKB
  cases hr : s.replicas with
  | none => simp [hr] at h
  | some r =>
    simp only [hr] at h ⊢
    by_cases c1 : ((scaled r 100 true).2 = true ∨ (scaled r 100 true).1 ≤ 0 ∨
        ((scaled r 100 true).1 > 100 ∧ isPctType (some r) = true))
    · rw [if_pos c1] at h; cases h
    · rw [if_neg c1] at h
      refine ⟨replicas_ok_of_not_bad c1, ?_⟩
      cases ht : s.traffic with
      | none => rfl
      | some t =>
        simp only [ht, Option.isNone_some, Bool.false_eq_true, false_and, if_false] at h
        by_cases c3 : (style = Style.partition ∧ isPctType (some r) = true ∧ (scaled r 100 true).1 > limit)
        · rw [if_pos c3] at h; cases h
        · rw [if_neg c3] at h
          obtain ⟨w, hw, hb⟩ := checkTrafficB_ok h
          simp [hw, hb]


/-! ### second loop: every two steps of the same type are ordered -/

theorem Last.set_same (l : Last) (t : Bool) (v : Int) : l.set t v t = some v := by simp [Last.set]
theorem Last.set_other (l : Last) {t b : Bool} (v : Int) (h : b ≠ t) : l.set t v b = l b := by
  simp [Last.set, h]

/-- invariant of the `lastOfType` loop: no error means (a) all same-type pairs are ordered and
    (b) every element is at least the latest earlier value of its type. -/
theorem checkNonDecrB_inv (steps : List Step) : ∀ (last : Last), checkNonDecrB last steps = none →
    pairNonDecr (steps.map keyB) = true ∧
    ∀ k ∈ steps.map keyB, ∀ pv, last k.1 = some pv → pv ≤ k.2 := by
  induction steps with
  | nil => intro last _; exact ⟨rfl, fun k hk => by cases hk⟩
  | cons c rest ih =>
    intro last h
    simp only [checkNonDecrB] at h
    -- the head passes against `last`, the tail passes against the updated map
    have hhead : ∀ pv, last (keyB c).1 = some pv → pv ≤ (keyB c).2 := by
      intro pv hpv
      simp only [keyB] at hpv ⊢
      rw [hpv] at h
      simp only at h
      split at h
      · cases h
      · omega
    have htail : checkNonDecrB (last.set (keyB c).1 (keyB c).2) rest = none := by
      simp only [keyB]
      split at h
      · split at h
        · cases h
        · exact h
      · exact h
    obtain ⟨ihp, ihl⟩ := ih _ htail
    refine ⟨?_, ?_⟩
    · simp only [List.map_cons, pairNonDecr, Bool.and_eq_true, List.all_eq_true]
      refine ⟨?_, ihp⟩
      intro b hb
      by_cases hbt : b.1 = (keyB c).1
      · have := ihl b hb (keyB c).2 (by rw [hbt]; exact Last.set_same ..)
        simp [hbt, this]
      · have : ((keyB c).1 != b.1) = true := by
          simp only [bne_iff_ne, ne_eq]; exact fun e => hbt e.symm
        simp [this]
    · intro k hk pv hpv
      simp only [List.map_cons, List.mem_cons] at hk
      rcases hk with rfl | hk
      · exact hhead pv hpv
      · by_cases hkt : k.1 = (keyB c).1
        · have h1 := ihl k hk (keyB c).2 (by rw [hkt]; exact Last.set_same ..)
          have h2 := hhead pv (by rw [← hkt]; exact hpv)
          omega
        · exact ihl k hk pv (by rw [Last.set_other _ _ hkt]; exact hpv)

theorem filterMap_stepKey_eq_map {steps : List Step} {key : Step → Bool × Int}
    (h : ∀ s ∈ steps, stepKey s = some (key s)) : steps.filterMap stepKey = steps.map key := by
  induction steps with
  | nil => rfl
  | cons s rest ih =>
    rw [List.filterMap_cons, h s (List.mem_cons_self ..)]
    simp only [List.map_cons]
    rw [ih (fun a ha => h a (List.mem_cons_of_mem _ ha))]

theorem stepsKeyed_of {steps : List Step} {key : Step → Bool × Int}
    (h : ∀ s ∈ steps, stepKey s = some (key s)) : stepsKeyed steps = true := by
  simp only [stepsKeyed, List.all_eq_true]
  intro s hs; rw [h s hs]; rfl

/-- `validateRolloutSpecCanarySteps` returns no error ⇒ the step promises -/
theorem validateStepsB_ok {style : Style} {limit : Int} {steps : List Step}
    (h : validateStepsB style limit steps = []) :
    stepsNonEmpty steps = true ∧ steps.all stepReplicasOKB = true ∧ stepsNonDecreasing steps = true ∧
    steps.all (trafficOKB (if style = .blueGreen then 0 else 1)) = true := by
  unfold validateStepsB at h
  split at h
  · cases h
  · rename_i hne
    split at h
    · cases h
    · rename_i hfirst
      split at h
      · cases h
      · rename_i hnd
        have hall := firstErr_none hfirst
        have hk : ∀ s ∈ steps, stepKey s = some (keyB s) :=
          fun s hs => stepKey_of_validB (checkStepB_ok (hall s hs)).1
        refine ⟨?_, ?_, ?_, ?_⟩
        · cases steps with
          | nil => simp at hne
          | cons _ _ => rfl
        · exact List.all_eq_true.mpr fun s hs => (checkStepB_ok (hall s hs)).1
        · simp only [stepsNonDecreasing, Bool.and_eq_true]
          exact ⟨stepsKeyed_of hk, by rw [filterMap_stepKey_eq_map hk]; exact (checkNonDecrB_inv steps _ hnd).1⟩
        · exact List.all_eq_true.mpr fun s hs => (checkStepB_ok (hall s hs)).2


/-! ### traffic routings -/

theorem validateTraffic_ok {t : TR} (h : validateTraffic t = []) : trOK t = true := by
  unfold validateTraffic at h
  simp only [List.append_eq_nil_iff] at h
  obtain ⟨⟨⟨⟨hg, hs⟩, hu⟩, hi⟩, hgw⟩ := h
  have hg' : 0 ≤ t.grace := by
    by_cases c : t.grace < 0
    · rw [if_pos c] at hg; cases hg
    · omega
  have hs' : t.service ≠ "" := by
    intro e
    rw [e] at hs
    simp at hs
  have hu' : (t.ingress.isSome || t.gateway.isSome || t.customRefs.isSome) = true := by
    cases hi' : t.ingress <;> cases hg'' : t.gateway <;> cases hc : t.customRefs <;> simp [hi', hg'', hc] at hu ⊢
  have hi' : (match t.ingress with | some i => i.name != "" | none => true) = true := by
    cases hh : t.ingress with
    | none => rfl
    | some i =>
      simp only [hh] at hi ⊢
      by_cases c : i.name = ""
      · rw [if_pos c] at hi; cases hi
      · simp [c]
  have hgw' : (match t.gateway with | some (some n) => n != "" | some none => false | none => true) = true := by
    cases hh : t.gateway with
    | none => rfl
    | some g =>
      cases g with
      | none => simp [hh] at hgw
      | some n =>
        simp only [hh] at hgw ⊢
        by_cases c : n = ""
        · rw [if_pos c] at hgw; cases hgw
        · simp [c]
  simp only [trOK, Bool.and_eq_true, bne_iff_ne, ne_eq, decide_eq_true_eq]
  exact ⟨⟨⟨⟨hs', hg'⟩, hu'⟩, hi'⟩, hgw'⟩

theorem validateTrafficList_ok {trs : Option (List TR)} (h : validateTrafficList trs = []) :
    trafficRoutingsOK trs = true := by
  unfold validateTrafficList at h
  simp only [List.append_eq_nil_iff, List.flatMap_eq_nil_iff] at h
  obtain ⟨hl, ha⟩ := h
  simp only [trafficRoutingsOK, Bool.and_eq_true, decide_eq_true_eq, List.all_eq_true]
  refine ⟨?_, fun t ht => validateTraffic_ok (ha t ht)⟩
  by_cases c : (trs.getD []).length > 1
  · rw [if_pos c] at hl; cases hl
  · omega

/-! ### workload reference, strategy blocks, context (v1beta1) -/

theorem validateObjectRefB_ok {style : Style} {ref : Ref} (h : validateObjectRefB style ref = []) :
    isSupportedWorkload ref = true ∧ (style = .blueGreen → isBlueGreenWorkload ref = true) := by
  unfold validateObjectRefB at h
  by_cases c1 : ¬ isSupportedWorkload ref = true
  · rw [if_pos c1] at h; cases h
  · rw [if_neg c1] at h
    refine ⟨by simpa using c1, fun hs => ?_⟩
    rw [if_pos hs] at h
    by_cases c2 : isBlueGreenWorkload ref = true
    · exact c2
    · rw [if_neg c2] at h; cases h

theorem rollingStyle_bg {c : Option Strat} {b : Strat} : rollingStyle c (some b) = some .blueGreen := rfl

theorem rollingStyle_canary {c : Strat} :
    rollingStyle (some c) none = some (if c.extra then .canary else .partition) := by
  simp only [rollingStyle]; split <;> rfl

/-- closed form of `GetContextFromv1beta1Rollout`: it never dereferences nil -/
theorem contextB_eq (r : RolloutB) : contextB r = some (
    match r.canary, r.blueGreen with
    | none, none => .none
    | _, some _ => .blueGreen
    | some c, none => if isNativeDeployment r.ref = true ∧ c.extra = true then .canary else .partition) := by
  cases hc : r.canary with
  | none =>
    cases hb : r.blueGreen with
    | none => simp [contextB, hc, hb]
    | some b => simp [contextB, isRealPartition, rollingStyle, hc, hb]
  | some c =>
    cases hb : r.blueGreen with
    | some b => simp [contextB, isRealPartition, rollingStyle, hc, hb]
    | none =>
      cases he : c.extra <;> cases hd : isNativeDeployment r.ref <;>
        simp [contextB, isRealPartition, rollingStyle, hc, hb, he, hd]

/-- … and yields `BlueGreen` exactly when the blue-green block is present -/
theorem contextB_style {r : RolloutB} {st : Style} (h : contextB r = some st) :
    (st = .blueGreen ↔ r.blueGreen.isSome = true) := by
  rw [contextB_eq] at h
  injection h with h
  subst h
  cases r.canary <;> cases r.blueGreen <;> simp
  split <;> simp


theorem validateStrategyB_ok {style : Style} {limit : Int} {r : RolloutB}
    (h : validateStrategyB style limit r = []) :
    (r.canary.isSome != r.blueGreen.isSome) = true ∧
    ∃ s, activeStrat r.canary r.blueGreen = some s ∧ validateStratB style limit s = [] := by
  unfold validateStrategyB at h
  cases hc : r.canary <;> cases hb : r.blueGreen <;> simp only [hc, hb] at h
  · cases h
  · exact ⟨rfl, _, rfl, h⟩
  · exact ⟨rfl, _, rfl, h⟩
  · cases h

/-! ### conflict check -/

theorem validateConflict_ok {store : List Stored} {ns name : String} {ref : Ref}
    (h : validateConflict store ns name (some ref) = []) : noConflict store ns name ref = true := by
  unfold validateConflict at h
  split at h
  · cases h
  · rename_i hf
    rw [List.find?_eq_none] at hf
    simp only [noConflict, List.all_eq_true]
    intro r hr
    by_cases hns : r.ns = ns
    · have := hf r (List.mem_filter.mpr ⟨hr, by simpa using hns⟩)
      simp only [Decidable.not_not, decide_not, Bool.not_eq_true', decide_eq_false_iff_not] at this
      rcases this with hn | hs
      · simp [hn]
      · cases hrr : r.ref with
        | none => simp
        | some rr =>
          simp only [hrr, sameRef, decide_eq_true_eq] at hs
          have : sameWorkload rr ref = false := by
            simp only [sameWorkload, Bool.and_eq_false_iff, decide_eq_false_iff_not]
            by_cases h1 : groupOf rr.apiVersion = groupOf ref.apiVersion
            · by_cases h2 : rr.kind = ref.kind
              · right; intro h3; exact hs ⟨h1, h2, h3⟩
              · left; right; exact h2
            · left; left; exact h1
          simp [this]
    · simp [hns]

/-! ### `validateRollout` (v1beta1) -/

theorem validateB_eq (store : List Stored) (limit : Int) (r : RolloutB) :
    ∃ st, contextB r = some st ∧
      validateB store limit r = some (validateObjectRefB st r.ref ++ validateStrategyB st limit r ++
        validateConflict store r.ns r.name (some r.ref)) := by
  refine ⟨_, contextB_eq r, ?_⟩
  simp [validateB, contextB_eq r]

/-- everything an empty error list of `validateRollout` gives -/
theorem validateB_ok {store : List Stored} {limit : Int} {r : RolloutB}
    (h : validateB store limit r = some []) :
    specOKB r = true ∧ noConflict store r.ns r.name r.ref = true := by
  obtain ⟨st, hst, he⟩ := validateB_eq store limit r
  rw [he] at h
  injection h with h
  simp only [List.append_eq_nil_iff] at h
  obtain ⟨⟨href, hstrat⟩, hconf⟩ := h
  obtain ⟨hsup, hbg⟩ := validateObjectRefB_ok href
  obtain ⟨hone, s, hact, hs⟩ := validateStrategyB_ok hstrat
  simp only [validateStratB, List.append_eq_nil_iff] at hs
  obtain ⟨hsteps, htr⟩ := hs
  obtain ⟨h1, h2, h3, h4⟩ := validateStepsB_ok hsteps
  have hstyle := contextB_style hst
  refine ⟨?_, validateConflict_ok hconf⟩
  have hlo : (if st = Style.blueGreen then (0:Int) else 1) = (if r.blueGreen.isSome = true then 0 else 1) := by
    by_cases c : st = .blueGreen
    · rw [if_pos c, if_pos (hstyle.mp c)]
    · rw [if_neg c, if_neg (fun e => c (hstyle.mpr e))]
  rw [hlo] at h4
  simp only [specOKB, refOKB, stepsOKB, nonDecrOKB, trafficRangeOKB, routingOKB, onStratB, hact,
    Bool.and_eq_true, hsup, hone, h1, h2, h3, h4, validateTrafficList_ok htr, and_true, true_and,
    Bool.or_eq_true, Bool.not_eq_true']
  by_cases c : r.blueGreen.isSome = true
  · right; exact hbg (hstyle.mpr c)
  · left; simpa using c


/-! ### `validateRolloutUpdate` (v1beta1) -/

theorem stratOf_eq_active {c b : Option Strat} (h : ¬ (b.isNone = true ∧ c.isNone = true)) :
    stratOf c b = activeStrat c b ∧ rollingStyle c b = declaredStyle c b ∧
    (activeStrat c b).isSome = true := by
  cases c with
  | none =>
    cases b with
    | none => simp at h
    | some bb => simp [stratOf, rollingStyle, activeStrat, declaredStyle]
  | some cc =>
    cases b with
    | some bb => simp [stratOf, rollingStyle, activeStrat, declaredStyle]
    | none => cases he : cc.extra <;> simp [stratOf, rollingStyle, activeStrat, declaredStyle, he]

theorem latestPhase_of_find {store : List Stored} {ns name : String} {latest : Stored}
    (h : store.find? (fun r => decide (r.ns = ns ∧ r.name = name)) = some latest) :
    progressing store ns name = immutablePhase latest.phase := by
  simp only [progressing, latestPhase, h, Option.map, immutablePhase]

theorem validateUpdateB_ok {store : List Stored} {limit : Int} {old new : RolloutB}
    (h : validateUpdateB store limit old new = some [])
    (hp : progressing store new.ns new.name = true) : unchangedB old new = true := by
  unfold validateUpdateB at h
  split at h
  · cases h
  · rename_i latest hfind
    rw [latestPhase_of_find hfind] at hp
    split at h
    · cases h
    · rename_i errs hv
      by_cases c0 : errs ≠ []
      · rw [if_pos c0] at h; injection h with h; exact absurd h c0
      · rw [if_neg c0] at h
        have hv' : validateB store limit new = some [] := by simpa using (by simpa using c0 : errs = []) ▸ hv
        rw [if_neg (by simpa using hp)] at h
        by_cases c1 : old.ref ≠ new.ref
        · rw [if_pos c1] at h; cases h
        · rw [if_neg c1] at h
          by_cases c2 : (old.blueGreen.isNone = true ∧ old.canary.isNone = true)
          · rw [if_pos c2] at h; cases h
          · rw [if_neg c2] at h
            -- the new object passed validation: it has exactly one strategy block
            have hnew : ¬ (new.blueGreen.isNone = true ∧ new.canary.isNone = true) := by
              have := (validateB_ok hv').1
              simp only [specOKB, refOKB, Bool.and_eq_true] at this
              have hx := this.1.1.1.1.1.2
              intro ⟨hb, hc⟩
              cases hcc : new.canary <;> cases hbb : new.blueGreen <;> simp_all
            obtain ⟨eo1, eo2, eo3⟩ := stratOf_eq_active c2
            obtain ⟨en1, en2, en3⟩ := stratOf_eq_active hnew
            rw [eo1, en1, eo2, en2] at h
            cases hao : activeStrat old.canary old.blueGreen with
            | none => simp [hao] at eo3
            | some os =>
              cases han : activeStrat new.canary new.blueGreen with
              | none => simp [han] at en3
              | some nw =>
                simp only [hao, han] at h
                by_cases c3 : os.trs ≠ nw.trs
                · rw [if_pos c3] at h; cases h
                · rw [if_neg c3] at h
                  cases hso : declaredStyle old.canary old.blueGreen with
                  | none => simp [hso] at h
                  | some ost =>
                    cases hsn : declaredStyle new.canary new.blueGreen with
                    | none => simp [hso, hsn] at h
                    | some nst =>
                      simp only [hso, hsn] at h
                      by_cases c4 : ost ≠ nst
                      · rw [if_pos c4] at h; cases h
                      · rw [if_neg c4] at h
                        by_cases c5 : os.steps.length ≠ nw.steps.length
                        · rw [if_pos c5] at h; cases h
                        · simp only [unchangedB, hao, han, hso, hsn, Bool.and_eq_true, decide_eq_true_eq]
                          exact ⟨by simpa using c1, ⟨by simpa using c3, by simpa using c4⟩, by simpa using c5⟩


/-! ## v1alpha1 -/

/-- key compared by the second loop (v1alpha1) -/
def keyA (s : Step) : Bool × Int := (isPctType s.replicas, (cmpValA s).getD 0)

/-- one step passes the first loop ⇒ its promises; in particular the `*Weight` dereference of the
    second loop is safe (`cmpValA` is defined) -/
theorem checkStepA_ok {c : Option Style} {limit : Int} {s : Step} (h : checkStepA c limit s = some none) :
    stepReplicasOKA s = true ∧ weightOKA s = true ∧ (∃ v, cmpValA s = some v) ∧
    stepKey s = some (keyA s) := by
  unfold checkStepA at h
  cases hr : s.replicas with
  | some r =>
    simp only [hr, Option.isNone_some, Bool.false_eq_true, and_false, if_false] at h
    by_cases c1 : ((scaled r 100 true).2 = true ∨ (scaled r 100 true).1 ≤ 0 ∨
        ((scaled r 100 true).1 > 100 ∧ isPctType (some r) = true))
    · rw [if_pos c1] at h; cases h
    · rw [if_neg c1] at h
      have hv := replicas_ok_of_not_bad c1
      have hw : weightOKA s = true := by
        cases c with
        | none => cases h
        | some style =>
          simp only at h
          split at h
          · cases h
          · unfold weightOKA
            cases hwt : s.weight with
            | none => rfl
            | some w =>
              simp only [hwt] at h ⊢
              by_cases cw : (w ≤ 0 ∨ w > 100)
              · rw [if_pos cw] at h; cases h
              · simp only [decide_eq_true_eq]; omega
      refine ⟨by simp [stepReplicasOKA, hr, hv], hw, ⟨(scaled r 100 true).1, by simp [cmpValA, hr]⟩, ?_⟩
      cases r with
      | bad => simp [replicasValid] at hv
      | int n => simp [stepKey, keyA, cmpValA, hr, isPctType, scaled_int]
      | pct p => simp [stepKey, keyA, cmpValA, hr, isPctType, scaled_pct]
  | none =>
    cases hwt : s.weight with
    | none => simp [hr, hwt] at h
    | some w =>
      simp only [hr, hwt, Option.isNone_some, Bool.false_eq_true, false_and, if_false] at h
      cases c with
      | none => cases h
      | some style =>
        simp only at h
        split at h
        · cases h
        · by_cases cw : (w ≤ 0 ∨ w > 100)
          · rw [if_pos cw] at h; cases h
          · refine ⟨by simp [stepReplicasOKA, hr, hwt], ?_, ⟨w, by simp [cmpValA, hr, hwt]⟩, ?_⟩
            · simp only [weightOKA, hwt, decide_eq_true_eq]; omega
            · simp [stepKey, keyA, cmpValA, hr, hwt, isPctType]

/-- with a context, the body of the first loop does not panic -/
theorem checkStepA_ne_none (style : Style) (limit : Int) (s : Step) :
    checkStepA (some style) limit s ≠ none := by
  unfold checkStepA
  cases hr : s.replicas <;> cases hwt : s.weight <;> simp <;> (repeat' split) <;> simp


theorem checkNonDecrA_inv (isTraffic : Bool) (steps : List Step) : ∀ (prev : Option Step) (last : Last),
    checkNonDecrA isTraffic prev last steps = some none →
    pairNonDecr (steps.map keyA) = true ∧
    ∀ k ∈ steps.map keyA, ∀ pv, last k.1 = some pv → pv ≤ k.2 := by
  induction steps with
  | nil => intro _ last _; exact ⟨rfl, fun k hk => by cases hk⟩
  | cons c rest ih =>
    intro prev last h
    simp only [checkNonDecrA] at h
    by_cases hw : weightDecrA isTraffic prev c = true
    · rw [if_pos hw] at h; cases h
    · rw [if_neg hw] at h
      cases hv : cmpValA c with
      | none => simp [hv] at h
      | some v =>
        simp only [hv] at h
        have hk : keyA c = (isPctType c.replicas, v) := by simp [keyA, hv]
        have hboth : (∀ pv, last (isPctType c.replicas) = some pv → pv ≤ v) ∧
            checkNonDecrA isTraffic (some c) (last.set (isPctType c.replicas) v) rest = some none := by
          cases hl : last (isPctType c.replicas) with
          | none => simp only [hl] at h; exact ⟨fun pv hpv => (nomatch hpv), h⟩
          | some pv0 =>
            simp only [hl] at h
            by_cases hlt : v < pv0
            · rw [if_pos hlt] at h; cases h
            · rw [if_neg hlt] at h
              exact ⟨fun pv hpv => by injection hpv with e; omega, h⟩
        obtain ⟨hhead, htail⟩ := hboth
        obtain ⟨ihp, ihl⟩ := ih _ _ htail
        rw [List.map_cons, hk]
        refine ⟨?_, ?_⟩
        · simp only [pairNonDecr, Bool.and_eq_true, List.all_eq_true]
          refine ⟨?_, ihp⟩
          intro b hb
          by_cases hbt : b.1 = isPctType c.replicas
          · have := ihl b hb v (by rw [hbt]; exact Last.set_same ..)
            simp [hbt, this]
          · have : (isPctType c.replicas != b.1) = true := by
              simp only [bne_iff_ne, ne_eq]; exact fun e => hbt e.symm
            simp [this]
        · intro k hk' pv hpv
          simp only [List.mem_cons] at hk'
          rcases hk' with rfl | hk'
          · exact hhead pv hpv
          · by_cases hkt : k.1 = isPctType c.replicas
            · have h1 := ihl k hk' v (by rw [hkt]; exact Last.set_same ..)
              have h2 := hhead pv (by rw [← hkt]; exact hpv)
              omega
            · exact ihl k hk' pv (by rw [Last.set_other _ _ hkt]; exact hpv)

/-- the second loop does not panic once every step passed the first one -/
theorem checkNonDecrA_ne_none (isTraffic : Bool) (steps : List Step) : ∀ (prev : Option Step) (last : Last),
    (∀ s ∈ steps, ∃ v, cmpValA s = some v) → checkNonDecrA isTraffic prev last steps ≠ none := by
  induction steps with
  | nil => intro _ _ _; simp [checkNonDecrA]
  | cons c rest ih =>
    intro prev last hall
    obtain ⟨v, hv⟩ := hall c (List.mem_cons_self ..)
    have hrest : ∀ s ∈ rest, ∃ v, cmpValA s = some v := fun s hs => hall s (List.mem_cons_of_mem _ hs)
    simp only [checkNonDecrA, hv]
    by_cases hw : weightDecrA isTraffic prev c = true
    · rw [if_pos hw]; simp
    · rw [if_neg hw]
      cases hl : last (isPctType c.replicas) with
      | none => exact ih _ _ hrest
      | some pv0 =>
        simp only
        by_cases hlt : v < pv0
        · rw [if_pos hlt]; simp
        · rw [if_neg hlt]; exact ih _ _ hrest

/-- `validateV1alpha1RolloutSpecCanarySteps` with a context: never panics … -/
theorem validateStepsA_ne_none (style : Style) (limit : Int) (steps : List Step) (isTraffic : Bool) :
    validateStepsA (some style) limit steps isTraffic ≠ none := by
  unfold validateStepsA
  split
  · simp
  · split
    · rename_i hf
      exact absurd hf (firstErrP_ne_none fun a _ => checkStepA_ne_none style limit a)
    · simp
    · rename_i hf
      have hall := firstErrP_ok hf
      split
      · rename_i hn
        exact absurd hn (checkNonDecrA_ne_none _ _ _ _ fun s hs => (checkStepA_ok (hall s hs)).2.2.1)
      · simp
      · simp

/-- … and an empty error list gives the step promises -/
theorem validateStepsA_ok {c : Option Style} {limit : Int} {steps : List Step} {isTraffic : Bool}
    (h : validateStepsA c limit steps isTraffic = some []) :
    stepsNonEmpty steps = true ∧ steps.all stepReplicasOKA = true ∧ stepsNonDecreasing steps = true ∧
    steps.all weightOKA = true := by
  unfold validateStepsA at h
  split at h
  · cases h
  · rename_i hne
    split at h
    · cases h
    · cases h
    · rename_i hfirst
      split at h
      · cases h
      · cases h
      · rename_i hnd
        have hall := firstErrP_ok hfirst
        have hk : ∀ s ∈ steps, stepKey s = some (keyA s) := fun s hs => (checkStepA_ok (hall s hs)).2.2.2
        refine ⟨?_, ?_, ?_, ?_⟩
        · cases steps with
          | nil => simp at hne
          | cons _ _ => rfl
        · exact List.all_eq_true.mpr fun s hs => (checkStepA_ok (hall s hs)).1
        · simp only [stepsNonDecreasing, Bool.and_eq_true]
          exact ⟨stepsKeyed_of hk, by rw [filterMap_stepKey_eq_map hk]; exact (checkNonDecrA_inv _ steps _ _ hnd).1⟩
        · exact List.all_eq_true.mpr fun s hs => (checkStepA_ok (hall s hs)).2.1


/-- `GetContextFromv1alpha1Rollout` does not dereference nil, and the context is nil only when
    there is no canary block -/
theorem contextA_some (r : RolloutA) :
    ∃ c, contextA r = some c ∧ (r.canary.isSome = true → ∃ st, c = some st) := by
  unfold contextA
  cases hc : r.canary with
  | none => exact ⟨none, rfl, fun h => by cases h⟩
  | some cn =>
    simp only
    split
    · cases hr : r.ref with
      | none => exact ⟨_, rfl, fun _ => ⟨_, rfl⟩⟩
      | some ref =>
        simp only
        split <;> exact ⟨_, rfl, fun _ => ⟨_, rfl⟩⟩
    · exact ⟨_, rfl, fun _ => ⟨_, rfl⟩⟩

theorem validateObjectRefA_ok {ref : Option Ref} (h : validateObjectRefA ref = []) :
    ∃ r, ref = some r ∧ isSupportedWorkload r = true := by
  unfold validateObjectRefA at h
  cases ref with
  | none => cases h
  | some r =>
    refine ⟨r, rfl, ?_⟩
    simp only at h
    by_cases c : ¬ isSupportedWorkload r = true
    · rw [if_pos c] at h; cases h
    · simpa using c

/-- `validateV1alpha1Rollout` never panics -/
theorem validateA_ne_none (store : List Stored) (limit : Int) (r : RolloutA) :
    validateA store limit r ≠ none := by
  obtain ⟨c, hc, hcs⟩ := contextA_some r
  unfold validateA
  rw [hc]
  simp only
  have : validateStrategyA c limit r.canary ≠ none := by
    unfold validateStrategyA
    cases hcn : r.canary with
    | none => simp
    | some cn =>
      obtain ⟨st, rfl⟩ := hcs (by simp [hcn])
      simp only
      have := validateStepsA_ne_none st limit cn.steps (decide ((cn.trs.getD []).length > 0))
      split
      · rename_i hn; exact absurd hn this
      · simp
  split
  · rename_i hn; exact absurd hn this
  · simp

/-- everything an empty error list of `validateV1alpha1Rollout` gives -/
theorem validateA_ok {store : List Stored} {limit : Int} {r : RolloutA}
    (h : validateA store limit r = some []) :
    specOKA r = true ∧ ∃ ref, r.ref = some ref ∧ noConflict store r.ns r.name ref = true := by
  unfold validateA at h
  split at h
  · cases h
  · rename_i c hc
    split at h
    · cases h
    · rename_i se hse
      injection h with h
      simp only [List.append_eq_nil_iff] at h
      obtain ⟨⟨⟨href, _⟩, hse0⟩, hconf⟩ := h
      subst hse0
      obtain ⟨ref, hr, hsup⟩ := validateObjectRefA_ok href
      unfold validateStrategyA at hse
      cases hcn : r.canary with
      | none => simp [hcn] at hse
      | some cn =>
        simp only [hcn] at hse
        split at hse
        · cases hse
        · rename_i se' hsteps
          injection hse with hse
          simp only [List.append_eq_nil_iff] at hse
          obtain ⟨hse', htr⟩ := hse
          subst hse'
          obtain ⟨h1, h2, h3, h4⟩ := validateStepsA_ok hsteps
          refine ⟨?_, ref, hr, ?_⟩
          · simp [specOKA, refOKA, stepsOKA, nonDecrOKA, trafficRangeOKA, routingOKA, onStratA, hcn, hr,
              hsup, h1, h2, h3, h4, validateTrafficList_ok htr]
          · rw [hr] at hconf; exact validateConflict_ok hconf

theorem validateUpdateA_ok {store : List Stored} {limit : Int} {old new : RolloutA}
    (h : validateUpdateA store limit old new = some [])
    (hp : progressing store new.ns new.name = true) : unchangedA old new = true := by
  unfold validateUpdateA at h
  split at h
  · cases h
  · rename_i latest hfind
    rw [latestPhase_of_find hfind] at hp
    split at h
    · cases h
    · rename_i errs hv
      by_cases c0 : errs ≠ []
      · rw [if_pos c0] at h; injection h with h; exact absurd h c0
      · rw [if_neg c0] at h
        rw [if_neg (by simpa using hp)] at h
        by_cases c1 : old.ref ≠ new.ref
        · rw [if_pos c1] at h; cases h
        · rw [if_neg c1] at h
          cases hoc : old.canary with
          | none => simp [hoc] at h
          | some oc =>
            cases hnc : new.canary with
            | none => simp [hoc, hnc] at h
            | some nc =>
              simp only [hoc, hnc] at h
              by_cases c3 : oc.trs ≠ nc.trs
              · rw [if_pos c3] at h; cases h
              · rw [if_neg c3] at h
                by_cases c4 : lower old.anno ≠ lower new.anno
                · rw [if_pos c4] at h; cases h
                · rw [if_neg c4] at h
                  by_cases c5 : oc.steps.length ≠ nc.steps.length
                  · rw [if_pos c5] at h; cases h
                  · simp only [unchangedA, hoc, hnc, Bool.and_eq_true, decide_eq_true_eq]
                    exact ⟨⟨by simpa using c1, by simpa using c4⟩, by simpa using c3, by simpa using c5⟩

/-! ### no panic in the update paths -/

theorem validateUpdateA_ne_none (store : List Stored) (limit : Int) (old new : RolloutA) :
    validateUpdateA store limit old new ≠ none := by
  unfold validateUpdateA
  split
  · simp
  · split
    · rename_i hn; exact absurd hn (validateA_ne_none _ _ _)
    · rename_i errs hv
      by_cases c0 : errs ≠ []
      · rw [if_pos c0]; simp
      · rw [if_neg c0]
        have hv' : validateA store limit new = some [] := by
          have : errs = [] := by simpa using c0
          rw [this] at hv; exact hv
        have hspec := (validateA_ok hv').1
        split
        · simp
        · split
          · simp
          · cases old.canary with
            | none => simp
            | some oc =>
              cases hnc : new.canary with
              | none => simp [specOKA, stepsOKA, onStratA, hnc] at hspec
              | some nc => simp only; (repeat' split) <;> simp

theorem validateB_ne_none (store : List Stored) (limit : Int) (r : RolloutB) :
    validateB store limit r ≠ none := by
  obtain ⟨st, _, he⟩ := validateB_eq store limit r
  rw [he]; simp

theorem validateUpdateB_ne_none (store : List Stored) (limit : Int) (old new : RolloutB) :
    validateUpdateB store limit old new ≠ none := by
  unfold validateUpdateB
  split
  · simp
  · split
    · rename_i hn; exact absurd hn (validateB_ne_none _ _ _)
    · rename_i errs hv
      by_cases c0 : errs ≠ []
      · rw [if_pos c0]; simp
      · rw [if_neg c0]
        have hv' : validateB store limit new = some [] := by
          have : errs = [] := by simpa using c0
          rw [this] at hv; exact hv
        split
        · simp
        · split
          · simp
          · by_cases c2 : (old.blueGreen.isNone = true ∧ old.canary.isNone = true)
            · rw [if_pos c2]; simp
            · rw [if_neg c2]
              have hnew : ¬ (new.blueGreen.isNone = true ∧ new.canary.isNone = true) := by
                have := (validateB_ok hv').1
                simp only [specOKB, refOKB, Bool.and_eq_true] at this
                have hx := this.1.1.1.1.1.2
                intro ⟨hb, hc⟩
                cases hcc : new.canary <;> cases hbb : new.blueGreen <;> simp_all
              obtain ⟨eo1, eo2, eo3⟩ := stratOf_eq_active c2
              obtain ⟨en1, en2, en3⟩ := stratOf_eq_active hnew
              rw [eo1, en1, eo2, en2]
              cases hao : activeStrat old.canary old.blueGreen with
              | none => simp [hao] at eo3
              | some os =>
                cases han : activeStrat new.canary new.blueGreen with
                | none => simp [han] at en3
                | some nw =>
                  have ho : ∃ x, declaredStyle old.canary old.blueGreen = some x := by
                    cases hc : old.canary <;> cases hb : old.blueGreen <;> simp_all [declaredStyle]
                  have hn : ∃ x, declaredStyle new.canary new.blueGreen = some x := by
                    cases hc : new.canary <;> cases hb : new.blueGreen <;> simp_all [declaredStyle]
                  obtain ⟨x, hx⟩ := ho
                  obtain ⟨y, hy⟩ := hn
                  simp only [hx, hy]
                  (repeat' split) <;> simp


/-! ### `Handle` -/

theorem handleB_allowed {store : List Stored} {limit : Int} {op : Op} {obj : RolloutB}
    {old : Option RolloutB} (hop : op ≠ .other) (h : handleB store limit op obj old = .allowed) :
    validateB store limit obj = some [] := by
  cases op with
  | other => exact absurd rfl hop
  | create =>
    simp only [handleB, respond] at h
    split at h <;> first | assumption | cases h
  | update =>
    simp only [handleB, respond] at h
    split at h <;> first | assumption | cases h

theorem handleA_allowed {store : List Stored} {limit : Int} {op : Op} {obj : RolloutA}
    {old : Option RolloutA} (hop : op ≠ .other) (h : handleA store limit op obj old = .allowed) :
    validateA store limit obj = some [] := by
  cases op with
  | other => exact absurd rfl hop
  | create =>
    simp only [handleA, respond] at h
    split at h <;> first | assumption | cases h
  | update =>
    simp only [handleA, respond] at h
    split at h <;> first | assumption | cases h

end RV.Validate
