/-
  Label `ro` on a rolling rollout (consistent workload): the traffic part of the invariant is preserved.
-/
import RV.Lemmas.ClosedLoopTrafficDefs
import RV.Lemmas.ClosedLoopTrafficArith
import RV.Lemmas.ClosedLoopGate
namespace RV.Lemmas.ClosedLoopTraffic
open RV.Arith RV.Traffic RV.RolloutSM RV.ClosedLoop RV.Oracle.ClosedLoop RV.Oracle.ClosedLoopTraffic RV.Lemmas.ClosedLoop

/-! ### the Manager calls on the network (pure unfolding) -/

theorem roll_rss_net (t : TCtx) (n : Net) (m : Mem) :
    ((restoreStableService t n m).net = n ∨ (restoreStableService t n m).net = { n with stableSel := none }) ∧
    (restoreStableService t n m).err = false ∧
    (t.hasRef = true → n.stableExists = true → t.hasRevKey = true → (restoreStableService t n m).net.stableSel.getD "" = "") := by
  unfold restoreStableService
  by_cases h1 : t.hasRef = true
  · by_cases h2 : n.stableExists = true
    · simp only [h1, h2, not_true_eq_false, if_false]
      cases hk : t.hasRevKey
      · simp
      · by_cases h3 : n.stableSel.getD "" = ""
        · simp [h3]
        · simp [h3]
    · simp [h1, h2]
  · simp [h1]

theorem roll_rgw_net (t : TCtx) (n : Net) (m : Mem) :
    ((restoreGateway t n m).net = n ∨ (restoreGateway t n m).net = { n with canaryIng := none }) ∧
    (restoreGateway t n m).err = false ∧
    (t.hasRef = true → (restoreGateway t n m).net.canaryIng = none) := by
  unfold restoreGateway finaliseGw
  by_cases h1 : t.hasRef = true
  · cases hc : n.canaryIng <;> simp [h1]
  · simp [h1]

theorem roll_rcs_net (t : TCtx) (n : Net) (m : Mem) :
    ((removeCanaryService t n m).net = n ∨ (removeCanaryService t n m).net = { n with canarySvc := none }) ∧
    (removeCanaryService t n m).err = false := by
  unfold removeCanaryService
  by_cases h1 : t.hasRef = true
  · by_cases h2 : t.disableGen = true
    · simp [h1, h2]
    · simp [h1, h2]
  · simp [h1]

theorem roll_pss_net (t : TCtx) (n : Net) (m : Mem) :
    ((patchStableService t n m).net = n ∨
      (t.hasRef = true ∧ t.disableGen = false ∧ (patchStableService t n m).net = { n with stableSel := selOf t.stableRev })) ∧
    ((patchStableService t n m).err = true → t.hasRef = true ∧ n.stableExists = false) ∧
    (t.hasRef = true → t.disableGen = false → n.stableExists = true →
      (patchStableService t n m).net.stableSel.getD "" = t.stableRev) := by
  unfold patchStableService
  by_cases h1 : t.hasRef = true
  · by_cases h2 : t.disableGen = true
    · simp [h1, h2]
    · by_cases h3 : n.stableExists = true
      · by_cases h4 : n.stableSel.getD "" = t.stableRev
        · simp [h1, h2, h3, h4]
        · simp [h1, h2, h3, h4]
          unfold selOf; split <;> simp_all
      · simp [h1, h2, h3]
  · simp [h1]

theorem roll_svcStep (t : TCtx) (n n2 : Net) (ws : List String) (h : svcStep t n = some (n2, ws)) :
    n2.stableExists = n.stableExists ∧ n2.stableIngress = n.stableIngress ∧ n2.canaryIng = n.canaryIng ∧
    ((t.disableGen = true ∧ n2 = n) ∨
     (t.disableGen = false ∧ t.stableRev ≠ "" ∧ t.canaryRev ≠ "" ∧ n2.canarySvc = some t.canaryRev ∧
       n2.stableSel.getD "" = t.stableRev ∧ (n2.stableSel = n.stableSel ∨ n2.stableSel = some t.stableRev))) := by
  unfold svcStep at h
  split at h
  · rename_i hd
    simp only [Option.some.injEq, Prod.mk.injEq] at h
    obtain ⟨h1, _⟩ := h
    subst h1
    exact ⟨rfl, rfl, rfl, Or.inl ⟨hd, rfl⟩⟩
  · rename_i hd
    split at h
    · cases h
    · rename_i hrev
      dsimp only at h
      simp only [Option.some.injEq, Prod.mk.injEq] at h
      obtain ⟨h1, _⟩ := h
      subst h1
      have hd' : t.disableGen = false := by simpa using hd
      have hs : t.stableRev ≠ "" := fun hh => hrev (Or.inl hh)
      have hcr : t.canaryRev ≠ "" := fun hh => hrev (Or.inr hh)
      refine ⟨?_, ?_, ?_, Or.inr ⟨hd', hs, hcr, ?_, ?_, ?_⟩⟩
      all_goals (cases hcs : n.canarySvc <;> dsimp only <;> repeat' split) <;> simp_all

theorem roll_routeStep (n : Net) (m : Mem) (w : Nat) :
    ((routeStep n m w).net = n ∨ ∃ x, (routeStep n m w).net = { n with canaryIng := x }) ∧
    ((routeStep n m w).err = true → n.stableIngress = false) := by
  unfold routeStep ensureRoutes
  cases hc : n.canaryIng with
  | none =>
    dsimp only
    by_cases hw : w = 0
    · simp [hw]
    · by_cases hi : n.stableIngress = true
      · simp [hw, hi]
      · simp [hw, hi]
  | some x =>
    dsimp only
    by_cases hx : x = w
    · simp [hx]
    · simp [hx]

theorem roll_dtr_net (t : TCtx) (n : Net) (m : Mem) :
    ((doTrafficRouting t n m).net = n ∧ (doTrafficRouting t n m).err = false) ∨
    (t.hasRef = true ∧ ∃ n2 ws, svcStep t n = some (n2, ws) ∧ (doTrafficRouting t n m).net = n2 ∧
      (doTrafficRouting t n m).err = false) ∨
    (t.hasRef = true ∧ (∃ x, (doTrafficRouting t n m).net = { n with canaryIng := x }) ∧
      (t.disableGen = false → n.canarySvc = some t.canaryRev ∧ n.stableSel = some t.stableRev) ∧
      ((doTrafficRouting t n m).err = true → n.stableIngress = false)) := by
  unfold doTrafficRouting
  split
  · exact Or.inl ⟨rfl, rfl⟩
  · rename_i href
    have href' : t.hasRef = true := by simpa using href
    split
    · exact Or.inl ⟨rfl, rfl⟩
    · split
      · exact Or.inl ⟨rfl, rfl⟩
      · split
        · exact Or.inl ⟨rfl, rfl⟩
        · split
          · exact Or.inl ⟨rfl, rfl⟩
          · rename_i n2 ws hsv
            split
            · exact Or.inr (Or.inl ⟨href', n2, ws, hsv, rfl, rfl⟩)
            · rename_i hws
              have hws' : ws = [] := by simpa using hws
              subst hws'
              obtain ⟨hn, hsel⟩ := RV.Props.Traffic.svcStep_nowrite t n n2 hsv
              obtain ⟨r1, r2⟩ := roll_routeStep n m ‹Nat›
              refine Or.inr (Or.inr ⟨href', ?_, hsel, r2⟩)
              rcases r1 with r1 | ⟨x, r1⟩
              · exact ⟨n.canaryIng, by rw [r1]⟩
              · exact ⟨x, r1⟩

/-! ### the rolling part of the traffic invariant on what it reads -/

/-- `effIdx` on what it reads: sub-state, step index, batch partition of the BatchRelease (if any) -/
def roll_eff (st : StepState) (cur : Int) (bp : Option (Option Int)) : Int :=
  if st = .init then
    (match bp with
     | some (some p) => if cur ≤ p + 1 then cur else cur - 1
     | _ => cur - 1)
  else cur

theorem roll_effIdx_eq (s : CS) (sub : Sub) : effIdx s sub = roll_eff sub.state sub.curIdx (s.br.map (·.partition)) := by
  unfold effIdx roll_eff
  cases hb : s.br with
  | none => rfl
  | some b =>
    cases hp : b.partition with
    | none => simp only [Option.map_some, hp]
    | some p => simp only [Option.map_some, hp]

theorem roll_eff_le (st : StepState) (cur : Int) (bp : Option (Option Int)) : roll_eff st cur bp ≤ cur := by
  unfold roll_eff
  split
  · split
    · split <;> omega
    · omega
  · omega

theorem roll_eff_ge (st : StepState) (cur : Int) (bp : Option (Option Int)) : cur - 1 ≤ roll_eff st cur bp := by
  unfold roll_eff
  split
  · split
    · split <;> omega
    · omega
  · omega

theorem roll_eff_ninit (st : StepState) (cur : Int) (bp : Option (Option Int)) (h : st ≠ .init) : roll_eff st cur bp = cur := by
  unfold roll_eff
  rw [if_neg h]

/-- what the lemmas assume about the rollout and the workload size -/
structure RollEnv (ro : Rollout) (R : Int) : Prop where
  canary : ro.style = .canary
  real : ro.realPartition = true
  pos : 0 < R
  mono : planMono R (planOf ro) = true

theorem roll_fullAt_steps (ro ro' : Rollout) (R j : Int) (h : ro'.steps = ro.steps) : fullAt ro' R j = fullAt ro R j := by
  unfold fullAt stepAt
  rw [h]

theorem roll_fullAt_step (ro : Rollout) (R cur : Int) (step : Step) (hlo : 1 ≤ cur)
    (hstep : ro.steps[(cur - 1).toNat]? = some step) : fullAt ro R cur = decide (scaledV step.replicas R true ≥ R) := by
  unfold fullAt stepAt
  rw [if_neg (by omega), hstep]

theorem roll_notfull_down (ro : Rollout) (R : Int) (env : RollEnv ro R) (i j : Int) (hij : i ≤ j) (hj : j ≤ ro.steps.length)
    (h : fullAt ro R j = false) : fullAt ro R i = false := by
  cases hi : fullAt ro R i with
  | false => rfl
  | true => rw [fullAt_mono ro R env.pos env.mono i j hij hj hi] at h; cases h

/-- the rolling part of `trPhase` (`netCore … true`, `brSome`, `firstPin`, `trState`) and the cursor order of `linkOK`, as
    propositions over what they read: rollout, workload size, revision being released, `stableAlive`, sub-state, step index,
    recorded stable revision and pod-template hash, batch partition of the BatchRelease, network -/
structure RollP (ro : Rollout) (R : Int) (rev : String) (alive : Prop) (st : StepState) (cur : Int) (srev ph : String)
    (bp : Option (Option Int)) (n : Net) : Prop where
  t2 : fullAt ro R (roll_eff st cur bp) = true ∨ alive
  pin : ∀ r, n.stableSel = some r → r = srev ∧ r ≠ "" ∧ fullAt ro R (roll_eff st cur bp) = false ∧ ro.hasTraffic = true ∧
    ro.disableGen = false
  svc : ∀ r, n.canarySvc = some r → r = rev ∧ ro.hasTraffic = true ∧ ro.disableGen = false
  ing : ∀ x, n.canaryIng = some x → ro.hasTraffic = true ∧ (ro.disableGen = true ∨ n.canarySvc.isSome = true)
  hash : ph = "" ∨ ph = rev
  base : ro.hasTraffic = true → n.stableExists = true ∧ n.stableIngress = true
  brSome : (RV.Oracle.RolloutSM.podsReady st = true ∨ 2 ≤ cur) → bp.isSome = true
  firstPin : firstStepPins ro R = true → cur = 1 → (st ≠ .init ∨ bp.isSome = true) → n.stableSel.getD "" = srev
  trState : st = .trafficRouting → fullAt ro R cur = false
  link : ∀ p, bp = some (some p) → p ≤ cur - 1
  lo : 1 ≤ cur
  hi : cur ≤ ro.steps.length

/-- a change of the network only -/
theorem RollP.net {ro : Rollout} {R : Int} {rev : String} {alive : Prop} {st : StepState} {cur : Int} {srev ph : String}
    {bp : Option (Option Int)} {n : Net} (h : RollP ro R rev alive st cur srev ph bp n) (n' : Net)
    (hse : n'.stableExists = n.stableExists) (hsi : n'.stableIngress = n.stableIngress)
    (hpin : ∀ r, n'.stableSel = some r → n.stableSel = some r ∨
      (r = srev ∧ r ≠ "" ∧ fullAt ro R (roll_eff st cur bp) = false ∧ ro.hasTraffic = true ∧ ro.disableGen = false))
    (hsvc : ∀ r, n'.canarySvc = some r → n.canarySvc = some r ∨ (r = rev ∧ ro.hasTraffic = true ∧ ro.disableGen = false))
    (hing : ∀ x, n'.canaryIng = some x → ro.hasTraffic = true ∧ (ro.disableGen = true ∨ n'.canarySvc.isSome = true))
    (hfp : firstStepPins ro R = true → cur = 1 → n.stableSel.getD "" = srev → n'.stableSel.getD "" = srev) :
    RollP ro R rev alive st cur srev ph bp n' := by
  refine ⟨h.t2, ?_, ?_, hing, h.hash, ?_, h.brSome, ?_, h.trState, h.link, h.lo, h.hi⟩
  · intro r hr
    rcases hpin r hr with h1 | h1
    · exact h.pin r h1
    · exact h1
  · intro r hr
    rcases hsvc r hr with h1 | h1
    · exact h.svc r h1
    · exact h1
  · intro ht; rw [hse, hsi]; exact h.base ht
  · intro h1 h2 h3
    exact hfp h1 h2 (h.firstPin h1 h2 h3)

/-- a change of the sub-status / the BatchRelease only -/
theorem RollP.move {ro : Rollout} {R : Int} {rev : String} {alive : Prop} {st : StepState} {cur : Int} {srev ph : String}
    {bp : Option (Option Int)} {n : Net} (h : RollP ro R rev alive st cur srev ph bp n) (env : RollEnv ro R)
    (st' : StepState) (cur' : Int) (ph' : String) (bp' : Option (Option Int))
    (hcur : cur ≤ cur') (hhi : cur' ≤ ro.steps.length)
    (he : roll_eff st cur bp ≤ roll_eff st' cur' bp')
    (hpin : n.stableSel ≠ none → roll_eff st' cur' bp' = roll_eff st cur bp ∨ fullAt ro R (roll_eff st' cur' bp') = false)
    (hhash : ph' = "" ∨ ph' = rev)
    (hbr : (RV.Oracle.RolloutSM.podsReady st' = true ∨ 2 ≤ cur') → bp'.isSome = true)
    (hfp : firstStepPins ro R = true → cur' = 1 → (st' ≠ .init ∨ bp'.isSome = true) → n.stableSel.getD "" = srev)
    (htr : st' = .trafficRouting → fullAt ro R cur' = false)
    (hlink : ∀ p, bp' = some (some p) → p ≤ cur' - 1) :
    RollP ro R rev alive st' cur' srev ph' bp' n := by
  have hle := roll_eff_le st' cur' bp'
  have hlo := h.lo
  refine ⟨?_, ?_, h.svc, h.ing, hhash, h.base, hbr, hfp, htr, hlink, by omega, hhi⟩
  · rcases h.t2 with h2 | h2
    · exact Or.inl (fullAt_mono ro R env.pos env.mono _ _ he (by omega) h2)
    · exact Or.inr h2
  · intro r hr
    obtain ⟨p1, p2, p3, p4, p5⟩ := h.pin r hr
    refine ⟨p1, p2, ?_, p4, p5⟩
    rcases hpin (by rw [hr]; simp) with h1 | h1
    · rw [h1]; exact p3
    · exact h1

/-! ### the Manager calls preserve the rolling facts -/

/-- the Manager context of a call made for this rollout / sub-status by a controller that could read the workload -/
structure RollT (ro : Rollout) (srev ph : String) (t : TCtx) : Prop where
  ref : t.hasRef = ro.hasTraffic
  gen : t.disableGen = ro.disableGen
  srev : t.stableRev = srev
  crev : t.canaryRev = ph
  key : t.hasRevKey = true

section calls
variable {ro : Rollout} {R : Int} {rev : String} {alive : Prop} {st : StepState} {cur : Int} {srev ph : String}
  {bp : Option (Option Int)} {n : Net}

theorem RollP.unpinned (h : RollP ro R rev alive st cur srev ph bp n) (hnt : ro.hasTraffic = false) : n.stableSel = none := by
  cases hs : n.stableSel with
  | none => rfl
  | some r =>
    obtain ⟨_, _, _, p4, _⟩ := h.pin r hs
    rw [hnt] at p4; cases p4

theorem RollP.unpin (h : RollP ro R rev alive st cur srev ph bp n) (hnf : firstStepPins ro R = true → cur ≠ 1) :
    RollP ro R rev alive st cur srev ph bp { n with stableSel := none } := by
  refine h.net _ rfl rfl (fun r hr => by cases hr) (fun r hr => Or.inl hr) h.ing (fun h1 h2 _ => absurd h2 (hnf h1))

theorem RollP.noIng (h : RollP ro R rev alive st cur srev ph bp n) :
    RollP ro R rev alive st cur srev ph bp { n with canaryIng := none } := by
  refine h.net _ rfl rfl (fun r hr => Or.inl hr) (fun r hr => Or.inl hr) (fun x hx => by cases hx) (fun _ _ h3 => h3)

theorem RollP.noSvc (h : RollP ro R rev alive st cur srev ph bp n) (hi : n.canaryIng = none) :
    RollP ro R rev alive st cur srev ph bp { n with canarySvc := none } := by
  refine h.net _ rfl rfl (fun r hr => Or.inl hr) (fun r hr => by cases hr) (fun x hx => ?_) (fun _ _ h3 => h3)
  have hx' : n.canaryIng = some x := hx
  rw [hi] at hx'; cases hx'

theorem roll_rss_P (h : RollP ro R rev alive st cur srev ph bp n) (t : TCtx) (m : Mem) (ht : RollT ro srev ph t)
    (hnf : firstStepPins ro R = true → cur ≠ 1) :
    RollP ro R rev alive st cur srev ph bp (restoreStableService t n m).net ∧
    (restoreStableService t n m).net.stableSel = none ∧ (restoreStableService t n m).net.canaryIng = n.canaryIng := by
  obtain ⟨hn, _, hk⟩ := roll_rss_net t n m
  rcases hn with hn | hn
  · rw [hn]
    refine ⟨h, ?_, rfl⟩
    cases htr : ro.hasTraffic with
    | false => exact h.unpinned htr
    | true =>
      have := hk (ht.ref.trans htr) (h.base htr).1 ht.key
      rw [hn] at this
      cases hs : n.stableSel with
      | none => rfl
      | some r =>
        obtain ⟨_, p2, _⟩ := h.pin r hs
        rw [hs] at this
        exact absurd this p2
  · rw [hn]
    exact ⟨h.unpin hnf, rfl, rfl⟩

theorem roll_rgw_P (h : RollP ro R rev alive st cur srev ph bp n) (t : TCtx) (m : Mem) (ht : RollT ro srev ph t) :
    RollP ro R rev alive st cur srev ph bp (restoreGateway t n m).net ∧
    (restoreGateway t n m).net.canaryIng = none ∧ (restoreGateway t n m).net.stableSel = n.stableSel := by
  obtain ⟨hn, _, hk⟩ := roll_rgw_net t n m
  rcases hn with hn | hn
  · rw [hn]
    refine ⟨h, ?_, rfl⟩
    cases htr : ro.hasTraffic with
    | false =>
      cases hi : n.canaryIng with
      | none => rfl
      | some x => have := (h.ing x hi).1; rw [htr] at this; cases this
    | true =>
      have := hk (ht.ref.trans htr)
      rw [hn] at this; exact this
  · rw [hn]
    exact ⟨h.noIng, rfl, rfl⟩

theorem roll_rcs_P (h : RollP ro R rev alive st cur srev ph bp n) (t : TCtx) (m : Mem) (hi : n.canaryIng = none) :
    RollP ro R rev alive st cur srev ph bp (removeCanaryService t n m).net ∧
    (removeCanaryService t n m).net.stableSel = n.stableSel := by
  obtain ⟨hn, _⟩ := roll_rcs_net t n m
  rcases hn with hn | hn
  · rw [hn]; exact ⟨h, rfl⟩
  · rw [hn]; exact ⟨h.noSvc hi, rfl⟩

theorem roll_fin_P (h : RollP ro R rev alive st cur srev ph bp n) (t : TCtx) (m : Mem) (ht : RollT ro srev ph t)
    (hnf : firstStepPins ro R = true → cur ≠ 1) :
    RollP ro R rev alive st cur srev ph bp (finalisingTrafficRouting t n m).net ∧
    (finalisingTrafficRouting t n m).err = false ∧ (finalisingTrafficRouting t n m).net.stableSel = none := by
  unfold finalisingTrafficRouting
  split
  · rename_i href
    have : ro.hasTraffic = false := by rw [← ht.ref]; simpa using href
    exact ⟨h, rfl, h.unpinned this⟩
  · simp only []
    obtain ⟨a1, a2, _⟩ := roll_rss_P h t m ht hnf
    have e1 := (roll_rss_net t n m).2.1
    generalize restoreStableService t n m = r1 at a1 a2 e1 ⊢
    obtain ⟨b1, b2, b3⟩ := roll_rgw_P a1 t r1.mem ht
    have e2 := (roll_rgw_net t r1.net r1.mem).2.1
    generalize restoreGateway t r1.net r1.mem = r2 at b1 b2 b3 e2 ⊢
    obtain ⟨c1, c3⟩ := roll_rcs_P b1 t r2.mem b2
    have e3 := (roll_rcs_net t r2.net r2.mem).2
    generalize removeCanaryService t r2.net r2.mem = r3 at c1 c3 e3 ⊢
    split
    · exact ⟨a1, e1, a2⟩
    · split
      · exact ⟨b1, e2, b3.trans a2⟩
      · split
        · exact ⟨c1, e3, c3.trans (b3.trans a2)⟩
        · exact ⟨c1, rfl, c3.trans (b3.trans a2)⟩

theorem roll_selOf (r x : String) (h : selOf r = some x) : x = r ∧ x ≠ "" := by
  unfold selOf at h
  split at h
  · cases h
  · rename_i hne
    cases h; exact ⟨rfl, hne⟩

theorem roll_pss_P (h : RollP ro R rev alive st cur srev ph bp n) (env : RollEnv ro R) (t : TCtx) (m : Mem)
    (ht : RollT ro srev ph t) (hnfull : fullAt ro R cur = false) (hgen : ro.disableGen = false) :
    RollP ro R rev alive st cur srev ph bp (patchStableService t n m).net ∧
    (patchStableService t n m).err = false ∧
    (ro.hasTraffic = true → (patchStableService t n m).net.stableSel.getD "" = srev) := by
  obtain ⟨hn, he, hk⟩ := roll_pss_net t n m
  have herr : (patchStableService t n m).err = false := by
    cases hh : (patchStableService t n m).err with
    | false => rfl
    | true =>
      obtain ⟨x1, x2⟩ := he hh
      have := (h.base (ht.ref.symm.trans x1)).1
      rw [x2] at this; cases this
  have hsel : ro.hasTraffic = true → (patchStableService t n m).net.stableSel.getD "" = srev := by
    intro htr
    rw [← ht.srev]
    exact hk (ht.ref.trans htr) (ht.gen.trans hgen) (h.base htr).1
  refine ⟨?_, herr, hsel⟩
  rcases hn with hn | ⟨x1, x2, hn⟩
  · rw [hn]; exact h
  · have htr : ro.hasTraffic = true := ht.ref.symm.trans x1
    have hsel' := hsel htr
    rw [hn] at hsel' ⊢
    refine h.net _ rfl rfl (fun r hr => Or.inr ?_) (fun r hr => Or.inl hr) h.ing (fun _ _ _ => hsel')
    have hr' : selOf t.stableRev = some r := hr
    obtain ⟨y1, y2⟩ := roll_selOf _ _ hr'
    refine ⟨y1.trans ht.srev, y2, ?_, htr, hgen⟩
    exact roll_notfull_down ro R env _ cur (roll_eff_le st cur bp) h.hi hnfull

theorem roll_dtr_P (h : RollP ro R rev alive st cur srev ph bp n) (t : TCtx) (m : Mem)
    (ht : RollT ro srev ph t) (hst : st = .trafficRouting) (hph : ph = rev) :
    RollP ro R rev alive st cur srev ph bp (doTrafficRouting t n m).net ∧ (doTrafficRouting t n m).err = false := by
  have heff : roll_eff st cur bp = cur := roll_eff_ninit st cur bp (by rw [hst]; decide)
  rcases roll_dtr_net t n m with ⟨hn, he⟩ | ⟨href, n2, ws, hsv, hn, he⟩ | ⟨href, ⟨x, hn⟩, hsel, he⟩
  · rw [hn]; exact ⟨h, he⟩
  · have htr : ro.hasTraffic = true := ht.ref.symm.trans href
    rw [hn]
    refine ⟨?_, he⟩
    obtain ⟨s1, s2, s3, s4⟩ := roll_svcStep t n n2 ws hsv
    rcases s4 with ⟨_, s4⟩ | ⟨g1, g2, g3, g4, g5, g6⟩
    · rw [s4]; exact h
    · have hgen : ro.disableGen = false := ht.gen.symm.trans g1
      refine h.net n2 s1 s2 (fun r hr => ?_) (fun r hr => Or.inr ?_) (fun x hx => ?_) (fun _ _ _ => by rw [g5, ht.srev])
      · rcases g6 with g6 | g6
        · left; rw [← g6]; exact hr
        · right
          rw [g6] at hr
          cases hr
          refine ⟨ht.srev, g2, ?_, htr, hgen⟩
          rw [heff]; exact h.trState hst
      · rw [g4] at hr; cases hr
        exact ⟨ht.crev.trans hph, htr, hgen⟩
      · refine ⟨htr, Or.inr ?_⟩
        rw [g4]; rfl
  · have htr : ro.hasTraffic = true := ht.ref.symm.trans href
    have herr : (doTrafficRouting t n m).err = false := by
      cases hh : (doTrafficRouting t n m).err with
      | false => rfl
      | true => have := (h.base htr).2; rw [he hh] at this; cases this
    rw [hn]
    refine ⟨?_, herr⟩
    refine h.net _ rfl rfl (fun r hr => Or.inl hr) (fun r hr => Or.inl hr) (fun y _ => ⟨htr, ?_⟩) (fun _ _ h3 => h3)
    cases hg : ro.disableGen with
    | true => exact Or.inl rfl
    | false =>
      right
      have := (hsel (ht.gen.trans hg)).1
      show n.canarySvc.isSome = true
      rw [this]; rfl

end calls

/-! ### the rolling facts on a release-manager context -/

/-- the rolling facts on the context of one release-manager round (`alive` stands for `stableAlive`, which no Rollout
    reconcile changes) -/
structure RollC (ro : Rollout) (wl : WL) (sr : String) (alive : Prop) (c : Ctx) : Prop where
  roEq : c.ro = ro
  wlEq : c.wl = wl
  seen : c.wlSeen = true
  srEq : c.sub.stableRev = sr
  p : RollP ro wl.replicas wl.podTemplateHash alive c.sub.state c.sub.curIdx c.sub.stableRev c.sub.podHash
    (c.br.map (·.partition)) c.net

/-- what a Manager call made through `callTM` reads and returns -/
theorem roll_callTM (f : TCtx → Net → Mem → TOut) (c c' : Ctx) (cb d e : Bool) (h : callTM f c cb = some (c', d, e)) :
    ∃ t : TCtx, t.hasRef = c.ro.hasTraffic ∧ t.disableGen = c.ro.disableGen ∧ t.stableRev = c.sub.stableRev ∧
      t.canaryRev = c.sub.podHash ∧ t.hasRevKey = c.wlSeen ∧ c'.net = (f t c.net c.mem).net ∧
      (f t c.net c.mem).done = d ∧ (f t c.net c.mem).err = e ∧ KeepLU c c' := by
  have hk := callTM_keepLU f c c' cb d e h
  unfold callTM at h
  split at h
  · cases h
  · rename_i t0 ht0
    simp only [Option.some.injEq, Prod.mk.injEq] at h
    obtain ⟨hc, hd, he⟩ := h
    refine ⟨{ t0 with hasRevKey := c.wlSeen }, ?_, ?_, ?_, ?_, rfl, by rw [← hc], hd, he, hk⟩
    all_goals
      unfold trCtx at ht0
      split at ht0
      · cases ht0
      · simp only [Option.some.injEq] at ht0
        rw [← ht0]

section ctx
variable {ro : Rollout} {wl : WL} {sr : String} {alive : Prop}

theorem RollC.requeue {c : Ctx} (h : RollC ro wl sr alive c) (q : Bool) : RollC ro wl sr alive { c with requeue := q } :=
  ⟨h.roEq, h.wlEq, h.seen, h.srEq, h.p⟩

theorem RollC.rollT {c : Ctx} (h : RollC ro wl sr alive c) (t : TCtx) (h1 : t.hasRef = c.ro.hasTraffic)
    (h2 : t.disableGen = c.ro.disableGen) (h3 : t.stableRev = c.sub.stableRev) (h4 : t.canaryRev = c.sub.podHash)
    (h5 : t.hasRevKey = c.wlSeen) : RollT ro c.sub.stableRev c.sub.podHash t :=
  ⟨by rw [h1, h.roEq], by rw [h2, h.roEq], h3, h4, h5.trans h.seen⟩

/-- after a Manager call: the facts on the new network carry over to the returned context -/
theorem RollC.ofCall {c c' : Ctx} (h : RollC ro wl sr alive c) (hk : KeepLU c c')
    (hp : RollP ro wl.replicas wl.podTemplateHash alive c.sub.state c.sub.curIdx c.sub.stableRev c.sub.podHash
      (c.br.map (·.partition)) c'.net) : RollC ro wl sr alive c' := by
  obtain ⟨k1, k2, k3, k4, _, _⟩ := hk.sub.facts
  refine ⟨hk.ro.trans h.roEq, hk.wl.trans h.wlEq, hk.seen.trans h.seen, k3.trans h.srEq, ?_⟩
  rw [k1, k2, k3, k4, hk.br]
  exact hp

/-- the first step configures traffic: it carries a weight, is not full, and the Services are generated -/
theorem roll_firstStep (ro : Rollout) (R cur : Int) (step : Step) (hf : firstStepPins ro R = true) (hc : cur = 1)
    (hstep : ro.steps[(cur - 1).toNat]? = some step) :
    stepHasTraffic step = true ∧ fullAt ro R cur = false ∧ ro.hasTraffic = true ∧ ro.disableGen = false := by
  subst hc
  unfold firstStepPins at hf
  simp only [Bool.and_eq_true, Bool.not_eq_true'] at hf
  obtain ⟨⟨⟨h1, h2⟩, h3⟩, h4⟩ := hf
  refine ⟨?_, h4, h1, h2⟩
  unfold weightOf stepAt at h3
  rw [if_neg (by omega), hstep] at h3
  exact h3

theorem roll_preStep {c2 c3 : Ctx} (h : RollC ro wl sr alive c2) (step : Step) (d e : Bool)
    (hstep : ro.steps[(c2.sub.curIdx - 1).toNat]? = some step) (hpre : preStep step c2 = some (c3, d, e)) :
    RollC ro wl sr alive c3 ∧ e = false ∧ (stepHasTraffic step = false → c3.net.stableSel = none) ∧ KeepLU c2 c3 := by
  unfold preStep at hpre
  split at hpre
  · rename_i hnt
    obtain ⟨t, t1, t2, t3, t4, t5, hn, _, he, hk⟩ := roll_callTM _ _ _ _ _ _ hpre
    have ht := h.rollT t t1 t2 t3 t4 t5
    have hnf : firstStepPins ro wl.replicas = true → c2.sub.curIdx ≠ 1 := by
      intro hf hc
      exact hnt (roll_firstStep ro _ _ step hf hc hstep).1
    obtain ⟨a1, a2, a3⟩ := roll_fin_P h.p t c2.mem ht hnf
    rw [← hn] at a1 a3
    exact ⟨h.ofCall hk a1, he.symm.trans a2, fun _ => a3, hk⟩
  · rename_i ht
    simp only [Option.some.injEq, Prod.mk.injEq] at hpre
    obtain ⟨hc, _, he⟩ := hpre
    subst hc
    exact ⟨h, he.symm, fun hh => absurd hh (by simpa using ht), KeepLU.refl _⟩

/-! ### `StepUpgrade` -/

theorem roll_rbr_part (ro : Rollout) (br : Option BR) (id : String) (idx : Int) (rb : Bool) :
    ((runBatchRelease ro br id idx rb).2.1).map (·.partition) = some (some (idx - 1)) := by
  unfold runBatchRelease
  cases br with
  | none => rfl
  | some b =>
    dsimp only
    split
    · rename_i hs
      unfold brSpecEq desiredBR at hs
      simp only [Bool.and_eq_true, beq_iff_eq] at hs
      simp only [Option.map_some, hs.1.1.1.1.2]
    · rfl

theorem roll_dcu_part (ro : Rollout) (s : Sub) (wl : WL) (br : Option BR) :
    ((doCanaryUpgrade ro s wl br).2.1).map (·.partition) = some (some (s.curIdx - 1)) := by
  rw [doCanaryUpgrade_br]
  exact roll_rbr_part _ _ _ _ _

/-- the BatchRelease is written for the current step outside `BeforeStepUpgrade`; the sub-state may move on to a
    sub-state other than `BeforeStepUpgrade` (`StepTrafficRouting` only if the step is not full) -/
theorem RollP.upgrade {R : Int} {rev : String} {st : StepState} {cur : Int} {srev ph : String} {bp : Option (Option Int)} {n : Net}
    (h : RollP ro R rev alive st cur srev ph bp n) (hst : st ≠ .init) (st' : StepState) (hst' : st' ≠ .init)
    (htr : st' = .trafficRouting → fullAt ro R cur = false) (ph' : String) (hhash : ph' = "" ∨ ph' = rev)
    (env : RollEnv ro R) : RollP ro R rev alive st' cur srev ph' (some (some (cur - 1))) n := by
  have e1 := roll_eff_ninit st cur bp hst
  have e2 := roll_eff_ninit st' cur (some (some (cur - 1))) hst'
  refine h.move env st' cur ph' _ (Int.le_refl _) h.hi (by rw [e1, e2]; exact Int.le_refl _) (fun _ => Or.inl (by rw [e1, e2]))
    hhash (fun _ => rfl) (fun h1 h2 _ => h.firstPin h1 h2 (Or.inl hst)) htr (fun p hp => ?_)
  simp only [Option.some.injEq] at hp
  omega

theorem roll_upgradeStep {c c' : Ctx} (h : RollC ro wl sr alive c) (env : RollEnv ro wl.replicas) (step : Step) (err : Bool)
    (hst : c.sub.state = .upgrade) (hstep : ro.steps[(c.sub.curIdx - 1).toNat]? = some step)
    (hu : upgradeStep ro step c = .ok c' err) : RollC ro wl sr alive c' ∧ err = false := by
  have hp := h.p
  rw [hst] at hp
  have hpart := roll_dcu_part ro c.sub c.wl c.br
  have hfa := roll_fullAt_step ro wl.replicas c.sub.curIdx step hp.lo hstep
  unfold upgradeStep at hu
  dsimp only at hu
  split at hu
  · simp only [RunOut.ok.injEq] at hu
    obtain ⟨hc, he⟩ := hu
    subst hc
    refine ⟨⟨h.roEq, h.wlEq, h.seen, h.srEq, ?_⟩, he.symm⟩
    dsimp only
    rw [hpart]
    refine hp.upgrade (by decide) _ ?_ ?_ _ (Or.inr (by rw [h.wlEq])) env
    · split <;> decide
    · intro htr
      rw [hfa]
      split at htr
      · cases htr
      · rename_i hn
        rw [h.wlEq] at hn
        simpa [env.canary, env.real] using hn
  · simp only [RunOut.ok.injEq] at hu
    obtain ⟨hc, he⟩ := hu
    subst hc
    refine ⟨⟨h.roEq, h.wlEq, h.seen, h.srEq, ?_⟩, he.symm⟩
    dsimp only
    rw [hpart, hst]
    exact hp.upgrade (by decide) _ (by decide) (fun hh => by cases hh) _ hp.hash env

end ctx

/-! ### `BeforeStepUpgrade` -/

section ctx2
variable {ro : Rollout} {wl : WL} {sr : String} {alive : Prop}

/-- leaving `BeforeStepUpgrade`: a full step only with the stable Service un-pinned, the first step of a rollout that
    configures traffic only with the stable Service pinned -/
theorem roll_enter {c : Ctx} (h : RollC ro wl sr alive c) (env : RollEnv ro wl.replicas) (hst : c.sub.state = .init) (c' : Ctx)
    (hro : c'.ro = c.ro) (hwl : c'.wl = c.wl) (hseen : c'.wlSeen = c.wlSeen) (hbr : c'.br = c.br) (hnet : c'.net = c.net)
    (hs : c'.sub.state = .upgrade) (hcur : c'.sub.curIdx = c.sub.curIdx) (hsrev : c'.sub.stableRev = c.sub.stableRev)
    (hph : c'.sub.podHash = c.sub.podHash)
    (hfull : fullAt ro wl.replicas c.sub.curIdx = true → c.net.stableSel = none)
    (hfirst : firstStepPins ro wl.replicas = true → c.sub.curIdx = 1 → c.net.stableSel.getD "" = c.sub.stableRev) :
    RollC ro wl sr alive c' := by
  refine ⟨hro.trans h.roEq, hwl.trans h.wlEq, hseen.trans h.seen, hsrev.trans h.srEq, ?_⟩
  rw [hs, hcur, hsrev, hph, hbr, hnet]
  have hp := h.p
  rw [hst] at hp
  have e2 := roll_eff_ninit .upgrade c.sub.curIdx (c.br.map (·.partition)) (by decide)
  refine hp.move env .upgrade _ _ _ (Int.le_refl _) hp.hi (by rw [e2]; exact roll_eff_le _ _ _) (fun hne => ?_) hp.hash
    (fun hh => ?_) (fun h1 h2 _ => hfirst h1 h2) (fun hh => by cases hh) hp.link
  · rw [e2]
    cases hf : fullAt ro wl.replicas c.sub.curIdx with
    | false => exact Or.inr rfl
    | true => exact absurd (hfull hf) hne
  · rcases hh with hh | hh
    · exact absurd hh (by decide)
    · exact hp.brSome (Or.inr hh)

/-- `afterRetryCall` with the error flag it returns -/
theorem roll_afterRetry (r : Option (Ctx × Bool × Bool)) (k : Ctx → RunOut) (c' : Ctx) (err : Bool)
    (h : afterRetryCall r k = .ok c' err) :
    ∃ c1 rt e, r = some (c1, rt, e) ∧
      ((e = true ∧ c' = c1 ∧ err = true) ∨ (e = false ∧ rt = true ∧ c' = { c1 with requeue := true } ∧ err = false) ∨
       (e = false ∧ rt = false ∧ k c1 = .ok c' err)) := by
  unfold afterRetryCall at h
  split at h
  · cases h
  · rename_i c1 rt e
    refine ⟨c1, rt, e, rfl, ?_⟩
    split at h
    · rename_i he
      simp only [RunOut.ok.injEq] at h
      exact Or.inl ⟨he, h.1.symm, h.2.symm⟩
    · rename_i he
      split at h
      · rename_i hr
        simp only [RunOut.ok.injEq] at h
        exact Or.inr (Or.inl ⟨by simpa using he, hr, h.1.symm, h.2.symm⟩)
      · rename_i hr
        exact Or.inr (Or.inr ⟨by simpa using he, by simpa using hr, h⟩)

/-- the first Manager call of `BeforeStepUpgrade` (weighted step): a full step un-pins the stable Service -/
theorem roll_init_call1 {c c1 : Ctx} (h : RollC ro wl sr alive c) (step : Step)
    (hstep : ro.steps[(c.sub.curIdx - 1).toNat]? = some step) (full : Prop) [Decidable full]
    (hiff : full ↔ fullAt ro wl.replicas c.sub.curIdx = true) (rt e : Bool)
    (hr : (if full then callTM restoreStableService c else some (c, false, false)) = some (c1, rt, e)) :
    RollC ro wl sr alive c1 ∧ e = false ∧ KeepLU c c1 ∧
    (fullAt ro wl.replicas c.sub.curIdx = true → c1.net.stableSel = none) := by
  split at hr
  · rename_i hfull
    obtain ⟨t, t1, t2, t3, t4, t5, hn, _, he, hk⟩ := roll_callTM _ _ _ _ _ _ hr
    have ht := h.rollT t t1 t2 t3 t4 t5
    have hnf : firstStepPins ro wl.replicas = true → c.sub.curIdx ≠ 1 := by
      intro hf hc
      have := (roll_firstStep ro _ _ step hf hc hstep).2.1
      rw [hiff.1 hfull] at this
      cases this
    obtain ⟨a1, a2, _⟩ := roll_rss_P h.p t c.mem ht hnf
    rw [← hn] at a1 a2
    exact ⟨h.ofCall hk a1, he.symm.trans (roll_rss_net t c.net c.mem).2.1, hk, fun _ => a2⟩
  · rename_i hnfull
    simp only [Option.some.injEq, Prod.mk.injEq] at hr
    obtain ⟨hc, _, he⟩ := hr
    subst hc
    exact ⟨h, he.symm, KeepLU.refl _, fun hf => absurd (hiff.2 hf) hnfull⟩

/-- the second Manager call of `BeforeStepUpgrade` (weighted step): the first step, if not full, pins the stable Service -/
theorem roll_init_call2 {c1 c2 : Ctx} (h : RollC ro wl sr alive c1) (env : RollEnv ro wl.replicas) (step : Step)
    (hstep : ro.steps[(c1.sub.curIdx - 1).toNat]? = some step) (full : Prop) [Decidable full]
    (hiff : full ↔ fullAt ro wl.replicas c1.sub.curIdx = true)
    (hfull1 : fullAt ro wl.replicas c1.sub.curIdx = true → c1.net.stableSel = none) (rt e : Bool)
    (hr : (if c1.sub.curIdx = 1 ∧ ¬ full ∧ ¬ ro.disableGen = true then callTM patchStableService c1 else some (c1, false, false))
      = some (c2, rt, e)) :
    RollC ro wl sr alive c2 ∧ e = false ∧ KeepLU c1 c2 ∧
    (fullAt ro wl.replicas c1.sub.curIdx = true → c2.net.stableSel = none) ∧
    (firstStepPins ro wl.replicas = true → c1.sub.curIdx = 1 → c2.net.stableSel.getD "" = c1.sub.stableRev) := by
  split at hr
  · rename_i hcond
    obtain ⟨_, hnfull, hngen⟩ := hcond
    have hnf : fullAt ro wl.replicas c1.sub.curIdx = false := by
      cases hf : fullAt ro wl.replicas c1.sub.curIdx with
      | false => rfl
      | true => exact absurd (hiff.2 hf) hnfull
    have hgen : ro.disableGen = false := by simpa using hngen
    obtain ⟨t, t1, t2, t3, t4, t5, hn, _, he, hk⟩ := roll_callTM _ _ _ _ _ _ hr
    have ht := h.rollT t t1 t2 t3 t4 t5
    obtain ⟨a1, a2, a3⟩ := roll_pss_P h.p env t c1.mem ht hnf hgen
    rw [← hn] at a1 a3
    refine ⟨h.ofCall hk a1, he.symm.trans a2, hk, fun hf => ?_, fun hf hc => ?_⟩
    · rw [hnf] at hf; cases hf
    · exact a3 (roll_firstStep ro _ _ step hf hc hstep).2.2.1
  · rename_i hncond
    simp only [Option.some.injEq, Prod.mk.injEq] at hr
    obtain ⟨hc, _, he⟩ := hr
    subst hc
    refine ⟨h, he.symm, KeepLU.refl _, hfull1, fun hf hc => ?_⟩
    exfalso
    obtain ⟨_, f2, _, f4⟩ := roll_firstStep ro _ _ step hf hc hstep
    apply hncond
    refine ⟨hc, fun hfull => ?_, by rw [f4]; simp⟩
    rw [hiff.1 hfull] at f2
    cases f2

/-- `enterUpgrade`: switch to `StepUpgrade` and run it in the same round -/
theorem roll_enterUpgrade {c c' : Ctx} (h : RollC ro wl sr alive c) (env : RollEnv ro wl.replicas) (step : Step) (err : Bool)
    (hst : c.sub.state = .init) (hstep : ro.steps[(c.sub.curIdx - 1).toNat]? = some step)
    (hfull : fullAt ro wl.replicas c.sub.curIdx = true → c.net.stableSel = none)
    (hfirst : firstStepPins ro wl.replicas = true → c.sub.curIdx = 1 → c.net.stableSel.getD "" = c.sub.stableRev)
    (hu : upgradeStep ro step { c with sub := { c.sub with state := .upgrade, lastUpdate := .fresh } } = .ok c' err) :
    RollC ro wl sr alive c' ∧ err = false := by
  have h' := roll_enter h env hst { c with sub := { c.sub with state := .upgrade, lastUpdate := .fresh } }
    rfl rfl rfl rfl rfl rfl rfl rfl rfl hfull hfirst
  exact roll_upgradeStep h' env step err rfl hstep hu

theorem roll_initStep {c c' : Ctx} (h : RollC ro wl sr alive c) (env : RollEnv ro wl.replicas) (step : Step) (err : Bool)
    (hst : c.sub.state = .init) (hstep : ro.steps[(c.sub.curIdx - 1).toNat]? = some step)
    (hun : stepHasTraffic step = false → c.net.stableSel = none) (hi : initStep ro step c = .ok c' err) :
    RollC ro wl sr alive c' ∧ err = false := by
  have hfa := roll_fullAt_step ro wl.replicas c.sub.curIdx step h.p.lo hstep
  have hiff : (scaledV step.replicas c.wl.replicas true ≥ c.wl.replicas ∧ ro.realPartition = true) ↔
      fullAt ro wl.replicas c.sub.curIdx = true := by
    rw [hfa, h.wlEq, decide_eq_true_eq]
    exact ⟨fun hh => hh.1, fun hh => ⟨hh, env.real⟩⟩
  unfold initStep at hi
  dsimp only at hi
  rw [if_pos env.canary] at hi
  split at hi
  · rename_i hnt
    have hnt' : stepHasTraffic step = false := by simpa using hnt
    simp only [RunOut.ok.injEq] at hi
    obtain ⟨hc, he⟩ := hi
    subst hc
    refine ⟨roll_enter h env hst _ rfl rfl rfl rfl rfl rfl rfl rfl rfl (fun _ => hun hnt') (fun h1 h2 => ?_), he.symm⟩
    have := (roll_firstStep ro _ _ step h1 h2 hstep).1
    rw [hnt'] at this; cases this
  · obtain ⟨c1, rt, e, hr1, hcase⟩ := roll_afterRetry _ _ _ _ hi
    obtain ⟨a1, a2, a3, a4⟩ := roll_init_call1 h step hstep _ hiff rt e hr1
    obtain ⟨k1, k2, k3, _, _, _⟩ := a3.sub.facts
    rcases hcase with ⟨he, _, _⟩ | ⟨_, _, hc, he⟩ | ⟨_, _, hcont⟩
    · rw [a2] at he; cases he
    · rw [hc]; exact ⟨a1.requeue true, he⟩
    · obtain ⟨c2, rt2, e2, hr2, hcase2⟩ := roll_afterRetry _ _ _ _ hcont
      have hstep1 : ro.steps[(c1.sub.curIdx - 1).toNat]? = some step := by rw [k1]; exact hstep
      have hiff1 : (scaledV step.replicas c.wl.replicas true ≥ c.wl.replicas ∧ ro.realPartition = true) ↔
          fullAt ro wl.replicas c1.sub.curIdx = true := by rw [k1]; exact hiff
      obtain ⟨b1, b2, b3, b4, b5⟩ := roll_init_call2 a1 env step hstep1 _ hiff1 (by rw [k1]; exact a4) rt2 e2 hr2
      obtain ⟨j1, j2, j3, _, _, _⟩ := b3.sub.facts
      rcases hcase2 with ⟨he, _, _⟩ | ⟨_, _, hc, he⟩ | ⟨_, _, hcont2⟩
      · rw [b2] at he; cases he
      · rw [hc]; exact ⟨b1.requeue true, he⟩
      · refine roll_enterUpgrade b1 env step err (j2.trans (k2.trans hst)) (by rw [j1]; exact hstep1)
          (by rw [j1]; exact b4) (by rw [j1, j3]; exact b5) hcont2

/-! ### the other sub-states -/

/-- a move between sub-states past `StepUpgrade` of the same step (not into `StepTrafficRouting`) -/
theorem roll_post {c : Ctx} (h : RollC ro wl sr alive c) (env : RollEnv ro wl.replicas)
    (hrd : RV.Oracle.RolloutSM.podsReady c.sub.state = true) (c' : Ctx)
    (hro : c'.ro = c.ro) (hwl : c'.wl = c.wl) (hseen : c'.wlSeen = c.wlSeen) (hbr : c'.br = c.br) (hnet : c'.net = c.net)
    (hcur : c'.sub.curIdx = c.sub.curIdx) (hsrev : c'.sub.stableRev = c.sub.stableRev) (hph : c'.sub.podHash = c.sub.podHash)
    (hs1 : c'.sub.state ≠ .init) (hs2 : c'.sub.state ≠ .trafficRouting) : RollC ro wl sr alive c' := by
  refine ⟨hro.trans h.roEq, hwl.trans h.wlEq, hseen.trans h.seen, hsrev.trans h.srEq, ?_⟩
  rw [hcur, hsrev, hph, hbr, hnet]
  have hp := h.p
  have hni : c.sub.state ≠ .init := by intro hh; rw [hh] at hrd; exact absurd hrd (by decide)
  have e1 := roll_eff_ninit c.sub.state c.sub.curIdx (c.br.map (·.partition)) hni
  have e2 := roll_eff_ninit c'.sub.state c.sub.curIdx (c.br.map (·.partition)) hs1
  exact hp.move env _ _ _ _ (Int.le_refl _) hp.hi (by rw [e1, e2]; exact Int.le_refl _) (fun _ => Or.inl (by rw [e1, e2]))
    hp.hash (fun _ => hp.brSome (Or.inl hrd)) (fun h1 h2 _ => hp.firstPin h1 h2 (Or.inl hni)) (fun hh => absurd hh hs2) hp.link

/-- `StepReady` of a step that is not the last: on to `BeforeStepUpgrade` of the next step -/
theorem roll_next {c : Ctx} (h : RollC ro wl sr alive c) (env : RollEnv ro wl.replicas) (hst : c.sub.state = .ready)
    (hlt : c.sub.curIdx < ro.steps.length) (c' : Ctx)
    (hro : c'.ro = c.ro) (hwl : c'.wl = c.wl) (hseen : c'.wlSeen = c.wlSeen) (hbr : c'.br = c.br) (hnet : c'.net = c.net)
    (hcur : c'.sub.curIdx = c.sub.curIdx + 1) (hsrev : c'.sub.stableRev = c.sub.stableRev) (hph : c'.sub.podHash = c.sub.podHash)
    (hs : c'.sub.state = .init) : RollC ro wl sr alive c' := by
  refine ⟨hro.trans h.roEq, hwl.trans h.wlEq, hseen.trans h.seen, hsrev.trans h.srEq, ?_⟩
  rw [hcur, hsrev, hph, hbr, hnet, hs]
  have hp := h.p
  rw [hst] at hp
  have hlo := hp.lo
  have e1 := roll_eff_ninit .ready c.sub.curIdx (c.br.map (·.partition)) (by decide)
  have e2 : roll_eff .init (c.sub.curIdx + 1) (c.br.map (·.partition)) = c.sub.curIdx := by
    unfold roll_eff
    rw [if_pos rfl]
    split
    · rename_i p hbp
      have := hp.link p hbp
      rw [if_neg (by omega)]; omega
    · omega
  refine hp.move env _ _ _ _ (by omega) (by omega) (by rw [e1, e2]; exact Int.le_refl _) (fun _ => Or.inl (by rw [e1, e2]))
    hp.hash (fun _ => hp.brSome (Or.inl (by decide))) (fun _ h2 _ => by omega) (fun hh => by cases hh) (fun p hbp => ?_)
  have := hp.link p hbp
  omega

theorem roll_stateStep {c c' : Ctx} (h : RollC ro wl sr alive c) (env : RollEnv ro wl.replicas) (step : Step) (err : Bool)
    (hstep : ro.steps[(c.sub.curIdx - 1).toNat]? = some step)
    (hun : stepHasTraffic step = false → c.net.stableSel = none) (hph : c.sub.podHash = wl.podTemplateHash)
    (hs : stateStep ro step c = .ok c' err) : RollC ro wl sr alive c' ∧ err = false := by
  unfold stateStep at hs
  cases hst : c.sub.state <;> simp only [hst] at hs
  case init => exact roll_initStep h env step err hst hstep hun hs
  case upgrade => exact roll_upgradeStep h env step err hst hstep hs
  case trafficRouting =>
    split at hs
    · cases hs
    · rename_i c4 done e hcall
      obtain ⟨t, t1, t2, t3, t4, t5, hn, _, he, hk⟩ := roll_callTM _ _ _ _ _ _ hcall
      have ht := h.rollT t t1 t2 t3 t4 t5
      obtain ⟨a1, a2⟩ := roll_dtr_P h.p t c.mem ht hst hph
      rw [← hn] at a1
      have h4 := h.ofCall hk a1
      have he' : e = false := he.symm.trans a2
      subst he'
      obtain ⟨k1, k2, k3, k4, _, _⟩ := hk.sub.facts
      rw [if_neg (by simp)] at hs
      split at hs
      · simp only [RunOut.ok.injEq] at hs
        obtain ⟨hc, her⟩ := hs
        subst hc
        refine ⟨roll_post h4 env (by rw [k2, hst]; decide) _ rfl rfl rfl rfl rfl rfl rfl rfl (by intro hh; cases hh) (by intro hh; cases hh), her.symm⟩
      · simp only [RunOut.ok.injEq] at hs
        obtain ⟨hc, her⟩ := hs
        subst hc
        exact ⟨h4.requeue true, her.symm⟩
  case metricsAnalysis =>
    simp only [RunOut.ok.injEq] at hs
    obtain ⟨hc, her⟩ := hs
    subst hc
    exact ⟨roll_post h env (by rw [hst]; decide) _ rfl rfl rfl rfl rfl rfl rfl rfl (by intro hh; cases hh) (by intro hh; cases hh), her.symm⟩
  case paused =>
    split at hs
    · cases hs
    · simp only [RunOut.ok.injEq] at hs
      obtain ⟨hc, her⟩ := hs
      subst hc
      exact ⟨roll_post h env (by rw [hst]; decide) _ rfl rfl rfl rfl rfl rfl rfl rfl (by intro hh; cases hh) (by intro hh; cases hh), her.symm⟩
    · simp only [RunOut.ok.injEq] at hs
      obtain ⟨hc, her⟩ := hs
      subst hc
      exact ⟨h.requeue _, her.symm⟩
  case ready =>
    split at hs
    · rename_i hlt
      simp only [RunOut.ok.injEq] at hs
      obtain ⟨hc, her⟩ := hs
      subst hc
      exact ⟨roll_next h env hst (by omega) _ rfl rfl rfl rfl rfl rfl rfl rfl rfl, her.symm⟩
    · simp only [RunOut.ok.injEq] at hs
      obtain ⟨hc, her⟩ := hs
      subst hc
      exact ⟨roll_post h env (by rw [hst]; decide) _ rfl rfl rfl rfl rfl rfl rfl rfl (by intro hh; cases hh) (by intro hh; cases hh), her.symm⟩
  case completed =>
    simp only [RunOut.ok.injEq] at hs
    obtain ⟨hc, her⟩ := hs
    subst hc
    exact ⟨h, her.symm⟩
  case other =>
    simp only [RunOut.ok.injEq] at hs
    obtain ⟨hc, her⟩ := hs
    subst hc
    exact ⟨h, her.symm⟩

end ctx2

/-! ### one round of the release manager -/

section run
variable {ro : Rollout} {wl : WL} {sr : String} {alive : Prop}

theorem roll_brSync_part (a b : Option BR) (h : BrSync a b) : b.map (·.partition) = a.map (·.partition) := by
  cases h with
  | same => rfl
  | patched b id => rfl

theorem roll_syncStep {c : Ctx} (h : RollC ro wl sr alive c) :
    RollC ro wl sr alive (syncStep c) ∧ (syncStep c).sub.podHash = wl.podTemplateHash := by
  obtain ⟨z1, z2, _, z4⟩ := syncStep_eq c
  obtain ⟨y1, y2, _, y4⟩ := syncStep_keep c
  have hbp := roll_brSync_part _ _ y4
  have hst : (syncStep c).sub.state = c.sub.state := by rw [z1]; split <;> rfl
  have hcur : (syncStep c).sub.curIdx = c.sub.curIdx := by rw [z1]; split <;> rfl
  have hsrev : (syncStep c).sub.stableRev = c.sub.stableRev := by rw [z1]; split <;> rfl
  have hp := h.p
  have hph : (syncStep c).sub.podHash = wl.podTemplateHash := by
    rw [z1]
    split
    · exact congrArg WL.podTemplateHash h.wlEq
    · rename_i hne
      rcases hp.hash with hh | hh
      · exact absurd hh hne
      · exact hh
  refine ⟨⟨y1.trans h.roEq, y2.trans h.wlEq, z4.trans h.seen, hsrev.trans h.srEq, ?_⟩, hph⟩
  rw [hst, hcur, hsrev, hbp, z2]
  exact ⟨hp.t2, hp.pin, hp.svc, hp.ing, Or.inr hph, hp.base, hp.brSome, hp.firstPin, hp.trState, hp.link, hp.lo, hp.hi⟩

/-- **one round of the release manager on a rolling rollout** (no jump request) keeps the rolling facts and reports no error -/
theorem roll_runCanary {c0 c' : Ctx} (h : RollC ro wl sr alive c0) (env : RollEnv ro wl.replicas) (err : Bool) (rev : String)
    (hg : SubGood c0.ro c0.sub rev) (hrc : runCanary c0 = .ok c' err) : RollC ro wl sr alive c' ∧ err = false := by
  have hro := h.roEq
  subst hro
  obtain ⟨hs1, hph1⟩ := roll_syncStep h
  obtain ⟨y1, y2, _, _, _⟩ := RV.Props.Rollout.syncStep_sub c0
  unfold runCanary at hrc
  dsimp only at hrc
  split at hrc
  · cases hrc
  · rename_i s2 hj
    exfalso
    obtain ⟨_, hjs⟩ := RV.Props.Rollout.jump_spec _ _ _ _ hj
    obtain ⟨j1, _⟩ := hjs rfl
    apply j1
    rw [y2, y1]; exact hg.next
  · rename_i s2 hj
    obtain ⟨hsame, _⟩ := RV.Props.Rollout.jump_spec _ _ _ _ hj
    have hs2 : s2 = (syncStep c0).sub := hsame rfl
    subst hs2
    split at hrc
    · cases hrc
    · rename_i step hstep
      split at hrc
      · cases hrc
      · rename_i c3 done e hpre
        have hs1' : RollC c0.ro wl sr alive { syncStep c0 with sub := (syncStep c0).sub } := ⟨hs1.roEq, hs1.wlEq, hs1.seen, hs1.srEq, hs1.p⟩
        obtain ⟨a1, a2, a3, a4⟩ := roll_preStep hs1' step done e hstep hpre
        obtain ⟨k1, _, _, k4, _, _⟩ := a4.sub.facts
        subst a2
        rw [if_neg (by simp)] at hrc
        split at hrc
        · simp only [RunOut.ok.injEq] at hrc
          obtain ⟨hc, he⟩ := hrc
          subst hc
          exact ⟨a1.requeue true, he.symm⟩
        · exact roll_stateStep a1 env step err (by rw [k1]; exact hstep) a3 (k4.trans hph1) hrc

end run

/-! ### the Bool oracles as propositions -/

theorem roll_P_of_bool (s : CS) (sub : Sub) (w : CWl)
    (h : (netCore s sub w true && brSome s sub && firstPin s sub w && trState s sub w) = true)
    (hlink : linkOKo s.ro sub s.br = true) (hlo : 1 ≤ sub.curIdx) (hhi : sub.curIdx ≤ s.ro.steps.length) :
    RollP s.ro w.replicas w.updateRevision (stableAlive sub w = true) sub.state sub.curIdx sub.stableRev sub.podHash
      (s.br.map (·.partition)) s.net := by
  simp only [Bool.and_eq_true] at h
  obtain ⟨⟨⟨hcore, hbs⟩, hfp⟩, hts⟩ := h
  unfold netCore at hcore
  simp only [if_true, Bool.and_eq_true, Bool.or_eq_true] at hcore
  obtain ⟨⟨⟨⟨⟨h2, hpin⟩, hsvc⟩, hing⟩, hhash⟩, hbase⟩ := hcore
  rw [roll_effIdx_eq] at h2
  refine ⟨h2, ?_, ?_, ?_, ?_, ?_, ?_, ?_, ?_, ?_, hlo, hhi⟩
  · intro r hr
    unfold pinOK at hpin
    rw [hr, roll_effIdx_eq] at hpin
    simp only [Bool.and_eq_true, beq_iff_eq, bne_iff_ne, ne_eq, Bool.not_eq_true'] at hpin
    obtain ⟨⟨⟨⟨p1, p2⟩, p3⟩, p4⟩, p5⟩ := hpin
    exact ⟨p1, p2, p3, p4, p5⟩
  · intro r hr
    unfold svcOK at hsvc
    rw [hr] at hsvc
    simp only [Bool.and_eq_true, beq_iff_eq, Bool.not_eq_true'] at hsvc
    exact ⟨hsvc.1.1, hsvc.1.2, hsvc.2⟩
  · intro x hx
    unfold ingOK at hing
    rw [hx] at hing
    simp only [Bool.and_eq_true, Bool.or_eq_true] at hing
    exact hing
  · unfold hashOK at hhash
    simpa using hhash
  · intro ht
    unfold baseOK at hbase
    rw [ht] at hbase
    simpa using hbase
  · intro hh
    unfold brSome at hbs
    simp only [Bool.or_eq_true, Bool.not_eq_true'] at hbs
    rcases hbs with hbs | hbs
    · rcases hh with hh | hh
      · simp [hh] at hbs
      · simp [hh] at hbs
    · rw [Option.isSome_map]; exact hbs
  · intro h1 h2 h3
    unfold firstPin at hfp
    simp only [Bool.or_eq_true, Bool.not_eq_true', beq_iff_eq] at hfp
    rcases hfp with hfp | hfp
    · exfalso
      rw [Option.isSome_map] at h3
      rcases h3 with h3 | h3
      · simp [h1, h2, h3] at hfp
      · simp [h1, h2, h3] at hfp
    · exact hfp
  · intro hh
    unfold trState at hts
    simpa [hh] using hts
  · intro p hp
    cases hb : s.br with
    | none => rw [hb] at hp; cases hp
    | some b =>
      rw [hb] at hp hlink
      simp only [Option.map_some, Option.some.injEq] at hp
      have hl : linkOK s.ro sub b = true := hlink
      rw [linkOK_iff'] at hl
      obtain ⟨_, ⟨q, hq, _, l3, _⟩, _, _⟩ := hl
      rw [hp] at hq; cases hq
      exact l3

theorem roll_bool_of_P (s : CS) (sub : Sub) (w : CWl)
    (h : RollP s.ro w.replicas w.updateRevision (stableAlive sub w = true) sub.state sub.curIdx sub.stableRev sub.podHash
      (s.br.map (·.partition)) s.net) :
    (netCore s sub w true && brSome s sub && firstPin s sub w && trState s sub w) = true := by
  simp only [Bool.and_eq_true]
  refine ⟨⟨⟨?_, ?_⟩, ?_⟩, ?_⟩
  · unfold netCore
    simp only [if_true, Bool.and_eq_true, Bool.or_eq_true]
    refine ⟨⟨⟨⟨⟨?_, ?_⟩, ?_⟩, ?_⟩, ?_⟩, ?_⟩
    · rw [roll_effIdx_eq]; exact h.t2
    · unfold pinOK
      cases hs : s.net.stableSel with
      | none => rfl
      | some r =>
        obtain ⟨p1, p2, p3, p4, p5⟩ := h.pin r hs
        rw [roll_effIdx_eq]
        simp only [Bool.and_eq_true, beq_iff_eq, bne_iff_ne, ne_eq, Bool.not_eq_true']
        exact ⟨⟨⟨⟨p1, p2⟩, p3⟩, p4⟩, p5⟩
    · unfold svcOK
      cases hs : s.net.canarySvc with
      | none => rfl
      | some r =>
        obtain ⟨p1, p2, p3⟩ := h.svc r hs
        simp only [Bool.and_eq_true, beq_iff_eq, Bool.not_eq_true']
        exact ⟨⟨p1, p2⟩, p3⟩
    · unfold ingOK
      cases hs : s.net.canaryIng with
      | none => rfl
      | some x =>
        simp only [Bool.and_eq_true, Bool.or_eq_true]
        exact h.ing x hs
    · unfold hashOK
      simpa using h.hash
    · unfold baseOK
      cases ht : s.ro.hasTraffic with
      | false => rfl
      | true => simpa using h.base ht
  · unfold brSome
    simp only [Bool.or_eq_true, Bool.not_eq_true']
    cases hb : s.br.isSome with
    | true => exact Or.inr rfl
    | false =>
      left
      have hn : ¬ (RV.Oracle.RolloutSM.podsReady sub.state = true ∨ 2 ≤ sub.curIdx) := by
        intro hh
        have := h.brSome hh
        rw [Option.isSome_map, hb] at this
        cases this
      cases hp : RV.Oracle.RolloutSM.podsReady sub.state with
      | true => exact absurd (Or.inl hp) hn
      | false =>
        simp only [Bool.false_or, decide_eq_false_iff_not]
        exact fun hh => hn (Or.inr hh)
  · unfold firstPin
    simp only [Bool.or_eq_true, Bool.not_eq_true', beq_iff_eq]
    cases h1 : firstStepPins s.ro w.replicas with
    | false => left; simp
    | true =>
      by_cases h2 : sub.curIdx = 1
      · by_cases h3 : sub.state ≠ .init ∨ s.br.isSome = true
        · right
          exact h.firstPin h1 h2 (by rw [Option.isSome_map]; exact h3)
        · left
          have h3a : sub.state = .init := by
            cases hst : sub.state <;> first | rfl | exact absurd (Or.inl (by rw [hst]; intro hh; cases hh)) h3
          have h3b : s.br.isSome = false := by
            cases hb : s.br.isSome with
            | false => rfl
            | true => exact absurd (Or.inr hb) h3
          simp [h3a, h3b]
      · left; simp [h2]
  · unfold trState
    simp only [Bool.or_eq_true, bne_iff_ne, ne_eq, Bool.not_eq_true']
    by_cases hh : sub.state = .trafficRouting
    · exact Or.inr (h.trState hh)
    · exact Or.inl hh

/-! ### lifting to the whole reconcile -/

theorem roll_firstStepPins_congr (ro ro' : Rollout) (R : Int) (h1 : ro'.steps = ro.steps) (h2 : ro'.hasTraffic = ro.hasTraffic)
    (h3 : ro'.disableGen = ro.disableGen) : firstStepPins ro' R = firstStepPins ro R := by
  unfold firstStepPins weightOf fullAt stepAt
  rw [h1, h2, h3]

/-- the rolling facts read the rollout through its plan and the two traffic switches only -/
theorem RollP.congr_ro {ro : Rollout} {R : Int} {rev : String} {alive : Prop} {st : StepState} {cur : Int} {srev ph : String}
    {bp : Option (Option Int)} {n : Net} (h : RollP ro R rev alive st cur srev ph bp n) (ro' : Rollout)
    (h1 : ro'.steps = ro.steps) (h2 : ro'.hasTraffic = ro.hasTraffic) (h3 : ro'.disableGen = ro.disableGen) :
    RollP ro' R rev alive st cur srev ph bp n := by
  have hf : ∀ j, fullAt ro' R j = fullAt ro R j := fun j => roll_fullAt_steps ro ro' R j h1
  have hfp := roll_firstStepPins_congr ro ro' R h1 h2 h3
  exact ⟨by rw [hf]; exact h.t2, fun r hr => by rw [hf, h2, h3]; exact h.pin r hr,
    fun r hr => by rw [h2, h3]; exact h.svc r hr, fun x hx => by rw [h2, h3]; exact h.ing x hx, h.hash,
    fun ht => h.base (by rw [← h2]; exact ht), h.brSome, fun a b c => h.firstPin (by rw [← hfp]; exact a) b c,
    fun hh => by rw [hf]; exact h.trState hh, h.link, h.lo, by rw [h1]; exact h.hi⟩

/-- **one Rollout reconcile of a rolling rollout** (hypotheses of `rolling_step`, and the rolling facts on the world it
    reads): sub-state `completed` — only the reason changes; otherwise the rolling facts hold on the world it leaves -/
theorem roll_world (W : World) (wl : WL) (sub : Sub) (alive : Prop)
    (hg : RoGood W.ro) (hph : W.ro.phase = .progressing) (hr : W.ro.reason = .inRolling)
    (hwl : W.wl = some wl) (hc : wl.consistent = true) (hnr : wl.inRollback = false)
    (hs : W.ro.sub = some sub) (hsub : SubGood W.ro sub wl.canaryRev)
    (hR : 0 < wl.replicas) (hm : planMono wl.replicas (planOf W.ro) = true)
    (hP : RollP W.ro wl.replicas wl.podTemplateHash alive sub.state sub.curIdx sub.stableRev sub.podHash
      (W.br.map (·.partition)) W.net)
    (r : StepResult) (hrec : reconcile W = .val r) :
    ∃ s', r.w.ro.sub = some s' ∧ s'.stableRev = sub.stableRev ∧
      ((r.w.ro.reason = .finalising ∧ sub.state = .completed ∧ s'.state = sub.state ∧ s'.curIdx = sub.curIdx ∧
          s'.podHash = sub.podHash ∧ s'.canaryRev = sub.canaryRev ∧ s'.finStep = sub.finStep) ∨
       (r.w.ro.reason = .inRolling ∧
        RollP W.ro wl.replicas wl.podTemplateHash alive s'.state s'.curIdx s'.stableRev s'.podHash
          (r.w.br.map (·.partition)) r.w.net)) := by
  obtain ⟨o1, _, _⟩ := RV.Props.Reconcile.csObserve_same W.ro wl
  obtain ⟨_, f2⟩ := csObserve_frame W.ro wl
  obtain ⟨id, gen, hs1⟩ := csObserve_sub W.ro wl sub hs
  have hpaused : (csObserve W.ro wl).paused = false := o1.2.2.2.1.trans hg.unpaused
  rw [reconcile_roll W wl _ hg hph hr hwl hc hs1,
    inRolling_roll W (csObserve W.ro wl) _ sub wl hs hnr hpaused hsub.rev.symm hsub.hash] at hrec
  generalize csObserve W.ro wl = ns at o1 f2 hs1 hpaused hrec
  obtain ⟨q1, q2, q3, _, _, q6, _, _, _, q10⟩ := o1
  by_cases hst : sub.state = .completed
  · rw [if_pos hst] at hrec
    dsimp only at hrec
    rw [if_neg (by simp)] at hrec
    cases hrec
    exact ⟨_, hs1, rfl, Or.inl ⟨rfl, hst, rfl, rfl, rfl, rfl, rfl⟩⟩
  · rw [if_neg hst] at hrec
    have hN : (if ({ sub with observedRolloutID := id, observedGen := gen } : Sub).nextIdx ≤ 0 ∨
          ({ sub with observedRolloutID := id, observedGen := gen } : Sub).nextIdx > (ns.steps.length : Int) then
          { ({ sub with observedRolloutID := id, observedGen := gen } : Sub) with
            nextIdx := nextBatchIndex (ns.steps.length : Int) ({ sub with observedRolloutID := id, observedGen := gen } : Sub).curIdx }
        else ({ sub with observedRolloutID := id, observedGen := gen } : Sub)) =
        { sub with observedRolloutID := id, observedGen := gen } := by
      split
      · show ({ sub with observedRolloutID := id, observedGen := gen, nextIdx := nextBatchIndex (ns.steps.length : Int) sub.curIdx } : Sub) = _
        rw [q1, ← hsub.next]
      · rfl
    rw [hN] at hrec
    have hgN : SubGood ns { sub with observedRolloutID := id, observedGen := gen } wl.canaryRev :=
      ⟨hsub.lo, by rw [q1]; exact hsub.hi, by rw [q1]; exact hsub.next, hsub.lu, hsub.hash, hsub.rev, hsub.fin⟩
    cases hrc : runCanary (toCtx { W with ro := ns } { sub with observedRolloutID := id, observedGen := gen } wl) with
    | panic => rw [hrc] at hrec; cases hrec
    | ok c err =>
      rw [hrc] at hrec
      dsimp only at hrec
      have hC0 : RollC ns wl sub.stableRev alive
          (toCtx { W with ro := ns } { sub with observedRolloutID := id, observedGen := gen } wl) :=
        ⟨rfl, rfl, rfl, rfl, hP.congr_ro ns q1 q2 q6⟩
      have envN : RollEnv ns wl.replicas :=
        ⟨q3.trans hg.canary, q10.trans hg.partitionStyle, hR, by unfold planOf; rw [q1]; exact hm⟩
      obtain ⟨hC, herr⟩ := roll_runCanary hC0 envN err wl.canaryRev hgN hrc
      subst herr
      rw [if_neg (by simp)] at hrec
      cases hrec
      exact ⟨c.sub, rfl, hC.srEq, Or.inr ⟨f2.trans hr, hC.p.congr_ro W.ro q1.symm q2.symm q6.symm⟩⟩

/-! ### landing in the joint state -/

/-- the BatchRelease write of one release-manager round lands with the batch partition written -/
theorem roll_land_part (ro : Rollout) (id : String) (cur : Int) (cbr : Option CBr) (nb : Option BR) (w : CWl)
    (h : BrRoll ro cur id (cbr.map roBr) nb) :
    ∃ br' o, landBR cbr nb (some w) = (br', some { w with owner := o }) ∧ br'.map (·.partition) = nb.map (·.partition) := by
  generalize hb0 : cbr.map roBr = b0 at h
  cases h with
  | same =>
    subst hb0
    refine ⟨cbr, w.owner, by rw [landBR_id], ?_⟩
    cases cbr <;> rfl
  | created =>
    have hn := map_roBr_none cbr hb0
    subst hn
    refine ⟨some (createdBr (desiredBR ro id (cur - 1) false)), (if w.owner = .this then .other else w.owner), ?_, rfl⟩
    show (some (createdBr _), some (if w.owner = .this then { w with owner := .other } else w)) = _
    split <;> rfl
  | kept b b' k1 k2 k3 k4 =>
    obtain ⟨c, hc, hcb⟩ := map_roBr_some cbr b hb0
    subst hc
    subst hcb
    obtain ⟨c2, e, u, _⟩ := updatedBr_some c b' k1
    refine ⟨some c2, w.owner, ?_, ?_⟩
    · show (updatedBr c b', some w) = _
      rw [e]
    · show some c2.partition = some b'.partition
      rw [u.partition]
  | updated b b' k1 k2 k3 k4 =>
    obtain ⟨c, hc, hcb⟩ := map_roBr_some cbr b hb0
    subst hc
    subst hcb
    obtain ⟨c2, e, u, _⟩ := updatedBr_some c b' k1
    refine ⟨some c2, w.owner, ?_, ?_⟩
    · show (updatedBr c b', some w) = _
      rw [e]
    · show some c2.partition = some b'.partition
      rw [u.partition]

theorem roll_alive_congr (sub s1 : Sub) (w : CWl) (o : Executor.Owner) (h : s1.stableRev = sub.stableRev) :
    stableAlive s1 { w with owner := o } = stableAlive sub w := by
  unfold stableAlive keepsOne
  rw [h]

/-- from the rolling facts in sub-state `completed` to the facts of the clean-up at the empty cursor -/
theorem roll_fin_bool (S : CS) (s1 : Sub) (w : CWl)
    (h : (netCore S s1 w true && brSome S s1 && firstPin S s1 w && trState S s1 w) = true)
    (hst : s1.state = .completed) (hlink : linkOKo S.ro s1 S.br = true) (hfin : s1.finStep = .empty)
    (hrev : s1.canaryRev = w.updateRevision) (hhi : s1.curIdx ≤ S.ro.steps.length) :
    (netCore S s1 w false && finBr S s1 w && s1.canaryRev == w.updateRevision && decide (s1.curIdx ≤ S.ro.steps.length)) = true := by
  simp only [Bool.and_eq_true] at h ⊢
  obtain ⟨⟨⟨hcore, hbs⟩, _⟩, _⟩ := h
  refine ⟨⟨⟨?_, ?_⟩, by simpa using hrev⟩, by simpa using hhi⟩
  · unfold netCore at hcore ⊢
    simp only [if_true, Bool.false_eq_true, if_false, Bool.and_eq_true, Bool.or_eq_true] at hcore ⊢
    obtain ⟨⟨⟨⟨⟨h2, hpin⟩, hsvc⟩, hing⟩, hhash⟩, hbase⟩ := hcore
    refine ⟨⟨⟨⟨⟨?_, hpin⟩, hsvc⟩, hing⟩, hhash⟩, hbase⟩
    cases hs : S.net.stableSel with
    | none => exact Or.inl rfl
    | some r =>
      right
      rcases h2 with h2 | h2
      · unfold pinOK at hpin
        rw [hs] at hpin
        simp only [Bool.and_eq_true, Bool.not_eq_true'] at hpin
        rw [h2] at hpin
        exact absurd hpin.1.1.2 (by decide)
      · exact h2
  · unfold finBr
    rw [hfin]
    dsimp only
    cases hb : S.br with
    | none =>
      unfold brSome at hbs
      rw [hb, hst] at hbs
      simp [RV.Oracle.RolloutSM.podsReady] at hbs
    | some b =>
      rw [hb] at hlink
      exact hlink

/-! ### one Rollout reconcile of a rolling rollout -/

theorem ro_rolling_tr (s s' : CS) (w : CWl) (h : trInv s = true) (hw : s.wl = some w) (hc : (roWl w).consistent = true)
    (hph : s.ro.phase = .progressing) (hr : s.ro.reason = .inRolling) (hs : stepRo s = some s') : trRest s' = true := by
  obtain ⟨_, hgone, hg, w0, hw0, hwok, hm, hbr, hpi, hR, htp⟩ := tr_parts s h
  rw [hw] at hw0
  cases hw0
  cases hsub : s.ro.sub with
  | none =>
    unfold phaseInv at hpi
    rw [hph, hr] at hpi
    dsimp only at hpi
    rw [hsub] at hpi
    cases hpi
  | some sub =>
    rw [phaseInv_rolling s w sub hph hr hsub] at hpi
    simp only [Bool.and_eq_true] at hpi
    obtain ⟨⟨hsubok, hlink⟩, _⟩ := hpi
    have hsg : SubGood s.ro sub (roWl w).canaryRev := (subOK_iff s.ro sub w).1 hsubok
    rw [trPhase_rolling s w sub hph hr hsub] at htp
    have hP := roll_P_of_bool s sub w htp hlink hsg.lo hsg.hi
    have hwl := world_wl s w hw
    have hnr := noRollback w hwok
    obtain ⟨r, hrec, hrg, hk, hrph, hrwl, hout⟩ :=
      rolling_step (roWorld s) (roWl w) sub hg hph hr hwl hc hnr hsub hsg
    have hk' : SpecKept s.ro r.w.ro := hk
    obtain ⟨k1, k2, _, _, _, k6, _, _, _, _⟩ := hk'.1
    have hP0 : RollP (roWorld s).ro (roWl w).replicas (roWl w).podTemplateHash (stableAlive sub w = true) sub.state sub.curIdx
        sub.stableRev sub.podHash ((roWorld s).br.map (·.partition)) (roWorld s).net := by
      have e : (roWorld s).br.map (·.partition) = s.br.map (·.partition) := by
        show (s.br.map roBr).map (·.partition) = _
        cases s.br <;> rfl
      rw [e]; exact hP
    obtain ⟨s1, hs1, hsr, hcase⟩ :=
      roll_world (roWorld s) (roWl w) sub (stableAlive sub w = true) hg hph hr hwl hc hnr hsub hsg hR hm hP0 r hrec
    have hs' : s' = landRo s r := by
      have := stepRo_eq s hgone r hrec
      rw [hs] at this
      exact Option.some.inj this
    subst hs'
    rcases hcase with ⟨hfin, hst, e1, e2, e3, e4, e5⟩ | ⟨hin, hP'⟩
    · -- sub-state `completed`: on to the clean-up, nothing but the reason changes
      have hrbr : r.w.br = (roWorld s).br ∧ r.w.net = (roWorld s).net := by
        rcases hout with ⟨_, _, a, b⟩ | ⟨a, _⟩
        · exact ⟨a, b⟩
        · rw [hfin] at a; cases a
      have hl : landBR s.br r.w.br (annoLand s.wl r.w.wl) = (s.br, some w) := by
        rw [hrbr.1, hrwl, hw]
        show landBR s.br (s.br.map roBr) (annoLand (some w) ((some w).map roWl)) = _
        rw [annoLand_id, landBR_id]
      have e : landRo s r = ⟨r.roGone, r.w.ro, some w, s.br, r.w.net, r.w.mem⟩ := by
        unfold landRo; rw [hl]
      rw [e]
      refine (trRest_some _ w rfl).2 ⟨hR, ?_⟩
      rw [trPhase_fin _ w s1 hrph hfin hs1]
      have hnet : r.w.net = s.net := hrbr.2
      have hP1 : RollP r.w.ro w.replicas w.updateRevision (stableAlive s1 w = true) s1.state s1.curIdx s1.stableRev s1.podHash
          (s.br.map (·.partition)) r.w.net := by
        have := hP.congr_ro r.w.ro k1 k2 k6
        have ha : stableAlive s1 w = stableAlive sub w := roll_alive_congr sub s1 w w.owner hsr
        rw [ha, e1, e2, hsr, e3, hnet]
        exact this
      have hb := roll_bool_of_P ⟨r.roGone, r.w.ro, some w, s.br, r.w.net, r.w.mem⟩ s1 w hP1
      refine roll_fin_bool _ s1 w hb (e1.trans hst) ?_ (e5.trans hsg.fin) (e4.trans hsg.rev) ?_
      · have := linkOKo_mono s.ro sub s1 s.br (by rw [e2]; exact Int.le_refl _) hlink
        exact (linkOKo_congr' s.ro r.w.ro s1 s.br (planOf_same hk'.1)).trans this
      · show s1.curIdx ≤ r.w.ro.steps.length
        rw [e2, k1]; exact hsg.hi
    · -- still rolling
      have hroll : BrRoll s.ro sub.curIdx (getRolloutID (roWl w)) (s.br.map roBr) r.w.br := by
        rcases hout with ⟨a, _⟩ | ⟨_, _, a⟩
        · rw [hin] at a; cases a
        · exact a
      obtain ⟨br', o, hland, hpart⟩ := roll_land_part s.ro (getRolloutID (roWl w)) sub.curIdx s.br r.w.br w hroll
      have hl : landBR s.br r.w.br (annoLand s.wl r.w.wl) = (br', some { w with owner := o }) := by
        rw [hw, hrwl]
        show landBR s.br r.w.br (annoLand (some w) ((some w).map roWl)) = _
        rw [annoLand_id]; exact hland
      have e : landRo s r = ⟨r.roGone, r.w.ro, some { w with owner := o }, br', r.w.net, r.w.mem⟩ := by
        unfold landRo; rw [hl]
      rw [e]
      refine (trRest_some _ { w with owner := o } rfl).2 ⟨hR, ?_⟩
      rw [trPhase_rolling _ _ s1 hrph hin hs1]
      refine roll_bool_of_P _ s1 _ ?_
      have ha : stableAlive s1 { w with owner := o } = stableAlive sub w := roll_alive_congr sub s1 w o hsr
      have := hP'.congr_ro r.w.ro k1 k2 k6
      rw [← hpart] at this
      show RollP r.w.ro w.replicas w.updateRevision (stableAlive s1 { w with owner := o } = true) s1.state s1.curIdx
        s1.stableRev s1.podHash (br'.map (·.partition)) r.w.net
      rw [ha]
      exact this

end RV.Lemmas.ClosedLoopTraffic
