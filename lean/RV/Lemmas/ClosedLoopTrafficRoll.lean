/-
  Label `ro` on a rolling rollout (consistent workload): the traffic part of the invariant is preserved.
-/
import RV.Lemmas.ClosedLoopTrafficDefs
import RV.Lemmas.ClosedLoopTrafficArith
import RV.Lemmas.ClosedLoopGate
namespace RV.Lemmas.ClosedLoopTraffic
open RV.Arith RV.Traffic RV.RolloutSM RV.ClosedLoop RV.Oracle.ClosedLoop RV.Oracle.ClosedLoopTraffic RV.Lemmas.ClosedLoop

theorem ro_rolling_tr (s s' : CS) (w : CWl) (h : trInv s = true) (hw : s.wl = some w) (hc : (roWl w).consistent = true)
    (hph : s.ro.phase = .progressing) (hr : s.ro.reason = .inRolling) (hs : stepRo s = some s') : trRest s' = true := by
  sorry

end RV.Lemmas.ClosedLoopTraffic
