/-
  # Rollouts bound to a TrafficRouting custom resource — part 1: one reconcile of either controller
  (the history theorems are in `RV/Props/TRBindThms.lean`; same namespace `RV.Props.TRBind`)

  Model: `RV.TRBind` (`roReconcile` = `RV.RolloutSM.reconcile` + `handleTrafficRouting` / `finalizeTrafficRouting`;
  `trReconcile` = the TrafficRouting controller over named progressing finalizers; `step` / `run` = their closed loop
  with any number of rollouts sharing one TrafficRouting).  Oracles: `RV.Oracle.TRBind` — the same Bool functions the
  driver evaluates on every transition of the real reconcilers.

  Every theorem quantifies over all joint states (any number of rollouts, any worlds, any network, any grace memory);
  the history theorems are inductions over the label list.
-/
import RV.Lemmas.TRBind
import RV.Props.ReconcileThms
namespace RV.Props.TRBind
open RV.Traffic RV.TRBind RV.Oracle.TRBind RV.Lemmas.TRBind

/-! ## 1. The TrafficRouting controller -/

/-- the TrafficRouting as `RV.TRSM` sees it: the progressing finalizers counted -/
def toTR (t : TRO) : TRSM.TR :=
  { deleting := t.deleting, hasFinalizer := t.hasFinalizer, progressing := t.holders.length, phase := t.phase,
    weight := t.weight, grace := t.grace }

theorem tctx_eq (t : TRO) (h : t.hasRef = true) : tctx t = TRSM.tctx (toTR t) := by
  unfold tctx TRSM.tctx toTR; rw [h]

theorem isGone_eq (t : TRO) : isGone t = TRSM.isGone (toTR t) := by
  unfold isGone TRSM.isGone toTR
  cases t.holders <;> simp

def view (r : TRes) : Option TRO × Net × Mem × Bool × Bool × Bool := (r.tr, r.net, r.mem, r.requeue, r.err, r.finalised)
def viewTRSM (t : TRO) (r : TRSM.Result) : Option TRO × Net × Mem × Bool × Bool × Bool :=
  (if r.gone then none else some { t with hasFinalizer := r.w.tr.hasFinalizer, phase := r.w.tr.phase },
   r.w.net, r.w.mem, r.requeue, r.err, r.finalised)

/-- **no re-modelling drift** — for a TrafficRouting with an `objectRef`, `trReconcile` is `RV.TRSM.reconcile` on
    the counted view: same object afterwards (the names of the progressing finalizers are carried along untouched),
    same network, memory, requeue / error / finalised verdicts -/
theorem trReconcile_eq_TRSM (t : TRO) (n : Net) (m : Mem) (h : t.hasRef = true) :
    view (trReconcile t n m) = viewTRSM t (TRSM.reconcile ⟨toTR t, n, m⟩) := by
  obtain ⟨del, hf, hs, ph, wt, gr, hr⟩ := t
  simp only at h; subst h
  have hc : ∀ hf' ph', tctx ⟨del, hf', hs, ph', wt, gr, true⟩ = TRSM.tctx ⟨del, hf', hs.length, ph', wt, gr⟩ := fun _ _ => rfl
  have hgone : ∀ hf' ph', isGone ⟨del, hf', hs, ph', wt, gr, true⟩ = TRSM.isGone ⟨del, hf', hs.length, ph', wt, gr⟩ := by
    intro hf' ph'; unfold isGone TRSM.isGone; cases hs <;> simp
  cases del <;> cases hf <;> cases ph
  all_goals
    simp only [trReconcile, trCore, TRSM.reconcile, toTR, stored, view, viewTRSM, hc, hgone, Bool.false_eq_true, not_false_eq_true,
      not_true_eq_false, and_self, and_true, and_false, if_true, if_false, reduceCtorEq, true_and]
  all_goals simp only [TRSM.isGone, Bool.false_and, Bool.true_and, Bool.not_true, Bool.not_false, Bool.and_false, Bool.and_true,
      Bool.false_eq_true, if_false]
  all_goals (repeat' split)
  all_goals first | rfl | (simp_all [TRSM.isGone]; done)

/-! ### what one TrafficRouting reconcile can do (every object, network, memory) -/

/-- it never touches the progressing finalizers, the deletion mark or the spec -/
theorem core_frame (t : TRO) (n : Net) (m : Mem) :
    (trCore t n m).t.holders = t.holders ∧ (trCore t n m).t.deleting = t.deleting ∧ (trCore t n m).t.weight = t.weight ∧
    (trCore t n m).t.grace = t.grace ∧ (trCore t n m).t.hasRef = t.hasRef := by
  obtain ⟨del, hf, hs, ph, wt, gr, hr⟩ := t
  cases del <;> cases hf <;> cases ph
  all_goals
    simp only [trCore, Bool.false_eq_true, not_false_eq_true, not_true_eq_false, and_self, and_true, and_false, if_true, if_false, reduceCtorEq]
  all_goals (repeat' split)
  all_goals exact ⟨rfl, rfl, rfl, rfl, rfl⟩

theorem tctx_congr (t : TRO) (hf : Bool) (ph : TRSM.Phase) : tctx { t with hasFinalizer := hf, phase := ph } = tctx t := rfl

/-- the network is written only through `DoTrafficRouting` — by a live, Progressing, held object — or through
    `FinalisingTrafficRouting` — in deletion, or in phase Finalizing / Terminating -/
theorem core_net (t : TRO) (n : Net) (m : Mem) :
    ((trCore t n m).net = n ∧ (trCore t n m).mem = m) ∨
    ((trCore t n m).net = (doTrafficRouting (tctx t) n m).net ∧ (trCore t n m).mem = (doTrafficRouting (tctx t) n m).mem ∧
      t.deleting = false ∧ t.phase = .progressing ∧ t.holders ≠ []) ∨
    ((trCore t n m).net = (finalisingTrafficRouting (tctx t) n m).net ∧ (trCore t n m).mem = (finalisingTrafficRouting (tctx t) n m).mem ∧
      (t.deleting = true ∨ t.phase = .finalizing ∨ t.phase = .terminating)) := by
  obtain ⟨del, hf, hs, ph, wt, gr, hr⟩ := t
  have hc : ∀ hf' ph', tctx ⟨del, hf', hs, ph', wt, gr, hr⟩ = tctx ⟨del, hf, hs, ph, wt, gr, hr⟩ := fun _ _ => rfl
  cases del <;> cases hf <;> cases ph
  all_goals
    simp only [trCore, hc, Bool.false_eq_true, not_false_eq_true, not_true_eq_false, and_self, and_true, and_false, if_true, if_false, reduceCtorEq]
  all_goals (repeat' split)
  all_goals first
    | (left; exact ⟨rfl, rfl⟩)
    | (left; simp; done)
    | (right; right; simp; done)
    | (right; left; simp_all; done)

/-- the controller's own finalizer comes off only in deletion, in a reconcile whose `FinalisingTrafficRouting` reported done -/
theorem core_finalizer (t : TRO) (n : Net) (m : Mem) (h1 : t.hasFinalizer = true) (h2 : (trCore t n m).t.hasFinalizer = false) :
    t.deleting = true ∧ (trCore t n m).finalised = true ∧ (finalisingTrafficRouting (tctx t) n m).done = true ∧
    (trCore t n m).net = (finalisingTrafficRouting (tctx t) n m).net ∧ (trCore t n m).requeue = false := by
  obtain ⟨del, hf, hs, ph, wt, gr, hr⟩ := t
  simp only at h1; subst h1
  have hc : ∀ hf' ph', tctx ⟨del, hf', hs, ph', wt, gr, hr⟩ = tctx ⟨del, true, hs, ph, wt, gr, hr⟩ := fun _ _ => rfl
  revert h2
  cases del <;> cases ph
  all_goals
    simp only [trCore, hc, Bool.false_eq_true, not_false_eq_true, not_true_eq_false, and_self, and_true, and_false, if_true, if_false, reduceCtorEq]
  all_goals (repeat' split)
  all_goals first
    | (intro h; cases h; done)
    | (intro _; simp_all; done)

/-- phase changes: Finalizing is entered only by an unheld object, Terminating only in deletion; a live held object
    outside those two phases stays outside them -/
theorem core_phase (t : TRO) (n : Net) (m : Mem) :
    ((trCore t n m).t.phase = .finalizing → t.phase = .finalizing ∨ (t.deleting = false ∧ t.holders = [])) ∧
    ((trCore t n m).t.phase = .terminating → t.phase = .terminating ∨ t.deleting = true) := by
  obtain ⟨del, hf, hs, ph, wt, gr, hr⟩ := t
  cases del <;> cases hf <;> cases ph
  all_goals
    simp only [trCore, Bool.false_eq_true, not_false_eq_true, not_true_eq_false, and_self, and_true, and_false, if_true, if_false, reduceCtorEq]
  all_goals (repeat' split)
  all_goals simp_all


/-! ## 2. The two binding functions of the Rollout controller -/

theorem holdersOf_some (t : TRO) : holdersOf (some t) = t.holders := rfl
theorem holdersOf_none : holdersOf none = [] := rfl

theorem othersKept_refl (i : Nat) (tr : Option TRO) : othersKept i tr tr = true := by
  cases tr with
  | none => rfl
  | some t =>
    simp only [othersKept, beq_self_eq_true, Bool.and_true, Bool.true_and, List.all_eq_true, Bool.or_eq_true, beq_iff_eq,
      List.contains_iff_mem, Bool.and_eq_true]
    exact ⟨fun j hj => Or.inr hj, fun j hj => Or.inr hj⟩

theorem stored_some (t t' : TRO) (h : stored t = some t') : t' = t := by
  unfold stored at h; split at h
  · cases h
  · cases h; rfl

theorem stored_none (t : TRO) (h : stored t = none) : t.deleting = true ∧ t.hasFinalizer = false ∧ t.holders = [] := by
  unfold stored at h; split at h
  · rename_i hg
    unfold isGone at hg
    simp only [Bool.and_eq_true, Bool.not_eq_true', List.isEmpty_iff] at hg
    exact ⟨hg.1.1, hg.1.2, hg.2⟩
  · cases h

/-- `handleTrafficRouting` reports done only with the rollout's finalizer on the object, adds it only to a live object
    that is neither Finalizing nor Terminating, and touches nothing else -/
theorem handle_spec (i : Nat) (tr : Option TRO) (f : TFault) :
    ((handleTrafficRouting i tr f).1 = .done → (handleTrafficRouting i tr f).2 = tr ∧ i ∈ holdersOf tr) ∧
    ((handleTrafficRouting i tr f).1 = .err → (handleTrafficRouting i tr f).2 = tr) ∧
    addedOnlyWhenOpen i tr (handleTrafficRouting i tr f).2 = true ∧
    othersKept i tr (handleTrafficRouting i tr f).2 = true := by
  unfold handleTrafficRouting
  split
  · refine ⟨(fun h => by cases h), fun _ => rfl, ?_, othersKept_refl i tr⟩
    unfold addedOnlyWhenOpen; simp
  · cases tr with
    | none =>
      refine ⟨(fun h => by cases h), fun _ => rfl, ?_, rfl⟩
      unfold addedOnlyWhenOpen; simp [holdersOf]
    | some t =>
      dsimp only
      have hsame : addedOnlyWhenOpen i (some t) (some t) = true := by unfold addedOnlyWhenOpen; simp
      split
      · rename_i hm
        exact ⟨fun _ => ⟨rfl, hm⟩, fun _ => rfl, hsame, othersKept_refl i _⟩
      · rename_i hm
        split
        · exact ⟨(fun h => by cases h), fun _ => rfl, hsame, othersKept_refl i _⟩
        · rename_i hph
          split
          · exact ⟨(fun h => by cases h), fun _ => rfl, hsame, othersKept_refl i _⟩
          · split
            · exact ⟨(fun h => by cases h), fun _ => rfl, hsame, othersKept_refl i _⟩
            · rename_i hdel
              refine ⟨(fun h => by cases h), (fun h => by cases h), ?_, ?_⟩
              · unfold addedOnlyWhenOpen
                have h1 : t.phase ≠ .finalizing ∧ t.phase ≠ .terminating := by
                  constructor <;> intro hc <;> exact hph (by simp [hc])
                simp [holdersOf, hdel, h1.1, h1.2]
              · unfold othersKept
                simp only [beq_self_eq_true, Bool.and_true, Bool.true_and, List.all_eq_true, Bool.or_eq_true, beq_iff_eq, List.contains_iff_mem,
                  Bool.and_eq_true, mem_insertSorted]
                exact ⟨fun j hj => Or.inr (Or.inr hj), fun j hj => by rcases hj with h | h; exact Or.inl h; exact Or.inr h⟩

/-- `finalizeTrafficRouting` without an error leaves the rollout's finalizer off the object; with an error it leaves the
    object alone; it touches nothing else -/
theorem finalize_spec (i : Nat) (tr : Option TRO) (f : TFault) :
    ((finalizeTrafficRouting i tr f).1 = false → i ∉ holdersOf (finalizeTrafficRouting i tr f).2) ∧
    ((finalizeTrafficRouting i tr f).1 = true → (finalizeTrafficRouting i tr f).2 = tr) ∧
    addedOnlyWhenOpen i tr (finalizeTrafficRouting i tr f).2 = true ∧
    othersKept i tr (finalizeTrafficRouting i tr f).2 = true := by
  unfold finalizeTrafficRouting
  split
  · refine ⟨(fun h => by cases h), fun _ => rfl, ?_, othersKept_refl i tr⟩
    unfold addedOnlyWhenOpen; simp
  · cases tr with
    | none =>
      refine ⟨(fun _ => by simp [holdersOf]), fun _ => rfl, ?_, rfl⟩
      unfold addedOnlyWhenOpen; simp [holdersOf]
    | some t =>
      dsimp only
      have hsame : addedOnlyWhenOpen i (some t) (some t) = true := by unfold addedOnlyWhenOpen; simp
      split
      · rename_i hm
        split
        · exact ⟨(fun h => by cases h), fun _ => rfl, hsame, othersKept_refl i _⟩
        · have hnot : i ∉ holdersOf (stored { t with holders := t.holders.filter (· ≠ i) }) := by
            cases hst : stored { t with holders := t.holders.filter (· ≠ i) } with
            | none => simp [holdersOf]
            | some t' =>
              have := stored_some _ _ hst; subst this
              simp [holdersOf]
          refine ⟨fun _ => hnot, (fun h => by cases h), ?_, ?_⟩
          · unfold addedOnlyWhenOpen
            have : (holdersOf (stored { t with holders := t.holders.filter (· ≠ i) })).contains i = false := by
              simpa using hnot
            rw [this]; simp
          · cases hst : stored { t with holders := t.holders.filter (· ≠ i) } with
            | none =>
              obtain ⟨h1, h2, h3⟩ := stored_none _ hst
              simp only at h1 h2 h3
              unfold othersKept
              simp only [h1, h2, Bool.not_false, Bool.and_true, Bool.true_and, List.all_eq_true, beq_iff_eq]
              intro j hj
              by_cases hji : j = i
              · exact hji
              · have : j ∈ t.holders.filter (· ≠ i) := by simp [hj, hji]
                rw [h3] at this; cases this
            | some t' =>
              have := stored_some _ _ hst; subst this
              unfold othersKept
              simp only [beq_self_eq_true, Bool.and_true, Bool.true_and, List.all_eq_true, Bool.or_eq_true, beq_iff_eq, List.contains_iff_mem,
                Bool.and_eq_true, mem_remove]
              exact ⟨fun j hj => by by_cases hji : j = i; exact Or.inl hji; exact Or.inr ⟨hj, hji⟩, fun j hj => Or.inr hj.1⟩
      · rename_i hm
        exact ⟨fun _ => hm, fun _ => rfl, hsame, othersKept_refl i _⟩


/-! ## 3. One reconcile of a bound Rollout (every world of `RV.RolloutSM`, every TrafficRouting, every fault) -/

open RV.RolloutSM in
/-- the ways one reconcile of rollout `i` can go -/
inductive RoCase (i : Nat) (b : Bool) (w : World) (tr : Option TRO) (f : TFault) (r : StepResult) (tr' : Option TRO) : Prop
  /-- the binding plays no part: the plain Rollout reconcile, the TrafficRouting untouched -/
  | pass (h : reconcile w = .val r) (ht : tr' = tr)
      (hc : b = false ∨ position w = .other ∨ (position w = .init ∧ r.w.ro.reason ≠ .inRolling))
  | initDone (hp : position w = .init) (hb : b = true) (h : reconcile w = .val r) (hr : r.w.ro.reason = .inRolling)
      (hh : handleTrafficRouting i tr f = (.done, tr'))
  | initWait (hp : position w = .init) (hb : b = true) (r0 : StepResult) (h : reconcile w = .val r0) (hr : r0.w.ro.reason = .inRolling)
      (hh : handleTrafficRouting i tr f = (.wait, tr'))
      (he : r = { r0 with w := { r0.w with ro := { r0.w.ro with reason := .initializing } }, requeue := true })
  | initErr (hp : position w = .init) (hb : b = true) (r0 : StepResult) (h : reconcile w = .val r0) (hr : r0.w.ro.reason = .inRolling)
      (hh : handleTrafficRouting i tr f = (.err, tr'))
      (he : r = { r0 with w := { w with ro := (handleFinalizer w.ro).1 }, requeue := false, err := true })
  | finErr (hp : position w = .fin) (hb : b = true) (hh : finalizeTrafficRouting i tr f = (true, tr'))
      (he : r = { w := { w with ro := (handleFinalizer w.ro).1 }, roGone := (handleFinalizer w.ro).2.1, requeue := false, err := true,
                  writes := (handleFinalizer w.ro).2.2 })
  | finOk (hp : position w = .fin) (hb : b = true) (hh : finalizeTrafficRouting i tr f = (false, tr')) (h : reconcile w = .val r)

theorem ro_cases (i : Nat) (b : Bool) (w : RolloutSM.World) (tr : Option TRO) (f : TFault) (r : RolloutSM.StepResult) (tr' : Option TRO)
    (h : roReconcile i b w tr f = .val r tr') : RoCase i b w tr f r tr' := by
  unfold roReconcile at h
  split at h
  · rename_i hb
    split at h
    · cases h
    · rename_i r0 hr0
      cases h
      exact .pass hr0 rfl (Or.inl (by simpa using hb))
  · rename_i hb
    have hb' : b = true := by simpa using hb
    split at h
    · -- init
      rename_i hpos
      split at h
      · cases h
      · rename_i r0 hr0
        split at h
        · rename_i hin
          split at h
          · rename_i tr1 hh
            cases h
            exact .initDone hpos hb' hr0 hin hh
          · rename_i tr1 hh
            cases h
            exact .initWait hpos hb' r0 hr0 hin hh rfl
          · rename_i tr1 hh
            cases h
            exact .initErr hpos hb' r0 hr0 hin hh rfl
        · rename_i hin
          cases h
          exact .pass hr0 rfl (Or.inr (Or.inr ⟨hpos, hin⟩))
    · -- fin
      rename_i hpos
      split at h
      · rename_i tr1 hh
        cases h
        exact .finErr hpos hb' hh rfl
      · rename_i tr1 hh
        split at h
        · cases h
        · rename_i r0 hr0
          cases h
          exact .finOk hpos hb' hh hr0
    · rename_i hpos
      split at h
      · cases h
      · rename_i r0 hr0
        cases h
        exact .pass hr0 rfl (Or.inr (Or.inl hpos))

/-- the binding adds no crash: a bound Rollout's reconcile panics only where the plain one does -/
theorem ro_panic_only_plain (i : Nat) (b : Bool) (w : RolloutSM.World) (tr : Option TRO) (f : TFault)
    (h : roReconcile i b w tr f = .panic) : RolloutSM.reconcile w = .panic := by
  unfold roReconcile at h
  repeat' split at h
  all_goals first | (cases h; done) | assumption


/-! ### where a Rollout reconcile can leave the rollout (whole `RV.RolloutSM.reconcile`, every world) -/

section Transitions
open RV.RolloutSM RV.Props.Reconcile

theorem rolling_iff (ro : Rollout) : rolling ro = true ↔ ro.phase = .progressing ∧ (ro.reason = .inRolling ∨ ro.reason = .paused) := by
  unfold rolling; simp

theorem rolling_congr (a b : Rollout) (h1 : a.phase = b.phase) (h2 : a.reason = b.reason) : rolling a = rolling b := by
  unfold rolling; rw [h1, h2]

theorem rolling_ro1 (ro : Rollout) : rolling (handleFinalizer ro).1 = rolling ro := by
  rw [hf_frame ro]; rfl

theorem csPhase_rolling (ro o : Rollout) (w : WL) (h : rolling (csPhase ro o w) = true) : rolling o = true := by
  unfold csPhase at h
  repeat' split at h
  all_goals simp_all [rolling]

theorem csObserve_rolling (o : Rollout) (w : WL) : rolling (csObserve o w) = rolling o := by
  unfold csObserve
  repeat' split
  all_goals rfl

theorem csInit_rolling (x : Rollout) (h : rolling (csInitial (csDisable x)) = true) : rolling x = true := by
  unfold csInitial csDisable at h
  repeat' split at h
  all_goals simp_all [rolling]

/-- the status calculation never makes a rollout "rolling" -/
theorem cs_rolling (ro ns : Rollout) (wl : Option WL) (h : calculateStatus ro wl = some ns) (hr : rolling ns = true) :
    rolling ro = true := by
  unfold calculateStatus at h
  split at h
  · injection h with h; subst h
    split at hr
    · simp [rolling] at hr
    · exact hr
  · dsimp only at h
    split at h
    · split at h
      · injection h with h; subst h; simp [rolling] at hr
      · injection h with h; subst h
        exact csInit_rolling ro hr
    · rename_i w
      split at h
      · cases h
      · injection h with h; subst h
        have h2 := csPhase_rolling _ _ _ hr
        rw [csObserve_rolling] at h2
        exact csInit_rolling ro h2

/-- the clean-up keeps phase and Progressing reason -/
theorem finalise_ro (w w' : World) (ns : Rollout) (wl : Option WL) (reason : Reason) (wr done err : Bool) (ws : List String)
    (h : finalise w ns wl reason wr = some (w', done, err, ws)) : w'.ro.phase = ns.phase ∧ w'.ro.reason = ns.reason := by
  unfold finalise at h
  split at h
  · injection h with h
    simp only [Prod.mk.injEq] at h
    obtain ⟨hw, _⟩ := h
    subst hw
    exact ⟨rfl, rfl⟩
  · split at h
    · dsimp only at h
      split at h
      · cases h
      · injection h with h
        simp only [Prod.mk.injEq] at h
        obtain ⟨hw, _⟩ := h
        subst hw
        exact ⟨rfl, rfl⟩
    · split at h
      · split at h
        · cases h
        · injection h with h
          simp only [Prod.mk.injEq] at h
          obtain ⟨hw, _⟩ := h
          subst hw
          exact ⟨rfl, rfl⟩
      · split at h
        · cases h
        · injection h with h
          simp only [Prod.mk.injEq] at h
          obtain ⟨hw, _⟩ := h
          subst hw
          exact ⟨rfl, rfl⟩

theorem position_init (w : World) (h : position w = .init) : w.ro.phase = .progressing ∧ w.ro.reason = .initializing := by
  unfold position at h
  repeat' split at h
  all_goals first | (cases h; done) | (constructor <;> assumption)

theorem position_fin (w : World) (h : position w = .fin) :
    (w.ro.phase = .progressing ∧ (w.ro.reason = .finalising ∨ w.ro.reason = .cancelling)) ∨ w.ro.phase = .terminating ∨ w.ro.phase = .disabling := by
  unfold position at h
  repeat' split at h
  all_goals first
    | (cases h; done)
    | (left; refine ⟨by assumption, Or.inl (by assumption)⟩; done)
    | (left; refine ⟨by assumption, Or.inr (by assumption)⟩; done)
    | (right; left; assumption)
    | (right; right; assumption)

theorem not_rolling_of_fin (w : World) (h : position w = .fin) : rolling w.ro = false := by
  rcases position_fin w h with ⟨h1, h2 | h2⟩ | h1 | h1 <;> simp [rolling, h1, *]

/-- **where "rolling" comes from** — for every world: a reconcile leaves the rollout in Progressing/InRolling (or
    Paused) only if it was there already, or if it was Progressing/Initializing and this reconcile went through
    `doProgressingInitializing` all the way (the place where the binding is checked) -/
theorem rolling_origin_core (w : World) (r : StepResult) (h : reconcileCore w = .val r) (hr : rolling r.w.ro = true) :
    rolling w.ro = true ∨ (position w = .init ∧ r.w.ro.reason = .inRolling) := by
  have e1 := rolling_ro1 w.ro
  unfold reconcileCore at h
  dsimp only at h
  split at h
  · cases h
    left; rw [← e1]; exact hr
  · rename_i ns hcs
    have fromNs : ∀ ro' : Rollout, ro'.phase = ns.phase → ro'.reason = ns.reason → rolling ro' = true → rolling w.ro = true := by
      intro ro' h1 h2 h3
      rw [← e1]; exact cs_rolling _ ns _ hcs (by rw [← rolling_congr ro' ns h1 h2]; exact h3)
    have leafNs : ∀ (ro' : Rollout) (w0 : World) (g rq e : Bool) (ws : List String),
        Out.val { w := { w0 with ro := ro' }, roGone := g, requeue := rq, err := e, writes := ws } = Out.val r →
        ro'.phase = ns.phase → ro'.reason = ns.reason → rolling w.ro = true ∨ (position w = .init ∧ r.w.ro.reason = .inRolling) := by
      intro ro' w0 g rq e ws hh h1 h2
      cases hh
      exact Or.inl (fromNs ro' h1 h2 hr)
    have leafRo1 : ∀ (w0 : World) (g rq e : Bool) (ws : List String),
        Out.val { w := { w0 with ro := (handleFinalizer w.ro).1 }, roGone := g, requeue := rq, err := e, writes := ws } = Out.val r →
        rolling w.ro = true ∨ (position w = .init ∧ r.w.ro.reason = .inRolling) := by
      intro w0 g rq e ws hh
      cases hh
      left; rw [← e1]; exact hr
    have finBranch : ∀ (wl : Option WL) (reason : Reason) (wr : Bool) (upd : Rollout → Rollout),
        (∀ x, rolling (upd x) = true → rolling x = true) →
        (match finalise w ns wl reason wr with
         | none => Out.panic
         | some (w', done, err, ws) =>
           if err then .val { w := { w' with ro := (handleFinalizer w.ro).1 }, roGone := (handleFinalizer w.ro).2.1, requeue := false, err := true,
                              writes := (handleFinalizer w.ro).2.2 ++ ws }
           else if done then .val { w := { w' with ro := upd w'.ro }, roGone := (handleFinalizer w.ro).2.1, requeue := false, err := false,
                                    writes := (handleFinalizer w.ro).2.2 ++ ws }
           else .val { w := w', roGone := (handleFinalizer w.ro).2.1, requeue := true, err := false, writes := (handleFinalizer w.ro).2.2 ++ ws }) = Out.val r →
        rolling w.ro = true ∨ (position w = .init ∧ r.w.ro.reason = .inRolling) := by
      intro wl reason wr upd hupd hh
      split at hh
      · cases hh
      · rename_i w' done err ws hfz
        obtain ⟨f1, f2⟩ := finalise_ro _ _ _ _ _ _ _ _ _ hfz
        split at hh
        · exact leafRo1 _ _ _ _ _ hh
        · split at hh
          · cases hh
            exact Or.inl (fromNs w'.ro f1 f2 (hupd _ hr))
          · cases hh
            exact Or.inl (fromNs w'.ro f1 f2 hr)
    split at h
    · -- Progressing
      rename_i hph
      have hrollIn : w.ro.reason = .inRolling ∨ w.ro.reason = .paused → rolling w.ro = true := by
        intro hx; rw [rolling_iff]; exact ⟨hph, hx⟩
      split at h
      · exact leafNs _ _ _ _ _ _ h rfl rfl
      · rename_i wl hwl
        split at h
        · exact leafNs _ _ _ _ _ _ h rfl rfl
        · rename_i hcons
          split at h
          · cases h
          · -- initializing
            rename_i hreason
            split at h
            · cases h
            · split at h
              · exact leafRo1 _ _ _ _ _ h
              · split at h
                · cases h
                  refine Or.inl (fromNs _ rfl rfl hr)
                · cases h
                  right
                  refine ⟨?_, rfl⟩
                  unfold position
                  rw [hcs]
                  dsimp only
                  rw [hph]
                  dsimp only
                  rw [hwl]
                  dsimp only
                  rw [if_neg hcons, hreason]
          · -- inRolling
            rename_i hreason
            exact Or.inl (hrollIn (Or.inl hreason))
          · exact finBranch (some wl) .success true (fun x => { x with reason := .completed, succeeded := some true })
              (fun x hx => by simp [rolling] at hx) h
          · rename_i hreason
            exact Or.inl (hrollIn (Or.inr hreason))
          · exact finBranch (some wl) .rollback false (fun x => { x with reason := .completed, succeeded := some false })
              (fun x hx => by simp [rolling] at hx) h
          · cases h
            simp [rolling] at hr
          · exact leafNs _ _ _ _ _ _ h rfl rfl
    · -- Terminating
      split at h
      · cases h
      · exact leafNs _ _ _ _ _ _ h rfl rfl
      · exact finBranch w.wl .other false (fun x => { x with term := .completed }) (fun x hx => hx) h
    · -- Disabling
      exact finBranch w.wl .other false (fun x => { x with phase := .disabled }) (fun x hx => by simp [rolling] at hx) h
    · exact leafNs _ _ _ _ _ _ h rfl rfl

/-- the same of the whole reconcile (body + cursor reset: the reset touches neither phase nor reason) -/
theorem rolling_origin (w : World) (r : StepResult) (h : reconcile w = .val r) (hr : rolling r.w.ro = true) :
    rolling w.ro = true ∨ (position w = .init ∧ r.w.ro.reason = .inRolling) := by
  obtain ⟨r0, h0, rfl⟩ := reconcile_val h
  have e : rolling (resetOnExit w r0).w.ro = rolling r0.w.ro := by
    unfold rolling; rw [resetOnExit_phase, resetOnExit_reason]
  rw [e] at hr
  rw [resetOnExit_reason]
  exact rolling_origin_core w r0 h0 hr

end Transitions


/-! ## 4. Every transition of the closed loop satisfies the oracles (all joint states, any number of rollouts) -/

theorem step_tr (s : JS) (t : TRO) (h : s.tr = some t) :
    step s .tr = some { s with tr := stored (trCore t s.net s.mem).t, net := (trCore t s.net s.mem).net, mem := (trCore t s.net s.mem).mem } := by
  unfold step; rw [h]; rfl

theorem step_tr_none (s : JS) (h : s.tr = none) : step s .tr = some s := by
  unfold step; rw [h]

theorem routed_self (n : Net) : routed n n = false := by unfold routed; simp
theorem withdrawn_self (n : Net) : withdrawn n n = false := by
  unfold withdrawn; cases n.canaryIng <;> simp

/-- **1. `routes_only_while_held` (C03 / C05)** — for every joint state: a TrafficRouting reconcile writes the gateway
    towards the canary only while the object is live, Progressing and at least one progressing finalizer is present. -/
theorem routes_only_while_held (s s' : JS) (h : step s .tr = some s') : routesOnlyWhileHeld s s' = true := by
  unfold routesOnlyWhileHeld
  cases htr : s.tr with
  | none =>
    rw [step_tr_none s htr] at h; cases h
    simp [routed_self]
  | some t =>
    rw [step_tr s t htr] at h; cases h
    dsimp only
    rcases core_net t s.net s.mem with ⟨h1, _⟩ | ⟨h1, _, hd, hp, hh⟩ | ⟨h1, _, _⟩
    · rw [h1, routed_self]; rfl
    · have : held (some t) = true := by
        unfold held
        simp [hd, hp, hh]
      rw [this]; simp
    · rw [h1, fin_not_routed]; rfl

/-- **5a. `held_not_restored` (C05)** — for every joint state: a TrafficRouting reconcile withdraws the canary route
    only in deletion or in phase Finalizing / Terminating -/
theorem held_not_restored (s s' : JS) (h : step s .tr = some s') : heldNotRestored s s' = true := by
  unfold heldNotRestored
  cases htr : s.tr with
  | none => rfl
  | some t =>
    rw [step_tr s t htr] at h; cases h
    dsimp only
    rcases core_net t s.net s.mem with ⟨h1, _⟩ | ⟨h1, _, hd, hp, hh⟩ | ⟨h1, _, h3⟩
    · rw [h1, withdrawn_self]; rfl
    · have : withdrawn s.net (trCore t s.net s.mem).net = false := by
        unfold withdrawn
        cases hci : s.net.canaryIng.isSome with
        | false => simp
        | true =>
          have := doTR_keeps_route (tctx t) s.net s.mem hci
          rw [h1]
          cases hx : (doTrafficRouting (tctx t) s.net s.mem).net.canaryIng with
          | none => rw [hx] at this; cases this
          | some _ => simp
      rw [this]; rfl
    · rcases h3 with h3 | h3 | h3 <;> simp [h3]

/-- **4. `tr_finalizer_guard` (C18)** — for every joint state: the TrafficRouting controller removes its own
    finalizer only from an object in deletion and only in a reconcile in which `FinalisingTrafficRouting` reported done,
    so that no canary route is left.  The code's condition says nothing about progressing finalizers: with holders left
    the object stays visible (`held_stays_visible`) until the last of them lets go. -/
theorem tr_finalizer_guard (s s' : JS) (h : step s .tr = some s') :
    trFinalizerGuard s s' (match s.tr with | some t => (trReconcile t s.net s.mem).requeue | none => false) = true := by
  unfold trFinalizerGuard
  cases htr : s.tr with
  | none => rfl
  | some t =>
    rw [step_tr s t htr] at h; cases h
    dsimp only
    have key : (trCore t s.net s.mem).t.hasFinalizer = false → t.hasFinalizer = true →
        (t.deleting && ((trCore t s.net s.mem).net.canaryIng.isNone || !t.hasRef) && !(trReconcile t s.net s.mem).requeue) = true := by
      intro hoff' hf
      have hrq' : (trReconcile t s.net s.mem).requeue = (trCore t s.net s.mem).requeue := rfl
      obtain ⟨hd, _, hdone, hnet, hrq⟩ := core_finalizer t s.net s.mem hf hoff'
      rw [hd, hnet, hrq', hrq]
      cases href : t.hasRef with
      | false => simp
      | true =>
        have := RV.Props.TRSM.finalising_done_clean (tctx t) s.net s.mem href hdone
        simp [this]
    cases hf : t.hasFinalizer with
    | false => simp
    | true =>
      cases hst : stored (trCore t s.net s.mem).t with
      | none => simpa using key (stored_none _ hst).2.1 hf
      | some t' =>
        have := stored_some _ _ hst; subst this
        cases hoff : (trCore t s.net s.mem).t.hasFinalizer with
        | true => simp [hoff]
        | false => simpa [hoff] using key hoff hf

/-- a TrafficRouting reconcile enters phase Finalizing only when no progressing finalizer is left (every joint state) -/
theorem finalizing_entry_unheld (s s' : JS) (h : step s .tr = some s') : finalizingEntryUnheld s.tr s'.tr = true := by
  unfold finalizingEntryUnheld
  cases htr : s.tr with
  | none => rfl
  | some t =>
    rw [step_tr s t htr] at h; cases h
    dsimp only
    cases hst : stored (trCore t s.net s.mem).t with
    | none => rfl
    | some t' =>
      have := stored_some _ _ hst; subst this
      dsimp only
      cases hph : ((trCore t s.net s.mem).t.phase == TRSM.Phase.finalizing && t.phase != TRSM.Phase.finalizing) with
      | false => rfl
      | true =>
        simp only [Bool.and_eq_true, beq_iff_eq, bne_iff_ne, ne_eq] at hph
        rcases (core_phase t s.net s.mem).1 hph.1 with h1 | ⟨h1, h2⟩
        · exact absurd h1 hph.2
        · simp [h1, h2]

/-- a TrafficRouting reconcile never touches the progressing finalizers -/
theorem tr_keeps_holders (s s' : JS) (h : step s .tr = some s') : trKeepsHolders s.tr s'.tr = true := by
  unfold trKeepsHolders
  cases htr : s.tr with
  | none => rfl
  | some t =>
    rw [step_tr s t htr] at h; cases h
    dsimp only
    cases hst : stored (trCore t s.net s.mem).t with
    | none =>
      have := (stored_none _ hst).2.2
      rw [(core_frame t s.net s.mem).1] at this
      simp [this]
    | some t' =>
      have := stored_some _ _ hst; subst this
      simp [(core_frame t s.net s.mem).1]

end RV.Props.TRBind
