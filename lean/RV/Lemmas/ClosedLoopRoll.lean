/-
  One Rollout reconcile of a *rolling* rollout (Progressing / InRolling, readable workload, no rollback, no new
  revision, no plan change, no jump request): the whole `RV.RolloutSM.reconcile` reduces to one round of the release
  manager; what that round may do to the sub-status and to the BatchRelease.
-/
import RV.Lemmas.ClosedLoopDefs
namespace RV.Lemmas.ClosedLoop
open RV.Arith RV.Traffic RV.RolloutSM RV.Props.Reconcile RV.Props.Rollout

theorem rolling_step (w : World) (wl : WL) (s : Sub)
    (hg : RoGood w.ro) (hph : w.ro.phase = .progressing) (hr : w.ro.reason = .inRolling)
    (hwl : w.wl = some wl) (hc : wl.consistent = true) (hnr : wl.inRollback = false)
    (hs : w.ro.sub = some s) (hsub : SubGood w.ro s wl.canaryRev) :
    ∃ r, reconcile w = .val r ∧ r.roGone = false ∧ SpecKept w.ro r.w.ro ∧ r.w.ro.phase = .progressing ∧ r.w.wl = some wl ∧
      ((r.w.ro.reason = .finalising ∧ (∃ s', r.w.ro.sub = some s' ∧ s'.finStep = .empty) ∧ r.w.br = w.br ∧ r.w.net = w.net) ∨
       (r.w.ro.reason = .inRolling ∧
        (∃ s', r.w.ro.sub = some s' ∧ SubGood r.w.ro s' wl.canaryRev ∧ s.curIdx ≤ s'.curIdx ∧ s'.curIdx ≤ s.curIdx + 1) ∧
        BrRoll w.ro s.curIdx (getRolloutID wl) w.br r.w.br)) := by
  sorry

end RV.Lemmas.ClosedLoop
