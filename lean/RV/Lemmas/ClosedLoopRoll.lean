/-
  One Rollout reconcile of a *rolling* rollout (Progressing / InRolling, readable workload, no rollback, no new
  revision, no plan change, no jump request): the whole `RV.RolloutSM.reconcile` reduces to one round of the release
  manager; what that round may do to the sub-status and to the BatchRelease.
-/
import RV.Lemmas.ClosedLoopDefs
namespace RV.Lemmas.ClosedLoop
open RV.Arith RV.Traffic RV.RolloutSM RV.Props.Reconcile RV.Props.Rollout

/-! ### frames of the release manager's actions -/

theorem fresh_ne : Age.fresh ≠ Age.none := by intro h; cases h

/-- the part of the sub-status that no action of one release-manager round changes (the last-update time may only be
    refreshed), together with the step cursor -/
structure SubKeep (s s' : Sub) : Prop where
  hash : s'.hash = s.hash
  rev : s'.canaryRev = s.canaryRev
  fin : s'.finStep = s.finStep
  lu : s.lastUpdate ≠ .none → s'.lastUpdate ≠ .none
  cur : s'.curIdx = s.curIdx
  next : s'.nextIdx = s.nextIdx

theorem SubKeep.refl (s : Sub) : SubKeep s s := ⟨rfl, rfl, rfl, fun h => h, rfl, rfl⟩

theorem SubKeep.trans {a b c : Sub} (h1 : SubKeep a b) (h2 : SubKeep b c) : SubKeep a c :=
  ⟨h2.hash.trans h1.hash, h2.rev.trans h1.rev, h2.fin.trans h1.fin, fun h => h2.lu (h1.lu h), h2.cur.trans h1.cur,
    h2.next.trans h1.next⟩

/-- an action that leaves rollout, workload, BatchRelease, cursor and the kept part of the sub-status alone -/
structure Keep (c c' : Ctx) : Prop where
  ro : c'.ro = c.ro
  wl : c'.wl = c.wl
  br : c'.br = c.br
  sub : SubKeep c.sub c'.sub

theorem Keep.refl (c : Ctx) : Keep c c := ⟨rfl, rfl, rfl, SubKeep.refl _⟩

theorem Keep.trans {a b c : Ctx} (h1 : Keep a b) (h2 : Keep b c) : Keep a c :=
  ⟨h2.ro.trans h1.ro, h2.wl.trans h1.wl, h2.br.trans h1.br, h1.sub.trans h2.sub⟩

theorem Keep.requeue {a b : Ctx} (h : Keep a b) (q : Bool) : Keep a { b with requeue := q } :=
  ⟨h.ro, h.wl, h.br, h.sub⟩

/-- the BatchRelease `runBatchRelease` leaves for the context's step -/
def rbr (ro : Rollout) (c : Ctx) : Option BR :=
  (runBatchRelease ro c.br (getRolloutID c.wl) c.sub.curIdx c.wl.inRollback).2.1

theorem rbr_congr (ro : Rollout) {c c' : Ctx} (h : Keep c c') : rbr ro c' = rbr ro c := by
  unfold rbr; rw [h.br, h.wl, h.sub.cur]

/-- what one sub-state action may do: the frame, the cursor stays or advances to the natural successor, the
    BatchRelease stays or is what `runBatchRelease` leaves -/
structure Stp (ro : Rollout) (c c' : Ctx) : Prop where
  roEq : c'.ro = c.ro
  wlEq : c'.wl = c.wl
  hash : c'.sub.hash = c.sub.hash
  rev : c'.sub.canaryRev = c.sub.canaryRev
  fin : c'.sub.finStep = c.sub.finStep
  lu : c.sub.lastUpdate ≠ .none → c'.sub.lastUpdate ≠ .none
  cursor : (c'.sub.curIdx = c.sub.curIdx ∧ c'.sub.nextIdx = c.sub.nextIdx) ∨
    (c.sub.curIdx < ro.steps.length ∧ c'.sub.curIdx = c.sub.curIdx + 1 ∧
      c'.sub.nextIdx = nextBatchIndex ro.steps.length (c.sub.curIdx + 1))
  br : c'.br = c.br ∨ c'.br = rbr ro c

theorem Keep.toStp {c c' : Ctx} (ro : Rollout) (h : Keep c c') : Stp ro c c' :=
  ⟨h.ro, h.wl, h.sub.hash, h.sub.rev, h.sub.fin, h.sub.lu, Or.inl ⟨h.sub.cur, h.sub.next⟩, Or.inl h.br⟩

theorem Keep.stp {a b c : Ctx} {ro : Rollout} (h1 : Keep a b) (h2 : Stp ro b c) : Stp ro a c := by
  refine ⟨h2.roEq.trans h1.ro, h2.wlEq.trans h1.wl, h2.hash.trans h1.sub.hash, h2.rev.trans h1.sub.rev,
    h2.fin.trans h1.sub.fin, fun h => h2.lu (h1.sub.lu h), ?_, ?_⟩
  · rcases h2.cursor with ⟨a1, a2⟩ | ⟨a1, a2, a3⟩
    · exact Or.inl ⟨a1.trans h1.sub.cur, a2.trans h1.sub.next⟩
    · rw [h1.sub.cur] at a1 a2 a3; exact Or.inr ⟨a1, a2, a3⟩
  · rcases h2.br with hb | hb
    · exact Or.inl (hb.trans h1.br)
    · exact Or.inr (by rw [hb, rbr_congr ro h1])

theorem callTM_keep (f : TCtx → Net → Mem → TOut) (c c' : Ctx) (cb d e : Bool) (h : callTM f c cb = some (c', d, e)) :
    Keep c c' := by
  unfold callTM at h
  split at h
  · cases h
  · simp only [Option.some.injEq, Prod.mk.injEq] at h
    obtain ⟨hc, _, _⟩ := h
    subst hc
    split
    · exact ⟨rfl, rfl, rfl, ⟨rfl, rfl, rfl, fun _ => fresh_ne, rfl, rfl⟩⟩
    · exact ⟨rfl, rfl, rfl, SubKeep.refl _⟩

theorem callOpt_keep (c c1 : Ctx) (p : Prop) [Decidable p] (f : TCtx → Net → Mem → TOut) (rt e : Bool)
    (h : (if p then callTM f c else some (c, false, false)) = some (c1, rt, e)) : Keep c c1 := by
  split at h
  · exact callTM_keep _ _ _ _ _ _ h
  · cases h; exact Keep.refl _

theorem doCanaryUpgrade_br (ro : Rollout) (s : Sub) (wl : WL) (br : Option BR) :
    (doCanaryUpgrade ro s wl br).2.1 = (runBatchRelease ro br (getRolloutID wl) s.curIdx wl.inRollback).2.1 := by
  unfold doCanaryUpgrade
  dsimp only
  split
  · rfl
  · split
    · rfl
    · split
      · rfl
      · split <;> rfl

theorem upgradeStep_stp (ro : Rollout) (step : Step) (c c' : Ctx) (err : Bool) (h : upgradeStep ro step c = .ok c' err) :
    Stp ro c c' := by
  have hb := doCanaryUpgrade_br ro c.sub c.wl c.br
  unfold upgradeStep at h
  dsimp only at h
  split at h
  · simp only [RunOut.ok.injEq] at h
    obtain ⟨hc, _⟩ := h
    subst hc
    exact ⟨rfl, rfl, rfl, rfl, rfl, fun _ => fresh_ne, Or.inl ⟨rfl, rfl⟩, Or.inr hb⟩
  · simp only [RunOut.ok.injEq] at h
    obtain ⟨hc, _⟩ := h
    subst hc
    exact ⟨rfl, rfl, rfl, rfl, rfl, fun hh => hh, Or.inl ⟨rfl, rfl⟩, Or.inr hb⟩

theorem afterRetry_stp (ro : Rollout) (r : Option (Ctx × Bool × Bool)) (k : Ctx → RunOut) (c0 c' : Ctx) (err : Bool)
    (hr : ∀ c1 rt e, r = some (c1, rt, e) → Keep c0 c1)
    (hk : ∀ c1, Keep c0 c1 → k c1 = .ok c' err → Stp ro c0 c')
    (h : afterRetryCall r k = .ok c' err) : Stp ro c0 c' := by
  obtain ⟨c1, rt, e, hcall, hcase⟩ := afterRetryCall_spec _ _ _ _ h
  have h1 := hr c1 rt e hcall
  rcases hcase with ⟨hc, _⟩ | ⟨hc, _⟩ | ⟨_, _, hk'⟩
  · subst hc; exact h1.toStp ro
  · subst hc; exact (h1.requeue true).toStp ro
  · exact hk c1 h1 hk'

theorem enterUpgrade_stp (ro : Rollout) (step : Step) (c0 c1 c' : Ctx) (err : Bool) (h1 : Keep c0 c1)
    (h : upgradeStep ro step { c1 with sub := { c1.sub with state := .upgrade, lastUpdate := .fresh } } = .ok c' err) :
    Stp ro c0 c' := by
  have hk : Keep c0 { c1 with sub := { c1.sub with state := .upgrade, lastUpdate := .fresh } } :=
    ⟨h1.ro, h1.wl, h1.br, ⟨h1.sub.hash, h1.sub.rev, h1.sub.fin, fun _ => fresh_ne, h1.sub.cur, h1.sub.next⟩⟩
  exact hk.stp (upgradeStep_stp _ _ _ _ _ h)

theorem initStep_stp (ro : Rollout) (step : Step) (c c' : Ctx) (err : Bool) (h : initStep ro step c = .ok c' err) :
    Stp ro c c' := by
  unfold initStep at h
  dsimp only at h
  split at h
  · split at h
    · simp only [RunOut.ok.injEq] at h
      obtain ⟨hc, _⟩ := h
      subst hc
      exact Keep.toStp ro ⟨rfl, rfl, rfl, ⟨rfl, rfl, rfl, fun hh => hh, rfl, rfl⟩⟩
    · refine afterRetry_stp ro _ _ c c' err (fun c1 rt e hh => callOpt_keep c c1 _ _ rt e hh) (fun c1 h1 hk => ?_) h
      refine afterRetry_stp ro _ _ c c' err (fun c2 rt e hh => h1.trans (callOpt_keep c1 c2 _ _ rt e hh)) (fun c2 h2 hk2 => ?_) hk
      exact enterUpgrade_stp ro step c c2 c' err h2 hk2
  · refine afterRetry_stp ro _ _ c c' err (fun c1 rt e hh => callOpt_keep c c1 _ _ rt e hh) (fun c1 h1 hk => ?_) h
    exact enterUpgrade_stp ro step c c1 c' err h1 hk

theorem stateStep_stp (ro : Rollout) (step : Step) (c c' : Ctx) (err : Bool) (h : stateStep ro step c = .ok c' err) :
    Stp ro c c' := by
  unfold stateStep at h
  split at h
  · exact initStep_stp _ _ _ _ _ h
  · exact upgradeStep_stp _ _ _ _ _ h
  · split at h
    · cases h
    · rename_i c4 d e hc
      have hk := callTM_keep _ _ _ _ _ _ hc
      split at h
      · cases h; exact hk.toStp ro
      · split at h
        · cases h
          exact Keep.toStp ro ⟨hk.ro, hk.wl, hk.br, ⟨hk.sub.hash, hk.sub.rev, hk.sub.fin, fun _ => fresh_ne, hk.sub.cur, hk.sub.next⟩⟩
        · cases h; exact (hk.requeue true).toStp ro
  · cases h; exact Keep.toStp ro ⟨rfl, rfl, rfl, ⟨rfl, rfl, rfl, fun hh => hh, rfl, rfl⟩⟩
  · split at h
    · cases h
    · cases h; exact Keep.toStp ro ⟨rfl, rfl, rfl, ⟨rfl, rfl, rfl, fun _ => fresh_ne, rfl, rfl⟩⟩
    · cases h; exact (Keep.refl c).requeue _ |>.toStp ro
  · dsimp only at h
    split at h
    · rename_i hlt
      cases h
      exact ⟨rfl, rfl, rfl, rfl, rfl, fun _ => fresh_ne, Or.inr ⟨by omega, rfl, rfl⟩, Or.inl rfl⟩
    · cases h; exact Keep.toStp ro ⟨rfl, rfl, rfl, ⟨rfl, rfl, rfl, fun _ => fresh_ne, rfl, rfl⟩⟩
  · cases h; exact (Keep.refl c).toStp ro

/-! ### the BatchRelease -/

/-- the rollout-id patch of `syncStep` -/
inductive BrSync : Option BR → Option BR → Prop
  | same (br : Option BR) : BrSync br br
  | patched (b : BR) (id : String) : BrSync (some b) (some { b with rolloutID := id, hashSame := false })

theorem BrSync.roll {ro : Rollout} {cur : Int} {id : String} {a b : Option BR} (h : BrSync a b) : BrRoll ro cur id a b := by
  cases h with
  | same => exact BrRoll.same _
  | patched b i => exact BrRoll.kept _ _ rfl rfl rfl rfl

theorem syncStep_keep (c : Ctx) :
    (syncStep c).ro = c.ro ∧ (syncStep c).wl = c.wl ∧ SubKeep c.sub (syncStep c).sub ∧ BrSync c.br (syncStep c).br := by
  obtain ⟨ro, sub, wl, br, net, mem, rq, ws, seen⟩ := c
  unfold syncStep
  dsimp only
  cases br with
  | none => dsimp only; split <;> exact ⟨rfl, rfl, ⟨rfl, rfl, rfl, fun hh => hh, rfl, rfl⟩, BrSync.same _⟩
  | some b =>
    dsimp only
    split
    · split <;> exact ⟨rfl, rfl, ⟨rfl, rfl, rfl, fun hh => hh, rfl, rfl⟩, BrSync.patched _ _⟩
    · split <;> exact ⟨rfl, rfl, ⟨rfl, rfl, rfl, fun hh => hh, rfl, rfl⟩, BrSync.same _⟩

/-- a rollout-id patch followed by `runBatchRelease` (not in rollback) for step `cur` -/
theorem rbr_roll (ro : Rollout) (b0 br1 : Option BR) (id : String) (cur : Int) (hs : BrSync b0 br1) :
    BrRoll ro cur id b0 (runBatchRelease ro br1 id cur false).2.1 := by
  unfold runBatchRelease
  dsimp only
  cases hs with
  | same =>
    cases b0 with
    | none => exact BrRoll.created
    | some b =>
      dsimp only
      split
      · exact BrRoll.same _
      · exact BrRoll.updated _ _ rfl rfl rfl rfl
  | patched b i =>
    dsimp only
    split
    · exact BrRoll.kept _ _ rfl rfl rfl rfl
    · exact BrRoll.updated _ _ rfl rfl rfl rfl

theorem BrRoll.congr {ro ro' : Rollout} {cur : Int} {id : String} {a b : Option BR} (h : BrRoll ro cur id a b)
    (hs : ro'.steps = ro.steps) : BrRoll ro' cur id a b := by
  cases h with
  | same => exact BrRoll.same _
  | created =>
    have e : desiredBR ro id (cur - 1) false = desiredBR ro' id (cur - 1) false := by
      unfold desiredBR; rw [hs]; rfl
    rw [e]; exact BrRoll.created
  | kept b b' h1 h2 h3 h4 => exact BrRoll.kept _ _ h1 h2 h3 h4
  | updated b b' h1 h2 h3 h4 => exact BrRoll.updated _ _ h1 (by rw [hs]; exact h2) h3 h4

/-! ### one round of the release manager on a rolling rollout -/

theorem nextBatchIndex_le (n cur : Int) (h0 : 1 ≤ cur) (h : cur ≤ n) : nextBatchIndex n cur ≤ n := by
  unfold nextBatchIndex; split <;> omega

theorem roll_of_stp (c0 c1 c' : Ctx) (rev : String) (h1 : c1.ro = c0.ro) (h2 : c1.wl = c0.wl) (h3 : SubKeep c0.sub c1.sub)
    (h4 : BrSync c0.br c1.br) (st : Stp c0.ro c1 c') (hnr : c0.wl.inRollback = false) (hg : SubGood c0.ro c0.sub rev) :
    c'.ro = c0.ro ∧ c'.wl = c0.wl ∧ SubGood c0.ro c'.sub rev ∧ c0.sub.curIdx ≤ c'.sub.curIdx ∧
    c'.sub.curIdx ≤ c0.sub.curIdx + 1 ∧ BrRoll c0.ro c0.sub.curIdx (getRolloutID c0.wl) c0.br c'.br := by
  have hlo := hg.lo
  have hhi := hg.hi
  have hcur : (c'.sub.curIdx = c0.sub.curIdx ∧ c'.sub.nextIdx = c0.sub.nextIdx) ∨
      (c0.sub.curIdx < c0.ro.steps.length ∧ c'.sub.curIdx = c0.sub.curIdx + 1 ∧
        c'.sub.nextIdx = nextBatchIndex c0.ro.steps.length (c0.sub.curIdx + 1)) := by
    rcases st.cursor with ⟨a1, a2⟩ | ⟨a1, a2, a3⟩
    · exact Or.inl ⟨a1.trans h3.cur, a2.trans h3.next⟩
    · rw [h3.cur] at a1 a2 a3; exact Or.inr ⟨a1, a2, a3⟩
  refine ⟨st.roEq.trans h1, st.wlEq.trans h2, ?_, ?_, ?_, ?_⟩
  · refine ⟨?_, ?_, ?_, st.lu (h3.lu hg.lu), (st.hash.trans h3.hash).trans hg.hash, (st.rev.trans h3.rev).trans hg.rev,
      (st.fin.trans h3.fin).trans hg.fin⟩
    · rcases hcur with ⟨a1, _⟩ | ⟨_, a2, _⟩ <;> omega
    · rcases hcur with ⟨a1, _⟩ | ⟨_, a2, _⟩ <;> omega
    · rcases hcur with ⟨a1, a2⟩ | ⟨_, a2, a3⟩
      · rw [a1, a2]; exact hg.next
      · rw [a2, a3]
  · rcases hcur with ⟨a1, _⟩ | ⟨_, a2, _⟩ <;> omega
  · rcases hcur with ⟨a1, _⟩ | ⟨_, a2, _⟩ <;> omega
  · rcases st.br with hb | hb
    · rw [hb]; exact h4.roll
    · rw [hb]; unfold rbr; rw [h2, hnr, h3.cur]; exact rbr_roll _ _ _ _ _ h4

/-- **one round of the release manager on a rolling rollout** (no rollback, no jump request): rollout and workload are
    kept, the sub-status stays good with the step index kept or advanced by one, the BatchRelease changes as `BrRoll` says -/
theorem runCanary_roll (c0 c' : Ctx) (err : Bool) (rev : String) (h : runCanary c0 = .ok c' err)
    (hnr : c0.wl.inRollback = false) (hg : SubGood c0.ro c0.sub rev) :
    c'.ro = c0.ro ∧ c'.wl = c0.wl ∧ SubGood c0.ro c'.sub rev ∧ c0.sub.curIdx ≤ c'.sub.curIdx ∧
    c'.sub.curIdx ≤ c0.sub.curIdx + 1 ∧ BrRoll c0.ro c0.sub.curIdx (getRolloutID c0.wl) c0.br c'.br := by
  obtain ⟨y1, y2, y3, y4⟩ := syncStep_keep c0
  unfold runCanary at h
  dsimp only at h
  split at h
  · cases h
  · rename_i s2 hj
    exfalso
    obtain ⟨_, hjs⟩ := jump_spec _ _ _ _ hj
    obtain ⟨j1, _⟩ := hjs rfl
    apply j1
    rw [y3.next, y3.cur]; exact hg.next
  · rename_i s2 hj
    obtain ⟨hsame, _⟩ := jump_spec _ _ _ _ hj
    have hs2 : s2 = (syncStep c0).sub := hsame rfl
    subst hs2
    split at h
    · cases h
    · rename_i step _
      split at h
      · cases h
      · rename_i c3 done e hpre
        have hk3 : Keep (syncStep c0) c3 := by
          unfold preStep at hpre
          split at hpre
          · exact callTM_keep _ _ _ _ _ _ hpre
          · cases hpre; exact Keep.refl _
        have fin : Stp c0.ro (syncStep c0) c' → _ := fun st => roll_of_stp c0 (syncStep c0) c' rev y1 y2 y3 y4 st hnr hg
        split at h
        · cases h; exact fin (hk3.toStp _)
        · split at h
          · cases h; exact fin ((hk3.requeue true).toStp _)
          · exact fin (hk3.stp (stateStep_stp _ _ _ _ _ h))

theorem runCanary_roll_total (c0 : Ctx) (rev : String) (hg : SubGood c0.ro c0.sub rev) : runCanary c0 ≠ .panic :=
  runCanary_total c0 ⟨hg.lo, hg.hi, by rw [hg.next]; exact nextBatchIndex_le _ _ hg.lo hg.hi, hg.lu⟩

/-! ### the whole reconcile -/

theorem hf_good (ro : Rollout) (hg : RoGood ro) : handleFinalizer ro = (ro, false, []) := by
  unfold handleFinalizer
  rw [if_neg (by simp [hg.notDeleting]), if_neg (by simp [hg.fin])]

theorem cs_good (ro : Rollout) (wl : WL) (hg : RoGood ro) (hph : ro.phase = .progressing) (hc : wl.consistent = true) :
    calculateStatus ro (some wl) = some (csObserve ro wl) := by
  have e1 : csDisable ro = ro := by
    unfold csDisable; rw [if_neg (by simp [hg.enabled])]
  have e2 : csInitial ro = ro := by
    unfold csInitial; rw [if_neg (by simp [hph])]
  have e3 : (csObserve ro wl).phase = .progressing := by
    rw [(csObserve_same ro wl).2.2, hph]
  have e4 : csPhase ro (csObserve ro wl) wl = csObserve ro wl := by
    unfold csPhase; rw [e3]
  unfold calculateStatus
  rw [if_neg (by simp [hg.notDeleting])]
  dsimp only
  rw [if_neg (by simp [hc]), e1, e2, e4]

theorem csObserve_frame (ro : Rollout) (wl : WL) :
    (csObserve ro wl).hasFinalizer = ro.hasFinalizer ∧ (csObserve ro wl).reason = ro.reason := by
  unfold csObserve
  split
  · split <;> exact ⟨rfl, rfl⟩
  · exact ⟨rfl, rfl⟩

/-- a reconcile of a good rolling rollout is `inRolling` on the observed status; on an error the status is not written -/
theorem reconcile_roll (w : World) (wl : WL) (s1 : Sub) (hg : RoGood w.ro) (hph : w.ro.phase = .progressing)
    (hr : w.ro.reason = .inRolling) (hwl : w.wl = some wl) (hc : wl.consistent = true)
    (hs1 : (csObserve w.ro wl).sub = some s1) :
    reconcile w =
      (match inRolling w w.ro (csObserve w.ro wl) s1 wl with
       | .panic => .panic
       | .val r =>
         if r.err then .val { w := { r.w with ro := w.ro }, roGone := false, requeue := false, err := true, writes := [] ++ r.writes }
         else .val { w := r.w, roGone := false, requeue := r.requeue, err := false, writes := [] ++ r.writes }) := by
  rw [reconcile_eq_core_of_alive w hg.notDeleting hg.enabled]
  unfold reconcileCore
  dsimp only
  rw [hf_good w.ro hg, hwl]
  dsimp only
  rw [cs_good w.ro wl hg hph hc]
  dsimp only
  rw [hph]
  dsimp only
  rw [if_neg (by simp [hc]), hr]
  dsimp only
  rw [hs1]
  rfl

/-- `doProgressingInRolling` without rollback, pause, new revision or plan change is normal rolling -/
theorem inRolling_roll (w : World) (ns : Rollout) (s os : Sub) (wl : WL) (hos : w.ro.sub = some os)
    (hnr : wl.inRollback = false) (hp : ns.paused = false) (hrev : wl.canaryRev = os.canaryRev) (hh : os.hash = .same) :
    inRolling w w.ro ns s wl =
      if s.state = .completed then
        .val { w := { w with ro := { ns with reason := .finalising } }, roGone := false, requeue := false, err := false, writes := [] }
      else
        match runCanary (toCtx { w with ro := ns }
            (if s.nextIdx ≤ 0 ∨ s.nextIdx > (ns.steps.length : Int) then
              { s with nextIdx := nextBatchIndex (ns.steps.length : Int) s.curIdx } else s) wl) with
        | .panic => .panic
        | .ok c err => .val { w := ofCtx w c ns, roGone := false, requeue := c.requeue, err := err, writes := c.writes } := by
  unfold inRolling
  dsimp only
  rw [hos]
  dsimp only
  rw [if_neg (by simp [hnr]), if_neg (by simp [hp]), if_neg (by simp [hnr]), if_neg (by simp [hrev]), if_neg (by simp [hh])]
  rfl

theorem rolling_step (w : World) (wl : WL) (s : Sub)
    (hg : RoGood w.ro) (hph : w.ro.phase = .progressing) (hr : w.ro.reason = .inRolling)
    (hwl : w.wl = some wl) (hc : wl.consistent = true) (hnr : wl.inRollback = false)
    (hs : w.ro.sub = some s) (hsub : SubGood w.ro s wl.canaryRev) :
    ∃ r, reconcile w = .val r ∧ r.roGone = false ∧ SpecKept w.ro r.w.ro ∧ r.w.ro.phase = .progressing ∧ r.w.wl = some wl ∧
      ((r.w.ro.reason = .finalising ∧ (∃ s', r.w.ro.sub = some s' ∧ s'.finStep = .empty) ∧ r.w.br = w.br ∧ r.w.net = w.net) ∨
       (r.w.ro.reason = .inRolling ∧
        (∃ s', r.w.ro.sub = some s' ∧ SubGood r.w.ro s' wl.canaryRev ∧ s.curIdx ≤ s'.curIdx ∧ s'.curIdx ≤ s.curIdx + 1) ∧
        BrRoll w.ro s.curIdx (getRolloutID wl) w.br r.w.br)) := by
  obtain ⟨o1, o2, o3⟩ := csObserve_same w.ro wl
  obtain ⟨f1, f2⟩ := csObserve_frame w.ro wl
  cases hs1 : (csObserve w.ro wl).sub with
  | none => rw [hs1, hs] at o2; simp at o2
  | some s1 =>
    rw [hs1, hs] at o2
    simp only [Option.map_some, Option.some.injEq, subCore, Prod.mk.injEq] at o2
    obtain ⟨e1, e2, e3, e4, e5, e6, e7⟩ := o2
    have hsteps : (csObserve w.ro wl).steps = w.ro.steps := o1.1
    have hpaused : (csObserve w.ro wl).paused = false := o1.2.2.2.1.trans hg.unpaused
    rw [reconcile_roll w wl s1 hg hph hr hwl hc hs1,
      inRolling_roll w (csObserve w.ro wl) s1 s wl hs hnr hpaused hsub.rev.symm hsub.hash]
    by_cases hst : s1.state = .completed
    · rw [if_pos hst]
      refine ⟨_, rfl, rfl, ⟨o1, f1⟩, o3.trans hph, hwl, Or.inl ⟨rfl, ⟨s1, hs1, e5.trans hsub.fin⟩, rfl, rfl⟩⟩
    · rw [if_neg hst]
      have hgN : SubGood (csObserve w.ro wl)
          (if s1.nextIdx ≤ 0 ∨ s1.nextIdx > ((csObserve w.ro wl).steps.length : Int) then
            { s1 with nextIdx := nextBatchIndex ((csObserve w.ro wl).steps.length : Int) s1.curIdx } else s1) wl.canaryRev := by
        have hlo := hsub.lo
        have hhi := hsub.hi
        split
        · exact ⟨by rw [e1]; exact hlo, by rw [hsteps, e1]; exact hhi, rfl, by rw [e4]; exact hsub.lu, e7.trans hsub.hash,
            e6.trans hsub.rev, e5.trans hsub.fin⟩
        · exact ⟨by rw [e1]; exact hlo, by rw [hsteps, e1]; exact hhi, by rw [hsteps, e1, e2]; exact hsub.next,
            by rw [e4]; exact hsub.lu, e7.trans hsub.hash, e6.trans hsub.rev, e5.trans hsub.fin⟩
      have hcurN : (if s1.nextIdx ≤ 0 ∨ s1.nextIdx > ((csObserve w.ro wl).steps.length : Int) then
            { s1 with nextIdx := nextBatchIndex ((csObserve w.ro wl).steps.length : Int) s1.curIdx } else s1).curIdx = s.curIdx := by
        split <;> exact e1
      cases hrc : runCanary (toCtx { w with ro := csObserve w.ro wl }
            (if s1.nextIdx ≤ 0 ∨ s1.nextIdx > ((csObserve w.ro wl).steps.length : Int) then
              { s1 with nextIdx := nextBatchIndex ((csObserve w.ro wl).steps.length : Int) s1.curIdx } else s1) wl) with
      | panic => exact absurd hrc (runCanary_roll_total _ wl.canaryRev hgN)
      | ok c err =>
        obtain ⟨r1, r2, r3, r4, r5, r6⟩ := runCanary_roll _ c err wl.canaryRev hrc hnr hgN
        have r2' : c.wl = wl := r2
        have hbr : BrRoll w.ro s.curIdx (getRolloutID wl) w.br c.br := by
          have := r6.congr (ro' := w.ro) hsteps.symm
          rw [← hcurN]
          exact this
        have r4' : s.curIdx ≤ c.sub.curIdx := by rw [← hcurN]; exact r4
        have r5' : c.sub.curIdx ≤ s.curIdx + 1 := by rw [← hcurN]; exact r5
        cases err with
        | true =>
          refine ⟨_, rfl, rfl, ⟨Same.rfl' _, rfl⟩, hph, by show some c.wl = some wl; rw [r2'], Or.inr ⟨hr, ⟨s, hs, hsub, Int.le_refl _, by omega⟩, hbr⟩⟩
        | false =>
          refine ⟨_, rfl, rfl, ⟨o1, f1⟩, o3.trans hph, by show some c.wl = some wl; rw [r2'], Or.inr ⟨f2.trans hr, ⟨c.sub, rfl, ?_, r4', r5'⟩, hbr⟩⟩
          exact ⟨r3.lo, r3.hi, r3.next, r3.lu, r3.hash, r3.rev, r3.fin⟩

end RV.Lemmas.ClosedLoop
