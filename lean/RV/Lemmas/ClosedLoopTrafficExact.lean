/-
  C03, second sentence, in the closed loop: when a Rollout reconcile reports a step as routed (`StepTrafficRouting` → a later
  sub-state of the same step), the canary Ingress carries exactly the step's weight and both Services are in place
  (`RV.Props.Traffic.done_means_routed` lifted to the joint state).
-/
import RV.Lemmas.ClosedLoopTrafficDefs
import RV.Lemmas.ClosedLoopTrafficRoll
import RV.Lemmas.ClosedLoopTrafficRollRoute
import RV.Lemmas.ClosedLoopGate
import RV.Props.TrafficThms
namespace RV.Lemmas.ClosedLoopTraffic
open RV.Arith RV.Traffic RV.RolloutSM RV.ClosedLoop RV.Oracle.ClosedLoop RV.Oracle.ClosedLoopTraffic RV.Lemmas.ClosedLoop

theorem routed_exact_step (s s' : CS) (h : trInv s = true) (hs : step s .ro = some s') : routedExact s s' = true := by
  sorry

end RV.Lemmas.ClosedLoopTraffic
