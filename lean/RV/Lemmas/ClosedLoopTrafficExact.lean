/-
  C03, second sentence, in the closed loop: when a Rollout reconcile reports a step as routed (`StepTrafficRouting` → a later
  sub-state of the same step), the canary Ingress carries exactly the step's weight and both Services are in place
  (`RV.Props.Traffic.done_means_routed` lifted to the joint state).
-/
import RV.Lemmas.ClosedLoopTrafficDefs
import RV.Lemmas.ClosedLoopTrafficRoll
import RV.Lemmas.ClosedLoopTrafficRollRoute
import RV.Lemmas.ClosedLoopGate
import RV.Props.TrafficThms
namespace RV.Lemmas.ClosedLoopTraffic
open RV.Arith RV.Traffic RV.RolloutSM RV.ClosedLoop RV.Oracle.ClosedLoop RV.Oracle.ClosedLoopTraffic RV.Lemmas.ClosedLoop
open RV.Props.Rollout RV.Props.Reconcile

/-! ### the Manager: a *done* verdict of `DoTrafficRouting` on a weighted step -/

/-- `DoTrafficRouting` reporting done for a step with weight `wt`: nothing was written, the route carries exactly `wt`
    (or is absent for weight 0), and — Services generated — the canary Service selects the canary revision and the
    stable Service is pinned to the stable revision -/
theorem ex_routed (t : TCtx) (n : Net) (m : Mem) (wt : Nat) (href : t.hasRef = true) (hw : t.weight = some wt)
    (hd : (doTrafficRouting t n m).done = true) :
    (doTrafficRouting t n m).net = n ∧
    n.canaryIng = (if wt = 0 ∧ n.canaryIng.isNone = true then none else some wt) ∧
    (t.disableGen = false → n.canarySvc = some t.canaryRev ∧ n.stableSel = some t.stableRev) := by
  obtain ⟨fp, _⟩ := RV.Props.Traffic.done_is_fixed_point t n m hd
  have h := RV.Props.Traffic.done_means_routed t n m
  rw [fp, hd] at h
  unfold RV.Oracle.Traffic.doneMeansRouted at h
  rw [if_pos ⟨rfl, href⟩, hw] at h
  simp only [Bool.and_eq_true, Bool.or_eq_true, decide_eq_true_eq] at h
  obtain ⟨h1, h2⟩ := h
  refine ⟨fp, ?_, ?_⟩
  · rcases h1 with h1 | ⟨h0, h1⟩
    · rw [h1]
      rw [if_neg (by intro hc; cases hc.2)]
    · rw [h1, if_pos ⟨h0, rfl⟩]
  · intro hdg
    rcases h2 with h2 | h2
    · rw [hdg] at h2; cases h2
    · exact h2

/-! ### the sub-state action `StepTrafficRouting` -/

/-- leaving `StepTrafficRouting` on a weighted step of a rollout with traffic routing: the network is untouched and routed -/
theorem ex_stateStep (ro : Rollout) (step : Step) (c c' : Ctx) (err : Bool) (wt : Nat)
    (hst : c.sub.state = .trafficRouting) (h : stateStep ro step c = .ok c' err) (hpost : postRouting c'.sub.state = true)
    (hlo : 1 ≤ c.sub.curIdx) (hhi : c.sub.curIdx ≤ c.ro.steps.length)
    (hstep : c.ro.steps[(c.sub.curIdx - 1).toNat]? = some step) (hw : step.weight = some wt) (href : c.ro.hasTraffic = true) :
    c'.net = c.net ∧
    c.net.canaryIng = (if wt = 0 ∧ c.net.canaryIng.isNone = true then none else some wt) ∧
    (c.ro.disableGen = false → c.net.canarySvc = some c'.sub.podHash ∧ c.net.stableSel = some c'.sub.stableRev) := by
  unfold stateStep at h
  simp only [hst] at h
  split at h
  · cases h
  · rename_i c4 done e hcall
    obtain ⟨t, ht, hn⟩ := rr_callTM_net _ _ _ _ _ _ hcall
    obtain ⟨t2, ht2, hd, _⟩ := callTM_obs _ _ _ _ _ _ hcall
    have hk := callTM_keepLU _ _ _ _ _ _ hcall
    obtain ⟨_, k2, k3, k4, _, _⟩ := hk.sub.facts
    rw [trCtx_eq c.ro c.sub step hlo hhi hstep] at ht ht2
    have e1 := Option.some.inj ht
    have e2 := Option.some.inj ht2
    subst e1
    subst e2
    split at h
    · simp only [RunOut.ok.injEq] at h
      obtain ⟨hc, _⟩ := h
      subst hc
      rw [k2, hst] at hpost
      exact absurd hpost (by decide)
    · split at h
      · rename_i hdone
        simp only [RunOut.ok.injEq] at h
        obtain ⟨hc, _⟩ := h
        subst hc
        rw [hdone] at hd
        obtain ⟨r1, r2, r3⟩ := ex_routed _ c.net c.mem wt href hw hd
        refine ⟨?_, r2, ?_⟩
        · show c4.net = c.net
          rw [hn]; exact r1
        · intro hdg
          obtain ⟨a, b⟩ := r3 hdg
          refine ⟨?_, ?_⟩
          · show c.net.canarySvc = some c4.sub.podHash
            rw [k4]; exact a
          · show c.net.stableSel = some c4.sub.stableRev
            rw [k3]; exact b
      · simp only [RunOut.ok.injEq] at h
        obtain ⟨hc, _⟩ := h
        subst hc
        have hpost' : postRouting c4.sub.state = true := hpost
        rw [k2, hst] at hpost'
        exact absurd hpost' (by decide)

/-! ### one round of the release manager -/

theorem ex_runCanary (c0 c' : Ctx) (err : Bool) (rev : String) (step : Step) (wt : Nat) (h : runCanary c0 = .ok c' err)
    (hg : SubGood c0.ro c0.sub rev) (hst : c0.sub.state = .trafficRouting) (hpost : postRouting c'.sub.state = true)
    (hstep : c0.ro.steps[(c0.sub.curIdx - 1).toNat]? = some step) (hw : step.weight = some wt)
    (href : c0.ro.hasTraffic = true) :
    c'.net = c0.net ∧
    c0.net.canaryIng = (if wt = 0 ∧ c0.net.canaryIng.isNone = true then none else some wt) ∧
    (c0.ro.disableGen = false → c0.net.canarySvc = some c'.sub.podHash ∧ c0.net.stableSel = some c'.sub.stableRev) := by
  obtain ⟨y1, y2, y3, y4, y5⟩ := syncStep_sub c0
  obtain ⟨z1, z2, z3, z4⟩ := syncStep_eq c0
  unfold runCanary at h
  dsimp only at h
  split at h
  · cases h
  · rename_i s2 hj
    exfalso
    obtain ⟨_, hjs⟩ := jump_spec _ _ _ _ hj
    obtain ⟨j1, _⟩ := hjs rfl
    apply j1
    rw [y2, y1]; exact hg.next
  · rename_i s2 hj
    obtain ⟨hsame, _⟩ := jump_spec _ _ _ _ hj
    have hs2 : s2 = (syncStep c0).sub := hsame rfl
    subst hs2
    split at h
    · cases h
    · rename_i step' hstep'
      have e : step' = step := by
        have : some step' = some step := by rw [← hstep', ← hstep, y1]
        exact Option.some.inj this
      subst e
      have htr : stepHasTraffic step' = true := by unfold stepHasTraffic; rw [hw]; rfl
      split at h
      · cases h
      · rename_i c3 done e hpre
        obtain ⟨_, hid⟩ := preStep_keepLU _ _ _ _ _ hpre
        have e3 := hid htr
        subst e3
        unfold preStep at hpre
        rw [if_neg (by simp [htr])] at hpre
        simp only [Option.some.injEq, Prod.mk.injEq] at hpre
        obtain ⟨_, hdn, he⟩ := hpre
        subst hdn
        subst he
        rw [if_neg (by simp), if_neg (by simp)] at h
        have hres := ex_stateStep c0.ro step' _ c' err wt (by exact y3.trans hst) h hpost
          (by show 1 ≤ (syncStep c0).sub.curIdx; rw [y1]; exact hg.lo)
          (by show (syncStep c0).sub.curIdx ≤ ((syncStep c0).ro.steps.length : Int); rw [y1, y4]; exact hg.hi)
          (by show (syncStep c0).ro.steps[((syncStep c0).sub.curIdx - 1).toNat]? = some step'; rw [y1, y4]; exact hstep)
          hw (by show (syncStep c0).ro.hasTraffic = true; rw [y4]; exact href)
        have en : ({ syncStep c0 with sub := (syncStep c0).sub } : Ctx).net = c0.net := z2
        have er : ({ syncStep c0 with sub := (syncStep c0).sub } : Ctx).ro = c0.ro := y4
        rw [en, er] at hres
        exact hres

/-! ### the whole reconcile -/

theorem ex_reconcile (w : World) (wl : WL) (s : Sub)
    (hg : RoGood w.ro) (hph : w.ro.phase = .progressing) (hr : w.ro.reason = .inRolling)
    (hwl : w.wl = some wl) (hc : wl.consistent = true) (hnr : wl.inRollback = false)
    (hs : w.ro.sub = some s) (hsub : SubGood w.ro s wl.canaryRev)
    (r : StepResult) (hrec : reconcile w = .val r) (s' : Sub) (hs' : r.w.ro.sub = some s')
    (hst : s.state = .trafficRouting) (hpost : postRouting s'.state = true)
    (step : Step) (wt : Nat) (hstep : w.ro.steps[(s.curIdx - 1).toNat]? = some step) (hw : step.weight = some wt)
    (href : w.ro.hasTraffic = true) :
    r.w.net.canaryIng = (if wt = 0 ∧ w.net.canaryIng.isNone = true then none else some wt) ∧
    (w.ro.disableGen = false → r.w.net.canarySvc = some s'.podHash ∧ r.w.net.stableSel = some s'.stableRev) := by
  obtain ⟨o1, _, o3⟩ := csObserve_same w.ro wl
  obtain ⟨id, gen, hs1⟩ := csObserve_sub w.ro wl s hs
  have hpaused : (csObserve w.ro wl).paused = false := o1.2.2.2.1.trans hg.unpaused
  rw [reconcile_roll w wl _ hg hph hr hwl hc hs1,
    inRolling_roll w (csObserve w.ro wl) _ s wl hs hnr hpaused hsub.rev.symm hsub.hash] at hrec
  generalize csObserve w.ro wl = ns at o1 hs1 hpaused hrec
  have hsteps : ns.steps = w.ro.steps := o1.1
  have hnc : ¬ (({ s with observedRolloutID := id, observedGen := gen } : Sub).state = .completed) := by
    show ¬ (s.state = .completed)
    rw [hst]; intro hx; cases hx
  rw [if_neg hnc] at hrec
  have hN : (if ({ s with observedRolloutID := id, observedGen := gen } : Sub).nextIdx ≤ 0 ∨
        ({ s with observedRolloutID := id, observedGen := gen } : Sub).nextIdx > (ns.steps.length : Int) then
        { ({ s with observedRolloutID := id, observedGen := gen } : Sub) with
          nextIdx := nextBatchIndex (ns.steps.length : Int) ({ s with observedRolloutID := id, observedGen := gen } : Sub).curIdx }
      else ({ s with observedRolloutID := id, observedGen := gen } : Sub)) =
      { s with observedRolloutID := id, observedGen := gen } := by
    split
    · show ({ s with observedRolloutID := id, observedGen := gen, nextIdx := nextBatchIndex (ns.steps.length : Int) s.curIdx } : Sub) = _
      rw [hsteps, ← hsub.next]
    · rfl
  rw [hN] at hrec
  have hgN : SubGood ns { s with observedRolloutID := id, observedGen := gen } wl.canaryRev :=
    ⟨hsub.lo, by rw [hsteps]; exact hsub.hi, by rw [hsteps]; exact hsub.next, hsub.lu, hsub.hash, hsub.rev, hsub.fin⟩
  cases hrc : runCanary (toCtx { w with ro := ns } { s with observedRolloutID := id, observedGen := gen } wl) with
  | panic => rw [hrc] at hrec; cases hrec
  | ok c err =>
    rw [hrc] at hrec
    dsimp only at hrec
    cases err with
    | true =>
      rw [if_pos rfl] at hrec
      cases hrec
      have e : s' = s := by
        have : some s' = some s := hs'.symm.trans hs
        cases this; rfl
      subst e
      rw [hst] at hpost
      exact absurd hpost (by decide)
    | false =>
      rw [if_neg (by simp)] at hrec
      cases hrec
      have e : s' = c.sub := by
        have : some c.sub = some s' := hs'
        cases this; rfl
      subst e
      obtain ⟨r1, r2, r3⟩ := ex_runCanary _ c false wl.canaryRev step wt hrc hgN hst hpost
        (by show ns.steps[(s.curIdx - 1).toNat]? = some step; rw [hsteps]; exact hstep) hw
        (by show ns.hasTraffic = true; rw [o1.2.1]; exact href)
      have r1' : c.net = w.net := r1
      have r2' : w.net.canaryIng = (if wt = 0 ∧ w.net.canaryIng.isNone = true then none else some wt) := r2
      have r3' : ns.disableGen = false → w.net.canarySvc = some c.sub.podHash ∧ w.net.stableSel = some c.sub.stableRev := r3
      refine ⟨?_, ?_⟩
      · show c.net.canaryIng = _
        rw [r1']; exact r2'
      · intro hdg
        show c.net.canarySvc = some c.sub.podHash ∧ c.net.stableSel = some c.sub.stableRev
        rw [r1']
        exact r3' (by rw [o1.2.2.2.2.2.1]; exact hdg)

/-! ### on the joint state -/

theorem ex_weightOf (ro : Rollout) (j : Int) (wt : Nat) (hlo : 1 ≤ j) (h : weightOf ro j = some wt) :
    ∃ step, ro.steps[(j - 1).toNat]? = some step ∧ step.weight = some wt := by
  unfold weightOf stepAt at h
  rw [if_neg (by omega)] at h
  cases hst : ro.steps[(j - 1).toNat]? with
  | none => rw [hst] at h; cases h
  | some step => rw [hst] at h; exact ⟨step, rfl, h⟩

theorem routed_exact_step (s s' : CS) (h : trInv s = true) (hs : step s .ro = some s') : routedExact s s' = true := by
  have hs0 : stepRo s = some s' := hs
  unfold routedExact
  cases hrs : rollingSub s with
  | none => rfl
  | some sub =>
    cases hrs' : rollingSub s' with
    | none => rfl
    | some sub' =>
      dsimp only
      split
      · rename_i hcond
        obtain ⟨hst, _, hpost, href⟩ := hcond
        cases hwt : weightOf s.ro sub.curIdx with
        | none => rfl
        | some wt =>
          dsimp only
          obtain ⟨_, hph, hr, hsub⟩ := (rollingSub_some_iff s sub).1 hrs
          obtain ⟨_, _, _, hsub'⟩ := (rollingSub_some_iff s' sub').1 hrs'
          obtain ⟨_, hgone, hg, w0, hw0, hwok, _, _, hpi, _, _⟩ := tr_parts s h
          rw [phaseInv_rolling s w0 sub hph hr hsub] at hpi
          simp only [Bool.and_eq_true] at hpi
          obtain ⟨⟨hsubok, _⟩, _⟩ := hpi
          have hsg : SubGood s.ro sub (roWl w0).canaryRev := (subOK_iff s.ro sub w0).1 hsubok
          obtain ⟨stp, hstp, hwgt⟩ := ex_weightOf s.ro sub.curIdx wt hsg.lo hwt
          cases hrec : reconcile (roWorld s) with
          | panic =>
            unfold stepRo at hs0
            rw [hgone] at hs0
            simp only [Bool.false_eq_true, if_false, hrec] at hs0
            cases hs0
          | val r =>
            have hs2 := stepRo_eq s hgone r hrec
            rw [hs0] at hs2
            have e2 : s' = landRo s r := Option.some.inj hs2
            have hnet : s'.net = r.w.net := by rw [e2]; rfl
            have hro : s'.ro = r.w.ro := by rw [e2]; rfl
            rw [hro] at hsub'
            cases hc : (roWl w0).consistent with
            | false =>
              exfalso
              rw [reconcile_wait (roWorld s) (roWl w0) hg (world_wl s w0 hw0) hc] at hrec
              cases hrec
              have e : sub' = sub := by
                have : some sub' = some sub := hsub'.symm.trans hsub
                cases this; rfl
              subst e
              rw [hst] at hpost
              exact absurd hpost (by decide)
            | true =>
              obtain ⟨q1, q2⟩ := ex_reconcile (roWorld s) (roWl w0) sub hg hph hr (world_wl s w0 hw0) hc (noRollback w0 hwok)
                hsub hsg r hrec sub' hsub' hst hpost stp wt hstp hwgt href
              rw [hnet]
              simp only [Bool.and_eq_true, Bool.or_eq_true, beq_iff_eq]
              refine ⟨q1, ?_⟩
              cases hdg : s.ro.disableGen with
              | true => exact Or.inl rfl
              | false => exact Or.inr (q2 hdg)
      · rfl

end RV.Lemmas.ClosedLoopTraffic
