import RV.Model.LabelPatch
import RV.Oracle.C12
/-! Helper lemmas for C12 (pod batch labels). -/
namespace RV.LabelPatch
open RV.Arith RV.Oracle.C12

/-! ### strconv.Atoi ∘ Sprintf("%d") -/

theorem atoiDigits_toDigits (n : Nat) : atoiDigits (Nat.toDigits 10 n) = some n := by
  unfold atoiDigits
  have h1 : (Nat.toDigits 10 n).isEmpty = false := by
    have := @Nat.toDigits_ne_nil n 10
    cases h : Nat.toDigits 10 n with
    | nil => exact absurd h this
    | cons _ _ => rfl
  have h2 : (Nat.toDigits 10 n).all Char.isDigit = true := by
    rw [List.all_eq_true]
    intro c hc
    exact Nat.isDigit_of_mem_toDigits (by decide) (by decide) hc
  simp [h1, h2]

theorem atoi_itoa (n : Nat) (h : n ≤ maxInt64) : atoi (itoa n) = some (n : Int) := by
  unfold atoi atoiFull itoa
  have hl : (toString n).toList = Nat.toDigits 10 n := by
    show (Nat.repr n).toList = _
    exact Nat.toList_repr
  rw [hl]
  have hd := atoiDigits_toDigits n
  cases hds : Nat.toDigits 10 n with
  | nil => exact absurd hds Nat.toDigits_ne_nil
  | cons c cs =>
    have hc : c.isDigit = true := Nat.isDigit_of_mem_toDigits (b := 10) (n := n) (by decide) (by decide) (by rw [hds]; simp)
    have hm : c ≠ '-' := by intro e; rw [e] at hc; exact absurd hc (by decide)
    have hp : c ≠ '+' := by intro e; rw [e] at hc; exact absurd hc (by decide)
    rw [hds] at hd
    split
    · rename_i heq; simp at heq; exact absurd heq.1 hm
    · rename_i heq; simp at heq; exact absurd heq.1 hp
    · rename_i heq
      simp [hd, h]

/-! ### calculatePlannedStepIncrements: length, and no index out of range -/

theorem foldlM_option_inv {σ α} (Inv : σ → Prop) (f : σ → α → Option σ) (l : List α)
    (step : ∀ s a s', f s a = some s' → Inv s → Inv s') :
    ∀ s0 s', l.foldlM f s0 = some s' → Inv s0 → Inv s' := by
  induction l with
  | nil => intro s0 s' h h0; simp [List.foldlM] at h; exact h ▸ h0
  | cons a l ih =>
    intro s0 s' h h0
    simp only [List.foldlM_cons] at h
    cases hf : f s0 a with
    | none => simp [hf] at h
    | some s1 =>
      simp [hf] at h
      exact ih s1 s' h (step _ _ _ hf h0)

theorem foldlM_option_some {σ α} (Inv : σ → Prop) (f : σ → α → Option σ) (l : List α)
    (step : ∀ s a, a ∈ l → Inv s → ∃ s', f s a = some s' ∧ Inv s') :
    ∀ s0, Inv s0 → ∃ s', l.foldlM f s0 = some s' ∧ Inv s' := by
  induction l with
  | nil => intro s0 h0; exact ⟨s0, by simp [List.foldlM], h0⟩
  | cons a l ih =>
    intro s0 h0
    obtain ⟨s1, h1, i1⟩ := step s0 a (by simp) h0
    obtain ⟨s', h', i'⟩ := ih (fun s b hb hs => step s b (by simp [hb]) hs) s1 i1
    exact ⟨s', by simp [List.foldlM_cons, h1, h'], i'⟩

theorem setAt_length {xs ys : List Int} {i : Nat} {v : Int} (h : setAt xs i v = some ys) :
    ys.length = xs.length := by
  unfold setAt at h
  split at h
  · cases h; simp
  · cases h

theorem setAt_some {xs : List Int} {i : Nat} (v : Int) (h : i < xs.length) :
    setAt xs i v = some (xs.set i v) := by simp [setAt, h]

theorem incrStep1_length {batches R res i res'} (h : incrStep1 batches R res i = some res') :
    res'.length = res.length := by
  simp only [incrStep1, Option.bind_eq_bind, Option.bind_eq_some_iff] at h
  obtain ⟨_, _, h⟩ := h
  exact setAt_length h

theorem incrStep2_length {res i res'} (h : incrStep2 res i = some res') :
    res'.length = res.length := by
  simp only [incrStep2, Option.bind_eq_bind, Option.bind_eq_some_iff] at h
  obtain ⟨_, _, _, _, h⟩ := h
  exact setAt_length h

theorem plannedIncrements_length {batches : List IntOrPct} {R c : Int} {p : List Int}
    (h : plannedIncrements batches R c = some p) : p.length = batches.length := by
  simp only [plannedIncrements, Option.bind_eq_bind, Option.bind_eq_some_iff] at h
  obtain ⟨res1, h1, h2⟩ := h
  have l1 : res1.length = batches.length :=
    foldlM_option_inv (fun s => s.length = batches.length) _ _
      (fun s a s' hs hl => by rw [incrStep1_length hs, hl]) _ _ h1 (by simp)
  exact foldlM_option_inv (fun s => s.length = batches.length) _ _
      (fun s a s' hs hl => by rw [incrStep2_length hs, hl]) _ _ h2 l1

theorem plannedIncrements_some {batches : List IntOrPct} {R c : Int}
    (hc : c < batches.length) : ∃ p, plannedIncrements batches R c = some p := by
  obtain ⟨res1, h1, l1⟩ := foldlM_option_some (fun s => s.length = batches.length)
    (incrStep1 batches R) (List.range (c + 1).toNat) (by
      intro s i hi hl
      have hi' : i < batches.length := by
        have := List.mem_range.mp hi
        omega
      refine ⟨s.set i (calcBatchReplicas R batches[i]), ?_, by simp [hl]⟩
      simp [incrStep1, List.getElem?_eq_getElem hi', setAt_some _ (show i < s.length by omega)])
    (List.replicate batches.length (0 : Int)) (by simp)
  obtain ⟨res2, h2, _⟩ := foldlM_option_some (fun s => s.length = batches.length)
    incrStep2 ((List.range c.toNat).reverse.map (· + 1)) (by
      intro s i hi hl
      have hi' : i < s.length ∧ i - 1 < s.length := by
        simp only [List.mem_map, List.mem_reverse, List.mem_range] at hi
        obtain ⟨j, hj, rfl⟩ := hi
        omega
      refine ⟨s.set i (s[i] - s[i - 1]), ?_, by simp [hl]⟩
      simp [incrStep2, List.getElem?_eq_getElem hi'.1, List.getElem?_eq_getElem hi'.2, setAt_some _ hi'.1]) res1 l1
  exact ⟨res2, by simp only [plannedIncrements, Option.bind_eq_bind, h1, Option.bind_some, h2]⟩

/-! ### the first loop, split into its look-ups (`resolvePods`) and a pure pass over the resolved pods -/

/-- a pod the second loop may label: live, new revision, not carrying the rollout-id -/
def isCand (cfg : Cfg) (rp : RPod) : Bool := liveNew cfg rp && !hasId cfg rp.pod

/-- 0-based index of the budget a pod of this release consumes in the first loop -/
def slotOf (cfg : Cfg) (len : Nat) (rp : RPod) : Option Nat :=
  if liveNew cfg rp && hasId cfg rp.pod then
    match atoi (lbl rp.pod.batchId) with
    | some v => if v < 1 || v > len then none else some (v - 1).toNat
    | none => none
  else none

def decAll (cfg : Cfg) : List Int → List RPod → List Int
  | pl, [] => pl
  | pl, rp :: rest =>
    match slotOf cfg pl.length rp with
    | some k => decAll cfg (pl.modify k (· - 1)) rest
    | none => decAll cfg pl rest

def candsFrom (cfg : Cfg) : Nat → List RPod → List Cand
  | _, [] => []
  | i, rp :: rest =>
    if isCand cfg rp then ⟨i, rp.pod.missing, rp.hp⟩ :: candsFrom cfg (i + 1) rest else candsFrom cfg (i + 1) rest

def todosFrom : Nat → List RPod → List Cand
  | _, [] => []
  | i, rp :: rest =>
    match rp.hp with
    | some h => ⟨i, rp.pod.missing, some h⟩ :: todosFrom (i + 1) rest
    | none => todosFrom (i + 1) rest

theorem decAt_in_range {xs : List Int} {v : Int} (h1 : ¬ v < 1) (h2 : ¬ v > xs.length) :
    decAt xs (v - 1) = some (xs.modify (v - 1).toNat (· - 1)) := by
  have hk : (v - 1).toNat < xs.length := by omega
  unfold decAt
  rw [if_neg (by omega), List.getElem?_eq_getElem hk]
  simp only [List.modify_eq_set, List.getElem?_eq_getElem hk, Option.getD_some]

/-- what the loop body does to the state for a live pod, given the outcome of its look-up -/
def stepSt (cfg : Cfg) (st : ScanSt) (i : Nat) (rp : RPod) (cache' : List (String × String)) : ScanSt :=
  { planned := match slotOf cfg st.planned.length rp with
      | some k => st.planned.modify k (· - 1)
      | none => st.planned,
    stack := if isCand cfg rp then ⟨i, rp.pod.missing, rp.hp⟩ :: st.stack else st.stack,
    cache := cache',
    todo := pushTodo st.todo i rp.pod rp.hp }

theorem scanPod_live (env : Env) (cfg : Cfg) (st : ScanSt) (i : Nat) (p : Pod)
    (ht : p.terminating = false) {eff cache' hp} (hr : resolve env st.cache p = some (eff, cache', hp)) :
    scanPod env cfg st i p = .ok (stepSt cfg st i ⟨p, eff, hp⟩ cache') := by
  unfold scanPod stepSt
  simp only [ht, Bool.false_eq_true, if_false, hr]
  by_cases hc : consistent p.tmplHash eff cfg.updateRevision = true
  · by_cases hi : (lbl p.rolloutId == cfg.rolloutId) = true
    · have hne : (lbl p.rolloutId != cfg.rolloutId) = false := by simp [bne, hi]
      simp only [hc, Bool.not_true, Bool.false_eq_true, if_false, hne, isCand, slotOf, liveNew, hasId, ht,
        Bool.not_false, hi, Bool.and_self, if_true, Bool.and_false]
      cases ha : atoi (lbl p.batchId) with
      | none => simp
      | some v =>
        simp only []
        by_cases hb : (decide (v < 1) || decide (v > (st.planned.length : Int))) = true
        · simp [hb]
        · simp only [hb, Bool.false_eq_true, if_false]
          simp only [Bool.or_eq_true, decide_eq_true_eq, not_or] at hb
          rw [decAt_in_range hb.1 hb.2]
    · have hne : (lbl p.rolloutId != cfg.rolloutId) = true := by simp [bne, hi]
      simp [hc, hne, isCand, slotOf, liveNew, hasId, ht, hi]
  · simp [hc, isCand, slotOf, liveNew, ht]

theorem scanPod_term (env : Env) (cfg : Cfg) (st : ScanSt) (i : Nat) (p : Pod)
    (ht : p.terminating = true) : scanPod env cfg st i p = .ok st := by
  simp [scanPod, ht]

theorem scanPod_err (env : Env) (cfg : Cfg) (st : ScanSt) (i : Nat) (p : Pod)
    (ht : p.terminating = false) (hr : resolve env st.cache p = none) :
    scanPod env cfg st i p = .err := by
  simp [scanPod, ht, hr]

theorem scan_err (env : Env) (cfg : Cfg) : ∀ (pods : List Pod) (st : ScanSt) (i : Nat),
    resolvePods env st.cache pods = none → scan env cfg st i pods = .err := by
  intro pods
  induction pods with
  | nil => intro st i h; simp [resolvePods] at h
  | cons p ps ih =>
    intro st i h
    unfold resolvePods at h
    unfold scan
    by_cases ht : p.terminating = true
    · simp only [ht, if_true, Option.map_eq_none_iff] at h
      rw [scanPod_term _ _ _ _ _ ht]
      exact ih st (i + 1) h
    · have ht' : p.terminating = false := by simpa using ht
      simp only [ht', Bool.false_eq_true, if_false] at h
      cases hr : resolve env st.cache p with
      | none => rw [scanPod_err _ _ _ _ _ ht' hr]
      | some r =>
        obtain ⟨eff, cache', hp⟩ := r
        simp only [hr, Option.map_eq_none_iff] at h
        rw [scanPod_live _ _ _ _ _ ht' hr]
        exact ih _ _ h

theorem scan_ok (env : Env) (cfg : Cfg) : ∀ (pods : List Pod) (st : ScanSt) (i : Nat) (rps : List RPod),
    resolvePods env st.cache pods = some rps →
    ∃ cache', scan env cfg st i pods =
      .ok ⟨decAll cfg st.planned rps, (candsFrom cfg i rps).reverse ++ st.stack, cache',
           st.todo ++ todosFrom i rps⟩ := by
  intro pods
  induction pods with
  | nil =>
    intro st i rps h
    simp only [resolvePods, Option.some.injEq] at h
    subst h
    exact ⟨st.cache, by simp [scan, decAll, candsFrom, todosFrom]⟩
  | cons p ps ih =>
    intro st i rps h
    unfold resolvePods at h
    unfold scan
    by_cases ht : p.terminating = true
    · simp only [ht, if_true, Option.map_eq_some_iff] at h
      obtain ⟨rps', h', rfl⟩ := h
      rw [scanPod_term _ _ _ _ _ ht]
      obtain ⟨c, hc⟩ := ih st (i + 1) rps' h'
      refine ⟨c, ?_⟩
      simp only [hc]
      simp [decAll, candsFrom, todosFrom, slotOf, isCand, liveNew, ht]
    · have ht' : p.terminating = false := by simpa using ht
      simp only [ht', Bool.false_eq_true, if_false] at h
      cases hr : resolve env st.cache p with
      | none => simp [hr] at h
      | some r =>
        obtain ⟨eff, cache', hp⟩ := r
        simp only [hr, Option.map_eq_some_iff] at h
        obtain ⟨rps', h', rfl⟩ := h
        rw [scanPod_live _ _ _ _ _ ht' hr]
        obtain ⟨c, hc⟩ := ih (stepSt cfg st i ⟨p, eff, hp⟩ cache') (i + 1) rps' h'
        refine ⟨c, ?_⟩
        simp only [hc]
        simp only [stepSt, decAll, candsFrom, todosFrom]
        congr 2
        · cases slotOf cfg st.planned.length ⟨p, eff, hp⟩ <;> rfl
        · by_cases hcand : isCand cfg ⟨p, eff, hp⟩ = true <;> simp [hcand]
        · cases hp <;> simp [pushTodo]


/-! ### the second loop in closed form -/

def mkPatch (b : Nat) (c : Cand) : Patch := ⟨c.idx, some b, c.hash⟩

/-- the batch numbers the second loop hands out, in order -/
def slots : List Int → List Nat
  | [] => []
  | b :: bs => List.replicate b.toNat (bs.length + 1) ++ slots bs

/-- the second loop as one pass over the slots and the candidate stack -/
def assign : List Nat → List Cand → List Patch × Bool
  | [], _ => ([], false)
  | _ :: _, [] => ([], false)
  | b :: bs, c :: cs =>
    if c.missing then ([], true) else (mkPatch b c :: (assign bs cs).1, (assign bs cs).2)

theorem patchInner_assign (B : Nat) (rest : List Nat) : ∀ (n : Nat) (stack : List Cand) (acc : List Patch),
    match patchInner B n stack acc with
    | (acc', stack', .next) =>
        acc ++ (assign (List.replicate n B ++ rest) stack).1 = acc' ++ (assign rest stack').1 ∧
        (assign (List.replicate n B ++ rest) stack).2 = (assign rest stack').2
    | (acc', _, .exhausted) =>
        acc ++ (assign (List.replicate n B ++ rest) stack).1 = acc' ∧
        (assign (List.replicate n B ++ rest) stack).2 = false
    | (acc', _, .err) =>
        acc ++ (assign (List.replicate n B ++ rest) stack).1 = acc' ∧
        (assign (List.replicate n B ++ rest) stack).2 = true := by
  intro n
  induction n with
  | zero => intro stack acc; simp [patchInner]
  | succ n ih =>
    intro stack acc
    cases stack with
    | nil => simp [patchInner, List.replicate_succ, assign]
    | cons c cs =>
      by_cases hm : c.missing = true
      · simp [patchInner, List.replicate_succ, assign, hm]
      · have := ih cs (acc ++ [mkPatch B c])
        simp only [patchInner, hm, Bool.false_eq_true, if_false, List.replicate_succ, List.cons_append, assign]
        simp only [mkPatch] at this ⊢
        revert this
        split <;> simp

theorem patchOuter_assign : ∀ (pr : List Int) (stack : List Cand) (acc : List Patch),
    patchOuter pr stack acc = (acc ++ (assign (slots pr) stack).1, (assign (slots pr) stack).2) := by
  intro pr
  induction pr with
  | nil => intro stack acc; simp [patchOuter, slots, assign]
  | cons b bs ih =>
    intro stack acc
    have := patchInner_assign (bs.length + 1) (slots bs) b.toNat stack acc
    unfold patchOuter
    simp only [slots]
    revert this
    split
    · rename_i acc' stack' h
      intro this
      simp only [h]
      rw [ih, this.1, this.2]
    · rename_i acc' stack' h
      intro this
      simp only [h]
      rw [this.1, this.2]
    · rename_i acc' stack' h
      intro this
      simp only [h]
      rw [this.1, this.2]


/-! ### candidates; facts about the second loop -/

theorem countP_modify {α} (P : α → Bool) (f : α → α) : ∀ (l : List α) (i : Nat) (h : i < l.length),
    (l.modify i f).countP P + (if P l[i] then 1 else 0) = l.countP P + (if P (f l[i]) then 1 else 0) := by
  intro l
  induction l with
  | nil => intro i h; simp at h
  | cons a l ih =>
    intro i h
    cases i with
    | zero =>
      simp only [List.modify_zero_cons, List.countP_cons, List.getElem_cons_zero]
      omega
    | succ i =>
      simp only [List.modify_succ_cons, List.countP_cons, List.getElem_cons_succ]
      have := ih i (by simpa using h)
      omega

/-! ### candidates -/

theorem candsFrom_mem (cfg : Cfg) : ∀ (l : List RPod) (i : Nat) (c : Cand), c ∈ candsFrom cfg i l →
    ∃ j rp, c.idx = i + j ∧ l[j]? = some rp ∧ isCand cfg rp = true ∧ c.hash = rp.hp ∧ c.missing = rp.pod.missing := by
  intro l
  induction l with
  | nil => intro i c h; simp [candsFrom] at h
  | cons rp l ih =>
    intro i c h
    unfold candsFrom at h
    by_cases hc : isCand cfg rp = true
    · simp only [hc, if_true, List.mem_cons] at h
      rcases h with rfl | h
      · exact ⟨0, rp, by simp, by simp, hc, rfl, rfl⟩
      · obtain ⟨j, rp', h1, h2, h3⟩ := ih (i + 1) c h
        exact ⟨j + 1, rp', by omega, by simpa using h2, h3⟩
    · simp only [hc, Bool.false_eq_true, if_false] at h
      obtain ⟨j, rp', h1, h2, h3⟩ := ih (i + 1) c h
      exact ⟨j + 1, rp', by omega, by simpa using h2, h3⟩

theorem candsFrom_pairwise (cfg : Cfg) : ∀ (l : List RPod) (i : Nat),
    (candsFrom cfg i l).Pairwise (fun a b => a.idx < b.idx) := by
  intro l
  induction l with
  | nil => intro i; simp [candsFrom]
  | cons rp l ih =>
    intro i
    unfold candsFrom
    split
    · rw [List.pairwise_cons]
      refine ⟨?_, ih (i + 1)⟩
      intro c hc
      obtain ⟨j, _, h1, _⟩ := candsFrom_mem cfg l (i + 1) c hc
      simp only [h1]; omega
    · exact ih (i + 1)

theorem length_candsFrom (cfg : Cfg) : ∀ (l : List RPod) (i : Nat),
    (candsFrom cfg i l).length = l.countP (isCand cfg) := by
  intro l
  induction l with
  | nil => intro i; simp [candsFrom]
  | cons rp l ih =>
    intro i
    unfold candsFrom
    by_cases hc : isCand cfg rp = true <;> simp [hc, ih (i + 1)]

/-! ### the second loop as `assign` -/

theorem assign_mem : ∀ (s : List Nat) (st : List Cand) (p : Patch), p ∈ (assign s st).1 →
    ∃ b ∈ s, ∃ c ∈ st, p = mkPatch b c := by
  intro s
  induction s with
  | nil => intro st p h; simp [assign] at h
  | cons b bs ih =>
    intro st p h
    cases st with
    | nil => simp [assign] at h
    | cons c cs =>
      unfold assign at h
      by_cases hm : c.missing = true
      · simp [hm] at h
      · simp only [hm, Bool.false_eq_true, if_false, List.mem_cons] at h
        rcases h with rfl | h
        · exact ⟨b, by simp, c, by simp, rfl⟩
        · obtain ⟨b', hb', c', hc', e⟩ := ih cs p h
          exact ⟨b', by simp [hb'], c', by simp [hc'], e⟩

theorem assign_idx_prefix : ∀ (s : List Nat) (st : List Cand),
    (assign s st).1.map (·.idx) <+: st.map (·.idx) := by
  intro s
  induction s with
  | nil => intro st; simp [assign]
  | cons b bs ih =>
    intro st
    cases st with
    | nil => simp [assign]
    | cons c cs =>
      unfold assign
      by_cases hm : c.missing = true
      · simp [hm]
      · simp only [hm, Bool.false_eq_true, if_false, List.map_cons, mkPatch]
        exact List.prefix_cons_inj _ |>.mpr (ih cs)

theorem assign_batch_prefix : ∀ (s : List Nat) (st : List Cand),
    (assign s st).1.map (·.batch) <+: s.map some := by
  intro s
  induction s with
  | nil => intro st; simp [assign]
  | cons b bs ih =>
    intro st
    cases st with
    | nil => simp [assign]
    | cons c cs =>
      unfold assign
      by_cases hm : c.missing = true
      · simp [hm]
      · simp only [hm, Bool.false_eq_true, if_false, List.map_cons, mkPatch]
        exact List.prefix_cons_inj _ |>.mpr (ih cs)

theorem assign_length : ∀ (s : List Nat) (st : List Cand), (assign s st).2 = false →
    (assign s st).1.length = min s.length st.length := by
  intro s
  induction s with
  | nil => intro st _; simp [assign]
  | cons b bs ih =>
    intro st h
    cases st with
    | nil => simp [assign]
    | cons c cs =>
      unfold assign at h ⊢
      by_cases hm : c.missing = true
      · simp [hm] at h
      · simp only [hm, Bool.false_eq_true, if_false] at h ⊢
        simp only [List.length_cons, ih cs h]
        omega


/-! ### applying patches to the resolved view; the counting lemma -/

/-- a patch applied to a pod of the resolved view -/
def applyR (id : String) (p : Patch) (rp : RPod) : RPod := { rp with pod := applyPatch id p rp.pod }

def applyAll (id : String) (ps : List Patch) (l : List RPod) : List RPod :=
  ps.foldl (fun l p => l.modify p.idx (applyR id p)) l

theorem applyPatch_fixed (id : String) (p : Patch) (pod : Pod) :
    (applyPatch id p pod).terminating = pod.terminating ∧ (applyPatch id p pod).tmplHash = pod.tmplHash ∧
    (applyPatch id p pod).owner = pod.owner ∧ (applyPatch id p pod).missing = pod.missing ∧
    (applyPatch id p pod).name = pod.name ∧ (applyPatch id p pod).noNeed = pod.noNeed := by
  unfold applyPatch
  cases p.batch <;> cases p.hash <;> simp

theorem applyPatch_hashOnly (id : String) (p : Patch) (pod : Pod) (h : p.batch = none) :
    (applyPatch id p pod).rolloutId = pod.rolloutId ∧ (applyPatch id p pod).batchId = pod.batchId := by
  unfold applyPatch
  cases p.hash <;> simp [h]

theorem applyPatch_label (id : String) (p : Patch) (pod : Pod) {n : Nat} (h : p.batch = some n) :
    (applyPatch id p pod).rolloutId = some id ∧ (applyPatch id p pod).batchId = some (itoa n) := by
  unfold applyPatch
  cases p.hash <;> simp [h]

theorem liveNew_applyR (cfg : Cfg) (id : String) (p : Patch) (rp : RPod) :
    liveNew cfg (applyR id p rp) = liveNew cfg rp := by
  have := applyPatch_fixed id p rp.pod
  simp [liveNew, applyR, this.1, this.2.1]

theorem hashOnly_preserves (cfg : Cfg) (id : String) (p : Patch) (rp : RPod) (h : p.batch = none) (b : Nat) :
    isCand cfg (applyR id p rp) = isCand cfg rp ∧ labelledFor cfg b (applyR id p rp) = labelledFor cfg b rp := by
  have h1 := liveNew_applyR cfg id p rp
  have h2 := applyPatch_hashOnly id p rp.pod h
  simp only [isCand, labelledFor, h1, hasId]
  simp [applyR, h2.1, h2.2]

theorem label_effect (cfg : Cfg) (p : Patch) (rp : RPod) {n : Nat} (h : p.batch = some n)
    (hn : n ≤ maxInt64) (hc : isCand cfg rp = true) (b : Nat) :
    isCand cfg (applyR cfg.rolloutId p rp) = false ∧
    labelledFor cfg b (applyR cfg.rolloutId p rp) = decide (n = b) ∧
    labelledFor cfg b rp = false := by
  have h1 := liveNew_applyR cfg cfg.rolloutId p rp
  have h2 := applyPatch_label cfg.rolloutId p rp.pod h
  simp only [isCand, Bool.and_eq_true, Bool.not_eq_true'] at hc
  have hid : hasId cfg (applyR cfg.rolloutId p rp).pod = true := by
    simp [hasId, applyR, h2.1, lbl]
  have hat : atoi (lbl (applyR cfg.rolloutId p rp).pod.batchId) = some (n : Int) := by
    simp only [applyR, h2.2, lbl, Option.getD_some]
    exact atoi_itoa n hn
  refine ⟨?_, ?_, ?_⟩
  · unfold isCand; rw [h1, hid, hc.1]; rfl
  · unfold labelledFor; rw [h1, hid, hat, hc.1]
    by_cases e : n = b
    · simp [e]
    · have : ((n : Int) = (b : Int)) = False := by simp; omega
      simp [e, this]
  · simp [labelledFor, hc.2]

theorem countP_modify_congr {α} (P : α → Bool) (f : α → α) (hf : ∀ a, P (f a) = P a) (l : List α) (i : Nat) :
    (l.modify i f).countP P = l.countP P := by
  by_cases h : i < l.length
  · have := countP_modify P f l i h
    rw [hf] at this
    omega
  · rw [List.modify_eq_self (by omega)]

def LabelDistinct (ps : List Patch) : Prop :=
  ps.Pairwise fun p q => p.batch.isSome = true → q.batch.isSome = true → p.idx ≠ q.idx

def TargetsCand (cfg : Cfg) (l : List RPod) (ps : List Patch) : Prop :=
  ∀ p ∈ ps, p.batch.isSome = true → ∃ rp, l[p.idx]? = some rp ∧ isCand cfg rp = true

def SmallBatch (ps : List Patch) : Prop := ∀ p ∈ ps, ∀ n, p.batch = some n → n ≤ maxInt64

theorem count_applyAll (cfg : Cfg) (b : Nat) : ∀ (ps : List Patch) (l : List RPod),
    LabelDistinct ps → TargetsCand cfg l ps → SmallBatch ps →
    labelled cfg b (applyAll cfg.rolloutId ps l) = labelled cfg b l + ps.countP (fun p => p.batch == some b) ∧
    (applyAll cfg.rolloutId ps l).countP (isCand cfg) + ps.countP (fun p => p.batch.isSome) = l.countP (isCand cfg) := by
  intro ps
  induction ps with
  | nil => intro l _ _ _; simp [applyAll]
  | cons p ps ih =>
    intro l hd ht hs
    have hd' := List.pairwise_cons.mp hd
    have hs' : SmallBatch ps := fun q hq n hn => hs q (by simp [hq]) n hn
    simp only [applyAll, List.foldl_cons]
    change labelled cfg b (applyAll cfg.rolloutId ps _) = _ ∧ (applyAll cfg.rolloutId ps _).countP _ + _ = _
    cases hb : p.batch with
    | none =>
      have hp := fun rp => hashOnly_preserves cfg cfg.rolloutId p rp hb b
      have ht' : TargetsCand cfg (l.modify p.idx (applyR cfg.rolloutId p)) ps := by
        intro q hq hqs
        obtain ⟨rp, h1, h2⟩ := ht q (by simp [hq]) hqs
        rw [List.getElem?_modify, h1]
        by_cases e : p.idx = q.idx
        · exact ⟨applyR cfg.rolloutId p rp, by simp [e], by rw [(hp rp).1]; exact h2⟩
        · exact ⟨rp, by simp [e], h2⟩
      obtain ⟨i1, i2⟩ := ih _ hd'.2 ht' hs'
      rw [i1]
      simp only [labelled, List.countP_cons, hb]
      rw [countP_modify_congr _ _ (fun a => (hp a).2), countP_modify_congr _ _ (fun a => (hp a).1)] at *
      simp only [labelled] at i1
      constructor
      · simp
      · simpa using i2
    | some n =>
      obtain ⟨rp, h1, h2⟩ := ht p (by simp) (by simp [hb])
      have hlt : p.idx < l.length := (List.getElem?_eq_some_iff.mp h1).1
      have hget : l[p.idx] = rp := (List.getElem?_eq_some_iff.mp h1).2
      have hn := hs p (by simp) n hb
      obtain ⟨e1, e2, e3⟩ := label_effect cfg p rp hb hn h2 b
      have ht' : TargetsCand cfg (l.modify p.idx (applyR cfg.rolloutId p)) ps := by
        intro q hq hqs
        obtain ⟨rq, q1, q2⟩ := ht q (by simp [hq]) hqs
        have ne : p.idx ≠ q.idx := hd'.1 q hq (by simp [hb]) hqs
        exact ⟨rq, by rw [List.getElem?_modify_ne _ _ ne]; exact q1, q2⟩
      obtain ⟨i1, i2⟩ := ih _ hd'.2 ht' hs'
      have c1 := countP_modify (labelledFor cfg b) (applyR cfg.rolloutId p) l p.idx hlt
      have c2 := countP_modify (isCand cfg) (applyR cfg.rolloutId p) l p.idx hlt
      rw [hget] at c1 c2
      simp only [e1, e2, e3, h2, Bool.false_eq_true, if_false, if_true] at c1 c2
      simp only [labelled] at i1 ⊢
      rw [i1]
      simp only [List.countP_cons, hb, Option.isSome_some, if_true]
      constructor
      · by_cases e : n = b
        · simp [e] at c1 ⊢; omega
        · have : (some n == some b) = false := by simp [e]
          simp [e, this] at c1 ⊢; omega
      · omega


/-! ### budgets after the first loop; the slots of the second loop -/

theorem length_decAll (cfg : Cfg) : ∀ (l : List RPod) (pl : List Int), (decAll cfg pl l).length = pl.length := by
  intro l
  induction l with
  | nil => intro pl; rfl
  | cons rp l ih =>
    intro pl
    unfold decAll
    split
    · rw [ih]; simp
    · rw [ih]

theorem getElem?_decAll (cfg : Cfg) : ∀ (l : List RPod) (pl : List Int) (k : Nat) (v : Int), pl[k]? = some v →
    (decAll cfg pl l)[k]? = some (v - (l.countP (fun rp => slotOf cfg pl.length rp == some k) : Nat)) := by
  intro l
  induction l with
  | nil => intro pl k v h; simp [decAll, h]
  | cons rp l ih =>
    intro pl k v h
    unfold decAll
    cases hs : slotOf cfg pl.length rp with
    | none =>
      simp only [List.countP_cons, hs]
      rw [ih pl k v h]
      simp
    | some j =>
      simp only [List.countP_cons, hs]
      by_cases e : j = k
      · subst e
        have : (pl.modify j (· - 1))[j]? = some (v - 1) := by simp [h]
        rw [ih _ j _ this]
        simp only [List.length_modify, beq_self_eq_true, if_true]
        congr 1
        omega
      · have : (pl.modify j (· - 1))[k]? = some v := by rw [List.getElem?_modify_ne _ _ e]; exact h
        rw [ih _ k _ this]
        have : (some j == some k) = false := by simp [e]
        simp [this]

theorem slotOf_eq_labelledFor (cfg : Cfg) (len : Nat) (rp : RPod) (k : Nat) (hk : k < len) :
    (slotOf cfg len rp == some k) = labelledFor cfg (k + 1) rp := by
  unfold slotOf labelledFor
  by_cases h : (liveNew cfg rp && hasId cfg rp.pod) = true
  · simp only [h, if_true, Bool.true_and]
    cases ha : atoi (lbl rp.pod.batchId) with
    | none => simp
    | some v =>
      simp only []
      by_cases hb : (decide (v < 1) || decide (v > (len : Int))) = true
      · simp only [hb, if_true]
        simp only [Bool.or_eq_true, decide_eq_true_eq] at hb
        have : ¬ (v = (k : Int) + 1) := by omega
        simp [this]
      · simp only [hb, Bool.false_eq_true, if_false]
        simp only [Bool.or_eq_true, decide_eq_true_eq, not_or] at hb
        by_cases e : v = (k : Int) + 1
        · subst e; simp
        · have n1 : ¬ ((v - 1).toNat = k) := by omega
          have n2 : ¬ (v = ((k + 1 : Nat) : Int)) := by omega
          simp only [Option.some_beq_some]
          rw [beq_eq_false_iff_ne.mpr n1, beq_eq_false_iff_ne.mpr n2]
  · have h' : (liveNew cfg rp && hasId cfg rp.pod) = false := by simpa using h
    simp [h']

theorem slotOf_lt (cfg : Cfg) (len : Nat) (rp : RPod) (k : Nat) (h : slotOf cfg len rp = some k) : k < len := by
  unfold slotOf at h
  split at h
  · split at h
    · split at h
      · cases h
      · rename_i v _ hb
        simp only [Bool.or_eq_true, decide_eq_true_eq, not_or] at hb
        cases h; omega
    · cases h
  · cases h

theorem count_slots_out : ∀ (pr : List Int) (B : Nat), (B = 0 ∨ pr.length < B) → (slots pr).count B = 0 := by
  intro pr
  induction pr with
  | nil => intro B _; simp [slots]
  | cons b bs ih =>
    intro B h
    simp only [slots, List.count_append, List.count_replicate]
    rw [ih B (by simp at h; omega)]
    have : ¬ (bs.length + 1 = B) := by simp at h; omega
    simp [this]

theorem count_slots_in : ∀ (pr : List Int) (B : Nat), 1 ≤ B → B ≤ pr.length →
    ∃ v, pr[pr.length - B]? = some v ∧ (slots pr).count B = v.toNat := by
  intro pr
  induction pr with
  | nil => intro B h1 h2; simp at h2; omega
  | cons b bs ih =>
    intro B h1 h2
    simp only [slots, List.count_append, List.count_replicate]
    by_cases e : B = bs.length + 1
    · subst e
      refine ⟨b, by simp, ?_⟩
      rw [count_slots_out bs _ (by omega)]
      simp
    · have hB : B ≤ bs.length := by simp at h2; omega
      obtain ⟨v, hv, hc⟩ := ih B h1 hB
      refine ⟨v, ?_, ?_⟩
      · have : (b :: bs).length - B = (bs.length - B) + 1 := by simp; omega
        rw [this, List.getElem?_cons_succ]; exact hv
      · rw [hc]
        have : ¬ (bs.length + 1 = B) := by omega
        simp [this]

/-- the number of slots the second loop has for batch number `B` -/
theorem count_slots_reverse (pl : List Int) (B : Nat) (h1 : 1 ≤ B) (h2 : B ≤ pl.length) :
    ∃ v, pl[B - 1]? = some v ∧ (slots pl.reverse).count B = v.toNat := by
  obtain ⟨v, hv, hc⟩ := count_slots_in pl.reverse B h1 (by simpa using h2)
  refine ⟨v, ?_, hc⟩
  rw [List.getElem?_reverse (by simp; omega)] at hv
  simp only [List.length_reverse] at hv
  have : pl.length - 1 - (pl.length - B) = B - 1 := by omega
  rw [this] at hv
  exact hv


/-! ### third loop; the whole function over the resolved view -/

/-! ### third loop -/

theorem patchHashes_spec : ∀ (todo : List Cand) (acc : List Patch),
    ∃ extra, (patchHashes todo acc).1 = acc ++ extra ∧ (∀ p ∈ extra, p.batch = none ∧ ∃ c ∈ todo, p.idx = c.idx ∧ p.hash = c.hash) ∧
      ((patchHashes todo acc).2 = false → ∀ c ∈ todo, ∃ p ∈ (patchHashes todo acc).1, p.idx = c.idx) := by
  intro todo
  induction todo with
  | nil => intro acc; exact ⟨[], by simp [patchHashes], by simp, by simp⟩
  | cons c rest ih =>
    intro acc
    unfold patchHashes
    by_cases h1 : (acc.any fun p => p.idx == c.idx && p.batch.isSome) = true
    · simp only [h1, if_true]
      obtain ⟨extra, e1, e2, e3⟩ := ih acc
      refine ⟨extra, e1, ?_, ?_⟩
      · intro p hp
        obtain ⟨q1, c', hc', q2⟩ := e2 p hp
        exact ⟨q1, c', by simp [hc'], q2⟩
      · intro he c' hc'
        simp only [List.mem_cons] at hc'
        rcases hc' with rfl | hc'
        · simp only [List.any_eq_true, Bool.and_eq_true, beq_iff_eq] at h1
          obtain ⟨p, hp, hpi, _⟩ := h1
          exact ⟨p, by rw [e1]; simp [hp], hpi⟩
        · exact e3 he c' hc'
    · simp only [h1, Bool.false_eq_true, if_false]
      by_cases hm : c.missing = true
      · simp only [hm, if_true]
        exact ⟨[], by simp, by simp, by simp⟩
      · simp only [hm, Bool.false_eq_true, if_false]
        obtain ⟨extra, e1, e2, e3⟩ := ih (acc ++ [⟨c.idx, none, c.hash⟩])
        refine ⟨⟨c.idx, none, c.hash⟩ :: extra, by rw [e1]; simp, ?_, ?_⟩
        · intro p hp
          simp only [List.mem_cons] at hp
          rcases hp with rfl | hp
          · exact ⟨rfl, c, by simp, rfl, rfl⟩
          · obtain ⟨q1, c', hc', q2⟩ := e2 p hp
            exact ⟨q1, c', by simp [hc'], q2⟩
        · intro he c' hc'
          simp only [List.mem_cons] at hc'
          rcases hc' with rfl | hc'
          · exact ⟨⟨c'.idx, none, c'.hash⟩, by rw [e1]; simp, rfl⟩
          · exact e3 he c' hc'

/-! ### the whole function in terms of the resolved view -/

theorem patch_panic {env : Env} {cfg : Cfg} {pods : List Pod}
    (hp : plannedIncrements cfg.batches cfg.replicas cfg.currentBatch = none) :
    patchPodBatchLabel env cfg pods = .panic := by
  simp [patchPodBatchLabel, hp]

theorem patch_rsErr {env : Env} {cfg : Cfg} {pods : List Pod} {planned : List Int}
    (hp : plannedIncrements cfg.batches cfg.replicas cfg.currentBatch = some planned)
    (hr : resolvePods env [] pods = none) :
    patchPodBatchLabel env cfg pods = .done true [] := by
  have := scan_err env cfg pods ⟨planned, [], [], []⟩ 0 hr
  simp [patchPodBatchLabel, hp, this]

theorem patch_decompose {env : Env} {cfg : Cfg} {pods : List Pod} {planned : List Int} {rps : List RPod}
    (hp : plannedIncrements cfg.batches cfg.replicas cfg.currentBatch = some planned)
    (hr : resolvePods env [] pods = some rps) :
    patchPodBatchLabel env cfg pods =
      match assign (slots (decAll cfg planned rps).reverse) (candsFrom cfg 0 rps).reverse with
      | (ps, true) => .done true ps
      | (ps, false) => .done (patchHashes (todosFrom 0 rps) ps).2 (patchHashes (todosFrom 0 rps) ps).1 := by
  obtain ⟨c, hs⟩ := scan_ok env cfg pods ⟨planned, [], [], []⟩ 0 rps hr
  simp only [patchPodBatchLabel, hp, hs, patchOuter_assign, List.nil_append, List.append_nil]
  cases assign (slots (decAll cfg planned rps).reverse) (candsFrom cfg 0 rps).reverse with
  | mk ps e => cases e <;> simp


/-! ### helpers -/

theorem todosFrom_mem : ∀ (l : List RPod) (i : Nat) (c : Cand), c ∈ todosFrom i l →
    ∃ j rp, c.idx = i + j ∧ l[j]? = some rp ∧ c.hash = rp.hp ∧ rp.hp.isSome = true := by
  intro l
  induction l with
  | nil => intro i c h; simp [todosFrom] at h
  | cons rp l ih =>
    intro i c h
    unfold todosFrom at h
    cases hh : rp.hp with
    | none =>
      simp only [hh] at h
      obtain ⟨j, rp', h1, h2, h3⟩ := ih (i + 1) c h
      exact ⟨j + 1, rp', by omega, by simpa using h2, h3⟩
    | some x =>
      simp only [hh, List.mem_cons] at h
      rcases h with rfl | h
      · exact ⟨0, rp, by simp, by simp, by simp [hh], by simp [hh]⟩
      · obtain ⟨j, rp', h1, h2, h3⟩ := ih (i + 1) c h
        exact ⟨j + 1, rp', by omega, by simpa using h2, h3⟩

theorem todosFrom_cover : ∀ (l : List RPod) (i j : Nat) (rp : RPod), l[j]? = some rp → rp.hp.isSome = true →
    ∃ c ∈ todosFrom i l, c.idx = i + j := by
  intro l
  induction l with
  | nil => intro i j rp h; simp at h
  | cons r l ih =>
    intro i j rp h hs
    unfold todosFrom
    cases j with
    | zero =>
      simp only [List.getElem?_cons_zero, Option.some.injEq] at h
      subst h
      cases hh : r.hp with
      | none => simp [hh] at hs
      | some x => exact ⟨⟨i, r.pod.missing, some x⟩, by simp, by simp⟩
    | succ j =>
      simp only [List.getElem?_cons_succ] at h
      obtain ⟨c, hc, e⟩ := ih (i + 1) j rp h hs
      cases hh : r.hp with
      | none => exact ⟨c, hc, by omega⟩
      | some x => exact ⟨c, by simp [hc], by omega⟩

theorem countP_batch_eq_count (ps : List Patch) (b : Nat) :
    ps.countP (fun p => p.batch == some b) = (ps.map (·.batch)).count (some b) := by
  induction ps with
  | nil => rfl
  | cons p ps ih => simp [List.countP_cons, List.count_cons, ih]

theorem count_map_some (s : List Nat) (b : Nat) : (s.map some).count (some b) = s.count b := by
  induction s with
  | nil => rfl
  | cons a s ih => simp [List.count_cons, ih]


/-! ### facts about the patches of one pass -/

/-- everything the property theorems need to know about the patches of one pass -/
structure Facts (cfg : Cfg) (planned : List Int) (rps : List RPod) (e : Bool) (ps : List Patch) : Prop where
  targets : TargetsCand cfg rps ps
  distinct : LabelDistinct ps
  range : ∀ p ∈ ps, ∀ n, p.batch = some n → 1 ≤ n ∧ n ≤ planned.length
  budget : ∀ b, ps.countP (fun p => p.batch == some b) ≤ (slots (decAll cfg planned rps).reverse).count b
  hashOf : ∀ p ∈ ps, ∃ rp, rps[p.idx]? = some rp ∧ p.hash = rp.hp
  full : e = false →
    (∀ b, ps.countP (fun p => p.batch == some b) = (slots (decAll cfg planned rps).reverse).count b) ∨
    ps.countP (fun p => p.batch.isSome) = rps.countP (isCand cfg)
  cover : e = false → ∀ i rp, rps[i]? = some rp → rp.hp.isSome = true → ∃ p ∈ ps, p.idx = i

theorem mem_slots_range (pr : List Int) (b : Nat) (h : b ∈ slots pr) : 1 ≤ b ∧ b ≤ pr.length := by
  have hc : 0 < (slots pr).count b := List.count_pos_iff.mpr h
  by_cases h' : b = 0 ∨ pr.length < b
  · rw [count_slots_out pr b h'] at hc; omega
  · omega

theorem assign_facts (cfg : Cfg) (planned : List Int) (rps : List RPod) :
    let S := slots (decAll cfg planned rps).reverse
    let St := (candsFrom cfg 0 rps).reverse
    let A := assign S St
    TargetsCand cfg rps A.1 ∧ LabelDistinct A.1 ∧
    (∀ p ∈ A.1, ∃ n, p.batch = some n ∧ 1 ≤ n ∧ n ≤ planned.length) ∧
    (∀ b, A.1.countP (fun p => p.batch == some b) ≤ S.count b) ∧
    (∀ p ∈ A.1, ∃ rp, rps[p.idx]? = some rp ∧ p.hash = rp.hp) ∧
    (A.2 = false → (∀ b, A.1.countP (fun p => p.batch == some b) = S.count b) ∨
       A.1.length = rps.countP (isCand cfg)) := by
  intro S St A
  have hmem : ∀ p ∈ A.1, ∃ b ∈ S, ∃ c ∈ candsFrom cfg 0 rps, p = mkPatch b c := by
    intro p hp
    obtain ⟨b, hb, c, hc, e⟩ := assign_mem S St p hp
    exact ⟨b, hb, c, by simpa [St] using hc, e⟩
  refine ⟨?_, ?_, ?_, ?_, ?_, ?_⟩
  · intro p hp _
    obtain ⟨b, _, c, hc, rfl⟩ := hmem p hp
    obtain ⟨j, rp, h1, h2, h3, _⟩ := candsFrom_mem cfg rps 0 c hc
    exact ⟨rp, by simp only [mkPatch, h1, Nat.zero_add]; exact h2, h3⟩
  · have h1 : (St.map (·.idx)).Pairwise (· ≠ ·) := by
      simp only [St, List.map_reverse, List.pairwise_reverse, List.pairwise_map]
      exact (candsFrom_pairwise cfg rps 0).imp (fun h => by omega)
    have h2 := List.Pairwise.sublist (assign_idx_prefix S St).sublist h1
    rw [List.pairwise_map] at h2
    exact h2.imp (fun h _ _ => h)
  · intro p hp
    obtain ⟨b, hb, c, _, rfl⟩ := hmem p hp
    have := mem_slots_range _ b hb
    simp only [List.length_reverse, length_decAll] at this
    exact ⟨b, rfl, this⟩
  · intro b
    rw [countP_batch_eq_count, ← count_map_some]
    exact (assign_batch_prefix S St).sublist.count_le _
  · intro p hp
    obtain ⟨b, _, c, hc, rfl⟩ := hmem p hp
    obtain ⟨j, rp, h1, h2, _, h4, _⟩ := candsFrom_mem cfg rps 0 c hc
    exact ⟨rp, by simp only [mkPatch, h1, Nat.zero_add]; exact h2, h4⟩
  · intro he
    have hl := assign_length S St he
    by_cases hcmp : S.length ≤ St.length
    · left
      intro b
      have : A.1.map (·.batch) = S.map some :=
        (assign_batch_prefix S St).eq_of_length (by simp [hl]; omega)
      rw [countP_batch_eq_count, this, count_map_some]
    · right
      have : St.length = rps.countP (isCand cfg) := by simp [St, length_candsFrom]
      show (assign S St).1.length = _
      rw [hl, ← this]; omega

theorem patch_facts {env : Env} {cfg : Cfg} {pods : List Pod} {planned : List Int} {rps : List RPod}
    (hp : plannedIncrements cfg.batches cfg.replicas cfg.currentBatch = some planned)
    (hr : resolvePods env [] pods = some rps) {e : Bool} {ps : List Patch}
    (h : patchPodBatchLabel env cfg pods = .done e ps) : Facts cfg planned rps e ps := by
  rw [patch_decompose hp hr] at h
  obtain ⟨a1, a2, a3, a4, a5, a6⟩ := assign_facts cfg planned rps
  generalize hA : assign (slots (decAll cfg planned rps).reverse) (candsFrom cfg 0 rps).reverse = A at *
  obtain ⟨A1, A2⟩ := A
  have allSome : ∀ p ∈ A1, p.batch.isSome = true := by
    intro p hp'
    obtain ⟨n, hn, _⟩ := a3 p hp'
    simp [hn]
  cases A2 with
  | true =>
    simp only [Outcome.done.injEq] at h
    obtain ⟨rfl, rfl⟩ := h
    exact {
      targets := a1, distinct := a2,
      range := fun p hp' n hn => by
        obtain ⟨m, hm, r⟩ := a3 p hp'
        rw [hm] at hn; cases hn; exact r
      budget := a4, hashOf := a5,
      full := fun he => by cases he
      cover := fun he => by cases he }
  | false =>
    simp only [Outcome.done.injEq] at h
    obtain ⟨he, hps⟩ := h
    obtain ⟨extra, x1, x2, x3⟩ := patchHashes_spec (todosFrom 0 rps) A1
    rw [x1] at hps
    subst hps
    have cnt : ∀ b, (A1 ++ extra).countP (fun p => p.batch == some b) = A1.countP (fun p => p.batch == some b) := by
      intro b
      rw [List.countP_append]
      have : extra.countP (fun p => p.batch == some b) = 0 := by
        rw [List.countP_eq_zero]
        intro p hp'
        simp [(x2 p hp').1]
      omega
    exact {
      targets := fun p hp' hs => by
        rcases List.mem_append.mp hp' with hp' | hp'
        · exact a1 p hp' hs
        · simp [(x2 p hp').1] at hs
      distinct := by
        unfold LabelDistinct
        rw [List.pairwise_append]
        refine ⟨a2, ?_, ?_⟩
        · exact List.pairwise_of_forall_mem_list (fun p hp' q _ hs => by simp [(x2 p hp').1] at hs) |>.imp (fun h => h)
        · intro p _ q hq _ hs
          simp [(x2 q hq).1] at hs
      range := fun p hp' n hn => by
        rcases List.mem_append.mp hp' with hp' | hp'
        · obtain ⟨m, hm, r⟩ := a3 p hp'
          rw [hm] at hn; cases hn; exact r
        · simp [(x2 p hp').1] at hn
      budget := fun b => by rw [cnt]; exact a4 b
      hashOf := fun p hp' => by
        rcases List.mem_append.mp hp' with hp' | hp'
        · exact a5 p hp'
        · obtain ⟨_, c, hc, i1, i2⟩ := x2 p hp'
          obtain ⟨j, rp, h1, h2, h3, _⟩ := todosFrom_mem rps 0 c hc
          exact ⟨rp, by rw [i1, h1, Nat.zero_add]; exact h2, by rw [i2, h3]⟩
      full := fun _ => by
        rcases a6 rfl with f | f
        · left; intro b; rw [cnt]; exact f b
        · right
          have f' : A1.length = rps.countP (isCand cfg) := f
          rw [List.countP_append]
          have e1 : A1.countP (fun p => p.batch.isSome) = A1.length := by
            rw [List.countP_eq_length]; exact allSome
          have e2 : extra.countP (fun p => p.batch.isSome) = 0 := by
            rw [List.countP_eq_zero]
            intro p hp'
            simp [(x2 p hp').1]
          omega
      cover := fun he' i rp hi hs => by
        subst he'
        obtain ⟨c, hc, ci⟩ := todosFrom_cover rps 0 i rp hi hs
        obtain ⟨p, hp', pi⟩ := x3 he c hc
        exact ⟨p, by rw [← x1]; exact hp', by omega⟩ }


/-! ### budget per batch; the resolved view after patching -/

theorem increment_eq {planned : List Int} {b : Nat} {v : Int} (h1 : 1 ≤ b) (hv : planned[b - 1]? = some v) :
    increment planned b = v := by
  unfold increment
  rw [if_neg (by omega), hv]

theorem increment_out {planned : List Int} {b : Nat} (h : b = 0 ∨ planned.length < b) :
    increment planned b = 0 := by
  unfold increment
  by_cases h0 : b = 0
  · simp [h0]
  · rw [if_neg h0, List.getElem?_eq_none (by omega)]

/-- budget of batch number `b` after the first loop: plan increment minus the pods already
    labelled `(id, b)`, never negative -/
theorem budget_slots (cfg : Cfg) (planned : List Int) (rps : List RPod) (b : Nat) :
    (slots (decAll cfg planned rps).reverse).count b =
      if 1 ≤ b ∧ b ≤ planned.length then (increment planned b - (labelled cfg b rps : Int)).toNat else 0 := by
  by_cases hb : 1 ≤ b ∧ b ≤ planned.length
  · rw [if_pos hb]
    obtain ⟨v, hv, hc⟩ := count_slots_reverse (decAll cfg planned rps) b hb.1 (by rw [length_decAll]; exact hb.2)
    have hlt : b - 1 < planned.length := by omega
    have hp : planned[b - 1]? = some planned[b - 1] := List.getElem?_eq_getElem hlt
    rw [getElem?_decAll cfg rps planned (b - 1) _ hp] at hv
    have hcnt : rps.countP (fun rp => slotOf cfg planned.length rp == some (b - 1)) = labelled cfg b rps := by
      unfold labelled
      apply List.countP_congr
      intro rp _
      have := slotOf_eq_labelledFor cfg planned.length rp (b - 1) hlt
      rw [show b - 1 + 1 = b by omega] at this
      rw [this]
    rw [hcnt] at hv
    rw [hc, increment_eq hb.1 hp]
    cases hv
    rfl
  · rw [if_neg hb]
    apply count_slots_out
    simp only [List.length_reverse, length_decAll]
    omega

theorem resolvePods_pods (env : Env) : ∀ (pods : List Pod) (cache : List (String × String)) (rps : List RPod),
    resolvePods env cache pods = some rps → rps.map (·.pod) = pods := by
  intro pods
  induction pods with
  | nil => intro cache rps h; simp [resolvePods] at h; subst h; rfl
  | cons p ps ih =>
    intro cache rps h
    unfold resolvePods at h
    split at h
    · simp only [Option.map_eq_some_iff] at h
      obtain ⟨r, hr, rfl⟩ := h
      simp [ih _ _ hr]
    · split at h
      · cases h
      · simp only [Option.map_eq_some_iff] at h
        obtain ⟨r, hr, rfl⟩ := h
        simp [ih _ _ hr]

theorem withPods_modify (f : Pod → Pod) : ∀ (l : List RPod) (pods : List Pod) (i : Nat),
    withPods l (pods.modify i f) = (withPods l pods).modify i (fun rp => { rp with pod := f rp.pod }) := by
  intro l
  induction l with
  | nil => intro pods i; simp [withPods]
  | cons rp l ih =>
    intro pods i
    cases pods with
    | nil => simp [withPods]
    | cons p pods =>
      cases i with
      | zero => simp [withPods]
      | succ i =>
        have := ih pods i
        simp only [withPods] at this
        simp [withPods, this]

theorem withPods_applyPatches (id : String) : ∀ (ps : List Patch) (rps : List RPod) (pods : List Pod),
    withPods rps (applyPatches id ps pods) = applyAll id ps (withPods rps pods) := by
  intro ps
  induction ps with
  | nil => intro rps pods; rfl
  | cons p ps ih =>
    intro rps pods
    simp only [applyPatches, applyAll, List.foldl_cons]
    have := ih rps (pods.modify p.idx (applyPatch id p))
    simp only [applyPatches, applyAll] at this
    rw [this, withPods_modify]
    rfl

theorem withPods_self : ∀ (rps : List RPod), withPods rps (rps.map (·.pod)) = rps := by
  intro rps
  induction rps with
  | nil => rfl
  | cons rp l ih =>
    simp only [withPods] at ih
    simp [withPods, ih]


/-! ### the pods after a pass, pod by pod; facts about one look-up -/

/-- the patches addressed to one pod, applied in order -/
def foldP (id : String) (l : List Patch) (pod : Pod) : Pod := l.foldl (fun q p => applyPatch id p q) pod

theorem length_applyPatches (id : String) : ∀ (ps : List Patch) (pods : List Pod),
    (applyPatches id ps pods).length = pods.length := by
  intro ps
  induction ps with
  | nil => intro pods; rfl
  | cons p ps ih =>
    intro pods
    simp only [applyPatches, List.foldl_cons]
    have := ih (pods.modify p.idx (applyPatch id p))
    simp only [applyPatches] at this
    rw [this]; simp

theorem getElem?_applyPatches (id : String) : ∀ (ps : List Patch) (pods : List Pod) (i : Nat),
    (applyPatches id ps pods)[i]? = (pods[i]?).map (foldP id (ps.filter (·.idx == i))) := by
  intro ps
  induction ps with
  | nil =>
    intro pods i
    cases h : pods[i]? <;> simp [applyPatches, foldP, h]
  | cons p ps ih =>
    intro pods i
    simp only [applyPatches, List.foldl_cons]
    have := ih (pods.modify p.idx (applyPatch id p)) i
    simp only [applyPatches] at this
    rw [this, List.getElem?_modify]
    cases pods[i]? with
    | none => simp
    | some pod =>
      by_cases e : p.idx = i
      · simp [e, foldP]
      · have : (p.idx == i) = false := by simp [e]
        simp [e, this]

theorem foldP_fixed (id : String) : ∀ (l : List Patch) (pod : Pod),
    (foldP id l pod).terminating = pod.terminating ∧ (foldP id l pod).owner = pod.owner := by
  intro l
  induction l with
  | nil => intro pod; simp [foldP]
  | cons p l ih =>
    intro pod
    have h1 := applyPatch_fixed id p pod
    have h2 := ih (applyPatch id p pod)
    simp only [foldP, List.foldl_cons] at h2 ⊢
    exact ⟨h2.1.trans h1.1, h2.2.trans h1.2.2.1⟩

theorem applyPatch_ctrlHash (id : String) (p : Patch) (pod : Pod) :
    (applyPatch id p pod).ctrlHash = (p.hash <|> pod.ctrlHash) := by
  unfold applyPatch
  cases p.batch <;> cases p.hash <;> simp

/-- all patches for one pod carry the same hash `H` -/
theorem foldP_ctrlHash (id : String) (H : Option String) : ∀ (l : List Patch) (pod : Pod),
    (∀ p ∈ l, p.hash = H) →
    (foldP id l pod).ctrlHash = if l.isEmpty then pod.ctrlHash else (H <|> pod.ctrlHash) := by
  intro l
  induction l with
  | nil => intro pod _; simp [foldP]
  | cons p l ih =>
    intro pod hH
    have h1 := applyPatch_ctrlHash id p pod
    have h2 := ih (applyPatch id p pod) (fun q hq => hH q (by simp [hq]))
    simp only [foldP, List.foldl_cons] at h2 ⊢
    rw [h2, h1, hH p (by simp)]
    cases l <;> cases H <;> simp

theorem lookup_mem {α β} [BEq α] (k : α) : ∀ (l : List (α × β)) (v : β), l.lookup k = some v → ∃ k', (k', v) ∈ l := by
  intro l
  induction l with
  | nil => intro v h; simp at h
  | cons a l ih =>
    intro v h
    obtain ⟨k1, v1⟩ := a
    simp only [List.lookup_cons] at h
    split at h
    · cases h; exact ⟨k1, by simp⟩
    · obtain ⟨k', hk⟩ := ih v h
      exact ⟨k', by simp [hk]⟩

def NonEmptyVals (l : List (String × String)) : Prop := ∀ x ∈ l, x.2 ≠ ""

theorem resolve_hp {env : Env} {cache : List (String × String)} {p : Pod} {eff cache' hp}
    (h : resolve env cache p = some (eff, cache', hp)) (he : NonEmptyVals env.rsHash) (hc : NonEmptyVals cache) :
    NonEmptyVals cache' ∧
    (∀ x, hp = some x → eff = some x ∧ x ≠ "") ∧
    (hp = none → eff = p.ctrlHash ∧ ((lbl p.ctrlHash != "") = true ∨ ∀ n u, p.owner ≠ .rs n u)) := by
  unfold resolve at h
  split at h
  · rename_i hne
    simp only [Option.some.injEq, Prod.mk.injEq] at h
    obtain ⟨rfl, rfl, rfl⟩ := h
    exact ⟨hc, by simp, fun _ => ⟨rfl, Or.inl hne⟩⟩
  · split at h
    · split at h
      · rename_i hx hl
        simp only [Option.some.injEq, Prod.mk.injEq] at h
        obtain ⟨rfl, rfl, rfl⟩ := h
        obtain ⟨k', hk⟩ := lookup_mem _ _ _ hl
        exact ⟨hc, fun x hx => by cases hx; exact ⟨rfl, hc _ hk⟩, by simp⟩
      · split at h
        · cases h
        · rename_i hx hl
          simp only [Option.some.injEq, Prod.mk.injEq] at h
          obtain ⟨rfl, rfl, rfl⟩ := h
          obtain ⟨k', hk⟩ := lookup_mem _ _ _ hl
          have hne := he _ hk
          refine ⟨?_, fun x hx => by cases hx; exact ⟨rfl, hne⟩, by simp⟩
          intro y hy
          simp only [List.mem_cons] at hy
          rcases hy with rfl | hy
          · exact hne
          · exact hc y hy
    · rename_i hno
      simp only [Option.some.injEq, Prod.mk.injEq] at h
      obtain ⟨rfl, rfl, rfl⟩ := h
      refine ⟨hc, by simp, fun _ => ⟨rfl, Or.inr ?_⟩⟩
      intro n u hcontra
      exact hno n u hcontra


/-! ### the look-ups of a second pass -/

/-- a resolved pod and the same pod after a complete pass -/
def AfterRel (rp : RPod) (q : Pod) : Prop :=
  q.terminating = rp.pod.terminating ∧ q.owner = rp.pod.owner ∧ q.ctrlHash = (rp.hp <|> rp.pod.ctrlHash)

theorem resolve_after {env : Env} {cache : List (String × String)} {p : Pod} {eff c1 hp}
    (h : resolve env cache p = some (eff, c1, hp)) (he : NonEmptyVals env.rsHash) (hc : NonEmptyVals cache)
    (q : Pod) (ho : q.owner = p.owner) (hq : q.ctrlHash = (hp <|> p.ctrlHash)) (cache' : List (String × String)) :
    resolve env cache' q = some (eff, cache', none) := by
  obtain ⟨_, r1, r2⟩ := resolve_hp h he hc
  cases hp with
  | some x =>
    obtain ⟨rfl, hx⟩ := r1 x rfl
    simp only [Option.orElse_eq_orElse, Option.orElse_eq_or, Option.some_or] at hq
    unfold resolve
    have : (lbl q.ctrlHash != "") = true := by simp [hq, lbl, hx]
    rw [if_pos this, hq]
  | none =>
    obtain ⟨rfl, hh⟩ := r2 rfl
    simp only [Option.orElse_eq_orElse, Option.orElse_eq_or, Option.none_or] at hq
    unfold resolve
    rcases hh with hh | hh
    · rw [hq, if_pos hh]
    · by_cases hl : (lbl q.ctrlHash != "") = true
      · rw [if_pos hl, hq]
      · rw [if_neg hl, ho]
        cases hown : p.owner with
        | rs n u => exact absurd hown (hh n u)
        | none => simp [hq]
        | other => simp [hq]

theorem resolvePods_after (env : Env) (he : NonEmptyVals env.rsHash) :
    ∀ (pods : List Pod) (cache : List (String × String)) (rps : List RPod),
    resolvePods env cache pods = some rps → NonEmptyVals cache →
    ∀ (pods' : List Pod) (cache' : List (String × String)), pods'.length = pods.length →
    (∀ (i : Nat) rp q, rps[i]? = some rp → pods'[i]? = some q → AfterRel rp q) →
    resolvePods env cache' pods' = some (List.zipWith (fun rp q => (⟨q, rp.eff, none⟩ : RPod)) rps pods') := by
  intro pods
  induction pods with
  | nil =>
    intro cache rps h _ pods' cache' hl _
    simp only [resolvePods, Option.some.injEq] at h
    subst h
    cases pods' with
    | nil => simp [resolvePods]
    | cons _ _ => simp at hl
  | cons p ps ih =>
    intro cache rps h hc pods' cache' hl hrel
    cases pods' with
    | nil => simp at hl
    | cons q qs =>
      have hl' : qs.length = ps.length := by simpa using hl
      unfold resolvePods at h
      by_cases ht : p.terminating = true
      · simp only [ht, if_true, Option.map_eq_some_iff] at h
        obtain ⟨r, hr, rfl⟩ := h
        obtain ⟨q1, _, q3⟩ := hrel 0 ⟨p, p.ctrlHash, none⟩ q (by simp) (by simp)
        simp only [Option.orElse_eq_orElse, Option.orElse_eq_or, Option.none_or] at q3
        have hrel' : ∀ (i : Nat) rp q', r[i]? = some rp → qs[i]? = some q' → AfterRel rp q' :=
          fun i rp q' h1 h2 => hrel (i + 1) rp q' (by simpa using h1) (by simpa using h2)
        have := ih cache r hr hc qs cache' hl' hrel'
        unfold resolvePods
        simp only [q1, ht, if_true, this, Option.map_some, List.zipWith_cons_cons, q3]
      · have ht' : p.terminating = false := by simpa using ht
        simp only [ht', Bool.false_eq_true, if_false] at h
        cases hres : resolve env cache p with
        | none => simp [hres] at h
        | some t =>
          obtain ⟨eff, c1, hp⟩ := t
          simp only [hres, Option.map_eq_some_iff] at h
          obtain ⟨r, hr, rfl⟩ := h
          obtain ⟨q1, q2, q3⟩ := hrel 0 ⟨p, eff, hp⟩ q (by simp) (by simp)
          have hrel' : ∀ (i : Nat) rp q', r[i]? = some rp → qs[i]? = some q' → AfterRel rp q' :=
            fun i rp q' h1 h2 => hrel (i + 1) rp q' (by simpa using h1) (by simpa using h2)
          have hc1 := (resolve_hp hres he hc).1
          have := ih c1 r hr hc1 qs cache' hl' hrel'
          have hq := resolve_after hres he hc q q2 q3 cache'
          unfold resolvePods
          simp only [q1, ht', Bool.false_eq_true, if_false, hq, this, Option.map_some, List.zipWith_cons_cons]


/-! ### what a second pass sees -/

def clearHp (rp : RPod) : RPod := { rp with hp := none }

theorem decAll_clearHp (cfg : Cfg) : ∀ (l : List RPod) (pl : List Int),
    decAll cfg pl (l.map clearHp) = decAll cfg pl l := by
  intro l
  induction l with
  | nil => intro pl; rfl
  | cons rp l ih =>
    intro pl
    simp only [List.map_cons, decAll]
    have : slotOf cfg pl.length (clearHp rp) = slotOf cfg pl.length rp := rfl
    rw [this]
    cases slotOf cfg pl.length rp <;> simp [ih]

theorem countP_isCand_clearHp (cfg : Cfg) (l : List RPod) :
    (l.map clearHp).countP (isCand cfg) = l.countP (isCand cfg) := by
  rw [List.countP_map]
  rfl

theorem todosFrom_nil : ∀ (l : List RPod) (i : Nat), (∀ rp ∈ l, rp.hp = none) → todosFrom i l = [] := by
  intro l
  induction l with
  | nil => intro i _; rfl
  | cons rp l ih =>
    intro i h
    unfold todosFrom
    rw [h rp (by simp)]
    exact ih (i + 1) (fun r hr => h r (by simp [hr]))

theorem candsFrom_nil (cfg : Cfg) (l : List RPod) (i : Nat) (h : l.countP (isCand cfg) = 0) :
    candsFrom cfg i l = [] := by
  apply List.eq_nil_of_length_eq_zero
  rw [length_candsFrom, h]

theorem slots_nil : ∀ (pr : List Int), (∀ v ∈ pr, v ≤ 0) → slots pr = [] := by
  intro pr
  induction pr with
  | nil => intro _; rfl
  | cons b bs ih =>
    intro h
    have hb : b.toNat = 0 := by have := h b (by simp); omega
    simp [slots, hb, ih (fun v hv => h v (by simp [hv]))]

theorem assign_nil_left (st : List Cand) : assign [] st = ([], false) := by simp [assign]
theorem assign_nil_right (s : List Nat) : assign s [] = ([], false) := by cases s <;> simp [assign]

/-- the pods a second pass sees -/
theorem second_pass_view {env : Env} {cfg : Cfg} {pods : List Pod} {planned : List Int} {rps : List RPod}
    {ps : List Patch}
    (hp : plannedIncrements cfg.batches cfg.replicas cfg.currentBatch = some planned)
    (hr : resolvePods env [] pods = some rps)
    (h : patchPodBatchLabel env cfg pods = .done false ps)
    (he : NonEmptyVals env.rsHash) :
    resolvePods env [] (applyPatches cfg.rolloutId ps pods) =
      some ((applyAll cfg.rolloutId ps rps).map clearHp) := by
  have f := patch_facts hp hr h
  have hpods := resolvePods_pods env pods [] rps hr
  have hrel : ∀ (i : Nat) rp q, rps[i]? = some rp → (applyPatches cfg.rolloutId ps pods)[i]? = some q → AfterRel rp q := by
    intro i rp q h1 h2
    have hpi : pods[i]? = some rp.pod := by rw [← hpods]; simp [h1]
    rw [getElem?_applyPatches, hpi] at h2
    simp only [Option.map_some, Option.some.injEq] at h2
    subst h2
    have hfix := foldP_fixed cfg.rolloutId (ps.filter (·.idx == i)) rp.pod
    have hH : ∀ p ∈ ps.filter (·.idx == i), p.hash = rp.hp := by
      intro p hpm
      simp only [List.mem_filter, beq_iff_eq] at hpm
      obtain ⟨rp', g1, g2⟩ := f.hashOf p hpm.1
      rw [hpm.2, h1] at g1
      cases g1; exact g2
    refine ⟨hfix.1, hfix.2, ?_⟩
    rw [foldP_ctrlHash cfg.rolloutId rp.hp _ _ hH]
    cases hhp : rp.hp with
    | none => simp
    | some x =>
      obtain ⟨p, hpm, hpi'⟩ := f.cover rfl i rp h1 (by simp [hhp])
      have : (ps.filter (·.idx == i)).isEmpty = false := by
        cases hf : ps.filter (·.idx == i) with
        | nil =>
          have : p ∈ ps.filter (·.idx == i) := by simp [hpm, hpi']
          rw [hf] at this; simp at this
        | cons _ _ => rfl
      simp [this]
  have := resolvePods_after env he pods [] rps hr (by intro x hx; simp at hx)
    (applyPatches cfg.rolloutId ps pods) [] (length_applyPatches _ _ _) hrel
  rw [this]
  congr 1
  have e1 : applyAll cfg.rolloutId ps rps = withPods rps (applyPatches cfg.rolloutId ps pods) := by
    rw [withPods_applyPatches, ← hpods, withPods_self]
  rw [e1, withPods, List.map_zipWith]
  rfl


/-! ### a second pass issues no patch -/

theorem second_pass_none {env : Env} {cfg : Cfg} {pods : List Pod} {planned : List Int} {rps : List RPod}
    {ps : List Patch}
    (hp : plannedIncrements cfg.batches cfg.replicas cfg.currentBatch = some planned)
    (hr : resolvePods env [] pods = some rps)
    (h : patchPodBatchLabel env cfg pods = .done false ps)
    (he : NonEmptyVals env.rsHash) (hlen : cfg.batches.length ≤ maxInt64) :
    patchPodBatchLabel env cfg (applyPatches cfg.rolloutId ps pods) = .done false [] := by
  have f := patch_facts hp hr h
  have hl := plannedIncrements_length hp
  have small : SmallBatch ps := fun p hpm n hn => by
    have := (f.range p hpm n hn).2
    omega
  have hv := second_pass_view hp hr h he
  rw [patch_decompose hp hv, decAll_clearHp]
  have htodo : todosFrom 0 ((applyAll cfg.rolloutId ps rps).map clearHp) = [] :=
    todosFrom_nil _ _ (fun rp hrp => by
      simp only [List.mem_map] at hrp
      obtain ⟨r, _, rfl⟩ := hrp
      rfl)
  have key : assign (slots (decAll cfg planned (applyAll cfg.rolloutId ps rps)).reverse)
      (candsFrom cfg 0 ((applyAll cfg.rolloutId ps rps).map clearHp)).reverse = ([], false) := by
    rcases f.full rfl with full | full
    · -- every slot of the first pass was used: no budget is left
      have : slots (decAll cfg planned (applyAll cfg.rolloutId ps rps)).reverse = [] := by
        apply slots_nil
        intro v hv'
        rw [List.mem_reverse, List.mem_iff_getElem?] at hv'
        obtain ⟨k, hk⟩ := hv'
        have hklt : k < planned.length := by
          have := (List.getElem?_eq_some_iff.mp hk).1
          rwa [length_decAll] at this
        have hpk : planned[k]? = some planned[k] := List.getElem?_eq_getElem hklt
        rw [getElem?_decAll cfg _ planned k _ hpk] at hk
        have hcnt : (applyAll cfg.rolloutId ps rps).countP (fun rp => slotOf cfg planned.length rp == some k) =
            labelled cfg (k + 1) (applyAll cfg.rolloutId ps rps) := by
          unfold labelled
          apply List.countP_congr
          intro rp _
          rw [slotOf_eq_labelledFor cfg planned.length rp k hklt]
        obtain ⟨c1, _⟩ := count_applyAll cfg (k + 1) ps rps f.distinct f.targets small
        rw [hcnt, c1, full (k + 1), budget_slots, if_pos (by omega)] at hk
        have : increment planned (k + 1) = planned[k] := increment_eq (by omega) (by simp)
        rw [this] at hk
        cases hk
        omega
      rw [this, assign_nil_left]
    · -- every candidate was labelled: nobody is left to label
      obtain ⟨_, c2⟩ := count_applyAll cfg 0 ps rps f.distinct f.targets small
      have : candsFrom cfg 0 ((applyAll cfg.rolloutId ps rps).map clearHp) = [] := by
        apply candsFrom_nil
        rw [countP_isCand_clearHp]
        omega
      rw [this, List.reverse_nil, assign_nil_right]
  rw [key, htodo]
  simp [patchHashes]


/-! ### foreign pods do not matter -/

/-- two lists of the same length related element by element -/
inductive Pointwise {α β} (R : α → β → Prop) : List α → List β → Prop
  | nil : Pointwise R [] []
  | cons {a b l m} : R a b → Pointwise R l m → Pointwise R (a :: l) (b :: m)

/-- `q` is `p` except possibly for the rollout-id / batch-id labels, and these differ only
    if neither pod carries the rollout-id of this release -/
def ForeignEq (cfg : Cfg) (p q : Pod) : Prop :=
  q.name = p.name ∧ q.terminating = p.terminating ∧ q.missing = p.missing ∧ q.tmplHash = p.tmplHash ∧
  q.ctrlHash = p.ctrlHash ∧ q.owner = p.owner ∧ q.noNeed = p.noNeed ∧
  ((q.rolloutId = p.rolloutId ∧ q.batchId = p.batchId) ∨ (hasId cfg p = false ∧ hasId cfg q = false))

def REq (cfg : Cfg) (a b : RPod) : Prop := b.eff = a.eff ∧ b.hp = a.hp ∧ ForeignEq cfg a.pod b.pod

theorem resolve_congr (env : Env) (cache : List (String × String)) (p q : Pod)
    (h1 : q.ctrlHash = p.ctrlHash) (h2 : q.owner = p.owner) : resolve env cache q = resolve env cache p := by
  unfold resolve
  rw [h1, h2]

theorem resolvePods_foreign (env : Env) (cfg : Cfg) : ∀ (pods pods' : List Pod), Pointwise (ForeignEq cfg) pods pods' →
    ∀ cache, match resolvePods env cache pods, resolvePods env cache pods' with
      | none, none => True
      | some a, some b => Pointwise (REq cfg) a b
      | _, _ => False := by
  intro pods pods' hf
  induction hf with
  | nil => intro cache; simp only [resolvePods]; exact Pointwise.nil
  | @cons p q ps qs hpq _ ih =>
    intro cache
    obtain ⟨e1, e2, e3, e4, e5, e6, e7, e8⟩ := hpq
    unfold resolvePods
    rw [e2, resolve_congr env cache p q e5 e6]
    by_cases ht : p.terminating = true
    · simp only [ht, if_true]
      have := ih cache
      revert this
      cases resolvePods env cache ps <;> cases resolvePods env cache qs <;> simp
      intro h
      exact Pointwise.cons ⟨e5, rfl, e1, e2, e3, e4, e5, e6, e7, e8⟩ h
    · simp only [ht, Bool.false_eq_true, if_false]
      cases hres : resolve env cache p with
      | none => simp
      | some t =>
        obtain ⟨eff, c1, hp⟩ := t
        simp only []
        have := ih c1
        revert this
        cases resolvePods env c1 ps <;> cases resolvePods env c1 qs <;> simp
        intro h
        exact Pointwise.cons ⟨rfl, rfl, e1, e2, e3, e4, e5, e6, e7, e8⟩ h

theorem REq_view {cfg : Cfg} {a b : RPod} (h : REq cfg a b) :
    isCand cfg b = isCand cfg a ∧ (∀ len, slotOf cfg len b = slotOf cfg len a) ∧ b.hp = a.hp ∧
    b.pod.missing = a.pod.missing := by
  obtain ⟨h1, h2, e1, e2, e3, e4, e5, e6, e7, e8⟩ := h
  have hl : liveNew cfg b = liveNew cfg a := by simp [liveNew, e2, e4, h1]
  refine ⟨?_, ?_, h2, e3⟩
  · rcases e8 with ⟨r1, _⟩ | ⟨r1, r2⟩
    · simp [isCand, hl, hasId, r1]
    · simp [isCand, hl, r1, r2]
  · intro len
    rcases e8 with ⟨r1, r2⟩ | ⟨r1, r2⟩
    · simp [slotOf, hl, hasId, r1, r2]
    · simp [slotOf, r1, r2]

theorem decAll_foreign (cfg : Cfg) : ∀ (a b : List RPod), Pointwise (REq cfg) a b →
    ∀ pl, decAll cfg pl b = decAll cfg pl a := by
  intro a b hf
  induction hf with
  | nil => intro pl; rfl
  | cons hab _ ih =>
    intro pl
    unfold decAll
    rw [(REq_view hab).2.1]
    split <;> exact ih _

theorem candsFrom_foreign (cfg : Cfg) : ∀ (a b : List RPod), Pointwise (REq cfg) a b →
    ∀ i, candsFrom cfg i b = candsFrom cfg i a := by
  intro a b hf
  induction hf with
  | nil => intro i; rfl
  | cons hab _ ih =>
    intro i
    unfold candsFrom
    obtain ⟨v1, _, v3, v4⟩ := REq_view hab
    rw [v1, v3, v4, ih]

theorem todosFrom_foreign (cfg : Cfg) : ∀ (a b : List RPod), Pointwise (REq cfg) a b →
    ∀ i, todosFrom i b = todosFrom i a := by
  intro a b hf
  induction hf with
  | nil => intro i; rfl
  | cons hab _ ih =>
    intro i
    unfold todosFrom
    obtain ⟨_, _, v3, v4⟩ := REq_view hab
    rw [v3, v4, ih]

/-- (v) the outcome does not depend on the rollout-id / batch-id values of foreign pods -/
theorem patch_foreign (env : Env) (cfg : Cfg) (pods pods' : List Pod)
    (hf : Pointwise (ForeignEq cfg) pods pods') :
    patchPodBatchLabel env cfg pods' = patchPodBatchLabel env cfg pods := by
  cases hp : plannedIncrements cfg.batches cfg.replicas cfg.currentBatch with
  | none => rw [patch_panic hp, patch_panic hp]
  | some planned =>
    have := resolvePods_foreign env cfg pods pods' hf []
    cases hr : resolvePods env [] pods with
    | none =>
      cases hr' : resolvePods env [] pods' with
      | none => rw [patch_rsErr hp hr, patch_rsErr hp hr']
      | some b => simp [hr, hr'] at this
    | some a =>
      cases hr' : resolvePods env [] pods' with
      | none => simp [hr, hr'] at this
      | some b =>
        simp only [hr, hr'] at this
        rw [patch_decompose hp hr, patch_decompose hp hr', decAll_foreign cfg a b this,
          candsFrom_foreign cfg a b this, todosFrom_foreign cfg a b this]

theorem pointwise_map {α} (R : α → α → Prop) (f : α → α) (h : ∀ a, R a (f a)) : ∀ l : List α, Pointwise R l (l.map f) := by
  intro l
  induction l with
  | nil => exact Pointwise.nil
  | cons a l ih => exact Pointwise.cons (h a) ih

theorem foreignEq_scramble (cfg : Cfg) (hid : cfg.rolloutId ≠ "") (p : Pod) : ForeignEq cfg p (scramble cfg p) := by
  unfold scramble
  by_cases h : hasId cfg p = true
  · simp [h, ForeignEq]
  · have h' : hasId cfg p = false := by simpa using h
    simp only [h', Bool.false_eq_true, if_false]
    refine ⟨rfl, rfl, rfl, rfl, rfl, rfl, rfl, Or.inr ⟨h', ?_⟩⟩
    simp only [hasId, lbl]
    cases hr : p.rolloutId with
    | none =>
      simp only [Option.getD_some, beq_eq_false_iff_ne, ne_eq]
      intro e
      have := congrArg String.length e
      simp [String.length_append] at this
    | some x =>
      simp only [Option.getD_none, beq_eq_false_iff_ne, ne_eq]
      exact fun e => hid e.symm


/-! ### filters -/

theorem mapM_option_some {α β} (f : α → Option β) : ∀ (l : List α), (∀ a ∈ l, (f a).isSome = true) →
    ∃ bs, l.mapM f = some bs ∧ bs.length = l.length := by
  intro l
  induction l with
  | nil => intro _; exact ⟨[], by simp, rfl⟩
  | cons a l ih =>
    intro h
    obtain ⟨bs, hbs, hl⟩ := ih (fun x hx => h x (by simp [hx]))
    have ha := h a (by simp)
    cases hfa : f a with
    | none => simp [hfa] at ha
    | some b => exact ⟨b :: bs, by simp [List.mapM_cons, hfa, hbs], by simp [hl]⟩

theorem sortPods_some (pods : List Pod) (h : pods.length < 2 ∨ pods.all (fun p => (lastDash p.name.toList).isSome) = true) :
    ∃ s, sortPods pods = some s := by
  unfold sortPods
  by_cases hl : pods.length < 2
  · exact ⟨pods, by simp [hl]⟩
  · rw [if_neg hl]
    have hall : pods.all (fun p => (lastDash p.name.toList).isSome) = true := by
      rcases h with h | h
      · exact absurd h hl
      · exact h
    rw [List.all_eq_true] at hall
    obtain ⟨bs, hbs, _⟩ := mapM_option_some (fun p => (sortKey p.name).map (fun k => (p, k))) pods (by
      intro p hp
      have := hall p hp
      simp only [sortKey, Option.isSome_map]
      cases hd : lastDash p.name.toList with
      | none => simp [hd] at this
      | some i => simp)
    rw [hbs]
    exact ⟨_, rfl⟩

theorem applyFilter_some (k : FilterKind) (cfg : Cfg) (pods : List Pod) (h : namesOk k pods = true) :
    ∃ fp, applyFilter k cfg pods = some fp := by
  cases k with
  | none => exact ⟨pods, rfl⟩
  | unordered => exact ⟨_, rfl⟩
  | ordered =>
    have h' : pods.length < 2 ∨ pods.all (fun p => (lastDash p.name.toList).isSome) = true := by
      simp only [namesOk, bne_self_eq_false, Bool.false_or, Bool.or_eq_true, decide_eq_true_eq] at h
      exact h
    obtain ⟨s, hs⟩ := sortPods_some pods h'
    simp only [applyFilter, filterOrdered, hs]
    split
    · exact ⟨_, rfl⟩
    · split <;> exact ⟨_, rfl⟩

theorem mapM_pair_fst {α κ} (g : α → Option κ) : ∀ (l : List α) (bs : List (α × κ)),
    l.mapM (fun p => (g p).map (fun k => (p, k))) = some bs → bs.map (·.1) = l := by
  intro l
  induction l with
  | nil => intro bs h; simp at h; subst h; rfl
  | cons a l ih =>
    intro bs h
    simp only [List.mapM_cons, Option.bind_eq_bind, Option.bind_eq_some_iff, Option.map_eq_some_iff] at h
    obtain ⟨x, ⟨k, _, rfl⟩, y, hy, h⟩ := h
    simp only [Option.pure_def, Option.some.injEq] at h
    subst h
    simp [ih y hy]

theorem mem_insertByKey (x y : Pod × Int) : ∀ l, y ∈ insertByKey x l ↔ y = x ∨ y ∈ l := by
  intro l
  induction l with
  | nil => simp [insertByKey]
  | cons z l ih =>
    unfold insertByKey
    split
    · simp
    · simp only [List.mem_cons, ih]
      constructor
      · rintro (h | h | h) <;> simp [h]
      · rintro (h | h | h) <;> simp [h]

theorem mem_foldl_insert (y : Pod × Int) : ∀ (l acc : List (Pod × Int)),
    y ∈ l.foldl (fun acc x => insertByKey x acc) acc ↔ y ∈ l ∨ y ∈ acc := by
  intro l
  induction l with
  | nil => intro acc; simp
  | cons a l ih =>
    intro acc
    simp only [List.foldl_cons, ih, mem_insertByKey, List.mem_cons]
    constructor
    · rintro (h | h | h) <;> simp [h]
    · rintro ((h | h) | h) <;> simp [h]

theorem sortPods_mem (pods s : List Pod) (h : sortPods pods = some s) (p : Pod) : p ∈ s ↔ p ∈ pods := by
  unfold sortPods at h
  split at h
  · cases h; rfl
  · split at h
    · cases h
    · rename_i keyed hk
      cases h
      have hfst := mapM_pair_fst _ _ _ hk
      simp only [List.mem_map, mem_foldl_insert, List.not_mem_nil, or_false]
      constructor
      · rintro ⟨y, hy, rfl⟩
        rw [← hfst]; exact List.mem_map.mpr ⟨y, hy, rfl⟩
      · intro hp
        rw [← hfst] at hp
        obtain ⟨y, hy, rfl⟩ := List.mem_map.mp hp
        exact ⟨y, hy, rfl⟩

/-- no filter invents a pod -/
theorem applyFilter_subset (k : FilterKind) (cfg : Cfg) (pods fp : List Pod)
    (h : applyFilter k cfg pods = some fp) : ∀ p ∈ fp, p ∈ pods := by
  cases k with
  | none => simp only [applyFilter, Option.some.injEq] at h; subst h; exact fun _ hp => hp
  | unordered =>
    simp only [applyFilter, Option.some.injEq] at h
    subst h
    intro p hp
    unfold filterUnordered at hp
    simp only [] at hp
    split at hp
    · exact hp
    · split at hp
      · simp only [List.mem_append, List.mem_filter] at hp
        rcases hp with hp | hp <;> simp [hp.1]
      · simp only [List.mem_append] at hp
        rcases hp with (hp | hp) | hp
        · exact (List.mem_filter.mp (List.mem_filter.mp hp).1).1
        · exact (List.mem_filter.mp (List.mem_filter.mp (List.mem_of_mem_take hp)).1).1
        · exact (List.mem_filter.mp hp).1
  | ordered =>
    simp only [applyFilter] at h
    unfold filterOrdered at h
    split at h
    · cases h
    · rename_i s hs
      have hm := sortPods_mem pods s hs
      intro p hp
      rw [← hm]
      simp only [] at h
      split at h
      · cases h; exact hp
      · split at h
        · cases h
          simp only [List.mem_append, List.mem_filter] at hp
          rcases hp with hp | hp <;> simp [hp.1]
        · cases h
          simp only [List.mem_append] at hp
          rcases hp with (hp | hp) | hp
          · exact (List.mem_filter.mp (List.mem_filter.mp hp).1).1
          · exact (List.mem_filter.mp (List.mem_filter.mp (List.mem_of_mem_take hp)).1).1
          · exact (List.mem_filter.mp hp).1


/-! ### the increments in closed form -/

/-- cumulative target of batch index `i` (0-based): `calculateBatchReplicas(batches, replicas, i)` -/
def cumTarget (batches : List IntOrPct) (R : Int) (i : Nat) : Int :=
  match batches[i]? with
  | some b => calcBatchReplicas R b
  | none => 0

theorem loop1_spec (batches : List IntOrPct) (R : Int) : ∀ (n : Nat) (s : List Int),
    n ≤ batches.length → s.length = batches.length →
    ∃ s', (List.range n).foldlM (incrStep1 batches R) s = some s' ∧ s'.length = s.length ∧
      ∀ j, s'[j]? = if j < n then some (cumTarget batches R j) else s[j]? := by
  intro n
  induction n with
  | zero => intro s _ _; exact ⟨s, by simp, rfl, by simp⟩
  | succ n ih =>
    intro s hn hl
    obtain ⟨s1, h1, l1, g1⟩ := ih s (by omega) hl
    have hlt : n < batches.length := by omega
    have hstep : incrStep1 batches R s1 n = some (s1.set n (cumTarget batches R n)) := by
      simp [incrStep1, cumTarget, List.getElem?_eq_getElem hlt, setAt_some _ (show n < s1.length by omega)]
    refine ⟨s1.set n (cumTarget batches R n), ?_, by simp [l1], ?_⟩
    · rw [List.range_succ, List.foldlM_append, h1]
      simp [hstep]
    · intro j
      rw [List.getElem?_set]
      by_cases e : n = j
      · subst e; simp [show n < s1.length by omega]
      · simp only [e, if_false, g1 j]
        by_cases h' : j < n
        · simp [h', show j < n + 1 by omega]
        · simp [h', show ¬ j < n + 1 by omega]

theorem loop2_spec : ∀ (c : Nat) (s : List Int), c < s.length →
    ∃ s', ((List.range c).reverse.map (· + 1)).foldlM incrStep2 s = some s' ∧ s'.length = s.length ∧
      ∀ j, s'[j]? = if 1 ≤ j ∧ j ≤ c then (match s[j]?, s[j - 1]? with
                                            | some a, some b => some (a - b)
                                            | _, _ => none) else s[j]? := by
  intro c
  induction c with
  | zero => intro s _; exact ⟨s, by simp, rfl, by intro j; simp; omega⟩
  | succ c ih =>
    intro s hc
    have h1 : c + 1 < s.length := hc
    have h0 : c < s.length := by omega
    let s1 := s.set (c + 1) (s[c + 1] - s[c])
    have hstep : incrStep2 s (c + 1) = some s1 := by
      simp [incrStep2, List.getElem?_eq_getElem h1, List.getElem?_eq_getElem h0, setAt_some _ h1, s1]
    obtain ⟨s2, g1, l2, g2⟩ := ih s1 (by simp [s1]; omega)
    refine ⟨s2, ?_, by simp [l2, s1], ?_⟩
    · rw [List.range_succ, List.reverse_append, List.reverse_singleton, List.singleton_append, List.map_cons,
        List.foldlM_cons, hstep]
      exact g1
    · intro j
      rw [g2 j]
      by_cases hj : 1 ≤ j ∧ j ≤ c
      · have e1 : s1[j]? = s[j]? := by simp [s1, List.getElem?_set]; omega
        have e2 : s1[j - 1]? = s[j - 1]? := by simp [s1, List.getElem?_set]; omega
        rw [if_pos hj, if_pos (by omega), e1, e2]
      · rw [if_neg hj]
        by_cases e : j = c + 1
        · subst e
          rw [if_pos (by omega)]
          simp [s1, h1, List.getElem?_eq_getElem h0]
        · rw [if_neg (by omega)]
          simp [s1, List.getElem?_set]; omega

/-- **what the increments are**: for `0 ≤ currentBatch < len(batches)`, entry `i ≤ currentBatch`
    is the cumulative target of batch `i` minus that of batch `i-1`, later entries are `0` -/
theorem plannedIncrements_closed {batches : List IntOrPct} {R : Int} {c : Nat} {p : List Int}
    (hc : c < batches.length) (h : plannedIncrements batches R c = some p) (i : Nat) (hi : i < batches.length) :
    p[i]? = some (if i = 0 then cumTarget batches R 0
                  else if i ≤ c then cumTarget batches R i - cumTarget batches R (i - 1) else 0) := by
  obtain ⟨s1, h1, l1, g1⟩ := loop1_spec batches R (c + 1) (List.replicate batches.length 0) (by omega) (by simp)
  obtain ⟨s2, h2, l2, g2⟩ := loop2_spec c s1 (by rw [l1]; simpa using hc)
  have hn : ((c : Int) + 1).toNat = c + 1 := by omega
  have hm : (c : Int).toNat = c := by omega
  simp only [plannedIncrements, Option.bind_eq_bind, hn, hm, h1, Option.bind_some, h2, Option.some.injEq] at h
  subst h
  rw [g2 i]
  by_cases hj : 1 ≤ i ∧ i ≤ c
  · rw [if_pos hj, g1 i, g1 (i - 1), if_pos (by omega), if_pos (by omega), if_neg (by omega), if_pos hj.2]
  · rw [if_neg hj, g1 i]
    by_cases e : i = 0
    · subst e; simp
    · rw [if_neg (by omega), if_neg e, if_neg (by omega)]
      simp [hi]


/-! ### the filters commute with a relabelling of foreign pods -/

theorem filter_map_inv {α} (f : α → α) (p : α → Bool) (h : ∀ a, p (f a) = p a) (l : List α) :
    (l.map f).filter p = (l.filter p).map f := by
  induction l with
  | nil => rfl
  | cons a l ih => simp only [List.map_cons, List.filter_cons, h a, ih]; split <;> rfl

/-- what the filters read of a pod is untouched by a relabelling of foreign pods -/
theorem foreignEq_filter_view {cfg : Cfg} {p q : Pod} (h : ForeignEq cfg p q) :
    q.name = p.name ∧ q.terminating = p.terminating ∧ q.tmplHash = p.tmplHash ∧ q.ctrlHash = p.ctrlHash ∧
    q.noNeed = p.noNeed ∧ (lbl q.rolloutId != cfg.rolloutId) = (lbl p.rolloutId != cfg.rolloutId) := by
  obtain ⟨e1, e2, _, e4, e5, _, e7, e8⟩ := h
  refine ⟨e1, e2, e4, e5, e7, ?_⟩
  rcases e8 with ⟨r1, _⟩ | ⟨r1, r2⟩
  · rw [r1]
  · simp only [hasId] at r1 r2
    simp [bne, r1, r2]

set_option linter.unusedSimpArgs false in
theorem filterUnordered_map (cfg : Cfg) (f : Pod → Pod) (hf : ∀ p, ForeignEq cfg p (f p)) (pods : List Pod) :
    filterUnordered cfg (pods.map f) = (filterUnordered cfg pods).map f := by
  have v := fun p => foreignEq_filter_view (hf p)
  unfold filterUnordered
  simp only []
  rw [filter_map_inv f _ (fun a => by have := v a; simp only [this.1, this.2.1, this.2.2.1, this.2.2.2.1, this.2.2.2.2.1, this.2.2.2.2.2]),
    filter_map_inv f _ (fun a => by have := v a; simp only [this.1, this.2.1, this.2.2.1, this.2.2.2.1, this.2.2.2.2.1, this.2.2.2.2.2]),
    filter_map_inv f _ (fun a => by have := v a; simp only [this.1, this.2.1, this.2.2.1, this.2.2.2.1, this.2.2.2.2.1, this.2.2.2.2.2]),
    filter_map_inv f _ (fun a => by have := v a; simp only [this.1, this.2.1, this.2.2.1, this.2.2.2.1, this.2.2.2.2.1, this.2.2.2.2.2])]
  simp only [List.length_map]
  split
  · rfl
  · split
    · simp
    · simp [List.map_take]

theorem insertByKey_map (f : Pod → Pod) (x : Pod × Int) : ∀ l : List (Pod × Int),
    insertByKey (f x.1, x.2) (l.map fun y => (f y.1, y.2)) = (insertByKey x l).map fun y => (f y.1, y.2) := by
  intro l
  induction l with
  | nil => rfl
  | cons y l ih =>
    simp only [List.map_cons, insertByKey]
    split
    · rfl
    · simp [ih]

theorem foldl_insert_map (f : Pod → Pod) : ∀ (l acc : List (Pod × Int)),
    (l.map fun y => (f y.1, y.2)).foldl (fun acc x => insertByKey x acc) (acc.map fun y => (f y.1, y.2)) =
      (l.foldl (fun acc x => insertByKey x acc) acc).map fun y => (f y.1, y.2) := by
  intro l
  induction l with
  | nil => intro acc; rfl
  | cons x l ih =>
    intro acc
    simp only [List.map_cons, List.foldl_cons]
    rw [insertByKey_map f x acc, ih]

theorem mapM_key_map (f : Pod → Pod) (hn : ∀ p, (f p).name = p.name) : ∀ (l : List Pod),
    (l.map f).mapM (fun p => (sortKey p.name).map (fun k => (p, k))) =
      (l.mapM (fun p => (sortKey p.name).map (fun k => (p, k)))).map (fun ks => ks.map fun y => (f y.1, y.2)) := by
  intro l
  induction l with
  | nil => rfl
  | cons a l ih =>
    simp only [List.map_cons, List.mapM_cons, hn a, ih, Option.bind_eq_bind]
    cases sortKey a.name with
    | none => rfl
    | some k =>
      cases l.mapM (fun p => (sortKey p.name).map (fun k => (p, k))) with
      | none => rfl
      | some ks => rfl

theorem sortPods_map (f : Pod → Pod) (hn : ∀ p, (f p).name = p.name) (pods : List Pod) :
    sortPods (pods.map f) = (sortPods pods).map (·.map f) := by
  unfold sortPods
  simp only [List.length_map]
  split
  · rfl
  · rw [mapM_key_map f hn]
    cases pods.mapM (fun p => (sortKey p.name).map (fun k => (p, k))) with
    | none => rfl
    | some ks =>
      simp only [Option.map_some]
      have := foldl_insert_map f ks []
      simp only [List.map_nil] at this
      rw [this]
      simp [List.map_map, Function.comp_def]

set_option linter.unusedSimpArgs false in
theorem filterOrdered_map (cfg : Cfg) (f : Pod → Pod) (hf : ∀ p, ForeignEq cfg p (f p)) (pods : List Pod) :
    filterOrdered cfg (pods.map f) = (filterOrdered cfg pods).map (·.map f) := by
  have v := fun p => foreignEq_filter_view (hf p)
  unfold filterOrdered
  rw [sortPods_map f (fun p => (v p).1)]
  cases sortPods pods with
  | none => rfl
  | some s =>
    simp only [Option.map_some]
    rw [filter_map_inv f _ (fun a => by have := v a; simp only [this.1, this.2.1, this.2.2.1, this.2.2.2.1, this.2.2.2.2.1, this.2.2.2.2.2]),
      filter_map_inv f _ (fun a => by have := v a; simp only [this.1, this.2.1, this.2.2.1, this.2.2.2.1, this.2.2.2.2.1, this.2.2.2.2.2]),
      filter_map_inv f _ (fun a => by have := v a; simp only [this.1, this.2.1, this.2.2.1, this.2.2.2.1, this.2.2.2.2.1, this.2.2.2.2.2]),
      filter_map_inv f _ (fun a => by have := v a; simp only [this.1, this.2.1, this.2.2.1, this.2.2.2.1, this.2.2.2.2.1, this.2.2.2.2.2])]
    simp only [List.length_map]
    split
    · rfl
    · split
      · simp
      · simp [List.map_take]

theorem applyFilter_map (k : FilterKind) (cfg : Cfg) (f : Pod → Pod) (hf : ∀ p, ForeignEq cfg p (f p)) (pods : List Pod) :
    applyFilter k cfg (pods.map f) = (applyFilter k cfg pods).map (·.map f) := by
  cases k with
  | none => rfl
  | unordered => simp [applyFilter, filterUnordered_map cfg f hf]
  | ordered => exact filterOrdered_map cfg f hf pods

/-- (v) through the exported entry point, for all three filters -/
theorem patchTop_foreign (env : Env) (k : FilterKind) (cfg : Cfg) (f : Pod → Pod)
    (hf : ∀ p, ForeignEq cfg p (f p)) (pods : List Pod) :
    (patchTop env k cfg (pods.map f)).2 = (patchTop env k cfg pods).2 := by
  unfold patchTop
  have he : (pods.map f).isEmpty = pods.isEmpty := by cases pods <;> rfl
  rw [he, applyFilter_map k cfg f hf]
  split
  · rfl
  · cases applyFilter k cfg pods with
    | none => rfl
    | some fp =>
      simp only [Option.map_some]
      exact patch_foreign env cfg fp _ (pointwise_map _ _ hf fp)


end RV.LabelPatch
