/-
  Helper lemmas for the Gateway model (C13): the index-based Go helpers
  (`getServiceBackendRef`, `setServiceBackendRef`, `filterOutServiceBackendRef`)
  characterised by structural equations and by core `List` functions.
-/
import RV.Model.Gateway
import RV.Oracle.C13
namespace RV.Gateway
open RV.Oracle.C13

/-! ### `isSvc` -/

theorem isSvc_iff {r : Ref} {n : String} :
    isSvc r n = true ↔ r.kind = some "Service" ∧ r.name = n := by
  simp [isSvc]

theorem isSvc_name {r : Ref} {n : String} (h : isSvc r n = true) : r.name = n :=
  (isSvc_iff.1 h).2

theorem isSvc_kind {r : Ref} {n : String} (h : isSvc r n = true) : r.kind = some "Service" :=
  (isSvc_iff.1 h).1

theorem isSvc_self {r : Ref} (h : r.kind = some "Service") : isSvc r r.name = true :=
  isSvc_iff.2 ⟨h, rfl⟩

theorem isSvc_ne {r : Ref} {n m : String} (h : isSvc r n = true) (hnm : n ≠ m) :
    isSvc r m = false := by
  cases hm : isSvc r m with
  | false => rfl
  | true => exact absurd ((isSvc_name h).symm.trans (isSvc_name hm)) hnm

theorem isSvc_other {x : Ref} {n : String} (hn : n ≠ x.name) : isSvc x n = false := by
  cases h : isSvc x n with
  | false => rfl
  | true => exact absurd (isSvc_name h).symm hn

@[simp] theorem isSvc_setW (r : Ref) (w : Int) (n : String) : isSvc (setW r w) n = isSvc r n := rfl

@[simp] theorem isSvc_withWeight (r : Ref) (w : Option Int) (n : String) :
    isSvc { r with weight := w } n = isSvc r n := rfl

/-! ### `getRef` -/

theorem getRef_snd (refs : List Ref) (n : String) :
    (getRef refs n).map (·.2) = findSvc refs n := by
  induction refs with
  | nil => rfl
  | cons r rs ih =>
    simp only [getRef, findSvc, List.find?_cons]
    cases h : isSvc r n with
    | true => simp
    | false =>
      simp only [Bool.false_eq_true, if_false]
      rw [← show (getRef rs n).map (·.2) = List.find? (fun x => isSvc x n) rs from ih]
      cases getRef rs n with
      | none => rfl
      | some p => rfl

theorem getRef_eq_none {refs : List Ref} {n : String} :
    getRef refs n = none ↔ findSvc refs n = none := by
  rw [← getRef_snd]; cases getRef refs n <;> simp

theorem getRef_eq_some {refs : List Ref} {n : String} {i : Nat} {s : Ref}
    (h : getRef refs n = some (i, s)) : findSvc refs n = some s := by
  rw [← getRef_snd, h]; rfl

theorem findSvc_isSome (refs : List Ref) (n : String) :
    (findSvc refs n).isSome = hasSvc refs n := by
  simp only [findSvc, hasSvc, List.any_eq]
  apply Bool.eq_iff_iff.2
  simp

theorem getRef_isSome (refs : List Ref) (n : String) :
    (getRef refs n).isSome = hasSvc refs n := by
  rw [← findSvc_isSome, ← getRef_snd]; cases getRef refs n <;> rfl

theorem findSvc_some_isSvc {refs : List Ref} {n : String} {s : Ref}
    (h : findSvc refs n = some s) : isSvc s n = true := by
  have := List.find?_some h
  exact this

theorem findSvc_eq_none {refs : List Ref} {n : String} :
    findSvc refs n = none ↔ hasSvc refs n = false := by
  rw [← findSvc_isSome]; cases findSvc refs n <;> simp

theorem hasSvc_of_findSvc {refs : List Ref} {n : String} {s : Ref}
    (h : findSvc refs n = some s) : hasSvc refs n = true := by
  rw [← findSvc_isSome, h]; rfl

@[simp] theorem findSvc_nil (n : String) : findSvc [] n = none := rfl
@[simp] theorem hasSvc_nil (n : String) : hasSvc [] n = false := rfl
@[simp] theorem eraseSvc_nil (n : String) : eraseSvc [] n = [] := rfl

theorem findSvc_cons (r : Ref) (rs : List Ref) (n : String) :
    findSvc (r :: rs) n = if isSvc r n then some r else findSvc rs n := by
  simp only [findSvc, List.find?_cons]
  cases isSvc r n <;> simp

theorem hasSvc_cons (r : Ref) (rs : List Ref) (n : String) :
    hasSvc (r :: rs) n = (isSvc r n || hasSvc rs n) := by
  simp [hasSvc]

theorem eraseSvc_cons (r : Ref) (rs : List Ref) (n : String) :
    eraseSvc (r :: rs) n = if isSvc r n then rs else r :: eraseSvc rs n := by
  simp only [eraseSvc, List.eraseP_cons]
  cases isSvc r n <;> simp

/-! ### structural equations of the index-based helpers -/

theorem filterOut_eq (refs : List Ref) (n : String) : filterOut refs n = eraseSvc refs n := by
  induction refs with
  | nil => rfl
  | cons r rs ih =>
    rw [eraseSvc_cons]
    unfold filterOut at ih ⊢
    simp only [getRef]
    cases h : isSvc r n with
    | true => simp
    | false =>
      simp only [Bool.false_eq_true, if_false]
      cases hg : getRef rs n with
      | none => simp only [hg] at ih; simp [← ih]
      | some p =>
        obtain ⟨i, x⟩ := p
        simp only [hg] at ih
        simp [← ih]

theorem setRef_nil {x : Ref} (hx : x.kind = some "Service") : setRef [] x = [x] := by
  simp [setRef, hx, getRef]

theorem setRef_cons {x : Ref} (hx : x.kind = some "Service") (r : Ref) (rs : List Ref) :
    setRef (r :: rs) x = if isSvc r x.name then x :: rs else r :: setRef rs x := by
  unfold setRef
  simp only [hx, bne_self_eq_false, Bool.false_eq_true, if_false, getRef]
  cases h : isSvc r x.name with
  | true => simp
  | false =>
    simp only [Bool.false_eq_true, if_false]
    cases hg : getRef rs x.name with
    | none => simp
    | some p => obtain ⟨i, y⟩ := p; simp

/-! ### `setRef` against find / erase / has -/

section setRef
variable {x : Ref} (hx : x.kind = some "Service")
include hx

theorem findSvc_setRef_self (refs : List Ref) : findSvc (setRef refs x) x.name = some x := by
  induction refs with
  | nil => rw [setRef_nil hx, findSvc_cons, isSvc_self hx]; rfl
  | cons r rs ih =>
    rw [setRef_cons hx]
    cases h : isSvc r x.name with
    | true => simp only [if_true]; rw [findSvc_cons, isSvc_self hx]; rfl
    | false => simp only [Bool.false_eq_true, if_false]; rw [findSvc_cons, h]; simpa using ih

theorem findSvc_setRef_other (refs : List Ref) {n : String} (hn : n ≠ x.name) :
    findSvc (setRef refs x) n = findSvc refs n := by
  induction refs with
  | nil => rw [setRef_nil hx, findSvc_cons, isSvc_other hn]; rfl
  | cons r rs ih =>
    rw [setRef_cons hx]
    cases h : isSvc r x.name with
    | true =>
      simp only [if_true]
      rw [findSvc_cons, findSvc_cons, isSvc_other hn, isSvc_ne h (Ne.symm hn)]
      simp
    | false =>
      simp only [Bool.false_eq_true, if_false]
      rw [findSvc_cons, findSvc_cons, ih]

theorem hasSvc_setRef (refs : List Ref) (n : String) :
    hasSvc (setRef refs x) n = (hasSvc refs n || n == x.name) := by
  induction refs with
  | nil =>
    rw [setRef_nil hx, hasSvc_cons]
    by_cases hn : n = x.name
    · subst hn; simp [isSvc_self hx]
    · simp [isSvc_other hn, hn]
  | cons r rs ih =>
    rw [setRef_cons hx]
    cases h : isSvc r x.name with
    | true =>
      simp only [if_true]
      rw [hasSvc_cons, hasSvc_cons]
      by_cases hn : n = x.name
      · subst hn; simp [isSvc_self hx]
      · simp [isSvc_other hn, isSvc_ne h (Ne.symm hn), hn]
    | false =>
      simp only [Bool.false_eq_true, if_false]
      rw [hasSvc_cons, hasSvc_cons, ih, Bool.or_assoc]

theorem eraseSvc_setRef_self (refs : List Ref) :
    eraseSvc (setRef refs x) x.name = eraseSvc refs x.name := by
  induction refs with
  | nil => rw [setRef_nil hx, eraseSvc_cons, isSvc_self hx]; rfl
  | cons r rs ih =>
    rw [setRef_cons hx]
    cases h : isSvc r x.name with
    | true => simp only [if_true]; rw [eraseSvc_cons, eraseSvc_cons, isSvc_self hx, h]; simp
    | false =>
      simp only [Bool.false_eq_true, if_false]; rw [eraseSvc_cons, eraseSvc_cons, h, ih]; simp

theorem eraseSvc_setRef_other (refs : List Ref) {n : String} (hn : n ≠ x.name) :
    eraseSvc (setRef refs x) n = setRef (eraseSvc refs n) x := by
  induction refs with
  | nil => rw [setRef_nil hx, eraseSvc_cons, isSvc_other hn]; simp [setRef_nil hx]
  | cons r rs ih =>
    rw [setRef_cons hx]
    cases h : isSvc r x.name with
    | true =>
      simp only [if_true]
      rw [eraseSvc_cons, eraseSvc_cons, isSvc_other hn, isSvc_ne h (Ne.symm hn)]
      simp only [Bool.false_eq_true, if_false]
      rw [setRef_cons hx, h]; rfl
    | false =>
      simp only [Bool.false_eq_true, if_false]
      rw [eraseSvc_cons, eraseSvc_cons]
      cases h2 : isSvc r n with
      | true => simp
      | false =>
        simp only [Bool.false_eq_true, if_false]
        rw [setRef_cons hx, h, ih]; rfl

/-- writing back the ref that is already there changes nothing -/
theorem setRef_same (refs : List Ref) (h : findSvc refs x.name = some x) : setRef refs x = refs := by
  induction refs with
  | nil => simp at h
  | cons r rs ih =>
    rw [setRef_cons hx]
    rw [findSvc_cons] at h
    cases h1 : isSvc r x.name with
    | true => simp only [h1, if_true, Option.some.injEq] at h; simp [h]
    | false => simp only [h1, Bool.false_eq_true, if_false] at h; simp [ih h]

end setRef

/-! ### erase / find / setFirstW -/

theorem findSvc_eraseSvc_other (refs : List Ref) {n m : String} (hnm : n ≠ m) :
    findSvc (eraseSvc refs m) n = findSvc refs n := by
  induction refs with
  | nil => rfl
  | cons r rs ih =>
    rw [eraseSvc_cons]
    cases h : isSvc r m with
    | true => simp only [if_true]; rw [findSvc_cons, isSvc_ne h (Ne.symm hnm)]; rfl
    | false => simp only [Bool.false_eq_true, if_false]; rw [findSvc_cons, findSvc_cons, ih]

theorem hasSvc_eraseSvc_other (refs : List Ref) {n m : String} (hnm : n ≠ m) :
    hasSvc (eraseSvc refs m) n = hasSvc refs n := by
  rw [← findSvc_isSome, ← findSvc_isSome, findSvc_eraseSvc_other refs hnm]

theorem eraseSvc_of_not_has {refs : List Ref} {n : String} (h : hasSvc refs n = false) :
    eraseSvc refs n = refs := by
  induction refs with
  | nil => rfl
  | cons r rs ih =>
    rw [hasSvc_cons] at h
    simp only [Bool.or_eq_false_iff] at h
    rw [eraseSvc_cons, h.1]; simp [ih h.2]

theorem hasSvc_setFirstW (refs : List Ref) (n : String) (w : Int) (m : String) :
    hasSvc (setFirstW refs n w) m = hasSvc refs m := by
  induction refs with
  | nil => rfl
  | cons r rs ih =>
    simp only [setFirstW]
    cases h : isSvc r n with
    | true => simp [hasSvc_cons]
    | false => simp [hasSvc_cons, ih]

theorem length_setFirstW (refs : List Ref) (n : String) (w : Int) :
    (setFirstW refs n w).length = refs.length := by
  induction refs with
  | nil => rfl
  | cons r rs ih =>
    simp only [setFirstW]
    cases h : isSvc r n <;> simp [ih]

theorem setFirstW_of_not_has {refs : List Ref} {n : String} (w : Int) (h : hasSvc refs n = false) :
    setFirstW refs n w = refs := by
  induction refs with
  | nil => rfl
  | cons r rs ih =>
    rw [hasSvc_cons] at h
    simp only [Bool.or_eq_false_iff] at h
    simp [setFirstW, h.1, ih h.2]

theorem setFirstW_idem (refs : List Ref) (n : String) (w : Int) :
    setFirstW (setFirstW refs n w) n w = setFirstW refs n w := by
  induction refs with
  | nil => rfl
  | cons r rs ih =>
    simp only [setFirstW]
    cases h : isSvc r n with
    | true => simp [setFirstW, h, setW]
    | false => simp [setFirstW, h, ih]

/-- `stableRef.Weight = 1; setServiceBackendRef(&rule, *stableRef)` sets the weight of the
    first stable ref, wherever the copy `s` of it was taken from. -/
theorem setRef_weight_eq_setFirstW (refs : List Ref) {n : String} {s : Ref} (w : Int)
    (h : findSvc refs n = some s) :
    setRef refs { s with weight := some w } = setFirstW refs n w := by
  have hs := findSvc_some_isSvc h
  have hn := isSvc_name hs
  subst hn
  have hx : ({ s with weight := some w } : Ref).kind = some "Service" := isSvc_kind hs
  induction refs with
  | nil => simp at h
  | cons r rs ih =>
    rw [setRef_cons hx]
    rw [findSvc_cons] at h
    simp only [setFirstW]
    cases h1 : isSvc r s.name with
    | true => simp only [h1, if_true, Option.some.injEq] at h; simp [h, setW]
    | false =>
      simp only [h1, Bool.false_eq_true, if_false] at h
      simp only [Bool.false_eq_true, if_false]
      rw [ih h]

/-- a weight written by a weight step is overwritten by the normalisation -/
theorem setFirstW_setRef_weight (refs : List Ref) {n : String} {s : Ref} (a : Option Int) (b : Int)
    (h : findSvc refs n = some s) :
    setFirstW (setRef refs { s with weight := a }) n b = setFirstW refs n b := by
  have hs := findSvc_some_isSvc h
  have hn := isSvc_name hs
  subst hn
  have hx : ({ s with weight := a } : Ref).kind = some "Service" := isSvc_kind hs
  induction refs with
  | nil => simp at h
  | cons r rs ih =>
    rw [setRef_cons hx]
    rw [findSvc_cons] at h
    cases h1 : isSvc r s.name with
    | true =>
      simp only [h1, if_true, Option.some.injEq] at h
      subst h
      have : isSvc { r with weight := a } r.name = true := h1
      simp [setFirstW, h1, this, setW]
    | false =>
      simp only [h1, Bool.false_eq_true, if_false] at h
      simp only [Bool.false_eq_true, if_false, setFirstW, h1]
      rw [ih h]

/-! ### small list facts -/

theorem filterMap_ite {α β} (p : α → Bool) (f : α → β) (l : List α) :
    l.filterMap (fun a => if p a then none else some (f a)) = (l.filter (fun a => !p a)).map f := by
  induction l with
  | nil => rfl
  | cons a as ih =>
    cases h : p a <;> simp [h, ih]

theorem all2_map {α β} (p : α → β → Bool) (f : α → β) (l : List α)
    (h : ∀ a ∈ l, p a (f a) = true) : all2 p l (l.map f) = true := by
  induction l with
  | nil => rfl
  | cons a as ih =>
    simp only [List.map_cons, all2, Bool.and_eq_true]
    exact ⟨h a (List.mem_cons_self ..), ih (fun b hb => h b (List.mem_cons_of_mem _ hb))⟩

/-! ### weight step -/

theorem canaryOr_kind {c : Conf} {refs : List Ref} {s : Ref} (hs : isSvc s c.stable = true) :
    (canaryOr c refs s).kind = some "Service" := by
  unfold canaryOr
  cases h : findSvc refs c.canary with
  | none => exact (isSvc_kind hs : s.kind = some "Service")
  | some k => exact isSvc_kind (findSvc_some_isSvc h)

theorem canaryOr_name {c : Conf} {refs : List Ref} {s : Ref} :
    (canaryOr c refs s).name = c.canary := by
  unfold canaryOr
  cases h : findSvc refs c.canary with
  | none => rfl
  | some k => exact isSvc_name (findSvc_some_isSvc h)

theorem weightRule_noStable {c : Conf} {w : Int} {r : Rule} (h : findSvc r.refs c.stable = none) :
    weightRule c w r = r := by
  unfold weightRule
  rw [getRef_eq_none.2 h]

theorem weightRule_stable {c : Conf} {w : Int} {r : Rule} {s : Ref}
    (h : findSvc r.refs c.stable = some s) :
    weightRule c w r =
      { r with refs := setRef (setRef r.refs (setW s (100 - w))) (setW (canaryOr c r.refs s) w) } := by
  unfold weightRule canaryOr
  cases hg : getRef r.refs c.stable with
  | none => rw [getRef_eq_none.1 hg] at h; cases h
  | some p =>
    obtain ⟨i, s'⟩ := p
    have := getRef_eq_some hg
    rw [h] at this
    cases this
    cases hk : getRef r.refs c.canary with
    | none => simp only [getRef_eq_none.1 hk]; rfl
    | some q =>
      obtain ⟨j, k⟩ := q
      simp only [getRef_eq_some hk]; rfl

/-! ### finalise -/

theorem resetStable_eq (c : Conf) (refs : List Ref) :
    resetStable c refs = setFirstW refs c.stable 1 := by
  unfold resetStable
  cases hg : getRef refs c.stable with
  | none =>
    have := findSvc_eq_none.1 (getRef_eq_none.1 hg)
    rw [setFirstW_of_not_has 1 this]
  | some p =>
    obtain ⟨i, s⟩ := p
    exact setRef_weight_eq_setFirstW _ 1 (getRef_eq_some hg)

/-- `finaliseRule` in terms of the specification vocabulary -/
theorem finaliseRule_eq (c : Conf) (r : Rule) :
    finaliseRule c r =
      if hasSvc r.refs c.canary && (eraseSvc r.refs c.canary).length == 0 then none
      else some (normaliseRule c (dropCanary c r)) := by
  unfold finaliseRule
  simp only [getRef_isSome, filterOut_eq, resetStable_eq, length_setFirstW, normaliseRule, dropCanary]

/-- for a rule of reachable shape, "dropped by Finalise" = "generated" -/
theorem dropped_iff_generated {c : Conf} (hc : c.stable ≠ c.canary) {r : Rule}
    (hi : ruleInv c r = true) :
    (hasSvc r.refs c.canary && (eraseSvc r.refs c.canary).length == 0) = isGenerated c r := by
  unfold isGenerated
  unfold ruleInv at hi
  cases hk : hasSvc r.refs c.canary with
  | false => simp
  | true =>
    simp only [hk, Bool.not_true, Bool.false_or, Bool.and_eq_true, Bool.not_eq_eq_eq_not,
      Bool.or_eq_true, beq_iff_eq, Bool.true_and] at hi ⊢
    obtain ⟨_, hi2⟩ := hi
    cases hst : hasSvc r.refs c.stable with
    | true =>
      -- a stable ref is still there after erasing the canary ref
      have : hasSvc (eraseSvc r.refs c.canary) c.stable = true := by
        rw [hasSvc_eraseSvc_other _ hc]; exact hst
      cases he : eraseSvc r.refs c.canary with
      | nil => rw [he] at this; simp at this
      | cons a as => simp
    | false =>
      simp only [hst, Bool.false_eq_true, false_or] at hi2
      match hr : r.refs, hi2 with
      | [k], _ =>
        rw [hr] at hk
        simp only [hasSvc_cons, hasSvc_nil, Bool.or_false] at hk
        simp [eraseSvc_cons, hk]

theorem finaliseRules_eq {c : Conf} (hc : c.stable ≠ c.canary) {rules : List Rule}
    (hi : inv c rules = true) :
    finaliseRules c rules =
      (rules.filter (fun r => !isGenerated c r)).map
        (fun r => normaliseRule c (dropCanary c r)) := by
  rw [← filterMap_ite]
  unfold finaliseRules
  induction rules with
  | nil => rfl
  | cons r rs ih =>
    have hi' := List.all_eq_true.1 hi
    have hr : ruleInv c r = true := hi' r (List.mem_cons_self ..)
    have hrs : inv c rs = true := List.all_eq_true.2 (fun x hx => hi' x (List.mem_cons_of_mem _ hx))
    simp only [List.filterMap_cons]
    rw [ih hrs, finaliseRule_eq c, dropped_iff_generated hc hr]

end RV.Gateway

namespace RV.Gateway
open RV.Oracle.C13

/-! ### match step -/

theorem matchKeep_eq {c : Conf} (hc : c.stable ≠ c.canary) (r : Rule) :
    matchKeep c r = if isGenerated c r then none else some (restoreRule c r) := by
  unfold matchKeep isGenerated restoreRule
  cases hk : getRef r.refs c.canary with
  | none =>
    have : hasSvc r.refs c.canary = false := findSvc_eq_none.1 (getRef_eq_none.1 hk)
    simp [this]
  | some p =>
    have hk' : hasSvc r.refs c.canary = true := hasSvc_of_findSvc (getRef_eq_some (i := p.1) (s := p.2) hk)
    cases hs : getRef r.refs c.stable with
    | none =>
      have : hasSvc r.refs c.stable = false := findSvc_eq_none.1 (getRef_eq_none.1 hs)
      simp [hk', this]
    | some q =>
      obtain ⟨i, s⟩ := q
      have hf := getRef_eq_some hs
      have : hasSvc r.refs c.stable = true := hasSvc_of_findSvc hf
      have hf' : findSvc (eraseSvc r.refs c.canary) c.stable = some s := by
        rw [findSvc_eraseSvc_other _ hc]; exact hf
      simp only [hk', this, Bool.not_true, Bool.and_false, Bool.false_eq_true, if_false, if_true,
        normaliseRule, filterOut_eq, dropCanary]
      rw [setRef_weight_eq_setFirstW _ 1 hf']

theorem restoreRule_canaryFree {c : Conf} {r : Rule} (hi : ruleInv c r = true) :
    hasSvc (restoreRule c r).refs c.canary = false := by
  unfold restoreRule
  cases hk : hasSvc r.refs c.canary with
  | false => simp [hk]
  | true =>
    simp only [if_true, normaliseRule, hasSvc_setFirstW]
    unfold ruleInv at hi
    simp only [hk, Bool.not_true, Bool.false_or, Bool.and_eq_true, Bool.not_eq_eq_eq_not] at hi
    exact hi.1

theorem matchKeep_of_canaryFree {c : Conf} {r : Rule} (h : hasSvc r.refs c.canary = false) :
    matchKeep c r = some r := by
  unfold matchKeep
  rw [getRef_eq_none.2 (findSvc_eq_none.2 h)]

theorem headerLoop_fst (c : Conf) (np : List UMatch) (rules : List Rule) :
    ∀ pm, (headerLoop c np pm rules).1 = rules.filterMap (matchKeep c) := by
  induction rules with
  | nil => intro pm; rfl
  | cons r rs ih =>
    intro pm
    unfold headerLoop
    cases hk : matchKeep c r with
    | none => simp only [List.filterMap_cons, hk]; exact ih pm
    | some rule =>
      simp only [List.filterMap_cons, hk]
      cases hs : getRef rule.refs c.stable with
      | none => simp only [ih pm]
      | some q =>
        obtain ⟨i, s⟩ := q
        simp only []
        cases canaryRuleFor c np pm rule s <;> simp only [ih []]

/-- what a generated rule `k` has to do with the user rule `orig` it was derived from -/
def GenFrom (c : Conf) (ms : List UMatch) (orig k : Rule) : Prop :=
  ∃ s, findSvc orig.refs c.stable = some s ∧ k.filters = orig.filters ∧
    k.refs = [{ s with name := c.canary }] ∧ k.mts ≠ [] ∧
    ∀ m' ∈ k.mts, narrowMatch ms orig m' = true

theorem subAtoms_append_right (a b : List Atom) : subAtoms a (b ++ a) = true := by
  simp only [subAtoms, List.all_eq_true, List.contains_iff_mem, List.mem_append]
  exact fun x hx => Or.inr hx

theorem subAtoms_append_left (a b : List Atom) : subAtoms a (a ++ b) = true := by
  simp only [subAtoms, List.all_eq_true, List.contains_iff_mem, List.mem_append]
  exact fun x hx => Or.inl hx

theorem refinesU_extend (m : Match) (u : UMatch) (hu : u.path = none) :
    refinesU (extend m u) u = true := by
  simp [refinesU, extend, hu, subAtoms_append_right]

theorem refinesM_extend (m : Match) (u : UMatch) : refinesM (extend m u) m = true := by
  simp [refinesM, extend, subAtoms_append_left]

theorem canaryRuleFor_spec {c : Conf} {ms np pm : List UMatch} {rule k : Rule} {s : Ref}
    (hpm : ∀ u ∈ pm, u ∈ ms ∧ u.path.isSome = true)
    (hnp : ∀ u ∈ np, u ∈ ms ∧ u.path = none)
    (hs : findSvc rule.refs c.stable = some s)
    (h : canaryRuleFor c np pm rule s = some k) : GenFrom c ms rule k := by
  unfold canaryRuleFor at h
  by_cases hE : (np.isEmpty && (pm.map ofU).isEmpty) = true
  · rw [if_pos hE] at h; cases h
  · rw [if_neg hE] at h
    simp only [Option.some.injEq] at h
    subst h
    refine ⟨s, hs, rfl, rfl, ?_, ?_⟩
    · -- at least one match
      simp only [Bool.and_eq_true, List.isEmpty_iff, List.map_eq_nil_iff, not_and] at hE
      intro hnil
      simp only [List.append_eq_nil_iff, List.map_eq_nil_iff] at hnil
      have hnp' : np ≠ [] := fun e => hE e hnil.1
      have := hnil.2
      unfold combine at this
      simp only [List.flatMap_eq_nil_iff, List.map_eq_nil_iff] at this
      by_cases hb : rule.mts.isEmpty = true
      · simp only [hb, if_true] at this
        exact hnp' (this emptyMatch (List.mem_singleton.2 rfl))
      · simp only [hb, Bool.false_eq_true, if_false] at this
        cases hm : rule.mts with
        | nil => simp [hm] at hb
        | cons m0 _ => exact hnp' (this m0 (by rw [hm]; exact List.mem_cons_self ..))
    · intro m' hm'
      simp only [List.mem_append, List.mem_map] at hm'
      unfold narrowMatch
      rcases hm' with ⟨u, hu, rfl⟩ | hm'
      · have := hpm u hu
        simp only [Bool.or_eq_true, List.any_eq_true, Bool.and_eq_true, beq_iff_eq]
        exact Or.inl ⟨u, this.1, this.2, rfl⟩
      · unfold combine at hm'
        simp only [List.mem_flatMap, List.mem_map] at hm'
        obtain ⟨m, hm, u, hu, rfl⟩ := hm'
        have := hnp u hu
        simp only [Bool.or_eq_true, List.any_eq_true, Bool.and_eq_true]
        refine Or.inr ⟨u, this.1, ⟨by simp [this.2], refinesU_extend m u this.2⟩, ?_⟩
        by_cases hb : rule.mts.isEmpty = true
        · exact Or.inl hb
        · simp only [hb, Bool.false_eq_true, if_false] at hm
          exact Or.inr ⟨m, hm, refinesM_extend m u⟩

theorem headerLoop_snd {c : Conf} {ms np : List UMatch}
    (hnp : ∀ u ∈ np, u ∈ ms ∧ u.path = none) (rules : List Rule) :
    ∀ pm, (∀ u ∈ pm, u ∈ ms ∧ u.path.isSome = true) →
      ∀ k ∈ (headerLoop c np pm rules).2,
        ∃ orig ∈ (headerLoop c np pm rules).1, GenFrom c ms orig k := by
  induction rules with
  | nil => intro pm _ k hk; simp [headerLoop] at hk
  | cons r rs ih =>
    intro pm hpm k hk
    unfold headerLoop at hk ⊢
    cases hkeep : matchKeep c r with
    | none => simp only [hkeep] at hk ⊢; exact ih pm hpm k hk
    | some rule =>
      simp only [hkeep] at hk ⊢
      cases hs : getRef rule.refs c.stable with
      | none =>
        simp only [hs] at hk ⊢
        obtain ⟨o, ho, hg⟩ := ih pm hpm k hk
        exact ⟨o, List.mem_cons_of_mem _ ho, hg⟩
      | some q =>
        obtain ⟨i, s⟩ := q
        simp only [hs] at hk ⊢
        have hnil : ∀ u ∈ ([] : List UMatch), u ∈ ms ∧ u.path.isSome = true := by simp
        cases hcr : canaryRuleFor c np pm rule s with
        | none =>
          simp only [hcr] at hk ⊢
          obtain ⟨o, ho, hg⟩ := ih [] hnil k hk
          exact ⟨o, List.mem_cons_of_mem _ ho, hg⟩
        | some k0 =>
          simp only [hcr, List.mem_cons] at hk ⊢
          rcases hk with rfl | hk
          · exact ⟨rule, Or.inl rfl, canaryRuleFor_spec hpm hnp (getRef_eq_some hs) hcr⟩
          · obtain ⟨o, ho, hg⟩ := ih [] hnil k hk
            exact ⟨o, Or.inr ho, hg⟩

theorem canaryRuleOk_of_genFrom {c : Conf} {ms : List UMatch} {users : List Rule} {orig k : Rule}
    (ho : orig ∈ users) (h : GenFrom c ms orig k) : canaryRuleOk c ms users k = true := by
  obtain ⟨s, hs, hf, hr, hne, hm⟩ := h
  unfold canaryRuleOk
  simp only [Bool.and_eq_true, Bool.not_eq_eq_eq_not, Bool.not_true, List.isEmpty_eq_false_iff,
    List.any_eq_true]
  refine ⟨hne, orig, ho, ?_⟩
  simp only [hs, Bool.and_eq_true, beq_iff_eq, List.all_eq_true]
  exact ⟨⟨hf, hr⟩, hm⟩

/-- a generated rule is dropped by the next match step and by Finalise -/
theorem isGenerated_of_genFrom {c : Conf} (hc : c.stable ≠ c.canary) {ms : List UMatch} {orig k : Rule}
    (h : GenFrom c ms orig k) : isGenerated c k = true ∧ ruleInv c k = true := by
  obtain ⟨s, hs, _, hr, _, _⟩ := h
  have hss := findSvc_some_isSvc hs
  have h1 : isSvc { s with name := c.canary } c.canary = true :=
    isSvc_iff.2 ⟨(isSvc_kind hss : s.kind = some "Service"), rfl⟩
  have h2 : isSvc { s with name := c.canary } c.stable = false :=
    isSvc_ne h1 (Ne.symm hc)
  unfold isGenerated ruleInv
  simp [hr, hasSvc_cons, eraseSvc_cons, h1, h2]

theorem headerLoop_filterMap {c : Conf} (np : List UMatch) (rules : List Rule)
    (hidem : ∀ r ∈ rules, ∀ r', matchKeep c r = some r' → matchKeep c r' = some r') :
    ∀ pm, headerLoop c np pm rules = headerLoop c np pm (rules.filterMap (matchKeep c)) := by
  induction rules with
  | nil => intro pm; rfl
  | cons r rs ih =>
    intro pm
    have ih' := ih (fun x hx => hidem x (List.mem_cons_of_mem _ hx))
    cases hk : matchKeep c r with
    | none =>
      simp only [List.filterMap_cons, hk]
      rw [← ih' pm]
      conv => lhs; unfold headerLoop
      simp only [hk]
    | some rule =>
      have hk2 := hidem r (List.mem_cons_self ..) rule hk
      simp only [List.filterMap_cons, hk]
      conv => lhs; unfold headerLoop
      conv => rhs; unfold headerLoop
      simp only [hk, hk2, ih']

theorem headerLoop_dropped {c : Conf} (np : List UMatch) (b : List Rule)
    (hb : ∀ k ∈ b, matchKeep c k = none) : ∀ pm, headerLoop c np pm b = ([], []) := by
  induction b with
  | nil => intro pm; rfl
  | cons k ks ih =>
    intro pm
    unfold headerLoop
    simp only [hb k (List.mem_cons_self ..)]
    exact ih (fun x hx => hb x (List.mem_cons_of_mem _ hx)) pm

theorem headerLoop_append_dropped {c : Conf} (np : List UMatch) (a b : List Rule)
    (hb : ∀ k ∈ b, matchKeep c k = none) :
    ∀ pm, headerLoop c np pm (a ++ b) = headerLoop c np pm a := by
  induction a with
  | nil => intro pm; simp only [List.nil_append]; rw [headerLoop_dropped np b hb]; rfl
  | cons r rs ih =>
    intro pm
    simp only [List.cons_append]
    conv => lhs; unfold headerLoop
    conv => rhs; unfold headerLoop
    simp only [ih]

end RV.Gateway

namespace RV.Gateway
open RV.Oracle.C13

/-! ### per-rule facts about the weight step -/

section weight
variable {c : Conf} (hc : c.stable ≠ c.canary) (w : Int) (r : Rule)

/-- the refs written by a weight step for a rule whose first stable ref is `s` -/
theorem weightRule_facts {s : Ref} (hs : findSvc r.refs c.stable = some s) :
    let s' := setW s (100 - w)
    let k' := setW (canaryOr c r.refs s) w
    (weightRule c w r).mts = r.mts ∧ (weightRule c w r).filters = r.filters ∧
    (weightRule c w r).refs = setRef (setRef r.refs s') k' ∧
    s'.kind = some "Service" ∧ s'.name = c.stable ∧
    k'.kind = some "Service" ∧ k'.name = c.canary := by
  have hss := findSvc_some_isSvc hs
  refine ⟨?_, ?_, ?_, isSvc_kind hss, isSvc_name hss, canaryOr_kind hss, canaryOr_name⟩ <;>
    rw [weightRule_stable hs]

include hc

theorem ruleWeightOk_weightRule : ruleWeightOk c w r (weightRule c w r) = true := by
  unfold ruleWeightOk
  cases hs : findSvc r.refs c.stable with
  | none => simp [weightRule_noStable hs]
  | some s =>
    obtain ⟨hm, hf, hr, hsk, hsn, hkk, hkn⟩ := weightRule_facts w r hs
    have hne : c.stable ≠ (setW (canaryOr c r.refs s) w).name := by rw [hkn]; exact hc
    have hne' : c.canary ≠ (setW s (100 - w)).name := by rw [hsn]; exact Ne.symm hc
    simp only [Bool.and_eq_true, beq_iff_eq]
    refine ⟨⟨⟨⟨hm, hf⟩, ?_⟩, ?_⟩, ?_⟩
    · rw [hr, findSvc_setRef_other hkk _ hne]
      have := findSvc_setRef_self hsk r.refs
      rw [hsn] at this; exact this
    · rw [hr]
      have := findSvc_setRef_self hkk (setRef r.refs (setW s (100 - w)))
      rw [hkn] at this; exact this
    · rw [hr, eraseSvc_setRef_other hkk _ hne]
      have h1 := eraseSvc_setRef_self hsk r.refs
      rw [hsn] at h1
      rw [h1]
      have h2 := eraseSvc_setRef_self hkk (eraseSvc r.refs c.stable)
      rw [hkn] at h2
      exact h2

omit hc in
theorem hasSvc_weightRule_stable : hasSvc (weightRule c w r).refs c.stable = hasSvc r.refs c.stable := by
  cases hs : findSvc r.refs c.stable with
  | none => rw [weightRule_noStable hs]
  | some s =>
    obtain ⟨_, _, hr, hsk, hsn, hkk, hkn⟩ := weightRule_facts w r hs
    rw [hr, hasSvc_setRef hkk, hasSvc_setRef hsk, hsn, hkn, hasSvc_of_findSvc hs]
    simp

omit hc in
theorem isGenerated_weightRule : isGenerated c (weightRule c w r) = isGenerated c r := by
  cases hs : findSvc r.refs c.stable with
  | none => rw [weightRule_noStable hs]
  | some s =>
    unfold isGenerated
    rw [hasSvc_weightRule_stable, hasSvc_of_findSvc hs]
    simp

/-- erasing the canary ref after a weight step: the input's refs without canary ref,
    with only the stable weight changed -/
theorem eraseSvc_weightRule {s : Ref} (hs : findSvc r.refs c.stable = some s) :
    eraseSvc (weightRule c w r).refs c.canary
      = setRef (eraseSvc r.refs c.canary) { s with weight := some (100 - w) } := by
  obtain ⟨_, _, hr, hsk, hsn, hkk, hkn⟩ := weightRule_facts w r hs
  have hne' : c.canary ≠ (setW s (100 - w)).name := by rw [hsn]; exact Ne.symm hc
  have h1 := eraseSvc_setRef_self hkk (setRef r.refs (setW s (100 - w)))
  rw [hkn] at h1
  rw [hr, h1, eraseSvc_setRef_other hsk _ hne']
  rfl

theorem norm_erase_weightRule :
    normaliseRule c (dropCanary c (weightRule c w r))
      = normaliseRule c (dropCanary c r) := by
  cases hs : findSvc r.refs c.stable with
  | none => rw [weightRule_noStable hs]
  | some s =>
    obtain ⟨hm, hf, _⟩ := weightRule_facts w r hs
    have hs' : findSvc (eraseSvc r.refs c.canary) c.stable = some s := by
      rw [findSvc_eraseSvc_other _ hc]; exact hs
    simp only [normaliseRule, dropCanary, hm, hf, eraseSvc_weightRule hc w r hs,
      setFirstW_setRef_weight _ (some (100 - w)) 1 hs']

theorem ruleInv_weightRule (hi : ruleInv c r = true) : ruleInv c (weightRule c w r) = true := by
  cases hs : findSvc r.refs c.stable with
  | none => rw [weightRule_noStable hs]; exact hi
  | some s =>
    have hss := findSvc_some_isSvc hs
    unfold ruleInv
    rw [eraseSvc_weightRule hc w r hs, hasSvc_weightRule_stable, hasSvc_of_findSvc hs,
      hasSvc_setRef (x := { s with weight := some (100 - w) }) (isSvc_kind hss)]
    have hn : (c.canary == ({ s with weight := some (100 - w) } : Ref).name) = false := by
      have : ({ s with weight := some (100 - w) } : Ref).name = c.stable := isSvc_name hss
      rw [this]; simpa using Ne.symm hc
    rw [hn]
    -- at most one canary ref in the input
    have : hasSvc (eraseSvc r.refs c.canary) c.canary = false := by
      unfold ruleInv at hi
      cases hk : hasSvc r.refs c.canary with
      | false => rw [eraseSvc_of_not_has hk]; exact hk
      | true => simp only [hk, Bool.not_true, Bool.false_or, Bool.and_eq_true,
                  Bool.not_eq_eq_eq_not] at hi; exact hi.1
    simp [this]

theorem weightRule_idem : weightRule c w (weightRule c w r) = weightRule c w r := by
  cases hs : findSvc r.refs c.stable with
  | none => rw [weightRule_noStable hs, weightRule_noStable hs]
  | some s =>
    have hok := ruleWeightOk_weightRule hc w r
    unfold ruleWeightOk at hok
    simp only [hs, Bool.and_eq_true, beq_iff_eq] at hok
    obtain ⟨⟨⟨_, hst⟩, hca⟩, _⟩ := hok
    -- second application: the stable and canary refs found are the ones just written
    rw [weightRule_stable (r := weightRule c w r) hst]
    have e1 : setW (setW s (100 - w)) (100 - w) = setW s (100 - w) := rfl
    have e2 : canaryOr c (weightRule c w r).refs (setW s (100 - w)) = setW (canaryOr c r.refs s) w := by
      rw [canaryOr, hca]
    have e3 : setW (setW (canaryOr c r.refs s) w) w = setW (canaryOr c r.refs s) w := rfl
    rw [e1, e2, e3]
    obtain ⟨_, _, _, hsk, hsn, hkk, hkn⟩ := weightRule_facts w r hs
    have h1 : setRef (weightRule c w r).refs (setW s (100 - w)) = (weightRule c w r).refs :=
      setRef_same hsk _ (by rw [hsn]; exact hst)
    rw [h1]
    have h2 : setRef (weightRule c w r).refs (setW (canaryOr c r.refs s) w) = (weightRule c w r).refs :=
      setRef_same hkk _ (by rw [hkn]; exact hca)
    rw [h2]

end weight

/-! ### per-rule facts about restore / normalise -/

theorem dropCanary_of_canaryFree {c : Conf} {r : Rule} (h : hasSvc r.refs c.canary = false) :
    dropCanary c r = r := by
  unfold dropCanary; rw [eraseSvc_of_not_has h]

theorem norm_restoreRule {c : Conf} (r : Rule) :
    normaliseRule c (restoreRule c r) = normaliseRule c (dropCanary c r) := by
  unfold restoreRule
  cases hk : hasSvc r.refs c.canary with
  | false => simp only [Bool.false_eq_true, if_false, dropCanary]; rw [eraseSvc_of_not_has hk]
  | true => simp only [if_true, normaliseRule, setFirstW_idem]

theorem normaliseRule_idem (c : Conf) (r : Rule) :
    normaliseRule c (normaliseRule c r) = normaliseRule c r := by
  simp only [normaliseRule, setFirstW_idem]

theorem hasSvc_normaliseRule (c : Conf) (r : Rule) (n : String) :
    hasSvc (normaliseRule c r).refs n = hasSvc r.refs n := by
  simp only [normaliseRule, hasSvc_setFirstW]

theorem ruleInv_of_canaryFree {c : Conf} {r : Rule} (h : hasSvc r.refs c.canary = false) :
    ruleInv c r = true := by
  unfold ruleInv; simp [h]

theorem inv_of_canaryFree {c : Conf} {rules : List Rule} (h : canaryFree c rules = true) :
    inv c rules = true := by
  unfold inv canaryFree at *
  simp only [List.all_eq_true, Bool.not_eq_eq_eq_not, Bool.not_true] at h ⊢
  exact fun r hr => ruleInv_of_canaryFree (h r hr)

theorem isGenerated_of_canaryFree {c : Conf} {r : Rule} (h : hasSvc r.refs c.canary = false) :
    isGenerated c r = false := by
  unfold isGenerated; simp [h]

end RV.Gateway

namespace RV.Gateway
open RV.Oracle.C13

/-! ### route level -/

theorem filter_eq_self_of {α} (p : α → Bool) (l : List α) (h : ∀ a ∈ l, p a = true) :
    l.filter p = l := List.filter_eq_self.2 h

theorem filter_eq_nil_of {α} (p : α → Bool) (l : List α) (h : ∀ a ∈ l, p a = false) :
    l.filter p = [] := by
  apply List.filter_eq_nil_iff.2
  intro a ha; simp [h a ha]

theorem mem_of_all {α} {p : α → Bool} {l : List α} (h : l.all p = true) {a : α} (ha : a ∈ l) :
    p a = true := List.all_eq_true.1 h a ha

theorem userRules_eq_filterMap {c : Conf} (hc : c.stable ≠ c.canary) (rules : List Rule) :
    rules.filterMap (matchKeep c) = userRules c rules := by
  unfold userRules
  rw [← filterMap_ite, show matchKeep c = _ from funext (matchKeep_eq hc)]

theorem userRules_of_canaryFree {c : Conf} {rules : List Rule} (h : canaryFree c rules = true) :
    userRules c rules = rules := by
  unfold userRules
  have hf : ∀ r ∈ rules, hasSvc r.refs c.canary = false := by
    intro r hr; simpa using mem_of_all h hr
  rw [filter_eq_self_of _ _ (fun r hr => by simp [isGenerated_of_canaryFree (hf r hr)])]
  conv => rhs; rw [← List.map_id rules]
  apply List.map_congr_left
  intro r hr
  simp [restoreRule, hf r hr]

/-- the rules a match step generates (second component of the loop state) -/
def genRules (c : Conf) (rules : List Rule) (ms : List UMatch) : List Rule :=
  (headerLoop c (ms.filter fun u => u.path.isNone) (ms.filter fun u => u.path.isSome) rules).2

theorem buildHeader_eq {c : Conf} (hc : c.stable ≠ c.canary) (rules : List Rule)
    (ms : List UMatch) : buildHeader c rules ms = userRules c rules ++ genRules c rules ms := by
  unfold buildHeader genRules
  simp only [headerLoop_fst, userRules_eq_filterMap hc]

theorem genRules_spec {c : Conf} (hc : c.stable ≠ c.canary) (rules : List Rule)
    (ms : List UMatch) :
    ∀ k ∈ genRules c rules ms, ∃ orig ∈ userRules c rules, GenFrom c ms orig k := by
  intro k hk
  have := headerLoop_snd (c := c) (ms := ms) (np := ms.filter fun u => u.path.isNone)
    (fun u hu => by
      simp only [List.mem_filter, Option.isNone_iff_eq_none] at hu; exact hu)
    rules (ms.filter fun u => u.path.isSome)
    (fun u hu => by simp only [List.mem_filter] at hu; exact hu) k hk
  rw [headerLoop_fst, userRules_eq_filterMap hc] at this
  exact this

theorem userRules_canaryFree {c : Conf} {rules : List Rule} (hi : inv c rules = true) :
    ∀ r ∈ userRules c rules, hasSvc r.refs c.canary = false := by
  intro r hr
  unfold userRules at hr
  simp only [List.mem_map, List.mem_filter] at hr
  obtain ⟨x, ⟨hx, _⟩, rfl⟩ := hr
  exact restoreRule_canaryFree (mem_of_all hi hx)

theorem finaliseRules_of_canaryFree {c : Conf} (hc : c.stable ≠ c.canary) {rules : List Rule}
    (h : canaryFree c rules = true) : finaliseRules c rules = rules.map (normaliseRule c) := by
  have hf : ∀ r ∈ rules, hasSvc r.refs c.canary = false := by
    intro r hr; simpa using mem_of_all h hr
  rw [finaliseRules_eq hc (inv_of_canaryFree h),
    filter_eq_self_of _ _ (fun r hr => by simp [isGenerated_of_canaryFree (hf r hr)])]
  apply List.map_congr_left
  intro r hr
  rw [dropCanary_of_canaryFree (hf r hr)]

theorem canaryFree_finaliseRules {c : Conf} (hc : c.stable ≠ c.canary) {rules : List Rule}
    (hi : inv c rules = true) : canaryFree c (finaliseRules c rules) = true := by
  rw [finaliseRules_eq hc hi]
  unfold canaryFree
  simp only [List.all_eq_true, List.mem_map, List.mem_filter, Bool.not_eq_eq_eq_not, Bool.not_true]
  rintro _ ⟨x, ⟨hx, _⟩, rfl⟩
  rw [hasSvc_normaliseRule]
  have hxi := mem_of_all hi hx
  unfold ruleInv at hxi
  unfold dropCanary
  cases hk : hasSvc x.refs c.canary with
  | false => simp only []; rw [eraseSvc_of_not_has hk]; exact hk
  | true =>
    simp only [hk, Bool.not_true, Bool.false_or, Bool.and_eq_true, Bool.not_eq_eq_eq_not] at hxi
    exact hxi.1

/-- **the step lemma**: every builder application maps reachable-shape routes to
    reachable-shape routes and does not change what Finalise would restore. -/
theorem step_preserves {c : Conf} (hc : c.stable ≠ c.canary) {r r' : List Rule}
    {w : Option Int} {ms : List UMatch} (hi : inv c r = true)
    (h : buildDesired c r w ms = .ok r') :
    inv c r' = true ∧ finaliseRules c r' = finaliseRules c r := by
  unfold buildDesired at h
  by_cases hw : (w == some (-1)) = true
  · -- finalise
    rw [if_pos hw] at h
    cases h
    have hcf := canaryFree_finaliseRules hc hi
    refine ⟨inv_of_canaryFree hcf, ?_⟩
    rw [finaliseRules_of_canaryFree hc hcf, finaliseRules_eq hc hi, List.map_map]
    apply List.map_congr_left
    intro x _
    exact normaliseRule_idem c _
  · rw [if_neg hw] at h
    by_cases hm : (!ms.isEmpty) = true
    · -- match step
      rw [if_pos hm] at h
      cases h
      have hb := buildHeader_eq hc r ms
      generalize genRules c r ms = cs at hb
      have hcs := genRules_spec hc r ms
      rw [show genRules c r ms = cs from by
        have := buildHeader_eq hc r ms; rw [hb] at this; exact (List.append_cancel_left this).symm] at hcs
      have hu := userRules_canaryFree hi
      have hgen : ∀ k ∈ cs, isGenerated c k = true ∧ ruleInv c k = true := by
        intro k hk
        obtain ⟨o, _, hg⟩ := hcs k hk
        exact isGenerated_of_genFrom hc hg
      have hinv' : inv c (userRules c r ++ cs) = true := by
        unfold inv
        simp only [List.all_append, Bool.and_eq_true, List.all_eq_true]
        exact ⟨fun x hx => ruleInv_of_canaryFree (hu x hx), fun k hk => (hgen k hk).2⟩
      rw [hb]
      refine ⟨hinv', ?_⟩
      rw [finaliseRules_eq hc hinv', finaliseRules_eq hc hi, List.filter_append,
        filter_eq_self_of _ (userRules c r)
          (fun x hx => by simp [isGenerated_of_canaryFree (hu x hx)]),
        filter_eq_nil_of _ cs (fun k hk => by simp [(hgen k hk).1]),
        List.append_nil]
      unfold userRules
      rw [List.map_map]
      apply List.map_congr_left
      intro x hx
      simp only [List.mem_filter] at hx
      simp only [Function.comp]
      rw [dropCanary_of_canaryFree (restoreRule_canaryFree (mem_of_all hi hx.1)), norm_restoreRule]
    · rw [if_neg hm] at h
      cases w with
      | none =>
        -- nil weight: unchanged (or panic)
        simp only [buildWeight] at h
        by_cases hany : (r.any fun x => (getRef x.refs c.stable).isSome) = true
        · rw [if_pos hany] at h; cases h
        · rw [if_neg hany] at h; cases h; exact ⟨hi, rfl⟩
      | some wv =>
        simp only [buildWeight, Out.ok.injEq] at h
        subst h
        have hinv' : inv c (r.map (weightRule c wv)) = true := by
          unfold inv
          simp only [List.all_map, List.all_eq_true, Function.comp]
          exact fun x hx => ruleInv_weightRule hc wv x (mem_of_all hi hx)
        refine ⟨hinv', ?_⟩
        rw [finaliseRules_eq hc hinv', finaliseRules_eq hc hi, List.filter_map, List.map_map]
        have : ((fun r => !isGenerated c r) ∘ weightRule c wv) = fun r => !isGenerated c r := by
          funext x; simp only [Function.comp, isGenerated_weightRule]
        rw [this]
        apply List.map_congr_left
        intro x _
        simp only [Function.comp]
        exact norm_erase_weightRule hc wv x

/-- **idempotence** of every builder application on reachable-shape routes. -/
theorem step_idem {c : Conf} (hc : c.stable ≠ c.canary) {r r' : List Rule}
    {w : Option Int} {ms : List UMatch} (hi : inv c r = true)
    (h : buildDesired c r w ms = .ok r') : buildDesired c r' w ms = .ok r' := by
  have hpres := step_preserves hc hi h
  unfold buildDesired at h ⊢
  by_cases hw : (w == some (-1)) = true
  · rw [if_pos hw] at h ⊢
    cases h
    have hcf := canaryFree_finaliseRules hc hi
    rw [finaliseRules_of_canaryFree hc hcf, finaliseRules_eq hc hi, List.map_map]
    congr 1
    apply List.map_congr_left
    intro x _
    exact normaliseRule_idem c _
  · rw [if_neg hw] at h ⊢
    by_cases hm : (!ms.isEmpty) = true
    · rw [if_pos hm] at h ⊢
      cases h
      congr 1
      -- second run: the generated rules are dropped, the user rules are kept as they are
      have hdrop : ∀ k ∈ genRules c r ms, matchKeep c k = none := by
        intro k hk
        obtain ⟨o, _, hg⟩ := genRules_spec hc r ms k hk
        rw [matchKeep_eq hc, (isGenerated_of_genFrom hc hg).1]; rfl
      have hidem : ∀ x ∈ r, ∀ x', matchKeep c x = some x' → matchKeep c x' = some x' := by
        intro x hx x' hx'
        rw [matchKeep_eq hc] at hx'
        by_cases hg : isGenerated c x = true
        · rw [if_pos hg] at hx'; cases hx'
        · rw [if_neg hg] at hx'
          cases hx'
          exact matchKeep_of_canaryFree (restoreRule_canaryFree (mem_of_all hi hx))
      have key : headerLoop c (ms.filter fun u => u.path.isNone) (ms.filter fun u => u.path.isSome)
            (buildHeader c r ms)
          = headerLoop c (ms.filter fun u => u.path.isNone) (ms.filter fun u => u.path.isSome) r := by
        have e : buildHeader c r ms = r.filterMap (matchKeep c) ++ genRules c r ms := by
          rw [buildHeader_eq hc, userRules_eq_filterMap hc]
        rw [e, headerLoop_append_dropped _ _ _ hdrop, ← headerLoop_filterMap _ r hidem]
      have hdef : ∀ x, buildHeader c x ms =
          (headerLoop c (ms.filter fun u => u.path.isNone) (ms.filter fun u => u.path.isSome) x).1 ++
          (headerLoop c (ms.filter fun u => u.path.isNone) (ms.filter fun u => u.path.isSome) x).2 :=
        fun _ => rfl
      rw [hdef (buildHeader c r ms), key]
      exact (hdef r).symm
    · rw [if_neg hm] at h ⊢
      cases w with
      | none =>
        simp only [buildWeight] at h ⊢
        by_cases hany : (r.any fun x => (getRef x.refs c.stable).isSome) = true
        · rw [if_pos hany] at h; cases h
        · rw [if_neg hany] at h; cases h; rw [if_neg hany]
      | some wv =>
        simp only [buildWeight, Out.ok.injEq] at h ⊢
        subst h
        rw [List.map_map]
        apply List.map_congr_left
        intro x _
        exact weightRule_idem hc wv x

end RV.Gateway

namespace RV.Gateway

/-! ### provider calls on an existing route -/

theorem ensureRoutes_ok {c : Conf} {r d : List Rule} {s : Step}
    (hb : buildDesired c r s.weight s.ms = .ok d) :
    ensureRoutes c (some r) s =
      if r == d then { ret := true, err := "ok", store := some r }
      else { ret := false, err := "ok", store := some d } := by
  simp only [ensureRoutes, hb]

theorem ensureRoutes_panic {c : Conf} {r : List Rule} {s : Step}
    (hb : buildDesired c r s.weight s.ms = .panic) :
    ensureRoutes c (some r) s = { ret := false, err := "panic", store := some r } := by
  simp only [ensureRoutes, hb]

theorem buildDesired_finalise (c : Conf) (r : List Rule) (ms : List UMatch) :
    buildDesired c r (some (-1)) ms = .ok (finaliseRules c r) := by
  simp [buildDesired]

theorem finalise_some (c : Conf) (r : List Rule) :
    finalise c (some r) =
      if r == finaliseRules c r then { ret := false, err := "ok", store := some r }
      else { ret := true, err := "ok", store := some (finaliseRules c r) } := by
  simp only [finalise, buildDesired_finalise]

/-- whatever `EnsureRoutes` returns, on success the store holds the builder's output -/
theorem ensureRoutes_store {c : Conf} {r d : List Rule} {s : Step}
    (hb : buildDesired c r s.weight s.ms = .ok d) :
    (ensureRoutes c (some r) s).store = some d := by
  rw [ensureRoutes_ok hb]
  by_cases he : (r == d) = true
  · rw [if_pos he, beq_iff_eq.1 he]
  · rw [if_neg he]

theorem finalise_store (c : Conf) (r : List Rule) :
    (finalise c (some r)).store = some (finaliseRules c r) := by
  rw [finalise_some]
  by_cases he : (r == finaliseRules c r) = true
  · rw [if_pos he]; exact congrArg some (beq_iff_eq.1 he)
  · rw [if_neg he]

end RV.Gateway
