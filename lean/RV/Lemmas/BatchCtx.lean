import RV.Lemmas.Arith
import RV.Oracle.Batch
/-! Helper lemmas for the per-kind batch decisions. -/
namespace RV.BatchCtx
open RV.Arith IntOrPct RV.Oracle.Batch

theorem newRSLimit_nonneg (p : IntOrPct) (R : Int) (hR : 0 ≤ R) : 0 ≤ newRSReplicasLimit p R := by
  unfold newRSReplicasLimit
  simp only []
  repeat' split
  all_goals omega

theorem newRSLimit_le (p : IntOrPct) (R : Int) (hR : 0 ≤ R) : newRSReplicasLimit p R ≤ R := by
  unfold newRSReplicasLimit
  simp only []
  repeat' split
  all_goals omega

/-- `NewRSReplicasLimit` never exceeds the clamped round-up count of the same entry. -/
theorem newRSLimit_le_calcBatch (e : IntOrPct) (R : Int) (hR : 0 ≤ R) :
    newRSReplicasLimit e R ≤ calcBatchReplicas R e := by
  unfold newRSReplicasLimit calcBatchReplicas
  simp only []
  repeat' split
  all_goals omega

theorem keptStable_int (n R : Int) : keptStable (int n) R = max 0 (min R n) := by
  simp [keptStable, scaledV, scaled]

theorem exposure_int (n R : Int) (h0 : 0 ≤ n) (h1 : n ≤ R) : exposure (int n) R = R - n := by
  simp only [exposure, keptStable_int]; omega

end RV.BatchCtx

namespace RV.BatchCtx
open RV.Arith IntOrPct RV.Oracle.Batch

/-- General percent-rounding lemma: for any stable count `0 ≤ s ≤ R` the percent
    partition chosen by `ParseIntegerAsPercentageIfPossible` exposes more than `R - s`
    pods by strictly less than 1 % of `R`. -/
theorem parsePct_slack (s R : Int) (c : IntOrPct) (hR : 0 < R) (_hs0 : 0 ≤ s) (_hs : s ≤ R) :
    100 * (exposure (parsePct s R c) R - (R - s)) < R := by
  simp only [parsePct]
  split
  · simp only [exposure, keptStable, scaledV, scaled, if_true]
    have := ceilDiv100_mul100 R; omega
  · split
    · simp only [exposure, keptStable, scaledV, scaled, if_true, Int.zero_mul]
      have : ceilDiv100 0 = 0 := by decide
      omega
    · rename_i hs1 hs2
      have htd : (s * 100).tdiv R = (100 * s) / R := by
        rw [tdiv_pos_eq (by omega) hR, Int.mul_comm]
      have hb := floor_bracket (s := s) hR
      generalize hq : (100 * s) / R = q at *
      simp only [htd, scaledV, scaled, if_true]
      have hc1 := ceilDiv100_ge (q * R)
      have hc2 := ceilDiv100_lt (q * R)
      split
      · simp only [exposure, keptStable, scaledV, scaled, if_true, Int.one_mul]
        have := ceilDiv100_ge R
        have := ceilDiv100_lt R
        omega
      · simp only [exposure, keptStable, scaledV, scaled, if_true]
        omega

/-- Outside the "1%" fallback region the percent partition never *under*-exposes. -/
theorem parsePct_lower (s R : Int) (c : IntOrPct) (hR : 0 < R) (hs0 : 0 ≤ s) (_hs : s ≤ R)
    (hg : ¬ (0 < s ∧ s < R ∧ 100 * s < R ∧ c ≠ pct 100)) :
    R - s ≤ exposure (parsePct s R c) R := by
  simp only [parsePct]
  split
  · simp only [exposure, keptStable, scaledV, scaled, if_true]
    have := ceilDiv100_mul100 R; omega
  · split
    · simp only [exposure, keptStable, scaledV, scaled, if_true, Int.zero_mul]
      have : ceilDiv100 0 = 0 := by decide
      omega
    · rename_i hs1 hs2
      have htd : (s * 100).tdiv R = (100 * s) / R := by
        rw [tdiv_pos_eq (by omega) hR, Int.mul_comm]
      have hb := floor_bracket (s := s) hR
      generalize hq : (100 * s) / R = q at *
      simp only [htd, scaledV, scaled, if_true]
      have hc1 := ceilDiv100_ge (q * R)
      have hc2 := ceilDiv100_lt (q * R)
      split
      · -- fallback taken: restored ≤ 0 means q*R ≤ 0, i.e. 100 s < R — excluded by the guard
        rename_i hfb
        exfalso
        apply hg
        refine ⟨by omega, by omega, ?_, hfb.2⟩
        have : ceilDiv100 (q * R) ≤ 0 := hfb.1
        have hq0 : q * R ≤ 0 := by omega
        omega
      · simp only [exposure, keptStable, scaledV, scaled, if_true]
        omega

/-- facts about `plannedDesired` under `0 ≤ k ≤ R` -/
theorem plannedDesired_facts (R : Int) (e : IntOrPct) (nn : Option Int) (hR : 0 ≤ R)
    (hk : ∀ k, nn = some k → 0 ≤ k ∧ k ≤ R) :
    0 ≤ desiredStable R e nn ∧ desiredStable R e nn ≤ R ∧
    (plannedDesired R e nn).2.1 = R - desiredStable R e nn ∧ R - desiredStable R e nn = allowed R e nn := by
  simp only [desiredStable, plannedDesired, allowed]
  cases nn with
  | none =>
    have h1 := calcBatch_nonneg R e hR
    have h2 := calcBatch_le R e hR
    simp only []; omega
  | some k =>
    have ⟨hk0, hk1⟩ := hk k rfl
    by_cases hpos : k > 0
    · have h1 := calcBatch_nonneg (R - k) e (by omega)
      have h2 := calcBatch_le (R - k) e (by omega)
      simp only [hpos, if_true]
      refine ⟨?_, ?_, ?_, ?_⟩
      · omega
      · omega
      · trivial
      · omega
    · have h1 := calcBatch_nonneg R e hR
      have h2 := calcBatch_le R e hR
      simp only [hpos, if_false]; omega

end RV.BatchCtx
