/-
  The custom (Lua) provider (`RV.TrafficX.cuProvider`: `cuEnsure` / `cuFinalise` over `RV/Model/Custom.lean`)
  against `RV.Custom.ensureRoutesF` / `finaliseF` (`RV/Model/CustomHist.lean`), and the provider laws — from the
  C15 lemmas `ensureRoutesF_inv`, `ensureRoutesF_ok`, `ensureRoutesF_fix`, `ensure_idempotent`, `restore_of_St`.
-/
import RV.Lemmas.TrafficXGw
import RV.Lemmas.CustomHist
import RV.Props.C15
namespace RV.TrafficX
open RV.Custom RV.Oracle.C15 RV.Oracle.TrafficX

/-! ## the write budget of `Api` against the budget of `CustomHist` -/

theorem Api.spend_none_iff (a : Api) : a.spend = none ↔ RV.Custom.spend a.w = none := by
  obtain ⟨w, r⟩ := a
  cases w with
  | none => simp [Api.spend, RV.Custom.spend]
  | some k => cases k <;> simp [Api.spend, RV.Custom.spend]

theorem Api.spend_some {a a1 : Api} (h : a.spend = some a1) : RV.Custom.spend a.w = some a1.w ∧ a1.r = a.r := by
  obtain ⟨w, r⟩ := a
  cases w with
  | none => simp [Api.spend] at h; subst h; exact ⟨rfl, rfl⟩
  | some k => cases k with
    | zero => simp [Api.spend] at h
    | succ k => simp [Api.spend] at h; subst h; exact ⟨rfl, rfl⟩

/-! ## the loops of `cuEnsure` are the loops of `ensureRoutesF` -/

/-- second loop -/
theorem cuStoreLoop_eq (c : Codec) (a : Api) (l : List PRef) :
    (cuStoreLoop c a l).1 = (storeLoop c a.w l).1 ∧
    (match (cuStoreLoop c a l).2.1 with
     | none => (storeLoop c a.w l).2 = none
     | some a1 => (storeLoop c a.w l).2 = some a1.w ∧ a1.r = a.r) ∧
    NamedWrites (cuStoreLoop c a l).2.2 := by
  induction l generalizing a with
  | nil => exact ⟨rfl, ⟨rfl, rfl⟩, NamedWrites.nil⟩
  | cons p r ih =>
    simp only [cuStoreLoop, storeLoop]
    by_cases hw : (storeIfAbsentW c p.2).2 = true
    · simp only [hw, if_true]
      cases hsp : a.spend with
      | none =>
        have := (Api.spend_none_iff a).mp hsp
        simp only [this]
        exact ⟨(by first | rfl | trivial), (by first | rfl | trivial), NamedWrites.nil⟩
      | some a1 =>
        obtain ⟨h1, h2⟩ := Api.spend_some hsp
        obtain ⟨i1, i2, i3⟩ := ih a1
        simp only [h1]
        refine ⟨by rw [i1], ?_, ?_⟩
        · cases hh : (cuStoreLoop c a1 r).2.1 with
          | none => rw [hh] at i2; simpa using i2
          | some a2 => rw [hh] at i2; simp only []; exact ⟨i2.1, i2.2.trans h2⟩
        · intro w hw'
          simp only [List.mem_cons] at hw'
          rcases hw' with e | e
          · subst e; decide
          · exact i3 w e
    · simp only [hw, Bool.false_eq_true, if_false]
      obtain ⟨i1, i2, i3⟩ := ih a
      exact ⟨by rw [i1], i2, i3⟩

/-- fourth loop -/
theorem cuApplyLoop_eq (a : Api) (ds : List Data) (l : List PRef) :
    (cuApplyLoop a ds l).1 = (applyLoop a.w ds l).1 ∧
    (match (cuApplyLoop a ds l).2.1 with
     | none => (applyLoop a.w ds l).2 = none
     | some x => (applyLoop a.w ds l).2 = some x.1 ∧ x.2.r = a.r) ∧
    NamedWrites (cuApplyLoop a ds l).2.2 := by
  induction ds generalizing a l with
  | nil => cases l <;> exact ⟨rfl, ⟨rfl, rfl⟩, NamedWrites.nil⟩
  | cons d ds ih =>
    cases l with
    | nil => exact ⟨rfl, ⟨rfl, rfl⟩, NamedWrites.nil⟩
    | cons p r =>
      simp only [cuApplyLoop, applyLoop]
      by_cases hw : (compareAndUpdate d p.2).2 = true
      · simp only [hw, if_true]
        cases hsp : a.spend with
        | none =>
          have := (Api.spend_none_iff a).mp hsp
          simp only [this]
          exact ⟨(by first | rfl | trivial), (by first | rfl | trivial), NamedWrites.nil⟩
        | some a1 =>
          obtain ⟨h1, h2⟩ := Api.spend_some hsp
          obtain ⟨i1, i2, i3⟩ := ih a1 r
          simp only [h1]
          refine ⟨by rw [i1], ?_, ?_⟩
          · cases hh : (cuApplyLoop a1 ds r).2.1 with
            | none => rw [hh] at i2; simp only [Option.map_none]; rw [i2]; rfl
            | some x =>
              rw [hh] at i2
              simp only [Option.map_some]
              rw [i2.1]
              exact ⟨by simp [hw], i2.2.trans h2⟩
          · intro w hw'
            simp only [List.mem_cons] at hw'
            rcases hw' with e | e
            · subst e; decide
            · exact i3 w e
      · simp only [hw, Bool.false_eq_true, if_false]
        obtain ⟨i1, i2, i3⟩ := ih a r
        refine ⟨by rw [i1], ?_, i3⟩
        cases hh : (cuApplyLoop a ds r).2.1 with
        | none => rw [hh] at i2; rw [i2]; rfl
        | some x => rw [hh] at i2; simp only []; rw [i2.1]; exact ⟨by simp [hw], i2.2⟩

/-- first loop: without a failing read it is `getAll`; a failing read spends the read fault -/
theorem cuGetLoop_spec (a : Api) (st : List Ref) :
    ((cuGetLoop a st).1 = none ∧ a.armed = true ∧ (cuGetLoop a st).2.armed = false) ∨
    ((cuGetLoop a st).1 = getAll st ∧ ((cuGetLoop a st).2.armed = true → a.armed = true) ∧
      (a.armed = false → (cuGetLoop a st).2 = a) ∧ (cuGetLoop a st).2.w = a.w ∧
      ((cuGetLoop a st).1.isSome = true → (cuGetLoop a st).2.armed = a.armed)) := by
  induction st generalizing a with
  | nil => right; exact ⟨rfl, fun h => h, fun _ => rfl, rfl, fun _ => rfl⟩
  | cons r rs ih =>
    have hw1 : a.read.2.w = a.w := by
      obtain ⟨w', rr⟩ := a
      cases rr with
      | none => rfl
      | some k => cases k with
        | zero => rfl
        | succ k => cases k <;> rfl
    simp only [cuGetLoop]
    rcases Api.read_cases a with ⟨hr, har, hr2⟩ | ⟨hr, hr2⟩
    · left
      rw [show a.read = (a.read.1, a.read.2) from rfl, hr]
      exact ⟨(by first | rfl | trivial), har, hr2⟩
    · rw [show a.read = (a.read.1, a.read.2) from rfl, hr]
      simp only [Bool.false_eq_true, if_false]
      cases ho : r.obj with
      | none =>
        right
        simp only [getAll, ho]
        exact ⟨(by first | rfl | trivial), fun h => hr2 ▸ h, fun ha => Api.read_snd_not_armed ha, hw1, fun h => by cases h⟩
      | some o =>
        simp only []
        rcases ih a.read.2 with ⟨h1, h2, h3⟩ | ⟨h1, h2, h3, h4, h5⟩
        · left
          exact ⟨by rw [h1]; rfl, hr2 ▸ h2, h3⟩
        · right
          refine ⟨?_, fun h => hr2 ▸ h2 h, ?_, h4.trans hw1, ?_⟩
          · rw [h1]; simp only [getAll, ho]; cases getAll rs <;> rfl
          · intro ha; rw [h3 (by rw [hr2]; exact ha)]; exact Api.read_snd_not_armed ha
          · intro hs
            have : (cuGetLoop a.read.2 rs).1.isSome = true := by
              cases hh : (cuGetLoop a.read.2 rs).1 with
              | none => rw [hh] at hs; cases hs
              | some _ => rfl
            exact (h5 this).trans hr2


theorem armed_of_r {a b : Api} (h : b.r = a.r) : b.armed = a.armed := by
  unfold Api.armed; rw [h]

/-- the result of a provider call as `RV.Custom.Res` -/
def resOf (p : PRes (List Ref)) : Res := if p.err then .err else .ok p.flag

theorem cuStoreLoop_ok (c : Codec) (l : List PRef) : (cuStoreLoop c Api.ok l).2.1 = some Api.ok := by
  induction l with
  | nil => rfl
  | cons p r ih =>
    simp only [cuStoreLoop, Api.spend_ok]
    split <;> exact ih

theorem cuApplyLoop_ok (ds : List Data) (l : List PRef) :
    ∃ d, (cuApplyLoop Api.ok ds l).2.1 = some (d, Api.ok) := by
  induction ds generalizing l with
  | nil => cases l <;> exact ⟨true, rfl⟩
  | cons d ds ih =>
    cases l with
    | nil => exact ⟨true, rfl⟩
    | cons p r =>
      obtain ⟨d', hd⟩ := ih r
      simp only [cuApplyLoop, Api.spend_ok]
      split
      · exact ⟨false, by rw [hd]; rfl⟩
      · exact ⟨d', hd⟩

/-- a healthy API server stays healthy through `cuEnsure` -/
theorem cuEnsure_healthy (c : Codec) (st : List Ref) (s : Strategy) : (cuEnsure c Api.ok st s).a = Api.ok := by
  unfold cuEnsure
  have hg : (cuGetLoop Api.ok st).2 = Api.ok := by
    rcases cuGetLoop_spec Api.ok st with ⟨_, h, _⟩ | ⟨_, _, h, _, _⟩
    · cases h
    · exact h rfl
  cases h1 : (cuGetLoop Api.ok st).1 with
  | none => simp only [h1, hg]
  | some objs =>
    simp only [h1, hg, cuStoreLoop_ok]
    cases hpl : planAll c s (cuStoreLoop c Api.ok objs).1 with
    | none => simp only []
    | some ds =>
      obtain ⟨d, hd⟩ := cuApplyLoop_ok ds (cuStoreLoop c Api.ok objs).1
      simp only [hd]

/-- **`cuEnsure` is `ensureRoutesF`** (objects and result) unless a read fails — and then nothing is written and
    an error is returned -/
theorem cuEnsure_char (c : Codec) (a : Api) (st : List Ref) (s : Strategy) :
    (∃ a1, cuEnsure c a st s = ⟨st, false, true, a1, [], false⟩ ∧ a.armed = true ∧ a1.armed = false) ∨
    ((cuEnsure c a st s).g = (ensureRoutesF c a.w s st).1 ∧
     resOf (cuEnsure c a st s) = (ensureRoutesF c a.w s st).2 ∧
     (cuEnsure c a st s).panic = false ∧ NamedWrites (cuEnsure c a st s).writes ∧
     ((cuEnsure c a st s).a.armed = true → a.armed = true) ∧
     ((cuEnsure c a st s).err = false → (cuEnsure c a st s).a.armed = a.armed)) := by
  unfold cuEnsure
  rcases cuGetLoop_spec a st with ⟨h1, h2, h3⟩ | ⟨h1, h2, h3, h4, h5⟩
  · left
    exact ⟨(cuGetLoop a st).2, by simp [h1], h2, h3⟩
  · right
    generalize hg : cuGetLoop a st = g at h1 h2 h3 h4 h5
    obtain ⟨res, a1⟩ := g
    simp only at h1 h2 h3 h4 h5 ⊢
    subst h1
    unfold ensureRoutesF
    cases hga : getAll st with
    | none =>
      simp only []
      exact ⟨(by first | rfl | trivial), (by first | rfl | trivial), (by first | rfl | trivial), NamedWrites.nil, h2, (fun h => by cases h)⟩
    | some objs =>
      have harm : a1.armed = a.armed := h5 (by rw [hga]; rfl)
      simp only []
      obtain ⟨s1, s2, s3⟩ := cuStoreLoop_eq c a1 objs
      rw [h4] at s1 s2
      cases hst : (cuStoreLoop c a1 objs).2.1 with
      | none =>
        rw [hst] at s2
        simp only [s2, s1]
        refine ⟨(by first | rfl | trivial), (by first | rfl | trivial), (by first | rfl | trivial), s3, ?_, (fun h => by cases h)⟩
        intro h; exact h2 (by simpa [Api.armed] using h)
      | some a2 =>
        rw [hst] at s2
        obtain ⟨s2a, s2b⟩ := s2
        have harm2 : a2.armed = a.armed := (armed_of_r s2b).trans harm
        simp only [s2a, s1]
        cases hpl : planAll c s (storeLoop c a.w objs).1 with
        | none =>
          simp only []
          exact ⟨(by first | rfl | trivial), (by first | rfl | trivial), (by first | rfl | trivial), s3, (fun h => by rw [← harm2]; exact h), (fun h => by cases h)⟩
        | some ds =>
          simp only []
          obtain ⟨t1, t2, t3⟩ := cuApplyLoop_eq a2 ds (storeLoop c a.w objs).1
          cases hap : (cuApplyLoop a2 ds (storeLoop c a.w objs).1).2.1 with
          | none =>
            rw [hap] at t2
            have t2' : (applyLoop a2.w ds (storeLoop c a.w objs).1).2 = none := t2
            simp only [t1, t2']
            refine ⟨(by first | rfl | trivial), (by first | rfl | trivial), (by first | rfl | trivial), s3.append t3, ?_, (fun h => by cases h)⟩
            intro h; rw [← harm2]; simpa [Api.armed] using h
          | some x =>
            rw [hap] at t2
            obtain ⟨t2a, t2b⟩ := t2
            have harm3 : x.2.armed = a.armed := (armed_of_r t2b).trans harm2
            simp only [t1, t2a]
            obtain ⟨done, a3⟩ := x
            exact ⟨(by first | rfl | trivial), (by first | rfl | trivial), (by first | rfl | trivial), s3.append t3, (fun h => by rw [← harm3]; exact h), (fun _ => harm3)⟩


/-! ## a call that has nothing to do: no write, the API value untouched -/

theorem cuGetLoop_unarmed {a : Api} (ha : a.armed = false) (st : List Ref) : cuGetLoop a st = (getAll st, a) := by
  rcases cuGetLoop_spec a st with ⟨_, h, _⟩ | ⟨h1, _, h3, _, _⟩
  · rw [ha] at h; cases h
  · rw [show cuGetLoop a st = ((cuGetLoop a st).1, (cuGetLoop a st).2) from rfl, h1, h3 ha]

theorem cuStoreLoop_fix {c : Codec} {l : List PRef} (h : storedOf c l = l) (a : Api) :
    cuStoreLoop c a l = (l, some a, []) := by
  induction l with
  | nil => rfl
  | cons p r ih =>
    simp only [storedOf, List.map_cons, List.cons.injEq] at h
    obtain ⟨h1, h2⟩ := h
    have hp : storeIfAbsent c p.2 = p.2 := by
      have := congrArg Prod.snd h1; simpa using this
    have hw := storeIfAbsentW_snd hp
    have hfst : (storeIfAbsentW c p.2).1 = p.2 := by rw [storeIfAbsentW_fst]; exact hp
    simp [cuStoreLoop, hw, ih h2, hfst]

theorem cuApplyLoop_fix (c : Codec) (s : Strategy) {l : List PRef} {ds : List Data}
    (hp : planAll c s l = some ds) (h : ((applyAll ds l).all fun r => !r.2) = true) (a : Api) :
    cuApplyLoop a ds l = (l.map refOf, some (true, a), []) := by
  induction l generalizing ds with
  | nil => simp [planAll] at hp; subst hp; rfl
  | cons p r ih =>
    obtain ⟨f, o⟩ := p
    cases hpl : plan c s f o with
    | none => simp [planAll, hpl] at hp
    | some d =>
      cases hr : planAll c s r with
      | none => simp [planAll, hpl, hr] at hp
      | some ds' =>
        simp [planAll, hpl, hr] at hp
        subst hp
        simp only [applyAll, List.all_cons, Bool.and_eq_true, Bool.not_eq_eq_eq_not, Bool.not_true] at h
        obtain ⟨hu, hrest⟩ := h
        have hfst : (compareAndUpdate d o).1 = o := by
          rcases compareAndUpdate_cases d o with ⟨_, h2⟩ | h2
          · rw [h2]
          · rw [h2] at hu; simp at hu
        simp [cuApplyLoop, hu, ih hr hrest, hfst, refOf]

/-- a call that changes nothing and reports `done` issues no `Update`, whatever the write budget -/
theorem cuEnsure_fix {c : Codec} {s : Strategy} {st : List Ref}
    (h : ensureRoutes c s st = (st, .ok true)) {a : Api} (ha : a.armed = false) :
    cuEnsure c a st s = ⟨st, true, false, a, [], false⟩ := by
  rw [ensureRoutes_unfold] at h
  unfold cuEnsure
  rw [cuGetLoop_unarmed ha]
  cases hg : getAll st with
  | none => simp [hg] at h
  | some l =>
    have hst := getAll_some hg
    rw [mkRef_eq_refOf] at hst
    simp only [hg] at h ⊢
    cases hp : planAll c s (storedOf c l) with
    | none => simp [hp] at h
    | some ds =>
      simp only [hp, Prod.mk.injEq, Res.ok.injEq] at h
      obtain ⟨h1, h2⟩ := h
      have ⟨_, ha2⟩ := applyLoop_fix c s hp h2 none
      have hsto : storedOf c l = l := refOf_injective (by rw [← ha2, h1, hst])
      rw [hsto] at hp
      have happ := cuApplyLoop_fix c s hp (by rw [← hsto]; exact h2) a
      simp [cuStoreLoop_fix hsto a, hp, happ, hst]


/-! ## `cuFinalise` -/

/-- whatever happens (failed reads, failed writes), every ref is either untouched or restored -/
theorem cuFinaliseLoop_rel (c : Codec) (a : Api) (st : List Ref) :
    All2 (fun r r' => r' = r ∨ r' = (finOne c r).1) st (cuFinaliseLoop c a st).1 := by
  induction st generalizing a with
  | nil => exact .nil
  | cons r rs ih =>
    simp only [cuFinaliseLoop]
    rw [show a.read = (a.read.1, a.read.2) from rfl]
    cases hr : a.read.1
    · simp only [Bool.false_eq_true, if_false]
      cases ho : r.obj with
      | none => exact .cons (.inl rfl) (ih _)
      | some o =>
        simp only []
        split
        · cases a.read.2.spend with
          | none => exact .cons (.inl rfl) (ih _)
          | some a1 => exact .cons (.inr (by simp [finOne, ho])) (ih _)
        · exact .cons (.inr (by simp [finOne, ho])) (ih _)
    · simp only [if_true]
      exact .cons (.inl rfl) (ih _)

/-- the loop's verdicts: no failure ⇒ every ref was restored; the read fault; the writes; a healthy API server -/
theorem cuFinaliseLoop_spec (c : Codec) (a : Api) (st : List Ref) :
    ((cuFinaliseLoop c a st).2.2.1 = false → (cuFinaliseLoop c a st).1 = (st.map (finOne c)).map (·.1)) ∧
    ((cuFinaliseLoop c a st).2.2.2.1.armed = true → a.armed = true) ∧
    (readFailed a (cuFinaliseLoop c a st).2.2.2.1 = true → (cuFinaliseLoop c a st).2.2.1 = true) ∧
    NamedWrites (cuFinaliseLoop c a st).2.2.2.2 ∧
    (a = Api.ok → (cuFinaliseLoop c a st).2.2.1 = false ∧ (cuFinaliseLoop c a st).2.2.2.1 = Api.ok) := by
  induction st generalizing a with
  | nil =>
    exact ⟨fun _ => rfl, fun h => h, (fun h => by rw [show (cuFinaliseLoop c a []).2.2.2.1 = a from rfl, readFailed_self] at h; cases h),
      NamedWrites.nil, fun h => ⟨rfl, h⟩⟩
  | cons r rs ih =>
    simp only [cuFinaliseLoop]
    rcases Api.read_cases a with ⟨hr, har, hr2⟩ | ⟨hr, hr2⟩
    · -- the Get of this ref fails: recorded, the loop goes on
      rw [show a.read = (a.read.1, a.read.2) from rfl, hr]
      simp only [if_true]
      obtain ⟨_, i2, _, i4, _⟩ := ih a.read.2
      refine ⟨(fun h => by cases h), (fun h => by have := i2 h; rw [hr2] at this; cases this), fun _ => (by first | rfl | trivial), i4, ?_⟩
      intro ha; subst ha; cases har
    · rw [show a.read = (a.read.1, a.read.2) from rfl, hr]
      simp only [Bool.false_eq_true, if_false]
      have hok : a = Api.ok → a.read.2 = Api.ok := fun h => by subst h; rfl
      have rfeq : ∀ b : Api, readFailed a b = readFailed a.read.2 b := by
        intro b; unfold readFailed; rw [hr2]
      cases ho : r.obj with
      | none =>
        obtain ⟨i1, i2, i3, i4, i5⟩ := ih a.read.2
        refine ⟨fun h => ?_, fun h => hr2 ▸ i2 h, fun h => i3 (by rw [← rfeq]; exact h), i4, fun ha => i5 (hok ha)⟩
        simp only [List.map_cons, finOne, ho]
        rw [i1 h]
      | some o =>
        simp only []
        by_cases hm : (restoreObject c o).2 = true
        · simp only [hm, if_true]
          cases hsp : a.read.2.spend with
          | none =>
            obtain ⟨_, i2, _, i4, _⟩ := ih a.read.2
            refine ⟨(fun h => by cases h), fun h => hr2 ▸ i2 h, fun _ => (by first | rfl | trivial), i4, ?_⟩
            intro ha; rw [hok ha] at hsp; cases hsp
          | some a1 =>
            have h1 := Api.spend_armed hsp
            obtain ⟨i1, i2, i3, i4, i5⟩ := ih a1
            refine ⟨fun h => ?_, fun h => hr2 ▸ h1 ▸ i2 h, fun h => i3 ?_, ?_, fun ha => i5 ?_⟩
            · simp only [List.map_cons, finOne, ho]
              rw [i1 h]
            · unfold readFailed at h ⊢; rw [h1, hr2]; exact h
            · intro w hw
              simp only [List.mem_cons] at hw
              rcases hw with e | e
              · subst e; decide
              · exact i4 w e
            · rw [hok ha] at hsp; simp only [Api.spend_ok, Option.some.injEq] at hsp; exact hsp.symm
        · simp only [hm, Bool.false_eq_true, if_false]
          obtain ⟨i1, i2, i3, i4, i5⟩ := ih a.read.2
          refine ⟨fun h => ?_, fun h => hr2 ▸ i2 h, fun h => i3 (by rw [← rfeq]; exact h), i4, fun ha => i5 (hok ha)⟩
          simp only [List.map_cons, finOne, ho]
          rw [i1 h]

/-- refs that need no restoring: `Finalise` has nothing to do -/
theorem cuFinaliseLoop_clean (c : Codec) {a : Api} (ha : a.armed = false) {st : List Ref}
    (h : ∀ r, r ∈ st → ∀ o, r.obj = some o → restoreObject c o = (o, false)) :
    cuFinaliseLoop c a st = (st, false, false, a, []) := by
  induction st with
  | nil => rfl
  | cons r rs ih =>
    have ih' := ih fun x hx => h x (by simp [hx])
    simp only [cuFinaliseLoop, Api.read_of_not_armed ha, Bool.false_eq_true, if_false]
    cases ho : r.obj with
    | none => simp [ih']
    | some o =>
      have := h r (by simp) o ho
      simp only [this, Bool.false_eq_true, if_false, ih']
      obtain ⟨f, ob⟩ := r
      simp only at ho
      subst ho
      rfl


/-! ## the laws -/

/-- invariant of the referenced objects: every ref's object is the user's configuration `us[i]` (as written, or
    as Finalise restores it), or carries it as its stored original (`RV.Custom.HInv`, C15 histories); the user's
    manifests do not carry the provider's annotation and `encoding/json` round-trips them (`Good`) -/
def cuInv (c : Codec) (us : List PRef) (st : List Ref) : Prop := All2 (HInv c) us st

open Classical in
/-- rounds still needed: 1 unless `EnsureRoutes` for the step has nothing to do -/
noncomputable def cuMu (c : Codec) (st : List Ref) (s : Strat) : Nat :=
  if ensureRoutes c (cuStrategy s) st = (st, .ok true) then 0 else 1

theorem noOrig_origOf {o : Obj} (h : noOrig o = true) : origOf o = "" := by
  unfold noOrig at h
  unfold origOf
  cases hl : lookup origKey (o.annotations.getD []) with
  | none => rfl
  | some v => rw [hl] at h; cases h

/-- after `finOne` a ref's object no longer carries the annotation -/
theorem finOne_noOrig {c : Codec} {p0 : PRef} {r : Ref} (h : HInv c p0 r) (o : Obj)
    (ho : (finOne c r).1.obj = some o) : noOrig o = true := by
  unfold finOne at ho
  cases hr : r.obj with
  | none => rw [hr] at ho; simp only [hr] at ho; cases ho
  | some x =>
    rw [hr] at ho
    simp only [Option.some.injEq] at ho
    subst ho
    rcases restore_of_St h.1 (h.2.2 x hr) with ⟨hn, he, _⟩ | ⟨_, he⟩
    · rw [he]; exact hn
    · rw [he]; exact noOrig_normalise h.1.1

theorem finAll_noOrig {c : Codec} {us : List PRef} {st : List Ref} (h : All2 (HInv c) us st) :
    ∀ r, r ∈ (st.map (finOne c)).map (·.1) → ∀ o, r.obj = some o → noOrig o = true := by
  induction h with
  | nil => intro r hr; cases hr
  | cons hab _ ih =>
    intro r hr o ho
    simp only [List.map_cons, List.mem_cons] at hr
    rcases hr with e | e
    · subst e; exact finOne_noOrig hab o ho
    · exact ih r e o ho

theorem cuCleanB_of_noOrig {st : List Ref} (h : ∀ r, r ∈ st → ∀ o, r.obj = some o → noOrig o = true) :
    cuCleanB st = true := by
  unfold cuCleanB
  rw [List.all_eq_true]
  intro r hr
  cases ho : r.obj with
  | none => rfl
  | some o => simp [noOrig_origOf (h r hr o ho)]

/-- **the custom (Lua) provider is lawful** (C15 with histories): *verified* means that `EnsureRoutes` for the
    step has nothing to do **and** every object is `f(original, step)` — the script applied to the user's
    original configuration, whatever steps preceded (statelessness). -/
theorem cu_lawful (c : Codec) (us : List PRef) :
    LawfulProvider (cuProvider c) (cuInv c us)
      (fun st s => cuSpecB c s st = true ∧ cuStatelessB c s us st = true) (fun st => cuCleanB st = true)
      (cuMu c) 1 where
  inv_ensure := by
    intro a st s hi
    simp only [cuProvider]
    rcases cuEnsure_char c a st (cuStrategy s) with ⟨a1, h, _, _⟩ | ⟨hg, _⟩
    · rw [h]; exact hi
    · rw [hg]; exact ensureRoutesF_inv a.w (cuStrategy s) hi
  inv_finalise := by
    intro a st hi
    simp only [cuProvider, cuFinalise]
    exact hi.comp (cuFinaliseLoop_rel c a st) fun _ _ _ hab hbc => by
      rcases hbc with e | e
      · rw [e]; exact hab
      · rw [e]; exact finOne_inv hab
  verified_spec := by
    intro a st s hi _ he hf
    simp only [cuProvider] at he hf ⊢
    rcases cuEnsure_char c a st (cuStrategy s) with ⟨a1, h, _, _⟩ | ⟨hg, hres, _⟩
    · rw [h] at hf; cases hf
    · have hres' : (ensureRoutesF c a.w (cuStrategy s) st).2 = .ok true := by
        rw [← hres]; simp [resOf, he, hf]
      have hok : (ensureRoutesF c a.w (cuStrategy s) st).2 ≠ .err := by rw [hres']; intro h; cases h
      have heq := ensureRoutesF_ok hok
      have hens : ensureRoutes c (cuStrategy s) st = ((cuEnsure c a st (cuStrategy s)).g, .ok true) := by
        rw [← heq, hg, ← hres']
      have hid := RV.Props.C15.ensure_idempotent c (cuStrategy s) st _ true hens
      refine ⟨by simp [cuSpecB, hid], ?_⟩
      obtain ⟨ds, hds, hst⟩ := ensureRoutes_stateless (cuStrategy s) hi (by rw [hens]; intro h; cases h)
      rw [hens] at hst
      simp only [cuStatelessB, hds, hst]
  verified_stable := by
    intro a st s _ _ he hf a' ha'
    simp only [cuProvider] at he hf ⊢
    rcases cuEnsure_char c a st (cuStrategy s) with ⟨a1, h, _, _⟩ | ⟨hg, hres, _⟩
    · rw [h] at hf; cases hf
    · have hres' : (ensureRoutesF c a.w (cuStrategy s) st).2 = .ok true := by
        rw [← hres]; simp [resOf, he, hf]
      have hok : (ensureRoutesF c a.w (cuStrategy s) st).2 ≠ .err := by rw [hres']; intro h; cases h
      have heq := ensureRoutesF_ok hok
      have hens : ensureRoutes c (cuStrategy s) st = ((cuEnsure c a st (cuStrategy s)).g, .ok true) := by
        rw [← heq, hg, ← hres']
      have hid := RV.Props.C15.ensure_idempotent c (cuStrategy s) st _ true hens
      rw [cuEnsure_fix hid ha']; rfl
  finalise_clean := by
    intro a st hi _ he
    simp only [cuProvider, cuFinalise] at he ⊢
    rw [(cuFinaliseLoop_spec c a st).1 he]
    exact cuCleanB_of_noOrig (finAll_noOrig hi)
  finalise_stable := by
    intro a st hi _ he a' ha'
    simp only [cuProvider, cuFinalise] at he ⊢
    rw [(cuFinaliseLoop_spec c a st).1 he]
    have := cuFinaliseLoop_clean c ha' (st := (st.map (finOne c)).map (·.1))
      (fun r hr o ho => restore_of_noOrig c (finAll_noOrig hi r hr o ho))
    simp only [this, PRes.noop]
  finalise_healthy := by
    intro st _
    simp only [cuProvider, cuFinalise]
    exact ⟨((cuFinaliseLoop_spec c Api.ok st).2.2.2.2 rfl).1, (by first | rfl | trivial)⟩
  ensure_progress := by
    intro st s _ _ he
    simp only [cuProvider] at he ⊢
    rcases cuEnsure_char c Api.ok st (cuStrategy s) with ⟨a1, _, har, _⟩ | ⟨hg, hres, _⟩
    · cases har
    · have hF : ensureRoutesF c Api.ok.w (cuStrategy s) st = ensureRoutes c (cuStrategy s) st :=
        ensureRoutesF_none c (cuStrategy s) st
      rw [hF] at hg hres
      have hens : ensureRoutes c (cuStrategy s) st =
          ((cuEnsure c Api.ok st (cuStrategy s)).g, .ok (cuEnsure c Api.ok st (cuStrategy s)).flag) := by
        have h2 : (ensureRoutes c (cuStrategy s) st).2 = .ok (cuEnsure c Api.ok st (cuStrategy s)).flag := by
          rw [← hres]; simp [resOf, he]
        rw [hg, ← h2]
      have hid := RV.Props.C15.ensure_idempotent c (cuStrategy s) st _ _ hens
      have h0 : cuMu c (cuEnsure c Api.ok st (cuStrategy s)).g s = 0 := by simp [cuMu, hid]
      rw [h0]
      refine ⟨fun hf => ?_, Nat.zero_le _⟩
      have : ensureRoutes c (cuStrategy s) st ≠ (st, .ok true) := by
        rw [hens, hf]; intro h; injection h with _ h2; cases h2
      simp [cuMu, this]
  μ_le := by
    intro st s
    unfold cuMu
    split <;> omega
  healthy_ensure := fun st s => cuEnsure_healthy c st (cuStrategy s)
  healthy_finalise := by
    intro st
    simp only [cuProvider, cuFinalise]
    exact ((cuFinaliseLoop_spec c Api.ok st).2.2.2.2 rfl).2
  writes_ensure := by
    intro a st s
    simp only [cuProvider]
    rcases cuEnsure_char c a st (cuStrategy s) with ⟨a1, h, _, _⟩ | ⟨_, _, _, hw, _⟩
    · rw [h]; exact NamedWrites.nil
    · exact hw
  writes_finalise := by
    intro a st
    simp only [cuProvider, cuFinalise]
    exact (cuFinaliseLoop_spec c a st).2.2.2.1
  read_fault_ensure := by
    intro a st s _
    simp only [cuProvider]
    rcases cuEnsure_char c a st (cuStrategy s) with ⟨a1, h, _, h1⟩ | ⟨_, _, _, _, hm, harm⟩
    · rw [h]; exact ⟨fun _ => rfl, armed_false_elim h1⟩
    · refine ⟨fun h => ?_, hm⟩
      cases he : (cuEnsure c a st (cuStrategy s)).err
      · rw [readFailed_of_armed_eq (harm he)] at h; cases h
      · rfl
  read_fault_finalise := by
    intro a st _
    simp only [cuProvider, cuFinalise]
    exact ⟨(cuFinaliseLoop_spec c a st).2.2.1, (cuFinaliseLoop_spec c a st).2.1⟩

end RV.TrafficX
