/-
  Helper lemmas for the history theorems of C15 (`RV/Props/C15Hist.lean`).  Core Lean only.
-/
import RV.Lemmas.Custom
import RV.Model.CustomHist
import RV.Oracle.C15Hist
namespace RV.Custom
open RV.Oracle.C15

/-! ## pointwise relation: more closure properties -/

theorem All2.append {α β} {R : α → β → Prop} {l l' : List α} {m m' : List β}
    (h : All2 R l m) (h' : All2 R l' m') : All2 R (l ++ l') (m ++ m') := by
  induction h with
  | nil => exact h'
  | cons hab _ ih => exact .cons hab ih

theorem All2.comp {α β γ} {R : α → β → Prop} {S : β → γ → Prop} {T : α → γ → Prop}
    {l : List α} {m : List β} {n : List γ} (h : All2 R l m) (h' : All2 S m n)
    (hT : ∀ a b c, R a b → S b c → T a c) : All2 T l n := by
  induction h generalizing n with
  | nil => cases h'; exact .nil
  | cons hab _ ih =>
    cases h' with
    | cons hbc hrest => exact .cons (hT _ _ _ hab hbc) (ih hrest)

theorem All2.modifyAt {α β} {R : α → β → Prop} {f : α → α} {g : β → β} {l : List α} {m : List β}
    (h : All2 R l m) (hfg : ∀ a b, R a b → R (f a) (g b)) (i : Nat) :
    All2 R (modifyAt f i l) (modifyAt g i m) := by
  induction h generalizing i with
  | nil => cases i <;> exact .nil
  | cons hab hrest ih =>
    cases i with
    | zero => exact .cons (hfg _ _ hab) hrest
    | succ n => exact .cons hab (ih n)

theorem modifyAt_id {α} (i : Nat) (l : List α) : modifyAt id i l = l := by
  induction l generalizing i with
  | nil => cases i <;> rfl
  | cons a t ih =>
    cases i with
    | zero => rfl
    | succ n => simp [modifyAt, ih n]

theorem All2.removeAt {α β} {R : α → β → Prop} {l : List α} {m : List β}
    (h : All2 R l m) (i : Nat) : All2 R (removeAt i l) (removeAt i m) := by
  induction h generalizing i with
  | nil => cases i <;> exact .nil
  | cons hab hrest ih =>
    cases i with
    | zero => exact hrest
    | succ n => exact .cons hab (ih n)

theorem All2.getAt {α β} {R : α → β → Prop} {l : List α} {m : List β}
    (h : All2 R l m) (i : Nat) :
    (getAt i l = none ∧ getAt i m = none) ∨ ∃ a b, getAt i l = some a ∧ getAt i m = some b ∧ R a b := by
  induction h generalizing i with
  | nil => cases i <;> exact .inl ⟨rfl, rfl⟩
  | cons hab _ ih =>
    cases i with
    | zero => exact .inr ⟨_, _, rfl, rfl, hab⟩
    | succ n => exact ih n

theorem all3_of_All2 {α β γ} {p : α → β → γ → Bool} {f : β → γ} {l : List α} {m : List β}
    (h : All2 (fun a b => p a b (f b) = true) l m) : all3 p l m (m.map f) = true := by
  induction h with
  | nil => rfl
  | cons hab _ ih => simp [all3, hab, ih]

/-! ## the second loop under a budget -/

theorem storeObjectW_fst (c : Codec) (o : Obj) : (storeObjectW c o).1 = storeObject c o := by
  unfold storeObjectW storeObject
  simp only []
  split <;> rfl

theorem storeIfAbsentW_fst (c : Codec) (o : Obj) : (storeIfAbsentW c o).1 = storeIfAbsent c o := by
  cases h : lookup origKey (o.annotations.getD []) <;>
    simp [storeIfAbsentW, storeIfAbsent, h, storeObjectW_fst]

/-- the objects as the unfaulted second loop leaves them. -/
def storedOf (c : Codec) (l : List PRef) : List PRef := l.map fun p => (p.1, storeIfAbsent c p.2)

theorem storeLoop_none (c : Codec) (l : List PRef) : storeLoop c none l = (storedOf c l, some none) := by
  induction l with
  | nil => rfl
  | cons p r ih =>
    have : (if (storeIfAbsentW c p.2).2 = true then spend none else some none) = some none := by
      split <;> rfl
    simp only [storeLoop, this, ih, storedOf, List.map_cons, storeIfAbsentW_fst]

theorem storeLoop_some {c : Codec} {b : Option Nat} {l : List PRef} {b1 : Option Nat}
    (h : (storeLoop c b l).2 = some b1) : (storeLoop c b l).1 = storedOf c l := by
  induction l generalizing b with
  | nil => rfl
  | cons p r ih =>
    simp only [storeLoop] at h ⊢
    cases hb : (if (storeIfAbsentW c p.2).2 = true then spend b else some b) with
    | none => simp [hb] at h
    | some b2 =>
      simp only [hb] at h ⊢
      simp only [storedOf, List.map_cons, storeIfAbsentW_fst] at ih ⊢
      rw [ih h]

/-- whatever happens in the second loop, every object is either untouched or stored. -/
theorem storeLoop_rel (c : Codec) (b : Option Nat) (l : List PRef) :
    All2 (fun p p' => p'.1 = p.1 ∧ (p'.2 = p.2 ∨ p'.2 = storeIfAbsent c p.2)) l (storeLoop c b l).1 := by
  induction l generalizing b with
  | nil => exact .nil
  | cons p r ih =>
    simp only [storeLoop]
    cases hb : (if (storeIfAbsentW c p.2).2 = true then spend b else some b) with
    | none =>
      simp only []
      exact All2.refl_of _ fun a _ => ⟨rfl, .inl rfl⟩
    | some b2 =>
      simp only []
      exact .cons ⟨rfl, .inr (storeIfAbsentW_fst c p.2)⟩ (ih b2)

/-! ## the fourth loop under a budget -/

theorem applyLoop_none (ds : List Data) (l : List PRef) :
    applyLoop none ds l = ((applyAll ds l).map (·.1), some ((applyAll ds l).all fun r => !r.2)) := by
  induction ds generalizing l with
  | nil => cases l <;> simp [applyLoop, applyAll]
  | cons d ds ih =>
    cases l with
    | nil => simp [applyLoop, applyAll]
    | cons p r =>
      obtain ⟨f, o⟩ := p
      have : (if (compareAndUpdate d o).2 = true then spend none else some none) = some none := by
        split <;> rfl
      simp [applyLoop, applyAll, this, ih]

theorem applyLoop_some {b : Option Nat} {ds : List Data} {l : List PRef} {done : Bool}
    (h : (applyLoop b ds l).2 = some done) :
    (applyLoop b ds l).1 = (applyAll ds l).map (·.1) ∧ done = (applyAll ds l).all fun r => !r.2 := by
  induction ds generalizing l b done with
  | nil => cases l <;> simp_all [applyLoop, applyAll]
  | cons d ds ih =>
    cases l with
    | nil => simp_all [applyLoop, applyAll]
    | cons p r =>
      obtain ⟨f, o⟩ := p
      simp only [applyLoop] at h ⊢
      cases hb : (if (compareAndUpdate d o).2 = true then spend b else some b) with
      | none => simp [hb] at h
      | some b2 =>
        simp only [hb] at h ⊢
        cases hr : (applyLoop b2 ds r).2 with
        | none => simp [hr] at h
        | some done' =>
          obtain ⟨h1, h2⟩ := ih hr
          simp only [hr, Option.map_some, Option.some.injEq] at h
          simp [applyAll, h1, ← h, h2]

theorem map_refOf_rel (l : List PRef) :
    All2 (fun p r => r.script = p.1 ∧ (r.obj = some p.2 ∨ ∃ d, r.obj = some (compareAndUpdate d p.2).1))
      l (l.map refOf) := by
  induction l with
  | nil => exact .nil
  | cons a t ih => exact .cons ⟨rfl, .inl rfl⟩ ih

/-- whatever happens in the fourth loop, every object is either untouched or `compareAndUpdate`d. -/
theorem applyLoop_rel (c : Codec) (s : Strategy) {l : List PRef} {ds : List Data}
    (h : planAll c s l = some ds) (b : Option Nat) :
    All2 (fun p r => r.script = p.1 ∧ (r.obj = some p.2 ∨ ∃ d, r.obj = some (compareAndUpdate d p.2).1))
      l (applyLoop b ds l).1 := by
  induction l generalizing ds b with
  | nil => simp [planAll] at h; subst h; exact .nil
  | cons p r ih =>
    obtain ⟨f, o⟩ := p
    cases hp : plan c s f o with
    | none => simp [planAll, hp] at h
    | some d =>
      cases hr : planAll c s r with
      | none => simp [planAll, hp, hr] at h
      | some ds' =>
        simp [planAll, hp, hr] at h
        subst h
        simp only [applyLoop]
        cases hb : (if (compareAndUpdate d o).2 = true then spend b else some b) with
        | none =>
          simp only []
          exact map_refOf_rel _
        | some b2 =>
          simp only []
          exact .cons ⟨rfl, .inr ⟨d, rfl⟩⟩ (ih hr b2)

/-! ## `ensureRoutesF` against `ensureRoutes` -/

theorem storedOf_eq (c : Codec) (l : List PRef) :
    (l.map fun (x : Option Script × Obj) => match x with | (f, o) => (f, storeIfAbsent c o)) = storedOf c l := by
  apply List.map_congr_left; intro p _; rfl

theorem map_refOf_eq (l : List PRef) :
    (l.map fun (x : Option Script × Obj) => match x with | (f, o) => (⟨f, some o⟩ : Ref)) = l.map refOf := by
  apply List.map_congr_left; intro p _; rfl

theorem ensureRoutes_unfold (c : Codec) (s : Strategy) (st : List Ref) :
    ensureRoutes c s st =
      match getAll st with
      | none => (st, .err)
      | some objs =>
        match planAll c s (storedOf c objs) with
        | none => ((storedOf c objs).map refOf, .err)
        | some ds => ((applyAll ds (storedOf c objs)).map (·.1), .ok ((applyAll ds (storedOf c objs)).all fun r => !r.2)) := by
  unfold ensureRoutes
  cases getAll st with
  | none => rfl
  | some objs =>
    simp only [storedOf_eq, map_refOf_eq]
    cases planAll c s (storedOf c objs) <;> rfl

/-- without a fault `ensureRoutesF` is `ensureRoutes`. -/
theorem ensureRoutesF_none (c : Codec) (s : Strategy) (st : List Ref) :
    ensureRoutesF c none s st = ensureRoutes c s st := by
  rw [ensureRoutes_unfold]
  unfold ensureRoutesF
  cases getAll st with
  | none => rfl
  | some objs =>
    simp only [storeLoop_none]
    cases hp : planAll c s (storedOf c objs) with
    | none => rfl
    | some ds => simp only [applyLoop_none]

/-- a call that succeeds under a budget did what the unfaulted call does. -/
theorem ensureRoutesF_ok {c : Codec} {b : Option Nat} {s : Strategy} {st : List Ref}
    (h : (ensureRoutesF c b s st).2 ≠ .err) : ensureRoutesF c b s st = ensureRoutes c s st := by
  rw [ensureRoutes_unfold]
  unfold ensureRoutesF at h ⊢
  cases hg : getAll st with
  | none => rfl
  | some objs =>
    simp only [hg] at h ⊢
    cases hs : (storeLoop c b objs).2 with
    | none => simp [hs] at h
    | some b1 =>
      have hst := storeLoop_some hs
      simp only [hs, hst] at h ⊢
      cases hp : planAll c s (storedOf c objs) with
      | none => simp [hp] at h
      | some ds =>
        simp only [hp] at h ⊢
        cases ha : (applyLoop b1 ds (storedOf c objs)).2 with
        | none => simp [ha] at h
        | some done =>
          obtain ⟨h1, h2⟩ := applyLoop_some ha
          simp only [h1, h2]

/-! ## the invariant of one ref -/

/-- `u` qualifies as a user's manifest: no provider annotation; the Env assumption on `encoding/json`. -/
def Good (c : Codec) (u : Obj) : Prop := noOrig u = true ∧ c.LawfulOn (dataOf u)

/-- the object `x` of a ref whose user's last configuration is `u`: it is that configuration (as
    written, or as Finalise restores it), or it carries `u` as its stored original. -/
def St (c : Codec) (u x : Obj) : Prop := x = u ∨ x = normalise u ∨ Tracked c u x

def HRel (c : Codec) (p0 p : PRef) : Prop := Good c p0.2 ∧ p.1 = p0.1 ∧ St c p0.2 p.2

def HRelT (c : Codec) (p0 p : PRef) : Prop := Good c p0.2 ∧ p.1 = p0.1 ∧ Tracked c p0.2 p.2

def HInv (c : Codec) (p0 : PRef) (r : Ref) : Prop :=
  Good c p0.2 ∧ r.script = p0.1 ∧ ∀ x, r.obj = some x → St c p0.2 x

theorem dataOf_normalise (o : Obj) : dataOf (normalise o) = dataOf o := by
  obtain ⟨spec, labels, anns⟩ := o
  have h1 : (labels.bind optOfList).getD [] = labels.getD [] := by
    cases labels with
    | none => rfl
    | some l => cases l <;> rfl
  have h2 : (anns.bind optOfList).getD [] = anns.getD [] := by
    cases anns with
    | none => rfl
    | some l => cases l <;> rfl
  simp [dataOf, normalise, h1, h2]

theorem noOrig_normalise {o : Obj} (h : noOrig o = true) : noOrig (normalise o) = true := by
  obtain ⟨spec, labels, anns⟩ := o
  have h2 : (anns.bind optOfList).getD [] = anns.getD [] := by
    cases anns with
    | none => rfl
    | some l => cases l <;> rfl
  simpa [noOrig, normalise, h2] using h

theorem noOrig_of_tracked_false {c : Codec} {u x : Obj} (h : Tracked c u x) : noOrig x = false := by
  unfold Tracked at h
  simp [noOrig, h]

theorem store_tracked_of_St {c : Codec} {u x : Obj} (hg : Good c u) (h : St c u x) :
    Tracked c u (storeIfAbsent c x) := by
  rcases h with h | h | h
  · subst h; exact storeIfAbsent_tracked hg.2 hg.1
  · subst h
    have := storeIfAbsent_tracked (c := c) (o0 := normalise u)
      (by rw [dataOf_normalise]; exact hg.2) (noOrig_normalise hg.1)
    simpa [Tracked, dataOf_normalise] using this
  · rw [storeIfAbsent_of_bound h]; exact h

/-- `restoreObject` on an object satisfying the invariant. -/
theorem restore_of_St {c : Codec} {u x : Obj} (hg : Good c u) (h : St c u x) :
    (noOrig x = true ∧ restoreObject c x = (x, false) ∧ (x = u ∨ x = normalise u))
    ∨ (noOrig x = false ∧ restoreObject c x = (normalise u, true)) := by
  rcases h with h | h | h
  · subst h; exact .inl ⟨hg.1, restore_of_noOrig c hg.1, .inl rfl⟩
  · subst h; exact .inl ⟨noOrig_normalise hg.1, restore_of_noOrig c (noOrig_normalise hg.1), .inr rfl⟩
  · exact .inr ⟨noOrig_of_tracked_false h, restore_of_tracked hg.2 hg.1 h⟩

theorem St_restore {c : Codec} {u x : Obj} (hg : Good c u) (h : St c u x) : St c u (restoreObject c x).1 := by
  rcases restore_of_St hg h with ⟨_, h2, _⟩ | ⟨_, h2⟩
  · rw [h2]; exact h
  · rw [h2]; exact .inr (.inl rfl)

theorem HInv_of_HRel {c : Codec} {p0 p : PRef} (h : HRel c p0 p) : HInv c p0 (refOf p) :=
  ⟨h.1, h.2.1, fun x hx => by
    have : p.2 = x := by simpa [refOf] using hx
    subst this; exact h.2.2⟩

theorem mkRef_eq_refOf : mkRef = refOf := rfl

/-- a list of refs that all exist and satisfy the invariant, seen as a list of objects. -/
theorem HRel_of_HInv_present {c : Codec} {us l : List PRef} (h : All2 (HInv c) us (l.map refOf)) :
    All2 (HRel c) us l := by
  induction l generalizing us with
  | nil => cases h; exact .nil
  | cons p r ih =>
    cases h with
    | cons hab hrest => exact .cons ⟨hab.1, hab.2.1, hab.2.2 p.2 rfl⟩ (ih hrest)

/-! ## `EnsureRoutes` (with or without fault) preserves the invariant -/

theorem ensureRoutesF_inv {c : Codec} (b : Option Nat) (s : Strategy) {us : List PRef} {st : List Ref}
    (h : All2 (HInv c) us st) : All2 (HInv c) us (ensureRoutesF c b s st).1 := by
  unfold ensureRoutesF
  cases hg : getAll st with
  | none => exact h
  | some objs =>
    have hst := getAll_some hg
    subst hst
    rw [mkRef_eq_refOf] at h
    have hrel := HRel_of_HInv_present h
    -- after the second loop: still the invariant; when the loop completed, every object is tracked
    have hstored : All2 (HRel c) us (storeLoop c b objs).1 :=
      hrel.comp (storeLoop_rel c b objs) fun p0 p p' hr hs => by
        refine ⟨hr.1, hs.1.trans hr.2.1, ?_⟩
        rcases hs.2 with e | e
        · rw [e]; exact hr.2.2
        · rw [e]; exact .inr (.inr (store_tracked_of_St hr.1 hr.2.2))
    have hInvStored : All2 (HInv c) us ((storeLoop c b objs).1.map refOf) :=
      hstored.map_right fun _ _ hab => HInv_of_HRel hab
    simp only []
    cases hs : (storeLoop c b objs).2 with
    | none => exact hInvStored
    | some b1 =>
      simp only []
      cases hp : planAll c s (storeLoop c b objs).1 with
      | none => exact hInvStored
      | some ds =>
        have htr : All2 (HRelT c) us (storeLoop c b objs).1 := by
          rw [storeLoop_some hs]
          exact hrel.map_right fun p0 p hr => ⟨hr.1, hr.2.1, store_tracked_of_St hr.1 hr.2.2⟩
        have hfin : All2 (HInv c) us (applyLoop b1 ds (storeLoop c b objs).1).1 :=
          htr.comp (applyLoop_rel c s hp b1) fun p0 p r hr ha => by
            refine ⟨hr.1, ha.1.trans hr.2.1, fun x hx => ?_⟩
            rcases ha.2 with e | ⟨d, e⟩
            · rw [e] at hx; cases hx; exact .inr (.inr hr.2.2)
            · rw [e] at hx; cases hx; exact .inr (.inr (compareAndUpdate_tracked d hr.2.2))
        simp only []
        cases (applyLoop b1 ds (storeLoop c b objs).1).2 <;> exact hfin

/-! ## a call that has nothing to do issues no write -/

theorem storeIfAbsentW_snd {c : Codec} {o : Obj} (h : storeIfAbsent c o = o) : (storeIfAbsentW c o).2 = false := by
  cases hl : lookup origKey (o.annotations.getD []) with
  | some v => simp [storeIfAbsentW, hl]
  | none =>
    simp only [storeIfAbsent, hl, storeObject] at h
    simp only [storeIfAbsentW, hl, storeObjectW]
    by_cases he : origOf o = c.enc (dataOf o)
    · simp [he]
    · simp only [he, if_false] at h
      have := congrArg (fun x => lookup origKey (x.annotations.getD [])) h
      simp only [Option.getD_some, lookup_setKey_self, hl] at this
      cases this

theorem storeLoop_fix {c : Codec} {l : List PRef} (h : storedOf c l = l) (b : Option Nat) :
    storeLoop c b l = (l, some b) := by
  induction l generalizing b with
  | nil => rfl
  | cons p r ih =>
    simp only [storedOf, List.map_cons, List.cons.injEq] at h
    obtain ⟨h1, h2⟩ := h
    have hp : storeIfAbsent c p.2 = p.2 := by
      have := congrArg Prod.snd h1; simpa using this
    have hw := storeIfAbsentW_snd hp
    have hfst : (storeIfAbsentW c p.2).1 = p.2 := by rw [storeIfAbsentW_fst]; exact hp
    simp [storeLoop, hw, ih h2, hfst]

theorem applyLoop_fix (c : Codec) (s : Strategy) {l : List PRef} {ds : List Data}
    (hp : planAll c s l = some ds) (h : ((applyAll ds l).all fun r => !r.2) = true) (b : Option Nat) :
    applyLoop b ds l = (l.map refOf, some true) ∧ (applyAll ds l).map (·.1) = l.map refOf := by
  induction l generalizing ds b with
  | nil => simp [planAll] at hp; subst hp; exact ⟨rfl, rfl⟩
  | cons p r ih =>
    obtain ⟨f, o⟩ := p
    cases hpl : plan c s f o with
    | none => simp [planAll, hpl] at hp
    | some d =>
      cases hr : planAll c s r with
      | none => simp [planAll, hpl, hr] at hp
      | some ds' =>
        simp [planAll, hpl, hr] at hp
        subst hp
        simp only [applyAll, List.all_cons, Bool.and_eq_true, Bool.not_eq_eq_eq_not, Bool.not_true] at h
        obtain ⟨hu, hrest⟩ := h
        obtain ⟨ih1, ih2⟩ := ih hr hrest b
        have hfst : (compareAndUpdate d o).1 = o := by
          rcases compareAndUpdate_cases d o with ⟨_, h2⟩ | h2
          · rw [h2]
          · rw [h2] at hu; simp at hu
        simp [applyLoop, applyAll, hu, ih1, ih2, hfst, refOf]

theorem refOf_injective : ∀ {l l' : List PRef}, l.map refOf = l'.map refOf → l = l' := by
  intro l
  induction l with
  | nil => intro l' h; cases l' <;> simp_all
  | cons p r ih =>
    intro l' h
    cases l' with
    | nil => simp at h
    | cons p' r' =>
      simp only [List.map_cons, List.cons.injEq] at h
      obtain ⟨h1, h2⟩ := h
      have : p = p' := by
        obtain ⟨f, o⟩ := p; obtain ⟨f', o'⟩ := p'
        simp only [refOf, Ref.mk.injEq, Option.some.injEq] at h1
        rw [h1.1, h1.2]
      rw [this, ih h2]

/-- a call that changes nothing and reports `done` issues no `Update` at all: it succeeds even when the
    API server refuses every write. -/
theorem ensureRoutesF_fix {c : Codec} {s : Strategy} {st : List Ref}
    (h : ensureRoutes c s st = (st, .ok true)) (b : Option Nat) : ensureRoutesF c b s st = (st, .ok true) := by
  rw [ensureRoutes_unfold] at h
  unfold ensureRoutesF
  cases hg : getAll st with
  | none => simp [hg] at h
  | some l =>
    have hst := getAll_some hg
    rw [mkRef_eq_refOf] at hst
    simp only [hg] at h ⊢
    cases hp : planAll c s (storedOf c l) with
    | none => simp [hp] at h
    | some ds =>
      simp only [hp, Prod.mk.injEq, Res.ok.injEq] at h
      obtain ⟨h1, h2⟩ := h
      have ⟨_, ha2⟩ := applyLoop_fix c s hp h2 none
      have hsto : storedOf c l = l := refOf_injective (by rw [← ha2, h1, hst])
      rw [hsto] at hp
      have ⟨ha1, _⟩ := applyLoop_fix c s hp (by rw [← hsto]; exact h2) b
      simp [storeLoop_fix hsto b, hp, ha1, hst]
/-! ## statelessness from the invariant -/

theorem stateless_of_HRel {c : Codec} (s : Strategy) {l0 l : List PRef}
    (h : All2 (HRel c) l0 l) (hok : ∀ p, p ∈ l → (planOf c s p).isSome = true) :
    ∃ ds, freshAll s l0 = some ds ∧
      statelessOK c (l0.map (·.2)) ds (l.map fun p => (mkRef (stepOne c s true p).1).obj) = true := by
  unfold statelessOK
  induction h with
  | nil => exact ⟨[], rfl, rfl⟩
  | @cons p0 p r0 r hab _ ih =>
    obtain ⟨ds, hds, hall⟩ := ih fun q hq => hok q (by simp [hq])
    obtain ⟨f0, o0⟩ := p0
    obtain ⟨f, x⟩ := p
    have ht : Tracked c o0 (storeIfAbsent c x) := store_tracked_of_St hab.1 hab.2.2
    have hc : c.LawfulOn (dataOf o0) := hab.1.2
    have hf : f = f0 := hab.2.1
    subst hf
    have hp := hok (f, x) (by simp)
    simp only [planOf] at hp
    rw [plan_of_tracked hc s f ht] at hp
    cases f with
    | none => simp at hp
    | some g =>
      cases hg : g (dataOf o0) s with
      | none => simp [hg] at hp
      | some d =>
        refine ⟨d :: ds, by simp [freshAll, hg, hds], ?_⟩
        have hplan : plan c s (some g) (storeIfAbsent c x) = some d := by
          rw [plan_of_tracked hc s (some g) ht]; exact hg
        have heqv := compareAndUpdate_eqv d (storeIfAbsent c x)
        rw [origOf_of_tracked ht] at heqv
        simp only [List.map_cons, all3, stepOne, if_true, hplan, mkRef, heqv, Bool.true_and]
        exact hall

/-- a successful (unfaulted) EnsureRoutes on refs satisfying the invariant. -/
theorem ensureRoutes_stateless {c : Codec} (s : Strategy) {us : List PRef} {st : List Ref}
    (h : All2 (HInv c) us st) (hok : (ensureRoutes c s st).2 ≠ .err) :
    ∃ ds, freshAll s us = some ds ∧
      statelessOK c (us.map (·.2)) ds ((ensureRoutes c s st).1.map (·.obj)) = true := by
  cases hg : getAll st with
  | none => simp [ensureRoutes, hg] at hok
  | some l =>
    have hst := getAll_some hg
    subst hst
    have hrel := HRel_of_HInv_present (by rw [← mkRef_eq_refOf]; exact h)
    rw [ensureRoutes_present] at hok ⊢
    cases hflag : allPlanOK c s l with
    | false => simp [hflag] at hok
    | true =>
      have hall : ∀ p, p ∈ l → (planOf c s p).isSome = true := by
        simpa [allPlanOK, List.all_eq_true] using hflag
      obtain ⟨ds, hds, h3⟩ := stateless_of_HRel s hrel hall
      exact ⟨ds, hds, by simpa [List.map_map, Function.comp_def] using h3⟩

/-! ## `Finalise` under a budget -/

/-- one ref through the unfaulted Finalise. -/
def finOne (c : Codec) (r : Ref) : Ref × Bool :=
  match r.obj with
  | none => (r, false)
  | some o => (({ r with obj := some (restoreObject c o).1 } : Ref), (restoreObject c o).2)

theorem finalise_eq (c : Codec) (st : List Ref) :
    finalise c st = ((st.map (finOne c)).map (·.1), .ok ((st.map (finOne c)).any (·.2))) := by
  unfold finalise finOne
  rfl

/-- a Finalise loop in which no `Update` failed did what the unfaulted loop does. -/
theorem finaliseLoop_nofail {c : Codec} {b : Option Nat} {st : List Ref}
    (h : (finaliseLoop c b st).2.2 = false) :
    (finaliseLoop c b st).1 = (st.map (finOne c)).map (·.1)
    ∧ (finaliseLoop c b st).2.1 = (st.map (finOne c)).any (·.2) := by
  induction st generalizing b with
  | nil => exact ⟨rfl, rfl⟩
  | cons r rs ih =>
    unfold finaliseLoop at h ⊢
    cases ho : r.obj with
    | none =>
      simp only [ho] at h ⊢
      obtain ⟨h1, h2⟩ := ih h
      simp [finOne, ho, h1, h2]
    | some o =>
      simp only [ho] at h ⊢
      cases hw : (restoreObject c o).2 with
      | false =>
        simp only [hw, Bool.false_eq_true, if_false] at h ⊢
        obtain ⟨h1, h2⟩ := ih h
        simp [finOne, ho, hw, h1, h2]
      | true =>
        simp only [hw, if_true] at h ⊢
        cases hb : spend b with
        | none => simp [hb] at h
        | some b1 =>
          simp only [hb] at h ⊢
          obtain ⟨h1, h2⟩ := ih h
          simp [finOne, ho, hw, h1]

theorem spend_none : spend none = some none := rfl

theorem finaliseLoop_none_nofail (c : Codec) (st : List Ref) : (finaliseLoop c none st).2.2 = false := by
  induction st with
  | nil => rfl
  | cons r rs ih =>
    unfold finaliseLoop
    cases r.obj with
    | none => simpa using ih
    | some o =>
      simp only [spend_none]
      split <;> simpa using ih

/-- without a fault `finaliseF` is `finalise`. -/
theorem finaliseF_none (c : Codec) (st : List Ref) : finaliseF c none st = finalise c st := by
  have h := finaliseLoop_none_nofail c st
  obtain ⟨h1, h2⟩ := finaliseLoop_nofail h
  simp [finaliseF, finalise_eq, h, h1, h2]

/-- a Finalise that succeeds under a budget did what the unfaulted Finalise does. -/
theorem finaliseF_ok {c : Codec} {b : Option Nat} {st : List Ref} (h : (finaliseF c b st).2 ≠ .err) :
    finaliseF c b st = finalise c st := by
  have hf : (finaliseLoop c b st).2.2 = false := by
    cases hh : (finaliseLoop c b st).2.2 with
    | false => rfl
    | true => simp [finaliseF, hh] at h
  obtain ⟨h1, h2⟩ := finaliseLoop_nofail hf
  simp [finaliseF, finalise_eq, hf, h1, h2]

/-- whatever happens in Finalise, every ref is either untouched or restored. -/
theorem finaliseLoop_rel (c : Codec) (b : Option Nat) (st : List Ref) :
    All2 (fun r r' => r' = r ∨ r' = (finOne c r).1) st (finaliseLoop c b st).1 := by
  induction st generalizing b with
  | nil => exact .nil
  | cons r rs ih =>
    unfold finaliseLoop
    cases ho : r.obj with
    | none => exact .cons (.inl rfl) (ih b)
    | some o =>
      simp only []
      split
      · cases spend b with
        | none => exact .cons (.inl rfl) (ih b)
        | some b1 => exact .cons (.inr (by simp [finOne, ho])) (ih b1)
      · exact .cons (.inr (by simp [finOne, ho])) (ih b)

theorem finOne_inv {c : Codec} {p0 : PRef} {r : Ref} (h : HInv c p0 r) : HInv c p0 (finOne c r).1 := by
  refine ⟨h.1, ?_, ?_⟩
  · unfold finOne; cases r.obj <;> exact h.2.1
  · intro x hx
    unfold finOne at hx
    cases ho : r.obj with
    | none => rw [ho] at hx; exact h.2.2 x hx
    | some o =>
      rw [ho] at hx
      have : (restoreObject c o).1 = x := by simpa using hx
      rw [← this]
      exact St_restore h.1 (h.2.2 o ho)

theorem finaliseF_inv {c : Codec} (b : Option Nat) {us : List PRef} {st : List Ref}
    (h : All2 (HInv c) us st) : All2 (HInv c) us (finaliseF c b st).1 :=
  h.comp (finaliseLoop_rel c b st) fun _ _ _ hab hbc => by
    rcases hbc with e | e
    · rw [e]; exact hab
    · rw [e]; exact finOne_inv hab

/-- the unfaulted Finalise on refs satisfying the invariant: the restore oracle, and the `modified` flag. -/
theorem finalise_restores_of_inv {c : Codec} {us : List PRef} {st : List Ref} (h : All2 (HInv c) us st) :
    histRestoreOK (us.map (·.2)) (st.map (·.obj)) ((finalise c st).1.map (·.obj)) = true
    ∧ (finalise c st).2 = .ok (anyAnnotated (st.map (·.obj))) := by
  rw [finalise_eq]
  simp only [histRestoreOK, anyAnnotated]
  induction h with
  | nil => exact ⟨rfl, rfl⟩
  | @cons p0 r us' st' hab _ ih =>
    obtain ⟨ih1, ih2⟩ := ih
    simp only [Res.ok.injEq] at ih2
    cases ho : r.obj with
    | none =>
      simp only [List.map_cons, all3, finOne, ho, histRestore1, Bool.true_and, List.any_cons,
        Bool.false_or, Res.ok.injEq]
      exact ⟨ih1, ih2⟩
    | some x =>
      rcases restore_of_St hab.1 (hab.2.2 x ho) with ⟨hn, hr, hx⟩ | ⟨hn, hr⟩
      · have hxu : (decide (x = p0.2) || decide (x = normalise p0.2)) = true := by
          rcases hx with e | e <;> simp [← e]
        simp only [List.map_cons, all3, finOne, ho, hr, histRestore1, hn, if_true, decide_true,
          Bool.true_and, hxu, List.any_cons, Bool.not_true, Bool.false_or, Res.ok.injEq]
        exact ⟨ih1, ih2⟩
      · have hnn : noOrig (normalise p0.2) = true := noOrig_normalise hab.1.1
        simp only [List.map_cons, all3, finOne, ho, hr, histRestore1, hn, Bool.false_eq_true, if_false,
          decide_true, Bool.or_true, Bool.true_and, hnn, List.any_cons, Bool.not_false, Bool.true_or,
          and_true]
        exact ih1

/-! ## the invariant as the oracle `origKeptOK` -/

theorem origKept1_of_HInv {c : Codec} {p0 : PRef} {r : Ref} (h : HInv c p0 r) :
    origKept1 c p0.2 r.obj = true := by
  unfold origKept1
  cases ho : r.obj with
  | none => rfl
  | some x =>
    simp only []
    rcases h.2.2 x ho with e | e | e
    · have hl : lookup origKey (x.annotations.getD []) = none := by
        have := h.1.1; rw [← e] at this
        simpa [noOrig, Option.isNone_iff_eq_none] using this
      simp only [hl]; simp [e]
    · have hl : lookup origKey (x.annotations.getD []) = none := by
        have := noOrig_normalise h.1.1; rw [← e] at this
        simpa [noOrig, Option.isNone_iff_eq_none] using this
      simp only [hl]; simp [e]
    · unfold Tracked at e
      simp [e]

theorem origKeptOK_of_inv {c : Codec} {us : List PRef} {st : List Ref} (h : All2 (HInv c) us st) :
    origKeptOK c (us.map (·.2)) (st.map (·.obj)) = true := by
  unfold origKeptOK
  induction h with
  | nil => rfl
  | cons hab _ ih => simp [all2, origKept1_of_HInv hab, ih]

end RV.Custom
