/-
  Shared vocabulary of the traffic lemmas of the closed loop: the traffic invariant `trInv` taken apart
  (`trInv = fwdInv ∧ trRest`), and the phase-wise readings of `trRest`.
-/
import RV.Oracle.ClosedLoopTraffic
import RV.Lemmas.ClosedLoopStepRo
import RV.Lemmas.ClosedLoopStepBr
import RV.Lemmas.ClosedLoopLabels
namespace RV.Lemmas.ClosedLoopTraffic
open RV.Arith RV.Traffic RV.RolloutSM RV.ClosedLoop RV.Oracle.ClosedLoop RV.Oracle.ClosedLoopTraffic RV.Lemmas.ClosedLoop

/-- the traffic part of `trInv` (everything but `fwdInv`) -/
def trRest (s : CS) : Bool :=
  match s.wl with
  | some w => decide (0 < w.replicas) && trPhase s w
  | none => false

theorem trInv_iff (s : CS) : trInv s = true ↔ fwdInv s = true ∧ trRest s = true := by
  unfold trInv trRest
  rw [Bool.and_eq_true]
  exact Iff.rfl

theorem trRest_some (s : CS) (w : CWl) (hw : s.wl = some w) :
    trRest s = true ↔ 0 < w.replicas ∧ trPhase s w = true := by
  unfold trRest
  rw [hw]
  simp only [Bool.and_eq_true, decide_eq_true_eq]

/-- the invariant in parts: what `fwd_parts` gives, the workload has at least one replica, and the phase-dependent traffic part -/
theorem tr_parts (s : CS) (h : trInv s = true) :
    fwdInv s = true ∧ s.gone = false ∧ RoGood s.ro ∧ ∃ w, s.wl = some w ∧ wlOK w = true ∧
      planMono w.replicas (planOf s.ro) = true ∧ brOKo s.br = true ∧ phaseInv s w = true ∧ 0 < w.replicas ∧ trPhase s w = true := by
  obtain ⟨hf, hr⟩ := (trInv_iff s).1 h
  obtain ⟨hgone, hg, w, hw, hwok, hm, hbr, hpi⟩ := fwd_parts s hf
  obtain ⟨hR, htp⟩ := (trRest_some s w hw).1 hr
  exact ⟨hf, hgone, hg, w, hw, hwok, hm, hbr, hpi, hR, htp⟩

/-! ### `trPhase` by phase -/

theorem trPhase_healthy (s : CS) (w : CWl) (h : s.ro.phase = .healthy) :
    trPhase s w = (netClean s.net && (if w.inProgressAnno then pendingWl w else released w)) := by
  unfold trPhase; rw [h]

theorem trPhase_init (s : CS) (w : CWl) (hp : s.ro.phase = .progressing) (hr : s.ro.reason = .initializing) :
    trPhase s w = (netClean s.net && pendingWl w) := by
  unfold trPhase; rw [hp, hr]

theorem trPhase_rolling (s : CS) (w : CWl) (sub : Sub) (hp : s.ro.phase = .progressing) (hr : s.ro.reason = .inRolling)
    (hs : s.ro.sub = some sub) :
    trPhase s w = (netCore s sub w true && brSome s sub && firstPin s sub w && trState s sub w) := by
  unfold trPhase; rw [hp, hr]; dsimp only; rw [hs]

theorem trPhase_fin (s : CS) (w : CWl) (sub : Sub) (hp : s.ro.phase = .progressing) (hr : s.ro.reason = .finalising)
    (hs : s.ro.sub = some sub) :
    trPhase s w = (netCore s sub w false && finBr s sub w && sub.canaryRev == w.updateRevision &&
      decide (sub.curIdx ≤ s.ro.steps.length)) := by
  unfold trPhase; rw [hp, hr]; dsimp only; rw [hs]

theorem trPhase_completed (s : CS) (w : CWl) (hp : s.ro.phase = .progressing) (hr : s.ro.reason = .completed) :
    trPhase s w = (netClean s.net && released w) := by
  unfold trPhase; rw [hp, hr]

/-- `trPhase` reads the state through rollout, BatchRelease and network only -/
theorem trPhase_ext (s s' : CS) (w : CWl) (h1 : s'.ro = s.ro) (h2 : s'.br = s.br) (h3 : s'.net = s.net) :
    trPhase s' w = trPhase s w := by
  unfold trPhase netCore pinOK svcOK ingOK baseOK brSome firstPin trState finBr effIdx
  rw [h1, h2, h3]

theorem netClean_iff (n : Net) : netClean n = true ↔ n.canaryIng = none ∧ n.canarySvc = none ∧ n.stableSel = none := by
  unfold netClean
  simp only [Bool.and_eq_true, Option.isNone_iff_eq_none, and_assoc]

theorem released_iff (w : CWl) : released w = true ↔ w.partition = none ∧ w.paused = false ∧ w.owner = .none := by
  unfold released
  simp only [Bool.and_eq_true, Option.isNone_iff_eq_none, Bool.not_eq_true', beq_iff_eq, and_assoc]

end RV.Lemmas.ClosedLoopTraffic
