/-
  Helper lemmas for `RV.Props.DepCtl` (the advanced Deployment controller around `syncDeployment`).
-/
import RV.Model.DepCtl
import RV.Oracle.DepCtl
import RV.Lemmas.DepSync
namespace RV.Lemmas.DepCtl
open RV.Arith RV.DepSync RV.DepCtl RV.Oracle.DepCtl RV.Oracle.C17

/-! ### the branches of `reconcile` -/

theorem reconcile_getErr (w : World) (h : w.fault.getD = true) :
    reconcile w = quiet w .getErr .err [.get] true := by
  simp [reconcile, h]

theorem reconcile_notFound (w : World) (h1 : w.fault.getD = false) (h2 : w.present = false) :
    reconcile w = quiet w .notFound .ok [] false := by
  simp [reconcile, h1, h2]

theorem reconcile_ignored (w : World) (h1 : w.fault.getD = false) (h2 : w.present = true)
    (h3 : newController w = false) : reconcile w = quiet w .ignored .ok [] false := by
  simp [reconcile, h1, h2, h3]

theorem reconcile_hookErr (w : World) (h1 : w.fault.getD = false) (h2 : w.present = true)
    (h3 : newController w = true) (h4 : w.fault.getW = true) :
    reconcile w = quiet w .hookErr .err [.hook] true := by
  simp [reconcile, h1, h2, h3, h4]

theorem reconcile_protect (w : World) (h1 : w.fault.getD = false) (h2 : w.present = true)
    (h3 : newController w = true) (h4 : w.fault.getW = false) (h5 : w.hook ≠ .present) :
    reconcile w = protectOut w := by
  simp [reconcile, h1, h2, h3, h4, h5]

theorem reconcile_normal (w : World) (h1 : w.fault.getD = false) (h2 : w.present = true)
    (h3 : newController w = true) (h4 : w.fault.getW = false) (h5 : w.hook = .present) :
    reconcile w = normalOut w := by
  simp [reconcile, h1, h2, h3, h4, h5]

theorem normalW_elim (w : World) (h : normalW w = true) :
    w.fault.getD = false ∧ w.present = true ∧ newController w = true ∧ w.fault.getW = false ∧ w.hook = .present := by
  simp only [normalW, reachesHook, reachesGate, Bool.and_eq_true, Bool.not_eq_true', beq_iff_eq] at h
  obtain ⟨⟨⟨⟨a, b⟩, c⟩, d⟩, e⟩ := h
  exact ⟨a, b, c, d, e⟩

theorem protectionW_elim (w : World) (h : protectionW w = true) :
    w.fault.getD = false ∧ w.present = true ∧ newController w = true ∧ w.fault.getW = false ∧ w.hook ≠ .present := by
  simp only [protectionW, reachesHook, reachesGate, Bool.and_eq_true, Bool.not_eq_true', bne_iff_ne] at h
  obtain ⟨⟨⟨⟨a, b⟩, c⟩, d⟩, e⟩ := h
  exact ⟨a, b, c, d, e⟩

theorem reconcile_of_normalW (w : World) (h : normalW w = true) : reconcile w = normalOut w := by
  obtain ⟨a, b, c, d, e⟩ := normalW_elim w h
  exact reconcile_normal w a b c d e

theorem reconcile_of_protectionW (w : World) (h : protectionW w = true) : reconcile w = protectOut w := by
  obtain ⟨a, b, c, d, e⟩ := protectionW_elim w h
  exact reconcile_protect w a b c d e

/-- `NewController` succeeds exactly for a paused `Recreate` Deployment that carries the control-info and a
    parsable strategy annotation whose rolling style is not `Canary` -/
theorem newController_iff (w : World) :
    newController w = true ↔
      w.ctrl = true ∧ w.stype = .recreate ∧ w.specPaused = true ∧ w.anno = .ok ∧ w.style ≠ .canary := by
  unfold newController underControl
  cases w.ctrl <;> cases w.stype <;> cases w.specPaused <;> cases w.anno <;> cases w.style <;> simp

/-! ### the write log of the sync part consists of size writes only -/

theorem syncF_calls_scale (s : State) (k : Option Nat) : ∀ c ∈ (syncF s k).calls, c.isScale = true := by
  intro c hc
  unfold syncF at hc
  cases k with
  | none =>
    simp only [List.mem_map] at hc
    obtain ⟨wr, _, rfl⟩ := hc; rfl
  | some k =>
    simp only at hc
    split at hc
    · simp only [List.mem_map] at hc
      obtain ⟨wr, _, rfl⟩ := hc; rfl
    · simp only [List.mem_append, List.mem_map, List.mem_singleton] at hc
      rcases hc with ⟨wr, _, rfl⟩ | rfl <;> rfl

theorem syncPart_calls_scale (w : World) : ∀ c ∈ (syncPart w).calls, c.isScale = true := by
  unfold syncPart
  cases w.sel with
  | bad => simp
  | all => simp
  | normal => exact syncF_calls_scale _ _

theorem filter_none {α} (p : α → Bool) (l : List α) (h : ∀ c ∈ l, p c = false) : l.filter p = [] := by
  induction l with
  | nil => rfl
  | cons a t ih =>
    simp only [List.filter, h a (by simp)]
    exact ih (fun c hc => h c (by simp [hc]))

theorem filter_all {α} (p : α → Bool) (l : List α) (h : ∀ c ∈ l, p c = true) : l.filter p = l := by
  induction l with
  | nil => rfl
  | cons a t ih =>
    simp only [List.filter, h a (by simp)]
    rw [ih (fun c hc => h c (by simp [hc]))]

theorem isExtra_of_isScale (c : Call) (h : c.isScale = true) : c.isExtra = false := by
  cases c <;> simp_all [Call.isScale, Call.isExtra]

theorem isProtect_of_isScale (c : Call) (h : c.isScale = true) : c.isProtect = false := by
  cases c <;> simp_all [Call.isScale, Call.isProtect]

theorem syncPart_filter_extra (w : World) : (syncPart w).calls.filter (·.isExtra) = [] :=
  filter_none _ _ fun c hc => isExtra_of_isScale c (syncPart_calls_scale w c hc)

theorem syncPart_filter_scale (w : World) : (syncPart w).calls.filter (·.isScale) = (syncPart w).calls :=
  filter_all _ _ (syncPart_calls_scale w)

/-- the extra-status calls of the normal path -/
theorem normalOut_extraCalls (w : World) :
    (normalOut w).calls.filter (·.isExtra) = if needPatch w then [.extra (wantExtra w) (!w.fault.extra)] else [] := by
  simp only [normalOut, List.filter_append, syncPart_filter_extra, List.nil_append]
  split <;> simp [List.filter, Call.isExtra]

theorem normalOut_scaleCalls (w : World) : (normalOut w).calls.filter (·.isScale) = (syncPart w).calls := by
  simp only [normalOut, List.filter_append, syncPart_filter_scale]
  split <;> simp [List.filter, Call.isScale]

theorem normalOut_res (w : World) :
    (normalOut w).res = if !(normalOut w).errs.isEmpty then .err else if satisfied w then .ok else .requeue := rfl

theorem normalOut_errs (w : World) :
    (normalOut w).errs = (if (syncPart w).err then [ErrKind.sync] else []) ++
      (if w.sel == .bad || (needPatch w && w.fault.extra) then [ErrKind.extra] else []) := rfl

/-! ### `syncF`: either no fault is hit, or the error is returned unless it is dropped -/

theorem syncF_cases (s : State) (k : Option Nat) :
    ((syncF s k).fired = false ∧ (syncF s k).swallowed = false ∧ (∀ c ∈ (syncF s k).calls, c.failed = false) ∧
      (syncF s k).calls = (sync s).writes.map (fun wr => Call.scale wr.idx wr.to true) ∧
      (syncF s k).new = (sync s).new ∧ (syncF s k).err = (sync s).err) ∨
    ((syncF s k).fired = true ∧ (syncF s k).err = !(syncF s k).swallowed) := by
  unfold syncF
  cases k with
  | none =>
    left
    refine ⟨rfl, rfl, ?_, rfl, rfl, rfl⟩
    intro c hc; simp only [List.mem_map] at hc; obtain ⟨wr, _, rfl⟩ := hc; rfl
  | some k =>
    simp only
    split
    · left
      refine ⟨rfl, rfl, ?_, rfl, rfl, rfl⟩
      intro c hc; simp only [List.mem_map] at hc; obtain ⟨wr, _, rfl⟩ := hc; rfl
    · right; exact ⟨rfl, rfl⟩

theorem syncPart_cases (w : World) :
    ((syncPart w).fired = false ∧ (syncPart w).swallowed = false ∧ (∀ c ∈ (syncPart w).calls, c.failed = false)) ∨
    ((syncPart w).fired = true ∧ (syncPart w).err = !(syncPart w).swallowed ∧ w.sel = .normal) := by
  unfold syncPart
  cases hs : w.sel with
  | bad => left; simp
  | all => left; simp
  | normal =>
    rcases syncF_cases w.s w.fault.scaleAt with ⟨a, b, c, _⟩ | ⟨a, b⟩
    · left; exact ⟨a, b, c⟩
    · right; exact ⟨a, b, rfl⟩

/-! ### the paused path: sizes that add up are left alone -/

theorem le_sumSpec_of_mem {l : List RS} (h : ∀ r ∈ l, 0 ≤ r.spec) {r : RS} (hr : r ∈ l) : r.spec ≤ sumSpec l := by
  induction l with
  | nil => cases hr
  | cons a t ih =>
    have ht : ∀ x ∈ t, 0 ≤ x.spec := fun x hx => h x (by simp [hx])
    have hnn : 0 ≤ sumSpec t := sumBy_nonneg _ _ ht
    simp only [sumSpec, sumBy_cons] at *
    rcases List.mem_cons.mp hr with rfl | hr'
    · omega
    · have := ih ht hr'; have := h a (by simp); omega

theorem active_nil_of_sum_zero {l : List RS} (h : ∀ r ∈ l, 0 ≤ r.spec) (h0 : sumSpec l = 0) : active l = [] := by
  unfold active
  apply filter_none
  intro r hr
  have := le_sumSpec_of_mem h hr
  have := h r hr
  simp only [decide_eq_false_iff_not]; omega

theorem optSpec_getNewRS_false (s : State) : optSpec (getNewRS s false).1 = optSpec s.new := by
  unfold getNewRS
  cases s.new <;> simp [optSpec]

theorem getNewRS_false_nonneg (s : State) (h : ∀ r, s.new = some r → 0 ≤ r.spec) :
    ∀ r, (getNewRS s false).1 = some r → 0 ≤ r.spec := by
  unfold getNewRS
  cases hn : s.new with
  | none => simp
  | some x =>
    intro r hr
    simp only [Option.some.injEq] at hr
    subst hr
    exact h x hn

theorem toList_nonneg {nw : Option RS} (h : ∀ r, nw = some r → 0 ≤ r.spec) : ∀ r ∈ nw.toList, 0 ≤ r.spec := by
  intro r hr
  cases nw with
  | none => cases hr
  | some x => simp only [Option.toList_some, List.mem_singleton] at hr; subst hr; exact h _ rfl

theorem sumSpec_toList (nw : Option RS) : sumSpec nw.toList = optSpec nw := by
  cases nw <;> simp [sumSpec, optSpec]

/-- the active ReplicaSets `FindActiveOrLatest` / `scale` look at add up to the total -/
theorem sumSpec_activeAll (nw : Option RS) (olds : List RS) (ho : ∀ r ∈ olds, 0 ≤ r.spec)
    (hn : ∀ r, nw = some r → 0 ≤ r.spec) :
    sumSpec (active (sortBy byCreationDesc olds ++ nw.toList)) = sumSpec olds + optSpec nw := by
  rw [sumSpec_active]
  · simp only [sumSpec, sumBy_append, sumBy_sortBy]
    have := sumSpec_toList nw
    simp only [sumSpec] at this
    rw [this]
  · intro r hr
    rcases List.mem_append.mp hr with h | h
    · exact ho r (mem_sortBy.mp h)
    · exact toList_nonneg hn r h

theorem findActiveOrLatest_spec (nw : Option RS) (olds : List RS) (ho : ∀ r ∈ olds, 0 ≤ r.spec)
    (hn : ∀ r, nw = some r → 0 ≤ r.spec) (r : RS) (h : findActiveOrLatest nw olds = some r) :
    r.spec = sumSpec olds + optSpec nw := by
  have hsum := sumSpec_activeAll nw olds ho hn
  unfold findActiveOrLatest at h
  split at h
  · cases h
  · simp only at h
    split at h
    · rename_i hA
      rw [hA] at hsum
      have h0 : sumSpec ([] : List RS) = 0 := rfl
      rw [h0] at hsum
      have hnn : 0 ≤ sumSpec olds := sumBy_nonneg _ _ ho
      cases nw with
      | some x =>
        simp only [Option.some.injEq] at h; subst h
        have := hn _ rfl
        simp only [optSpec] at *; omega
      | none =>
        simp only [optSpec] at *
        have hr : r ∈ sortBy byCreationDesc olds := List.mem_of_mem_head? h
        have hr' := mem_sortBy.mp hr
        have h1 := le_sumSpec_of_mem ho hr'
        have h2 := ho r hr'
        omega
    · rename_i x hA
      rw [hA] at hsum
      simp only [Option.some.injEq] at h; subst h
      have h1 : sumSpec [x] = x.spec := by simp [sumSpec]
      omega
    · cases h

theorem proportionLoop_zero (s : State) : ∀ (l : List RS) (a : Int),
    proportionLoop s 0 l a = some (l.map (fun r => (r, r.spec)), a) := by
  intro l
  induction l with
  | nil => intro a; rfl
  | cons r t ih => intro a; simp [proportionLoop, ih]

theorem updateLoop_same (s : State) : ∀ (l : List RS), (updateLoop s (l.map (fun r => (r, r.spec)))).2 = [] := by
  intro l
  induction l with
  | nil => rfl
  | cons r t ih =>
    simp only [List.map, updateLoop]
    have : (scaleReplicaSet s r r.spec).2 = [] := by
      unfold scaleReplicaSet
      simp only [bne_self_eq_false, Bool.false_or, Bool.false_eq_true, if_false]
      split <;> rfl
    rw [this, ih]; rfl

theorem distribute_zero (s : State) (nw : Option RS) (cOlds : List RS) (l : List RS) :
    (distribute s nw cOlds [] 0 l).writes = [] := by
  unfold distribute
  simp only [Int.lt_irrefl, if_false, proportionLoop_zero]
  have h := updateLoop_same s l
  cases l with
  | nil => simp [updateLoop]
  | cons r t =>
    simp only [List.map, bne_self_eq_false, Bool.false_eq_true, if_false, List.nil_append]
    simpa using h

theorem scaleAllTo_nil (s : State) (n : Int) : (scaleAllTo s n []).2 = [] := rfl

/-- **`scale` leaves sizes alone when they add up to `spec.replicas`** -/
theorem scale_quiet (s : State) (nw : Option RS) (olds : List RS) (hR : 0 ≤ s.replicas)
    (ho : ∀ r ∈ olds, 0 ≤ r.spec) (hn : ∀ r, nw = some r → 0 ≤ r.spec)
    (ht : sumSpec olds + optSpec nw = s.replicas) : (scale s nw olds).writes = [] := by
  unfold scale
  split
  · rename_i r hf
    have := findActiveOrLatest_spec nw olds ho hn r hf
    have hr : (r.spec == s.replicas) = true := by simp only [beq_iff_eq]; omega
    simp [hr]
  · by_cases hsat : isSaturated s nw = true
    · simp only [hsat, if_true]
      have hz : sumSpec olds = 0 := by
        unfold isSaturated at hsat
        cases nw with
        | none => simp at hsat
        | some r =>
          simp only at hsat
          cases hd : r.desired with
          | none => simp [hd] at hsat
          | some d =>
            simp only [hd, Bool.and_eq_true, beq_iff_eq] at hsat
            simp only [optSpec] at ht; omega
      have hz' : sumSpec (sortBy byCreationDesc olds) = 0 := by
        simp only [sumSpec, sumBy_sortBy]; exact hz
      have : active (sortBy byCreationDesc olds) = [] :=
        active_nil_of_sum_zero (fun r hr => ho r (mem_sortBy.mp hr)) hz'
      rw [this]; rfl
    · simp only [hsat, Bool.false_eq_true, if_false]
      unfold scaleProportional
      have hsum := sumSpec_activeAll nw olds ho hn
      simp only [hsum, ht]
      have : (if s.replicas > 0 then s.replicas else 0) - s.replicas = 0 := by split <;> omega
      simp only [this, Int.lt_irrefl, if_false]
      exact distribute_zero s nw olds _

theorem syncScale_quiet (s : State) (hi : invCore s = true) (ht : totalSpec s = s.replicas) :
    (syncScale s).writes = [] := by
  simp only [invCore, Bool.and_eq_true, decide_eq_true_eq, List.all_eq_true, Option.all_eq_true_iff_get] at hi
  obtain ⟨⟨⟨⟨hR, _⟩, _⟩, ho⟩, hn⟩ := hi
  have ho' : ∀ r ∈ s.olds, 0 ≤ r.spec := fun r hr => ((rsOk_iff r).mp (ho r hr)).1
  have hn' : ∀ r, s.new = some r → 0 ≤ r.spec := by
    intro r hr
    have := hn (by simp [hr])
    simp only [hr, Option.get_some] at this
    exact ((rsOk_iff r).mp this).1
  unfold syncScale
  simp only
  apply scale_quiet s _ s.olds hR ho' (getNewRS_false_nonneg s hn')
  rw [optSpec_getNewRS_false]; exact ht

/-! ### the paused path never creates a ReplicaSet -/

def NotNew (r : RS) : Prop := r.idx ≠ -1

theorem NotNew_stable (s : State) : WriteStable s NotNew := by
  intro r n h; exact h

theorem splitNew_fst_idx (l : List RS) : ∀ r, (splitNew l).1 = some r → r.idx = -1 := by
  induction l with
  | nil => intro r h; simp [splitNew] at h
  | cons x t ih =>
    intro r h
    simp only [splitNew] at h
    split at h
    · rename_i hx
      simp only [Option.some.injEq] at h; subst h
      simpa using hx
    · exact ih r h

theorem proportionLoop_mem (s : State) (toAdd : Int) : ∀ (l : List RS) (a : Int) (plan : List (RS × Int)) (a' : Int),
    proportionLoop s toAdd l a = some (plan, a') → ∀ p ∈ plan, p.1 ∈ l := by
  intro l
  induction l with
  | nil =>
    intro a plan a' h p hp
    simp only [proportionLoop, Option.some.injEq, Prod.mk.injEq] at h
    rw [← h.1] at hp; cases hp
  | cons r t ih =>
    intro a plan a' h p hp
    simp only [proportionLoop] at h
    split at h
    · split at h
      · cases h
      · split at h
        · cases h
        · rename_i l' a'' hrec
          simp only [Option.some.injEq, Prod.mk.injEq] at h
          rw [← h.1] at hp
          rcases List.mem_cons.mp hp with e | e
          · rw [e]; simp
          · have := ih _ _ _ hrec p e; simp [this]
    · split at h
      · cases h
      · rename_i l' a'' hrec
        simp only [Option.some.injEq, Prod.mk.injEq] at h
        rw [← h.1] at hp
        rcases List.mem_cons.mp hp with e | e
        · rw [e]; simp
        · have := ih _ _ _ hrec p e; simp [this]

theorem updateLoop_all (s : State) (P : RS → Prop) (hP : WriteStable s P) :
    ∀ (plan : List (RS × Int)), (∀ p ∈ plan, P p.1) → ∀ r ∈ (updateLoop s plan).1, P r := by
  intro plan
  induction plan with
  | nil => intro _ r hr; simp [updateLoop] at hr
  | cons p rest ih =>
    intro h r hr
    obtain ⟨x, n⟩ := p
    simp only [updateLoop, List.mem_cons] at hr
    rcases hr with e | e
    · rw [e]; exact scaleReplicaSet_stable hP x n (h (x, n) (by simp))
    · exact ih (fun q hq => h q (by simp [hq])) r e

theorem distribute_new_none (s : State) (cOlds : List RS) (cW : List Write) (toAdd : Int) (l : List RS)
    (hl : ∀ r ∈ l, NotNew r) : (distribute s none cOlds cW toAdd l).new = none := by
  unfold distribute
  simp only
  split
  · rfl
  · rename_i plan added hpl
    have hsorted : ∀ r ∈ (if toAdd > 0 then sortBy bySizeNewer l else if toAdd < 0 then sortBy bySizeOlder l else l), NotNew r := by
      intro r hr
      split at hr
      · exact hl r (mem_sortBy.mp hr)
      · split at hr
        · exact hl r (mem_sortBy.mp hr)
        · exact hl r hr
    have hplan : ∀ p ∈ plan, NotNew p.1 := fun p hp => hsorted _ (proportionLoop_mem s toAdd _ _ _ _ hpl p hp)
    have hplan' : ∀ p ∈ (match plan with
        | [] => []
        | (r, n) :: rest => if toAdd != 0 then (r, if n + (toAdd - added) < 0 then 0 else n + (toAdd - added)) :: rest
                            else (r, n) :: rest), NotNew p.1 := by
      intro p hp
      cases plan with
      | nil => cases hp
      | cons q rest =>
        obtain ⟨r, n⟩ := q
        simp only at hp
        split at hp
        · rcases List.mem_cons.mp hp with e | e
          · rw [e]; exact hplan (r, n) (by simp)
          · exact hplan p (by simp [e])
        · exact hplan p hp
    have hup := updateLoop_all s NotNew (NotNew_stable s) _ hplan'
    split
    · rename_i x hx
      have h1 := (splitNew_mem _).1 x hx
      have h2 := splitNew_fst_idx _ x hx
      exact absurd h2 (hup x h1)
    · rfl

theorem scaleProportional_new_none (s : State) (olds : List RS) (ho : ∀ r ∈ olds, NotNew r) :
    (scaleProportional s none olds).new = none := by
  unfold scaleProportional
  simp only [Option.toList_none, List.append_nil]
  generalize (if s.replicas > 0 then s.replicas else 0) - sumSpec (active (sortBy byCreationDesc olds)) = toAdd
  by_cases h1 : toAdd < 0
  · simp only [h1, if_true]
    by_cases h2 : (cleanup s olds (-toAdd)).err = true
    · simp only [h2, if_true]
    · simp only [h2, Bool.false_eq_true, if_false]
      apply distribute_new_none
      intro r hr
      exact cleanup_all s NotNew (NotNew_stable s) olds _ ho r (mem_active hr)
  · simp only [h1, if_false]
    apply distribute_new_none
    intro r hr
    exact ho r (mem_sortBy.mp (mem_active hr))

theorem scale_new_none (s : State) (olds : List RS) (ho : ∀ r ∈ olds, NotNew r) :
    (scale s none olds).new = none := by
  unfold scale
  split
  · rename_i r hf
    have hr : r ∈ olds := by
      rcases findActiveOrLatest_mem none olds r hf with h | h
      · exact h
      · cases h
    split
    · rfl
    · have hidx : (scaleAndRecord s r s.replicas).1.idx = r.idx := by
        rcases scaleAndRecord_fst s r s.replicas with e | e <;> rw [e]
      have hne : r.idx ≠ -1 := ho r hr
      have : ((scaleAndRecord s r s.replicas).1.idx == -1) = false := by
        rw [hidx]; simpa using hne
      simp [this]
  · have : isSaturated s none = false := rfl
    simp only [this, Bool.false_eq_true, if_false]
    exact scaleProportional_new_none s olds ho

theorem syncScale_new_none (s : State) (hn : s.new = none) (hi : idxOk s = true) : (syncScale s).new = none := by
  have ho : ∀ r ∈ s.olds, NotNew r := by
    simp only [idxOk, List.all_eq_true, bne_iff_ne] at hi
    exact hi
  unfold syncScale
  have : (getNewRS s false).1 = none := by simp [getNewRS, hn]
  simp only [this]
  exact scale_new_none s s.olds ho

/-! ### `syncF` when the sync has nothing to write; the new ReplicaSet stays -/

theorem syncF_of_nowrites (s : State) (k : Option Nat) (h : (sync s).writes = []) :
    (syncF s k).calls = [] ∧ (syncF s k).new = (sync s).new := by
  unfold syncF
  cases k with
  | none => simp [h]
  | some k => simp [h]

theorem applyWrites_fst_none (s : State) : ∀ (ws : List Write) (olds : List RS),
    (applyWrites s ws (none, olds)).1 = none := by
  intro ws
  induction ws with
  | nil => intro olds; rfl
  | cons wr t ih =>
    intro olds
    simp only [applyWrites, applyWrite]
    split
    · exact ih _
    · exact ih _

theorem applyWrites_fst_isSome (s : State) : ∀ (ws : List Write) (st : Option RS × List RS),
    st.1.isSome = true → (applyWrites s ws st).1.isSome = true := by
  intro ws
  induction ws with
  | nil => intro st h; exact h
  | cons wr t ih =>
    intro st h
    simp only [applyWrites]
    apply ih
    unfold applyWrite
    split
    · simpa using h
    · exact h

theorem sync_paused (s : State) (hd : s.deleting = false) (hp : s.paused = true) : sync s = syncScale s := by
  simp [sync, hd, hp]

theorem pathOf_paused (s : State) (hd : s.deleting = false) (hp : s.paused = true) : pathOf s = .scale := by
  simp [pathOf, hd, hp]

theorem sync_deleting_writes (s : State) (hd : s.deleting = true) : (sync s).writes = [] := by
  simp [sync, hd]

theorem getNewRS_isSome (s : State) (c : Bool) (h : s.new.isSome = true) : (getNewRS s c).1.isSome = true := by
  unfold getNewRS
  cases hn : s.new with
  | none => simp [hn] at h
  | some r => simp

theorem distribute_new_isSome (s : State) (nw : Option RS) (cOlds : List RS) (cW : List Write) (toAdd : Int)
    (l : List RS) (h : nw.isSome = true) : (distribute s nw cOlds cW toAdd l).new.isSome = true := by
  unfold distribute
  simp only
  split
  · exact h
  · simp only
    split
    · rfl
    · exact h

theorem scale_new_isSome (s : State) (nw : Option RS) (olds : List RS) (h : nw.isSome = true) :
    (scale s nw olds).new.isSome = true := by
  unfold scale
  split
  · split
    · exact h
    · simp only
      split
      · rfl
      · exact h
  · split
    · exact h
    · unfold scaleProportional
      simp only
      generalize (if s.replicas > 0 then s.replicas else 0) - sumSpec (active (sortBy byCreationDesc olds ++ nw.toList)) = toAdd
      by_cases h1 : toAdd < 0
      · simp only [h1, if_true]
        by_cases h2 : (cleanup s olds (-toAdd)).err = true
        · simp only [h2, if_true]; exact h
        · simp only [h2, Bool.false_eq_true, if_false]
          exact distribute_new_isSome _ _ _ _ _ _ h
      · simp only [h1, if_false]
        exact distribute_new_isSome _ _ _ _ _ _ h

theorem sync_new_isSome (s : State) (h : s.new.isSome = true) : (sync s).new.isSome = true := by
  unfold sync
  split
  · exact getNewRS_isSome s false h
  · have hs : (syncScale s).new.isSome = true := by
      unfold syncScale
      exact scale_new_isSome s _ _ (getNewRS_isSome s false h)
    split
    · exact hs
    · split
      · exact hs
      · unfold rolloutRolling
        split
        · rename_i w hg
          have := getNewRS_isSome s true h
          rw [hg] at this; cases this
        · simp only
          split <;> rfl

theorem syncF_new_isSome (s : State) (k : Option Nat) (h : s.new.isSome = true) : (syncF s k).new.isSome = true := by
  unfold syncF
  cases k with
  | none => exact sync_new_isSome s h
  | some k =>
    simp only
    split
    · exact sync_new_isSome s h
    · simp only
      apply applyWrites_fst_isSome
      split
      · have h' : s.new.isNone = false := by
          cases hn : s.new with
          | none => simp [hn] at h
          | some _ => rfl
        simp only [h', Bool.false_and, Bool.false_eq_true, if_false]
        exact getNewRS_isSome s true h
      · exact getNewRS_isSome s false h

theorem syncPart_new_isSome (w : World) (h : w.s.new.isSome = true) : (syncPart w).new.isSome = true := by
  unfold syncPart
  cases w.sel with
  | bad => exact h
  | all => exact h
  | normal => exact syncF_new_isSome _ _ h

/-! ### errors of the normal path -/

theorem normalOut_err_of_sync (w : World) (h : (syncPart w).err = true) :
    (normalOut w).res = .err ∧ (normalOut w).errs.contains .sync = true := by
  rw [normalOut_res, normalOut_errs]
  simp [h]

theorem normalOut_err_of_extra (w : World) (h1 : needPatch w = true) (h2 : w.fault.extra = true) :
    (normalOut w).res = .err ∧ (normalOut w).errs.contains .extra = true := by
  rw [normalOut_res, normalOut_errs]
  simp [h1, h2]

theorem normalOut_calls (w : World) :
    (normalOut w).calls = (syncPart w).calls ++ (if needPatch w then [.extra (wantExtra w) (!w.fault.extra)] else []) := rfl

theorem normalOut_fired (w : World) :
    (normalOut w).fired = ((syncPart w).fired || (needPatch w && w.fault.extra)) := rfl

end RV.Lemmas.DepCtl
