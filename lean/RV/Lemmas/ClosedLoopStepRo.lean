/-
  Label `ro`: one Rollout reconcile preserves the forward-rollout invariant (and cannot crash).
-/
import RV.Lemmas.ClosedLoop
import RV.Lemmas.ClosedLoopArith
namespace RV.Lemmas.ClosedLoop
open RV.Arith RV.Traffic RV.RolloutSM RV.ClosedLoop RV.Oracle.ClosedLoop RV.Oracle.Batch RV.Props.Reconcile

/-! ### the invariant in parts, and how a reconcile result lands -/

theorem fwd_parts (s : CS) (h : fwdInv s = true) :
    s.gone = false ∧ RoGood s.ro ∧ ∃ w, s.wl = some w ∧ wlOK w = true ∧ planMono w.replicas (planOf s.ro) = true ∧
      brOKo s.br = true ∧ phaseInv s w = true := by
  obtain ⟨h1, w, h2, h3, h4, h5, h6⟩ := (fwdInv_iff s).1 h
  obtain ⟨g1, g2⟩ := (roOK_iff s).1 h1
  exact ⟨g1, g2, w, h2, h3, h4, h5, h6⟩

/-- the phase-dependent part reads the state through rollout, BatchRelease and network only -/
theorem phaseInv_ext (s s' : CS) (w : CWl) (h1 : s'.ro = s.ro) (h2 : s'.br = s.br) (h3 : s'.net = s.net) :
    phaseInv s' w = phaseInv s w := by
  unfold phaseInv; rw [h1, h2, h3]

/-- the general landing: a reconcile result whose BatchRelease / workload writes land as `(br', some w')` -/
theorem land_fwd (s : CS) (r : StepResult) (w' : CWl) (br' : Option CBr)
    (hgone0 : s.gone = false) (hrec : reconcile (roWorld s) = .val r) (hgone : r.roGone = false)
    (hland : landBR s.br r.w.br (annoLand s.wl r.w.wl) = (br', some w'))
    (hg0 : RoGood s.ro) (hk : SpecKept s.ro r.w.ro) (hwok : wlOK w' = true)
    (hmono0 : planMono w'.replicas (planOf s.ro) = true) (hbr : brOKo br' = true)
    (hpi : phaseInv ⟨false, r.w.ro, some w', br', r.w.net, r.w.mem⟩ w' = true) :
    ∃ s', stepRo s = some s' ∧ fwdInv s' = true := by
  refine ⟨landRo s r, stepRo_eq s hgone0 r hrec, ?_⟩
  have e : landRo s r = ⟨false, r.w.ro, some w', br', r.w.net, r.w.mem⟩ := by
    unfold landRo; rw [hland, hgone]
  rw [e]
  have hg : RoGood r.w.ro := hk.good hg0
  have hmono : planMono w'.replicas (planOf r.w.ro) = true := by rw [planOf_same hk.1]; exact hmono0
  exact fwdInv_mk _ w' rfl hg rfl hwok hmono hbr hpi

/-- a reconcile that wrote neither the workload nor the BatchRelease -/
theorem status_fwd (s : CS) (r : StepResult) (w : CWl) (hgone0 : s.gone = false) (hw : s.wl = some w)
    (hrec : reconcile (roWorld s) = .val r) (hgone : r.roGone = false)
    (hwl : r.w.wl = (roWorld s).wl) (hbr : r.w.br = (roWorld s).br)
    (hg0 : RoGood s.ro) (hk : SpecKept s.ro r.w.ro) (hwok : wlOK w = true)
    (hmono0 : planMono w.replicas (planOf s.ro) = true) (hbrok : brOKo s.br = true)
    (hpi : phaseInv ⟨false, r.w.ro, some w, s.br, r.w.net, r.w.mem⟩ w = true) :
    ∃ s', stepRo s = some s' ∧ fwdInv s' = true := by
  refine land_fwd s r w s.br hgone0 hrec hgone ?_ hg0 hk hwok hmono0 hbrok hpi
  rw [hwl, hbr]
  show landBR s.br (s.br.map roBr) (annoLand s.wl (s.wl.map roWl)) = _
  rw [annoLand_id, landBR_id, hw]

theorem world_wl (s : CS) (w : CWl) (hw : s.wl = some w) : (roWorld s).wl = some (roWl w) := by
  show s.wl.map roWl = _
  rw [hw]; rfl

/-! ### the waiting reconcile -/

theorem fwd_wait (s : CS) (w : CWl) (h : fwdInv s = true) (hgone : s.gone = false) (hg : RoGood s.ro) (hw : s.wl = some w)
    (hc : (roWl w).consistent = false) : ∃ s', stepRo s = some s' ∧ fwdInv s' = true := by
  have hrec := reconcile_wait (roWorld s) (roWl w) hg (world_wl s w hw) hc
  refine ⟨landRo s _, stepRo_eq s hgone _ hrec, ?_⟩
  rw [landRo_status s _ rfl rfl rfl rfl]
  have e : ({ s with gone := false, ro := s.ro } : CS) = s := by
    cases s; simp only at hgone; subst hgone; rfl
  show fwdInv { s with gone := false, ro := s.ro } = true
  rw [e]; exact h

/-! ### Healthy, Completed -/

theorem csPhase_healthy (ro o : Rollout) (wl : WL) (h : o.phase = .healthy) :
    (wl.inProgressAnno = true ∧ (csPhase ro o wl).phase = .progressing ∧ (csPhase ro o wl).reason = .initializing) ∨
    (wl.inProgressAnno = false ∧ (csPhase ro o wl).phase = .healthy) := by
  unfold csPhase
  rw [h]
  dsimp only
  cases ha : wl.inProgressAnno
  · right
    refine ⟨rfl, ?_⟩
    rw [if_neg (by simp)]
    split
    · rfl
    · exact h
  · left
    rw [if_pos rfl]
    exact ⟨rfl, rfl, rfl⟩

theorem fwd_healthy (s : CS) (w : CWl) (hgone : s.gone = false) (hg : RoGood s.ro) (hw : s.wl = some w)
    (hwok : wlOK w = true) (hmono : planMono w.replicas (planOf s.ro) = true) (hbr : brOKo s.br = true)
    (hpi : phaseInv s w = true) (hc : (roWl w).consistent = true) (hph : s.ro.phase = .healthy) :
    ∃ s', stepRo s = some s' ∧ fwdInv s' = true := by
  have hrec := reconcile_healthy (roWorld s) (roWl w) hg (world_wl s w hw) hc hph
  have hcs := cs_good' s.ro (roWl w) hg hc (by rw [hph]; decide)
  have hk := cs_specKept _ _ _ hcs
  rw [phaseInv_healthy s w hph] at hpi
  simp only [Bool.and_eq_true, Bool.or_eq_true, Bool.not_eq_true'] at hpi
  obtain ⟨hnone, hanno⟩ := hpi
  refine status_fwd s _ w hgone hw hrec rfl rfl rfl hg hk hwok hmono hbr ?_
  rcases csPhase_healthy s.ro (csObserve s.ro (roWl w)) (roWl w) ((csObserve_same _ _).2.2.trans hph) with ⟨a, p, q⟩ | ⟨a, p⟩
  · rw [phaseInv_init _ w p q]
    have a' : w.inProgressAnno = true := a
    rcases hanno with hanno | hanno
    · rw [a'] at hanno; cases hanno
    · simp only [Bool.and_eq_true]; exact ⟨hnone, hanno⟩
  · rw [phaseInv_healthy _ w p]
    have a' : w.inProgressAnno = false := a
    simp only [Bool.and_eq_true, Bool.or_eq_true, Bool.not_eq_true']
    exact ⟨hnone, Or.inl a'⟩

theorem fwd_completed (s : CS) (w : CWl) (hgone : s.gone = false) (hg : RoGood s.ro) (hw : s.wl = some w)
    (hwok : wlOK w = true) (hmono : planMono w.replicas (planOf s.ro) = true) (hbr : brOKo s.br = true)
    (hpi : phaseInv s w = true) (hc : (roWl w).consistent = true) (hph : s.ro.phase = .progressing)
    (hr : s.ro.reason = .completed) : ∃ s', stepRo s = some s' ∧ fwdInv s' = true := by
  have hrec := reconcile_completed (roWorld s) (roWl w) hg (world_wl s w hw) hc hph hr
  have hk : SpecKept s.ro { csObserve s.ro (roWl w) with phase := .healthy } :=
    ⟨(csObserve_same s.ro (roWl w)).1, (csObserve_frame s.ro (roWl w)).1⟩
  rw [phaseInv_completed s w hph hr] at hpi
  simp only [Bool.and_eq_true, Bool.not_eq_true'] at hpi
  obtain ⟨hnone, hanno⟩ := hpi
  refine status_fwd s _ w hgone hw hrec rfl rfl rfl hg hk hwok hmono hbr ?_
  rw [phaseInv_healthy _ w rfl]
  simp only [Bool.and_eq_true, Bool.or_eq_true, Bool.not_eq_true']
  exact ⟨hnone, Or.inl hanno⟩

/-! ### the Bool oracles as propositions -/

theorem subOK_iff (ro : Rollout) (sub : Sub) (w : CWl) : subOK ro sub w = true ↔ SubGood ro sub w.updateRevision := by
  unfold subOK
  simp only [Bool.and_eq_true, decide_eq_true_eq, bne_iff_ne, beq_iff_eq, ne_eq]
  constructor
  · rintro ⟨⟨⟨⟨⟨⟨h1, h2⟩, h3⟩, h4⟩, h5⟩, h6⟩, h7⟩
    exact ⟨h1, h2, h3, h4, h5, h6, h7⟩
  · intro h
    exact ⟨⟨⟨⟨⟨⟨h.lo, h.hi⟩, h.next⟩, h.lu⟩, h.hash⟩, h.rev⟩, h.fin⟩

theorem brOK_iff' (b : CBr) : brOK b = true ↔
    b.batches ≠ [] ∧ 0 ≤ b.st.currentBatch ∧ (∀ p, b.partition = some p → 0 ≤ p) ∧ b.rollbackAnno = false ∧
      b.st.noNeedUpdate = none := by
  unfold brOK
  simp only [Bool.and_eq_true, Bool.not_eq_true', decide_eq_true_eq, List.isEmpty_eq_false_iff, Option.isNone_iff_eq_none]
  constructor
  · rintro ⟨⟨⟨⟨h1, h2⟩, h3⟩, h4⟩, h5⟩
    refine ⟨h1, h2, ?_, h4, h5⟩
    intro p hp
    rw [hp] at h3
    simpa using h3
  · rintro ⟨h1, h2, h3, h4, h5⟩
    refine ⟨⟨⟨⟨h1, h2⟩, ?_⟩, h4⟩, h5⟩
    cases hp : b.partition with
    | none => rfl
    | some p => simpa using h3 p hp

theorem linkOK_iff' (ro : Rollout) (s : Sub) (b : CBr) : linkOK ro s b = true ↔
    b.batches = planOf ro ∧ (∃ p, b.partition = some p ∧ 0 ≤ p ∧ p ≤ s.curIdx - 1 ∧ b.st.currentBatch ≤ p) ∧
      b.deleting = false ∧ (b.st.phase = .empty ∨ b.st.phase = .preparing ∨ b.st.phase = .progressing) := by
  unfold linkOK
  simp only [Bool.and_eq_true, Bool.or_eq_true, Bool.not_eq_true', beq_iff_eq, or_assoc]
  constructor
  · rintro ⟨⟨⟨h1, h2⟩, h3⟩, h4⟩
    refine ⟨h1, ?_, h3, h4⟩
    cases hp : b.partition with
    | none => rw [hp] at h2; cases h2
    | some p => rw [hp] at h2; exact ⟨p, rfl, by simpa using h2⟩
  · rintro ⟨h1, ⟨p, hp, h2⟩, h3, h4⟩
    refine ⟨⟨⟨h1, ?_⟩, h3⟩, h4⟩
    rw [hp]; simpa using h2

theorem held_iff (w : CWl) : held w = true ↔ w.partition = some (.pct 100) := by
  unfold held; exact beq_iff_eq

theorem planOf_length (ro : Rollout) : (planOf ro).length = ro.steps.length := by
  unfold planOf; exact List.length_map _

theorem steps_pos (ro : Rollout) (h : ro.steps ≠ []) : (1 : Int) ≤ ro.steps.length := by
  have : 0 < ro.steps.length := List.length_pos_iff.mpr h
  omega

/-- a workload held back at 100 % is within any step of the plan -/
theorem withinCur_held (ro : Rollout) (sub : Sub) (w : CWl) (hheld : held w = true) (hR : 0 ≤ w.replicas)
    (hidx : (sub.curIdx - 1).toNat < ro.steps.length) : withinCur ro sub w = true := by
  unfold withinCur
  rw [(held_iff w).1 hheld, List.getElem?_eq_getElem (by rw [planOf_length]; exact hidx)]
  exact within_held _ _ _ hR

/-! ### Initializing -/

theorem fwd_initializing (s : CS) (w : CWl) (hgone : s.gone = false) (hg : RoGood s.ro) (hw : s.wl = some w)
    (hwok : wlOK w = true) (hmono : planMono w.replicas (planOf s.ro) = true) (hbr : brOKo s.br = true)
    (hpi : phaseInv s w = true) (hc : (roWl w).consistent = true) (hph : s.ro.phase = .progressing)
    (hr : s.ro.reason = .initializing) : ∃ s', stepRo s = some s' ∧ fwdInv s' = true := by
  obtain ⟨o1, _, o3⟩ := csObserve_same s.ro (roWl w)
  obtain ⟨f1, f2⟩ := csObserve_frame s.ro (roWl w)
  have hpi0 := hpi
  rw [phaseInv_init s w hph hr] at hpi
  simp only [Bool.and_eq_true] at hpi
  obtain ⟨hnone, hheld⟩ := hpi
  have hR : 0 ≤ w.replicas := by
    unfold wlOK at hwok
    simp only [Bool.and_eq_true, decide_eq_true_eq] at hwok
    exact hwok.1.1.1.2
  rcases reconcile_initializing (roWorld s) (roWl w) hg (world_wl s w hw) hc hph hr with hrec | hrec | hrec
  · refine status_fwd s _ w hgone hw hrec rfl rfl rfl hg ⟨Same.rfl' _, rfl⟩ hwok hmono hbr ?_
    exact (phaseInv_ext s ⟨false, s.ro, some w, s.br, s.net, s.mem⟩ w rfl rfl rfl).trans hpi0
  · have hk : SpecKept s.ro { csObserve s.ro (roWl w) with sub := some (initSub s.ro (roWl w)) } := ⟨o1, f1⟩
    refine status_fwd s _ w hgone hw hrec rfl rfl rfl hg hk hwok hmono hbr ?_
    rw [phaseInv_init _ w (o3.trans hph) (f2.trans hr)]
    simp only [Bool.and_eq_true]; exact ⟨hnone, hheld⟩
  · have hk : SpecKept s.ro { csObserve s.ro (roWl w) with sub := some (initSub s.ro (roWl w)), reason := .inRolling } := ⟨o1, f1⟩
    refine status_fwd s _ w hgone hw hrec rfl rfl rfl hg hk hwok hmono hbr ?_
    rw [phaseInv_rolling _ w (initSub s.ro (roWl w)) (o3.trans hph) rfl rfl]
    have hlen := steps_pos s.ro hg.steps
    have hst : (csObserve s.ro (roWl w)).steps = s.ro.steps := o1.1
    simp only [Bool.and_eq_true]
    refine ⟨⟨?_, ?_⟩, ?_⟩
    · rw [subOK_iff]
      refine ⟨Int.le_refl _, ?_, ?_, fresh_ne, rfl, rfl, rfl⟩
      · show (1 : Int) ≤ (csObserve s.ro (roWl w)).steps.length
        rw [hst]; exact hlen
      · show nextBatchIndex s.ro.steps.length 1 = nextBatchIndex (csObserve s.ro (roWl w)).steps.length 1
        rw [hst]
    · have : s.br = none := by simpa using hnone
      rw [this]; rfl
    · apply withinCur_held _ _ _ hheld hR
      show (1 - 1 : Int).toNat < (csObserve s.ro (roWl w)).steps.length
      rw [hst]
      have : 0 < s.ro.steps.length := List.length_pos_iff.mpr hg.steps
      simpa using this

/-! ### an update of an existing BatchRelease landing -/

/-- what a landed update keeps of the stored object and takes from the written one -/
structure UpdOK (c : CBr) (b : BR) (c2 : CBr) : Prop where
  batches : c2.batches = b.batches
  partition : c2.partition = b.partition
  rollbackAnno : c2.rollbackAnno = b.rollbackAnno
  cb : c2.st.currentBatch = c.st.currentBatch
  phase : c2.st.phase = c.st.phase
  nnu : c2.st.noNeedUpdate = c.st.noNeedUpdate

theorem spec_same (c : CBr) (b : BR) (h : specChanged c b = false) : c.batches = b.batches ∧ c.partition = b.partition := by
  unfold specChanged at h
  simp only [Bool.not_eq_false', Bool.and_eq_true, beq_iff_eq] at h
  exact ⟨h.1.1.1.1, h.1.1.1.2⟩

/-- the object after the spec / annotation part of an update landed (before a delete is looked at) -/
def upd2 (c : CBr) (b : BR) : CBr :=
  { (if specChanged c b then
      { c with batches := b.batches, partition := b.partition, rolloutID := b.rolloutID, policy := b.policy,
               specOther := b.specOther, failureThreshold := if b.specOther then none else c.failureThreshold,
               generation := c.generation + 1,
               st := { c.st with hash := if c.st.hash = .same then .differs else c.st.hash } }
     else c) with rollbackAnno := b.rollbackAnno }

theorem updatedBr_eq (c : CBr) (b : BR) :
    updatedBr c b = if b.deleting ∧ ¬ c.deleting then (if c.hasFinalizer then some { upd2 c b with deleting := true } else none)
      else some (upd2 c b) := rfl

theorem upd2_ok (c : CBr) (b : BR) : UpdOK c b (upd2 c b) ∧ (upd2 c b).deleting = c.deleting := by
  unfold upd2
  cases hch : specChanged c b
  · obtain ⟨h1, h2⟩ := spec_same c b hch
    rw [if_neg (by simp)]
    exact ⟨⟨h1, h2, rfl, rfl, rfl, rfl⟩, rfl⟩
  · rw [if_pos rfl]
    exact ⟨⟨rfl, rfl, rfl, rfl, rfl, rfl⟩, rfl⟩

/-- an update that does not delete: the object stays -/
theorem updatedBr_some (c : CBr) (b : BR) (hd : b.deleting = c.deleting) :
    ∃ c2, updatedBr c b = some c2 ∧ UpdOK c b c2 ∧ c2.deleting = c.deleting := by
  rw [updatedBr_eq, if_neg (by rw [hd]; simp)]
  exact ⟨_, rfl, (upd2_ok c b).1, (upd2_ok c b).2⟩

/-- any update: the object is gone, or stays -/
theorem updatedBr_any (c : CBr) (b : BR) : updatedBr c b = none ∨ ∃ c2, updatedBr c b = some c2 ∧ UpdOK c b c2 := by
  obtain ⟨⟨h1, h2, h3, h4, h5, h6⟩, _⟩ := upd2_ok c b
  rw [updatedBr_eq]
  split
  · split
    · exact Or.inr ⟨_, rfl, ⟨h1, h2, h3, h4, h5, h6⟩⟩
    · exact Or.inl rfl
  · exact Or.inr ⟨_, rfl, ⟨h1, h2, h3, h4, h5, h6⟩⟩

theorem map_roBr_some (cbr : Option CBr) (b : BR) (h : cbr.map roBr = some b) : ∃ c, cbr = some c ∧ roBr c = b := by
  cases cbr with
  | none => cases h
  | some c => exact ⟨c, rfl, by simpa using h⟩

theorem map_roBr_none (cbr : Option CBr) (h : cbr.map roBr = none) : cbr = none := by
  cases cbr with
  | none => rfl
  | some c => cases h

/-! ### InRolling -/

theorem linkOKo_mono (ro : Rollout) (sub s' : Sub) (br : Option CBr) (hle : sub.curIdx ≤ s'.curIdx)
    (h : linkOKo ro sub br = true) : linkOKo ro s' br = true := by
  cases br with
  | none => rfl
  | some c =>
    have h' : linkOK ro sub c = true := h
    show linkOK ro s' c = true
    rw [linkOK_iff'] at h' ⊢
    obtain ⟨h1, ⟨p, hp, a, b, d⟩, h3, h4⟩ := h'
    exact ⟨h1, ⟨p, hp, a, by omega, d⟩, h3, h4⟩

/-- how the BatchRelease write of one release-manager round lands, and that the three cursors stay ordered -/
theorem roll_land (ro : Rollout) (id : String) (sub s' : Sub) (cbr : Option CBr) (nb : Option BR) (w : CWl)
    (hsteps : ro.steps ≠ []) (h : BrRoll ro sub.curIdx id (cbr.map roBr) nb) (hlo : 1 ≤ sub.curIdx)
    (hle : sub.curIdx ≤ s'.curIdx) (hbrok : brOKo cbr = true) (hlink : linkOKo ro sub cbr = true) :
    ∃ br' o, landBR cbr nb (some w) = (br', some { w with owner := o }) ∧ brOKo br' = true ∧ linkOKo ro s' br' = true := by
  have hplan : planOf ro ≠ [] := by
    unfold planOf; intro hh; exact hsteps (List.map_eq_nil_iff.mp hh)
  generalize hb0 : cbr.map roBr = b0 at h
  cases h with
  | same =>
    subst hb0
    exact ⟨cbr, w.owner, by rw [landBR_id], hbrok, linkOKo_mono ro sub s' cbr hle hlink⟩
  | created =>
    have hn := map_roBr_none cbr hb0
    subst hn
    refine ⟨some (createdBr (desiredBR ro id (sub.curIdx - 1) false)), (if w.owner = .this then .other else w.owner), ?_, ?_, ?_⟩
    · show (some (createdBr _), some (if w.owner = .this then { w with owner := .other } else w)) = _
      split
      · rfl
      · rfl
    · show brOK _ = true
      rw [brOK_iff']
      refine ⟨hplan, Int.le_refl _, ?_, rfl, rfl⟩
      intro p hp
      have : sub.curIdx - 1 = p := by
        have hp' : some (sub.curIdx - 1) = some p := hp
        exact Option.some.inj hp'
      omega
    · show linkOK _ _ _ = true
      rw [linkOK_iff']
      refine ⟨rfl, ⟨sub.curIdx - 1, rfl, by omega, by omega, ?_⟩, rfl, Or.inl rfl⟩
      show (0 : Int) ≤ sub.curIdx - 1
      omega
  | kept b b' k1 k2 k3 k4 =>
    obtain ⟨c, hc, hcb⟩ := map_roBr_some cbr b hb0
    subst hc
    subst hcb
    have hbrok' : brOK c = true := hbrok
    have hlink' : linkOK ro sub c = true := hlink
    obtain ⟨c2, e, u, ud⟩ := updatedBr_some c b' k1
    refine ⟨some c2, w.owner, ?_, ?_, ?_⟩
    · show (updatedBr c b', some w) = _
      rw [e]
    · show brOK c2 = true
      rw [brOK_iff'] at hbrok' ⊢
      obtain ⟨a1, a2, a3, a4, a5⟩ := hbrok'
      refine ⟨by rw [u.batches, k2]; exact a1, by rw [u.cb]; exact a2, ?_, by rw [u.rollbackAnno, k4]; exact a4,
        by rw [u.nnu]; exact a5⟩
      intro p hp
      rw [u.partition, k3] at hp
      exact a3 p hp
    · show linkOK ro s' c2 = true
      rw [linkOK_iff'] at hlink' ⊢
      obtain ⟨l1, ⟨p, hp, l2, l3, l4⟩, l5, l6⟩ := hlink'
      refine ⟨by rw [u.batches, k2]; exact l1, ⟨p, by rw [u.partition, k3]; exact hp, l2, by omega, by rw [u.cb]; exact l4⟩,
        by rw [ud]; exact l5, by rw [u.phase]; exact l6⟩
  | updated b b' k1 k2 k3 k4 =>
    obtain ⟨c, hc, hcb⟩ := map_roBr_some cbr b hb0
    subst hc
    subst hcb
    have hbrok' : brOK c = true := hbrok
    have hlink' : linkOK ro sub c = true := hlink
    obtain ⟨c2, e, u, ud⟩ := updatedBr_some c b' k1
    rw [brOK_iff'] at hbrok'
    rw [linkOK_iff'] at hlink'
    obtain ⟨a1, a2, a3, a4, a5⟩ := hbrok'
    obtain ⟨l1, ⟨p, hp, l2, l3, l4⟩, l5, l6⟩ := hlink'
    refine ⟨some c2, w.owner, ?_, ?_, ?_⟩
    · show (updatedBr c b', some w) = _
      rw [e]
    · show brOK c2 = true
      rw [brOK_iff']
      refine ⟨by rw [u.batches, k2]; exact hplan, by rw [u.cb]; exact a2, ?_, by rw [u.rollbackAnno, k4],
        by rw [u.nnu]; exact a5⟩
      intro q hq
      rw [u.partition, k3] at hq
      have : sub.curIdx - 1 = q := Option.some.inj hq
      omega
    · show linkOK ro s' c2 = true
      rw [linkOK_iff']
      refine ⟨by rw [u.batches, k2]; rfl, ⟨sub.curIdx - 1, by rw [u.partition, k3], by omega, by omega, ?_⟩,
        by rw [ud]; exact l5, by rw [u.phase]; exact l6⟩
      rw [u.cb]; omega

theorem noRollback (w : CWl) (h : wlOK w = true) : (roWl w).inRollback = false := by
  unfold wlOK at h
  simp only [Bool.and_eq_true, Bool.or_eq_true, beq_iff_eq, bne_iff_ne, decide_eq_true_eq] at h
  obtain ⟨⟨⟨⟨h1, _⟩, _⟩, h4⟩, _⟩ := h
  show (w.inProgressAnno && decide (w.currentRevision = w.updateRevision) && decide (w.updated ≠ w.statusReplicas)) = false
  by_cases he : w.currentRevision = w.updateRevision
  · rcases h4 with h4 | h4
    · exact absurd he.symm h4
    · simp [h4, h1]
  · simp [he]

/-- the exposure bound survives a step forward along a monotone plan -/
theorem withinCur_step (ro ro' : Rollout) (sub s' : Sub) (w w' : CWl) (hp : planOf ro' = planOf ro)
    (hpart : w'.partition = w.partition) (hrep : w'.replicas = w.replicas)
    (hmono : planMono w.replicas (planOf ro) = true) (hlo : 1 ≤ sub.curIdx) (hle : sub.curIdx ≤ s'.curIdx)
    (hhi : s'.curIdx ≤ ro.steps.length) (h : withinCur ro sub w = true) : withinCur ro' s' w' = true := by
  unfold withinCur at h ⊢
  rw [hp, hpart, hrep]
  cases hk : w.partition with
  | none => rw [hk] at h; cases h
  | some k =>
    cases he : (planOf ro)[(sub.curIdx - 1).toNat]? with
    | none => rw [hk, he] at h; cases h
    | some e =>
      rw [hk, he] at h
      have hidx : (s'.curIdx - 1).toNat < (planOf ro).length := by rw [planOf_length]; omega
      have he' : (planOf ro)[(s'.curIdx - 1).toNat]? = some ((planOf ro)[(s'.curIdx - 1).toNat]) := List.getElem?_eq_getElem hidx
      rw [he']
      exact within_mono _ _ e _ k
        (planMono_le _ _ hmono (sub.curIdx - 1).toNat (s'.curIdx - 1).toNat _ _ (by omega) he he') h

theorem linkOKo_congr' (ro ro' : Rollout) (sub : Sub) (br : Option CBr) (h : planOf ro' = planOf ro) :
    linkOKo ro' sub br = linkOKo ro sub br := by
  unfold linkOKo linkOK; rw [h]

theorem fwd_rolling (s : CS) (w : CWl) (hgone : s.gone = false) (hg : RoGood s.ro) (hw : s.wl = some w)
    (hwok : wlOK w = true) (hmono : planMono w.replicas (planOf s.ro) = true) (hbr : brOKo s.br = true)
    (hpi : phaseInv s w = true) (hc : (roWl w).consistent = true) (hph : s.ro.phase = .progressing)
    (hr : s.ro.reason = .inRolling) : ∃ s', stepRo s = some s' ∧ fwdInv s' = true := by
  cases hs : s.ro.sub with
  | none =>
    unfold phaseInv at hpi
    rw [hph, hr] at hpi
    dsimp only at hpi
    rw [hs] at hpi
    cases hpi
  | some sub =>
    rw [phaseInv_rolling s w sub hph hr hs] at hpi
    simp only [Bool.and_eq_true] at hpi
    obtain ⟨⟨hsubok, hlink⟩, hwithin⟩ := hpi
    have hsg : SubGood s.ro sub (roWl w).canaryRev := (subOK_iff s.ro sub w).1 hsubok
    obtain ⟨r, hrec, hrg, hk, hrph, hrwl, hout⟩ :=
      rolling_step (roWorld s) (roWl w) sub hg hph hr (world_wl s w hw) hc (noRollback w hwok) hs hsg
    have hk' : SpecKept s.ro r.w.ro := hk
    rcases hout with ⟨hrr, ⟨s', hs', hfs⟩, hrbr, _⟩ | ⟨hrr, ⟨s', hs', hsg', hle1, _⟩, hroll⟩
    · refine status_fwd s r w hgone hw hrec hrg (hrwl.trans (world_wl s w hw).symm) hrbr hg hk' hwok hmono hbr ?_
      rw [phaseInv_fin _ w s' hrph hrr hs', hfs]
      simp only [Bool.and_eq_true]
      refine ⟨by unfold RV.Oracle.Cluster.cursorOk; rfl, ?_⟩
      unfold RV.Oracle.Cluster.finInv
      rw [RV.Props.Cluster.tbl_empty_done]; rfl
    · obtain ⟨br', o, hland, hbrok', hlink'⟩ :=
        roll_land s.ro (getRolloutID (roWl w)) sub s' s.br r.w.br w hg.steps hroll hsg.lo hle1 hbr hlink
      have hplan : planOf r.w.ro = planOf s.ro := planOf_same hk'.1
      refine land_fwd s r { w with owner := o } br' hgone hrec hrg ?_ hg hk' hwok hmono hbrok' ?_
      · rw [hw, hrwl]
        show landBR s.br r.w.br (annoLand (some w) ((some w).map roWl)) = _
        rw [annoLand_id]; exact hland
      · rw [phaseInv_rolling _ _ s' hrph hrr hs']
        simp only [Bool.and_eq_true]
        refine ⟨⟨?_, ?_⟩, ?_⟩
        · rw [subOK_iff]; exact hsg'
        · exact (linkOKo_congr' s.ro r.w.ro s' br' hplan).trans hlink'
        · refine withinCur_step s.ro r.w.ro sub s' w { w with owner := o } hplan rfl rfl hmono hsg.lo hle1 ?_ hwithin
          have := hsg'.hi
          rw [hk'.1.1] at this
          exact this

/-! ### Finalising -/

/-- how the BatchRelease write of one clean-up round lands: the stored object stays good, and nothing the round
    removed comes back through the landing -/
theorem fin_land (cbr : Option CBr) (nb : Option BR) (wl : Option CWl) (h : BrFin (cbr.map roBr) nb)
    (hbrok : brOKo cbr = true) :
    ∃ br', landBR cbr nb wl = (br', wl) ∧ brOKo br' = true ∧ RV.Props.Cluster.BrLE nb (br'.map roBr) ∧
      (nb = none → br' = none) := by
  generalize hb0 : cbr.map roBr = b0 at h
  cases h with
  | same =>
    subst hb0
    refine ⟨cbr, landBR_id _ _, hbrok, RV.Props.Cluster.BrLE.refl _, fun hn => map_roBr_none cbr hn⟩
  | changed b b' k1 k2 k3 k4 k5 =>
    obtain ⟨c, hc, hcb⟩ := map_roBr_some cbr b hb0
    subst hc
    subst hcb
    have hbrok' : brOK c = true := hbrok
    refine ⟨updatedBr c b', rfl, ?_, ?_, fun hn => by cases hn⟩
    · rcases updatedBr_any c b' with e | ⟨c2, e, u⟩
      · rw [e]; rfl
      · rw [e]
        show brOK c2 = true
        rw [brOK_iff'] at hbrok' ⊢
        obtain ⟨a1, a2, a3, a4, a5⟩ := hbrok'
        refine ⟨by rw [u.batches, k1]; exact a1, by rw [u.cb]; exact a2, ?_, by rw [u.rollbackAnno, k2]; exact a4,
          by rw [u.nnu]; exact a5⟩
        intro p hp
        rw [u.partition] at hp
        rcases k4 with k4 | k4
        · rw [k4] at hp; exact a3 p hp
        · rw [k4] at hp; cases hp
    · rcases updatedBr_any c b' with e | ⟨c2, e, u⟩
      · rw [e]
        exact ⟨fun _ => rfl, fun _ _ _ _ => Or.inl rfl⟩
      · rw [e]
        refine ⟨fun hn => (by cases hn), fun b hb hp hcpl => Or.inr ⟨roBr c2, rfl, ?_, ?_⟩⟩
        · have hb' : b' = b := Option.some.inj hb
          subst hb'
          show c2.partition.isNone = true
          rw [u.partition]; exact hp
        · have hb' : b' = b := Option.some.inj hb
          subst hb'
          show decide (c2.st.phase = .completed) = true
          rw [u.phase]
          have : (roBr c).phaseCompleted = true := by rw [← k3]; exact hcpl
          exact this

theorem fwd_finalising (s : CS) (w : CWl) (hgone : s.gone = false) (hg : RoGood s.ro) (hw : s.wl = some w)
    (hwok : wlOK w = true) (hmono : planMono w.replicas (planOf s.ro) = true) (hbr : brOKo s.br = true)
    (hpi : phaseInv s w = true) (hc : (roWl w).consistent = true) (hph : s.ro.phase = .progressing)
    (hr : s.ro.reason = .finalising) : ∃ s', stepRo s = some s' ∧ fwdInv s' = true := by
  cases hs : s.ro.sub with
  | none =>
    unfold phaseInv at hpi
    rw [hph, hr] at hpi
    dsimp only at hpi
    rw [hs] at hpi
    cases hpi
  | some sub =>
    rw [phaseInv_fin s w sub hph hr hs] at hpi
    simp only [Bool.and_eq_true] at hpi
    obtain ⟨hcur, hinv⟩ := hpi
    obtain ⟨r, hrec, hrg, hk, hrph, hrwl, hbfin, hout⟩ :=
      finalising_step (roWorld s) (roWl w) sub hg hph hr (world_wl s w hw) hc hs hcur hinv
    have hk' : SpecKept s.ro r.w.ro := hk
    obtain ⟨br', hland, hbrok', hble, hnone⟩ := fin_land s.br r.w.br (some { w with inProgressAnno := false }) hbfin hbr
    refine land_fwd s r { w with inProgressAnno := false } br' hgone hrec hrg ?_ hg hk' hwok hmono hbrok' ?_
    · rw [hw, hrwl]
      exact hland
    · rcases hout with ⟨hrr, s', hs', hcur', hinv'⟩ | ⟨hrr, hrbr⟩
      · rw [phaseInv_fin _ _ s' hrph hrr hs']
        simp only [Bool.and_eq_true]
        exact ⟨hcur', RV.Props.Cluster.finInv_mono _ _ _ _ _ _ _ (RV.Props.Cluster.NetLE.refl _) hble hinv'⟩
      · rw [phaseInv_completed _ _ hrph hrr]
        rw [hnone hrbr]
        rfl

/-! ### one Rollout reconcile -/

theorem stepRo_fwd (s : CS) (h : fwdInv s = true) : ∃ s', stepRo s = some s' ∧ fwdInv s' = true := by
  obtain ⟨hgone, hg, w, hw, hwok, hmono, hbr, hpi⟩ := fwd_parts s h
  cases hc : (roWl w).consistent with
  | false => exact fwd_wait s w h hgone hg hw hc
  | true =>
    have hpi' := hpi
    unfold phaseInv at hpi'
    split at hpi'
    · rename_i hph
      exact fwd_healthy s w hgone hg hw hwok hmono hbr hpi hc hph
    · rename_i hph hr
      exact fwd_initializing s w hgone hg hw hwok hmono hbr hpi hc hph hr
    · rename_i hph hr
      exact fwd_rolling s w hgone hg hw hwok hmono hbr hpi hc hph hr
    · rename_i hph hr
      exact fwd_finalising s w hgone hg hw hwok hmono hbr hpi hc hph hr
    · rename_i hph hr
      exact fwd_completed s w hgone hg hw hwok hmono hbr hpi hc hph hr
    · cases hpi'

end RV.Lemmas.ClosedLoop
