/-
  Label `ro`: one Rollout reconcile preserves the forward-rollout invariant (and cannot crash).
-/
import RV.Lemmas.ClosedLoop
import RV.Lemmas.ClosedLoopArith
namespace RV.Lemmas.ClosedLoop
open RV.Arith RV.Traffic RV.RolloutSM RV.ClosedLoop RV.Oracle.ClosedLoop RV.Oracle.Batch RV.Props.Reconcile

theorem stepRo_fwd (s : CS) (h : fwdInv s = true) : ∃ s', stepRo s = some s' ∧ fwdInv s' = true := by
  sorry

end RV.Lemmas.ClosedLoop
